(* Properties/C02.v — merging plain documents is a right-biased recursive mapping update.
   Only statements, each closed by `exact`, followed by Print Assumptions. *)
From AY Require Import Model.Merge Spec.Update Proofs.MergePlain Proofs.MergeNotNew Proofs.AppendE2E Proofs.PlainPath.

(* Full statement: for every sequence of tag-free mapping documents (any nesting, any keys, any number of stages,
   whatever the source-level safe marks / file names), the model of Builder.flatten returns a tree whose content is
   the left fold of Spec.Update.upd over the documents; and it fails with a MergeError exactly when the fold does
   (a mapping merged onto a list addressing a non-existing index). *)
Theorem C02_fold : forall (e : penv) (d0 : pdoc) (rest : list pdoc),
  forallb (fun d => is_PD (d_data d)) (d0 :: rest) = true ->
  match upd_fold (d_data d0) (map d_data rest) with
  | Ok r => exists n, flatten e (map load_plain (d0 :: rest)) = Ok n /\ erase n = r
  | Err _ _ => exists q, flatten e (map load_plain (d0 :: rest)) = Err EMerge q
  end.
Proof. exact flatten_plain. Qed.
Print Assumptions C02_fold.

(* no key is ever lost: every key of the older mapping and every key of the newer one is a key of the result *)
Theorem C02_no_key_lost : forall okv kv r k,
  upd (PD okv) (PD kv) = Ok (PD r) -> (ahas k okv = true \/ ahas k kv = true) -> ahas k r = true.
Proof.
  intros okv kv r k H [Hk|Hk]; rewrite upd_PD_PD in H; destruct (upd_dgo kv okv) eqn:E; cbn in H; inversion H; subst.
  - exact (upd_dgo_keeps _ _ _ _ E Hk).
  - exact (upd_dgo_adds _ _ _ _ E Hk).
Qed.
Print Assumptions C02_no_key_lost.

(* nothing not mentioned by the newer document changes *)
Theorem C02_untouched : forall okv kv r k,
  upd (PD okv) (PD kv) = Ok (PD r) -> aget k kv = None -> aget k r = aget k okv.
Proof.
  intros okv kv r k H Hk. rewrite upd_PD_PD in H. destruct (upd_dgo kv okv) eqn:E; cbn in H; inversion H; subst.
  exact (upd_dgo_untouched _ _ _ _ E Hk).
Qed.
Print Assumptions C02_untouched.

(* ---- path by path (extension round 7).  [puk d]: no mapping of d holds a key twice (every YAML mapping; the loader rejects duplicates).
   [pat d q]: the value d holds at the mapping path q.  [misses d q]: d leaves q at a mapping (some key on the way is absent from a mapping
   of d; a scalar or list met on the way is not a miss).  [through d q]: d can be followed along q through mappings (it never holds a
   list at a proper prefix of q - below a list the newer mapping addresses indices). ---- *)

(* key by key, one level: untouched, added, or merged recursively - nothing else can happen to a key *)
Theorem C02_pointwise : forall okv kv r k, NoDup (map fst kv) -> upd (PD okv) (PD kv) = Ok (PD r) ->
  match aget k kv, aget k okv with
  | None, o => aget k r = o
  | Some v, None => aget k r = Some v
  | Some v, Some ov => exists m, upd ov v = Ok m /\ aget k r = Some m
  end.
Proof. exact upd_pointwise. Qed.
Print Assumptions C02_pointwise.

(* key ORDER: the keys of the older mapping keep their positions, the new keys follow in the newer document's order *)
Theorem C02_key_order : forall okv kv r, NoDup (map fst kv) -> upd (PD okv) (PD kv) = Ok (PD r) ->
  map fst r = map fst okv ++ filter (fun k => negb (ahas k okv)) (map fst kv).
Proof. exact upd_key_order. Qed.
Print Assumptions C02_key_order.

(* nothing not mentioned by the newer document changes - at any depth *)
Theorem C02_untouched_at_any_depth : forall new, puk new -> forall old r q, upd old new = Ok r -> misses new q -> pat r q = pat old q.
Proof. exact upd_deep_untouched. Qed.
Print Assumptions C02_untouched_at_any_depth.

(* mappings under a common path are merged recursively - at any depth the result holds the update of what the older document held
   there by what the newer one holds there *)
Theorem C02_merged_at_any_depth : forall new, puk new -> forall old r q c, upd old new = Ok r -> pat new q = Some c -> through old q ->
  match pat old q with
  | Some ov => exists m, upd ov c = Ok m /\ pat r q = Some m
  | None => pat r q = Some c
  end.
Proof. exact upd_deep_hit. Qed.
Print Assumptions C02_merged_at_any_depth.

(* any other value (scalar or list) is replaced wholesale by the newer document's value - at any depth *)
Theorem C02_replaced_wholesale_at_any_depth : forall new old r q a,
  puk new -> upd old new = Ok r -> pat new q = Some a -> atom a -> through old q -> pat r q = Some a.
Proof. exact upd_deep_replaced. Qed.
Print Assumptions C02_replaced_wholesale_at_any_depth.

(* whole histories, for the tree Builder.flatten builds: no key of ANY document is lost ... *)
Theorem C02_history_no_key_lost : forall e d0 rest n, forallb (fun d => is_PD (d_data d)) (d0 :: rest) = true ->
  flatten e (map load_plain (d0 :: rest)) = Ok n ->
  exists rkv, erase n = PD rkv /\ forall d kv k, In d (d0 :: rest) -> d_data d = PD kv -> ahas k kv = true -> ahas k rkv = true.
Proof. exact flatten_no_key_lost. Qed.
Print Assumptions C02_history_no_key_lost.

(* ... a path that every later document leaves at a mapping still holds what the first document held there ... *)
Theorem C02_history_untouched : forall e d0 rest n q, forallb (fun d => is_PD (d_data d)) (d0 :: rest) = true ->
  Forall (fun d => puk (d_data d)) rest -> Forall (fun d => misses (d_data d) q) rest ->
  flatten e (map load_plain (d0 :: rest)) = Ok n -> pat (erase n) q = pat (d_data d0) q.
Proof. exact flatten_untouched. Qed.
Print Assumptions C02_history_untouched.

(* ... and the last document that mentions a path with a scalar or a list decides it, whatever came before *)
Theorem C02_history_last_value_decides : forall ds d0 d r r0 q a, Forall puk (d :: ds) -> Forall (fun d => misses d q) ds ->
  upd_fold d0 (d :: ds) = Ok r -> upd d0 d = Ok r0 -> pat d q = Some a -> atom a -> through d0 q -> pat r q = Some a.
Proof. exact upd_fold_last_atom. Qed.
Print Assumptions C02_history_last_value_decides.

(* non-vacuity of the path statements: a miss below a common key, a list replaced two levels down, key order *)
Example C02_path_example :
  let S n := PS (SInt n) in
  let old := PD [(KS 1, PD [(KS 2, S 1); (KS 3, PL [S 7])]); (KS 4, S 4)] in
  let new := PD [(KS 5, S 5); (KS 1, PD [(KS 3, PL []); (KS 6, S 6)])] in
  puk new /\ misses new [KS 1; KS 2] /\ through old [KS 1; KS 3] /\ pat new [KS 1; KS 3] = Some (PL []) /\
  upd old new = Ok (PD [(KS 1, PD [(KS 2, S 1); (KS 3, PL []); (KS 6, S 6)]); (KS 4, S 4); (KS 5, S 5)]).
Proof.
  cbn zeta. split; [|vm_compute; repeat split; exact I].
  repeat (constructor; cbn [map fst snd In]; try (intros [E|E]; [discriminate E|]); try tauto).
Qed.

(* non-vacuity: a three-stage history with a type change and a mapping addressing a list index *)
Example C02_example :
  let d k v := mkD None None (Some true) 1 (PD [(KS k, v)]) in
  let docs := [d 1 (PL [PS (SInt 1); PD [(KS 2, PS (SInt 2))]]); d 1 (PD [(KI 1, PD [(KS 3, PS (SInt 3))])]); d 4 (PS SNone)] in
  forallb (fun d => is_PD (d_data d)) docs = true /\
  option_map erase (match flatten [] (map load_plain docs) with Ok n => Some n | _ => None end)
  = Some (PD [(KS 1, PL [PS (SInt 1); PD [(KS 2, PS (SInt 2)); (KS 3, PS (SInt 3))]]); (KS 4, PS SNone)]).
Proof. vm_compute. split; reflexivity. Qed.
