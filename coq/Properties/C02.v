(* Properties/C02.v — merging plain documents is a right-biased recursive mapping update.
   Only statements, each closed by `exact`, followed by Print Assumptions. *)
From AY Require Import Model.Merge Spec.Update Proofs.MergePlain.

(* Full statement: for every sequence of tag-free mapping documents (any nesting, any keys, any number of stages,
   whatever the source-level safe marks / file names), the model of Builder.flatten returns a tree whose content is
   the left fold of Spec.Update.upd over the documents; and it fails with a MergeError exactly when the fold does
   (a mapping merged onto a list addressing a non-existing index). *)
Theorem C02_fold : forall (e : penv) (d0 : pdoc) (rest : list pdoc),
  forallb (fun d => is_PD (d_data d)) (d0 :: rest) = true ->
  match upd_fold (d_data d0) (map d_data rest) with
  | Ok r => exists n, flatten e (map load_plain (d0 :: rest)) = Ok n /\ erase n = r
  | Err _ _ => exists q, flatten e (map load_plain (d0 :: rest)) = Err EMerge q
  end.
Proof. exact flatten_plain. Qed.
Print Assumptions C02_fold.

(* no key is ever lost: every key of the older mapping and every key of the newer one is a key of the result *)
Theorem C02_no_key_lost : forall okv kv r k,
  upd (PD okv) (PD kv) = Ok (PD r) -> (ahas k okv = true \/ ahas k kv = true) -> ahas k r = true.
Proof.
  intros okv kv r k H [Hk|Hk]; rewrite upd_PD_PD in H; destruct (upd_dgo kv okv) eqn:E; cbn in H; inversion H; subst.
  - exact (upd_dgo_keeps _ _ _ _ E Hk).
  - exact (upd_dgo_adds _ _ _ _ E Hk).
Qed.
Print Assumptions C02_no_key_lost.

(* nothing not mentioned by the newer document changes *)
Theorem C02_untouched : forall okv kv r k,
  upd (PD okv) (PD kv) = Ok (PD r) -> aget k kv = None -> aget k r = aget k okv.
Proof.
  intros okv kv r k H Hk. rewrite upd_PD_PD in H. destruct (upd_dgo kv okv) eqn:E; cbn in H; inversion H; subst.
  exact (upd_dgo_untouched _ _ _ _ E Hk).
Qed.
Print Assumptions C02_untouched.

(* non-vacuity: a three-stage history with a type change and a mapping addressing a list index *)
Example C02_example :
  let d k v := mkD None None (Some true) 1 (PD [(KS k, v)]) in
  let docs := [d 1 (PL [PS (SInt 1); PD [(KS 2, PS (SInt 2))]]); d 1 (PD [(KI 1, PD [(KS 3, PS (SInt 3))])]); d 4 (PS SNone)] in
  forallb (fun d => is_PD (d_data d)) docs = true /\
  option_map erase (match flatten [] (map load_plain docs) with Ok n => Some n | _ => None end)
  = Some (PD [(KS 1, PL [PS (SInt 1); PD [(KS 2, PS (SInt 2)); (KS 3, PS (SInt 3))]]); (KS 4, PS SNone)]).
Proof. vm_compute. split; reflexivity. Qed.
