(* Properties/C15.v — merge laws. *)
From AY Require Import Model.Merge Spec.Update Proofs.MergePlain Proofs.Laws Proofs.Local.
From AY Require Import Model.Loader Proofs.MergeGen Proofs.KeyOrder.
From AY Require Spec.UpdateP Proofs.MergePrio Proofs.PrioPath Proofs.PrioLaws Proofs.PrioOrder.

(* Repeating the last document does not change the result: for every history of tag-free mapping documents and every
   well-formed last document (unique keys, no negative index keys), building docs ++ [d; d] and docs ++ [d] gives trees of
   equal content, or both fail with a MergeError. *)
Theorem C15_idempotent_last_plain : forall e d0 rest d,
  forallb (fun x => is_PD (d_data x)) (d0 :: rest ++ [d]) = true -> pwf (d_data d) ->
  same_outcome (flatten e (map load_plain (d0 :: rest ++ [d; d]))) (flatten e (map load_plain (d0 :: rest ++ [d]))).
Proof.
  intros e d0 rest d H Hd. apply flatten_same_fold.
  - cbn [forallb] in *. apply andb_true_iff in H. destruct H as [H0 H]. rewrite H0. cbn [andb].
    rewrite forallb_app in *. apply andb_true_iff in H. destruct H as [Hr Hl]. rewrite Hr. cbn in *. now rewrite Hl.
  - exact H.
  - rewrite !map_app. cbn [map]. apply fold_idempotent_last. exact Hd.
Qed.
Print Assumptions C15_idempotent_last_plain.

(* An empty mapping document anywhere after the first one is neutral (tag-free histories). *)
Theorem C15_empty_neutral_plain : forall e d0 xs ys em,
  d_data em = PD [] ->
  forallb (fun x => is_PD (d_data x)) (d0 :: xs ++ ys) = true ->
  same_outcome (flatten e (map load_plain (d0 :: xs ++ em :: ys))) (flatten e (map load_plain (d0 :: xs ++ ys))).
Proof.
  intros e d0 xs ys em Hem H. cbn [forallb] in H. apply andb_true_iff in H. destruct H as [H0 H].
  rewrite forallb_app in H. apply andb_true_iff in H. destruct H as [Hx Hy].
  apply flatten_same_fold.
  - cbn [forallb]. rewrite H0, forallb_app, Hx. cbn [forallb andb]. now rewrite Hem, Hy.
  - cbn [forallb]. now rewrite H0, forallb_app, Hx, Hy.
  - rewrite !map_app. cbn [map]. rewrite Hem. destruct (d_data d0) as [|okv|] eqn:E0; try discriminate.
    apply fold_empty_neutral. clear - Hx. induction xs as [|x xs IH]; cbn in *; [reflexivity|].
    apply andb_true_iff in Hx. destruct Hx as [Ha Hb]. now rewrite Ha, IH.
Qed.
Print Assumptions C15_empty_neutral_plain.

(* Safety marks are data-neutral (tag-free histories): whatever explicit !unsafe mark (d_sf), inherited mark (d_isf),
   source-level safety (d_ds) and source file each document carries on ALL of its nodes, the merged data is the same -
   e.g. marking a stage root !unsafe, or adding the source with safe=False. (Marks on inner nodes only, and !new marks,
   are decided by the oracle.) *)
Theorem C15_unsafe_marks_neutral_plain : forall e d0 rest d0' rest',
  forallb (fun d => is_PD (d_data d)) (d0 :: rest) = true ->
  map d_data (d0 :: rest) = map d_data (d0' :: rest') ->
  same_outcome (flatten e (map load_plain (d0 :: rest))) (flatten e (map load_plain (d0' :: rest'))).
Proof.
  intros e d0 rest d0' rest' H E. cbn [map] in E. injection E as E0 Er.
  apply flatten_same_fold; [exact H| |now rewrite E0, Er].
  assert (G : forall l l', map d_data l = map d_data l' -> forallb (fun d => is_PD (d_data d)) l = forallb (fun d => is_PD (d_data d)) l').
  { induction l as [|a l IH]; intros [|b l'] Hm; cbn in *; try discriminate; [reflexivity|]. injection Hm as Ha Hl. now rewrite Ha, (IH l' Hl). }
  rewrite <- (G (d0 :: rest) (d0' :: rest')); [exact H|]. cbn [map]. now rewrite E0, Er.
Qed.
Print Assumptions C15_unsafe_marks_neutral_plain.

(* ... and so are safety marks and user metadata placed on ANY nodes (tag-free otherwise): two histories of mapping documents
   (as the loader builds them from the tagged YAML graph, Model.Loader.load_doc) that differ only in the tags - explicit !unsafe
   on inner nodes, !metadata without a priority, source-level safety and source names - merge to the same data, or both fail
   with a MergeError.  ysafe_only: no priority / delete / new tag anywhere, unique keys. *)
Theorem C15_unsafe_marks_anywhere_neutral : forall e c c' y0 ys y0' ys',
  Forall ysafe_only (y0 :: ys) -> Forall ysafe_only (y0' :: ys') ->
  forallb is_YM (y0 :: ys) = true -> forallb is_YM (y0' :: ys') = true ->
  map yerase (y0 :: ys) = map yerase (y0' :: ys') ->
  same_outcome (flatten e (map (load_doc c) (y0 :: ys))) (flatten e (map (load_doc c') (y0' :: ys'))).
Proof. exact unsafe_marks_neutral. Qed.
Print Assumptions C15_unsafe_marks_anywhere_neutral.

Example C15_unsafe_example :
  let U := mkT None None None (Some false) [] in
  let M := mkT None None None None [(7, 8)] in
  let y0 t1 t2 := YM T0 [(KS 1, YM t1 [(KS 2, YQ t2 [YS T0 (SInt 1); YS t1 (SInt 2)])]); (KS 3, YS T0 (SInt 3))] in
  let y1 t1 t2 := YM t2 [(KS 1, YM T0 [(KS 2, YM t1 [(KI 1, YS t2 (SInt 9))]); (KS 4, YS t1 SNone)])] in
  Forall ysafe_only [y0 U M; y1 M U] /\ Forall ysafe_only [y0 T0 T0; y1 T0 T0] /\
  map yerase [y0 U M; y1 M U] = map yerase [y0 T0 T0; y1 T0 T0] /\
  option_map erase (match flatten [] (map (load_doc (mkLC (Some false) 1)) [y0 U M; y1 M U]) with Ok n => Some n | _ => None end)
  = Some (PD [(KS 1, PD [(KS 2, PL [PS (SInt 1); PS (SInt 9)]); (KS 4, PS SNone)]); (KS 3, PS (SInt 3))]).
Proof.
  assert (T : forall t, t = T0 \/ t = mkT None None None (Some false) [] \/ t = mkT None None None None [(7, 8)] -> tsafe t).
  { intros t [ E | [ E | E ] ]; subst t; repeat split. }
  assert (N1 : forall (a b : key), a <> b -> NoDup [a; b]) by (intros a b H; constructor; [intros [E|[]]; congruence|constructor; [intros []|constructor]]).
  assert (N0 : forall (a : key), NoDup [a]) by (intro a; constructor; [intros []|constructor]).
  assert (Y : forall t1 t2, (t1 = T0 \/ t1 = mkT None None None (Some false) [] \/ t1 = mkT None None None None [(7, 8)]) ->
                            (t2 = T0 \/ t2 = mkT None None None (Some false) [] \/ t2 = mkT None None None None [(7, 8)]) ->
            ysafe_only (YM T0 [(KS 1, YM t1 [(KS 2, YQ t2 [YS T0 (SInt 1); YS t1 (SInt 2)])]); (KS 3, YS T0 (SInt 3))]) /\
            ysafe_only (YM t2 [(KS 1, YM T0 [(KS 2, YM t1 [(KI 1, YS t2 (SInt 9))]); (KS 4, YS t1 SNone)])])).
  { intros t1 t2 H1 H2. pose proof (T _ H1) as A1. pose proof (T _ H2) as A2. pose proof (T T0 (or_introl eq_refl)) as A0.
    split; repeat first [ assumption | apply N0 | (apply N1; discriminate) | (constructor; cbn [map fst snd]) ]. }
  destruct (Y (mkT None None None (Some false) []) (mkT None None None None [(7, 8)]) ltac:(auto) ltac:(auto)) as [Ya Yb].
  destruct (Y (mkT None None None None [(7, 8)]) (mkT None None None (Some false) []) ltac:(auto) ltac:(auto)) as [Yc Yd].
  destruct (Y T0 T0 ltac:(auto) ltac:(auto)) as [Ye Yf].
  cbv zeta. split; [constructor; [exact Ya|constructor; [exact Yd|constructor]]|]. split; [constructor; [exact Ye|constructor; [exact Yf|constructor]]|].
  split; vm_compute; reflexivity.
Qed.

(* Permuting the order of keys inside any mapping of any document changes at most the order of keys in the result.  peqv is
   equality up to the order of mapping entries at every depth (same key sets, related values; lists position by position);
   for all tag-free histories of well-formed documents (unique non-negative-integer / string keys) whose documents are
   pairwise peqv, the two builds give trees with peqv contents, or both fail with a MergeError. *)
Theorem C15_key_order_neutral_plain : forall e d0 rest d0' rest',
  forallb (fun d => is_PD (d_data d)) (d0 :: rest) = true -> forallb (fun d => is_PD (d_data d)) (d0' :: rest') = true ->
  Forall (fun d => pwf (d_data d)) (d0 :: rest) ->
  Forall2 (fun d d' => peqv (d_data d) (d_data d')) (d0 :: rest) (d0' :: rest') ->
  same_up_to_key_order (flatten e (map load_plain (d0 :: rest))) (flatten e (map load_plain (d0' :: rest'))).
Proof. exact flatten_key_order. Qed.
Print Assumptions C15_key_order_neutral_plain.

(* ... and peqv does relate a mapping to every permutation of its entries *)
Theorem C15_permutation_is_peqv : forall kv kv', pwf (PD kv) -> Permutation.Permutation kv kv' -> peqv (PD kv) (PD kv').
Proof. exact peqv_permutation. Qed.
Print Assumptions C15_permutation_is_peqv.

(* the reference update is idempotent *)
Theorem C15_update_idempotent : forall d, pwf d -> forall a r, upd a d = Ok r -> upd r d = Ok r.
Proof. exact upd_idempotent. Qed.
Print Assumptions C15_update_idempotent.

(* ---- documents WITH priority tags (extension round) ----
   Repeating the last document of any history of mapping documents whose scalars, whole lists and enclosing mappings carry arbitrary
   priorities (the class of C03_merge_is_prioritised_update; hcompat: no mapping meets a list at the same path - vacuous without lists)
   changes nothing: both builds succeed and the trees have the same priority image -
   every value AND every node priority *)
Theorem C15_idempotent_last_prioritised : forall e s0 sts last,
  Forall MergePrio.NewZ (s0 :: sts ++ [last]) -> forallb is_dictk (s0 :: sts ++ [last]) = true ->
  UpdateP.hcompat (MergePrio.perase s0) (map MergePrio.perase (sts ++ [last])) ->
  exists n m, flatten e (s0 :: sts ++ [last]) = Ok n /\ flatten e (s0 :: (sts ++ [last]) ++ [last]) = Ok m /\
              MergePrio.perase m = MergePrio.perase n.
Proof. exact PrioLaws.repeat_last_prio. Qed.
Print Assumptions C15_idempotent_last_prioritised.

(* an empty mapping document (untagged or carrying any tags of the class) inserted anywhere after the first document changes no
   value and no node priority below the root (the root's own priority is the only thing it can raise) *)
Theorem C15_empty_neutral_prioritised : forall e s0 l1 l2 fE xE,
  Forall MergePrio.NewZ (s0 :: l1 ++ Comp CDict fE xE [] :: l2) -> forallb is_dictk (s0 :: l1 ++ l2) = true ->
  UpdateP.hcompat (MergePrio.perase s0) (map MergePrio.perase (l1 ++ Comp CDict fE xE [] :: l2)) ->
  UpdateP.hcompat (MergePrio.perase s0) (map MergePrio.perase (l1 ++ l2)) ->
  exists n m, flatten e (s0 :: l1 ++ Comp CDict fE xE [] :: l2) = Ok n /\ flatten e (s0 :: l1 ++ l2) = Ok m /\
              PrioLaws.kids (MergePrio.perase n) = PrioLaws.kids (MergePrio.perase m).
Proof. exact PrioLaws.empty_doc_neutral_flatten. Qed.
Print Assumptions C15_empty_neutral_prioritised.

(* key order: histories of prioritised mapping documents that differ only in the order in which the entries of their mappings are written
   (at any depth) build trees that are equal up to that order - every value and every priority *)
Theorem C15_key_order_neutral_prioritised : forall e s0 sts s0' sts',
  Forall MergePrio.NewZ (s0 :: sts) -> Forall MergePrio.NewZ (s0' :: sts') ->
  forallb is_dictk (s0 :: sts) = true -> forallb is_dictk (s0' :: sts') = true ->
  Forall2 PrioOrder.peqvp (map MergePrio.perase (s0 :: sts)) (map MergePrio.perase (s0' :: sts')) ->
  UpdateP.hcompat (MergePrio.perase s0) (map MergePrio.perase sts) ->
  exists n m, flatten e (s0 :: sts) = Ok n /\ flatten e (s0' :: sts') = Ok m /\ PrioOrder.peqvp (MergePrio.perase n) (MergePrio.perase m).
Proof. exact PrioOrder.key_order_neutral_prio1. Qed.
Print Assumptions C15_key_order_neutral_prioritised.

Theorem C15_permutation_is_peqvp : forall p kv kv', NoDup (map fst kv) -> Permutation.Permutation kv kv' ->
  PrioOrder.peqvp (UpdateP.PPD p kv) (UpdateP.PPD p kv').
Proof. exact PrioOrder.peqvp_permutation. Qed.
Print Assumptions C15_permutation_is_peqvp.

(* flag neutrality on this class: !unsafe marks, source-level safety, user metadata and implicit flags are free in NewZ and invisible to the
   priority image - stages with the same image build the same image, whatever else they carry *)
Theorem C15_marks_neutral_prioritised : forall e s0 sts s0' sts',
  Forall MergePrio.NewZ (s0 :: sts) -> Forall MergePrio.NewZ (s0' :: sts') ->
  forallb is_dictk (s0 :: sts) = true -> forallb is_dictk (s0' :: sts') = true ->
  map MergePrio.perase (s0 :: sts) = map MergePrio.perase (s0' :: sts') ->
  UpdateP.hcompat (MergePrio.perase s0) (map MergePrio.perase sts) ->
  exists n m, flatten e (s0 :: sts) = Ok n /\ flatten e (s0' :: sts') = Ok m /\ MergePrio.perase n = MergePrio.perase m.
Proof. exact PrioLaws.same_image_same_result. Qed.
Print Assumptions C15_marks_neutral_prioritised.

(* the prioritised reference update is idempotent in its second argument, and merging a value with itself is the identity *)
Theorem C15_prioritised_update_idempotent : forall b a, PrioPath.pwf b -> UpdateP.upd_p (UpdateP.upd_p a b) b = UpdateP.upd_p a b.
Proof. exact PrioLaws.upd_p_idem. Qed.
Print Assumptions C15_prioritised_update_idempotent.

Theorem C15_prioritised_self_merge : forall v, PrioPath.pwf v -> UpdateP.upd_p v v = v.
Proof. exact PrioLaws.upd_p_self. Qed.
Print Assumptions C15_prioritised_self_merge.

(* determinism of the model is reflexivity; what it stands for in the implementation (no state leaking between builds,
   no dependence on hash order) is carried by the correspondence and the build-twice oracle *)

Example C15_example :
  let d kv := mkD None None (Some true) 1 (PD kv) in
  let a := d [(KS 1, PL [PS (SInt 1); PS (SInt 2)]); (KS 2, PD [(KS 3, PS (SInt 3))])] in
  let b := d [(KS 1, PD [(KI 0, PS (SInt 9))]); (KS 2, PD [(KS 4, PS (SInt 4))])] in
  pwf (d_data b) /\
  option_map erase (match flatten [] (map load_plain [a; b; b]) with Ok n => Some n | _ => None end)
  = option_map erase (match flatten [] (map load_plain [a; b]) with Ok n => Some n | _ => None end).
Proof.
  split; [|vm_compute; reflexivity].
  cbn. constructor.
  - repeat constructor; cbn; intuition discriminate.
  - repeat constructor; cbn; try lia; intuition discriminate.
Qed.

(* ---- the step itself, for the GENERAL merge (extension round 7): merging an empty, non-deleting mapping (whatever other marks it carries -
   priority, !new / !notnew, safety, metadata) into ANY mapping (any tags anywhere below) always succeeds and leaves the plain content
   unchanged - the class restrictions above are only needed to speak about what happens to the marks. ---- *)
From AY Require Proofs.Frame.
Theorem C15_empty_mapping_neutral_general : forall als fuel p fs xs chs fo xo,
  delete (Comp CDict fo xo []) = false ->
  exists r w, on_merge als (S fuel) p (Comp CDict fs xs chs) (Comp CDict fo xo []) = Ok (r, w) /\ erase r = erase (Comp CDict fs xs chs).
Proof. exact Frame.empty_mapping_neutral. Qed.
Print Assumptions C15_empty_mapping_neutral_general.
