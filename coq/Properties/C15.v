(* Properties/C15.v — merge laws. *)
From AY Require Import Model.Merge Spec.Update Proofs.MergePlain Proofs.Laws Proofs.Local.

(* Repeating the last document does not change the result: for every history of tag-free mapping documents and every
   well-formed last document (unique keys, no negative index keys), building docs ++ [d; d] and docs ++ [d] gives trees of
   equal content, or both fail with a MergeError. *)
Theorem C15_idempotent_last_plain : forall e d0 rest d,
  forallb (fun x => is_PD (d_data x)) (d0 :: rest ++ [d]) = true -> pwf (d_data d) ->
  same_outcome (flatten e (map load_plain (d0 :: rest ++ [d; d]))) (flatten e (map load_plain (d0 :: rest ++ [d]))).
Proof.
  intros e d0 rest d H Hd. apply flatten_same_fold.
  - cbn [forallb] in *. apply andb_true_iff in H. destruct H as [H0 H]. rewrite H0. cbn [andb].
    rewrite forallb_app in *. apply andb_true_iff in H. destruct H as [Hr Hl]. rewrite Hr. cbn in *. now rewrite Hl.
  - exact H.
  - rewrite !map_app. cbn [map]. apply fold_idempotent_last. exact Hd.
Qed.
Print Assumptions C15_idempotent_last_plain.

(* An empty mapping document anywhere after the first one is neutral (tag-free histories). *)
Theorem C15_empty_neutral_plain : forall e d0 xs ys em,
  d_data em = PD [] ->
  forallb (fun x => is_PD (d_data x)) (d0 :: xs ++ ys) = true ->
  same_outcome (flatten e (map load_plain (d0 :: xs ++ em :: ys))) (flatten e (map load_plain (d0 :: xs ++ ys))).
Proof.
  intros e d0 xs ys em Hem H. cbn [forallb] in H. apply andb_true_iff in H. destruct H as [H0 H].
  rewrite forallb_app in H. apply andb_true_iff in H. destruct H as [Hx Hy].
  apply flatten_same_fold.
  - cbn [forallb]. rewrite H0, forallb_app, Hx. cbn [forallb andb]. now rewrite Hem, Hy.
  - cbn [forallb]. now rewrite H0, forallb_app, Hx, Hy.
  - rewrite !map_app. cbn [map]. rewrite Hem. destruct (d_data d0) as [|okv|] eqn:E0; try discriminate.
    apply fold_empty_neutral. clear - Hx. induction xs as [|x xs IH]; cbn in *; [reflexivity|].
    apply andb_true_iff in Hx. destruct Hx as [Ha Hb]. now rewrite Ha, IH.
Qed.
Print Assumptions C15_empty_neutral_plain.

(* Safety marks are data-neutral (tag-free histories): whatever explicit !unsafe mark (d_sf), inherited mark (d_isf),
   source-level safety (d_ds) and source file each document carries on ALL of its nodes, the merged data is the same -
   e.g. marking a stage root !unsafe, or adding the source with safe=False. (Marks on inner nodes only, and !new marks,
   are decided by the oracle.) *)
Theorem C15_unsafe_marks_neutral_plain : forall e d0 rest d0' rest',
  forallb (fun d => is_PD (d_data d)) (d0 :: rest) = true ->
  map d_data (d0 :: rest) = map d_data (d0' :: rest') ->
  same_outcome (flatten e (map load_plain (d0 :: rest))) (flatten e (map load_plain (d0' :: rest'))).
Proof.
  intros e d0 rest d0' rest' H E. cbn [map] in E. injection E as E0 Er.
  apply flatten_same_fold; [exact H| |now rewrite E0, Er].
  assert (G : forall l l', map d_data l = map d_data l' -> forallb (fun d => is_PD (d_data d)) l = forallb (fun d => is_PD (d_data d)) l').
  { induction l as [|a l IH]; intros [|b l'] Hm; cbn in *; try discriminate; [reflexivity|]. injection Hm as Ha Hl. now rewrite Ha, (IH l' Hl). }
  rewrite <- (G (d0 :: rest) (d0' :: rest')); [exact H|]. cbn [map]. now rewrite E0, Er.
Qed.
Print Assumptions C15_unsafe_marks_neutral_plain.

(* the reference update is idempotent *)
Theorem C15_update_idempotent : forall d, pwf d -> forall a r, upd a d = Ok r -> upd r d = Ok r.
Proof. exact upd_idempotent. Qed.
Print Assumptions C15_update_idempotent.

(* determinism of the model is reflexivity; what it stands for in the implementation (no state leaking between builds,
   no dependence on hash order) is carried by the correspondence and the build-twice oracle *)

Example C15_example :
  let d kv := mkD None None (Some true) 1 (PD kv) in
  let a := d [(KS 1, PL [PS (SInt 1); PS (SInt 2)]); (KS 2, PD [(KS 3, PS (SInt 3))])] in
  let b := d [(KS 1, PD [(KI 0, PS (SInt 9))]); (KS 2, PD [(KS 4, PS (SInt 4))])] in
  pwf (d_data b) /\
  option_map erase (match flatten [] (map load_plain [a; b; b]) with Ok n => Some n | _ => None end)
  = option_map erase (match flatten [] (map load_plain [a; b]) with Ok n => Some n | _ => None end).
Proof.
  split; [|vm_compute; reflexivity].
  cbn. constructor.
  - repeat constructor; cbn; intuition discriminate.
  - repeat constructor; cbn; try lia; intuition discriminate.
Qed.
