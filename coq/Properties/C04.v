(* Properties/C04.v — !del / list replacement is exact; value-less !del removes the key; !clear empties. *)
From AY Require Import Model.Merge Proofs.Delete Proofs.Walk Proofs.FactsOk.
From AY Require Import Model.Loader Spec.Update Spec.UpdateM Proofs.MergeMode.

(* lists (and function nodes) delete by default, mappings do not: regenerated facts *)
Theorem C04_defaults : Facts.default_delete CList = true /\ Facts.default_delete CDict = false /\
                       Facts.default_delete CCall = true /\ Facts.default_delete CBind = true.
Proof. exact (conj list_default_delete (conj dict_default_delete (conj call_default_delete bind_default_delete))). Qed.
Print Assumptions C04_defaults.

(* Exactness on an older MAPPING. For all trees s (older, a mapping with any flags, any depth, any key names) and o (newer,
   any container): if o is deleting, no descendant of s strictly outranks what o offers at the same relative path,
   o is not outranked by s, and o is allowed to create its paths, then the merged content is exactly o's content. *)
Theorem C04_exact : forall als fuel p fs xs chs o,
  let s := Comp CDict fs xs chs in
  is_comp o = true -> delete o = true ->
  AllSub (fun m => forall ap, has_priority_over m (first_not_missing o (skipn (length p) ap)) false = false) s ->
  has_priority_over o (clear_children s) true = true ->
  (forall removed, require_all_new o p (p :: removed) true = true) ->
  exists r w, on_merge als (S fuel) p s o = Ok (r, w) /\ content r = content o.
Proof.
  intros als fuel p fs xs chs o s Ho Hd Hsub Hp Hn. cbn [on_merge dispatch s is_funck is_listk].
  apply delete_exact; auto.
Qed.
Print Assumptions C04_exact.

(* Exactness on an older LIST: additionally the newer node must survive the list pre-filter unchanged, i.e. none of its
   entries is a deleting node of lower priority than the older node it meets (see known finding D18 for what happens otherwise). *)
Theorem C04_exact_list : forall als fuel p fs xs chs o,
  let s := Comp CList fs xs chs in
  is_comp o = true ->
  WF o ->
  AllSub (fun m => forall rp, keep_if_exists s rp m = true) o ->
  delete o = true ->
  AllSub (fun m => forall ap, has_priority_over m (first_not_missing o (skipn (length p) ap)) false = false) s ->
  has_priority_over o (clear_children s) true = true ->
  (forall removed, require_all_new o p (p :: removed) true = true) ->
  exists r w, on_merge als (S fuel) p s o = Ok (r, w) /\ content r = content o.
Proof.
  intros als fuel p fs xs chs o s Ho Hwf Hk Hd Hsub Hp Hn. cbn [on_merge dispatch s is_funck is_listk].
  apply delete_exact_list; auto. reflexivity.
Qed.
Print Assumptions C04_exact_list.

(* a value-less !del removes the key and leaves the mapping *)
Theorem C04_remove_key : forall rec als p ks fs xs chs k c lk f v,
  is_listk ks = false -> aget k chs = Some c -> is_comp c = false ->
  rec (p ++ [k]) c (Leaf lk f v) = Ok (Leaf lk f v, Other) ->
  f_del f = Some true -> truthy (Leaf lk f v) = false -> allow_new f = true -> path_in (p ++ [k]) als = false ->
  merge_step rec als p (Ok (Comp ks fs xs chs)) (k, Leaf lk f v) = Ok (Comp ks fs xs (adel k chs)).
Proof. exact remove_key. Qed.
Print Assumptions C04_remove_key.

(* !clear leaves an empty container of the original kind and flags *)
Theorem C04_clear : forall e p f v root k cf cx ch,
  get_node root p = Some (Comp k cf cx ch) ->
  exists root', on_premerge e p (Leaf LClear f v) (Some root) = Ok (Comp k cf cx [], Some root', true, [p]).
Proof. exact clear_empties. Qed.
Print Assumptions C04_clear.

(* Tagging a list !merge instead makes it combine index-wise.  THE REFINEMENT: any number of mapping documents whose only
   merge-control marks are !merge (on any lists / mappings; any safety marks and metadata) - class NewT, decidable by the
   checker newt_b below - flatten to the fold of the decorated update Spec.UpdateM.upd_m over their decorated plain images
   (mp_of: every list carries the mode in which it meets an older list - replace, the default, or combine): untagged lists
   replace whatever was there, !merge lists (and lists below !merge) combine position by position with the surplus appended,
   mappings combine key-wise; a MergeError exactly when the update fails (a mapping addressing a non-existing list index). *)
Theorem C04_merge_marks_refine : forall e s0 sts, NewT s0 -> is_dictk s0 = true -> Forall (fun o => NewT o /\ is_dictk o = true) sts ->
  match fold_left (fun acc o => do a <- acc; upd_m a (mp_of o)) sts (Ok (erase s0)) with
  | Ok r => exists n, flatten e (s0 :: sts) = Ok n /\ erase n = r
  | Err _ _ => exists q, flatten e (s0 :: sts) = Err EMerge q
  end.
Proof. exact flatten_m. Qed.
Print Assumptions C04_merge_marks_refine.

(* ... and what "index-wise" means: the result is as long as the longer list; every position present in both lists holds
   the merge of the two elements; positions beyond the older list hold the newer elements; positions beyond the newer list
   keep the older elements *)
Theorem C04_merge_list_elementwise : forall ol l r, upd_m (PL ol) (ML true l) = Ok (PL r) ->
  length r = Nat.max (length ol) (length l) /\
  (forall j v, nth_error l j = Some v ->
     match nth_error ol j with
     | Some ov => exists m, upd_m ov v = Ok m /\ nth_error r j = Some m
     | None => nth_error r j = Some (mforget v)
     end) /\
  (forall j, (length l <= j)%nat -> nth_error r j = nth_error ol j).
Proof. exact merge_list_elementwise. Qed.
Print Assumptions C04_merge_list_elementwise.

(* ... and without any !merge mark it is exactly the right-biased recursive update of C02 (so C04_merge_marks_refine contains
   C02_fold, for documents with arbitrary safety marks) *)
Theorem C04_without_marks_is_plain_update : forall m a, no_merge m = true -> upd_m a m = upd a (mforget m).
Proof. exact upd_m_plain. Qed.
Print Assumptions C04_without_marks_is_plain_update.

(* membership in the class is decidable (so the check can report, for every generated document, whether the theorem applies) *)
Theorem C04_class_checker_sound : forall n, newt_b n = true -> NewT n.
Proof. exact newt_b_ok. Qed.
Print Assumptions C04_class_checker_sound.

(* non-vacuity:  {a: [0, {y: 1}, 5], b: [7, 8]}  <-  {a: !merge [1, {x: 2}], b: [3], c: !merge [[9]]} *)
Example C04_merge_example :
  let M := mkT None (Some false) None None [] in
  let c := mkLC (Some true) 1 in
  let base := load_doc c (YM T0 [(KS 1, YQ T0 [YS T0 (SInt 0); YM T0 [(KS 3, YS T0 (SInt 1))]; YS T0 (SInt 5)]); (KS 2, YQ T0 [YS T0 (SInt 7); YS T0 (SInt 8)])]) in
  let over := load_doc c (YM T0 [(KS 1, YQ M [YS T0 (SInt 1); YM T0 [(KS 4, YS T0 (SInt 2))]]); (KS 2, YQ T0 [YS T0 (SInt 3)]); (KS 5, YQ M [YQ T0 [YS T0 (SInt 9)]])]) in
  newt_b base = true /\ newt_b over = true /\
  option_map erase (match flatten [] [base; over] with Ok n => Some n | _ => None end)
  = Some (PD [(KS 1, PL [PS (SInt 1); PD [(KS 3, PS (SInt 1)); (KS 4, PS (SInt 2))]; PS (SInt 5)]); (KS 2, PL [PS (SInt 3)]); (KS 5, PL [PL [PS (SInt 9)]])]).
Proof. vm_compute. repeat split; reflexivity. Qed.

(* non-vacuity: a !del mapping two levels down wipes an older subtree whose key names coincide with ancestor names *)
Example C04_example :
  let L v := Leaf LScalar F0 (SInt v) in
  let D f ch := Comp CDict f SNone ch in
  let old := D F0 [(KS 1, D F0 [(KS 2, D F0 [(KS 1, L 1); (KS 3, L 2)])])] in
  let new := D F0 [(KS 1, D F0 [(KS 2, D (set_del F0 (Some true)) [(KS 1, Leaf LScalar (set_prio F0 (Some (-1))) (SInt 3))])])] in
  option_map erase (match merge2 [] old new with Ok n => Some n | _ => None end)
  = Some (PD [(KS 1, PD [(KS 2, PD [(KS 1, PS (SInt 1))])])]).
Proof. vm_compute. reflexivity. Qed.

(* ---- exactness at any depth (extension round 7).  C04_exact speaks about the two nodes that meet; this composes it with the general frame
   machinery (Proofs/Frame.v: merged_deep): where the older tree holds a mapping at the mapping path q ([dget]) and the newer tree reaches a
   deleting container v there through non-deleting mappings with unique keys ([nreach]) - and, as in C04_exact, nothing below the older
   mapping outranks v, v is not outranked, v may create its paths - the merged tree holds at q exactly v's content, whatever surrounds the
   path.  [idiom n v]: the emptied outcome of a !del value, for which the loop removes the key instead (C04_remove_key). ---- *)
From AY Require Import Proofs.Frame Proofs.FrameDelete.
Theorem C04_exact_at_any_depth : forall q fuel p s o r w v fs xs chs,
  q <> [] -> on_merge [] fuel p s o = Ok (r, w) -> nreach o q v -> dget s q = Some (Comp CDict fs xs chs) ->
  is_comp v = true -> delete v = true ->
  (forall p' : path, AllSub (fun m => forall ap, has_priority_over m (first_not_missing v (skipn (length p') ap)) false = false) (Comp CDict fs xs chs)) ->
  has_priority_over v (clear_children (Comp CDict fs xs chs)) true = true ->
  (forall p' removed, require_all_new v p' (p' :: removed) true = true) ->
  exists n, content n = content v /\ (idiom n v = false -> exists c', dget r q = Some c' /\ content c' = content v).
Proof. exact delete_exact_deep. Qed.
Print Assumptions C04_exact_at_any_depth.

(* non-vacuity: {a: {b: {x: 1, y: 2}, c: !force 3}} <- {a: {b: !del {z: 9}}}: at a.b exactly {z: 9}; the !force sibling is kept *)
Example C04_deep_example :
  let L f v := Leaf LScalar f (SInt v) in
  let D f ch := Comp CDict f SNone ch in
  let s := D F0 [(KS 1, D F0 [(KS 2, D F0 [(KS 7, L F0 1); (KS 8, L F0 2)]); (KS 3, L (set_prio F0 (Some 1)) 3)])] in
  let v := D (set_del F0 (Some true)) [(KS 9, L F0 9)] in
  let o := D F0 [(KS 1, D F0 [(KS 2, v)])] in
  nreach o [KS 1; KS 2] v /\ delete v = true /\
  (match on_merge [] 10 [] s o with Ok (r, _) => Some (erase r) | _ => None end)
  = Some (PD [(KS 1, PD [(KS 2, PD [(KS 9, PS (SInt 9))]); (KS 3, PS (SInt 3))])]).
Proof.
  cbn zeta. split; [|split; vm_compute; reflexivity].
  cbn. repeat split; try reflexivity;
    repeat (constructor; cbn [map fst In]; try (intros [E|E]; [discriminate E|]); try tauto).
Qed.
