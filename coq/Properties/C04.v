(* Properties/C04.v — !del / list replacement is exact; value-less !del removes the key; !clear empties. *)
From AY Require Import Model.Merge Proofs.Delete Proofs.Walk Proofs.FactsOk.

(* lists (and function nodes) delete by default, mappings do not: regenerated facts *)
Theorem C04_defaults : Facts.default_delete CList = true /\ Facts.default_delete CDict = false /\
                       Facts.default_delete CCall = true /\ Facts.default_delete CBind = true.
Proof. exact (conj list_default_delete (conj dict_default_delete (conj call_default_delete bind_default_delete))). Qed.
Print Assumptions C04_defaults.

(* Exactness on an older MAPPING. For all trees s (older, a mapping with any flags, any depth, any key names) and o (newer,
   any container): if o is deleting, no descendant of s strictly outranks what o offers at the same relative path,
   o is not outranked by s, and o is allowed to create its paths, then the merged content is exactly o's content. *)
Theorem C04_exact : forall als fuel p fs xs chs o,
  let s := Comp CDict fs xs chs in
  is_comp o = true -> delete o = true ->
  AllSub (fun m => forall ap, has_priority_over m (first_not_missing o (skipn (length p) ap)) false = false) s ->
  has_priority_over o (clear_children s) true = true ->
  (forall removed, require_all_new o p (p :: removed) true = true) ->
  exists r w, on_merge als (S fuel) p s o = Ok (r, w) /\ content r = content o.
Proof.
  intros als fuel p fs xs chs o s Ho Hd Hsub Hp Hn. cbn [on_merge dispatch s is_funck is_listk].
  apply delete_exact; auto.
Qed.
Print Assumptions C04_exact.

(* Exactness on an older LIST: additionally the newer node must survive the list pre-filter unchanged, i.e. none of its
   entries is a deleting node of lower priority than the older node it meets (see known finding D18 for what happens otherwise). *)
Theorem C04_exact_list : forall als fuel p fs xs chs o,
  let s := Comp CList fs xs chs in
  is_comp o = true ->
  WF o ->
  AllSub (fun m => forall rp, keep_if_exists s rp m = true) o ->
  delete o = true ->
  AllSub (fun m => forall ap, has_priority_over m (first_not_missing o (skipn (length p) ap)) false = false) s ->
  has_priority_over o (clear_children s) true = true ->
  (forall removed, require_all_new o p (p :: removed) true = true) ->
  exists r w, on_merge als (S fuel) p s o = Ok (r, w) /\ content r = content o.
Proof.
  intros als fuel p fs xs chs o s Ho Hwf Hk Hd Hsub Hp Hn. cbn [on_merge dispatch s is_funck is_listk].
  apply delete_exact_list; auto. reflexivity.
Qed.
Print Assumptions C04_exact_list.

(* a value-less !del removes the key and leaves the mapping *)
Theorem C04_remove_key : forall rec als p ks fs xs chs k c lk f v,
  is_listk ks = false -> aget k chs = Some c -> is_comp c = false ->
  rec (p ++ [k]) c (Leaf lk f v) = Ok (Leaf lk f v, Other) ->
  f_del f = Some true -> truthy (Leaf lk f v) = false -> allow_new f = true -> path_in (p ++ [k]) als = false ->
  merge_step rec als p (Ok (Comp ks fs xs chs)) (k, Leaf lk f v) = Ok (Comp ks fs xs (adel k chs)).
Proof. exact remove_key. Qed.
Print Assumptions C04_remove_key.

(* !clear leaves an empty container of the original kind and flags *)
Theorem C04_clear : forall e p f v root k cf cx ch,
  get_node root p = Some (Comp k cf cx ch) ->
  exists root', on_premerge e p (Leaf LClear f v) (Some root) = Ok (Comp k cf cx [], Some root', true, [p]).
Proof. exact clear_empties. Qed.
Print Assumptions C04_clear.

(* non-vacuity: a !del mapping two levels down wipes an older subtree whose key names coincide with ancestor names *)
Example C04_example :
  let L v := Leaf LScalar F0 (SInt v) in
  let D f ch := Comp CDict f SNone ch in
  let old := D F0 [(KS 1, D F0 [(KS 2, D F0 [(KS 1, L 1); (KS 3, L 2)])])] in
  let new := D F0 [(KS 1, D F0 [(KS 2, D (set_del F0 (Some true)) [(KS 1, Leaf LScalar (set_prio F0 (Some (-1))) (SInt 3))])])] in
  option_map erase (match merge2 [] old new with Ok n => Some n | _ => None end)
  = Some (PD [(KS 1, PD [(KS 2, PD [(KS 1, PS (SInt 1))])])]).
Proof. vm_compute. reflexivity. Qed.
