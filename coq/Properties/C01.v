(* Properties/C01.v — tags are transparent: one source evaluates to its plain-YAML content. *)
From AY Require Import Model.Loader Model.Eval Proofs.LoaderLemmas Proofs.EvalPlain.

(* the loaded tree holds exactly the plain data of the YAML graph — same keys, same order of list elements, same scalars —
   for every graph (any nesting) and EVERY placement of merge-control tags / metadata on its nodes *)
Theorem C01_transparent : forall y c, erase (load_doc c y) = yplain y.
Proof. intros. apply load_erase. Qed.
Print Assumptions C01_transparent.

(* adding, removing or moving such tags on any node never changes the content *)
Theorem C01_move_tags : forall c y1 y2, yerase y1 = yerase y2 -> erase (load_doc c y1) = erase (load_doc c y2).
Proof. exact tags_transparent. Qed.
Print Assumptions C01_move_tags.

(* a single mapping document without !notnew passes through Builder.build unchanged ... *)
Theorem C01_single_document_build : forall e c t l, ykeys_ok (YM t l) -> no_notnew (YM t l) = true ->
  flatten e [load_doc c (YM t l)] = Ok (load_doc c (YM t l)).
Proof. exact single_document_build. Qed.
Print Assumptions C01_single_document_build.

(* ... and building the config from it (check, deep copy, evaluation) yields exactly the plain data of the graph *)
Theorem C01_evaluates : forall c pe fe y, ykeys_ok y ->
  exists v st, config pe fe (load_doc c y) = Ok (v, st) /\ vplain v = yplain y.
Proof. exact load_evaluates. Qed.
Print Assumptions C01_evaluates.

(* non-vacuity: the shape of the repaired defects D1/D2/D12 — a list two levels below a tagged mapping, an underscore key *)
Example C01_example :
  let force := mkT (Some 1) None None None [] in
  let y := YM T0 [(KS 1, YM force [(KS 2, YM T0 [(KS 3, YQ T0 [YS T0 (SInt 1); YS (mkT None (Some true) None None []) (SInt 2)])]); (KS 4, YS T0 SNone)])] in
  ykeys_ok y /\ no_notnew y = true /\
  option_map (fun x => vplain (fst x)) (match config [] [] (load_doc (mkLC (Some true) 7) y) with Ok x => Some x | _ => None end) = Some (yplain y).
Proof. split; [cbn; repeat split; repeat constructor; cbn; intuition discriminate|split; vm_compute; reflexivity]. Qed.
