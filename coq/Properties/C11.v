(* Properties/C11.v — evaluation yields plain Python data and mirrors the merged tree. *)
From AY Require Import Model.Eval Proofs.EvalPlain Proofs.EvalInv.

(* In the model an evaluated config is a [value]: that type has NO constructor holding a node, so "no awesomeyaml node
   anywhere in the result" is a typing fact of the model; its content is the correspondence, which fails on any node
   object inside a real result (it has no image in [value]). *)

(* The structure mirrors the merged tree: for every plain well-formed tree (any nesting, any keys), building the config
   succeeds and the result has the same mappings with the same keys in the same order, the same lists, and the same
   scalars (exact values and types) as the tree — through check, deep copy and evaluation. *)
Theorem C11_shape_plain : forall pe fe t, PlainT t -> exists v st, config pe fe t = Ok (v, st) /\ vplain v = erase t.
Proof. exact config_plain. Qed.
Print Assumptions C11_shape_plain.

(* the object returned for the root is the object recorded for it, and nothing recorded earlier is disturbed: the basis of cfg.a is cfg['a'] *)
Theorem C11_recorded_value_is_result : forall root pe fe fuel ras n p st v st',
  ev root pe fe fuel ras n p st = Ok (v, st') -> lookup_path p (done st') = Some v.
Proof. intros. exact (proj1 (ev_spec _ _ _ _ _ _ _ _ _ _ H)). Qed.
Print Assumptions C11_recorded_value_is_result.

Example C11_example :
  let L v := Leaf LScalar F0 v in
  let t := Comp CDict F0 SNone [(KS 1, Comp CList F0 SNone [(KI 0, L (SInt 1)); (KI 1, L (SBool true)); (KI 2, L SNone)]); (KS 2, Comp CDict F0 SNone [(KS 3, L (SFloat 4))])] in
  PlainT t /\ option_map (fun x => vplain (fst x)) (match config [] [] t with Ok x => Some x | _ => None end) = Some (erase t).
Proof. split; [repeat constructor; cbn; intuition discriminate|vm_compute; reflexivity]. Qed.
