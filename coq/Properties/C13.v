(* Properties/C13.v — !call / !bind pass arguments as Python would; function nodes merge by table. *)
From AY Require Import Model.Func Proofs.FuncArgs Proofs.FuncTable Proofs.Delete.

(* list arguments are positions 0..n-1; a scalar argument is position 0 (the one-element case) *)
Theorem C13_list_positions : forall names vs, vs <> [] -> resolve_args names (enum_from 0 vs) = Some (vs, []).
Proof. exact list_args_positional. Qed.
Print Assumptions C13_list_positions.

(* string keys name parameters and are passed through *)
Theorem C13_keywords : forall names args,
  forallb (fun kv : key * value => match fst kv with KI _ => false | KS _ => true end) args = true ->
  resolve_args names args = Some ([], args).
Proof. exact keyword_args_untouched. Qed.
Print Assumptions C13_keywords.

(* a gap in the positions is bound by the name of the positional parameter at that index ... *)
Theorem C13_gap : forall names vs j w nm,
  Z.of_nat (length vs) < j -> nth_error names (Z.to_nat j) = Some nm ->
  resolve_args names (enum_from 0 vs ++ [(KI j, w)]) = Some (vs, [(KS nm, w)]).
Proof. exact gap_bound_by_name. Qed.
Print Assumptions C13_gap.

(* ... and an index beyond the positional parameters of the signature is an error *)
Theorem C13_beyond : forall names vs j w,
  Z.of_nat (length vs) < j -> Z.of_nat (length names) <= j ->
  resolve_args names (enum_from 0 vs ++ [(KI j, w)]) = None.
Proof. exact index_beyond_signature_rejected. Qed.
Print Assumptions C13_beyond.

(* end to end against the specification of Python's binding: the i-th argument of a list reaches the i-th positional
   parameter of the target, the surplus reaches *args *)
Theorem C13_positions_reach_parameters : forall s vs i n v b,
  NoDup (pos_names s) -> vs <> [] -> call_binding s (enum_from 0 vs) = Some b -> nth_error vs i = Some v ->
  (nth_error (pos_names s) i = Some n -> exists l, zassoc n l = Some v /\ (forall m w, zassoc m l = Some w -> zassoc m (b_named b) = Some w)) /\
  b_varargs b = skipn (length (pos_names s)) vs.
Proof. exact positional_argument_reaches_parameter. Qed.
Print Assumptions C13_positions_reach_parameters.

(* the merge table *)
Theorem C13_table_container : forall rec als p ks fs xs chs ko fo xo cho,
  is_funck ks = true -> is_funck ko = false ->
  dispatch rec als p (Comp ks fs xs chs) (Comp ko fo xo cho) = comp_merge rec als p (Comp ks fs xs chs) (Comp ko fo xo cho).
Proof. exact func_merge_container. Qed.
Print Assumptions C13_table_container.

Theorem C13_table_string : forall rec als p ks fs xs chs lk fo z,
  is_funck ks = true -> (match lk with LRequired | LClear | LInclude => False | _ => True end) ->
  has_priority_over (Leaf lk fo (SStr z)) (Comp ks fs xs chs) true = true ->
  exists f', dispatch rec als p (Comp ks fs xs chs) (Leaf lk fo (SStr z)) = Ok (Comp ks f' (SStr z) [], Self).
Proof. exact func_merge_string. Qed.
Print Assumptions C13_table_string.

Theorem C13_table_new_target : forall rec als p ks fs xs chs ko fo xo cho,
  is_funck ks = true -> is_funck ko = true -> scalar_eqb xs xo = false ->
  has_priority_over (Comp ko fo xo cho) (Comp ks fs xs chs) true = true ->
  delete (Comp ko fo xo cho) = true ->
  (forall removed, require_all_new (Comp ko fo xo cho) p (p :: removed) true = true) ->
  exists r w, dispatch rec als p (Comp ks fs xs chs) (Comp ko fo xo cho) = Ok (r, w) /\
              content r = content (Comp ko fo xo cho) /\ node_x r = Some xo.
Proof. exact func_merge_new_target. Qed.
Print Assumptions C13_table_new_target.

Theorem C13_table_same_target : forall rec als p ks fs xs chs ko fo cho,
  is_funck ks = true -> is_funck ko = true ->
  dispatch rec als p (Comp ks fs xs chs) (Comp ko fo xs cho) = comp_merge rec als p (Comp ks fs xs chs) (Comp ko fo xs cho).
Proof. exact func_merge_same_target. Qed.
Print Assumptions C13_table_same_target.

Example C13_example :
  let V n := VS (SInt n) in
  let sig := [mkP 1 PosOrKw false; mkP 2 PosOrKw true; mkP 3 VarPos false; mkP 4 KwOnly true; mkP 5 VarKw false] in
  pos_names sig = [1; 2] /\
  (match call_binding sig [(KI 0, V 10); (KS 4, V 40); (KI 1, V 20); (KI 2, V 30)] with
   | Some b => b_named b = [(1, V 10); (2, V 20); (4, V 40)] /\ b_varargs b = [V 30]
   | None => False end) /\
  call_binding sig [(KI 0, V 10); (KI 3, V 9)] = None.
Proof. vm_compute. repeat split; reflexivity. Qed.
