(* Properties/C20.v — concurrent builds in different threads do not influence each other. *)
From AY Require Import Model.Threads Proofs.ThreadsLemmas Proofs.FactsOk.

(* For EVERY number of threads, every list of slot actions per thread (whatever files, safe flags, includes, failing inputs
   produced them) and EVERY interleaving of those actions: what thread i observes - the file and the source safety each of
   its nodes records, the marker its api_entry sees - and its whole private state are exactly what it observes when its own
   steps run alone.  Rests on the facts, re-read from the code on every run, that the three slots are threading.local
   (FactsOk.parse_defaults_thread_local) and that no other module- or class-level state is written during a build
   (FactsOk.no_unlisted_shared_writes). *)
Theorem C20_noninterference : forall progs sched i,
  observations (run thread_local (start progs) sched) i = observations (run thread_local (start progs) (alone i sched)) i.
Proof. intros. unfold observations. now rewrite noninterference. Qed.
Print Assumptions C20_noninterference.

(* ... and they do not depend on which other threads exist or what they do (in particular: an error in another thread) *)
Theorem C20_independent_of_others : forall progs progs' sched sched' i,
  nth i progs [] = nth i progs' [] -> alone i sched = alone i sched' ->
  observations (run thread_local (start progs) sched) i = observations (run thread_local (start progs') sched') i.
Proof. exact independent_of_others. Qed.
Print Assumptions C20_independent_of_others.

Theorem C20_no_unlisted_shared_state : Facts.unlisted_shared_writes = 0%Z.
Proof. exact no_unlisted_shared_writes. Qed.
Print Assumptions C20_no_unlisted_shared_state.

(* the same machine with ONE slot made an ordinary shared attribute is refuted: this is the counter-example generator of the
   search (thread 0 parses file 3, thread 1 file 4; thread 1's "enter" lands between thread 0's "enter" and its node) *)
Definition build_prog (file safe : Z) : list action :=
  [Load SSafe; StoreAnd SSafe safe; Load SFile; Store SFile file; Obs SFile; Obs SSafe; Restore SFile; Restore SSafe].

Theorem C20_shared_slot_refuted : forall shared : slot, shared <> SApi ->
  exists progs sched i,
    observations (run (fun s => negb (slot_eqb s shared)) (start progs) sched) i <>
    observations (run (fun s => negb (slot_eqb s shared)) (start progs) (alone i sched)) i.
Proof.
  intros shared H.
  exists [Init SSafe 2 :: build_prog 3 2; Init SSafe 2 :: build_prog 4 1], [0; 0; 0; 0; 0; 1; 1; 1; 1; 1; 0; 0; 0; 0; 1; 1; 1; 1]%nat, 0%nat.
  destruct shared; [| |congruence]; vm_compute; intros E; discriminate E.
Qed.
Print Assumptions C20_shared_slot_refuted.

(* non-vacuity: two builds with different files and safe flags, interleaved line by line *)
Example C20_example :
  observations (run thread_local (start [Init SSafe 2 :: build_prog 3 2; Init SSafe 2 :: build_prog 4 1])
                    [0; 1; 0; 1; 0; 1; 0; 1; 0; 1; 0; 1; 0; 1; 0; 1; 0; 1]%nat) 0%nat = [(SFile, 3); (SSafe, 2)] /\
  observations (run thread_local (start [Init SSafe 2 :: build_prog 3 2; Init SSafe 2 :: build_prog 4 1])
                    [0; 1; 0; 1; 0; 1; 0; 1; 0; 1; 0; 1; 0; 1; 0; 1; 0; 1]%nat) 1%nat = [(SFile, 4); (SSafe, 1)].
Proof. split; vm_compute; reflexivity. Qed.
