(* Properties/C03.v — priorities: the highest-priority writer wins, the latest among equals; metadata is combined. *)
From AY Require Import Model.Merge Proofs.Prio Proofs.FactsOk Model.Loader Proofs.PrioBelow.

(* the order of the three priority constants is what the documentation says: !force > untagged > !weak *)
Theorem C03_constants : (Facts.prio_weak <? Facts.prio_standard)%Z = true /\ (Facts.prio_standard <? Facts.prio_force)%Z = true
                        /\ Facts.default_priority = Facts.prio_standard.
Proof. exact (conj (proj1 prio_order) (conj (proj2 prio_order) default_priority_is_standard)). Qed.
Print Assumptions C03_constants.

(* two writers of one leaf path, whatever kind of leaf, with any flags: the newer value wins unless the older one has
   strictly higher priority; the survivor keeps its own priority *)
Theorem C03_binary : forall fuel als p k1 f1 v1 k2 f2 v2,
  exists r w, on_merge als (S fuel) p (Leaf k1 f1 v1) (Leaf k2 f2 v2) = Ok (r, w) /\
    nvalue r = Some (if priority f1 >? priority f2 then v1 else v2) /\
    nprio r = (if priority f1 >? priority f2 then priority f1 else priority f2).
Proof.
  intros. cbn [on_merge dispatch].
  pose proof (leaf_merge_winner (Leaf k1 f1 v1) (Leaf k2 f2 v2)) as H. unfold nprio in H. cbn [nflags] in H.
  destruct (leaf_merge (Leaf k1 f1 v1) (Leaf k2 f2 v2)) as [r w]. cbn [fst] in *. subst r.
  exists (if priority f1 >? priority f2 then with_flags (Leaf k1 f1 v1) (absorb f1 f2) else with_flags (Leaf k2 f2 v2) (absorb f2 f1)), w.
  split; [reflexivity|].
  destruct (priority f1 >? priority f2); split; reflexivity.
Qed.
Print Assumptions C03_binary.

(* any number of writers, in any order of strong / normal / weak ones: folding the binary rule over the later writers
   yields the value and priority of the writer W that splits the sequence into earlier writers of lower-or-equal priority
   and later writers of strictly lower priority — i.e. the LATEST writer of MAXIMAL priority *)
Theorem C03_winner : forall (w0 : node) (ws : list node),
  exists pre post W,
    w0 :: ws = pre ++ W :: post /\
    Forall (fun x => nprio x <= nprio W)%Z pre /\ Forall (fun x => nprio x < nprio W)%Z post /\
    nvalue (lfold w0 ws) = nvalue W /\ nprio (lfold w0 ws) = nprio W.
Proof.
  intros w0 ws. destruct (winner_split ws w0) as (pre & post & E & H1 & H2).
  exists pre, post, (winner w0 ws). destruct (lfold_winner ws w0) as [Hv Hp]. auto.
Qed.
Print Assumptions C03_winner.

(* user metadata attached to the competing values is combined without losing keys *)
Theorem C03_metadata : forall (w0 : node) (ws : list node) (x : Z),
  In x (mkeys (f_meta (nflags (lfold w0 ws)))) <->
  In x (mkeys (f_meta (nflags w0))) \/ exists w, In w ws /\ In x (mkeys (f_meta (nflags w))).
Proof. exact (fun w0 ws x => lfold_meta_keys ws w0 x). Qed.
Print Assumptions C03_metadata.

(* a priority tag on a container applies to everything below it: in the tree the loader builds for a document, every node
   below a node whose effective tag priority is p (its own !force / !weak / !metadata{{priority}} tag, or one inherited from
   above) has priority p - at any depth, in mappings and lists, whatever priority tags are written on the nodes below *)
Theorem C03_container_priority_applies_below : forall y c inh kw p pre q m,
  (match y with YS t _ | YM t _ | YQ t _ => inh_prio inh t end) = Some p ->
  In (q, m) (nwp pre (load c inh kw y)) -> priority (nflags m) = p.
Proof. exact container_priority_applies_below. Qed.
Print Assumptions C03_container_priority_applies_below.

Example C03_container_example :
  let F := mkT (Some 1) None None None [] in
  let W := mkT (Some (-1)) None None None [] in
  let y := YM T0 [(KS 1, YM F [(KS 2, YQ W [YS T0 (SInt 1); YM W [(KS 3, YS W (SInt 2))]])])] in
  map (fun pn => priority (nflags (snd pn))) (nwp [] (load_doc (mkLC (Some true) 1) y)) = [0; 1; 1; 1; 1; 1].
Proof. vm_compute. reflexivity. Qed.

(* non-vacuity: weak, force, normal, force, weak writers of one path *)
Example C03_example :
  let w p v := Leaf LScalar (set_prio F0 p) (SInt v) in
  nvalue (lfold (w (Some (-1)) 1) [w (Some 1) 2; w None 3; w (Some 1) 4; w (Some (-1)) 5]) = Some (SInt 4).
Proof. vm_compute. reflexivity. Qed.
