(* Properties/C03.v — priorities: the highest-priority writer wins, the latest among equals; metadata is combined. *)
From AY Require Import Model.Merge Proofs.Prio Proofs.FactsOk Model.Loader Proofs.PrioBelow Spec.UpdateP Proofs.MergeGen Proofs.MergePrio Proofs.PrioPath Proofs.PrioLoad Proofs.PrioClass.
From AY Require Model.Eval Proofs.EvalPlain Proofs.PrioLaws.
From AY Require Import Spec.UpdatePM Proofs.MergePrioMeta Proofs.PrioMetaLoad.

(* the order of the three priority constants is what the documentation says: !force > untagged > !weak *)
Theorem C03_constants : (Facts.prio_weak <? Facts.prio_standard)%Z = true /\ (Facts.prio_standard <? Facts.prio_force)%Z = true
                        /\ Facts.default_priority = Facts.prio_standard.
Proof. exact (conj (proj1 prio_order) (conj (proj2 prio_order) default_priority_is_standard)). Qed.
Print Assumptions C03_constants.

(* two writers of one leaf path, whatever kind of leaf, with any flags: the newer value wins unless the older one has
   strictly higher priority; the survivor keeps its own priority *)
Theorem C03_binary : forall fuel als p k1 f1 v1 k2 f2 v2,
  exists r w, on_merge als (S fuel) p (Leaf k1 f1 v1) (Leaf k2 f2 v2) = Ok (r, w) /\
    nvalue r = Some (if priority f1 >? priority f2 then v1 else v2) /\
    nprio r = (if priority f1 >? priority f2 then priority f1 else priority f2).
Proof.
  intros. cbn [on_merge dispatch].
  pose proof (leaf_merge_winner (Leaf k1 f1 v1) (Leaf k2 f2 v2)) as H. unfold nprio in H. cbn [nflags] in H.
  destruct (leaf_merge (Leaf k1 f1 v1) (Leaf k2 f2 v2)) as [r w]. cbn [fst] in *. subst r.
  exists (if priority f1 >? priority f2 then with_flags (Leaf k1 f1 v1) (absorb f1 f2) else with_flags (Leaf k2 f2 v2) (absorb f2 f1)), w.
  split; [reflexivity|].
  destruct (priority f1 >? priority f2); split; reflexivity.
Qed.
Print Assumptions C03_binary.

(* any number of writers, in any order of strong / normal / weak ones: folding the binary rule over the later writers
   yields the value and priority of the writer W that splits the sequence into earlier writers of lower-or-equal priority
   and later writers of strictly lower priority — i.e. the LATEST writer of MAXIMAL priority *)
Theorem C03_winner : forall (w0 : node) (ws : list node),
  exists pre post W,
    w0 :: ws = pre ++ W :: post /\
    Forall (fun x => nprio x <= nprio W)%Z pre /\ Forall (fun x => nprio x < nprio W)%Z post /\
    nvalue (lfold w0 ws) = nvalue W /\ nprio (lfold w0 ws) = nprio W.
Proof.
  intros w0 ws. destruct (winner_split ws w0) as (pre & post & E & H1 & H2).
  exists pre, post, (winner w0 ws). destruct (lfold_winner ws w0) as [Hv Hp]. auto.
Qed.
Print Assumptions C03_winner.

(* user metadata attached to the competing values is combined without losing keys *)
Theorem C03_metadata : forall (w0 : node) (ws : list node) (x : Z),
  In x (mkeys (f_meta (nflags (lfold w0 ws)))) <->
  In x (mkeys (f_meta (nflags w0))) \/ exists w, In w ws /\ In x (mkeys (f_meta (nflags w))).
Proof. exact (fun w0 ws x => lfold_meta_keys ws w0 x). Qed.
Print Assumptions C03_metadata.

(* a priority tag on a container applies to everything below it: in the tree the loader builds for a document, every node
   below a node whose effective tag priority is p (its own !force / !weak / !metadata{{priority}} tag, or one inherited from
   above) has priority p - at any depth, in mappings and lists, whatever priority tags are written on the nodes below *)
Theorem C03_container_priority_applies_below : forall y c inh kw p pre q m,
  (match y with YS t _ | YM t _ | YQ t _ => inh_prio inh t end) = Some p ->
  In (q, m) (nwp pre (load c inh kw y)) -> priority (nflags m) = p.
Proof. exact container_priority_applies_below. Qed.
Print Assumptions C03_container_priority_applies_below.

Example C03_container_example :
  let F := mkT (Some 1) None None None [] in
  let W := mkT (Some (-1)) None None None [] in
  let y := YM T0 [(KS 1, YM F [(KS 2, YQ W [YS T0 (SInt 1); YM W [(KS 3, YS W (SInt 2))]])])] in
  map (fun pn => priority (nflags (snd pn))) (nwp [] (load_doc (mkLC (Some true) 1) y)) = [0; 1; 1; 1; 1; 1].
Proof. vm_compute. reflexivity. Qed.

(* non-vacuity: weak, force, normal, force, weak writers of one path *)
Example C03_example :
  let w p v := Leaf LScalar (set_prio F0 p) (SInt v) in
  nvalue (lfold (w (Some (-1)) 1) [w (Some 1) 2; w None 3; w (Some 1) 4; w (Some (-1)) 5]) = Some (SInt 4).
Proof. vm_compute. reflexivity. Qed.

(* ---- the whole merge as a refinement (extension round) ----
   Spec.UpdateP.upd_p is the reference semantics of merging values that carry priorities: two mappings merge key by key (the result
   carries the higher priority); in every other case the older value survives iff its priority is STRICTLY higher.
   For any number of mapping documents whose scalars, LISTS (taken as a whole: inside a list no node carries a priority tag of its
   own) and enclosing mappings carry arbitrary !force / !weak / !metadata{{priority}} tags (no !del / !notnew marks; !new, !unsafe and
   user metadata are free), in any order of strong / normal / weak writers, and in which a mapping never meets a list at the same path
   (hcompat: where they do meet, the library protects / merges single entries - outside this reference), Builder.flatten succeeds and the tree it
   builds has exactly the priority image (values AND priorities of all nodes) of the left fold of upd_p over the documents' images
   [yprio] (every node carries the priority of its outermost tagged ancestor-or-self, else the default). *)
Theorem C03_priorities_refine : forall e c y0 ys, Forall yz (y0 :: ys) -> forallb is_YM (y0 :: ys) = true ->
  hcompat (yprio None y0) (map (yprio None) ys) ->
  exists n, flatten e (map (load_doc c) (y0 :: ys)) = Ok n /\ perase n = fold_left upd_p (map (yprio None) ys) (yprio None y0).
Proof. exact flatten_prio_docs. Qed.
Print Assumptions C03_priorities_refine.

(* the property as stated: for every path q whose spine consists of mappings in every document and which holds scalars wherever
   it holds anything, the merged value at q is the one written by the LATEST document among those whose value there has the
   HIGHEST priority - the writers w0 :: ws (in document order, (priority, value)) split as pre ++ (p, v) :: post with everything
   before of lower-or-equal and everything after of strictly lower priority; if no document writes q, the result has nothing there *)
Theorem C03_every_leaf_path_latest_of_highest : forall e c y0 ys q,
  Forall yz (y0 :: ys) -> forallb is_YM (y0 :: ys) = true -> q <> [] ->
  hcompat (yprio None y0) (map (yprio None) ys) ->
  Forall (fun y => sp (yprio None y) q /\ leafy q (yprio None y)) (y0 :: ys) ->
  exists n, flatten e (map (load_doc c) (y0 :: ys)) = Ok n /\
    match flat_map (wat q) (map (yprio None) (y0 :: ys)) with
    | [] => pget (perase n) q = None
    | w0 :: ws =>
      exists pre post p v,
        w0 :: ws = pre ++ (p, v) :: post /\
        Forall (fun x => (fst x <= p)%Z) pre /\ Forall (fun x => (fst x < p)%Z) post /\
        pget (perase n) q = Some (PPS p v)
    end.
Proof. exact docs_leaf_path_winner. Qed.
Print Assumptions C03_every_leaf_path_latest_of_highest.

(* the same at the level of node trees (whatever built them): stages of the class NewZ - only scalars and mappings, no explicit
   delete mark, no !notnew, priorities and everything else free *)
Theorem C03_merge_is_prioritised_update : forall e s0 sts, Forall NewZ (s0 :: sts) -> forallb is_dictk (s0 :: sts) = true ->
  hcompat (perase s0) (map perase sts) ->
  exists n, flatten e (s0 :: sts) = Ok n /\ perase n = fold_left upd_p (map perase sts) (perase s0).
Proof. exact flatten_prio. Qed.
Print Assumptions C03_merge_is_prioritised_update.

(* the class is decidable; the checker the correspondence runs on the trees the real loader built is sound *)
Theorem C03_prediction_sound : forall e stages d, predict_prio stages = Some d -> exists n, flatten e stages = Ok n /\ perase n = d.
Proof. exact predict_prio_ok. Qed.
Print Assumptions C03_prediction_sound.

Theorem C03_document_prediction_sound : forall e c ys d, predict_docs ys = Some d ->
  exists n, flatten e (map (load_doc c) ys) = Ok n /\ perase n = d.
Proof. exact predict_docs_ok. Qed.
Print Assumptions C03_document_prediction_sound.

(* ... all the way to the config a user gets: merge, check for placeholders, deep copy, evaluation - the evaluated config of any
   number of prioritised mapping documents holds exactly the VALUES of the prioritised update of the documents *)
Theorem C03_evaluated_config : forall e pe fe c y0 ys, Forall yz (y0 :: ys) -> forallb is_YM (y0 :: ys) = true ->
  hcompat (yprio None y0) (map (yprio None) ys) ->
  exists n v st, flatten e (map (load_doc c) (y0 :: ys)) = Ok n /\ Model.Eval.config pe fe n = Ok (v, st) /\
                 EvalPlain.vplain v = pvals (fold_left upd_p (map (yprio None) ys) (yprio None y0)).
Proof. exact docs_evaluated_config. Qed.
Print Assumptions C03_evaluated_config.

(* for documents without lists the side condition is vacuous *)
Theorem C03_no_lists_no_side_condition : forall y0 ys, Forall ynolist (y0 :: ys) -> hcompat (yprio None y0) (map (yprio None) ys).
Proof. exact hcompat_ynolist. Qed.
Print Assumptions C03_no_lists_no_side_condition.

(* ... and can be read document by document: it holds as soon as no document has a list where an EARLIER document has a mapping at the
   same path, or a mapping where an earlier one has a list (what is compatible with two values is compatible with their update) *)
Theorem C03_side_condition_document_by_document : forall ds d0, Forall pwf ds -> ForallOrdPairs lcompat (d0 :: ds) -> hcompat d0 ds.
Proof. exact PrioLaws.hcompat_pairwise. Qed.
Print Assumptions C03_side_condition_document_by_document.

(* path by path, on the specification alone: the fold of upd_p holds at q the fold of what the stages hold at q *)
Theorem C03_update_is_pointwise : forall ds d0 q, q <> [] -> sp d0 q -> Forall (fun d => sp d q /\ pwf d) ds ->
  pget (fold_left upd_p ds d0) q = fold_left wr (map (fun d => pget d q) ds) (pget d0 q).
Proof. exact pget_fold. Qed.
Print Assumptions C03_update_is_pointwise.

(* ---- user metadata (extension round): "user metadata attached to the competing values is combined under the same rule without
   losing keys" as a statement about whole documents.  Spec/UpdatePM.upd_pm is upd_p with the metadata mapping of every node: at every
   meeting the survivor's entries take precedence and the other value's extra keys are kept ({**loser, **survivor}; two mappings: the newer
   one counts as the survivor iff its priority is not lower).  On the class of C03_priorities_refine the tree Builder.flatten builds has
   exactly the image - values, priorities AND metadata of every node - of the left fold of upd_pm over the documents' images *)
Theorem C03_metadata_refines : forall e c y0 ys, Forall yz (y0 :: ys) -> forallb is_YM (y0 :: ys) = true ->
  hcompat (yprio None y0) (map (yprio None) ys) ->
  exists n, flatten e (map (load_doc c) (y0 :: ys)) = Ok n /\ merase n = fold_left upd_pm (map (ymp None) ys) (ymp None y0).
Proof. exact flatten_prio_meta_docs. Qed.
Print Assumptions C03_metadata_refines.

(* ... no key is lost and none is invented: whenever two values meet, whatever their kinds and priorities, the metadata keys of the
   result are exactly those of the two ... *)
Theorem C03_metadata_keys_at_every_meeting : forall a b x,
  In x (UpdatePM.mkeys (mmeta (upd_pm a b))) <-> In x (UpdatePM.mkeys (mmeta a)) \/ In x (UpdatePM.mkeys (mmeta b)).
Proof. exact upd_pm_meta_keys. Qed.
Print Assumptions C03_metadata_keys_at_every_meeting.

(* ... forgetting the metadata gives back the prioritised update ... *)
Theorem C03_metadata_forgets_to_priorities : forall b a, forget (upd_pm a b) = upd_p (forget a) (forget b).
Proof. exact forget_upd_pm. Qed.
Print Assumptions C03_metadata_forgets_to_priorities.

(* ... and the prediction the correspondence compares with Builder.build is sound *)
Theorem C03_metadata_prediction_sound : forall e stages d, predict_meta stages = Some d -> exists n, flatten e stages = Ok n /\ merase n = d.
Proof. exact predict_meta_ok. Qed.
Print Assumptions C03_metadata_prediction_sound.

(* non-vacuity: three documents; `a.x` is written weak, then force (through the enclosing mapping), then untagged;
   `a.y` only by the tagged mapping; `b` normal then weak *)
Example C03_refine_example :
  let F := mkT (Some 1) None None None [] in
  let W := mkT (Some (-1)) None None None [] in
  let L l := YQ T0 (map (fun z => YS T0 (SInt z)) l) in
  let d1 := YM T0 [(KS 1, YM T0 [(KS 2, YS W (SInt 1))]); (KS 3, YS T0 (SInt 10)); (KS 5, YQ W [YS T0 (SInt 1); YS T0 (SInt 2)])] in
  let d2 := YM T0 [(KS 1, YM F [(KS 2, YS T0 (SInt 2)); (KS 4, YS W (SInt 7)); (KS 6, L [8; 9])]); (KS 5, L [3])] in
  let d3 := YM T0 [(KS 1, YM T0 [(KS 2, YS T0 (SInt 3)); (KS 6, L [0])]); (KS 3, YS W (SInt 11)); (KS 5, YQ W [])] in
  hcompat (yprio None d1) (map (yprio None) [d2; d3]) /\
  match flatten [] (map (load_doc (mkLC (Some true) 1)) [d1; d2; d3]) with
  | Ok n => pvals (perase n) = PD [(KS 1, PD [(KS 2, PS (SInt 2)); (KS 4, PS (SInt 7)); (KS 6, PL [PS (SInt 8); PS (SInt 9)])]);
                                   (KS 3, PS (SInt 10)); (KS 5, PL [PS (SInt 3)])]
            /\ perase n = fold_left upd_p (map (yprio None) [d2; d3]) (yprio None d1)
            /\ flat_map (wat [KS 1; KS 2]) (map (yprio None) [d1; d2; d3]) = [(-1, AS (SInt 1)); (1, AS (SInt 2)); (0, AS (SInt 3))]
  | Err _ _ => False
  end.
Proof. vm_compute. repeat split; reflexivity. Qed.

(* ---- beyond the refinement classes (extension round 7): the decision at a leaf, for the GENERAL merge.  Whatever tags, priorities, marks and
   metadata the two trees carry anywhere else - the refinement theorems above restrict the whole document to a class - when the older tree
   holds a leaf c0 at the mapping path q ([Frame.dget]) and the newer tree reaches a value v there through non-deleting mappings with unique
   keys ([FrameRequired.nreach]; neither c0 nor v marked !del), the merged tree holds at q the content and the priority of the winner: the
   older leaf only if its priority is STRICTLY higher, otherwise the newer value (scalar, list or mapping: replaced wholesale). ---- *)
From AY Require Import Proofs.Frame Proofs.FrameRequired.
Theorem C03_leaf_meeting_decided_anywhere : forall q fuel p s o r w v c0,
  q <> [] -> on_merge [] fuel p s o = Ok (r, w) -> nreach o q v -> dget s q = Some c0 -> is_comp c0 = false ->
  explicit_delete c0 = false -> explicit_delete v = false ->
  let win := if has_priority_over c0 v false then c0 else v in
  exists c', dget r q = Some c' /\ erase c' = erase win /\ f_prio (nflags c') = f_prio (nflags win).
Proof. exact leaf_met_winner. Qed.
Print Assumptions C03_leaf_meeting_decided_anywhere.

(* non-vacuity: a !weak leaf two levels down loses to an untagged value while a !force sibling and a !del sibling mapping surround the path *)
Example C03_leaf_meeting_example :
  let L f v := Leaf LScalar f (SInt v) in
  let D f ch := Comp CDict f SNone ch in
  let s := D F0 [(KS 1, D F0 [(KS 2, L (set_prio F0 (Some (-1))) 1); (KS 3, L (set_prio F0 (Some 1)) 3)]); (KS 4, D F0 [(KS 5, L F0 5)])] in
  let o := D F0 [(KS 4, D (set_del F0 (Some true)) [(KS 6, L F0 6)]); (KS 1, D F0 [(KS 2, L F0 7); (KS 3, L F0 8)])] in
  nreach o [KS 1; KS 2] (L F0 7) /\ dget s [KS 1; KS 2] = Some (L (set_prio F0 (Some (-1))) 1) /\
  has_priority_over (L (set_prio F0 (Some (-1))) 1) (L F0 7) false = false /\
  (match on_merge [] 10 [] s o with Ok (r, _) => Some (erase r) | _ => None end)
  = Some (PD [(KS 1, PD [(KS 2, PS (SInt 7)); (KS 3, PS (SInt 3))]); (KS 4, PD [(KS 6, PS (SInt 6))])]).
Proof.
  cbn zeta. split; [|split; [reflexivity|split; vm_compute; reflexivity]].
  cbn. repeat split; try reflexivity;
    repeat (constructor; cbn [map fst In]; try (intros [E|E]; [discriminate E|]); try tauto).
Qed.
