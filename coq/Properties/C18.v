(* Properties/C18.v — dump then parse gives a tree that merges and evaluates the same. *)
From AY Require Import Model.Dump Proofs.DumpLemmas Proofs.LoaderLemmas.

(* For EVERY tree of plain kinds (mappings, lists, scalars incl. null) with ANY combination of explicit / inherited flags
   and metadata, and any state of the dumper's elision stack: if the dump succeeds, the document parsed back from it holds
   exactly the same data (keys, order, scalars). *)
Theorem C18_content : forall c n n', reparse c n = Ok n' -> erase n' = erase n.
Proof. exact reparse_content. Qed.
Print Assumptions C18_content.

(* PARTIAL (flags): for every parsed document on which the dumper's elision drops nothing but unset keys (keptn: no node
   carries an explicit mark equal to its type default or to the value an enclosing container already emitted, and no explicit
   standard priority) the re-parsed document is THE SAME TREE - every raw flag, inherited flag, metadata entry and source -
   so it is interchangeable in every merge sequence and evaluates identically. What is missing for the full statement is
   exactly the elided marks: C18_elision_refuted below shows the full statement is false of the faithful model. *)
Theorem C18_roundtrip_partial : forall c y,
  keptn DS0 (load_doc c y) -> reparse c (load_doc c y) = Ok (load_doc c y).
Proof. exact roundtrip_kept. Qed.
Print Assumptions C18_roundtrip_partial.

Theorem C18_substitute_partial : forall e c y xs ys t',
  keptn DS0 (load_doc c y) -> reparse c (load_doc c y) = Ok t' ->
  flatten e (xs ++ t' :: ys) = flatten e (xs ++ load_doc c y :: ys).
Proof. intros e c y xs ys t' Hk R. rewrite (roundtrip_kept c y Hk) in R. now injection R as <-. Qed.
Print Assumptions C18_substitute_partial.

(* dumping the re-parsed document produces the same graph again *)
Theorem C18_dump_fixpoint_partial : forall c y y1,
  keptn DS0 (load_doc c y) -> dump_doc (load_doc c y) = Ok y1 -> dump_doc (load_doc c y1) = Ok y1.
Proof. exact dump_fixpoint_kept. Qed.
Print Assumptions C18_dump_fixpoint_partial.

(* The full statement is FALSE of the faithful model (known finding D13): in  {a: [!merge {}]}  the explicit !merge equals
   the type default of a mapping and is elided, although the enclosing list implies "delete" for its elements; the re-parsed
   element is a deleting node.  Replayed on the implementation this is the finding. *)
Theorem C18_elision_refuted : exists c y t',
  reparse c (load_doc c y) = Ok t' /\
  option_map delete (get_node (load_doc c y) [KS 1; KI 0]) = Some false /\
  option_map delete (get_node t' [KS 1; KI 0]) = Some true.
Proof.
  exists (mkLC (Some true) 7), (YM T0 [(KS 1, YQ T0 [YM (mkT None (Some false) None None []) []])]).
  eexists. split; [vm_compute; reflexivity|]. split; vm_compute; reflexivity.
Qed.
Print Assumptions C18_elision_refuted.

(* non-vacuity of the partial theorems: priorities, a deleting mapping, a merging list, unsafe content, metadata, a tagged null *)
Example C18_example :
  let y := YM T0 [(KS 1, YM (mkT (Some 1) None None None []) [(KS 2, YQ (mkT None (Some false) None None []) [YS T0 (SInt 1)])]);
                  (KS 3, YM (mkT None (Some true) None None []) [(KS 4, YS (mkT None None None (Some false) []) (SInt 2))]);
                  (KS 5, YS (mkT (Some (-1)) None None None [(1, 2)]) SNone)] in
  keptn DS0 (load_doc (mkLC (Some true) 7) y).
Proof. vm_compute. repeat split; try reflexivity; try discriminate. Qed.
