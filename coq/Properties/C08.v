(* Properties/C08.v — !notnew (and command-line overrides) can change but never create paths. *)
From AY Require Import Model.Merge Proofs.NotNew Proofs.FactsOk.

(* merging a key that does not exist yet, offered by a node that does not allow new paths, is a MergeError —
   for every older container (mapping or list; for a list: every index that is not an existing one), every rec, every depth *)
Theorem C08_new_key_rejected : forall rec als p cur k v,
  get_child cur k = None -> allow_new (nflags v) = false ->
  merge_step rec als p (Ok cur) (k, v) = Err EMerge p.
Proof. exact new_key_rejected. Qed.
Print Assumptions C08_new_key_rejected.

(* !notnew on a node makes all of its children refuse creation; a nested !new re-allows it below that node *)
Theorem C08_children_inherit : forall k f x ch, k <> CStream ->
  (f_new f = Some false -> ck_inew (child_kwargs (Comp k f x ch)) = Some false) /\
  (f_new f = Some true -> ck_inew (child_kwargs (Comp k f x ch)) = Some true).
Proof. intros k f x ch Hk. split; intro H; [apply child_kwargs_notnew|apply child_kwargs_new]; auto. Qed.
Print Assumptions C08_children_inherit.

(* a !notnew node anywhere in a first document is an error (there is nothing it could refer to) *)
Theorem C08_first_stage : forall e s0 s0' q m,
  is_dictk s0 = true -> on_premerge e [] s0 None = Ok (s0', None, false, []) ->
  In (q, m) (nwp [] s0') -> allow_new (nflags m) = false ->
  flatten e [s0] = Err EMerge [].
Proof. exact first_stage_notnew. Qed.
Print Assumptions C08_first_stage.

Example C08_example :
  let L f v := Leaf LScalar f (SInt v) in
  let nn := set_inew F0 (Some false) in
  let base := Comp CDict F0 SNone [(KS 1, Comp CDict F0 SNone [(KS 2, L F0 1)])] in
  let ok := Comp CDict (mkF None None (Some false) None None None None (Some true) [] 0) SNone [(KS 1, Comp CDict nn SNone [(KS 2, L nn 5)])] in
  let typo := Comp CDict (mkF None None (Some false) None None None None (Some true) [] 0) SNone [(KS 1, Comp CDict nn SNone [(KS 3, L nn 5)])] in
  option_map erase (match merge2 [] base ok with Ok n => Some n | _ => None end) = Some (PD [(KS 1, PD [(KS 2, PS (SInt 5))])]) /\
  merge2 [] base typo = Err EMerge [KS 1].
Proof. vm_compute. split; reflexivity. Qed.
