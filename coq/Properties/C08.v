(* Properties/C08.v — !notnew (and command-line overrides) can change but never create paths. *)
From AY Require Import Model.Merge Proofs.NotNew Proofs.FactsOk Model.Cmdline Proofs.CmdlineLemmas Model.Loader Proofs.MergePlain Proofs.Override Proofs.OverrideLoad.
From AY Require Import Spec.Update Spec.UpdateNN Proofs.UpdateNNLemmas Proofs.MergeNotNew Proofs.MergeGen.

(* merging a key that does not exist yet, offered by a node that does not allow new paths, is a MergeError —
   for every older container (mapping or list; for a list: every index that is not an existing one), every rec, every depth *)
Theorem C08_new_key_rejected : forall rec als p cur k v,
  get_child cur k = None -> allow_new (nflags v) = false ->
  merge_step rec als p (Ok cur) (k, v) = Err EMerge p.
Proof. exact new_key_rejected. Qed.
Print Assumptions C08_new_key_rejected.

(* !notnew on a node makes all of its children refuse creation; a nested !new re-allows it below that node *)
Theorem C08_children_inherit : forall k f x ch, k <> CStream ->
  (f_new f = Some false -> ck_inew (child_kwargs (Comp k f x ch)) = Some false) /\
  (f_new f = Some true -> ck_inew (child_kwargs (Comp k f x ch)) = Some true).
Proof. intros k f x ch Hk. split; intro H; [apply child_kwargs_notnew|apply child_kwargs_new]; auto. Qed.
Print Assumptions C08_children_inherit.

(* a !notnew node anywhere in a first document is an error (there is nothing it could refer to) *)
Theorem C08_first_stage : forall e s0 s0' q m,
  is_dictk s0 = true -> on_premerge e [] s0 None = Ok (s0', None, false, []) ->
  In (q, m) (nwp [] s0') -> allow_new (nflags m) = false ->
  flatten e [s0] = Err EMerge [].
Proof. exact first_stage_notnew. Qed.
Print Assumptions C08_first_stage.

(* A command-line override  key=value : the key, written in NodePath syntax (identifiers joined by dots, index groups [i]
   after a name - exactly what NodePath renders for the path), addresses precisely that path: for EVERY non-empty sequence of
   well-formed groups the option parser recovers the components it was rendered from.  The YAML text it writes
   (Model.Cmdline.inline_yaml, tied character by character to Config.process_cmdline) is the one-entry-per-level mapping
   tagged !notnew, to which C08_new_key_rejected / C08_children_inherit apply. *)
Theorem C08_cmdline_path : forall gs, Forall (fun g => group_ok g = true) gs -> gs <> [] ->
  inline_path (join true (comps_of gs)) = Some (comps_of gs).
Proof. exact inline_path_of_nodepath. Qed.
Print Assumptions C08_cmdline_path.

(* The override document  !notnew { k1: { k2: ... value } }  (what the command line writes), loaded and merged into ANY plain
   base document (any nesting, any sibling content, any fuel that suffices) along a path through mappings and list
   indices (0 <= i < length):
   - if the path exists, the merge succeeds and the result is the base with exactly that path set to the value - every
     other key, at every level, with its content and order, is what it was (pset rewrites one entry per level);
   - if a key of the path is missing in the deepest existing mapping, or an index lies beyond the end of a list, the
     merge is a MergeError: no entry is created. *)
Theorem C08_override_sets_exactly_that_path : forall c k ks v fuel p s,
  Old s -> (S (length ks) < fuel)%nat -> dpath s (k :: ks) = true ->
  exists n w, on_merge [] fuel p s (load_doc c (override_doc k ks v)) = Ok (n, w) /\ erase n = pset (erase s) (k :: ks) (PS v).
Proof. exact cmdline_override_sets_exactly. Qed.
Print Assumptions C08_override_sets_exactly_that_path.

Theorem C08_override_mistyped_path_is_an_error : forall c k ks v fuel p s,
  Old s -> (S (length ks) < fuel)%nat -> misses s (k :: ks) = true ->
  exists q, on_merge [] fuel p s (load_doc c (override_doc k ks v)) = Err EMerge q.
Proof. exact cmdline_override_mistyped. Qed.
Print Assumptions C08_override_mistyped_path_is_an_error.

(* THE GLOBAL STATEMENT for tag-free content.  Any number of tag-free mapping documents (unique keys) followed by ANY tag-free
   mapping document marked !notnew at its root (as the loader builds it: Model.Loader.load_doc on the tagged graph): the model of
   Builder.flatten succeeds exactly when the no-new-path update Spec.UpdateNN.upd_nn of the config built so far does, with
   exactly that content; otherwise it is a MergeError.  upd_nn refuses a key that does not exist yet (at any depth, through
   mappings and list indices) and a replacing list / value that would bring a path the old value does not have. *)
Theorem C08_notnew_is_update_without_new_paths : forall e c d0 rest kv,
  forallb (fun d => is_PD (d_data d)) (d0 :: rest) = true ->
  Forall (fun d => puk (d_data d)) (d0 :: rest) -> puk (PD kv) ->
  match (do a <- upd_fold (d_data d0) (map d_data rest); upd_nn a (PD kv)) with
  | Ok r => exists n, flatten e (map load_plain (d0 :: rest) ++ [load_doc c (notnew_doc kv)]) = Ok n /\ erase n = r
  | Err _ _ => exists q, flatten e (map load_plain (d0 :: rest) ++ [load_doc c (notnew_doc kv)]) = Err EMerge q
  end.
Proof. exact flatten_notnew_last. Qed.
Print Assumptions C08_notnew_is_update_without_new_paths.

(* The same for !notnew stages ANYWHERE in the sequence: every stage after the first is either a mapping document free of
   priority / delete / new tags (NewP: any safety marks and metadata, on any nodes) or a tag-free !notnew overlay; the model of
   Builder.flatten is the fold of upd / upd_nn over the stages - each !notnew stage is checked against the config built by
   all stages before it, whatever follows. *)
Theorem C08_notnew_stages_anywhere : forall e s0 sts, NewP s0 -> is_dictk s0 = true -> Forall gok sts ->
  match fold_left (fun acc st => do a <- acc; gstep a st) sts (Ok (erase s0)) with
  | Ok r => exists n, flatten e (s0 :: map gnode sts) = Ok n /\ erase n = r
  | Err _ _ => exists q, flatten e (s0 :: map gnode sts) = Err EMerge q
  end.
Proof. exact flatten_mixed. Qed.
Print Assumptions C08_notnew_stages_anywhere.

(* ... afterwards no path exists that did not exist before: every path of the result is a path of the config built so far *)
Theorem C08_no_new_path : forall d a r, upd_nn a d = Ok r -> forall q, ppath r q = true -> ppath a q = true.
Proof. exact upd_nn_no_new_path. Qed.
Print Assumptions C08_no_new_path.

(* ... and when it succeeds it changed what an ordinary merge of the same content would have changed *)
Theorem C08_notnew_agrees_with_plain_merge : forall d a r, upd_nn a d = Ok r -> upd a d = Ok r.
Proof. exact upd_nn_sound. Qed.
Print Assumptions C08_notnew_agrees_with_plain_merge.

(* ---- result-level rule for the GENERAL merge (extension round 7; C08_new_key_rejected is the rule of one loop iteration): whatever tags the
   two mappings carry, every key of the merged mapping is a key of the older mapping or a key of the newer one whose WHOLE value allows new
   paths - and that permission covers every node of the value, the value itself included: a !notnew anywhere in it (explicit or inherited
   from a !notnew ancestor, C08_children_inherit) forbids the key. ---- *)
From AY Require Import Proofs.Frame.
Theorem C08_no_new_key_without_permission : forall als fuel p fs xs chs fo xo cho r w,
  delete (Comp CDict fo xo cho) = false ->
  on_merge als (S fuel) p (Comp CDict fs xs chs) (Comp CDict fo xo cho) = Ok (r, w) ->
  exists f' ch', r = Comp CDict f' xs ch' /\
    forall k, ahas k ch' = true -> ahas k chs = true \/ exists v, In (k, v) cho /\ require_all_new v (p ++ [k]) [] true = true.
Proof. exact merge_no_new_key_without_permission. Qed.
Print Assumptions C08_no_new_key_without_permission.

Theorem C08_permission_covers_every_node : forall n p, require_all_new n p [] true = true ->
  forall q m, In (q, m) (nwp p n) -> allow_new (nflags m) = true.
Proof. exact require_all_new_nodes. Qed.
Print Assumptions C08_permission_covers_every_node.

(* non-vacuity: an overlay that changes a nested scalar and shrinks a list is accepted; one that adds a key two levels down,
   one that makes a list longer and one that turns a scalar into a non-empty mapping are MergeErrors *)
Example C08_notnew_example :
  let d := mkD None None (Some true) 1 (PD [(KS 1, PD [(KS 2, PS (SInt 1)); (KS 3, PL [PS (SInt 7); PS (SInt 8)])]); (KS 5, PS (SInt 2))]) in
  let c := mkLC (Some true) 2 in
  let run kv := match flatten [] (map load_plain [d] ++ [load_doc c (notnew_doc kv)]) with Ok n => Some (erase n) | Err _ _ => None end in
  run [(KS 1, PD [(KS 2, PS (SInt 9)); (KS 3, PL [PS (SInt 0)])])] = Some (PD [(KS 1, PD [(KS 2, PS (SInt 9)); (KS 3, PL [PS (SInt 0)])]); (KS 5, PS (SInt 2))]) /\
  run [(KS 1, PD [(KS 4, PS (SInt 9))])] = None /\
  run [(KS 1, PD [(KS 3, PL [PS (SInt 0); PS (SInt 1); PS (SInt 2)])])] = None /\
  run [(KS 5, PD [(KS 6, PS (SInt 1))])] = None /\
  puk (PD [(KS 1, PD [(KS 4, PS (SInt 9))])]).
Proof.
  repeat split; try (vm_compute; reflexivity).
  constructor; [repeat constructor; cbn; intuition discriminate|].
  repeat constructor; cbn; intuition discriminate.
Qed.

(* non-vacuity:  model.layers[1].k=9  over a base with mappings and a list; a mistyped key; an index beyond the end *)
Example C08_override_example :
  let base := inject None None (Some true) 0 None
                (PD [(KS 1, PD [(KS 2, PS (SInt 1)); (KS 3, PL [PS (SInt 7); PD [(KS 4, PS (SInt 8))]])]); (KS 5, PS (SInt 2))]) in
  Old base /\ dpath base [KS 1; KS 3; KI 1; KS 4] = true /\ misses base [KS 1; KS 9] = true /\ misses base [KS 1; KS 3; KI 2; KS 4] = true /\
  pset (erase base) [KS 1; KS 3; KI 1; KS 4] (PS (SInt 9)) =
    PD [(KS 1, PD [(KS 2, PS (SInt 1)); (KS 3, PL [PS (SInt 7); PD [(KS 4, PS (SInt 9))]])]); (KS 5, PS (SInt 2))].
Proof. split; [apply inject_old|]. repeat split; vm_compute; reflexivity. Qed.

Example C08_cmdline_example :
  inline_yaml ["a"; "."; "b"; "["; "1"; "]"; "."; "c"; "="; "5"]%char
  = Some ["!"; "n"; "o"; "t"; "n"; "e"; "w"; " "; "{"; " "; "a"; ":"; " "; " "; "{"; " "; "b"; ":"; " "; "{"; " "; "1"; ":"; " "; " "; "{"; " "; "c"; ":"; " "; "5"; " "; "}"; "}"; "}"; "}"]%char /\
  inline_path ["a"; "."; "b"; "["; "1"; "]"; "."; "c"]%char = Some [PN ["a"%char]; PN ["b"%char]; PI false ["1"%char]; PN ["c"%char]].
Proof. split; vm_compute; reflexivity. Qed.

Example C08_example :
  let L f v := Leaf LScalar f (SInt v) in
  let nn := set_inew F0 (Some false) in
  let base := Comp CDict F0 SNone [(KS 1, Comp CDict F0 SNone [(KS 2, L F0 1)])] in
  let ok := Comp CDict (mkF None None (Some false) None None None None (Some true) [] 0) SNone [(KS 1, Comp CDict nn SNone [(KS 2, L nn 5)])] in
  let typo := Comp CDict (mkF None None (Some false) None None None None (Some true) [] 0) SNone [(KS 1, Comp CDict nn SNone [(KS 3, L nn 5)])] in
  option_map erase (match merge2 [] base ok with Ok n => Some n | _ => None end) = Some (PD [(KS 1, PD [(KS 2, PS (SInt 5))])]) /\
  merge2 [] base typo = Err EMerge [KS 1].
Proof. vm_compute. split; reflexivity. Qed.
