(* Properties/C16.v — !append / !extend / !prev move and grow existing content without loss. *)
From AY Require Import Model.Merge Proofs.Ops Proofs.NodeInd Spec.Update Proofs.MergePlain Proofs.MergeNotNew Proofs.MergeGen Proofs.AppendE2E Proofs.PrevE2E Proofs.ExtendE2E.

(* p: !append L — for every older tree and every target reached by any path: the operator hands over the previous list
   (the very node found at p) followed by the elements of L, in order, content unchanged, and detaches it from the older tree *)
Theorem C16_append : forall e p f x chs root root' k tf tx tch,
  remove_node root p = Some (Some (root', Comp k tf tx tch)) -> is_listk k = true -> keys_enum 0 tch ->
  exists tch', on_premerge e p (Comp CAppend f x chs) (Some root) = Ok (Comp k tf tx tch', Some root', true, []) /\
               map (fun kc => erase (snd kc)) tch' = map (fun kc => erase (snd kc)) tch ++ map (fun kc => erase (snd kc)) chs /\
               get_node root p = Some (Comp k tf tx tch).
Proof. exact append_spec. Qed.
Print Assumptions C16_append.

(* ... and fails if there is no previous node, or it is not a list *)
Theorem C16_append_missing : forall e p f x chs root,
  p <> [] -> get_node root p = None -> exists q, on_premerge e p (Comp CAppend f x chs) (Some root) = Err EPremerge q.
Proof. exact append_missing. Qed.
Print Assumptions C16_append_missing.

Theorem C16_append_nonlist : forall e p f x chs root root' t,
  remove_node root p = Some (Some (root', t)) -> (match t with Comp k _ _ _ => is_listk k = false | Leaf _ _ _ => True end) ->
  exists q, on_premerge e p (Comp CAppend f x chs) (Some root) = Err EPremerge q.
Proof. exact append_nonlist. Qed.
Print Assumptions C16_append_nonlist.

(* !extend silently becomes a plain list when there is nothing to extend; the older tree is untouched *)
Theorem C16_extend_fallback : forall e p f x chs root,
  (get_node root p = None \/ exists t, get_node root p = Some t /\ (match t with Comp k _ _ _ => is_listk k = false | Leaf _ _ _ => True end)) ->
  on_premerge e p (Comp CExtend f x chs) (Some root) = Ok (fresh_list (Some true) chs, Some root, true, []).
Proof. exact extend_fallback. Qed.
Print Assumptions C16_extend_fallback.

(* q: !prev p — the entire previous subtree of p (the node found there, not a copy and not another element) is placed at q and removed from p *)
Theorem C16_prev : forall e q f z tp root root' r,
  plookup e z = Some tp -> remove_node root tp = Some (Some (root', r)) ->
  on_premerge e q (Leaf LPrev f (SStr z)) (Some root) = Ok (r, Some root', true, []) /\ get_node root tp = Some r.
Proof. exact prev_spec. Qed.
Print Assumptions C16_prev.

(* frame: detaching a key of a mapping removes exactly that key *)
Theorem C16_detach_frame : forall k f x ch kk root' r,
  is_listk k = false -> NoDup (map fst ch) ->
  remove_node (Comp k f x ch) [kk] = Some (Some (root', r)) ->
  has_child root' kk = false /\ forall k2, k2 <> kk -> get_child root' k2 = get_child (Comp k f x ch) k2.
Proof. exact remove_key_frame. Qed.
Print Assumptions C16_detach_frame.

(* ---- end to end (extension round): the whole of root.merge(doc) - premerge (detach, extend) followed by the merge ----
   For every tag-free config (any nesting, unique keys) that holds a list at a path q through mappings, and every document that is
   a chain of one-entry mappings along q ending in `!append L` (any safety marks / metadata on the chain; L tag-free): the merge
   succeeds and the content of the result is [app_at (content of the config) q (content of L)] ... *)
Theorem C16_append_end_to_end : forall e ws fa xa chs root root' tf tx tch,
  ws <> [] -> Forall WF ws -> Old root -> puk (erase root) -> dpath root (wkeys ws) ->
  remove_node root (wkeys ws) = Some (Some (root', Comp CList tf tx tch)) ->
  Forall (fun kc => Old (snd kc)) chs -> Forall (fun kc => puk (erase (snd kc))) chs ->
  exists n, merge2 e root (wrap ws (Comp CAppend fa xa chs)) = Ok n /\
            Some (erase n) = app_at (erase root) (wkeys ws) (map (fun kc => erase (snd kc)) chs).
Proof. exact append_end_to_end. Qed.
Print Assumptions C16_append_end_to_end.

(* ... where app_at means: the value at q is the previous list followed by the elements of L, in order ... *)
Theorem C16_append_result_at_path : forall q d l X, puk d -> app_at d q l = Some X ->
  exists l0, pat d q = Some (PL l0) /\ pat X q = Some (PL (l0 ++ l)).
Proof. exact app_at_at. Qed.
Print Assumptions C16_append_result_at_path.

(* ... and every path that leaves the spine of q keeps its value *)
Theorem C16_append_every_other_path_kept : forall q d l X q', puk d -> app_at d q l = Some X -> diverge q q' -> pat X q' = pat d q'.
Proof. exact app_at_frame. Qed.
Print Assumptions C16_append_every_other_path_kept.

(* non-vacuity of the end-to-end statement: the hypotheses hold of a nested config and a two-level chain *)
Example C16_end_to_end_example :
  let L v := Leaf LScalar F0 (SInt v) in
  let lst := Comp CList F0 SNone [(KI 0, L 1); (KI 1, L 2)] in
  let base := Comp CDict F0 SNone [(KS 1, Comp CDict F0 SNone [(KS 2, lst); (KS 5, L 9)]); (KS 3, L 7)] in
  let ws := [(KS 1, F0, SNone); (KS 2, F0, SNone)] in
  (exists root', remove_node base (wkeys ws) = Some (Some (root', lst))) /\ dpath base (wkeys ws) /\
  app_at (erase base) (wkeys ws) [PS (SInt 3)] =
    Some (PD [(KS 1, PD [(KS 5, PS (SInt 9)); (KS 2, PL [PS (SInt 1); PS (SInt 2); PS (SInt 3)])]); (KS 3, PS (SInt 7))]) /\
  option_map erase (match merge2 [] base (wrap ws (Comp CAppend F0 SNone [(KI 0, L 3)])) with Ok n => Some n | _ => None end) =
    app_at (erase base) (wkeys ws) [PS (SInt 3)].
Proof. vm_compute. repeat split; try reflexivity. eexists. reflexivity. Qed.

(* q: !prev p, end to end: for every tag-free config (any nesting, unique keys) that has a node t at p (reached through mappings) and
   every document {q: !prev p} (any safety marks / metadata on the document) whose key q does not exist once p is gone: the whole of
   root.merge(doc) succeeds; the result is the config without p ([prem]) with the ENTIRE previous subtree of p appended under q *)
Theorem C16_prev_end_to_end : forall e fd xd fl qq z tp root root' t kv',
  NX fd -> f_idel fd = None ->
  plookup e z = Some tp -> Old root -> puk (erase root) -> dpath root tp ->
  remove_node root tp = Some (Some (root', t)) ->
  prem (erase root) tp = PD kv' -> aget qq kv' = None ->
  exists n, merge2 e root (Comp CDict fd xd [(qq, Leaf LPrev fl (SStr z))]) = Ok n /\
            erase n = PD (kv' ++ [(qq, erase t)]) /\ pat (erase root) tp = Some (erase t).
Proof. exact prev_end_to_end. Qed.
Print Assumptions C16_prev_end_to_end.

(* ... and removing p leaves every path that leaves the spine of p untouched *)
Theorem C16_prev_every_other_path_kept : forall q d q', puk d -> diverge q q' -> pat (prem d q) q' = pat d q'.
Proof. exact prem_frame. Qed.
Print Assumptions C16_prev_every_other_path_kept.

Example C16_prev_end_to_end_example :
  let L v := Leaf LScalar F0 (SInt v) in
  let sub := Comp CDict F0 SNone [(KS 2, Comp CList F0 SNone [(KI 0, L 1)]); (KS 5, L 9)] in
  let base := Comp CDict F0 SNone [(KS 1, Comp CDict F0 SNone [(KS 6, sub); (KS 7, L 8)]); (KS 3, L 7)] in
  (exists root', remove_node base [KS 1; KS 6] = Some (Some (root', sub))) /\ dpath base [KS 1; KS 6] /\
  prem (erase base) [KS 1; KS 6] = PD [(KS 1, PD [(KS 7, PS (SInt 8))]); (KS 3, PS (SInt 7))] /\
  option_map erase (match merge2 [(9, [KS 1; KS 6])] base (Comp CDict F0 SNone [(KS 4, Leaf LPrev F0 (SStr 9))]) with Ok n => Some n | _ => None end) =
    Some (PD [(KS 1, PD [(KS 7, PS (SInt 8))]); (KS 3, PS (SInt 7)); (KS 4, erase sub)]).
Proof. vm_compute. repeat split; try reflexivity. eexists. reflexivity. Qed.

(* !extend, end to end: with a list at the path it is !append ... *)
Theorem C16_extend_end_to_end : forall e ws fa xa chs root root' tf tx tch,
  ws <> [] -> Forall WF ws -> Old root -> puk (erase root) -> dpath root (wkeys ws) ->
  remove_node root (wkeys ws) = Some (Some (root', Comp CList tf tx tch)) ->
  Forall (fun kc => Old (snd kc)) chs -> Forall (fun kc => puk (erase (snd kc))) chs ->
  exists n, merge2 e root (wrap ws (Comp CExtend fa xa chs)) = Ok n /\
            Some (erase n) = app_at (erase root) (wkeys ws) (map (fun kc => erase (snd kc)) chs).
Proof. exact extend_end_to_end. Qed.
Print Assumptions C16_extend_end_to_end.

(* ... and with nothing (or something that is not a list) at the path the whole merge is exactly the merge of the PLAIN list:
   the reference update of the config with the document in which `!extend L` is replaced by `L` (same content, or a MergeError
   exactly when that update fails) *)
Theorem C16_extend_fallback_end_to_end : forall e ws fa xa chs root,
  ws <> [] -> Forall WF ws -> Old root -> puk (erase root) ->
  (get_node root (wkeys ws) = None \/ exists t, get_node root (wkeys ws) = Some t /\ (match t with Comp k _ _ _ => is_listk k = false | Leaf _ _ _ => True end)) ->
  Forall (fun kc => Old (snd kc)) chs -> Forall (fun kc => puk (erase (snd kc))) chs ->
  match upd (erase root) (pwrap (wkeys ws) (PL (map (fun kc => erase (snd kc)) chs))) with
  | Ok r => exists n, merge2 e root (wrap ws (Comp CExtend fa xa chs)) = Ok n /\ erase n = r
  | Err _ _ => exists q, merge2 e root (wrap ws (Comp CExtend fa xa chs)) = Err EMerge q
  end.
Proof. exact extend_fallback_end_to_end. Qed.
Print Assumptions C16_extend_fallback_end_to_end.

Example C16_example :
  let L v := Leaf LScalar F0 (SInt v) in
  let lst := Comp CList F0 SNone [(KI 0, L 1); (KI 1, L 2)] in
  let base := Comp CDict F0 SNone [(KS 1, Comp CDict F0 SNone [(KS 2, lst)]); (KS 3, L 7)] in
  let doc := Comp CDict F0 SNone [(KS 1, Comp CDict F0 SNone [(KS 2, Comp CAppend F0 SNone [(KI 0, L 3)])]); (KS 4, Leaf LPrev F0 (SStr 9))] in
  option_map erase (match merge2 [(9, [KS 3])] base doc with Ok n => Some n | _ => None end)
  = Some (PD [(KS 1, PD [(KS 2, PL [PS (SInt 1); PS (SInt 2); PS (SInt 3)])]); (KS 4, PS (SInt 7))]).
Proof. vm_compute. reflexivity. Qed.
