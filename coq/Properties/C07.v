(* Properties/C07.v — unsafe content never reaches executed code, whatever is merged around it. *)
From AY Require Import Model.Eval Proofs.Safety Proofs.Walk Proofs.Prio.

(* (a) the gate, per node: an unsafe !call / !bind / !eval / f-string / !import node never runs — no event, no state *)
Theorem C07_gate : forall root pe fe rec ras n p st,
  is_dynamic n = true -> safe (nflags n) = false -> lookup_path p (done st) = None ->
  exists e q, eval_node root pe fe rec ras n p st = Err e q /\ (e = EUnsafe \/ e = EEval).
Proof. exact unsafe_dynamic_never_runs. Qed.
Print Assumptions C07_gate.

(* (a') the gate, globally: in every successful build every call, bind, exec and import event belongs to a node of the
   evaluated tree that is safe — marked neither !unsafe, nor below an !unsafe node, nor read from an unsafe source *)
Theorem C07_no_unsafe_execution : forall pe fe t v st,
  WF (recopy t) -> config pe fe t = Ok (v, st) -> forall e, In e (log st) -> SafeAt (recopy t) (ev_path e).
Proof.
  intros pe fe t v st Hwf H e He. unfold config in H. destruct (check_missing t); [|discriminate].
  destruct (gate_ev (recopy t) pe fe Hwf _ false (recopy t) [] st0 v st eq_refl H) as (nw & L & S).
  cbn in L. subst. apply S. exact He.
Qed.
Print Assumptions C07_no_unsafe_execution.

(* (b) while the arguments of a call are evaluated every evaluated node is checked BEFORE the cache is consulted *)
Theorem C07_arguments_checked_first : forall root pe fe rec n p st,
  safe (nflags n) = false -> eval_node root pe fe rec true n p st = Err EUnsafe p.
Proof. exact require_all_safe_checks_first. Qed.
Print Assumptions C07_arguments_checked_first.

(* (c) merging can only spread unsafety: whichever of two writers survives, an !unsafe mark or an unsafe source of EITHER makes the survivor unsafe *)
Theorem C07_merge_spreads_unsafety : forall s o,
  (f_safe (nflags s) = Some false \/ f_dsafe (nflags s) = Some false \/ f_safe (nflags o) = Some false \/ f_dsafe (nflags o) = Some false) ->
  safe (nflags (fst (leaf_merge s o))) = false.
Proof. exact leaf_merge_spreads_unsafety. Qed.
Print Assumptions C07_merge_spreads_unsafety.

Theorem C07_container_flags_spread : forall s o,
  ((f_safe s = Some false \/ f_safe o = Some false -> f_safe (absorb s o) = Some false) /\
   (f_dsafe s = Some false \/ f_dsafe o = Some false -> f_dsafe (absorb s o) = Some false)) /\
  ((f_safe s = Some false \/ f_safe o = Some false -> f_safe (become s o) = Some false) /\
   (f_dsafe s = Some false \/ f_dsafe o = Some false -> f_dsafe (become s o) = Some false)).
Proof. intros s o. split; [apply absorb_keeps_unsafe|apply become_keeps_unsafe]. Qed.
Print Assumptions C07_container_flags_spread.

(* an inherited unsafe mark is never cleared by adoption or re-propagation *)
Theorem C07_inherited_mark_sticky : forall kw f idel cf, f_isafe cf = Some false ->
  f_isafe (adopt_flags kw cf) = Some false /\ f_isafe (fst (pc_flags f idel cf)) = Some false.
Proof. intros. split; [apply adopt_flags_isafe_sticky|apply pc_flags_isafe_sticky]; assumption. Qed.
Print Assumptions C07_inherited_mark_sticky.

(* The full taint statement "no value originating from unsafe content is ever passed to a call" is FALSE of the faithful
   model — and of the implementation (known finding D21): a container that is itself safe but holds an unsafe entry,
   evaluated before the call that references it, is served from the cache. Witness: {d: {x: !unsafe 5}, c: !call:f {a: !xref d}}. *)
Example C07_taint_refuted :
  let unsafe := set_safe F0 (Some false) in
  let d := Comp CDict F0 SNone [(KS 1, Leaf LScalar unsafe (SInt 5))] in
  let c := Comp CCall (set_del F0 (Some true)) (SStr 9) [(KS 2, Leaf LXRef F0 (SStr 3))] in
  let t := Comp CDict F0 SNone [(KS 3, d); (KS 4, c)] in
  exists o1 o2 o3 st, config [(3, [KS 3])] [(9, [])] t = Ok (VD o1 [(KS 3, VD o2 [(KS 1, VS (SInt 5))]); (KS 4, VCallRes o3 (SStr 9) [] [(KS 2, VD o2 [(KS 1, VS (SInt 5))])])], st).
Proof. vm_compute. do 4 eexists. reflexivity. Qed.

(* with the opposite key order the same config is refused *)
Example C07_taint_order_dependent :
  let unsafe := set_safe F0 (Some false) in
  let d := Comp CDict F0 SNone [(KS 1, Leaf LScalar unsafe (SInt 5))] in
  let c := Comp CCall (set_del F0 (Some true)) (SStr 9) [(KS 2, Leaf LXRef F0 (SStr 3))] in
  let t := Comp CDict F0 SNone [(KS 4, c); (KS 3, d)] in
  exists q, config [(3, [KS 3])] [(9, [])] t = Err EEval q.
Proof. vm_compute. eexists. reflexivity. Qed.
