(* Properties/C19.v — deepcopy and pickle reproduce any node tree. *)
From AY Require Import Model.Eval Proofs.CopyLemmas Proofs.FlagsLemmas Model.Loader Proofs.CopyLoad.

(* For EVERY tree over all node kinds and flag combinations, a deep copy has the same kinds, keys, order, scalar content,
   targets / reference points, priorities, explicit delete / allow_new / safe marks, source-level safety, metadata and
   source files as the original (Sim = equality up to the implicit flags, which the copy re-derives from the ancestors). *)
Theorem C19_deepcopy_same_explicit : forall n, Sim n (recopy n).
Proof. exact recopy_same_explicit. Qed.
Print Assumptions C19_deepcopy_same_explicit.

Theorem C19_deepcopy_content : forall n, erase (recopy n) = erase n.
Proof. exact recopy_content. Qed.
Print Assumptions C19_deepcopy_content.

(* ... and it is the very same tree whenever the implicit flags of the original are what its ancestors imply *)
Theorem C19_deepcopy_exact : forall n, Consistent n -> recopy n = n.
Proof. exact recopy_consistent. Qed.
Print Assumptions C19_deepcopy_exact.

(* EVERY parsed document (any nesting, any placement of merge-control tags, metadata, unsafe sources) is consistent, so its
   deep copy is the very same tree - every raw and inherited flag of every node: it therefore merges at any position of any
   sequence and evaluates exactly like the original. *)
Theorem C19_parsed_document_copy_exact : forall c y, recopy (load_doc c y) = load_doc c y.
Proof. exact parsed_copy_exact. Qed.
Print Assumptions C19_parsed_document_copy_exact.

Theorem C19_parsed_document_copy_interchangeable : forall e c y xs ys pe fe,
  flatten e (xs ++ recopy (load_doc c y) :: ys) = flatten e (xs ++ load_doc c y :: ys) /\
  config pe fe (recopy (load_doc c y)) = config pe fe (load_doc c y).
Proof. intros. now rewrite parsed_copy_exact. Qed.
Print Assumptions C19_parsed_document_copy_interchangeable.

(* C19_deepcopy_exact is NOT true of every tree that merging produces: a node promoted into an older object can carry
   implicit flags its ancestors no longer imply; the copy then differs from the original in those flags. *)
Example C19_inconsistent_tree_copy_differs :
  let child := Leaf LScalar (set_isafe F0 (Some false)) (SInt 1) in
  let root := Comp CDict (set_safe F0 (Some false)) SNone [(KS 1, Comp CDict F0 SNone [(KS 2, child)])] in
  recopy root <> root /\ Sim root (recopy root).
Proof. split; [vm_compute; discriminate|apply recopy_same_explicit]. Qed.

Example C19_example :
  let f := mkF (Some 1) (Some true) None (Some false) None None None (Some true) [(1, 2)] 3 in
  let t := Comp CDict f SNone [(KS 1, Comp CCall (set_del F0 (Some true)) (SStr 9) [(KI 0, Leaf LXRef F0 (SStr 4))])] in
  Sim t (recopy t) /\ erase (recopy t) = erase t.
Proof. split; [apply recopy_same_explicit|apply recopy_content]. Qed.
