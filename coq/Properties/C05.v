(* Properties/C05.v — merging is local. *)
From AY Require Import Model.Merge Proofs.Local Proofs.FlagsLemmas.

(* The path at which two nodes are merged only reaches error reports: for every pair of trees (all tags, flags, kinds),
   the merged node and the outcome class are the same at any two paths. (This is the statement that the defect repaired
   by f7aa484 violated: there the decision what to prune depended on the absolute path.) *)
Theorem C05_path_irrelevant : forall fuel p p' s o,
  strip (on_merge [] fuel p s o) = strip (on_merge [] fuel p' s o).
Proof. exact on_merge_path_irrelevant. Qed.
Print Assumptions C05_path_irrelevant.

(* Wrapping both documents under the same extra key yields the unwrapped result under that key (equal up to the
   implicit flags re-derived on adoption), unless the explicit remove-this-key idiom applies. By induction the same
   holds for every key chain. *)
Theorem C05_wrap : forall fuel k fa fb a b r w,
  plain_wrapper fa -> plain_wrapper fb -> is_comp a = true ->
  on_merge [] fuel [] a b = Ok (r, w) ->
  (negb (truthy r) && negb (has_priority_over r b false) && explicit_delete b)%bool = false ->
  exists r' w' c, on_merge [] (S fuel) [] (wrapn fa k a) (wrapn fb k b) = Ok (r', w') /\ children r' = [(k, c)] /\ Sim r c.
Proof. exact wrap_local. Qed.
Print Assumptions C05_wrap.

(* Sim is equality of kinds, content, keys, order and all explicit flags: in particular of the plain data *)
Theorem C05_sim_content : forall a b, Sim a b -> erase a = erase b.
Proof. exact Sim_erase. Qed.
Print Assumptions C05_sim_content.

(* fuel never matters once it suffices: no statement about merge results depends on the fuel parameter of the model *)
Theorem C05_fuel_irrelevant : forall als fuel p s o, noFuel (on_merge als fuel p s o) ->
  forall n, on_merge als (n + fuel) p s o = on_merge als fuel p s o.
Proof. exact on_merge_fuel_irrelevant. Qed.
Print Assumptions C05_fuel_irrelevant.

Example C05_example :
  let L v := Leaf LScalar F0 (SInt v) in
  let D f ch := Comp CDict f SNone ch in
  let a := D F0 [(KS 1, D F0 [(KS 1, L 1); (KS 2, L 2)])] in
  let b := D F0 [(KS 1, D (set_del F0 (Some true)) [(KS 1, Leaf LScalar (set_prio F0 (Some (-1))) (SInt 3))])] in
  plain_wrapper F0 /\ is_comp a = true /\
  option_map (fun x => erase (fst x)) (match on_merge [] 10 [] (wrapn F0 (KS 1) a) (wrapn F0 (KS 1) b) with Ok x => Some x | _ => None end)
  = Some (PD [(KS 1, PD [(KS 1, PD [(KS 1, PS (SInt 1))])])]).
Proof. vm_compute. repeat split; reflexivity. Qed.
