(* Properties/C05.v — merging is local. *)
From AY Require Import Model.Merge Proofs.Local Proofs.FlagsLemmas Proofs.Frame.

(* The path at which two nodes are merged only reaches error reports: for every pair of trees (all tags, flags, kinds),
   the merged node and the outcome class are the same at any two paths. (This is the statement that the defect repaired
   by f7aa484 violated: there the decision what to prune depended on the absolute path.) *)
Theorem C05_path_irrelevant : forall fuel p p' s o,
  strip (on_merge [] fuel p s o) = strip (on_merge [] fuel p' s o).
Proof. exact on_merge_path_irrelevant. Qed.
Print Assumptions C05_path_irrelevant.

(* Wrapping both documents under the same extra key yields the unwrapped result under that key (equal up to the
   implicit flags re-derived on adoption), unless the explicit remove-this-key idiom applies. By induction the same
   holds for every key chain. *)
Theorem C05_wrap : forall fuel k fa fb a b r w,
  plain_wrapper fa -> plain_wrapper fb -> is_comp a = true ->
  on_merge [] fuel [] a b = Ok (r, w) ->
  (negb (truthy r) && negb (has_priority_over r b false) && explicit_delete b)%bool = false ->
  exists r' w' c, on_merge [] (S fuel) [] (wrapn fa k a) (wrapn fb k b) = Ok (r', w') /\ children r' = [(k, c)] /\ Sim r c.
Proof. exact wrap_local. Qed.
Print Assumptions C05_wrap.

(* Sim is equality of kinds, content, keys, order and all explicit flags: in particular of the plain data *)
Theorem C05_sim_content : forall a b, Sim a b -> erase a = erase b.
Proof. exact Sim_erase. Qed.
Print Assumptions C05_sim_content.

(* fuel never matters once it suffices: no statement about merge results depends on the fuel parameter of the model *)
Theorem C05_fuel_irrelevant : forall als fuel p s o, noFuel (on_merge als fuel p s o) ->
  forall n, on_merge als (n + fuel) p s o = on_merge als fuel p s o.
Proof. exact on_merge_fuel_irrelevant. Qed.
Print Assumptions C05_fuel_irrelevant.

(* ---- the frame clause (extension round 7): "paths that the newer document does not mention, and that are not below a deleting node of it,
   come out unchanged" - for the GENERAL merge: any merge-control tags, priorities, marks and metadata anywhere in both trees.  Unchanged =
   Sim (same kinds, content, keys, order and explicit flags; implicit flags are re-derived when a parent's flags change), hence the same
   plain data (C05_sim_content). ---- *)

(* one level, any stage (aliases left behind by !clear included): a key of the older mapping that the newer, non-deleting mapping does
   not mention *)
Theorem C05_frame : forall als fuel p fs xs chs fo xo cho r w k c,
  delete (Comp CDict fo xo cho) = false ->
  on_merge als (S fuel) p (Comp CDict fs xs chs) (Comp CDict fo xo cho) = Ok (r, w) ->
  aget k chs = Some c -> aget k cho = None ->
  exists c', get_child r k = Some c' /\ Sim c c'.
Proof. exact merge_frame. Qed.
Print Assumptions C05_frame.

(* at any depth: [nmiss o q] - the newer tree leaves the path q at a mapping and no mapping of it on the way deletes (its keys unique, as
   in every YAML mapping); [dget s q] - what the older tree holds at the path of mapping keys q *)
Theorem C05_frame_at_any_depth : forall q fuel p s o r w c,
  on_merge [] fuel p s o = Ok (r, w) -> nmiss o q -> dget s q = Some c -> exists c', dget r q = Some c' /\ Sim c c'.
Proof. exact merge_frame_deep. Qed.
Print Assumptions C05_frame_at_any_depth.

(* a key the newer mapping does mention holds the recursive merge of the two values (up to Sim), whatever the sibling keys hold *)
Theorem C05_mentioned_key_is_recursive_merge : forall rec p fs xs chs fo xo cho r w k v c0,
  delete (Comp CDict fo xo cho) = false -> NoDup (map fst cho) ->
  comp_merge rec [] p (Comp CDict fs xs chs) (Comp CDict fo xo cho) = Ok (r, w) ->
  aget k chs = Some c0 -> aget k cho = Some v -> is_comp c0 = true -> explicit_delete v = false ->
  exists n w0 f' ch' c', rec (p ++ [k]) c0 v = Ok (n, w0) /\ r = Comp CDict f' xs ch' /\ aget k ch' = Some c' /\ Sim n c'.
Proof. exact comp_merge_hit. Qed.
Print Assumptions C05_mentioned_key_is_recursive_merge.

(* the same at any depth: where the older tree holds a container at the mapping path q and the newer tree reaches a value v there (through
   non-deleting mappings with unique keys), the merged tree holds at q the merge of exactly those two - [idiom]: unless that merge is the
   emptied outcome of a !del value, for which the key is removed *)
Theorem C05_merged_at_any_depth : forall q fuel p s o r w v c0,
  q <> [] -> on_merge [] fuel p s o = Ok (r, w) -> nreach o q v -> dget s q = Some c0 -> is_comp c0 = true ->
  exists fu p' n w0, on_merge [] fu p' c0 v = Ok (n, w0) /\ (idiom n v = false -> exists c', dget r q = Some c' /\ Sim n c').
Proof. exact merged_deep. Qed.
Print Assumptions C05_merged_at_any_depth.

(* "the merged value at any path is unaffected by what sibling paths contain or how keys elsewhere are named": two merges of mappings
   that agree on what they hold at k - whatever their other keys (names and contents), their own flags, their position in the tree - leave
   Sim nodes at k *)
Theorem C05_sibling_independent : forall fuel p p' fs xs chs fo xo cho r w fs' xs' chs' fo' xo' cho' r' w' k v c0,
  delete (Comp CDict fo xo cho) = false -> NoDup (map fst cho) -> delete (Comp CDict fo' xo' cho') = false -> NoDup (map fst cho') ->
  on_merge [] (S fuel) p (Comp CDict fs xs chs) (Comp CDict fo xo cho) = Ok (r, w) ->
  on_merge [] (S fuel) p' (Comp CDict fs' xs' chs') (Comp CDict fo' xo' cho') = Ok (r', w') ->
  aget k chs = Some c0 -> aget k cho = Some v -> aget k chs' = Some c0 -> aget k cho' = Some v ->
  is_comp c0 = true -> explicit_delete v = false ->
  exists c c', get_child r k = Some c /\ get_child r' k = Some c' /\ Sim c c'.
Proof. exact sibling_independent. Qed.
Print Assumptions C05_sibling_independent.

(* non-vacuity: a !force mapping and a !weak scalar beside the untouched path; the newer stage overrides a sibling two levels down *)
Example C05_frame_example :
  let L f v := Leaf LScalar f (SInt v) in
  let D f ch := Comp CDict f SNone ch in
  let s := D F0 [(KS 1, D (set_prio F0 (Some 1)) [(KS 2, D F0 [(KS 3, L F0 1)]); (KS 4, L (set_prio F0 (Some (-1))) 2)])] in
  let o := D F0 [(KS 1, D F0 [(KS 4, L F0 5); (KS 6, L F0 6)])] in
  nmiss o [KS 1; KS 2; KS 3] /\ (exists c, dget s [KS 1; KS 2; KS 3] = Some c) /\
  (match on_merge [] 10 [] s o with Ok (r, _) => option_map erase (dget r [KS 1; KS 2; KS 3]) | _ => None end) = Some (PS (SInt 1)).
Proof.
  cbn zeta. split; [|split; [eexists; reflexivity|vm_compute; reflexivity]].
  cbn. repeat split; try reflexivity;
    repeat (constructor; cbn [map fst In]; try (intros [E|E]; [discriminate E|]); try tauto).
Qed.

Example C05_example :
  let L v := Leaf LScalar F0 (SInt v) in
  let D f ch := Comp CDict f SNone ch in
  let a := D F0 [(KS 1, D F0 [(KS 1, L 1); (KS 2, L 2)])] in
  let b := D F0 [(KS 1, D (set_del F0 (Some true)) [(KS 1, Leaf LScalar (set_prio F0 (Some (-1))) (SInt 3))])] in
  plain_wrapper F0 /\ is_comp a = true /\
  option_map (fun x => erase (fst x)) (match on_merge [] 10 [] (wrapn F0 (KS 1) a) (wrapn F0 (KS 1) b) with Ok x => Some x | _ => None end)
  = Some (PD [(KS 1, PD [(KS 1, PD [(KS 1, PS (SInt 1))])])]).
Proof. vm_compute. repeat split; reflexivity. Qed.
