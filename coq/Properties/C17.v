(* Properties/C17.v — node containers stay consistent under any sequence of API operations. *)
From AY Require Import Model.Container Model.Path Proofs.ContainerInv Proofs.Walk Proofs.PathRT Proofs.NodeInd Proofs.FactsOk.

(* Lists: after ANY finite sequence of public operations (item assignment/deletion, append, insert, extend, remove,
   pop, clear, set/remove/rename child; arbitrary in-range, out-of-range, negative or non-integer indices) the child map
   is exactly the enumeration 0..n-1 of the built-in list, in order, and every entry is a node. *)
Theorem C17_list_reachable : forall (ops : list lop) (s : lst),
  LInv s -> LInv (fold_left (fun s o => fst (lstep s o)) ops s).
Proof. exact lsteps_inv. Qed.
Print Assumptions C17_list_reachable.

Theorem C17_list_init : forall vs, LInv (mkL (map adoptv vs) (enumerate_from 0 (map adoptv vs))).
Proof. exact LInv_init. Qed.
Print Assumptions C17_list_init.

(* an operation that raises leaves the list unchanged *)
Theorem C17_list_error_unchanged : forall s o, LInv s ->
  (match snd (lstep s o) with TypeErr | IndexErr | KeyErr | ValueErr => True | _ => False end) -> fst (lstep s o) = s.
Proof. exact lstep_error_unchanged. Qed.
Print Assumptions C17_list_error_unchanged.

(* Mappings: both views hold the same entries in the same order after any sequence of item/attribute assignment and
   deletion, pop, setdefault, update, clear, set/remove/rename child; every entry is a node. *)
Theorem C17_dict_reachable : forall (ops : list dop) (s : dct),
  DInv s -> DInv (fold_left (fun s o => fst (dstep s o)) ops s).
Proof. exact dsteps_inv. Qed.
Print Assumptions C17_dict_reachable.

(* Every node reported by the tree walk is the one returned by looking its path up again. *)
Theorem C17_walk_lookup : forall n p m, WF n -> In (p, m) (nwp [] n) -> get_node n p = Some m.
Proof.
  intros n p m H Hin. destruct (walk_lookup n [] p m H Hin) as (q & -> & Hq). exact Hq.
Qed.
Print Assumptions C17_walk_lookup.

(* A path converted to text and parsed back is unchanged (components: identifiers and decimal indices). *)
Theorem C17_path_roundtrip : forall p, path_ok p = true -> split (join true p) = Some p.
Proof. exact path_roundtrip. Qed.
Print Assumptions C17_path_roundtrip.

(* non-vacuity *)
Example C17_example_list :
  let s0 := mkL (map adoptv [Raw 1; Raw 2; Raw 3]) (enumerate_from 0 (map adoptv [Raw 1; Raw 2; Raw 3])) in
  let ops := [LInsert (KI 0) (Raw 9); LPop (KI (-1)); LDelItem (KI 7); LRemove (Raw 1); LExtend [Raw 4; Nd 5]; LSetChild (KI 99) (Raw 6)] in
  fold_left (fun s o => fst (lstep s o)) ops s0
  = mkL [Nd 9; Nd 2; Nd 4; Nd 5; Nd 6] [(KI 0, Nd 9); (KI 1, Nd 2); (KI 2, Nd 4); (KI 3, Nd 5); (KI 4, Nd 6)].
Proof. vm_compute. reflexivity. Qed.

Example C17_example_path :
  let p := [PN ["a"%char; "_"%char]; PI true ["1"%char; "2"%char]; PI false ["0"%char]; PN ["7"%char]] in
  path_ok p = true /\ join true p = ["a"; "_"; "["; "-"; "1"; "2"; "]"; "["; "0"; "]"; "."; "7"]%char.
Proof. vm_compute. split; reflexivity. Qed.
