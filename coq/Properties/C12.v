(* Properties/C12.v — !eval and f-strings compute what Python computes, with config names visible.
   What is logic is proved here; CPython's compiler / interpreter and the bytecode rewriter are outside the model and are
   decided by the differential oracle (every generated program against native exec / eval in a subprocess). *)
From AY Require Import Model.EvalCode Proofs.EvalCodeLemmas Model.Patch Proofs.PatchLemmas.

(* Name resolution, for ANY symbols, definitions, config entries and builtins: a name resolves to, in order, a definition
   made by the code itself, a symbol of the evaluation context, the top-level config entry, a builtin. *)
Theorem C12_order : forall symbols defs cfg bi ctx n, n <> AYNS ->
  resolve (nupdate (nupdate [(AYNS, ctx)] symbols) defs) cfg bi n =
  match nget n (rev defs) with
  | Some v => Some v
  | None => match nget n (rev symbols) with
            | Some v => Some v
            | None => match nget n cfg with Some v => Some v | None => nget n bi end
            end
  end.
Proof. exact resolve_order. Qed.
Print Assumptions C12_order.

(* The split, for every code text without ';': all but the last line are executed, the last line is evaluated. *)
Theorem C12_split_spec : forall code, ~ In SEMI (strip code) ->
  exec_part code = spec_exec_part code /\ eval_part code = spec_eval_part code.
Proof. exact split_spec. Qed.
Print Assumptions C12_split_spec.

(* ... and it is refuted with ';' (known finding D11c): the one-line program  'a;b'  (a string literal) is cut in two. *)
Theorem C12_split_refuted : exists code, eval_part code <> spec_eval_part code.
Proof. exists [39; 97; 59; 98; 39]. vm_compute. discriminate. Qed.
Print Assumptions C12_split_refuted.

(* History: the namespace of a single-line program (and of every f-string), and of any program evaluated for the first time
   at its path, depends only on the current build - whatever was built before (any cache state). *)
Theorem C12_history_single_line : forall c b, b_multi b = false -> fst (run_build c b) = fresh_ns b.
Proof. exact single_line_fresh. Qed.
Print Assumptions C12_history_single_line.

Theorem C12_history_first_use : forall c b, cget (b_key b) c = None -> fst (run_build c b) = fresh_ns b.
Proof. exact first_use_fresh. Qed.
Print Assumptions C12_history_first_use.

(* The full history clause is FALSE of the faithful model (known finding D11b): a multi-line program evaluated again at
   the same path reads the FIRST build's symbols and evaluation context. *)
Theorem C12_history_refuted : exists b1 b2 n,
  observe (nth 1 (run_history [] [b1; b2]) []) b2 [] n <> observe (fresh_ns b2) b2 [] n.
Proof.
  exists (mkB 5 true [(7, 100)] [] [] 1), (mkB 5 true [(7, 200)] [] [] 2), 7. vm_compute. discriminate.
Qed.
Print Assumptions C12_history_refuted.

(* ---- the bytecode rewriter (EvalNode._patch_access_to_globals), as a function on code units ----
   For EVERY code object (any length, any instructions) on which the patch succeeds: control flow is preserved. Each relative
   jump of the original code sits, in the patched code, at the image of its position, keeps its opcode, and - for a
   non-negative argument and a backward jump that does not target its own caches - goes exactly to the image of its old
   target, where "image" is the rewriter's location map.  (The map is monotone and never shrinks distances: Inv.) *)
Theorem C12_jumps_retargeted : forall wrapper ayns names nested code out names' st,
  scan (S (length code)) wrapper ayns names code 0 (mkSS [] [] [] false) = POk st ->
  patch wrapper ayns names nested code = POk (Some (out, names')) ->
  forall old new, In (old, new) (s_rj st) ->
  exists op rel rel' tgt,
    nth_error code (Z.to_nat old) = Some (op, rel) /\ zmem op Facts.op_hasjrel = true /\
    zassoc old (s_map st) = Some new /\
    nth_error out (Z.to_nat new) = Some (op, rel') /\
    zassoc (jump_target op old rel) (s_map st) = Some tgt /\
    (0 <= rel -> (is_backward op = true -> jump_base op <= rel) -> jump_target op new rel' = tgt).
Proof. exact jumps_retargeted. Qed.
Print Assumptions C12_jumps_retargeted.

(* the second pass rewrites jump arguments only: same number of units, same opcodes as the per-instruction expansion *)
Theorem C12_patch_keeps_opcodes : forall wrapper ayns names nested code out names' st,
  scan (S (length code)) wrapper ayns names code 0 (mkSS [] [] [] false) = POk st ->
  patch wrapper ayns names nested code = POk (Some (out, names')) ->
  length out = length (s_out st) /\ map fst out = map fst (s_out st).
Proof. exact patch_ops. Qed.
Print Assumptions C12_patch_keeps_opcodes.

(* non-vacuity on this interpreter's opcodes:  LOAD_NAME a; POP_JUMP_IF_FALSE +2; LOAD_NAME b; RETURN; LOAD_NAME c; RETURN
   - three redirected loads, a forward jump across one of them *)
Example C12_patch_example :
  exists out st, scan 7 1 2 [3; 4; 5] [(101, 0); (114, 2); (101, 1); (83, 0); (101, 2); (83, 0)] 0 (mkSS [] [] [] false) = POk st /\
    patch 1 2 [3; 4; 5] false [(101, 0); (114, 2); (101, 1); (83, 0); (101, 2); (83, 0)] = POk (Some (out, [3; 4; 5; 1])) /\
    In (1, 11) (s_rj st) /\ nth_error out 11 = Some (114, 12) /\ zassoc 4 (s_map st) = Some 24.
Proof. eexists. eexists. split; [vm_compute; reflexivity|]. split; [vm_compute; reflexivity|]. split; [vm_compute; now left|]. split; vm_compute; reflexivity. Qed.

Example C12_example :
  resolve (nupdate (nupdate [(AYNS, 1)] [(3, 30); (4, 40)]) [(4, 41)]) [(3, 300); (5, 500)] [(6, 600); (5, 501)] 4 = Some 41 /\
  resolve (nupdate (nupdate [(AYNS, 1)] [(3, 30); (4, 40)]) [(4, 41)]) [(3, 300); (5, 500)] [(6, 600); (5, 501)] 3 = Some 30 /\
  resolve (nupdate (nupdate [(AYNS, 1)] [(3, 30); (4, 40)]) [(4, 41)]) [(3, 300); (5, 500)] [(6, 600); (5, 501)] 5 = Some 500 /\
  resolve (nupdate (nupdate [(AYNS, 1)] [(3, 30); (4, 40)]) [(4, 41)]) [(3, 300); (5, 500)] [(6, 600); (5, 501)] 6 = Some 600.
Proof. repeat split; vm_compute; reflexivity. Qed.
