(* Properties/C10.v — every dynamic node is evaluated exactly once. *)
From AY Require Import Model.Eval Proofs.EvalInv Proofs.EvalCover.

(* During one build no !call / !bind / !eval node runs twice, however many references, arguments or expressions consume it,
   and whatever ran has its result recorded (so that all consumers get it). For every tree, graph of references and order of keys. *)
Theorem C10_at_most_once : forall pe fe t v st,
  config pe fe t = Ok (v, st) ->
  NoDup (dyn_paths (log st)) /\ forall q, In q (dyn_paths (log st)) -> lookup_path q (done st) <> None.
Proof. exact config_at_most_once. Qed.
Print Assumptions C10_at_most_once.

(* the memoisation invariant behind it, for every evaluation step: results are recorded and never overwritten, nodes in
   progress are not completed by nested evaluations, new dynamic events are pairwise distinct and fresh *)
Theorem C10_memo_invariant : forall root pe fe fuel ras n p st v st',
  ev root pe fe fuel ras n p st = Ok (v, st') -> lookup_path p (done st') = Some v /\ Ext None st st'.
Proof. exact (fun root pe fe fuel ras n p st v st' H => ev_spec root pe fe fuel ras n p st v st' H). Qed.
Print Assumptions C10_memo_invariant.

(* all consumers see the same resulting object: evaluating a path again, in any later state, with any flags, returns the recorded object *)
Theorem C10_same_object : forall root pe fe f1 f2 r1 r2 n1 n2 p st v st1 st2 v' st3,
  ev root pe fe f1 r1 n1 p st = Ok (v, st1) ->
  (forall q w, lookup_path q (done st1) = Some w -> lookup_path q (done st2) = Some w) ->
  ev root pe fe f2 r2 n2 p st2 = Ok (v', st3) -> v' = v /\ st3 = st2.
Proof.
  intros root pe fe f1 f2 r1 r2 n1 n2 p st v st1 st2 v' st3 H1 Hm H2.
  destruct (ev_spec _ _ _ _ _ _ _ _ _ _ H1) as [R _]. apply Hm in R.
  destruct f2 as [|f2]; [discriminate|]. cbn [ev] in H2. unfold eval_node in H2.
  destruct (r2 && negb (safe (nflags n2)))%bool; [discriminate|]. rewrite R in H2. inversion H2; auto.
Qed.
Print Assumptions C10_same_object.

(* ... and at least once: a successful build has reached EVERY node of the evaluated tree (each has a recorded result), and
   every dynamic node of it (!call / !bind / !eval / f-string) has run. With C10_at_most_once: exactly once - for every
   well-formed tree (unique keys, lists numbered from 0: WFT_WF), every graph of references, every order of keys. *)
Theorem C10_exactly_once : forall pe fe t v st, WF (recopy t) -> config pe fe t = Ok (v, st) ->
  NoDup (dyn_paths (log st)) /\
  forall q m, In (q, m) (nwp [] (recopy t)) ->
    lookup_path q (done st) <> None /\ (is_dyn m = true -> In q (dyn_paths (log st))).
Proof.
  intros pe fe t v st Hwf H. split; [exact (proj1 (config_at_most_once pe fe t v st H))|]. exact (config_covers pe fe t v st Hwf H).
Qed.
Print Assumptions C10_exactly_once.

Theorem C10_wellformed_trees : forall t, WFT t -> WF t.
Proof. exact WFT_WF. Qed.
Print Assumptions C10_wellformed_trees.

Example C10_example :
  let X z := Leaf LXRef F0 (SStr z) in
  let call := Comp CCall (set_del F0 (Some true)) (SStr 9) [(KI 0, X 1)] in
  let t := Comp CDict F0 SNone [(KS 2, X 3); (KS 3, call); (KS 1, Comp CCall (set_del F0 (Some true)) (SStr 9) []); (KS 4, Comp CList F0 SNone [(KI 0, X 3); (KI 1, X 1)])] in
  match config [(1, [KS 1]); (3, [KS 3])] [(9, [])] t with
  | Ok (_, st) => calls (log st) = [SStr 9; SStr 9] /\ dyn_paths (log st) = [[KS 1]; [KS 3]]
  | _ => False end.
Proof. vm_compute. split; reflexivity. Qed.

Example C10_example_wellformed :
  let X z := Leaf LXRef F0 (SStr z) in
  let call := Comp CCall (set_del F0 (Some true)) (SStr 9) [(KI 0, X 1)] in
  let t := Comp CDict F0 SNone [(KS 2, X 3); (KS 3, call); (KS 1, Comp CCall (set_del F0 (Some true)) (SStr 9) []); (KS 4, Comp CList F0 SNone [(KI 0, X 3); (KI 1, X 1)])] in
  WFT (recopy t).
Proof.
  cbn. repeat (constructor; cbn; try (intros [|[|[|[]]]]; congruence); try tauto; try discriminate); intuition congruence.
Qed.
