(* Properties/C06.v — streams are flattened in order: sources, multi-document files and !include agree. *)
From AY Require Import Model.Stream Proofs.StreamLemmas Proofs.FlagsLemmas Model.PathRef Proofs.PathRefLemmas.

(* A build input is a list of segments: single documents (a source holding one document, or one document of a
   multi-document source) and groups of documents delivered by ONE top-level include (a stream node, with whatever
   flags / attributes the include node had).  However the documents are split into segments, the build is the build of
   the plain concatenation of all documents: n separate sources, one multi-document source, one top-level
   '!include [f1..fn]' and n top-level includes are the cases  [SDoc d1; ..; SDoc dn],  the same list again,
   [SGroup f x [d1..dn]]  and  [SGroup f1 x1 [d1]; ..; SGroup fn xn [dn]]. *)
Theorem C06_splice_is_concatenation : forall e segs,
  Forall (fun d => is_stream d = false) (flat_map seg_docs segs) ->
  build_stream e (map seg_stage segs) = build_stream e (flat_map seg_docs segs).
Proof. exact build_stream_segments. Qed.
Print Assumptions C06_splice_is_concatenation.

(* 'key: !include [f1..fn]' inside a document: the parent is rebuilt with, at that key, the merged content r of the files
   adopted by the parent exactly as set_child adopts any node placed under the key (same data: adopt_erase);
   if merging the files fails, the build fails (as_premerge: the error is re-raised as a pre-merge error of the include). Nothing else in the parent changes. *)
Theorem C06_nested_include : forall e k f x ky sf sx docs pre post fuel,
  Forall (fun kc => no_stream (snd kc) = true) pre ->
  Forall (fun kc => no_stream (snd kc) = true) post ->
  Forall (fun d => no_stream d = true) docs ->
  (depth (Comp k f x (pre ++ (ky, stream_of sf sx docs) :: post)) <= fuel)%nat ->
  expand fuel e (Comp k f x (pre ++ (ky, stream_of sf sx docs) :: post)) =
  do r <- as_premerge (flatten e docs);
  Ok (Comp k f x (pre ++ (ky, adopt (child_kwargs (Comp k f x [])) r) :: post)).
Proof. exact expand_nested. Qed.
Print Assumptions C06_nested_include.

Theorem C06_nested_include_same_data : forall kw r, erase (adopt kw r) = erase r.
Proof. exact adopt_erase. Qed.
Print Assumptions C06_nested_include_same_data.

(* without includes the stream machinery is the plain Builder.flatten that C02-C05, C08, C15, C16 are about *)
Theorem C06_no_stream_is_identity : forall e stages,
  Forall (fun d => no_stream d = true) stages -> build_stream e stages = flatten e stages.
Proof. exact build_stream_no_stream. Qed.
Print Assumptions C06_no_stream_is_identity.

(* lookup: for ANY file system (exists_in), the directory of the including file is consulted first, then the working
   directory; the include fails iff some name is found in neither, and the error lists exactly those names. *)
Theorem C06_lookup_order : forall (dir : Type) (ex : dir -> Z -> bool) inc cwd n,
  find_file dir ex (lookup_dirs dir (Some inc) cwd) n =
  if ex inc n then Some inc else if ex cwd n then Some cwd else None.
Proof. exact lookup_order. Qed.
Print Assumptions C06_lookup_order.

Theorem C06_missing_files_named : forall (dir : Type) (ex : dir -> Z -> bool) dirs names m,
  include_files dir ex dirs names = inr m <-> m = filter (nowhere dir ex dirs) names /\ m <> [].
Proof. exact include_files_missing. Qed.
Print Assumptions C06_missing_files_named.

Theorem C06_found_files_in_order : forall (dir : Type) (ex : dir -> Z -> bool) dirs names found,
  include_files dir ex dirs names = inl found ->
  map snd found = names /\ Forall (fun dn => find_file dir ex dirs (snd dn) = Some (fst dn)) found.
Proof. exact include_files_found. Qed.
Print Assumptions C06_found_files_in_order.

(* non-vacuity: a top-level include of two documents in front of a further source; lists replace across the boundary *)
Example C06_example :
  let d1 := Comp CDict F0 SNone [(KS 1, Comp CList F0 SNone [(KI 0, Leaf LScalar F0 (SInt 1)); (KI 1, Leaf LScalar F0 (SInt 2))])] in
  let d2 := Comp CDict F0 SNone [(KS 1, Comp CList F0 SNone [(KI 0, Leaf LScalar F0 (SInt 3))])] in
  let d3 := Comp CDict F0 SNone [(KS 2, Leaf LScalar F0 (SInt 4))] in
  build_stream [] [stream_of F0 SNone [d1; d2]; d3] = build_stream [] [d1; d2; d3] /\
  (exists r, build_stream [] [d1; d2; d3] = Ok r /\
             erase r = PD [(KS 1, PL [PS (SInt 3)]); (KS 2, PS (SInt 4))]).
Proof. split; [reflexivity|]. eexists. split; vm_compute; reflexivity. Qed.

(* ---- !path with a file-relative reference point (parent(n)) ----
   For EVERY spelling of the source file name (absolute, relative, with '..' components), every working directory, every n and
   every components: the location the node denotes depends only on WHERE its file is - two spellings of the same file give
   the same location - and it is "n+1 levels above the file, then the components" (clamped at the root). *)
Theorem C06_path_spelling_irrelevant : forall cwd1 s1 cwd2 s2 n args,
  locate cwd1 s1 = locate cwd2 s2 -> locate cwd1 (parent_ref s1 n args) = locate cwd2 (parent_ref s2 n args).
Proof. exact path_spelling_irrelevant. Qed.
Print Assumptions C06_path_spelling_irrelevant.

Theorem C06_path_parent : forall cwd src n args,
  locate cwd (parent_ref src n args) = rev (fold_left (push true) (repeat Up (S n) ++ args) (rev (locate cwd src))).
Proof. exact locate_parent_ref. Qed.
Print Assumptions C06_path_parent.

(* the shape of repaired defect 048268d: ../conf/paths.yaml seen from /proj/work, parent(2), [datasets]  ->  /datasets *)
Example C06_path_example :
  locate [Nm 1; Nm 2] (parent_ref (mkP false [Up; Nm 3; Nm 4]) 2 [Nm 5]) = [Nm 5] /\
  locate [Nm 1; Nm 2] (parent_ref (mkP false [Up; Nm 3; Nm 4]) 2 [Nm 5]) = locate [Nm 9] (parent_ref (mkP true [Nm 1; Nm 3; Nm 4]) 2 [Nm 5]).
Proof. split; vm_compute; reflexivity. Qed.
