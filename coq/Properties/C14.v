(* Properties/C14.v — a build succeeds iff no !required placeholder survives merging. *)
From AY Require Import Model.Merge Model.Eval Proofs.EvalInv Proofs.Walk Proofs.NodeInd Proofs.Frame Proofs.FrameRequired.

(* the scan reports exactly the paths of the placeholders of the tree — at top level, in nested mappings, lists and the
   arguments of call/bind nodes alike (the walk treats every container kind uniformly) — and each reported path resolves back to it *)
Theorem C14_scan_complete : forall t p,
  In p (check_missing t) <-> exists m, In (p, m) (tl (nwp [] t)) /\ is_required m = true.
Proof.
  intros t p. unfold check_missing, nodes_with_paths. rewrite in_map_iff. split.
  - intros ([q m] & E & H). cbn in E. subst q. apply filter_In in H. destruct H as [H1 H2]. exists m. auto.
  - intros (m & H1 & H2). exists (p, m). split; [reflexivity|]. apply filter_In. auto.
Qed.
Print Assumptions C14_scan_complete.

Theorem C14_paths_resolve : forall t p, WF t -> In p (check_missing t) -> exists m, get_node t p = Some m /\ is_required m = true.
Proof.
  intros t p Hwf H. apply C14_scan_complete in H. destruct H as (m & Hin & Hr). exists m. split; [|exact Hr].
  destruct (walk_lookup t [] p m Hwf) as (q & -> & Hq); [|exact Hq].
  destruct (nwp [] t); [contradiction|right; exact Hin].
Qed.
Print Assumptions C14_paths_resolve.

(* constructing the config fails with the missing-placeholder error exactly when the scan is non-empty — before anything
   is evaluated (no state, hence no event, is produced) — and never fails that way otherwise *)
Theorem C14_iff : forall pe fe t,
  (check_missing t <> [] -> exists p, config pe fe t = Err EMissing p /\ In p (check_missing t)) /\
  (check_missing t = [] -> forall e p, config pe fe t = Err e p -> e <> EMissing).
Proof.
  intros pe fe t. split.
  - intro H. unfold config. destruct (check_missing t) as [|p r]; [contradiction|]. exists p. split; [reflexivity|left; reflexivity].
  - intros H e p He. unfold config in He. rewrite H in He. exact (proj1 (ev_err _ _ _ _ _ _ _ _ _ _ He)).
Qed.
Print Assumptions C14_iff.

(* "A placeholder overwritten ... by any later stage does not count" (extension round 7), on the GENERAL merge (any tags, priorities, marks and
   metadata elsewhere in both trees): when the older tree holds a !required placeholder at the mapping path q ([dget]) and the newer tree
   reaches a value v there through non-deleting mappings with unique keys ([nreach]), v of equal or higher priority and not itself !del,
   then the merged tree holds at q a node of v's kind - a placeholder only if v is one.  (The deleting case - the key disappears - is
   covered by the scan theorems above applied to the merged tree, and by the correspondence.) *)
Theorem C14_overwritten_placeholder_does_not_count : forall q fuel p s o r w v f0 v0,
  q <> [] -> on_merge [] fuel p s o = Ok (r, w) -> nreach o q v -> dget s q = Some (Leaf LRequired f0 v0) ->
  has_priority_over (Leaf LRequired f0 v0) v false = false -> explicit_delete v = false ->
  exists c', dget r q = Some c' /\ is_required c' = is_required v.
Proof. exact placeholder_overwritten. Qed.
Print Assumptions C14_overwritten_placeholder_does_not_count.

(* non-vacuity: a placeholder two levels down, beside a !force sibling, overwritten by the second stage; the scan of the merged tree is empty *)
Example C14_overwritten_example :
  let R := Leaf LRequired F0 SNone in
  let L v := Leaf LScalar F0 (SInt v) in
  let D f ch := Comp CDict f SNone ch in
  let s := D F0 [(KS 1, D F0 [(KS 2, R); (KS 3, L 3)]); (KS 4, Leaf LScalar (set_prio F0 (Some 1)) (SInt 4))] in
  let o := D F0 [(KS 1, D F0 [(KS 2, L 7)])] in
  check_missing s = [[KS 1; KS 2]] /\ nreach o [KS 1; KS 2] (L 7) /\ dget s [KS 1; KS 2] = Some R /\
  (match on_merge [] 10 [] s o with Ok (r, _) => Some (check_missing r) | _ => None end) = Some [].
Proof.
  cbn zeta. split; [vm_compute; reflexivity|]. split; [|split; vm_compute; reflexivity].
  cbn. repeat split; try reflexivity;
    repeat (constructor; cbn [map fst In]; try (intros [E|E]; [discriminate E|]); try tauto).
Qed.

Example C14_example :
  let R := Leaf LRequired F0 SNone in
  let t := Comp CDict F0 SNone [(KS 1, R); (KS 2, Comp CList F0 SNone [(KI 0, Comp CCall (set_del F0 (Some true)) (SStr 9) [(KS 3, R)])])] in
  check_missing t = [[KS 1]; [KS 2; KI 0; KS 3]] /\ (match config [] [(9, [])] t with Err EMissing _ => true | _ => false end) = true.
Proof. vm_compute. split; reflexivity. Qed.
