(* Properties/C14.v — a build succeeds iff no !required placeholder survives merging. *)
From AY Require Import Model.Eval Proofs.EvalInv Proofs.Walk Proofs.NodeInd.

(* the scan reports exactly the paths of the placeholders of the tree — at top level, in nested mappings, lists and the
   arguments of call/bind nodes alike (the walk treats every container kind uniformly) — and each reported path resolves back to it *)
Theorem C14_scan_complete : forall t p,
  In p (check_missing t) <-> exists m, In (p, m) (tl (nwp [] t)) /\ is_required m = true.
Proof.
  intros t p. unfold check_missing, nodes_with_paths. rewrite in_map_iff. split.
  - intros ([q m] & E & H). cbn in E. subst q. apply filter_In in H. destruct H as [H1 H2]. exists m. auto.
  - intros (m & H1 & H2). exists (p, m). split; [reflexivity|]. apply filter_In. auto.
Qed.
Print Assumptions C14_scan_complete.

Theorem C14_paths_resolve : forall t p, WF t -> In p (check_missing t) -> exists m, get_node t p = Some m /\ is_required m = true.
Proof.
  intros t p Hwf H. apply C14_scan_complete in H. destruct H as (m & Hin & Hr). exists m. split; [|exact Hr].
  destruct (walk_lookup t [] p m Hwf) as (q & -> & Hq); [|exact Hq].
  destruct (nwp [] t); [contradiction|right; exact Hin].
Qed.
Print Assumptions C14_paths_resolve.

(* constructing the config fails with the missing-placeholder error exactly when the scan is non-empty — before anything
   is evaluated (no state, hence no event, is produced) — and never fails that way otherwise *)
Theorem C14_iff : forall pe fe t,
  (check_missing t <> [] -> exists p, config pe fe t = Err EMissing p /\ In p (check_missing t)) /\
  (check_missing t = [] -> forall e p, config pe fe t = Err e p -> e <> EMissing).
Proof.
  intros pe fe t. split.
  - intro H. unfold config. destruct (check_missing t) as [|p r]; [contradiction|]. exists p. split; [reflexivity|left; reflexivity].
  - intros H e p He. unfold config in He. rewrite H in He. exact (proj1 (ev_err _ _ _ _ _ _ _ _ _ _ He)).
Qed.
Print Assumptions C14_iff.

Example C14_example :
  let R := Leaf LRequired F0 SNone in
  let t := Comp CDict F0 SNone [(KS 1, R); (KS 2, Comp CList F0 SNone [(KI 0, Comp CCall (set_del F0 (Some true)) (SStr 9) [(KS 3, R)])])] in
  check_missing t = [[KS 1]; [KS 2; KI 0; KS 3]] /\ (match config [] [(9, [])] t with Err EMissing _ => true | _ => false end) = true.
Proof. vm_compute. split; reflexivity. Qed.
