(* Properties/C09.v — cross-references alias their target, in any order, and always terminate. *)
From AY Require Import Model.Eval Proofs.EvalInv Proofs.XRef Proofs.Walk.

(* A !xref node evaluates to the very same object — same value, same identity — as the one recorded for the path at the
   end of its chain of references, wherever that target is defined and whenever it is evaluated (before, during or
   after); both paths hold that one object in the resulting state. Holds for every tree, every state and every fuel. *)
Theorem C09_alias : forall root pe fe fuel ras f z p st v st',
  ev root pe fe fuel ras (Leaf LXRef f (SStr z)) p st = Ok (v, st') ->
  lookup_path p (done st') = Some v /\
  exists tq, lookup_path tq (done st') = Some v /\ (lookup_path p (done st) = None -> tq <> p).
Proof. exact xref_alias. Qed.
Print Assumptions C09_alias.

(* an object recorded for a path is never replaced later in the same build: every later consumer gets that object *)
Theorem C09_recorded_forever : forall root pe fe fuel ras n p st v st',
  ev root pe fe fuel ras n p st = Ok (v, st') ->
  lookup_path p (done st') = Some v /\ forall q w, lookup_path q (done st) = Some w -> lookup_path q (done st') = Some w.
Proof.
  intros. destruct (ev_spec _ _ _ _ _ _ _ _ _ _ H) as [R X]. split; [exact R|exact (x_mono _ _ _ X)].
Qed.
Print Assumptions C09_recorded_forever.

(* Following a chain of references terminates for every well-formed tree and every reference graph (chains of any length,
   fan-in, dangling references, self-references, cycles, tails leading into cycles): the loop never exhausts the budget
   |tree|+1 the model gives it — every iteration adds a new existing path to the chain — so the only outcomes are a value,
   or an evaluation error. *)
Theorem C09_chain_terminates : forall root pe rec p ras z st, WF root ->
  (forall r n q st, noFuelE (rec r n q st)) ->
  noFuelE (follow root pe rec p ras (S (nsize root)) [p] z st).
Proof. exact xref_loop_terminates. Qed.
Print Assumptions C09_chain_terminates.

Theorem C09_self_reference : forall root pe rec p ras z st ff,
  plookup pe z = Some p -> get_node root p <> None -> (ras = true \/ lookup_path p (done st) = None) ->
  exists q, follow root pe rec p ras (S ff) [p] z st = Err EEval q.
Proof. exact self_reference_is_error. Qed.
Print Assumptions C09_self_reference.

(* non-vacuity: a chain a -> b -> c, fan-in, and a tail leading into a cycle *)
Example C09_example :
  let X z := Leaf LXRef F0 (SStr z) in
  let pe := [(1, [KS 1]); (2, [KS 2]); (3, [KS 3]); (4, [KS 4])] in
  let t := Comp CDict F0 SNone [(KS 1, X 2); (KS 2, X 3); (KS 3, Comp CList F0 SNone [(KI 0, Leaf LScalar F0 (SInt 7))]); (KS 4, X 3)] in
  let cyc := Comp CDict F0 SNone [(KS 1, X 2); (KS 2, X 3); (KS 3, X 2)] in
  (match config pe [] t with
   | Ok (VD _ [(_, VL a _); (_, VL b _); (_, VL c _); (_, VL d _)], _) => (a =? b) && (b =? c) && (c =? d)
   | _ => false end)%bool = true /\
  (match config pe [] cyc with Err EEval _ => true | _ => false end) = true.
Proof. vm_compute. split; reflexivity. Qed.
