(* Model/EvalCode.v — what is logic in !eval (mirrors nodes/eval.py 28-46 GlobalsWrapper, 90-107 namespace / module cache,
   109-112 line split).  CPython's compiler and interpreter, and the bytecode rewriter that redirects global loads to the
   wrapper, are outside the model (the differential oracle runs them).  Executable definitions only. *)
From AY Require Export Model.Node Gen.Facts.

(* ---------- name resolution ---------- *)
Definition ns := list (Z * Z).                 (* name id -> value id *)
Fixpoint nget (n : Z) (l : ns) : option Z := match l with [] => None | (k, v) :: r => if k =? n then Some v else nget n r end.
Fixpoint nset (n v : Z) (l : ns) : ns :=
  match l with [] => [(n, v)] | (k, w) :: r => if k =? n then (k, v) :: r else (k, w) :: nset n v r end.

(* gbls.update(symbols): later entries overwrite *)
Definition nupdate (base upd : ns) : ns := fold_left (fun acc kv => nset (fst kv) (snd kv) acc) upd base.

(* GlobalsWrapper.__getattr__: the node's globals (symbols, then whatever the code defined), the top-level config entries, builtins *)
Definition resolve (gbls cfg builtins : ns) (n : Z) : option Z :=
  match nget n gbls with
  | Some v => Some v
  | None => match nget n cfg with Some v => Some v | None => nget n builtins end
  end.

(* ---------- the code split ---------- *)
Definition str := list Z.                      (* characters *)
Definition NL : Z := 10.
Definition SEMI : Z := 59.
Definition SP : Z := 32.

Fixpoint split_on (c : Z) (s : str) : list str :=
  match s with
  | [] => [[]]
  | x :: r => if x =? c then [] :: split_on c r
              else match split_on c r with [] => [[x]] | h :: t => (x :: h) :: t end
  end.

Fixpoint join_with (c : Z) (l : list str) : str :=
  match l with [] => [] | [a] => a | a :: r => a ++ c :: join_with c r end.

Definition is_space (c : Z) : bool := (c =? 32) || (c =? 9) || (c =? 10) || (c =? 13) || (c =? 11) || (c =? 12).
Fixpoint lstrip (s : str) : str := match s with [] => [] | x :: r => if is_space x then lstrip r else s end.
Definition strip (s : str) : str := rev (lstrip (rev (lstrip s))).

(* lines = code.strip().split('\n'); lines = [l2 for l in lines for l2 in l.split(';')]; exec all but the last, eval the last stripped *)
Definition code_lines (code : str) : list str := flat_map (split_on SEMI) (split_on NL (strip code)).
Definition exec_part (code : str) : str := join_with NL (removelast (code_lines code)).
Definition eval_part (code : str) : str := strip (last (code_lines code) []).

(* what the property states: all but the last line executed, the last line evaluated *)
Definition spec_exec_part (code : str) : str := join_with NL (removelast (split_on NL (strip code))).
Definition spec_eval_part (code : str) : str := strip (last (split_on NL (strip code)) []).

(* ---------- build histories: the per-node namespace and the sys.modules cache ---------- *)
Record build := mkB {
  b_key : Z;              (* node path + md5 of the code: the cache key *)
  b_multi : bool;         (* more than one line after the split *)
  b_symbols : ns;         (* the evaluation context's symbols in this build *)
  b_cfg : ns;             (* evaluated top-level config entries of this build *)
  b_defs : ns;            (* definitions the exec part makes *)
  b_ctx : Z               (* identity of this build's evaluation context (what ayns.ctx / ayns.cfg point to) *)
}.
Definition AYNS : Z := 0.   (* the name 'ayns' *)

Definition cache := list (Z * ns).
Fixpoint cget (k : Z) (c : cache) : option ns := match c with [] => None | (k', g) :: r => if k' =? k then Some g else cget k r end.

(* the globals dict the code of build b runs in, and the cache afterwards *)
Definition run_build (c : cache) (b : build) : ns * cache :=
  let cached := if Facts.eval_module_cache then (if b_multi b then cget (b_key b) c else None) else None in
  let base := match cached with
              | Some g => g
              | None => nupdate [(AYNS, b_ctx b)] (b_symbols b)
              end in
  let g := nupdate base (b_defs b) in
  let c' := if Facts.eval_module_cache && b_multi b && match cached with None => true | Some _ => false end then (b_key b, g) :: c else c in
  (g, c').

Fixpoint run_history (c : cache) (bs : list build) : list ns :=
  match bs with [] => [] | b :: r => let '(g, c') := run_build c b in g :: run_history c' r end.

(* the value of a name read by the last line of build b *)
Definition observe (g : ns) (b : build) (builtins : ns) (n : Z) : option Z := resolve g (b_cfg b) builtins n.

Definition ons_eqb (a b : option Z) : bool := match a, b with Some x, Some y => x =? y | None, None => true | _, _ => false end.
