(* Model/Patch.v — EvalNode._patch_access_to_globals on one code object (mirrors nodes/eval.py 152-262 for python >= 3.10):
   every LOAD_GLOBAL / LOAD_NAME of a name other than the wrapper and 'ayns' becomes
       LOAD_* wrapper ; its inline caches ; LOAD_ATTR name ; LOAD_ATTR's inline caches
   and every relative jump is re-targeted through the location map.  Code is the list of 2-byte units (opcode, argument);
   opcode numbers, cache counts and jump classes are facts read from the running interpreter's `dis`.
   CPython's execution of the result is outside the model.  Executable definitions only. *)
From AY Require Export Model.Node Gen.Facts.

Definition unit := (Z * Z)%type.

Fixpoint zassoc (k : Z) (l : list (Z * Z)) : option Z :=
  match l with [] => None | (a, b) :: r => if a =? k then Some b else zassoc k r end.
Definition zmem (k : Z) (l : list Z) : bool := existsb (Z.eqb k) l.

Definition caches_of (op : Z) : nat := match zassoc op Facts.op_caches with Some n => Z.to_nat n | None => O end.
Definition is_load (op : Z) : bool := (op =? Facts.op_load_global) || (op =? Facts.op_load_name).
Definition arg_shifted (op : Z) : bool := Facts.py_at_least_3_11 && (op =? Facts.op_load_global).

Fixpoint index_of (x : Z) (l : list Z) (i : Z) : option Z :=
  match l with [] => None | y :: r => if y =? x then Some i else index_of x r (i + 1) end.

(* the name table after patching, and the wrapper's index in it *)
Definition wrapper_index (wrapper : Z) (names : list Z) : Z :=
  match index_of wrapper names 0 with Some i => i | None => Z.of_nat (length names) end.
Definition new_names (wrapper : Z) (names : list Z) : list Z :=
  match index_of wrapper names 0 with Some _ => names | None => names ++ [wrapper] end.

Inductive perr := POverflow | PKey | PAssert | PIndex.
Inductive pres (A : Type) := POk (a : A) | PErr (e : perr).
Arguments POk {A} a.
Arguments PErr {A} e.

Definition byte_ok (v : Z) : bool := (0 <=? v) && (v <? 256).

Fixpoint take_caches (n : nat) (l : list unit) : pres (list unit * list unit) :=
  match n with
  | O => POk ([], l)
  | S m =>
    match l with
    | [] => PErr PAssert
    | (o, a) :: r =>
      if o =? 0 then match take_caches m r with POk (c, rest) => POk ((o, a) :: c, rest) | PErr e => PErr e end
      else PErr PAssert
    end
  end.

Record scan_st := mkSS {
  s_out : list unit;             (* new code, in order *)
  s_map : list (Z * Z);          (* location map: old unit index -> new unit index *)
  s_rj : list (Z * Z);           (* relative jumps: (old index, new index) *)
  s_patched : bool
}.

(* one pass over the units; [u] is the old index of the head of [l] *)
Fixpoint scan (fuel : nat) (wrapper ayns : Z) (names : list Z) (l : list unit) (u : Z) (st : scan_st) : pres scan_st :=
  match fuel with
  | O => POk st
  | S fu =>
    match l with
    | [] => POk st
    | (op, arg) :: rest =>
      let pos := Z.of_nat (length (s_out st)) in
      let plain := scan fu wrapper ayns names rest (u + 1)
                        (mkSS (s_out st ++ [(op, arg)]) ((u, pos) :: s_map st)
                              (if zmem op Facts.op_hasjrel && negb (zmem op Facts.op_hasjabs) && negb (is_load op) then (u, pos) :: s_rj st else s_rj st)
                              (s_patched st)) in
      if is_load op then
        let sh := arg_shifted op in
        let nidx := if sh then Z.shiftr arg 1 else arg in
        let null_bit := if sh then Z.land arg 1 else 0 in
        match nth_error names (Z.to_nat nidx) with
        | None => PErr PIndex
        | Some name =>
          if (name =? wrapper) || (name =? ayns) then plain
          else
            let w := wrapper_index wrapper names in
            let new_arg := if sh then Z.lor (Z.shiftl w 1) null_bit else w in
            let attr_arg := if Facts.py_at_least_3_12 then Z.shiftl nidx 1 else nidx in
            if negb (byte_ok new_arg) then PErr POverflow
            else
              match (if Facts.py_at_least_3_11 then take_caches (caches_of op) rest else POk ([], rest)) with
              | PErr e => PErr e
              | POk (cs, rest') =>
                if negb (byte_ok attr_arg) then PErr POverflow
                else
                  let attr_caches := if Facts.py_at_least_3_11 then repeat (0, 0) (caches_of Facts.op_load_attr) else [] in
                  scan fu wrapper ayns names rest' (u + 1 + Z.of_nat (length cs))
                       (mkSS (s_out st ++ (op, new_arg) :: cs ++ (Facts.op_load_attr, attr_arg) :: attr_caches)
                             ((u, pos) :: s_map st) (s_rj st) true)
              end
        end
      else plain
    end
  end.

Fixpoint set_nth (n : nat) (x : unit) (l : list unit) : list unit :=
  match n, l with
  | O, _ :: r => x :: r
  | S m, y :: r => y :: set_nth m x r
  | _, [] => []
  end.

(* where a relative jump counts from: the instruction after the jump and (3.11+) its inline caches *)
Definition jump_base (op : Z) : Z :=
  if Facts.py_at_least_3_10 then 1 + (if Facts.py_at_least_3_11 then Z.of_nat (caches_of op) else 0) else 0.

Definition fix_jump (lmap : list (Z * Z)) (out : list unit) (j : Z * Z) : pres (list unit) :=
  let '(old, new) := j in
  match nth_error out (Z.to_nat new) with
  | None => PErr PIndex
  | Some (op, rel) =>
    let base := jump_base op in
    let old_abs := if zmem op Facts.op_backward && Facts.py_at_least_3_11 then old + base - rel else old + base + rel in
    match zassoc old_abs lmap with
    | None => PErr PKey
    | Some new_abs =>
      let new_rel := Z.abs (new_abs - (new + base)) in
      if byte_ok new_rel then POk (set_nth (Z.to_nat new) (op, new_rel) out) else PErr POverflow
    end
  end.

Fixpoint fix_jumps (lmap : list (Z * Z)) (out : list unit) (js : list (Z * Z)) : pres (list unit) :=
  match js with
  | [] => POk out
  | j :: r => match fix_jump lmap out j with POk out' => fix_jumps lmap out' r | PErr e => PErr e end
  end.

(* the patched code and name table of one code object.  [nested] = some nested code object (a function, lambda, comprehension
   among the constants) was patched: the bytes are then rebuilt even if this object has no redirected load.
   None = nothing was patched anywhere: the code object is returned as it is. *)
Definition patch (wrapper ayns : Z) (names : list Z) (nested : bool) (code : list unit) : pres (option (list unit * list Z)) :=
  match scan (S (length code)) wrapper ayns names code 0 (mkSS [] [] [] false) with
  | PErr e => PErr e
  | POk st =>
    if s_patched st || nested then
      match fix_jumps (s_map st) (s_out st) (rev (s_rj st)) with
      | POk out => POk (Some (out, if s_patched st then new_names wrapper names else names))
      | PErr e => PErr e
      end
    else POk None
  end.

Definition unit_eqb (a b : unit) : bool := (fst a =? fst b) && (snd a =? snd b).

Definition perr_eqb (a b : perr) : bool :=
  match a, b with POverflow, POverflow | PKey, PKey | PAssert, PAssert | PIndex, PIndex => true | _, _ => false end.

Definition patch_res_eqb (a b : pres (option (list unit * list Z))) : bool :=
  match a, b with
  | POk None, POk None => true
  | POk (Some (c, n)), POk (Some (c', n')) =>
    (fix go (x y : list unit) : bool := match x, y with [] , [] => true | p :: r, q :: t => unit_eqb p q && go r t | _, _ => false end) c c'
    && (fix go (x y : list Z) : bool := match x, y with [], [] => true | p :: r, q :: t => (p =? q) && go r t | _, _ => false end) n n'
  | PErr e, PErr e' => perr_eqb e e'
  | _, _ => false
  end.
