(* Model/T2.v — decoders and check functions for the EXHAUSTIVE finite-domain correspondence (T2) of the flag logic.
   The harness enumerates the whole domain on real node objects and writes tuples of small integers. *)
From AY Require Export Model.Merge Model.Eq.

Definition ob_of (z : Z) : option bool := if z =? 0 then None else if z =? 1 then Some false else Some true.
Definition oz_of (z : Z) : option Z := if z =? 0 then None else Some (z - 2).   (* 1 -> -1 (weak), 2 -> 0, 3 -> 1 (force) *)
Definition zb (z : Z) : bool := negb (z =? 0).

Definition kind_node (k : Z) (f : flags) (ch : list (key * node)) : node :=
  if k =? 0 then Leaf LScalar f (SInt 1)
  else if k =? 1 then Comp CDict f SNone ch
  else if k =? 2 then Comp CList f SNone ch
  else if k =? 3 then Comp CCall f (SStr 1) ch
  else if k =? 4 then Comp CBind f (SStr 1) ch
  else if k =? 5 then Comp CStream f SNone ch
  else if k =? 6 then Comp CAppend f SNone ch
  else Comp CExtend f SNone ch.

Definition fl (p d n s idl inw isf ds : Z) : flags :=
  mkF (oz_of p) (ob_of d) (ob_of n) (ob_of s) (ob_of idl) (ob_of inw) (ob_of isf) (ob_of ds) [] 0.

(* has_priority_over *)
Definition chk_hpo (c : Z * Z * Z * Z) : bool :=
  let '(pa, pb, ie, e) := c in
  Bool.eqb (has_priority_over (Leaf LScalar (fl pa 0 0 0 0 0 0 2) SNone) (Leaf LScalar (fl pb 0 0 0 0 0 0 2) SNone) (zb ie)) (zb e).

(* effective delete / allow_new / safe / priority *)
Definition chk_eff (c : Z * (Z * Z * Z * Z * Z * Z * Z * Z) * (Z * Z * Z * Z)) : bool :=
  let '(k, (p, d, n, s, idl, inw, isf, ds), (ep, ed, en, es)) := c in
  let nd := kind_node k (fl p d n s idl inw isf ds) [] in
  ((priority (nflags nd) =? ep) && Bool.eqb (delete nd) (zb ed) && Bool.eqb (allow_new (nflags nd)) (zb en) && Bool.eqb (safe (nflags nd)) (zb es))%bool.

(* _get_child_kwargs: expected (present?, idel, inew, isafe) *)
Definition chk_ck (c : Z * (Z * Z * Z * Z * Z * Z) * (Z * Z * Z * Z)) : bool :=
  let '(k, (d, n, s, idl, inw, isf), (ea, eid, einw, eisf)) := c in
  let kw := child_kwargs (kind_node k (fl 0 d n s idl inw isf 2) []) in
  (Bool.eqb (ck_any kw) (zb ea) &&
   (negb (ck_any kw) || (ob_eqb (ck_idel kw) (ob_of eid) && ob_eqb (ck_inew kw) (ob_of einw) && ob_eqb (ck_isafe kw) (ob_of eisf))))%bool.

(* _replace_self (w = 0) / _replace_other (w = 1) on leaves: flags (prio, delete, safe, default_safe) and metadata *)
Definition chk_repl (c : Z * (Z * Z * Z * Z) * (Z * Z * Z * Z) * (Z * Z * Z * Z) * list (Z * Z)) : bool :=
  let '(w, (p1, d1, s1, ds1), (p2, d2, s2, ds2), (ep, ed, es, eds), em) := c in
  let a := Leaf LScalar (set_meta (fl p1 d1 0 s1 0 0 0 ds1) [(1, 1); (2, 2)]) SNone in
  let b := Leaf LScalar (set_meta (fl p2 d2 0 s2 0 0 0 ds2) [(2, 3); (3, 4)]) SNone in
  let r := nflags (fst (if w =? 0 then replace_self a b false else replace_other a b false)) in
  (oz_eqb (f_prio r) (oz_of ep) && ob_eqb (f_del r) (ob_of ed) && ob_eqb (f_safe r) (ob_of es) && ob_eqb (f_dsafe r) (ob_of eds)
   && list_eqb (fun x y => (fst x =? fst y) && (snd x =? snd y))%bool (f_meta r) em)%bool.

(* set_child: adoption of an existing leaf child by a parent of kind k with the given flags *)
Definition chk_adopt (c : Z * (Z * Z * Z * Z * Z * Z) * (Z * Z * Z) * (Z * Z * Z)) : bool :=
  let '(k, (d, n, s, idl, inw, isf), (ci, cn, cs), (ei, en, es)) := c in
  let parent := kind_node k (fl 0 d n s idl inw isf 2) [] in
  let child := Leaf LScalar (fl 0 0 0 0 ci cn cs 2) (SInt 1) in
  let r := nflags (adopt (child_kwargs parent) child) in
  (ob_eqb (f_idel r) (ob_of ei) && ob_eqb (f_inew r) (ob_of en) && ob_eqb (f_isafe r) (ob_of es))%bool.

(* _propagate_implicit_values on a parent with one grand-child chain: parent -> dict child -> leaf *)
Definition chk_prop (c : Z * (Z * Z * Z * Z * Z * Z) * (Z * Z * Z) * (Z * Z * Z) * (Z * Z * Z) * (Z * Z * Z)) : bool :=
  let '(k, (d, n, s, idl, inw, isf), (ci, cn, cs), (gi, gn, gs), (eci, ecn, ecs), (egi, egn, egs)) := c in
  let g := Leaf LScalar (fl 0 0 0 0 gi gn gs 2) (SInt 1) in
  let ch := Comp CDict (fl 0 0 0 0 ci cn cs 2) SNone [(KS 1, g)] in
  let parent := kind_node k (fl 0 d n s idl inw isf 2) [(if (k =? 2) || (k =? 5) || (k =? 6) || (k =? 7) then KI 0 else KS 1, ch)] in
  match propagate parent with
  | Comp _ _ _ [(_, Comp _ cf _ [(_, Leaf _ gf _)])] =>
    (ob_eqb (f_idel cf) (ob_of eci) && ob_eqb (f_inew cf) (ob_of ecn) && ob_eqb (f_isafe cf) (ob_of ecs)
     && ob_eqb (f_idel gf) (ob_of egi) && ob_eqb (f_inew gf) (ob_of egn) && ob_eqb (f_isafe gf) (ob_of egs))%bool
  | _ => false
  end.

(* _validate_index: expected 0 = ok i, 1 = TypeError, 2 = IndexError *)
Definition chk_vi (c : Z * Z * Z * Z * Z) : bool :=
  let '(len, i, strict, ecode, ei) := c in
  match validate_index len (KI i) (zb strict) with
  | IdxOk j => ((ecode =? 0) && (j =? ei))%bool
  | IdxTypeErr => ecode =? 1
  | IdxRangeErr => ecode =? 2
  end.
