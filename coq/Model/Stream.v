(* Model/Stream.v — streams of documents: top-level includes are spliced into the list of stages, nested includes
   become stream nodes that are flattened (merged in order) when their parent is merged
   (mirrors builder.py 214-291, nodes/include.py 95-116, nodes/stream.py). Executable definitions only.
   The input are the stages AFTER Builder.preprocess: file lookup / reading / parsing are outside (OS, PyYAML). *)
From AY Require Export Model.Merge.

Fixpoint map_res {A B} (f : A -> res B) (l : list A) : res (list B) :=
  match l with
  | [] => Ok []
  | a :: r => do b <- f a; do bs <- map_res f r; Ok (b :: bs)
  end.

(* an error raised while a nested stream is flattened is re-raised as a PremergeError of the stream node *)
Definition as_premerge {A} (r : res A) : res A := match r with Ok a => Ok a | Err _ p => Err EPremerge p end.

(* replace every nested stream node by the merged content of its stages, adopted by the parent (StreamNode.on_premerge_impl + set_child) *)
Fixpoint expand (fuel : nat) (e : penv) (n : node) : res node :=
  match fuel with
  | O => Err EFuel []
  | S fu =>
    match n with
    | Leaf _ _ _ => Ok n
    | Comp k f x ch =>
      do ch' <- map_res (fun kc : key * node =>
                           match snd kc with
                           | Comp CStream _ _ sub =>
                             do subs <- map_res (fun s => expand fu e (snd s)) sub;
                             do r <- as_premerge (flatten e subs);
                             Ok (fst kc, adopt (child_kwargs (Comp k f x [])) r)
                           | c => do c' <- expand fu e c; Ok (fst kc, c')
                           end) ch;
      Ok (Comp k f x ch')
    end
  end.

(* Builder.preprocess: a stage that turned into a stream is replaced by the stream's stages *)
Definition splice (stages : list node) : list node :=
  flat_map (fun s => match s with Comp CStream _ _ sub => map snd sub | _ => [s] end) stages.

Fixpoint depth (n : node) : nat :=
  match n with
  | Leaf _ _ _ => 1
  | Comp _ _ _ ch => S ((fix go (l : list (key * node)) : nat := match l with [] => O | (_, c) :: r => Nat.max (depth c) (go r) end) ch)
  end.

(* Builder.build on preprocessed stages *)
Definition build_stream (e : penv) (stages : list node) : res node :=
  let ss := splice stages in
  do ss' <- map_res (fun s => expand (S (depth s)) e s) ss;
  flatten e ss'.

Definition is_stream (n : node) : bool := match n with Comp CStream _ _ _ => true | _ => false end.

Fixpoint no_stream (n : node) : bool :=
  match n with
  | Leaf _ _ _ => true
  | Comp k _ _ ch => negb (is_stream n) && forallb (fun kc => no_stream (snd kc)) ch
  end.

(* the stream node a sub-builder returns for a group of documents: children keyed 0..n-1 *)
Fixpoint index_from (i : Z) (l : list node) : list (key * node) :=
  match l with [] => [] | d :: r => (KI i, d) :: index_from (i + 1) r end.
Definition stream_of (f : flags) (x : scalar) (docs : list node) : node := Comp CStream f x (index_from 0 docs).

(* ---------- file lookup of IncludeNode.on_preprocess_impl (include.py 102-124, builder.py 293-307) ----------
   The file system is a section variable: [exists_in d name] says whether directory d holds a readable file of that name. *)
Section Lookup.
  Variable dir : Type.
  Variable exists_in : dir -> Z -> bool.

  (* Builder.get_lookup_dirs: the directory of the including file first (when known), then the working directory *)
  Definition lookup_dirs (ref : option dir) (cwd : dir) : list dir :=
    match ref with
    | Some r => if Facts.lookup_ref_dir_first then [r; cwd] else [cwd; r]
    | None => [cwd]
    end.

  Definition find_file (dirs : list dir) (name : Z) : option dir := find (fun d => exists_in d name) dirs.

  (* all names are looked up; the build fails listing every name found nowhere *)
  Fixpoint include_lookup (dirs : list dir) (names : list Z) : list (dir * Z) * list Z :=
    match names with
    | [] => ([], [])
    | n :: r =>
      let '(found, missing) := include_lookup dirs r in
      match find_file dirs n with
      | Some d => ((d, n) :: found, missing)
      | None => (found, n :: missing)
      end
    end.

  Definition include_files (dirs : list dir) (names : list Z) : list (dir * Z) + list Z :=
    let '(found, missing) := include_lookup dirs names in
    match missing with [] => inl found | _ => inr missing end.
End Lookup.

(* executable instance for the correspondence check: two directories (true = the including file's, false = the cwd) *)
Inductive place := PInc | PCwd | PBoth | PNone.
Definition place_has (p : place) (d : bool) : bool :=
  match p, d with PInc, true | PCwd, false | PBoth, _ => true | _, _ => false end.
Definition run_lookup (places : list place) : list (bool * Z) + list Z :=
  include_files bool (fun d n => place_has (nth (Z.to_nat n) places PNone) d)
                (lookup_dirs bool (Some true) false) (map Z.of_nat (seq 0 (length places))).
