(* Model/Container.v — the two stores of ConfigList / ConfigDict under the public mutators
   (mirrors nodes/list.py 24-118, nodes/dict.py 20-111, nodes/composed.py 33-62). Executable definitions only.

   A container is at once a Python list/dict (the built-in storage, [store]) and a map of child nodes ([chil],
   an insertion-ordered dict).  Values are abstract: Raw z is a plain Python value, Nd z the node made from it. *)
From AY Require Export Model.Node.

Inductive val := Raw (z : Z) | Nd (z : Z).
Definition adoptv (v : val) : val := match v with Raw z => Nd z | Nd z => Nd z end.   (* ConfigNode(value, **kw) *)
Definition payload (v : val) : Z := match v with Raw z => z | Nd z => z end.
Definition is_nd (v : val) : bool := match v with Nd _ => true | _ => false end.

Inductive outcome := Done | RetVal (v : val) | TypeErr | IndexErr | KeyErr | ValueErr.

(* ---------------- lists ---------------- *)
Record lst := mkL { lstore : list val; lchil : list (key * val) }.

Fixpoint lset_nth {A} (i : nat) (v : A) (l : list A) : list A :=
  match l, i with
  | [], _ => []
  | _ :: r, O => v :: r
  | x :: r, S j => x :: lset_nth j v r
  end.

Fixpoint insert_nth {A} (i : nat) (v : A) (l : list A) : list A :=
  match i, l with
  | O, _ => v :: l
  | S j, [] => [v]
  | S j, x :: r => x :: insert_nth j v r
  end.

Fixpoint enumerate_from (i : Z) (l : list val) : list (key * val) :=
  match l with [] => [] | v :: r => (KI i, v) :: enumerate_from (i + 1) r end.

(* ConfigList._set (list.py 38-48) *)
Definition l_set (s : lst) (k : key) (v : val) (strict : bool) : lst * outcome :=
  match validate_index (zlen (lstore s)) k strict with
  | IdxTypeErr => (s, TypeErr)
  | IdxRangeErr => (s, IndexErr)
  | IdxOk i =>
    let v' := adoptv v in
    let ch := aset (KI i) v' (lchil s) in
    if i =? zlen (lstore s) then (mkL (lstore s ++ [v']) ch, Done)
    else (mkL (lset_nth (Z.to_nat i) v' (lstore s)) ch, Done)
  end.

(* the shifting loop of ConfigList._del: for j in range(index+1, len): self[j-1] = self[j] *)
Fixpoint l_shift (s : lst) (j : Z) (n : nat) : lst :=
  match n with
  | O => s
  | S m =>
    match nth_error (lstore s) (Z.to_nat j) with
    | Some v => l_shift (fst (l_set s (KI (j - 1)) v true)) (j + 1) m
    | None => s
    end
  end.

(* ConfigList._del (list.py 50-58, after the D14 repair) *)
Definition l_del (s : lst) (k : key) : lst * outcome :=
  match validate_index (zlen (lstore s)) k true with
  | IdxTypeErr => (s, TypeErr)
  | IdxRangeErr => (s, IndexErr)
  | IdxOk i =>
    match nth_error (lstore s) (Z.to_nat i) with
    | None => (s, IndexErr)
    | Some ret =>
      let len := zlen (lstore s) in
      let s1 := l_shift s (i + 1) (Z.to_nat (len - i - 1)) in
      (mkL (removelast (lstore s1)) (adel (KI (len - 1)) (lchil s1)), RetVal ret)
    end
  end.

Fixpoint index_of (z : Z) (l : list val) (i : Z) : option Z :=
  match l with [] => None | v :: r => if payload v =? z then Some i else index_of z r (i + 1) end.

Inductive lop :=
| LSetItem (k : key) (v : val) | LDelItem (k : key) | LAppend (v : val) | LInsert (k : key) (v : val)
| LExtend (vs : list val) | LRemove (v : val) | LPop (k : key) | LClr
| LSetChild (k : key) (v : val) | LRemoveChild (k : key) | LRenameChild (a b : key).

Definition l_append (s : lst) (v : val) : lst :=
  let v' := adoptv v in
  mkL (lstore s ++ [v']) (aset (KI (zlen (lstore s))) v' (lchil s)).

Definition lstep (s : lst) (o : lop) : lst * outcome :=
  match o with
  | LSetItem k v => l_set s k v true
  | LSetChild k v => l_set s k v false
  | LDelItem k | LRemoveChild k | LPop k => l_del s k
  | LAppend v => (l_append s v, Done)
  | LExtend vs => (fold_left l_append vs s, Done)
  | LInsert k v =>
    match validate_index (zlen (lstore s)) k false with
    | IdxTypeErr => (s, TypeErr)
    | IdxRangeErr => (s, IndexErr)
    | IdxOk i =>
      let v' := adoptv v in
      let st := insert_nth (Z.to_nat i) v' (lstore s) in
      (* (list.py insert, after the repair) the child map is rebuilt from the list *)
      (mkL st (enumerate_from 0 st), Done)
    end
  | LRemove v =>
    match index_of (payload v) (lstore s) 0 with
    | None => (s, ValueErr)
    | Some i => let r := l_del s (KI i) in (fst r, match snd r with RetVal _ => Done | e => e end)
    end
  | LClr => (mkL [] [], Done)
  | LRenameChild _ _ => (s, TypeErr)
  end.

(* ---------------- dicts ---------------- *)
Record dct := mkDc { dstore : list (key * val); dchil : list (key * val) }.

Inductive dop :=
| DSet (k : key) (v : val)            (* item / attribute assignment, set_child *)
| DDel (k : key)                      (* item / attribute deletion, remove_child *)
| DPop (k : key) (dflt : option val)
| DSetDefault (k : key) (v : val)
| DUpdate (kvs : list (key * val))
| DClear
| DRenameChild (a b : key).

Definition d_set (s : dct) (k : key) (v : val) : dct :=
  let v' := adoptv v in mkDc (aset k v' (dstore s)) (aset k v' (dchil s)).

Definition dstep (s : dct) (o : dop) : dct * outcome :=
  match o with
  | DSet k v => (d_set s k v, Done)
  | DDel k =>
    let ch := adel k (dchil s) in
    if ahas k (dstore s) then (mkDc (adel k (dstore s)) ch, match aget k (dchil s) with Some v => RetVal v | None => Done end)
    else (mkDc (dstore s) ch, KeyErr)
  | DPop k dflt =>
    match aget k (dstore s), dflt with
    | None, None => (s, KeyErr)
    | None, Some d => (mkDc (dstore s) (adel k (dchil s)), RetVal d)
    | Some v, _ => (mkDc (adel k (dstore s)) (adel k (dchil s)), RetVal v)
    end
  | DSetDefault k v =>
    if ahas k (dchil s) then (s, match aget k (dstore s) with Some x => RetVal x | None => KeyErr end)
    else (d_set s k v, RetVal (adoptv v))
  | DUpdate kvs => (fold_left (fun acc kv => d_set acc (fst kv) (snd kv)) kvs s, Done)
  | DClear => (mkDc [] [], Done)
  | DRenameChild a b =>
    if negb (ahas a (dchil s)) then (s, ValueErr)
    else if ahas b (dchil s) then (s, ValueErr)
    else match aget a (dchil s) with
         | Some c =>
           if ahas a (dstore s) then
             (mkDc (aset b c (adel a (dstore s))) (aset b c (adel a (dchil s))), RetVal c)
           else (mkDc (dstore s) (aset b c (adel a (dchil s))), KeyErr)
         | None => (s, ValueErr)
         end
  end.
