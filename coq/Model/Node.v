(* Model/Node.v — node trees, flags, paths, lookups (mirrors nodes/node.py, nodes/composed.py 33-157, 222-276).
   Executable definitions only; lemmas live in Proofs/. *)
From Coq Require Export List ZArith Bool Lia.
Export ListNotations.
Open Scope Z_scope.

(* ---------- keys, scalars ---------- *)
(* strings are interned by the harness: KS 0 / SStr 0 is the empty string *)
Inductive key := KI (z : Z) | KS (s : Z).

Definition key_eqb (a b : key) : bool :=
  match a, b with
  | KI x, KI y => Z.eqb x y
  | KS x, KS y => Z.eqb x y
  | _, _ => false
  end.

Inductive scalar :=
| SInt (z : Z) | SFloat (s : Z) (* interned repr; 0 = 0.0 *) | SBool (b : bool) | SStr (s : Z) | SNone.

Definition scalar_eqb (a b : scalar) : bool :=
  match a, b with
  | SInt x, SInt y => Z.eqb x y
  | SFloat x, SFloat y => Z.eqb x y
  | SBool x, SBool y => Bool.eqb x y
  | SStr x, SStr y => Z.eqb x y
  | SNone, SNone => true
  | _, _ => false
  end.

(* Python truthiness of a scalar value *)
Definition scalar_truthy (s : scalar) : bool :=
  match s with
  | SInt z => negb (Z.eqb z 0)
  | SFloat z => negb (Z.eqb z 0)
  | SBool b => b
  | SStr z => negb (Z.eqb z 0)
  | SNone => false
  end.

(* ---------- flags ---------- *)
Definition path := list key.

Record flags := mkF {
  f_prio : option Z;      (* _priority *)
  f_del : option bool;    (* _delete *)
  f_new : option bool;    (* _allow_new *)
  f_safe : option bool;   (* _safe *)
  f_idel : option bool;   (* _implicit_delete *)
  f_inew : option bool;   (* _implicit_allow_new *)
  f_isafe : option bool;  (* _implicit_safe *)
  f_dsafe : option bool;  (* _default_safe (source level) *)
  f_meta : list (Z * Z);  (* _metadata : interned key -> interned value *)
  f_src : Z               (* _source_file, interned; 0 = None *)
}.

Definition F0 : flags := mkF None None None None None None None (Some true) [] 0.

Definition set_prio (f : flags) v := mkF v (f_del f) (f_new f) (f_safe f) (f_idel f) (f_inew f) (f_isafe f) (f_dsafe f) (f_meta f) (f_src f).
Definition set_del (f : flags) v := mkF (f_prio f) v (f_new f) (f_safe f) (f_idel f) (f_inew f) (f_isafe f) (f_dsafe f) (f_meta f) (f_src f).
Definition set_safe (f : flags) v := mkF (f_prio f) (f_del f) (f_new f) v (f_idel f) (f_inew f) (f_isafe f) (f_dsafe f) (f_meta f) (f_src f).
Definition set_idel (f : flags) v := mkF (f_prio f) (f_del f) (f_new f) (f_safe f) v (f_inew f) (f_isafe f) (f_dsafe f) (f_meta f) (f_src f).
Definition set_inew (f : flags) v := mkF (f_prio f) (f_del f) (f_new f) (f_safe f) (f_idel f) v (f_isafe f) (f_dsafe f) (f_meta f) (f_src f).
Definition set_isafe (f : flags) v := mkF (f_prio f) (f_del f) (f_new f) (f_safe f) (f_idel f) (f_inew f) v (f_dsafe f) (f_meta f) (f_src f).
Definition set_dsafe (f : flags) v := mkF (f_prio f) (f_del f) (f_new f) (f_safe f) (f_idel f) (f_inew f) (f_isafe f) v (f_meta f) (f_src f).
Definition set_meta (f : flags) v := mkF (f_prio f) (f_del f) (f_new f) (f_safe f) (f_idel f) (f_inew f) (f_isafe f) (f_dsafe f) v (f_src f).

(* ---------- node kinds ---------- *)
Inductive lkind := LScalar | LXRef | LEval | LFStr | LImport | LPrev | LRequired | LClear | LInclude.
Inductive ckind := CDict | CList | CCall | CBind | CAppend | CExtend | CPath | CStream | CRec | CTuple.

Definition lkind_eqb (a b : lkind) : bool :=
  match a, b with
  | LScalar, LScalar | LXRef, LXRef | LEval, LEval | LFStr, LFStr | LImport, LImport
  | LPrev, LPrev | LRequired, LRequired | LClear, LClear | LInclude, LInclude => true
  | _, _ => false
  end.
Definition ckind_eqb (a b : ckind) : bool :=
  match a, b with
  | CDict, CDict | CList, CList | CCall, CCall | CBind, CBind | CAppend, CAppend | CExtend, CExtend
  | CPath, CPath | CStream, CStream | CRec, CRec | CTuple, CTuple => true
  | _, _ => false
  end.

(* is the Python class a list (vs dict) subclass *)
Definition is_listk (k : ckind) : bool :=
  match k with CList | CAppend | CExtend | CPath | CStream | CRec | CTuple => true | _ => false end.
Definition is_funck (k : ckind) : bool := match k with CCall | CBind => true | _ => false end.
Definition is_plaink (k : ckind) : bool := match k with CDict | CList => true | _ => false end.

(* A node.  [x] is the kind-specific extra attribute: _func of a function node
   (a scalar: string name), ref_point of a !path; SNone otherwise.  *)
Inductive node :=
| Leaf (k : lkind) (f : flags) (v : scalar)
| Comp (k : ckind) (f : flags) (x : scalar) (ch : list (key * node)).

Definition nflags (n : node) : flags := match n with Leaf _ f _ => f | Comp _ f _ _ => f end.
Definition with_flags (n : node) (f : flags) : node :=
  match n with Leaf k _ v => Leaf k f v | Comp k _ x ch => Comp k f x ch end.
Definition children (n : node) : list (key * node) := match n with Leaf _ _ _ => [] | Comp _ _ _ ch => ch end.
Definition is_comp (n : node) : bool := match n with Comp _ _ _ _ => true | _ => false end.

(* ---------- association lists with Python dict discipline ---------- *)
Section Assoc.
  Context {V : Type}.
  Fixpoint aget (k : key) (l : list (key * V)) : option V :=
    match l with
    | [] => None
    | (k', v) :: r => if key_eqb k k' then Some v else aget k r
    end.
  (* d[k] = v : existing key keeps its position, new key appended *)
  Fixpoint aset (k : key) (v : V) (l : list (key * V)) : list (key * V) :=
    match l with
    | [] => [(k, v)]
    | (k', v') :: r => if key_eqb k k' then (k, v) :: r else (k', v') :: aset k v r
    end.
  Fixpoint adel (k : key) (l : list (key * V)) : list (key * V) :=
    match l with
    | [] => []
    | (k', v') :: r => if key_eqb k k' then r else (k', v') :: adel k r
    end.
  Definition ahas (k : key) (l : list (key * V)) : bool := match aget k l with Some _ => true | None => false end.
End Assoc.

(* ---------- list index validation (list.py 28-36) ---------- *)
Inductive idx_res := IdxOk (i : Z) | IdxTypeErr | IdxRangeErr.
Definition validate_index (len : Z) (k : key) (strict : bool) : idx_res :=
  match k with
  | KS _ => IdxTypeErr
  | KI i =>
    if (strict && ((Z.abs i >? len) || (i =? len)))%bool then IdxRangeErr
    else let j := if i <? 0 then len + i else i in IdxOk (Z.min len (Z.max 0 j))
  end.

Definition zlen {A} (l : list A) : Z := Z.of_nat (length l).

(* get_child: dict kinds look the key up; list kinds validate (strict) and index the storage.
   In a consistent list node children = [(KI 0, _); (KI 1, _) ...] so lookup by normalised key is the same. *)
Definition get_child (n : node) (k : key) : option node :=
  match n with
  | Leaf _ _ _ => None
  | Comp ck _ _ ch =>
    if is_listk ck then
      match validate_index (zlen ch) k true with
      | IdxOk i => aget (KI i) ch
      | _ => None
      end
    else aget k ch
  end.

(* has_child: name in _children (no index normalisation) *)
Definition has_child (n : node) (k : key) : bool :=
  match n with Leaf _ _ _ => false | Comp _ _ _ ch => ahas k ch end.

(* ComposedNode.get_child as used by get_node's access_fn: goes through the class's get_child *)
Fixpoint get_node (n : node) (p : path) : option node :=
  match p with
  | [] => Some n
  | k :: r => if has_child n k then match get_child n k with Some c => get_node c r | None => None end else None
  end.

(* deepest existing node along p *)
Fixpoint first_not_missing (n : node) (p : path) : node :=
  match p with
  | [] => n
  | k :: r => if has_child n k then match get_child n k with Some c => first_not_missing c r | None => n end else n
  end.

(* nodes_with_paths(prefix, include_self) — pre-order *)
Fixpoint nwp (pre : path) (n : node) : list (path * node) :=
  (pre, n) ::
  match n with
  | Leaf _ _ _ => []
  | Comp _ _ _ ch =>
    (fix go (l : list (key * node)) : list (path * node) :=
       match l with
       | [] => []
       | (k, c) :: r => nwp (pre ++ [k]) c ++ go r
       end) ch
  end.
Definition nodes_with_paths (pre : path) (n : node) (include_self : bool) : list (path * node) :=
  if include_self then nwp pre n else tl (nwp pre n).

Fixpoint nsize (n : node) : nat :=
  match n with
  | Leaf _ _ _ => 1
  | Comp _ _ _ ch => S ((fix go (l : list (key * node)) : nat := match l with [] => O | (_, c) :: r => (nsize c + go r)%nat end) ch)
  end.

(* ---------- plain data (native_value) ---------- *)
Inductive plain :=
| PS (v : scalar)
| PD (l : list (key * plain))
| PL (l : list plain).

Fixpoint erase (n : node) : plain :=
  match n with
  | Leaf _ _ v => PS v
  | Comp k _ _ ch =>
    if is_listk k then PL ((fix go (l : list (key * node)) := match l with [] => [] | (_, c) :: r => erase c :: go r end) ch)
    else PD ((fix go (l : list (key * node)) := match l with [] => [] | (kk, c) :: r => (kk, erase c) :: go r end) ch)
  end.

(* ---------- results ---------- *)
Inductive ek := EMerge | EPremerge | EPreprocess | EEval | EUnsafe | EMissing | EParse | EFuel | EOther.
Inductive res (A : Type) := Ok (a : A) | Err (e : ek) (p : path).
Arguments Ok {A} a.
Arguments Err {A} e p.
Definition bind {A B} (r : res A) (f : A -> res B) : res B :=
  match r with Ok a => f a | Err e p => Err e p end.
Notation "'do' x <- r ; k" := (bind r (fun x => k)) (at level 200, x pattern, r at level 100, k at level 200).

Definition ek_eqb (a b : ek) : bool :=
  match a, b with
  | EMerge, EMerge | EPremerge, EPremerge | EPreprocess, EPreprocess | EEval, EEval | EUnsafe, EUnsafe
  | EMissing, EMissing | EParse, EParse | EFuel, EFuel | EOther, EOther => true
  | _, _ => false
  end.
