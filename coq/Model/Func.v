(* Model/Func.v — target signatures, Python's argument binding (a SPECIFICATION written from the language reference and
   validated against inspect.signature(...).bind / real calls by the correspondence), and the argument resolution of
   FunctionNode._resolve_args (Model.Eval.resolve_args). Executable definitions only. *)
From AY Require Export Model.Eval.

Inductive pkind := PosOnly | PosOrKw | VarPos | KwOnly | VarKw.
Record param := mkP { p_name : Z; p_kind : pkind; p_default : bool }.
Definition signature := list param.

Definition is_positional (p : param) : bool := match p_kind p with PosOnly | PosOrKw => true | _ => false end.

(* the names integer keys may address: the positional parameters, in order (function.py 121-128, after the repair) *)
Fixpoint pos_names (s : signature) : list Z :=
  match s with
  | [] => []
  | p :: r => if is_positional p then p_name p :: pos_names r else []
  end.

Definition has_kind (k : pkind) (s : signature) : bool :=
  existsb (fun p => match p_kind p, k with VarPos, VarPos | VarKw, VarKw => true | _, _ => false end) s.

Definition accepts_keyword (s : signature) (n : Z) : bool :=
  existsb (fun p => (p_name p =? n) && match p_kind p with PosOrKw | KwOnly => true | _ => false end)%bool s.

Record binding := mkB { b_named : list (Z * value); b_varargs : list value; b_varkw : list (Z * value) }.

Fixpoint zassoc {A} (k : Z) (l : list (Z * A)) : option A :=
  match l with [] => None | (a, b) :: r => if a =? k then Some b else zassoc k r end.

(* positional arguments fill the positional parameters left to right; the rest goes to *args *)
Fixpoint bind_pos (names : list Z) (pos : list value) : list (Z * value) * list value :=
  match names, pos with
  | n :: ns, v :: vs => let r := bind_pos ns vs in ((n, v) :: fst r, snd r)
  | _, _ => ([], pos)
  end.

Fixpoint bind_kw (s : signature) (kw : list (key * value)) (named : list (Z * value)) (varkw : list (Z * value)) : option (list (Z * value) * list (Z * value)) :=
  match kw with
  | [] => Some (named, varkw)
  | (KI _, _) :: _ => None
  | (KS n, v) :: r =>
    if accepts_keyword s n then
      match zassoc n named with
      | Some _ => None                                   (* multiple values for argument n *)
      | None => bind_kw s r (named ++ [(n, v)]) varkw
      end
    else if has_kind VarKw s then bind_kw s r named (varkw ++ [(n, v)])
    else None                                            (* unexpected keyword argument *)
  end.

Definition pybind (s : signature) (pos : list value) (kw : list (key * value)) : option binding :=
  let '(named, extra) := bind_pos (pos_names s) pos in
  if (match extra with [] => false | _ => negb (has_kind VarPos s) end) then None      (* too many positional arguments *)
  else match bind_kw s kw named [] with
       | None => None
       | Some (named', varkw) =>
         if forallb (fun p => match p_kind p with
                              | VarPos | VarKw => true
                              | _ => (p_default p || match zassoc (p_name p) named' with Some _ => true | None => false end)%bool
                              end) s
         then Some (mkB named' extra varkw)
         else None                                       (* missing required argument *)
       end.

(* what the node passes: resolve the argument mapping against the signature, then bind as Python does *)
Definition call_binding (s : signature) (args : list (key * value)) : option binding :=
  match resolve_args (pos_names s) args with
  | None => None
  | Some (pos, kw) => pybind s pos kw
  end.
