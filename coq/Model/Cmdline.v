(* Model/Cmdline.v — Config.process_cmdline for an inline option "key=value" (mirrors config.py 90-121): the key is cut at
   dots, every part is stripped, trailing [i] groups are peeled off from the right, and a one-entry-per-level YAML flow
   mapping is written. The text is then parsed by PyYAML (trusted) and loaded as any document (Model/Loader.v).
   int() of an index is modelled for plain digit strings; anything else is an error of the model. Executable definitions only. *)
From AY Require Export Model.Path.
From Coq Require Import ZArith.

Definition ch_sp : ascii := " "%char.
Definition ch_eq : ascii := "="%char.
Definition ch_colon : ascii := ":"%char.
Definition ch_lc : ascii := "{"%char.
Definition ch_rc : ascii := "}"%char.
Definition ch_bang : ascii := "!"%char.

Definition is_ws (c : ascii) : bool := let n := nat_of_ascii c in (n =? 32) || ((9 <=? n) && (n <=? 13)).
Fixpoint lstrip_ws (s : list ascii) : list ascii := match s with [] => [] | c :: r => if is_ws c then lstrip_ws r else s end.
Definition strip_ws (s : list ascii) : list ascii := rev (lstrip_ws (rev (lstrip_ws s))).

Fixpoint split_char (c : ascii) (s : list ascii) : list (list ascii) :=
  match s with
  | [] => [[]]
  | x :: r => if Ascii.eqb x c then [] :: split_char c r
              else match split_char c r with [] => [[x]] | h :: t => (x :: h) :: t end
  end.

(* str.split('=', maxsplit=1) *)
Fixpoint split_first (c : ascii) (s : list ascii) : list ascii * option (list ascii) :=
  match s with
  | [] => ([], None)
  | x :: r => if Ascii.eqb x c then ([], Some r) else let '(a, b) := split_first c r in (x :: a, b)
  end.

(* part.rfind('['): position of the last '[' as (text before, text after) *)
Fixpoint rsplit_lb (s : list ascii) : option (list ascii * list ascii) :=
  match s with
  | [] => None
  | x :: r =>
    match rsplit_lb r with
    | Some (a, b) => Some (x :: a, b)
    | None => if Ascii.eqb x ch_lb then Some ([], r) else None
    end
  end.

Definition ends_with_rb (s : list ascii) : bool := match rev s with c :: _ => Ascii.eqb c ch_rb | [] => false end.

(* str(int(digits)): leading zeros go *)
Fixpoint norm_digits (d : list ascii) : list ascii :=
  match d with
  | c :: (_ :: _) as r => if Ascii.eqb c "0"%char then norm_digits r else d
  | _ => d
  end.

(* while part.endswith(']'): peel one [digits] group; None = int() / slicing would misbehave (outside the model) *)
Fixpoint peel (fuel : nat) (part : list ascii) (idx : list (list ascii)) : option (list ascii * list (list ascii)) :=
  match fuel with
  | O => None
  | S fu =>
    if ends_with_rb part then
      match rsplit_lb (removelast part) with
      | Some (before, digits) =>
        match digits with
        | [] => None
        | _ => if forallb is_digit digits then peel fu before (norm_digits digits :: idx) else None
        end
      | None => None
      end
    else Some (part, idx)
  end.

(* one part of the key: its name and its indices, left to right *)
Definition parse_part (part : list ascii) : option (list ascii * list (list ascii)) :=
  let p := strip_ws part in peel (S (length p)) p [].

Fixpoint parse_parts (parts : list (list ascii)) : option (list (list ascii * list (list ascii))) :=
  match parts with
  | [] => Some []
  | p :: r => match parse_part p, parse_parts r with Some x, Some xs => Some (x :: xs) | _, _ => None end
  end.

(* the path an inline option addresses, in NodePath components *)
Definition comps_of (parsed : list (list ascii * list (list ascii))) : list pcomp :=
  flat_map (fun ni => PN (fst ni) :: map (fun d => PI false d) (snd ni)) parsed.

Definition inline_path (key : list ascii) : option (list pcomp) :=
  match parse_parts (split_char ch_dot key) with Some ps => Some (comps_of ps) | None => None end.

(* the YAML text *)
Definition open_brace : list ascii := [ch_sp; ch_lc; ch_sp].
Fixpoint text_parts (first : bool) (ps : list (list ascii * list (list ascii))) : list ascii * nat :=
  match ps with
  | [] => ([], O)
  | (name, idx) :: r =>
    let here := (if first then [] else open_brace) ++ name ++ [ch_colon; ch_sp]
                ++ flat_map (fun d => [ch_lc; ch_sp] ++ d ++ [ch_colon; ch_sp]) idx in
    let '(t, n) := text_parts false r in
    (here ++ t, (S (length idx) + n)%nat)
  end.

Definition default_tag : list ascii := ["!"; "n"; "o"; "t"; "n"; "e"; "w"]%char.

Definition inline_yaml (opt : list ascii) : option (list ascii) :=
  match split_first ch_eq opt with
  | (_, None) => None
  | (k, Some v) =>
    let key := strip_ws k in
    let value := strip_ws v in
    match key with
    | [] => None
    | c0 :: _ =>
      match parse_parts (split_char ch_dot key) with
      | None => None
      | Some ps =>
        let '(t, n) := text_parts true ps in
        Some ((if Ascii.eqb c0 ch_bang then [ch_lc; ch_sp] else default_tag ++ open_brace) ++ t ++ value ++ [ch_sp] ++ repeat ch_rc n)
      end
    end
  end.

Definition ascii_list_eqb (a b : list ascii) : bool :=
  (fix go (x y : list ascii) : bool := match x, y with [], [] => true | p :: r, q :: t => Ascii.eqb p q && go r t | _, _ => false end) a b.
