(* Model/Flags.v — effective flags, adoption, propagation, replace_self/other, promotion
   (mirrors node.py 56-124, 200-282, 428-505; composed.py 33-38, 370-405). *)
From AY Require Export Model.Node Gen.Facts.

Definition onone {A} (o : option A) (d : A) : A := match o with Some x => x | None => d end.

Definition ob_eqb (a b : option bool) : bool :=
  match a, b with
  | None, None => true
  | Some x, Some y => Bool.eqb x y
  | _, _ => false
  end.

(* ---- effective values (node.py 205-249, 278-281) ---- *)
Definition priority (f : flags) : Z := onone (f_prio f) Facts.default_priority.

Definition default_delete (n : node) : bool :=
  match n with Leaf _ _ _ => Facts.leaf_default_delete | Comp k _ _ _ => Facts.default_delete k end.

Definition delete (n : node) : bool :=
  match f_del (nflags n) with
  | Some b => b
  | None => match f_idel (nflags n) with Some b => b | None => default_delete n end
  end.

Definition explicit_delete (n : node) : bool := onone (f_del (nflags n)) false.
Definition allow_new (f : flags) : bool := onone (f_inew f) Facts.default_allow_new.
Definition safe (f : flags) : bool :=
  (onone (f_safe f) true && onone (f_isafe f) true && onone (f_dsafe f) false)%bool.

Definition has_priority_over (a b : node) (if_equal : bool) : bool :=
  if priority (nflags a) =? priority (nflags b) then if_equal else priority (nflags a) >? priority (nflags b).

(* ---- _get_child_kwargs (composed.py 370-378) ---- *)
Record ckw := mkCK { ck_any : bool; ck_idel : option bool; ck_inew : option bool; ck_isafe : option bool }.

Definition child_kwargs (p : node) : ckw :=
  match p with
  | Comp CStream _ _ _ => if Facts.stream_pushes_flags then
        mkCK true (match f_del (nflags p) with Some b => Some b | None => if default_delete p then Some true else f_idel (nflags p) end)
             (match f_new (nflags p) with Some b => Some b | None => f_inew (nflags p) end)
             (match f_safe (nflags p) with Some b => Some b | None => f_isafe (nflags p) end)
      else mkCK false None None None
  | _ =>
    let f := nflags p in
    mkCK true
      (match f_del f with Some b => Some b | None => if default_delete p then Some true else f_idel f end)
      (match f_new f with Some b => Some b | None => f_inew f end)
      (match f_safe f with Some b => Some b | None => f_isafe f end)
  end.

(* ---- _propagate_implicit_values (composed.py 380-405, after the D16 repair) ---- *)
(* one child of a propagating container with flags f (idel = what _get_child_kwargs would give):
   the child's new flags and whether anything changed (then the child propagates further) *)
Definition pc_flags (f : flags) (idel : option bool) (cf : flags) : flags * bool :=
  let fix1 := match f_del f with None => negb (ob_eqb (f_idel cf) idel) | Some _ => false end in
  let cf1 := if fix1 then set_idel cf idel else cf in
  let fix2 := match f_new f with None => negb (ob_eqb (f_inew cf1) (f_inew f)) | Some _ => false end in
  let cf2 := if fix2 then set_inew cf1 (f_inew f) else cf1 in
  let fix3 := match f_safe f with
              | None => (negb (ob_eqb (f_isafe cf2) (f_isafe f)) && negb (ob_eqb (f_isafe cf2) (Some false)))%bool
              | Some _ => false end in
  let cf3 := if fix3 then set_isafe cf2 (f_isafe f) else cf2 in
  (cf3, (fix1 || fix2 || fix3)%bool).

Definition prop_child (rec : flags -> node -> node) (f : flags) (idel : option bool) (c : node) : node :=
  let r := pc_flags f idel (nflags c) in
  if snd r then rec (fst r) c else with_flags c (fst r).

Definition prop_stops (f : flags) : bool :=
  ((match f_idel f, f_inew f, f_isafe f with None, None, None => true | _, _, _ => false end)
   || (match f_del f, f_new f, f_safe f with Some _, Some _, Some _ => true | _, _, _ => false end))%bool.

(* prop_as f n = propagate applied to n carrying flags f *)
Fixpoint prop_as (f : flags) (n : node) : node :=
  match n with
  | Leaf k _ v => Leaf k f v
  | Comp k _ x ch =>
    if prop_stops f then Comp k f x ch
    else
      let idel := if Facts.default_delete k then Some true else f_idel f in
      Comp k f x
        ((fix go (l : list (key * node)) : list (key * node) :=
            match l with
            | [] => []
            | (kk, c) :: r => (kk, prop_child prop_as f idel c) :: go r
            end) ch)
  end.
Definition propagate (n : node) : node := prop_as (nflags n) n.

(* ---- ConfigNode(existing_node, **child_kwargs) followed by propagate (node.py 74-85) ---- *)
Definition adopt_flags (kw : ckw) (cf : flags) : flags :=
  let cf1 := set_idel cf (ck_idel kw) in
  let cf2 := set_inew cf1 (ck_inew kw) in
  if ob_eqb (f_isafe cf2) (Some false) then cf2 else set_isafe cf2 (ck_isafe kw).

Definition adopt (kw : ckw) (c : node) : node :=
  if ck_any kw then prop_as (adopt_flags kw (nflags c)) c else c.

(* ---- metadata dict merge {**a, **b} ---- *)
Fixpoint mset (k v : Z) (l : list (Z * Z)) : list (Z * Z) :=
  match l with
  | [] => [(k, v)]
  | (k', v') :: r => if k =? k' then (k, v) :: r else (k', v') :: mset k v r
  end.
Definition mupd (a b : list (Z * Z)) : list (Z * Z) := fold_left (fun acc kv => mset (fst kv) (snd kv) acc) b a.

Definition and_safe (mine other : option bool) : option bool :=
  match other with
  | Some b => Some (onone mine true && b)%bool
  | None => mine
  end.

(* flag part of _replace_other: self keeps its flags, absorbs safety and metadata of other *)
Definition absorb (s o : flags) : flags :=
  set_meta (set_dsafe (set_safe s (and_safe (f_safe s) (f_safe o))) (and_safe (f_dsafe s) (f_dsafe o))) (mupd (f_meta o) (f_meta s)).

(* flag part of _replace_self: self takes priority / delete of other *)
Definition become (s o : flags) : flags :=
  set_meta (set_dsafe (set_safe (set_del (set_prio s (f_prio o)) (f_del o)) (and_safe (f_safe s) (f_safe o)))
                      (and_safe (f_dsafe s) (f_dsafe o))) (mupd (f_meta s) (f_meta o)).

(* ---- class hierarchy ---- *)
Definition subk (a b : ckind) : bool :=   (* issubclass(a, b) *)
  (ckind_eqb a b || (ckind_eqb b CDict && is_funck a) || (ckind_eqb b CList && is_listk a && negb (ckind_eqb a CTuple)))%bool.

(* list storage order = children order; list children are always renumbered 0..n-1 *)
Fixpoint renum_from (i : Z) (l : list (key * node)) : list (key * node) :=
  match l with [] => [] | (_, c) :: r => (KI i, c) :: renum_from (i + 1) r end.

(* who holds the result: the older object or the newer one *)
Inductive who := Self | Other.

(* _maybe_promote: s is about to replace o. Returns the result and whether it lives in o's object. *)
Definition maybe_promote (s o : node) : node * bool :=
  match s, o with
  | Comp ks fs xs chs, Comp ko fo xo cho =>
    let refill := (* o.clear(); o.extend/update(s): every child re-adopted under o's flags; then o.__dict__.update(s.__dict__) *)
        let kw := child_kwargs (Comp ko fo xo []) in
        let chs' := map (fun kc => (fst kc, adopt kw (snd kc))) chs in
        Comp ko fs xo (if is_listk ko then renum_from 0 chs' else chs') in
    if ckind_eqb ks ko then (s, false)
    else if subk ko ks then (refill, true)
    else if subk ks ko then (s, false)
    else if (is_plaink ks && negb (is_plaink ko))%bool then (refill, true)
    else (s, false)
  | _, _ => (s, false)
  end.

Definition replace_other (s o : node) (promote : bool) : node * bool :=
  let s' := with_flags s (absorb (nflags s) (nflags o)) in
  if promote then maybe_promote s' o else (s', false).

Definition replace_self (s o : node) (promote : bool) : node * bool :=
  let s' := with_flags s (become (nflags s) (nflags o)) in
  let r := if promote then maybe_promote s' o else (s', false) in
  (propagate (fst r), snd r).

(* truthiness of a node object *)
Definition truthy (n : node) : bool :=
  match n with
  | Leaf (LRequired | LClear | LInclude) _ _ => true
  | Leaf _ _ v => scalar_truthy v
  | Comp k _ x ch => if is_funck k then scalar_truthy x (* bool(_func) *) else match ch with [] => false | _ => true end
  end.
