(* Model/Path.v — NodePath text: join_path and the lexer equivalent to NodePath._path_component_regex
   (mirrors nodes/node_path.py). Character level; integers are kept as their decimal digit strings
   (str(int) / int(str) are Python's and trusted). Executable definitions only. *)
From Coq Require Export List Ascii Bool Arith.
Export ListNotations.

Inductive pcomp :=
| PI (neg : bool) (digits : list ascii)   (* an int component, rendered [digits] / [-digits] *)
| PN (name : list ascii).                 (* a str component *)

Definition is_digit (c : ascii) : bool := let n := nat_of_ascii c in (48 <=? n) && (n <=? 57).
Definition is_ident (c : ascii) : bool :=
  let n := nat_of_ascii c in
  ((48 <=? n) && (n <=? 57)) || ((65 <=? n) && (n <=? 90)) || ((97 <=? n) && (n <=? 122)) || (n =? 95).

Definition ch_dot : ascii := "."%char.
Definition ch_lb : ascii := "["%char.
Definition ch_rb : ascii := "]"%char.
Definition ch_minus : ascii := "-"%char.

(* NodePath.join_path: a str component is preceded by '.' iff something was rendered before it *)
Fixpoint join (first : bool) (p : list pcomp) : list ascii :=
  match p with
  | [] => []
  | PN s :: r => (if first then [] else [ch_dot]) ++ s ++ join false r
  | PI neg ds :: r => ch_lb :: (if neg then [ch_minus] else []) ++ ds ++ ch_rb :: join false r
  end.

(* the tiling of the string by matches of the regex, as a character automaton *)
Inductive lst8 :=
| SBeg (can_ident : bool) (first : bool)   (* between tokens; can_ident: at the start or right after a dot *)
| SName (acc : list ascii)                 (* inside an identifier (acc reversed) *)
| SIdx0                                    (* after '[' *)
| SIdx (neg : bool) (acc : list ascii).    (* after '[' '-'? and zero or more digits (acc reversed) *)

Fixpoint lex (st : lst8) (s : list ascii) (out : list pcomp) : option (list pcomp) :=
  match s with
  | [] =>
    match st with
    | SBeg ci first => if (ci && negb first)%bool then None (* a dot cannot be last *) else Some out
    | SName acc => Some (out ++ [PN (rev acc)])
    | SIdx0 | SIdx _ _ => None
    end
  | c :: r =>
    match st with
    | SBeg ci first =>
      if is_ident c then (if ci then lex (SName [c]) r out else None)
      else if Ascii.eqb c ch_lb then (if (ci && negb first)%bool then None else lex SIdx0 r out)
      else if Ascii.eqb c ch_dot then (if ci then None else lex (SBeg true false) r out)
      else None
    | SName acc =>
      if is_ident c then lex (SName (c :: acc)) r out
      else if Ascii.eqb c ch_dot then lex (SBeg true false) r (out ++ [PN (rev acc)])
      else if Ascii.eqb c ch_lb then lex SIdx0 r (out ++ [PN (rev acc)])
      else None
    | SIdx0 =>
      if Ascii.eqb c ch_minus then lex (SIdx true []) r out
      else if is_digit c then lex (SIdx false [c]) r out
      else None
    | SIdx neg acc =>
      if is_digit c then lex (SIdx neg (c :: acc)) r out
      else if Ascii.eqb c ch_rb then
             match acc with [] => None | _ => lex (SBeg false false) r (out ++ [PI neg (rev acc)]) end
      else None
    end
  end.

(* NodePath.split_path(validate=True): None = ValueError *)
Definition split (s : list ascii) : option (list pcomp) := lex (SBeg true true) s [].

Definition comp_ok (c : pcomp) : bool :=
  match c with
  | PN s => match s with [] => false | _ => forallb is_ident s end
  | PI _ ds => match ds with [] => false | _ => forallb is_digit ds end
  end.
Definition path_ok (p : list pcomp) : bool := forallb comp_ok p.
