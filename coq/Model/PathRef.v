(* Model/PathRef.v — the reference-point arithmetic of !path:parent(n) (mirrors nodes/path.py on_evaluate_impl after repair
   048268d: src.joinpath('..' x (n+1), *args) then os.path.normpath) over POSIX paths as component lists.
   os.path / pathlib themselves are outside the model: the correspondence compares with them. Symbolic links are not
   modelled (normpath is lexical in the code as well). Executable definitions only. *)
From AY Require Export Model.Node.

Inductive comp := Up | Nm (n : Z).
Record ppath := mkP { p_abs : bool; p_comps : list comp }.     (* "." components and empty components never appear *)

(* os.path.normpath: a stack, top first *)
Definition push (abs : bool) (st : list comp) (c : comp) : list comp :=
  match c with
  | Nm n => Nm n :: st
  | Up => match st with
          | Nm _ :: r => r
          | _ => if abs then st else Up :: st       (* '/..' is '/',  '../..' stays *)
          end
  end.

Definition norm_stack (abs : bool) (l : list comp) : list comp := fold_left (push abs) l [].
Definition normpath (p : ppath) : ppath := mkP (p_abs p) (rev (norm_stack (p_abs p) (p_comps p))).

(* os.path.join / pathlib joinpath with relative pieces appended; an absolute right operand replaces the left *)
Definition join (a b : ppath) : ppath := if p_abs b then b else mkP (p_abs a) (p_comps a ++ p_comps b).

(* PathNode with ref point parent(n): the source file name, n+1 times '..', the node's components; normalised *)
Definition parent_ref (src : ppath) (n : nat) (args : list comp) : ppath :=
  normpath (mkP (p_abs src) (p_comps src ++ repeat Up (S n) ++ args)).

(* the location a (possibly relative) path denotes for a process whose working directory is cwd (absolute, normalised) *)
Definition locate (cwd : list comp) (p : ppath) : list comp :=
  rev (norm_stack true (if p_abs p then p_comps p else cwd ++ p_comps p)).

Definition comp_eqb (a b : comp) : bool := match a, b with Up, Up => true | Nm x, Nm y => x =? y | _, _ => false end.
Fixpoint comps_eqb (a b : list comp) : bool :=
  match a, b with [], [] => true | x :: r, y :: t => comp_eqb x y && comps_eqb r t | _, _ => false end.
Definition ppath_eqb (a b : ppath) : bool := Bool.eqb (p_abs a) (p_abs b) && comps_eqb (p_comps a) (p_comps b).
