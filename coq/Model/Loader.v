(* Model/Loader.v — what the loader builds for a document (mirrors the RESULT of yaml.py 40-69, 180-240 and
   ConfigNodeMeta.__call__ / ComposedNode.__init__): the node graph PyYAML composes (scanner, parser, composer,
   resolver are PyYAML's and trusted) decorated with merge-control tags, turned into a node tree.
   The deferred-fill / deep-construct protocol of PyYAML is modelled by its result (top-down adoption), which the
   correspondence checks on tagged text, including the shapes on which the protocol once went wrong (defects D1, D2). *)
From AY Require Export Model.Merge.

(* keyword arguments a merge-control tag (or !metadata{{..}}) passes to the node constructor *)
Record tagkw := mkT { t_prio : option Z; t_del : option bool; t_new : option bool; t_safe : option bool; t_meta : list (Z * Z) }.
Definition T0 : tagkw := mkT None None None None [].

Inductive ynode :=
| YS (t : tagkw) (v : scalar)
| YM (t : tagkw) (l : list (key * ynode))
| YQ (t : tagkw) (l : list ynode).

Record lctx := mkLC { c_dsafe : option bool; c_src : Z }.

Definition inh_prio (inh : option Z) (t : tagkw) : option Z := match inh with Some p => Some p | None => t_prio t end.

Definition own_flags (c : lctx) (inh : option Z) (kw : ckw) (t : tagkw) : flags :=
  mkF (inh_prio inh t) (t_del t) (t_new t) (t_safe t)
      (if ck_any kw then ck_idel kw else None) (if ck_any kw then ck_inew kw else None) (if ck_any kw then ck_isafe kw else None)
      (c_dsafe c) (t_meta t) (c_src c).

Fixpoint load (c : lctx) (inh : option Z) (kw : ckw) (y : ynode) : node :=
  match y with
  | YS t v => Leaf LScalar (own_flags c inh kw t) v
  | YM t l =>
    let f := own_flags c inh kw t in
    let kw' := child_kwargs (Comp CDict f SNone []) in
    Comp CDict f SNone ((fix go (l : list (key * ynode)) := match l with [] => [] | (k, x) :: r => (k, load c (inh_prio inh t) kw' x) :: go r end) l)
  | YQ t l =>
    let f := own_flags c inh kw t in
    let kw' := child_kwargs (Comp CList f SNone []) in
    Comp CList f SNone ((fix go (i : Z) (l : list ynode) := match l with [] => [] | x :: r => (KI i, load c (inh_prio inh t) kw' x) :: go (i + 1) r end) 0 l)
  end.

Definition no_kw : ckw := mkCK false None None None.
Definition load_doc (c : lctx) (y : ynode) : node := load c None no_kw y.

(* the plain data PyYAML loads from the same graph once every tag is erased *)
Fixpoint yplain (y : ynode) : plain :=
  match y with
  | YS _ v => PS v
  | YM _ l => PD ((fix go (l : list (key * ynode)) := match l with [] => [] | (k, x) :: r => (k, yplain x) :: go r end) l)
  | YQ _ l => PL ((fix go (l : list ynode) := match l with [] => [] | x :: r => yplain x :: go r end) l)
  end.

(* a tag placement is just the choice of the tagkw at every position: erasing all tags *)
Fixpoint yerase (y : ynode) : ynode :=
  match y with
  | YS _ v => YS T0 v
  | YM _ l => YM T0 ((fix go (l : list (key * ynode)) := match l with [] => [] | (k, x) :: r => (k, yerase x) :: go r end) l)
  | YQ _ l => YQ T0 ((fix go (l : list ynode) := match l with [] => [] | x :: r => yerase x :: go r end) l)
  end.

(* !notnew anywhere in a first document is an error by design *)
Fixpoint no_notnew (y : ynode) : bool :=
  match y with
  | YS t _ => match t_new t with Some false => false | _ => true end
  | YM t l => (match t_new t with Some false => false | _ => true end) &&
              (fix go (l : list (key * ynode)) := match l with [] => true | (_, x) :: r => (no_notnew x && go r)%bool end) l
  | YQ t l => (match t_new t with Some false => false | _ => true end) &&
              (fix go (l : list ynode) := match l with [] => true | x :: r => (no_notnew x && go r)%bool end) l
  end%bool.

Fixpoint ykeys_ok (y : ynode) : Prop :=
  match y with
  | YS _ _ => True
  | YM _ l => NoDup (map fst l) /\ (fix go (l : list (key * ynode)) := match l with [] => True | (_, x) :: r => ykeys_ok x /\ go r end) l
  | YQ _ l => (fix go (l : list ynode) := match l with [] => True | x :: r => ykeys_ok x /\ go r end) l
  end.
