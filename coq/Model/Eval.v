(* Model/Eval.v — evaluation of a merged tree (mirrors eval_context.py, nodes/xref.py, call.py, bind.py, import.py,
   dict.py 117-119, list.py 157-159, function.py 112-144, config.py 30-52, 148-156). Executable definitions only.

   Callables are opaque: a call is recorded as an event and its result is a fresh object remembering the target and
   the arguments it received. Objects carry an identity (oid) so that "the very same object" is oid equality. *)
From AY Require Export Model.Merge.

Inductive value :=
| VS (s : scalar)
| VD (oid : Z) (l : list (key * value))                                  (* Bunch *)
| VL (oid : Z) (l : list value)
| VCallRes (oid : Z) (f : scalar) (pos : list value) (kw : list (key * value))   (* f( *pos, **kw ) *)
| VPartial (oid : Z) (f : scalar) (pos : list value) (kw : list (key * value))   (* functools.partial(f, *pos, **kw) *)
| VImport (name : scalar)
| VOpaque (oid : Z) (what : Z).                                           (* !eval / f-string / !path results *)

Inductive event :=
| EvImport (p : path) (name : scalar)
| EvCall (p : path) (f : scalar)
| EvBind (p : path) (f : scalar)
| EvExec (p : path).

Record est := mkSt {
  done : list (path * value);    (* _eval_cache / _eval_cache_id (in a tree a node is identified by its path) *)
  stack : list path;             (* nodes being evaluated *)
  log : list event;
  next : Z                       (* next object identity *)
}.
Definition st0 : est := mkSt [] [] [] 1.

Fixpoint lookup_path {A} (p : path) (l : list (path * A)) : option A :=
  match l with [] => None | (q, v) :: r => if path_eqb p q then Some v else lookup_path p r end.

Definition alloc (st : est) : Z * est := (next st, mkSt (done st) (stack st) (log st) (next st + 1)).
Definition emit (e : event) (st : est) : est := mkSt (done st) (stack st) (log st ++ [e]) (next st).
Definition push (p : path) (st : est) : est := mkSt (done st) (p :: stack st) (log st) (next st).
Definition finish (p : path) (v : value) (st : est) : est := mkSt ((p, v) :: done st) (tl (stack st)) (log st) (next st).

(* FunctionNode._resolve_args: [names] are the parameters before *args of the target *)
Fixpoint take_consecutive (i : Z) (n : nat) (args : list (key * value)) : list value * list (key * value) :=
  match n with
  | O => ([], args)
  | S m => match aget (KI i) args with
           | Some v => let r := take_consecutive (i + 1) m (adel (KI i) args) in (v :: fst r, snd r)
           | None => ([], args)
           end
  end.

Definition resolve_args (names : list Z) (args : list (key * value)) : option (list value * list (key * value)) :=
  if forallb (fun kv => match fst kv with KI _ => false | KS _ => true end) args then Some ([], args)
  else
    let '(pos, rest) := take_consecutive 0 (length args) args in
    (* remaining integer keys become keyword arguments named after the parameter at that position *)
    (fix go (l : list (key * value)) (kwp kw : list (key * value)) : option (list value * list (key * value)) :=
       match l with
       | [] => (* f( *pos, **kwp, **kw ): the same name in both mappings is a TypeError at the call site *)
               if existsb (fun a => ahas (fst a) kw) kwp then None else Some (pos, kwp ++ kw)
       | (KI i, v) :: r => match nth_error names (Z.to_nat i) with
                           | Some nm => if i <? 0 then None else go r (kwp ++ [(KS nm, v)]) kw
                           | None => None
                           end
       | (KS s, v) :: r => go r kwp (kw ++ [(KS s, v)])
       end) rest [] [].

(* function signatures known to the model: interned target name -> parameter names before *args *)
Definition fenv := list (Z * list Z).
Fixpoint flookup (e : fenv) (z : Z) : option (list Z) := match e with [] => None | (k, v) :: r => if k =? z then Some v else flookup r z end.
(* import_name succeeds exactly for the targets the environment knows *)
Definition importable (e : fenv) (x : scalar) : bool := match x with SStr z => match flookup e z with Some _ => true | None => false end | _ => false end.

Definition is_xref (n : node) : option Z := match n with Leaf LXRef _ (SStr z) => Some z | _ => None end.

Section Rules.
  Variables (root : node) (pe : penv) (fe : fenv).
  (* the recursive call ctx.evaluate_node(child, prefix) *)
  Variable rec : bool -> node -> path -> est -> res (value * est).

  (* children of a mapping-like node, in order (dict.py 117-119 / list.py 157-159) *)
  Definition eval_step (p : path) (ras : bool) (acc : res (list (key * value) * est)) (kc : key * node) : res (list (key * value) * est) :=
    do a <- acc;
    do r <- rec ras (snd kc) (p ++ [fst kc]) (snd a);
    Ok (fst a ++ [(fst kc, fst r)], snd r).
  Definition eval_items (p : path) (ras : bool) (ch : list (key * node)) (st : est) : res (list (key * value) * est) :=
    fold_left (eval_step p ras) ch (Ok ([], st)).

  (* XRefNode.on_evaluate_impl: follow the chain of references (xref.py 27-38) *)
  Fixpoint follow (p : path) (ras : bool) (ff : nat) (chain : list path) (z : Z) (st : est) {struct ff} : res (value * est) :=
    match ff with
    | O => Err EFuel p
    | S ff' =>
      match plookup pe z with
      | None => Err EEval p                      (* not a valid path *)
      | Some tp =>
        match (if ras then None else lookup_path tp (done st)) with
        | Some v => if path_in tp chain then Err EEval p else Ok (v, st)
        | None =>
          match get_node root tp with
          | None => Err EEval p                  (* missing *)
          | Some tn =>
            if path_in tp chain then Err EEval p (* circular *)
            else match is_xref tn with
                 | Some z' => follow p ras ff' (chain ++ [tp]) z' st
                 | None => rec ras tn tp st
                 end
          end
        end
      end
    end.

  (* node.on_evaluate(path, ctx), by kind *)
  Definition on_evaluate (ras : bool) (n : node) (p : path) (st1 : est) : res (value * est) :=
    match n with
    | Leaf LXRef _ (SStr z) => follow p ras (S (nsize root)) [p] z st1
    | Leaf LXRef _ _ => Err EEval p
    | Leaf LRequired _ _ => Err EEval p
    | Leaf LClear _ _ | Leaf LInclude _ _ => Err EEval p
    | Leaf LImport f v =>
      if negb (safe f) then Err EUnsafe p
      else if negb (importable fe v) then Err EEval p
      else Ok (VImport v, emit (EvImport p v) st1)
    | Leaf (LEval | LFStr) f v =>
      if negb (safe f) then Err EUnsafe p
      else let '(o, st2) := alloc (emit (EvExec p) st1) in Ok (VOpaque o 0, st2)
    | Leaf _ _ v => Ok (VS v, st1)
    | Comp k f x ch =>
      if is_funck k then
        if negb (safe f) then Err EUnsafe p
        else if negb (importable fe x) then Err EEval p
        else
          let st2 := match x with SStr _ => emit (EvImport p x) st1 | _ => st1 end in
          match eval_items p true ch st2 with
          | Err EUnsafe _ => Err EEval p        (* require_all_safe turns it into an EvalError of the call node *)
          | Err e q => Err e q
          | Ok (args, st3) =>
            match resolve_args (match flookup fe (match x with SStr z => z | _ => 0 end) with Some l => l | None => [] end) args with
            | None => Err EEval p
            | Some (pos, kw) =>
              let '(o, st4) := alloc st3 in
              match k with
              | CBind => Ok (VPartial o x pos kw, emit (EvBind p x) st4)
              | _ => Ok (VCallRes o x pos kw, emit (EvCall p x) st4)
              end
            end
          end
      else if is_listk k then
        do r <- eval_items p ras ch st1;
        let '(o, st3) := alloc (snd r) in
        match k with
        | CPath => Ok (VOpaque o 1, st3)
        | _ => Ok (VL o (map snd (fst r)), st3)
        end
      else
        do r <- eval_items p ras ch st1;
        let '(o, st3) := alloc (snd r) in Ok (VD o (fst r), st3)
    end.

  (* EvalContext.evaluate_node (eval_context.py 122-155) *)
  Definition eval_node (ras : bool) (n : node) (p : path) (st : est) : res (value * est) :=
    if (ras && negb (safe (nflags n)))%bool then Err EUnsafe p
    else match lookup_path p (done st) with
         | Some v => Ok (v, st)
         | None =>
           if path_in p (stack st) then Err EEval p   (* re-entered while in progress: unbounded recursion, reported as EvalError *)
           else
             do vr <- on_evaluate ras n p (push p st);
             Ok (fst vr, finish p (fst vr) (snd vr))
         end.
End Rules.

Fixpoint ev (root : node) (pe : penv) (fe : fenv) (fuel : nat) (ras : bool) (n : node) (p : path) (st : est) {struct fuel} : res (value * est) :=
  match fuel with
  | O => Err EFuel p
  | S fu => eval_node root pe fe (ev root pe fe fu) ras n p st
  end.

(* Config.check_missing *)
Definition is_required (n : node) : bool := match n with Leaf LRequired _ _ => true | _ => false end.
Definition check_missing (t : node) : list path :=
  map fst (filter (fun pn => is_required (snd pn)) (nodes_with_paths [] t false)).

Fixpoint ncount (n : node) : nat := nsize n.

(* copy.deepcopy of a tree: the object is recreated, its state (all flags) restored, and then every (deep-copied) child is
   re-attached through append / __setitem__, i.e. adopted by the parent again (composed.py 346-368) *)
Fixpoint recopy (n : node) : node :=
  match n with
  | Leaf _ _ _ => n
  | Comp k f x ch =>
    let kw := child_kwargs (Comp k f x []) in
    Comp k f x ((fix go (l : list (key * node)) : list (key * node) :=
                   match l with [] => [] | (kk, c) :: r => (kk, adopt kw (recopy c)) :: go r end) ch)
  end.

(* Config(tree): check_missing, deepcopy, evaluate *)
Definition config (pe : penv) (fe : fenv) (t : node) : res (value * est) :=
  match check_missing t with
  | [] => let t' := recopy t in ev t' pe fe (2 * nsize t' + 2) false t' [] st0
  | m => Err EMissing (hd [] m)
  end.

(* ---------- canonical renumbering of object identities (first encounter in a pre-order walk) ---------- *)
Fixpoint zlookup (k : Z) (l : list (Z * Z)) : option Z := match l with [] => None | (a, b) :: r => if a =? k then Some b else zlookup k r end.
Definition renum (o : Z) (m : list (Z * Z)) : Z * list (Z * Z) :=
  match zlookup o m with Some n => (n, m) | None => let n := Z.of_nat (length m) + 1 in (n, m ++ [(o, n)]) end.

Fixpoint canon (v : value) (m : list (Z * Z)) : value * list (Z * Z) :=
  let canon_list := (fix cl (l : list value) (m : list (Z * Z)) : list value * list (Z * Z) :=
                       match l with [] => ([], m) | x :: r => let '(x', m1) := canon x m in let '(r', m2) := cl r m1 in (x' :: r', m2) end) in
  let canon_kv := (fix ck (l : list (key * value)) (m : list (Z * Z)) : list (key * value) * list (Z * Z) :=
                     match l with [] => ([], m) | (k, x) :: r => let '(x', m1) := canon x m in let '(r', m2) := ck r m1 in ((k, x') :: r', m2) end) in
  match v with
  | VS s => (VS s, m)
  | VImport s => (VImport s, m)
  | VOpaque o w => let '(o', m1) := renum o m in (VOpaque o' w, m1)
  | VD o l => let '(o', m1) := renum o m in let '(l', m2) := canon_kv l m1 in (VD o' l', m2)
  | VL o l => let '(o', m1) := renum o m in let '(l', m2) := canon_list l m1 in (VL o' l', m2)
  | VCallRes o f pos kw => let '(o', m1) := renum o m in let '(p', m2) := canon_list pos m1 in let '(k', m3) := canon_kv kw m2 in (VCallRes o' f p' k', m3)
  | VPartial o f pos kw => let '(o', m1) := renum o m in let '(p', m2) := canon_list pos m1 in let '(k', m3) := canon_kv kw m2 in (VPartial o' f p' k', m3)
  end.

Fixpoint value_eqb (a b : value) : bool :=
  let leq := (fix leq (l l' : list value) : bool := match l, l' with [], [] => true | x :: r, y :: s => (value_eqb x y && leq r s)%bool | _, _ => false end) in
  let keq := (fix keq (l l' : list (key * value)) : bool :=
                match l, l' with [], [] => true | (k, x) :: r, (k', y) :: s => (key_eqb k k' && value_eqb x y && keq r s)%bool | _, _ => false end) in
  match a, b with
  | VS x, VS y => scalar_eqb x y
  | VImport x, VImport y => scalar_eqb x y
  | VOpaque o w, VOpaque o' w' => ((o =? o') && (w =? w'))%bool
  | VD o l, VD o' l' => ((o =? o') && keq l l')%bool
  | VL o l, VL o' l' => ((o =? o') && leq l l')%bool
  | VCallRes o f p k, VCallRes o' f' p' k' => ((o =? o') && scalar_eqb f f' && leq p p' && keq k k')%bool
  | VPartial o f p k, VPartial o' f' p' k' => ((o =? o') && scalar_eqb f f' && leq p p' && keq k k')%bool
  | _, _ => false
  end.

Definition calls (l : list event) : list scalar :=
  flat_map (fun e => match e with EvCall _ f => [f] | _ => [] end) l.
