(* Model/Eq.v — boolean equalities used by the correspondence files (Corr/cases_*.v). *)
From AY Require Export Model.Flags.

Definition oz_eqb (a b : option Z) : bool :=
  match a, b with None, None => true | Some x, Some y => Z.eqb x y | _, _ => false end.

Fixpoint list_eqb {A} (eq : A -> A -> bool) (a b : list A) : bool :=
  match a, b with
  | [], [] => true
  | x :: r, y :: s => (eq x y && list_eqb eq r s)%bool
  | _, _ => false
  end.

Definition flags_eqb (a b : flags) : bool :=
  (oz_eqb (f_prio a) (f_prio b) && ob_eqb (f_del a) (f_del b) && ob_eqb (f_new a) (f_new b) && ob_eqb (f_safe a) (f_safe b)
   && ob_eqb (f_idel a) (f_idel b) && ob_eqb (f_inew a) (f_inew b) && ob_eqb (f_isafe a) (f_isafe b) && ob_eqb (f_dsafe a) (f_dsafe b)
   && list_eqb (fun x y => (fst x =? fst y) && (snd x =? snd y))%bool (f_meta a) (f_meta b) && (f_src a =? f_src b))%bool.

Fixpoint node_eqb (a b : node) : bool :=
  match a, b with
  | Leaf k f v, Leaf k' f' v' => (lkind_eqb k k' && flags_eqb f f' && scalar_eqb v v')%bool
  | Comp k f x ch, Comp k' f' x' ch' =>
    (ckind_eqb k k' && flags_eqb f f' && scalar_eqb x x' &&
     (fix go (l l' : list (key * node)) : bool :=
        match l, l' with
        | [], [] => true
        | (kk, c) :: r, (kk', c') :: r' => (key_eqb kk kk' && node_eqb c c' && go r r')%bool
        | _, _ => false
        end) ch ch')%bool
  | _, _ => false
  end.

Fixpoint plain_eqb (a b : plain) : bool :=
  match a, b with
  | PS v, PS v' => scalar_eqb v v'
  | PD l, PD l' =>
    (fix go (l l' : list (key * plain)) : bool :=
       match l, l' with
       | [], [] => true
       | (k, c) :: r, (k', c') :: r' => (key_eqb k k' && plain_eqb c c' && go r r')%bool
       | _, _ => false
       end) l l'
  | PL l, PL l' =>
    (fix go (l l' : list plain) : bool :=
       match l, l' with
       | [], [] => true
       | c :: r, c' :: r' => (plain_eqb c c' && go r r')%bool
       | _, _ => false
       end) l l'
  | _, _ => false
  end.

Definition path_eqb' (a b : path) : bool := list_eqb key_eqb a b.

Definition res_eqb {A} (eq : A -> A -> bool) (with_path : bool) (a b : res A) : bool :=
  match a, b with
  | Ok x, Ok y => eq x y
  | Err e p, Err e' p' => (ek_eqb e e' && (negb with_path || path_eqb' p p'))%bool
  | _, _ => false
  end.

(* indices (from 0) of the cases on which [f] is false *)
Fixpoint bad_idx {A} (f : A -> bool) (l : list A) (i : Z) : list Z :=
  match l with
  | [] => []
  | x :: r => if f x then bad_idx f r (i + 1) else i :: bad_idx f r (i + 1)
  end.
