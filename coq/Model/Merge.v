(* Model/Merge.v — merge rules, premerge operators, flatten
   (mirrors composed.py 162-187, 278-343; list.py 131-155; function.py 50-76;
    append/extend/prev/clear/stream.py; builder.py 264-291). Executable definitions only. *)
From AY Require Export Model.Flags.

(* ---------- container mutators on the functional tree ---------- *)

(* remove the i-th element of a list node: later elements are moved down through _set, i.e. re-adopted *)
Fixpoint lremove_at (kw : ckw) (i : nat) (l : list (key * node)) : list (key * node) :=
  match l, i with
  | [], _ => []
  | _ :: r, O => map (fun kc => (fst kc, adopt kw (snd kc))) r
  | x :: r, S j => x :: lremove_at kw j r
  end.

Definition path_eqb (a b : path) : bool :=
  (Nat.eqb (length a) (length b) && forallb (fun ab => key_eqb (fst ab) (snd ab)) (combine a b))%bool.
Definition path_in (p : path) (l : list path) : bool := existsb (path_eqb p) l.

(* set_child: ConfigDict._set / ConfigList._set(strict=False) *)
Definition set_child (s : node) (k : key) (v : node) : option node :=
  match s with
  | Leaf _ _ _ => None
  | Comp ks fs xs chs =>
    let v' := adopt (child_kwargs s) v in
    if is_listk ks then
      match validate_index (zlen chs) k false with
      | IdxOk i => Some (Comp ks fs xs (aset (KI i) v' chs))
      | _ => None
      end
    else Some (Comp ks fs xs (aset k v' chs))
  end.

(* replace a child in place (the child object was mutated; no adoption happens) *)
Definition put_child (s : node) (k : key) (v : node) : node :=
  match s with
  | Leaf _ _ _ => s
  | Comp ks fs xs chs =>
    if is_listk ks then
      match validate_index (zlen chs) k true with
      | IdxOk i => Comp ks fs xs (aset (KI i) v chs)
      | _ => s
      end
    else Comp ks fs xs (aset k v chs)
  end.

(* remove_child: ConfigDict._del / ConfigList._del (strict index) *)
Definition remove_child (s : node) (k : key) : option node :=
  match s with
  | Leaf _ _ _ => None
  | Comp ks fs xs chs =>
    if is_listk ks then
      match validate_index (zlen chs) k true with
      | IdxOk i => Some (Comp ks fs xs (renum_from 0 (lremove_at (child_kwargs s) (Z.to_nat i) chs)))
      | _ => None
      end
    else if ahas k chs then Some (Comp ks fs xs (adel k chs)) else None
  end.

(* ---------- filter_nodes (composed.py 162-187) ---------- *)
(* kept children, in order; list elements that follow a removed one are moved down through _set, i.e. re-adopted *)
Fixpoint shift_kept (kw : ckw) (islist : bool) (l : list (key * node * bool)) (moved : bool) : list (key * node) :=
  match l with
  | [] => []
  | (kk, c, true) :: r => (kk, if (moved && islist)%bool then adopt kw c else c) :: shift_kept kw islist r moved
  | (_, _, false) :: r => shift_kept kw islist r true
  end.

Definition has_children (n : node) : bool := match n with Comp _ _ _ (_ :: _) => true | _ => false end.

(* one child: (key, filtered child, keep?) and the paths removed below it / itself *)
Definition filter_child (rec : path -> node -> node * list path) (cond : path -> node -> bool) (pre : path) (kc : key * node)
  : (key * node * bool) * list path :=
  let cp := pre ++ [fst kc] in
  let keep0 := cond cp (snd kc) in
  let '(c', rem_c) := match snd kc with
                      | Comp _ _ _ _ => rec cp (snd kc)
                      | Leaf _ _ _ => (snd kc, [])
                      end in
  let keep := (keep0 || has_children c')%bool in
  ((fst kc, c', keep), rem_c ++ (if keep then [] else [cp])).

(* cond gets the absolute path of the child and the child; returns the filtered node and the removed paths *)
Fixpoint filter_nodes (cond : path -> node -> bool) (pre : path) (n : node) : node * list path :=
  match n with
  | Leaf _ _ _ => (n, [])
  | Comp k f x ch =>
    let res :=
      (fix go (l : list (key * node)) : list (key * node * bool) * list path :=
         match l with
         | [] => ([], [])
         | kc :: r =>
           let '(m, rm) := filter_child (filter_nodes cond) cond pre kc in
           let '(rest, rem_r) := go r in
           (m :: rest, rm ++ rem_r)
         end) ch in
    let kept := shift_kept (child_kwargs n) (is_listk k) (fst res) false in
    (Comp k f x (if is_listk k then renum_from 0 kept else kept), snd res)
  end.

(* ---------- _require_all_new ---------- *)
Definition require_all_new (n : node) (p : path) (exceptions : list path) (include_self : bool) : bool :=
  forallb (fun pn => (allow_new (nflags (snd pn)) || path_in (fst pn) exceptions)%bool)
          (match n with
           | Leaf _ _ _ => if include_self then [(p, n)] else []
           | Comp _ _ _ _ => nodes_with_paths p n include_self
           end).

Fixpoint drop_prefix (n : nat) (p : path) : path := skipn n p.

(* ---------- leaf rule (node.py 328-333) ---------- *)
Definition leaf_merge (s o : node) : node * who :=
  if has_priority_over s o false then (fst (replace_other s o false), Self)
  else (fst (replace_other o s false), Other).

Definition is_str_leaf (n : node) : bool :=
  match n with
  | Leaf (LScalar | LXRef | LEval | LFStr | LImport | LPrev) _ (SStr _) => true
  | _ => false
  end.

Definition node_x (n : node) : option scalar := match n with Comp k _ x _ => if is_funck k then Some x else None | _ => None end.
Definition set_x (n : node) (x : scalar) : node := match n with Comp k f _ ch => Comp k f x ch | _ => n end.
Definition clear_children (n : node) : node := match n with Comp k f x _ => Comp k f x [] | _ => n end.

Definition who_of (promoted : bool) (if_not : who) (if_promoted : who) : who := if promoted then if_promoted else if_not.

(* two views of one emptied container object (they may differ in the implicit flags of their last adoption) *)
Definition same_obj (a b : node) : bool :=
  match a, b with
  | Comp k f _ [], Comp k' f' _ [] =>
    (ckind_eqb k k' && (match f_prio f, f_prio f' with None, None => true | Some x, Some y => x =? y | _, _ => false end)
     && ob_eqb (f_del f) (f_del f') && ob_eqb (f_new f) (f_new f'))%bool
  | _, _ => false
  end.

(* ---------- the recursive merge ---------- *)
(* [rec] is the recursive call child.on_merge(path + [key], value) *)
Section MergeRules.
  Variable rec : path -> node -> node -> res (node * who).
  (* absolute paths at which the newer node IS the older node object (left behind by !clear) *)
  Variable aliases : list path.

  (* one iteration of the loop over the newer node's children (composed.py 305-325) *)
  Definition merge_step (p : path) (acc : res node) (kv : key * node) : res node :=
    do cur <- acc;
    let '(k, v) := kv in
    match get_child cur k with
    | None =>
      if require_all_new v (p ++ [k]) [] true then
        match set_child cur k v with Some c => Ok c | None => Err EMerge p end
      else Err EMerge p
    | Some c0 =>
      (* the newer node IS the older node object (left behind by !clear) - recognised by its path and, because a list that protects
         elements re-indexes them (an alias path may then name another element), by what that object looks like: the emptied container *)
      let al := if path_in (p ++ [k]) aliases then same_obj c0 v else false in
      let c := if al then v else c0 in   (* same object: it carries the flags of its last adoption (by the newer parent) *)
      do nr <- rec (p ++ [k]) c v;
      let '(n, w0) := nr in
      let w := if al then Self else w0 in
      if is_comp c then
        if (negb (truthy n) && negb (has_priority_over n v false) && explicit_delete v)%bool then
          match remove_child cur k with Some c' => Ok c' | None => Err EMerge p end
        else match w with
             | Other => match set_child cur k n with Some c' => Ok c' | None => Err EMerge p end
             | Self => Ok (put_child cur k n)
             end
      else
        match w with
        | Other =>
          if require_all_new n (p ++ [k]) [] false then
            if (negb (truthy n) && explicit_delete n)%bool then
              match remove_child cur k with Some c' => Ok c' | None => Err EMerge p end
            else match set_child cur k n with Some c' => Ok c' | None => Err EMerge p end
          else Err EMerge p
        | Self => Ok (put_child cur k n)
        end
    end.

  (* the deleting branch (composed.py 288-299): returns the pruned older node and, possibly, the final result *)
  Definition prune (p : path) (s o : node) : node * option (res (node * who)) :=
    if delete o then
      let '(s', removed) := filter_nodes
                              (fun ap n => has_priority_over n (first_not_missing o (skipn (length p) ap)) false) p s in
      if (match children s' with [] => true | _ => false end && has_priority_over o s' true)%bool then
        if require_all_new o p (p :: removed) true then
          let '(r, promoted) := replace_other o s' true in
          (s', Some (Ok (r, who_of promoted Other Self)))
        else (s', Some (Err EMerge p))
      else (s', None)
    else (s, None).

  (* ComposedNode.on_merge_impl (composed.py 284-332) *)
  Definition comp_merge (p : path) (s o : node) : res (node * who) :=
    match o with
    | Leaf _ _ _ => Ok (leaf_merge s o)
    | Comp ko fo xo cho =>
      match prune p s o with
      | (_, Some r) => r
      | (s1, None) =>
        do s2 <- fold_left (merge_step p) cho (Ok s1);
        let '(r, promoted) := if has_priority_over o s2 true then replace_self s2 o true else replace_other s2 o true in
        Ok (r, who_of promoted Self Other)
      end
    end.

  (* FunctionNode.on_merge_impl (function.py 50-76) *)
  Definition func_merge (p : path) (s o : node) : res (node * who) :=
    match s with
    | Comp ks fs xs chs =>
      if is_str_leaf o then
        if has_priority_over o s true then
          let s1 := clear_children (set_x s (match o with Leaf _ _ v => v | _ => xs end)) in
          Ok (fst (replace_self s1 o false), Self)
        else Ok (fst (replace_other s o false), Self)
      else
        let new_func := match node_x o with Some x => negb (scalar_eqb xs x) | None => false end in
        if new_func then
          if negb (has_priority_over o s true) then Ok (fst (replace_other s o false), Self)
          else
            let s1 := if delete o then clear_children s else s in
            comp_merge p (set_x s1 (match node_x o with Some x => x | None => xs end)) o
        else comp_merge p s o
    | _ => comp_merge p s o
    end.

  (* a non-deleting dict merged onto a list: every key must be a valid (strict) index (list.py 133-143) *)
  Definition dict_keys_ok (len : Z) (cho : list (key * node)) : bool :=
    forallb (fun kv => match validate_index len (fst kv) true with IdxOk _ => true | _ => false end) cho.

  (* the pre-filter of the newer node (list.py 145-152) *)
  Definition keep_if_exists (s : node) (rp : path) (n : node) : bool :=
    (negb (delete n) || has_priority_over n (first_not_missing s rp) true)%bool.

  (* ConfigList.on_merge_impl (list.py 131-155) *)
  Definition list_merge (p : path) (s o : node) : res (node * who) :=
    match o with
    | Comp ko _ _ cho =>
      if (negb (is_listk ko) && negb (delete o) && negb (dict_keys_ok (zlen (children s)) cho))%bool then Err EMerge p
      else comp_merge p s (fst (filter_nodes (keep_if_exists s) [] o))
    | Leaf _ _ _ => comp_merge p s o
    end.

  (* dispatch on the class of the older node *)
  Definition dispatch (p : path) (s o : node) : res (node * who) :=
    match s with
    | Leaf _ _ _ => Ok (leaf_merge s o)
    | Comp ks _ _ _ =>
      if is_funck ks then func_merge p s o
      else if is_listk ks then list_merge p s o
      else comp_merge p s o
    end.
End MergeRules.

Fixpoint on_merge (aliases : list path) (fuel : nat) (p : path) (s o : node) {struct fuel} : res (node * who) :=
  match fuel with
  | O => Err EFuel p
  | S fu => dispatch (on_merge aliases fu) aliases p s o
  end.

(* ---------- premerge (state passing over the older tree [into]) ---------- *)

(* path environment: interned string id -> parsed NodePath (absent = not a valid path) *)
Definition penv := list (Z * path).
Fixpoint plookup (e : penv) (z : Z) : option path :=
  match e with [] => None | (k, p) :: r => if k =? z then Some p else plookup r z end.

(* ComposedNode.remove_node: None if missing, error if the path is empty *)
Fixpoint remove_node (root : node) (p : path) : option (option (node * node)) :=
  (* Some None = missing; None = error; Some (Some (root', removed)) *)
  match p with
  | [] => None
  | [k] => if has_child root k then
             match get_child root k, remove_child root k with
             | Some c, Some root' => Some (Some (root', c))
             | _, _ => None
             end
           else Some None
  | k :: r => if has_child root k then
                match get_child root k with
                | Some c => match remove_node c r with
                            | Some (Some (c', removed)) => Some (Some (put_child root k c', removed))
                            | Some None => Some None
                            | None => None
                            end
                | None => None
                end
              else Some None
  end.

(* put a node back at an existing path, in place (used by !clear which mutates the older node) *)
Fixpoint put_node (root : node) (p : path) (v : node) : node :=
  match p with
  | [] => v
  | k :: r => match get_child root k with
              | Some c => put_child root k (put_node c r v)
              | None => root
              end
  end.

(* ConfigList(x) for an existing list-like node x: fresh default flags, children adopted *)
Definition fresh_list (dsafe : option bool) (chs : list (key * node)) : node :=
  let n0 := Comp CList (set_dsafe F0 dsafe) SNone [] in
  Comp CList (set_dsafe F0 dsafe) SNone (renum_from 0 (map (fun kc => (fst kc, adopt (child_kwargs n0) (snd kc))) chs)).

(* list.extend(other) on a node: append = set_child at len *)
Definition extend_node (n : node) (vals : list (key * node)) : option node :=
  match n with
  | Comp k _ _ _ =>
    if is_listk k then
      fold_left (fun acc kv => match acc with
                               | Some cur => set_child cur (KI (zlen (children cur))) (snd kv)
                               | None => None end) vals (Some n)
    else None
  | _ => None
  end.

(* on_premerge for a whole (sub)tree; [into] is None for the first stage.
   Returns the possibly replaced node and the updated older tree. *)
Fixpoint on_premerge (e : penv) (p : path) (n : node) (into : option node) {struct n} : res (node * option node * bool * list path) :=
  (* the bool says: a different object is returned (the parent must set_child it) *)
  match n with
  | Leaf LPrev _ (SStr z) =>
    match into with
    | None => Err EPremerge p
    | Some root =>
      match plookup e z with
      | None => Err EPremerge p
      | Some tp =>
        match remove_node root tp with
        | Some (Some (root', removed)) => Ok (removed, Some root', true, [])
        | _ => Err EPremerge p
        end
      end
    end
  | Leaf LClear _ _ =>
    match into with
    | None => Err EPremerge p
    | Some root =>
      match get_node root p with
      | Some (Comp k f x _) =>
        let cleared := Comp k f x [] in
        Ok (cleared, Some (put_node root p cleared), true, [p])
      | _ => Err EPremerge p   (* missing: KeyError; leaf: AttributeError on clear() *)
      end
    end
  | Leaf _ _ _ => Ok (n, into, false, [])
  | Comp CAppend f x chs =>
    (* note: an !append node's own children are NOT premerged (on_premerge_impl is overridden) *)
    match into with
    | None => Ok (fresh_list (Some true) chs, None, true, [])
    | Some root =>
      match remove_node root p with
      | Some (Some (root', target)) =>
        match extend_node target chs with
        | Some t' => Ok (t', Some root', true, [])
        | None => Err EPremerge p
        end
      | _ => Err EPremerge p
      end
    end
  | Comp CExtend f x chs =>
    match into with
    | None => Ok (fresh_list (Some true) chs, None, true, [])
    | Some root =>
      match get_node root p with
      | Some target =>
        match extend_node target chs with
        | Some t' =>
          match remove_node root p with
          | Some (Some (root', _)) => Ok (t', Some root', true, [])
          | _ => Err EPremerge p
          end
        | None => Ok (fresh_list (Some true) chs, into, true, [])
        end
      | None => Ok (fresh_list (Some true) chs, into, true, [])
      end
    end
  | Comp k f x chs =>
    (* map_nodes over the direct children; replaced children are set_child-ed after the loop *)
    let step :=
      (fix go (l : list (key * node)) (into : option node) : res (list (key * node * bool) * option node * list path) :=
         match l with
         | [] => Ok ([], into, [])
         | (kk, c) :: r =>
           do x1 <- on_premerge e (p ++ [kk]) c into;
           let '(c', into', changed, al1) := x1 in
           do x2 <- go r into';
           let '(rest, into'', al2) := x2 in
           Ok ((kk, c', changed) :: rest, into'', al1 ++ al2)
         end) chs into in
    do stp <- step;
    let '(marked, into', als) := stp in
    (* children that were not replaced were mutated in place *)
    let n1 := Comp k f x (map (fun kcb => (fst (fst kcb), snd (fst kcb))) marked) in
    let n2 := fold_left (fun (acc : option node) (kcb : key * node * bool) =>
                           match acc with
                           | Some cur => if snd kcb then set_child cur (fst (fst kcb)) (snd (fst kcb)) else Some cur
                           | None => None end) marked (Some n1) in
    match n2 with
    | Some r => Ok (r, into', false, als)
    | None => Err EPremerge p
    end
  end.

(* root.merge(other) *)
Definition merge2 (e : penv) (root other : node) : res node :=
  do x <- on_premerge e [] other (Some root);
  let '(other', root', _, als) := x in
  let root1 := match root' with Some r => r | None => root end in
  do r <- on_merge als (nsize root1 + nsize other' + 1) [] root1 other';
  Ok (fst r).

Definition is_dictk (n : node) : bool := match n with Comp k _ _ _ => negb (is_listk k) | _ => false end.

(* Builder.flatten on already preprocessed stages *)
Definition flatten (e : penv) (stages : list node) : res node :=
  match stages with
  | [] => Err EOther []
  | s0 :: rest =>
    if forallb is_dictk stages then
      do x <- on_premerge e [] s0 None;
      let '(s0', _, _, _) := x in
      if require_all_new s0' [] [] true then
        fold_left (fun acc st => do root <- acc; merge2 e root st) rest (Ok s0')
      else Err EMerge []
    else Err EOther []
  end.
