(* Model/Threads.v — the parse-time defaults and the API-entry marker as a machine over slots (mirrors node.py 147-179, 198,
   203; errors.py 25-55; builder.py 181-195).  A thread is the list of slot actions its build performs (one action = one
   Python line that touches a slot; the lists are extracted from traced runs of the real code); a schedule is any
   interleaving of the threads' actions.  Whether a slot is per-thread or shared is a fact read from the code
   (isinstance(slot, threading.local)).  Executable definitions only. *)
From AY Require Export Model.Node Gen.Facts.

Inductive slot := SFile | SSafe | SApi.
Definition slot_eqb (a b : slot) : bool :=
  match a, b with SFile, SFile | SSafe, SSafe | SApi, SApi => true | _, _ => false end.

(* true = the slot is a threading.local *)
Definition thread_local (s : slot) : bool :=
  match s with
  | SFile => Facts.default_filename_is_thread_local
  | SSafe => Facts.default_safe_is_thread_local
  | SApi => Facts.api_entered_is_thread_local
  end.

(* values: 0 = unset; booleans are 1 (False) / 2 (True); file names are interned ids >= 3 *)
Inductive action :=
| Init (s : slot) (v : Z)        (* if not hasattr(slot, 'value'): slot.value = v *)
| Load (s : slot)                (* old = slot.value            (old is a Python local: private to the thread) *)
| Store (s : slot) (v : Z)       (* slot.value = v *)
| StoreAnd (s : slot) (v : Z)    (* slot.value = v and old *)
| Restore (s : slot)             (* slot.value = old *)
| Obs (s : slot)                 (* a node constructor / api_entry reads the slot *)
| ApiSet                         (* _api_entered.value = True *)
| ApiClear.                      (* _api_entered.value = False *)

Record tstate := mkTS { t_local : slot -> Z; t_saved : slot -> list Z; t_obs : list (slot * Z); t_prog : list action }.
Record gstate := mkGS { g_shared : slot -> Z; g_thread : nat -> tstate }.

Definition upd {A} (f : slot -> A) (s : slot) (v : A) : slot -> A := fun s' => if slot_eqb s s' then v else f s'.

Section Machine.
(* which slots are per-thread: a parameter of the machine, instantiated with the facts read from the code below *)
Variable loc : slot -> bool.

Definition getv (g : gstate) (t : tstate) (s : slot) : Z := if loc s then t_local t s else g_shared g s.

(* writing a slot: into the thread's own store, or into the shared one *)
Definition setv (g : gstate) (t : tstate) (s : slot) (v : Z) : (slot -> Z) * tstate :=
  if loc s then (g_shared g, mkTS (upd (t_local t) s v) (t_saved t) (t_obs t) (t_prog t))
  else (upd (g_shared g) s v, t).

Definition and_val (v old : Z) : Z := if (v =? 2) && (old =? 2) then 2 else 1.

(* one action of thread [t] *)
Definition exec (g : gstate) (t : tstate) (a : action) : (slot -> Z) * tstate :=
  match a with
  | Init s v => if getv g t s =? 0 then setv g t s v else (g_shared g, t)
  | Load s => (g_shared g, mkTS (t_local t) (upd (t_saved t) s (getv g t s :: t_saved t s)) (t_obs t) (t_prog t))
  | Store s v => setv g t s v
  | StoreAnd s v => setv g t s (and_val v (hd 0 (t_saved t s)))
  | Restore s =>
    let t' := mkTS (t_local t) (upd (t_saved t) s (tl (t_saved t s))) (t_obs t) (t_prog t) in
    setv g t' s (hd 0 (t_saved t s))
  | Obs s => (g_shared g, mkTS (t_local t) (t_saved t) (t_obs t ++ [(s, getv g t s)]) (t_prog t))
  | ApiSet => setv g t SApi 2
  | ApiClear => setv g t SApi 1
  end.

(* thread [i] performs its next action (nothing if it has finished) *)
Definition step (g : gstate) (i : nat) : gstate :=
  let t := g_thread g i in
  match t_prog t with
  | [] => g
  | a :: rest =>
    let '(sh, t') := exec g (mkTS (t_local t) (t_saved t) (t_obs t) rest) a in
    mkGS sh (fun j => if Nat.eqb j i then t' else g_thread g j)
  end.

Definition run (g : gstate) (sched : list nat) : gstate := fold_left step sched g.

End Machine.

Definition fresh (p : list action) : tstate := mkTS (fun _ => 0) (fun _ => []) [] p.
Definition start (progs : list (list action)) : gstate := mkGS (fun _ => 0) (fun i => fresh (nth i progs [])).

(* what thread i observed (the file / safety every node it built recorded, the marker api_entry saw) *)
Definition observations (g : gstate) (i : nat) : list (slot * Z) := t_obs (g_thread g i).

(* thread i alone: the sub-schedule of its own steps *)
Definition alone (i : nat) (sched : list nat) : list nat := filter (Nat.eqb i) sched.

Definition obs_eqb (a b : list (slot * Z)) : bool :=
  (fix go (a b : list (slot * Z)) : bool :=
     match a, b with
     | [], [] => true
     | (s, v) :: r, (s', v') :: r' => slot_eqb s s' && (v =? v') && go r r'
     | _, _ => false
     end) a b.
