(* Model/Dump.v — what awesomeyaml.yaml.dump writes for a tree of plain kinds (mirrors yaml.py _node_representer 524-637,
   node.py get_node_info_to_save / get_default_mode / represent): per node the explicit flags that survive the
   "omit what the parent or the type default implies" elision, as the tagged YAML graph the loader model reads.
   Text emission / quoting (PyYAML's emitter, the unquoted style) is outside the model: the correspondence compares the
   graph PyYAML composes from the emitted text. Executable definitions only. *)
From AY Require Export Model.Loader Model.Eq.

(* top of dumper.metadata: what enclosing containers already emitted (only the four inferable keys are ever looked up) *)
Record dstack := mkDS { d_prio : option Z; d_del : option bool; d_new : option bool; d_safe : option bool }.
Definition DS0 : dstack := mkDS None None None None.

(* one inferable key: dropped when unset, equal to the enclosing emitted value, or equal to the type default *)
Definition elide_z (current parent : option Z) (default : Z) : option Z :=
  match current with
  | None => None
  | Some c => if oz_eqb (Some c) parent || (c =? default) then None else Some c
  end.
Definition elide_b (current parent : option bool) (default : option bool) : option bool :=
  match current with
  | None => None
  | Some c => if ob_eqb (Some c) parent || ob_eqb (Some c) default then None else Some c
  end.

Definition kind_default_delete (n : node) : bool := default_delete n.

Definition count_some {A} (o : option A) : nat := match o with Some _ => 1 | None => 0 end.

Definition simple_prio (p : Z) : bool := (p =? Facts.prio_standard) || (p =? Facts.prio_weak) || (p =? Facts.prio_force).

(* the emitted tag keywords of one node, the stack its children see, or an error (a lone priority outside the three named levels) *)
Definition own_tags (ds : dstack) (n : node) : tagkw :=
  let f := nflags n in
  mkT (elide_z (f_prio f) (d_prio ds) Facts.default_priority)
      (elide_b (f_del f) (d_del ds) (Some (kind_default_delete n)))
      (elide_b (f_new f) (d_new ds) (Some Facts.default_allow_new))
      (elide_b (f_safe f) (d_safe ds) (f_dsafe f))
      (f_meta f).

(* exactly one inferable key and nothing else: it becomes the plain tag (!weak, !del, ...) and is NOT recorded on the stack *)
Definition own_lone (ds : dstack) (n : node) (is_null : bool) : bool :=
  let t := own_tags ds n in
  Nat.eqb (count_some (t_prio t) + count_some (t_del t) + count_some (t_new t) + count_some (t_safe t) + length (t_meta t))%nat 1
  && negb is_null && match t_meta t with [] => true | _ => false end.

Definition own_bad (ds : dstack) (n : node) (is_null : bool) : bool :=
  own_lone ds n is_null && match t_prio (own_tags ds n) with Some v => negb (simple_prio v) | None => false end.

Definition own_stack (ds : dstack) (n : node) (is_null : bool) : dstack :=
  let t := own_tags ds n in
  if own_lone ds n is_null then ds
  else mkDS (match t_prio t with Some _ => t_prio t | None => d_prio ds end) (match t_del t with Some _ => t_del t | None => d_del ds end)
            (match t_new t with Some _ => t_new t | None => d_new ds end) (match t_safe t with Some _ => t_safe t | None => d_safe ds end).

Definition dump_own (ds : dstack) (n : node) (is_null composed : bool) : res (tagkw * dstack) :=
  if own_bad ds n is_null then Err EOther []
  else Ok (own_tags ds n, if composed then own_stack ds n is_null else ds).

Fixpoint dump (ds : dstack) (n : node) : res ynode :=
  match n with
  | Leaf LScalar _ v =>
    do x <- dump_own ds n (match v with SNone => true | _ => false end) false;
    Ok (YS (fst x) v)
  | Leaf _ _ _ => Err EOther []
  | Comp CDict _ _ ch =>
    do x <- dump_own ds n false true;
    do l <- (fix go (l : list (key * node)) : res (list (key * ynode)) :=
               match l with [] => Ok [] | (k, c) :: r => do y <- dump (snd x) c; do ys <- go r; Ok ((k, y) :: ys) end) ch;
    Ok (YM (fst x) l)
  | Comp CList _ _ ch =>
    do x <- dump_own ds n false true;
    do l <- (fix go (l : list (key * node)) : res (list ynode) :=
               match l with [] => Ok [] | (_, c) :: r => do y <- dump (snd x) c; do ys <- go r; Ok (y :: ys) end) ch;
    Ok (YQ (fst x) l)
  | Comp _ _ _ _ => Err EOther []
  end.

Definition dump_doc (n : node) : res ynode := dump DS0 n.

(* parse (dump t): the document that replaces t after a dump / parse round trip *)
Definition reparse (c : lctx) (n : node) : res node := do y <- dump_doc n; Ok (load_doc c y).

(* boolean equality of emitted graphs, for the correspondence files *)
Definition tagkw_eqb (a b : tagkw) : bool :=
  oz_eqb (t_prio a) (t_prio b) && ob_eqb (t_del a) (t_del b) && ob_eqb (t_new a) (t_new b) && ob_eqb (t_safe a) (t_safe b)
  && list_eqb (fun x y => (fst x =? fst y) && (snd x =? snd y)) (t_meta a) (t_meta b).
Fixpoint ynode_eqb (a b : ynode) : bool :=
  match a, b with
  | YS t v, YS t' v' => tagkw_eqb t t' && scalar_eqb v v'
  | YM t l, YM t' l' =>
    tagkw_eqb t t' &&
    (fix go (l l' : list (key * ynode)) : bool :=
       match l, l' with [], [] => true | (k, x) :: r, (k', x') :: r' => key_eqb k k' && ynode_eqb x x' && go r r' | _, _ => false end) l l'
  | YQ t l, YQ t' l' =>
    tagkw_eqb t t' &&
    (fix go (l l' : list ynode) : bool :=
       match l, l' with [], [] => true | x :: r, x' :: r' => ynode_eqb x x' && go r r' | _, _ => false end) l l'
  | _, _ => false
  end.
