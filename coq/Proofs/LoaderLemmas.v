(* Proofs/LoaderLemmas.v — merge-control tags are transparent for a single document (C01). *)
From AY Require Import Model.Loader Model.Eval Proofs.NodeInd Proofs.FlagsLemmas Proofs.EvalPlain Proofs.EvalInv Proofs.FactsOk.

Section YInd.
  Variable P : ynode -> Prop.
  Hypothesis Hs : forall t v, P (YS t v).
  Hypothesis Hm : forall t l, Forall (fun kx => P (snd kx)) l -> P (YM t l).
  Hypothesis Hq : forall t l, Forall P l -> P (YQ t l).
  Fixpoint ynode_ind' (y : ynode) : P y :=
    match y with
    | YS t v => Hs t v
    | YM t l => Hm t l ((fix go (l : list (key * ynode)) : Forall (fun kx => P (snd kx)) l :=
                           match l with [] => Forall_nil _ | kx :: r => Forall_cons kx (ynode_ind' (snd kx)) (go r) end) l)
    | YQ t l => Hq t l ((fix go (l : list ynode) : Forall P l :=
                           match l with [] => Forall_nil _ | x :: r => Forall_cons x (ynode_ind' x) (go r) end) l)
    end.
End YInd.

Fixpoint load_list (c : lctx) (inh : option Z) (kw : ckw) (i : Z) (l : list ynode) : list (key * node) :=
  match l with [] => [] | x :: r => (KI i, load c inh kw x) :: load_list c inh kw (i + 1) r end.

Lemma load_YM c inh kw t l :
  load c inh kw (YM t l) =
  Comp CDict (own_flags c inh kw t) SNone
       (map (fun kx => (fst kx, load c (inh_prio inh t) (child_kwargs (Comp CDict (own_flags c inh kw t) SNone [])) (snd kx))) l).
Proof. cbn [load]. f_equal. induction l as [|[k x] r IH]; [reflexivity|]. cbn [map fst snd]. now f_equal. Qed.

Lemma load_YQ c inh kw t l :
  load c inh kw (YQ t l) =
  Comp CList (own_flags c inh kw t) SNone (load_list c (inh_prio inh t) (child_kwargs (Comp CList (own_flags c inh kw t) SNone [])) 0 l).
Proof. cbn [load]. f_equal. generalize 0. induction l as [|x r IH]; intro i; [reflexivity|]. cbn [load_list]. f_equal. apply IH. Qed.

Lemma yplain_YM t l : yplain (YM t l) = PD (map (fun kx => (fst kx, yplain (snd kx))) l).
Proof. cbn [yplain]. f_equal; try (induction l as [|[k x] r IH]; [reflexivity|]; cbn [map fst snd]; now f_equal). Qed.
Lemma yplain_YQ t l : yplain (YQ t l) = PL (map yplain l).
Proof. cbn [yplain]. f_equal; try (induction l as [|x r IH]; [reflexivity|]; cbn [map]; now f_equal). Qed.

(* the content of the loaded tree is the plain data of the graph, whatever tags sit on its nodes *)
Theorem load_erase : forall y c inh kw, erase (load c inh kw y) = yplain y.
Proof.
  induction y as [t v|t l IH|t l IH] using ynode_ind'; intros c inh kw.
  - reflexivity.
  - rewrite load_YM, erase_comp, yplain_YM. cbn [is_listk]. f_equal. rewrite map_map. cbn [fst snd].
    induction IH as [|[k x] r Hx Hr IHr]; [reflexivity|]. cbn [map fst snd] in *. now rewrite Hx, IHr.
  - rewrite load_YQ, erase_comp, yplain_YQ. cbn [is_listk]. f_equal.
    generalize 0. induction IH as [|x r Hx Hr IHr]; intro i; [reflexivity|]. cbn [load_list map snd]. now rewrite Hx, IHr.
Qed.

Lemma yerase_yplain : forall y, yplain (yerase y) = yplain y.
Proof.
  induction y as [t v|t l IH|t l IH] using ynode_ind'; [reflexivity| |].
  - cbn [yerase]. rewrite !yplain_YM. f_equal.
    induction IH as [|[k x] r Hx Hr IHr]; [reflexivity|]. cbn [map fst snd] in *. rewrite Hx. f_equal. exact IHr.
  - cbn [yerase]. rewrite !yplain_YQ. f_equal.
    induction IH as [|x r Hx Hr IHr]; [reflexivity|]. cbn [map]. rewrite Hx. f_equal. exact IHr.
Qed.

(* adding, removing or moving tags: two decorations of one graph load to the same content *)
Theorem tags_transparent c y1 y2 : yerase y1 = yerase y2 -> erase (load_doc c y1) = erase (load_doc c y2).
Proof.
  intro H. unfold load_doc. rewrite !load_erase. rewrite <- (yerase_yplain y1), <- (yerase_yplain y2). now rewrite H.
Qed.

(* ---------- the loaded tree is a plain well-formed tree ---------- *)
Lemma load_list_keys_ge c inh kw : forall l i k, In k (map fst (load_list c inh kw i l)) -> exists z, k = KI z /\ i <= z.
Proof.
  induction l as [|x r IH]; intros i k H; [contradiction|]. cbn [load_list map fst] in H. destruct H as [<-|H].
  - exists i. split; [reflexivity|lia].
  - destruct (IH (i + 1) k H) as (z & -> & Hz). exists z. split; [reflexivity|lia].
Qed.

Lemma load_list_nodup c inh kw : forall l i, NoDup (map fst (load_list c inh kw i l)).
Proof.
  induction l as [|x r IH]; intro i; cbn [load_list map fst]; constructor; [|apply IH].
  intro H. destruct (load_list_keys_ge c inh kw r (i + 1) (KI i) H) as (z & E & Hz). inversion E. lia.
Qed.

Theorem load_plainT : forall y c inh kw, ykeys_ok y -> PlainT (load c inh kw y).
Proof.
  induction y as [t v|t l IH|t l IH] using ynode_ind'; intros c inh kw Hk.
  - constructor.
  - rewrite load_YM. cbn [ykeys_ok] in Hk. destruct Hk as [Hnd Hk]. constructor.
    + induction IH as [|[k x] r Hx Hr IHr]; cbn; constructor.
      * cbn [snd]. apply Hx. destruct Hk as [Hk _]. exact Hk.
      * apply IHr; [cbn in Hnd; inversion Hnd; assumption|destruct Hk; assumption].
    + rewrite map_map. cbn [fst]. exact Hnd.
  - rewrite load_YQ. cbn [ykeys_ok] in Hk. constructor; [|apply load_list_nodup].
    generalize 0. induction IH as [|x r Hx Hr IHr]; intro i; cbn; constructor.
    + cbn [snd]. apply Hx. destruct Hk as [Hk _]. exact Hk.
    + apply IHr. destruct Hk; assumption.
Qed.

(* building a config from the single loaded document yields exactly the plain data of the graph *)
Theorem load_evaluates c pe fe y : ykeys_ok y ->
  exists v st, config pe fe (load_doc c y) = Ok (v, st) /\ vplain v = yplain y.
Proof.
  intro Hk. destruct (config_plain pe fe (load_doc c y) (load_plainT y c None no_kw Hk)) as (v & st & E & Hv).
  exists v, st. split; [exact E|]. rewrite Hv. apply load_erase.
Qed.

(* ---------- a single document passes through Builder.flatten unchanged ---------- *)
Lemma premerge_plainT e : forall n p into, PlainT n -> on_premerge e p n into = Ok (n, into, false, []).
Proof.
  induction n as [k f v|k f x ch IH] using node_ind'; intros p into H.
  - inversion H; subst. reflexivity.
  - assert (HF : Forall (fun kc => PlainT (snd kc)) ch) by (inversion H; subst; assumption).
    assert (E : forall into, (fix go (l0 : list (key * node)) (into0 : option node) {struct l0} :
                 res (list (key * node * bool) * option node * list path) :=
               match l0 with
               | [] => Ok ([], into0, [])
               | (kk, c) :: r =>
                 do x1 <- on_premerge e (p ++ [kk]) c into0;
                 let '(c', into', changed, al1) := x1 in
                 do x2 <- go r into';
                 let '(rest, into'', al2) := x2 in
                 Ok ((kk, c', changed) :: rest, into'', al1 ++ al2)
               end) ch into = Ok (map (fun kc => (fst kc, snd kc, false)) ch, into, [])).
    { clear H. induction IH as [|[kk c] r Hkc Hr IHr]; intro into0; cbn [map fst snd]; [reflexivity|].
      inversion HF; subst. cbn in Hkc. rewrite (Hkc _ _ H1). cbn [bind]. rewrite (IHr H2). reflexivity. }
    assert (E1 : map (fun kcb : key * node * bool => (fst (fst kcb), snd (fst kcb))) (map (fun kc : key * node => (fst kc, snd kc, false)) ch) = ch).
    { rewrite map_map. cbn [fst snd]. clear. induction ch as [|[kk c] r IHr]; cbn; [reflexivity|]. now rewrite IHr. }
    assert (E2 : forall n0, fold_left (fun (acc : option node) (kcb : key * node * bool) =>
                   match acc with
                   | Some cur => if snd kcb then set_child cur (fst (fst kcb)) (snd (fst kcb)) else Some cur
                   | None => None
                   end) (map (fun kc : key * node => (fst kc, snd kc, false)) ch) (Some n0) = Some n0).
    { clear. induction ch as [|[kk c] r IHr]; intro n0; cbn; auto. }
    inversion H; subst; cbn [on_premerge]; rewrite E; cbn [bind]; rewrite E1, E2; reflexivity.
Qed.

(* ---------- without !notnew every loaded node allows creation, so a single document is accepted as it is ---------- *)
Definition kw_allows (kw : ckw) : Prop := ck_any kw = false \/ ck_inew kw <> Some false.

Lemma child_kw_allows k f x : f_new f <> Some false -> f_inew f <> Some false -> k <> CStream -> kw_allows (child_kwargs (Comp k f x [])).
Proof.
  intros H1 H2 Hk. right. destruct k; try congruence; cbn; destruct (f_new f) as [[|]|]; try congruence; exact H2.
Qed.

Lemma own_flags_inew c inh kw t : kw_allows kw -> f_inew (own_flags c inh kw t) <> Some false.
Proof. intros [H|H]; cbn; [rewrite H; discriminate|destruct (ck_any kw); [exact H|discriminate]]. Qed.

Lemma allow_new_own c inh kw t : kw_allows kw -> allow_new (own_flags c inh kw t) = true.
Proof.
  intro Hk. pose proof (own_flags_inew c inh kw t Hk) as H. unfold allow_new.
  destruct (f_inew (own_flags c inh kw t)) as [[|]|]; cbn [onone]; [reflexivity|congruence|apply default_allow_new].
Qed.

Lemma no_notnew_YM t l : no_notnew (YM t l) = ((match t_new t with Some false => false | _ => true end) && forallb (fun kx => no_notnew (snd kx)) l)%bool.
Proof. cbn [no_notnew]. f_equal; try (induction l as [|[k x] r IH]; [reflexivity|]; cbn [forallb snd]; now f_equal). Qed.
Lemma no_notnew_YQ t l : no_notnew (YQ t l) = ((match t_new t with Some false => false | _ => true end) && forallb no_notnew l)%bool.
Proof. cbn [no_notnew]. f_equal; try (induction l as [|x r IH]; [reflexivity|]; cbn [forallb]; now f_equal). Qed.

Lemma load_allows : forall y c inh kw pre, no_notnew y = true -> kw_allows kw ->
  forallb (fun pn : path * node => allow_new (nflags (snd pn))) (nwp pre (load c inh kw y)) = true.
Proof.
  induction y as [t v|t l IH|t l IH] using ynode_ind'; intros c inh kw pre Hn Hk.
  - cbn [load nwp forallb snd nflags]. now rewrite allow_new_own.
  - rewrite load_YM, nwp_comp. rewrite no_notnew_YM in Hn. apply andb_true_iff in Hn. destruct Hn as [Ht Hl].
    cbn [forallb snd nflags]. apply andb_true_iff. split.
    + now apply allow_new_own.
    + assert (Hk' : kw_allows (child_kwargs (Comp CDict (own_flags c inh kw t) SNone []))).
      { apply child_kw_allows; [cbn; destruct (t_new t) as [[|]|]; try discriminate; congruence|apply own_flags_inew; exact Hk|discriminate]. }
      induction IH as [|[k x] r Hx Hr IHr]; [reflexivity|]. cbn [map flat_map fst snd forallb] in *.
      apply andb_true_iff in Hl. destruct Hl as [H1 H2]. rewrite forallb_app. apply andb_true_iff. split; [apply Hx; assumption|apply IHr; assumption].
  - rewrite load_YQ, nwp_comp. rewrite no_notnew_YQ in Hn. apply andb_true_iff in Hn. destruct Hn as [Ht Hl].
    cbn [forallb snd nflags]. apply andb_true_iff. split.
    + now apply allow_new_own.
    + assert (Hk' : kw_allows (child_kwargs (Comp CList (own_flags c inh kw t) SNone []))).
      { apply child_kw_allows; [cbn; destruct (t_new t) as [[|]|]; try discriminate; congruence|apply own_flags_inew; exact Hk|discriminate]. }
      generalize 0. induction IH as [|x r Hx Hr IHr]; intro i; [reflexivity|]. cbn [load_list flat_map fst snd forallb] in *.
      apply andb_true_iff in Hl. destruct Hl as [H1 H2]. rewrite forallb_app. apply andb_true_iff. split; [apply Hx; assumption|apply IHr; assumption].
Qed.

(* Builder.build on one source: the loaded document comes out unchanged *)
Theorem single_document_build e c t l : ykeys_ok (YM t l) -> no_notnew (YM t l) = true ->
  flatten e [load_doc c (YM t l)] = Ok (load_doc c (YM t l)).
Proof.
  intros Hk Hn. unfold flatten.
  assert (Ed : forallb is_dictk [load_doc c (YM t l)] = true) by (unfold load_doc; rewrite load_YM; reflexivity).
  rewrite Ed. unfold load_doc at 1. rewrite (premerge_plainT e _ [] None (load_plainT _ c None no_kw Hk)). cbn [bind]. fold (load_doc c (YM t l)).
  assert (Er : require_all_new (load_doc c (YM t l)) [] [] true = true).
  { unfold require_all_new, load_doc. rewrite load_YM. unfold nodes_with_paths. rewrite <- load_YM.
    pose proof (load_allows (YM t l) c None no_kw [] Hn (or_introl eq_refl)) as H.
    rewrite forallb_forall in H |- *. intros pn Hin. rewrite (H pn Hin). reflexivity. }
  rewrite Er. reflexivity.
Qed.
