(* Proofs/PrioOrder.v — key-order neutrality of the prioritised update (C15 for documents with priority tags): equality up to the order
   of mapping entries, at every depth, is a congruence for upd_p. *)
From AY Require Import Model.Merge Spec.UpdateP Proofs.NodeInd Proofs.MergePlain Proofs.Laws Proofs.MergeNotNew Proofs.MergeGen
  Proofs.MergePrio Proofs.PrioPath Proofs.PrioLaws.

Inductive orel {A} (R : A -> A -> Prop) : option A -> option A -> Prop :=
| orel_n : orel R None None
| orel_s a b : R a b -> orel R (Some a) (Some b).

(* the same mapping up to the order of its entries, recursively: same priority, and key by key the same *)
Inductive peqvp : pp -> pp -> Prop :=
| pq_s p v : peqvp (PPS p v) (PPS p v)
| pq_d p kv kv' : (forall k, orel peqvp (aget k kv) (aget k kv')) -> peqvp (PPD p kv) (PPD p kv').

Lemma peqvp_ppri a b : peqvp a b -> ppri a = ppri b.
Proof. intro H; inversion H; reflexivity. Qed.

Lemma peqvp_refl : forall d, peqvp d d.
Proof.
  induction d as [p v|p kv IH] using pp_ind'; constructor. intro k.
  destruct (aget k kv) as [c|] eqn:E; constructor. rewrite Forall_forall in IH. apply (IH (k, c)). now apply aget_In.
Qed.

Theorem upd_p_peqvp : forall b b' a a', pwf a -> pwf a' -> pwf b -> pwf b' -> peqvp a a' -> peqvp b b' -> peqvp (upd_p a b) (upd_p a' b').
Proof.
  induction b as [pn vn|pn kv IH] using pp_ind'; intros b' a a' Wa Wa' Wb Wb' Ha Hb.
  - inversion Hb; subst. rewrite (upd_p_other a), (upd_p_other a') by (left; exact I). rewrite (peqvp_ppri _ _ Ha).
    destruct (ppri a' >? ppri (PPS pn vn)); [exact Ha|constructor].
  - inversion Hb as [|p0 kv0 kv' Hk]; subst.
    inversion Ha as [po vo|po okv okv' Hko]; subst.
    + rewrite !upd_p_other by (right; exact I). cbn [ppri]. destruct (po >? pn); [constructor|exact Hb].
    + rewrite !upd_p_DD. constructor. intro k.
      inversion Wb as [|? ? Hnd HF]; subst. inversion Wb' as [|? ? Hnd' HF']; subst.
      inversion Wa as [|? ? Hnda HFa]; subst. inversion Wa' as [|? ? Hnda' HFa']; subst.
      rewrite (updp_go_get kv okv k Hnd), (updp_go_get kv' okv' k Hnd').
      pose proof (Hk k) as Ek. pose proof (Hko k) as Eo.
      destruct (aget k kv) as [v|] eqn:E1; inversion Ek as [|? v' Rv E2 E3]; subst;
        destruct (aget k okv) as [ov|] eqn:E4; inversion Eo as [|? ov' Ro E5 E6]; subst; cbn [wr]; constructor; auto.
      rewrite Forall_forall in IH. apply (IH (k, v) (aget_In k v kv E1)); auto.
      * exact (aget_Forall pwf k okv ov HFa E4).
      * symmetry in E6. exact (aget_Forall pwf k okv' ov' HFa' E6).
      * exact (aget_Forall pwf k kv v HF E1).
      * symmetry in E3. exact (aget_Forall pwf k kv' v' HF' E3).
Qed.

Lemma fold_upd_p_peqvp : forall l l' a a', pwf a -> pwf a' -> Forall pwf l -> Forall pwf l' -> peqvp a a' -> Forall2 peqvp l l' ->
  peqvp (fold_left upd_p l a) (fold_left upd_p l' a').
Proof.
  induction l as [|b l IH]; intros l' a a' Wa Wa' Wl Wl' Ha Hl; inversion Hl as [|? b' ? r' Hb Hr]; subst; cbn [fold_left]; [exact Ha|].
  inversion Wl; subst. inversion Wl'; subst.
  apply IH; auto using upd_p_pwf. apply upd_p_peqvp; auto.
Qed.

(* the values: equal up to the order of entries *)
Lemma peqvp_get a b k : peqvp a b -> orel peqvp (match a with PPD _ kv => aget k kv | _ => None end) (match b with PPD _ kv => aget k kv | _ => None end).
Proof. intro H. inversion H as [|p kv kv' Hk]; subst; [constructor|apply Hk]. Qed.

(* histories of prioritised mapping documents that differ only in the order in which the entries are written build trees that are equal
   up to that order - every value and every priority *)
Theorem key_order_neutral_prio e s0 sts s0' sts' :
  Forall NewZ (s0 :: sts) -> Forall NewZ (s0' :: sts') -> forallb is_dictk (s0 :: sts) = true -> forallb is_dictk (s0' :: sts') = true ->
  Forall2 peqvp (map perase (s0 :: sts)) (map perase (s0' :: sts')) ->
  hcompat (perase s0) (map perase sts) -> hcompat (perase s0') (map perase sts') ->
  exists n m, flatten e (s0 :: sts) = Ok n /\ flatten e (s0' :: sts') = Ok m /\ peqvp (perase n) (perase m).
Proof.
  intros HF HF' HD HD' H2 Hh Hh'.
  destruct (flatten_prio e s0 sts HF HD Hh) as (n & En & Pn). destruct (flatten_prio e s0' sts' HF' HD' Hh') as (m & Em & Pm).
  exists n, m. split; [exact En|]. split; [exact Em|]. rewrite Pn, Pm.
  cbn [map] in H2. inversion H2 as [|? ? ? ? H0 Hr]; subst.
  assert (W : forall l, Forall NewZ l -> Forall pwf (map perase l)).
  { induction 1 as [|x r Hx Hr' IHr]; cbn [map]; constructor; auto. apply OldZ_pwf, NewZ_oldz, Hx. }
  inversion HF as [|? ? N0 NR]; subst. inversion HF' as [|? ? N0' NR']; subst.
  apply fold_upd_p_peqvp; auto using OldZ_pwf, NewZ_oldz.
Qed.

(* ... and peqvp does relate a mapping to every permutation of its entries *)
From Coq Require Import Permutation.

Lemma peqvp_permutation p kv kv' : NoDup (map fst kv) -> Permutation kv kv' -> peqvp (PPD p kv) (PPD p kv').
Proof.
  intros Hnd HP. constructor. intro k.
  assert (Hnd' : NoDup (map fst kv')) by (eapply Permutation_NoDup; [apply Permutation_map; exact HP|exact Hnd]).
  destruct (aget k kv) as [c|] eqn:E.
  - assert (E' : aget k kv' = Some c) by (apply In_aget; [exact Hnd'|]; eapply Permutation_in; [exact HP|]; now apply aget_In).
    rewrite E'. constructor. apply peqvp_refl.
  - destruct (aget k kv') as [c'|] eqn:E'; [|constructor].
    assert (E2 : aget k kv = Some c') by (apply In_aget; [exact Hnd|]; eapply Permutation_in; [apply Permutation_sym; exact HP|]; now apply aget_In).
    congruence.
Qed.

(* the side condition does not depend on the order of entries either *)
Lemma lcompat_peqvp : forall b b' a a', pwf b -> pwf b' -> peqvp a a' -> peqvp b b' -> lcompat a b -> lcompat a' b'.
Proof.
  induction b as [pn [vn|ln]|pn kv IH] using pp_ind'; intros b' a a' Wb Wb' Ha Hb Hc.
  - inversion Hb; subst. exact I.
  - inversion Hb; subst. inversion Ha; subst; [exact Hc|cbn in Hc; contradiction].
  - inversion Hb as [|p0 kv0 kv' Hk]; subst.
    inversion Ha as [po [vo|lo]|po okv okv' Hko]; subst; [exact I|cbn in Hc; contradiction|].
    apply lcompat_DD. apply lcompat_DD in Hc.
    inversion Wb as [|? ? Hnd HF]; subst. inversion Wb' as [|? ? Hnd' HF']; subst.
    rewrite Forall_forall in IH, Hc, HF, HF' |- *. intros [k v'] Hin'. cbn [fst snd].
    pose proof (Hk k) as Ek. rewrite (In_aget k v' kv' Hnd' Hin') in Ek.
    inversion Ek as [|v ? Rv E1 E2]; subst. symmetry in E1.
    pose proof (aget_In k v kv E1) as Hin.
    specialize (Hc (k, v) Hin). cbn [fst snd] in Hc.
    pose proof (Hko k) as Eo.
    destruct (aget k okv') as [ov'|] eqn:E3; [|exact I].
    inversion Eo as [|ov ? Ro E4 E5]; subst. rewrite <- E4 in Hc.
    exact (IH (k, v) Hin v' ov ov' (HF (k, v) Hin) (HF' (k, v') Hin') Ro Rv Hc).
Qed.

Lemma hcompat_peqvp : forall l l' a a', pwf a -> pwf a' -> Forall pwf l -> Forall pwf l' -> peqvp a a' -> Forall2 peqvp l l' ->
  hcompat a l -> hcompat a' l'.
Proof.
  induction l as [|b l IH]; intros l' a a' Wa Wa' Wl Wl' Ha Hl Hh; inversion Hl as [|? b' ? r' Hb Hr]; subst; [exact I|].
  inversion Wl; subst. inversion Wl'; subst. cbn [hcompat] in *. destruct Hh as [Hc Hh]. split.
  - match goal with Hb1 : pwf b, Hb2 : pwf b' |- _ => exact (lcompat_peqvp b b' a a' Hb1 Hb2 Ha Hb Hc) end.
  - match goal with Hb1 : pwf b, Hb2 : pwf b', Hl1 : Forall pwf l, Hl2 : Forall pwf r' |- _ =>
      apply (IH r' (upd_p a b) (upd_p a' b')); [apply upd_p_pwf; assumption|apply upd_p_pwf; assumption|exact Hl1|exact Hl2|apply upd_p_peqvp; assumption|exact Hr|exact Hh] end.
Qed.

Theorem key_order_neutral_prio1 e s0 sts s0' sts' :
  Forall NewZ (s0 :: sts) -> Forall NewZ (s0' :: sts') -> forallb is_dictk (s0 :: sts) = true -> forallb is_dictk (s0' :: sts') = true ->
  Forall2 peqvp (map perase (s0 :: sts)) (map perase (s0' :: sts')) ->
  hcompat (perase s0) (map perase sts) ->
  exists n m, flatten e (s0 :: sts) = Ok n /\ flatten e (s0' :: sts') = Ok m /\ peqvp (perase n) (perase m).
Proof.
  intros HF HF' HD HD' H2 Hh. apply key_order_neutral_prio; auto.
  assert (W : forall l, Forall NewZ l -> Forall pwf (map perase l)).
  { induction 1 as [|x r Hx Hr' IHr]; cbn [map]; constructor; auto. apply OldZ_pwf, NewZ_oldz, Hx. }
  cbn [map] in H2. inversion H2 as [|? ? ? ? H0 Hr]; subst.
  inversion HF as [|? ? N0 NR]; subst. inversion HF' as [|? ? N0' NR']; subst.
  eapply hcompat_peqvp; [| | | |exact H0|exact Hr|exact Hh]; auto using OldZ_pwf, NewZ_oldz.
Qed.
