(* Proofs/UpdateNNLemmas.v — what the no-new-path update (Spec.UpdateNN) guarantees, on plain data alone (C08). *)
From AY Require Import Model.Node Spec.Update Spec.UpdateNN Proofs.NodeInd Proofs.MergePlain.

(* ---------- the loops as top-level functions ---------- *)
Fixpoint nn_dgo (kv : list (key * plain)) (acc : list (key * plain)) : res (list (key * plain)) :=
  match kv with
  | [] => Ok acc
  | (k, v) :: rest =>
    match aget k acc with
    | Some ov => do m <- upd_nn ov v; nn_dgo rest (aset k m acc)
    | None => Err EMerge []
    end
  end.

Fixpoint nn_lgo (kv : list (key * plain)) (acc : list plain) : res (list plain) :=
  match kv with
  | [] => Ok acc
  | (k, v) :: rest =>
    match validate_index (zlen acc) k true with
    | IdxOk i =>
      match nth_error acc (Z.to_nat i) with
      | Some ov => do m <- upd_nn ov v; nn_lgo rest (lset (Z.to_nat i) m acc)
      | None => Err EMerge []
      end
    | _ => Err EMerge []
    end
  end.

Fixpoint sub_dgo (old : plain) (l : list (key * plain)) : bool :=
  match l with
  | [] => true
  | (k, v) :: r => (match pchild k old with Some ov => subpaths v ov | None => false end && sub_dgo old r)%bool
  end.

Fixpoint sub_lgo (old : plain) (i : Z) (l : list plain) : bool :=
  match l with
  | [] => true
  | v :: r => (match pchild (KI i) old with Some ov => subpaths v ov | None => false end && sub_lgo old (i + 1) r)%bool
  end.

Lemma upd_nn_PD_PD okv kv : upd_nn (PD okv) (PD kv) = do r <- nn_dgo kv okv; Ok (PD r).
Proof. reflexivity. Qed.

Lemma upd_nn_PL_PD ol kv : upd_nn (PL ol) (PD kv) = if keys_valid (zlen ol) kv then do r <- nn_lgo kv ol; Ok (PL r) else Err EMerge [].
Proof. cbn [upd_nn]. destruct (keys_valid (zlen ol) kv); reflexivity. Qed.

Lemma upd_nn_PS_PD s kv : upd_nn (PS s) (PD kv) = match kv with [] => Ok (PD kv) | _ :: _ => Err EMerge [] end.
Proof. reflexivity. Qed.

Lemma upd_nn_PL old l : upd_nn old (PL l) = if subpaths (PL l) old then Ok (PL l) else Err EMerge [].
Proof. reflexivity. Qed.

Lemma subpaths_PD old kv : subpaths (PD kv) old = sub_dgo old kv.
Proof. cbn [subpaths]. induction kv as [|[k v] r IH]; cbn; [reflexivity|]. now rewrite IH. Qed.

Lemma subpaths_PL old l : subpaths (PL l) old = sub_lgo old 0 l.
Proof. cbn [subpaths]. generalize 0. induction l as [|v r IH]; intro i; cbn; [reflexivity|]. now rewrite IH. Qed.

(* ---------- when it succeeds it is the ordinary update ---------- *)
Theorem upd_nn_sound : forall d a r, upd_nn a d = Ok r -> upd a d = Ok r.
Proof.
  induction d as [v|kv IH|l IH] using plain_ind'; intros a r H.
  - cbn in *. exact H.
  - destruct a as [s|okv|ol].
    + rewrite upd_nn_PS_PD in H. destruct kv; [|discriminate]. exact H.
    + rewrite upd_nn_PD_PD in H. rewrite upd_PD_PD.
      assert (L : forall acc r', nn_dgo kv acc = Ok r' -> upd_dgo kv acc = Ok r').
      { clear H. induction IH as [|[k v] rest Hv Hrest IHrest]; intros acc r' H; cbn in *; [exact H|].
        destruct (aget k acc) as [ov|]; [|discriminate].
        destruct (upd_nn ov v) as [m|e q] eqn:E; cbn in H; [|discriminate].
        rewrite (Hv _ _ E). cbn. auto. }
      destruct (nn_dgo kv okv) as [r'|e q] eqn:E; cbn in H; [|discriminate]. now rewrite (L _ _ E).
    + rewrite upd_nn_PL_PD in H. rewrite upd_PL_PD. destruct (keys_valid (zlen ol) kv); [|discriminate].
      assert (L : forall acc r', nn_lgo kv acc = Ok r' -> upd_lgo kv acc = Ok r').
      { clear H. induction IH as [|[k v] rest Hv Hrest IHrest]; intros acc r' H; cbn in *; [exact H|].
        destruct (validate_index (zlen acc) k true); try discriminate.
        destruct (nth_error acc (Z.to_nat i)) as [ov|]; [|discriminate].
        destruct (upd_nn ov v) as [m|e q] eqn:E; cbn in H; [|discriminate].
        rewrite (Hv _ _ E). cbn. auto. }
      destruct (nn_lgo kv ol) as [r'|e q] eqn:E; cbn in H; [|discriminate]. now rewrite (L _ _ E).
  - rewrite upd_nn_PL in H. destruct (subpaths (PL l) a); [|discriminate].
    rewrite upd_other; [exact H|left; exact I].
Qed.

(* ---------- a value all of whose paths exist ---------- *)
Lemma nth_error_lset {A} : forall (l : list A) i j v,
  nth_error (lset i v l) j = if Nat.eqb i j then (match nth_error l j with Some _ => Some v | None => None end) else nth_error l j.
Proof.
  induction l as [|a l IH]; intros i j v.
  - cbn. destruct i, j; cbn; try reflexivity; destruct (Nat.eqb i j); reflexivity.
  - destruct i as [|i], j as [|j]; cbn; try reflexivity. apply IH.
Qed.

Lemma sub_dgo_in old : forall kv k v, sub_dgo old kv = true -> aget k kv = Some v ->
  exists ov, pchild k old = Some ov /\ subpaths v ov = true.
Proof.
  induction kv as [|[k' v'] r IH]; intros k v H E; cbn in *; [discriminate|].
  apply andb_true_iff in H. destruct H as [H1 H2].
  destruct (key_eqb k k') eqn:Ek.
  - inversion E; subst. apply key_eqb_eq in Ek. subst k'.
    destruct (pchild k old) as [ov|]; [|discriminate]. eauto.
  - eauto.
Qed.

Lemma sub_lgo_nth old : forall l i j v, sub_lgo old i l = true -> nth_error l j = Some v ->
  exists ov, pchild (KI (i + Z.of_nat j)) old = Some ov /\ subpaths v ov = true.
Proof.
  induction l as [|v' r IH]; intros i j v H E; [destruct j; discriminate|].
  cbn in H. apply andb_true_iff in H. destruct H as [H1 H2].
  destruct j as [|j]; cbn in E.
  - inversion E; subst. rewrite Z.add_0_r. destruct (pchild (KI i) old) as [ov|]; [|discriminate]. eauto.
  - destruct (IH (i + 1) j v H2 E) as (ov & Hp & Hs). exists ov. split; [|exact Hs].
    replace (i + Z.of_nat (S j)) with (i + 1 + Z.of_nat j) by lia. exact Hp.
Qed.

Theorem subpaths_ppath : forall n o q, subpaths n o = true -> ppath n q = true -> ppath o q = true.
Proof.
  induction n as [v|kv IH|l IH] using plain_ind'; intros o q H Hp.
  - destruct q as [|k q]; [reflexivity|]. cbn in Hp. discriminate.
  - destruct q as [|k q]; [reflexivity|]. cbn [ppath pchild] in Hp.
    destruct (aget k kv) as [c|] eqn:E; [|discriminate].
    rewrite subpaths_PD in H. destruct (sub_dgo_in o kv k c H E) as (ov & Ho & Hs).
    cbn [ppath]. rewrite Ho.
    rewrite Forall_forall in IH.
    assert (Hin : exists k', In (k', c) kv).
    { clear - E. induction kv as [|[k' v'] r IHr]; cbn in E; [discriminate|].
      destruct (key_eqb k k'); [inversion E; subst; exists k'; left; reflexivity|].
      destruct (IHr E) as (k'' & Hk). exists k''. right. exact Hk. }
    destruct Hin as (k' & Hin). exact (IH (k', c) Hin ov q Hs Hp).
  - destruct q as [|k q]; [reflexivity|]. cbn [ppath pchild] in Hp.
    destruct k as [i|s]; [|discriminate].
    destruct (0 <=? i) eqn:Ei; [|discriminate]. apply Z.leb_le in Ei.
    destruct (nth_error l (Z.to_nat i)) as [c|] eqn:E; [|discriminate].
    rewrite subpaths_PL in H. destruct (sub_lgo_nth o l 0 (Z.to_nat i) c H E) as (ov & Ho & Hs).
    rewrite Z.add_0_l, Z2Nat.id in Ho by exact Ei.
    cbn [ppath]. rewrite Ho.
    rewrite Forall_forall in IH. apply (IH c (nth_error_In _ _ E) ov q Hs Hp).
Qed.

(* ---------- no path exists afterwards that did not exist before ---------- *)
Theorem upd_nn_no_new_path : forall d a r, upd_nn a d = Ok r -> forall q, ppath r q = true -> ppath a q = true.
Proof.
  induction d as [v|kv IH|l IH] using plain_ind'; intros a r H q Hq.
  - cbn in H. inversion H; subst. destruct q; [reflexivity|discriminate].
  - destruct a as [s|okv|ol].
    + rewrite upd_nn_PS_PD in H. destruct kv; [|discriminate]. inversion H; subst.
      destruct q as [|k q]; [reflexivity|]. cbn in Hq. discriminate.
    + rewrite upd_nn_PD_PD in H.
      assert (L : forall acc r', nn_dgo kv acc = Ok r' -> forall k q', ppath (PD r') (k :: q') = true -> ppath (PD acc) (k :: q') = true).
      { clear H Hq. induction IH as [|[k v] rest Hv Hrest IHrest]; intros acc r' H k0 q' Hp; cbn [nn_dgo] in H; [inversion H; subst; exact Hp|].
        destruct (aget k acc) as [ov|] eqn:Eg; [|discriminate].
        destruct (upd_nn ov v) as [m|e qq] eqn:E; cbn [bind] in H; [|discriminate].
        specialize (IHrest _ _ H k0 q' Hp). cbn [ppath pchild] in IHrest |- *.
        destruct (key_eqb k0 k) eqn:Ek.
        - apply key_eqb_eq in Ek. subst k0. rewrite aget_aset_eq in IHrest. rewrite Eg. cbn in Hv. exact (Hv _ _ E q' IHrest).
        - rewrite aget_aset_neq in IHrest by exact Ek. exact IHrest. }
      destruct (nn_dgo kv okv) as [r'|e qq] eqn:E; cbn in H; [|discriminate]. inversion H; subst.
      destruct q as [|k q]; [reflexivity|]. exact (L _ _ E k q Hq).
    + rewrite upd_nn_PL_PD in H. destruct (keys_valid (zlen ol) kv); [|discriminate].
      assert (L : forall acc r', nn_lgo kv acc = Ok r' -> forall k q', ppath (PL r') (k :: q') = true -> ppath (PL acc) (k :: q') = true).
      { clear H Hq. induction IH as [|[k v] rest Hv Hrest IHrest]; intros acc r' H k0 q' Hp; cbn [nn_lgo] in H; [inversion H; subst; exact Hp|].
        destruct (validate_index (zlen acc) k true) as [i| |] eqn:Ev; try discriminate.
        destruct (nth_error acc (Z.to_nat i)) as [ov|] eqn:En; [|discriminate].
        destruct (upd_nn ov v) as [m|e qq] eqn:E; cbn [bind] in H; [|discriminate].
        specialize (IHrest _ _ H k0 q' Hp). cbn [ppath pchild] in IHrest |- *.
        destruct k0 as [j|s]; [|discriminate]. destruct (0 <=? j); [|discriminate].
        rewrite nth_error_lset in IHrest.
        destruct (Nat.eqb (Z.to_nat i) (Z.to_nat j)) eqn:Eij.
        - apply Nat.eqb_eq in Eij. rewrite <- Eij, En in *. cbn in Hv. exact (Hv _ _ E q' IHrest).
        - exact IHrest. }
      destruct (nn_lgo kv ol) as [r'|e qq] eqn:E; cbn in H; [|discriminate]. inversion H; subst.
      destruct q as [|k q]; [reflexivity|]. exact (L _ _ E k q Hq).
  - rewrite upd_nn_PL in H. destruct (subpaths (PL l) a) eqn:Es; [|discriminate]. inversion H; subst.
    exact (subpaths_ppath _ _ _ Es Hq).
Qed.
