(* Proofs/MergeMode.v — documents whose only merge-control tags are !merge marks (and safety marks / metadata), merged into a
   config free of priority / new marks, are the decorated update Spec.UpdateM.upd_m: untagged lists replace, lists tagged
   !merge (or below !merge) combine index-wise with the surplus appended, mappings combine key-wise (C04).  Subsumes the
   plain refinement (C02) and its generalisation MergeGen. *)
From AY Require Import Model.Merge Proofs.NodeInd Proofs.FlagsLemmas Proofs.FactsOk Spec.Update Proofs.MergePlain
  Proofs.UpdateNNLemmas Proofs.MergeNotNew Proofs.MergeGen Spec.UpdateM.

(* ---------- the older trees: no explicit priority / new mark; delete marks and all implicit flags are free ---------- *)
Definition OY (f : flags) : Prop := f_prio f = None /\ f_new f = None.

Inductive OldY : node -> Prop :=
| OYLeaf f v : OY f -> OldY (Leaf LScalar f v)
| OYDict f x ch : OY f -> Forall (fun kc => OldY (snd kc)) ch -> NoDup (map fst ch) -> OldY (Comp CDict f x ch)
| OYList f x ch : OY f -> Forall (fun kc => OldY (snd kc)) ch -> keys_enum 0 ch -> OldY (Comp CList f x ch).

Lemma OX_OY f : OX f -> OY f.
Proof. intros (a & b & c). split; auto. Qed.

Lemma OldX_OldY : forall n, OldX n -> OldY n.
Proof.
  induction n as [k f v|k f x ch IH] using node_ind'; intro H.
  - inversion H; subst. constructor. now apply OX_OY.
  - assert (G : Forall (fun kc => OldX (snd kc)) ch -> Forall (fun kc => OldY (snd kc)) ch).
    { clear H. induction IH as [|kc r Hkc Hr IHr]; intro HF; [constructor|]. inversion HF; subst. constructor; auto. }
    inversion H as [|f0 x0 ch0 HO HF Hnd|f0 x0 ch0 HO HF HK]; subst; constructor; auto using OX_OY.
Qed.

Lemma OldY_OY n : OldY n -> OY (nflags n).
Proof. intro H; inversion H; auto. Qed.

Lemma OldY_children n : OldY n -> Forall (fun kc => OldY (snd kc)) (children n).
Proof. intro H; inversion H; cbn; auto. Qed.

Lemma OY_priority f : OY f -> priority f = 0.
Proof. intros (H & _). unfold priority. now rewrite H. Qed.

Lemma hpo_OY a b e : OY (nflags a) -> OY (nflags b) -> has_priority_over a b e = e.
Proof. intros Ha Hb. unfold has_priority_over. now rewrite (OY_priority _ Ha), (OY_priority _ Hb). Qed.

Lemma OldY_nodup n : OldY n -> NoDup (map fst (children n)).
Proof. intro H; inversion H; subst; cbn; [constructor|assumption|eapply keys_enum_nodup; eauto]. Qed.

Lemma get_child_oldy n k c : OldY n -> get_child n k = Some c -> OldY c.
Proof.
  intros H E. destruct n as [lk f v|ck f x ch]; cbn in E; [discriminate|].
  pose proof (OldY_children _ H) as HF. cbn in HF.
  destruct (is_listk ck).
  - destruct (validate_index (zlen ch) k true); try discriminate. eapply aget_Forall; eauto.
  - eapply aget_Forall; eauto.
Qed.

Lemma first_not_missing_oldy : forall p n, OldY n -> OldY (first_not_missing n p).
Proof.
  induction p as [|k r IH]; intros n H; cbn; [exact H|].
  destruct (has_child n k); [|exact H].
  destruct (get_child n k) eqn:E; [|exact H]. apply IH. eapply get_child_oldy; eauto.
Qed.

Lemma OY_same_explicit f f' : same_explicit f f' -> OY f -> OY f'.
Proof. intros (a & b & c & _) (h1 & h2). split; congruence. Qed.

Lemma OldY_sim : forall a b, Sim a b -> OldY a -> OldY b.
Proof.
  induction a as [k f v|k f x ch IH] using node_ind'; intros b HS H.
  - inversion HS as [k0 f0 f' v0 Hse|]; subst. inversion H; subst. constructor. eapply OY_same_explicit; eauto.
  - inversion HS as [|k0 f0 f' x0 ch0 ch' Hse HF2]; subst.
    pose proof (Forall2_fst_eq _ _ _ HF2) as Ek.
    assert (HF : Forall (fun kc => OldY (snd kc)) ch -> Forall (fun kc => OldY (snd kc)) ch').
    { clear - IH HF2. revert IH. induction HF2 as [|a b l l' [_ Hs] _ IHl]; intros IH HF; [constructor|].
      inversion IH; subst. inversion HF; subst. constructor; auto. }
    inversion H as [|f1 x1 ch1 HOX HFch Hnd|f1 x1 ch1 HOX HFch HK]; subst.
    + constructor; [eapply OY_same_explicit; eauto|auto|now rewrite <- Ek].
    + constructor; [eapply OY_same_explicit; eauto|auto|eapply keys_enum_fst; eauto].
Qed.

Lemma adopt_oldy kw c : OldY c -> OldY (adopt kw c).
Proof. apply OldY_sim, adopt_sim. Qed.

Lemma propagate_oldy n : OldY n -> OldY (propagate n).
Proof. apply OldY_sim, propagate_sim. Qed.

Lemma OldY_with_flags n f : OldY n -> OY f -> OldY (with_flags n f).
Proof. intros H Hf. inversion H; subst; cbn; constructor; auto. Qed.

Lemma OY_absorb a b : OY a -> OY (absorb a b).
Proof. intros (h1 & h2). split; auto. Qed.

Lemma OY_become a b : OY a -> OY b -> OY (become a b).
Proof. intros (h1 & h2) (g1 & g2). split; auto. Qed.

Lemma filter_keep_y cond : (forall p m, OldY m -> cond p m = true) -> forall n pre, OldY n -> filter_nodes cond pre n = (n, []).
Proof.
  intro Hc. induction n as [k f v|k f x ch IH] using node_ind'; intros pre H; [reflexivity|].
  rewrite filter_nodes_comp. cbv zeta.
  pose proof (OldY_children _ H) as HF. cbn in HF.
  assert (HA : filter_go cond pre ch = (map (fun kc => (fst kc, snd kc, true)) ch, [])).
  { clear H. induction IH as [|kc r Hkc Hr IHr]; cbn [filter_go]; [reflexivity|].
    inversion HF as [|? ? Hkc1 HFr]; subst. rewrite (IHr HFr).
    unfold filter_child. rewrite (Hc _ _ Hkc1). cbn [orb].
    destruct (snd kc) as [lk lf lv|ck cf cx cch] eqn:Ekc.
    - cbn. rewrite <- Ekc. reflexivity.
    - rewrite (Hkc (pre ++ [fst kc]) Hkc1). cbn. rewrite <- Ekc. reflexivity. }
  rewrite HA. cbn [fst snd].
  assert (HS : forall kw il l, shift_kept kw il (map (fun kc : key * node => (fst kc, snd kc, true)) l) false = l).
  { intros kw il l. induction l as [|[kk c] r IHl]; cbn; [reflexivity|]. now rewrite IHl. }
  rewrite HS. inversion H; subst; cbn [is_listk]; [reflexivity|].
  rewrite renum_enum; auto.
Qed.

Lemma filter_all_y cond : (forall p m, OldY m -> cond p m = false) -> forall n pre, OldY n -> fst (filter_nodes cond pre n) = clear_children n.
Proof.
  intro Hc. induction n as [k f v|k f x ch IH] using node_ind'; intros pre H; [reflexivity|].
  rewrite filter_nodes_comp. cbv zeta. cbn [fst clear_children].
  pose proof (OldY_children _ H) as HF. cbn in HF.
  assert (HA : Forall (fun m => snd m = false) (fst (filter_go cond pre ch))).
  { clear H. induction IH as [|kc r Hkc Hr IHr]; cbn [filter_go]; [constructor|].
    inversion HF as [|? ? H1 H2]; subst.
    destruct (filter_child (filter_nodes cond) cond pre kc) as [m rm] eqn:Em.
    destruct (filter_go cond pre r) as [rest rem_r] eqn:Er. cbn [fst]. constructor; [|apply IHr; auto].
    unfold filter_child in Em. rewrite (Hc _ _ H1) in Em. cbn [orb] in Em.
    destruct (snd kc) as [lk lf lv|ck cf cx cch] eqn:Ekc.
    - inversion Em; subst. reflexivity.
    - specialize (Hkc (pre ++ [fst kc]) H1).
      destruct (filter_nodes cond (pre ++ [fst kc]) (Comp ck cf cx cch)) as [c' rc]. cbn [fst] in Hkc. subst c'.
      inversion Em; subst. reflexivity. }
  rewrite (shift_kept_all_false _ _ _ _ HA). destruct (is_listk k); reflexivity.
Qed.

(* ---------- the newer documents ---------- *)
(* flags of a node without priority / new / notnew mark and without a !del mark; !merge (explicit delete = false) is allowed *)
Definition MF (f : flags) : Prop := f_prio f = None /\ f_new f = None /\ f_inew f = None /\ f_del f <> Some true.

(* below a replacing list: anything that may create paths *)
Inductive NewR : node -> Prop :=
| NR_leaf f v : OY f -> f_inew f = None -> NewR (Leaf LScalar f v)
| NR_dict f x ch : OY f -> f_inew f = None -> Forall (fun kc => NewR (snd kc)) ch -> NoDup (map fst ch) -> NewR (Comp CDict f x ch)
| NR_list f x ch : OY f -> f_inew f = None -> Forall (fun kc => NewR (snd kc)) ch -> keys_enum 0 ch -> NewR (Comp CList f x ch).

Inductive NewT : node -> Prop :=
| NT_leaf f v : MF f -> NewT (Leaf LScalar f v)
| NT_dict f x ch : MF f -> delete (Comp CDict f x ch) = false -> Forall (fun kc => NewT (snd kc)) ch -> NoDup (map fst ch) -> NewT (Comp CDict f x ch)
| NT_mlist f x ch : MF f -> delete (Comp CList f x ch) = false -> Forall (fun kc => NewT (snd kc)) ch -> keys_enum 0 ch -> NewT (Comp CList f x ch)
| NT_rlist f x ch : MF f -> delete (Comp CList f x ch) = true -> Forall (fun kc => NewR (snd kc)) ch -> keys_enum 0 ch -> NewT (Comp CList f x ch).

Lemma MF_OY f : MF f -> OY f.
Proof. intros (a & b & _). split; auto. Qed.

Lemma NewR_oldy : forall n, NewR n -> OldY n.
Proof.
  induction n as [k f v|k f x ch IH] using node_ind'; intro H.
  - inversion H; subst. constructor. assumption.
  - assert (G : Forall (fun kc => NewR (snd kc)) ch -> Forall (fun kc => OldY (snd kc)) ch).
    { clear H. induction IH as [|kc r Hkc Hr IHr]; intro HF; [constructor|]. inversion HF; subst. constructor; auto. }
    inversion H; subst; constructor; auto.
Qed.

Lemma NewR_children n : NewR n -> Forall (fun kc => NewR (snd kc)) (children n).
Proof. intro H; inversion H; cbn; auto. Qed.

Lemma NewR_allow n : NewR n -> allow_new (nflags n) = true.
Proof. intro H. unfold allow_new. inversion H as [? ? ? E|? ? ? ? E|? ? ? ? E]; subst; cbn [nflags]; now rewrite E. Qed.

Lemma nwp_newr : forall n pre, NewR n -> Forall (fun pn => NewR (snd pn)) (nwp pre n).
Proof.
  induction n as [k f v|k f x ch IH] using node_ind'; intros pre H.
  - cbn. constructor; auto.
  - rewrite nwp_comp. constructor; [exact H|].
    pose proof (NewR_children _ H) as HF. cbn in HF. clear H.
    induction IH as [|kc r Hkc Hr IHr]; cbn; [constructor|].
    inversion HF; subst. apply Forall_app. split; auto.
Qed.

Lemma require_all_new_newr n p exc inc : NewR n -> require_all_new n p exc inc = true.
Proof.
  intro H. unfold require_all_new. apply forallb_forall. intros [q m] Hin. cbn.
  assert (Hm : NewR m).
  { destruct n as [lk f v|ck f x ch].
    - destruct inc; cbn in Hin; [|contradiction]. destruct Hin as [E|[]]. inversion E; subst. exact H.
    - unfold nodes_with_paths in Hin. pose proof (nwp_newr _ p H) as HF. rewrite Forall_forall in HF.
      destruct inc; [apply (HF (q, m)); exact Hin|].
      apply (HF (q, m)). destruct (nwp p (Comp ck f x ch)); cbn in Hin; [contradiction|right; exact Hin]. }
  rewrite (NewR_allow _ Hm). reflexivity.
Qed.

Lemma NewT_NewR : forall n, NewT n -> NewR n.
Proof.
  induction n as [k f v|k f x ch IH] using node_ind'; intro H.
  - inversion H as [f0 v0 (a & b & c & d)| | |]; subst. constructor; [split; auto|exact c].
  - assert (G : Forall (fun kc => NewT (snd kc)) ch -> Forall (fun kc => NewR (snd kc)) ch).
    { clear H. induction IH as [|kc r Hkc Hr IHr]; intro HF; [constructor|]. inversion HF; subst. constructor; auto. }
    inversion H as [|f0 x0 ch0 (a & b & c & d) Hd HF Hnd|f0 x0 ch0 (a & b & c & d) Hd HF HK|f0 x0 ch0 (a & b & c & d) Hd HF HK]; subst;
      constructor; auto; split; auto.
Qed.

Lemma NewT_oldy n : NewT n -> OldY n.
Proof. intro H. apply NewR_oldy, NewT_NewR, H. Qed.

Lemma NewT_MF n : NewT n -> MF (nflags n).
Proof. intro H; inversion H; auto. Qed.

Lemma NewT_explicit_delete n : NewT n -> explicit_delete n = false.
Proof. intro H. apply NewT_MF in H. destruct H as (_ & _ & _ & Hd). unfold explicit_delete. destruct (f_del (nflags n)) as [[|]|]; [congruence|reflexivity|reflexivity]. Qed.

Lemma MF_absorb a b : MF a -> MF (absorb a b).
Proof. intros (h1 & h2 & h3 & h4). repeat split; auto. Qed.

Lemma NewR_with_flags n f : NewR n -> OY f -> f_inew f = None -> NewR (with_flags n f).
Proof. intros H Hf Hi. inversion H; subst; cbn; constructor; auto. Qed.

(* the decorated plain image of a newer document: a list is in merge mode iff it is not deleting *)
Fixpoint mp_of (n : node) : mplain :=
  match n with
  | Leaf _ _ v => MS v
  | Comp k f x ch =>
    if is_listk k then ML (negb (delete n)) ((fix go (l : list (key * node)) := match l with [] => [] | (_, c) :: r => mp_of c :: go r end) ch)
    else MD ((fix go (l : list (key * node)) := match l with [] => [] | (kk, c) :: r => (kk, mp_of c) :: go r end) ch)
  end.

Lemma mp_of_comp k f x ch :
  mp_of (Comp k f x ch) =
  if is_listk k then ML (negb (delete (Comp k f x ch))) (map (fun kc => mp_of (snd kc)) ch) else MD (map (fun kc => (fst kc, mp_of (snd kc))) ch).
Proof.
  cbn [mp_of]. destruct (is_listk k).
  - f_equal. induction ch as [|[kk c] r IH]; cbn; [reflexivity|]. now rewrite IH.
  - f_equal. induction ch as [|[kk c] r IH]; cbn; [reflexivity|]. now rewrite IH.
Qed.

Lemma mforget_MD l : mforget (MD l) = PD (map (fun kc => (fst kc, mforget (snd kc))) l).
Proof. cbn [mforget]. f_equal. induction l as [|[k c] r IH]; cbn; [reflexivity|]. now rewrite IH. Qed.

Lemma mforget_ML b l : mforget (ML b l) = PL (map mforget l).
Proof. reflexivity. Qed.

Lemma mforget_mp_of : forall n, mforget (mp_of n) = erase n.
Proof.
  induction n as [k f v|k f x ch IH] using node_ind'; [reflexivity|].
  rewrite mp_of_comp, erase_comp. destruct (is_listk k).
  - rewrite mforget_ML, map_map. f_equal. induction IH as [|kc r Hkc Hr IHr]; cbn; [reflexivity|]. now rewrite Hkc, IHr.
  - rewrite mforget_MD, map_map. cbn [fst snd]. f_equal. induction IH as [|kc r Hkc Hr IHr]; cbn; [reflexivity|]. now rewrite Hkc, IHr.
Qed.

(* ---------- the spec's loops as top-level functions ---------- *)
Fixpoint m_dgo (kv : list (key * mplain)) (acc : list (key * plain)) : res (list (key * plain)) :=
  match kv with
  | [] => Ok acc
  | (k, v) :: rest =>
    match aget k acc with
    | Some ov => do m <- upd_m ov v; m_dgo rest (aset k m acc)
    | None => m_dgo rest (aset k (mforget v) acc)
    end
  end.

Fixpoint m_lgo (kv : list (key * mplain)) (acc : list plain) : res (list plain) :=
  match kv with
  | [] => Ok acc
  | (k, v) :: rest =>
    match validate_index (zlen acc) k true with
    | IdxOk i =>
      match nth_error acc (Z.to_nat i) with
      | Some ov => do m <- upd_m ov v; m_lgo rest (lset (Z.to_nat i) m acc)
      | None => Err EMerge []
      end
    | _ => Err EMerge []
    end
  end.

Fixpoint m_igo (i : nat) (l : list mplain) (acc : list plain) : res (list plain) :=
  match l with
  | [] => Ok acc
  | v :: rest =>
    match nth_error acc i with
    | Some ov => do m <- upd_m ov v; m_igo (S i) rest (lset i m acc)
    | None => m_igo (S i) rest (acc ++ [mforget v])
    end
  end.

Fixpoint m_ego (i : Z) (l : list mplain) (acc : list (key * plain)) : res (list (key * plain)) :=
  match l with
  | [] => Ok acc
  | v :: rest =>
    match aget (KI i) acc with
    | Some ov => do m <- upd_m ov v; m_ego (i + 1) rest (aset (KI i) m acc)
    | None => m_ego (i + 1) rest (aset (KI i) (mforget v) acc)
    end
  end.

Definition mkeys_valid (len : Z) (kv : list (key * mplain)) : bool :=
  forallb (fun x => match validate_index len (fst x) true with IdxOk _ => true | _ => false end) kv.

Lemma upd_m_MD_PD okv kv : upd_m (PD okv) (MD kv) = do r <- m_dgo kv okv; Ok (PD r).
Proof. reflexivity. Qed.
Lemma upd_m_MD_PL ol kv : upd_m (PL ol) (MD kv) = if mkeys_valid (zlen ol) kv then do r <- m_lgo kv ol; Ok (PL r) else Err EMerge [].
Proof. cbn [upd_m]. unfold mkeys_valid. destruct (forallb _ kv); reflexivity. Qed.
Lemma upd_m_ML_PL ol l : upd_m (PL ol) (ML true l) = do r <- m_igo O l ol; Ok (PL r).
Proof. reflexivity. Qed.
Lemma upd_m_ML_PD okv l : upd_m (PD okv) (ML true l) = do r <- m_ego 0 l okv; Ok (PD r).
Proof. reflexivity. Qed.

Fixpoint enum (i : Z) (l : list mplain) : list (key * mplain) :=
  match l with [] => [] | v :: r => (KI i, v) :: enum (i + 1) r end.

Lemma m_ego_dgo : forall l i acc, m_ego i l acc = m_dgo (enum i l) acc.
Proof.
  induction l as [|v r IH]; intros i acc; cbn [m_ego enum m_dgo]; [reflexivity|].
  destruct (aget (KI i) acc); [destruct (upd_m p v); cbn [bind]; [apply IH|reflexivity]|apply IH].
Qed.

Definition mch (l : list (key * node)) : list (key * mplain) := map (fun kc => (fst kc, mp_of (snd kc))) l.

Lemma mch_enum : forall l i, keys_enum i l -> mch l = enum i (map (fun kc => mp_of (snd kc)) l).
Proof.
  induction l as [|[k c] r IH]; intros i H; cbn; [reflexivity|]. destruct H as [Hk H]. cbn in Hk. subst k. f_equal. now apply IH.
Qed.

(* ---------- the relation between the spec's result and the model's ---------- *)
Definition RelM (r : res plain) (m : res (node * who)) : Prop :=
  match r with
  | Ok pr => exists n w, m = Ok (n, w) /\ OldY n /\ erase n = pr /\ (w = Other -> NewR n /\ explicit_delete n = false)
  | Err _ _ => exists q, m = Err EMerge q
  end.

Lemma leaf_merge_m s o : OldY s -> NewT o -> RelM (Ok (erase o)) (Ok (leaf_merge s o)).
Proof.
  intros Hs Ho. unfold leaf_merge.
  rewrite hpo_OY; [|apply OldY_OY; exact Hs|apply MF_OY, NewT_MF; exact Ho].
  cbn [replace_other fst RelM]. do 2 eexists. split; [reflexivity|].
  pose proof (NewT_MF _ Ho) as HM. pose proof (MF_absorb _ (nflags s) HM) as HA.
  assert (Hq : NewR (with_flags o (absorb (nflags o) (nflags s)))).
  { apply NewR_with_flags; [apply NewT_NewR; exact Ho|apply MF_OY; exact HA|exact (proj1 (proj2 (proj2 HA)))]. }
  split; [apply NewR_oldy; exact Hq|]. split; [apply erase_with_flags|]. intros _. split; [exact Hq|].
  destruct HA as (_ & _ & _ & Hd). unfold explicit_delete.
  assert (E : nflags (with_flags o (absorb (nflags o) (nflags s))) = absorb (nflags o) (nflags s)) by (destruct o; reflexivity).
  rewrite E. destruct (f_del (absorb (nflags o) (nflags s))) as [[|]|]; [congruence|reflexivity|reflexivity].
Qed.

Lemma aset_append {V} k (v : V) : forall l, aget k l = None -> aset k v l = l ++ [(k, v)].
Proof.
  induction l as [|[k' v'] r IH]; cbn; intro H; [reflexivity|].
  destruct (key_eqb k k'); [discriminate|]. now rewrite IH.
Qed.

(* the loop over entries merged key-wise into a mapping (a mapping, or the elements of a !merge list, onto a mapping) *)
Lemma loop_dict_m rec p f x : forall cho chs,
  (forall k v c, In (k, v) cho -> OldY c -> RelM (upd_m (erase c) (mp_of v)) (rec (p ++ [k]) c v)) ->
  Forall (fun kc => NewT (snd kc)) cho ->
  OldY (Comp CDict f x chs) ->
  match m_dgo (mch cho) (ech chs) with
  | Ok r => exists chs', fold_left (merge_step rec [] p) cho (Ok (Comp CDict f x chs)) = Ok (Comp CDict f x chs')
                         /\ OldY (Comp CDict f x chs') /\ ech chs' = r
  | Err _ _ => exists q, fold_left (merge_step rec [] p) cho (Ok (Comp CDict f x chs)) = Err EMerge q
  end.
Proof.
  unfold ech, mch. induction cho as [|[k v] rest IH]; intros chs Hrec HP Hold.
  - cbn. exists chs. auto.
  - cbn [m_dgo map fold_left fst snd].
    inversion HP as [|? ? Hv HPr]; subst. cbn [snd] in Hv.
    assert (Hf : OY f) by (apply OldY_OY in Hold; exact Hold).
    assert (HF : Forall (fun kc => OldY (snd kc)) chs) by (apply OldY_children in Hold; exact Hold).
    assert (Hnd : NoDup (map fst chs)) by (apply OldY_nodup in Hold; exact Hold).
    assert (Hstep : forall n' m, OldY n' -> erase n' = m -> NoDup (map fst (aset k n' chs)) ->
               merge_step rec [] p (Ok (Comp CDict f x chs)) (k, v) = Ok (Comp CDict f x (aset k n' chs)) ->
               match m_dgo (map (fun kc => (fst kc, mp_of (snd kc))) rest) (aset k m (map (fun kc => (fst kc, erase (snd kc))) chs)) with
               | Ok r => exists chs', fold_left (merge_step rec [] p) rest (merge_step rec [] p (Ok (Comp CDict f x chs)) (k, v)) = Ok (Comp CDict f x chs')
                                      /\ OldY (Comp CDict f x chs') /\ map (fun kc => (fst kc, erase (snd kc))) chs' = r
               | Err _ _ => exists q, fold_left (merge_step rec [] p) rest (merge_step rec [] p (Ok (Comp CDict f x chs)) (k, v)) = Err EMerge q
               end).
    { intros n' m Hn' Hm Hnd' Heq. rewrite Heq. subst m.
      specialize (IH (aset k n' chs)). rewrite aset_map in IH. apply IH; [|exact HPr|].
      - intros k0 v0 c0 Hin. apply Hrec. right. exact Hin.
      - constructor; auto. apply aset_Forall; auto. }
    rewrite aget_map.
    destruct (aget k chs) as [c|] eqn:Eg; cbn [option_map].
    + assert (Hc : OldY c) by (eapply aget_Forall; eauto).
      assert (Hnd' : forall n', NoDup (map fst (aset k n' chs))) by (intro n'; now rewrite (aset_fst k n' c chs Eg)).
      specialize (Hrec k v c (or_introl eq_refl) Hc).
      destruct (upd_m (erase c) (mp_of v)) as [m|e q] eqn:Eu; cbn [bind RelM] in *.
      * destruct Hrec as (n & w & Er & Hn & En & Hw).
        assert (Hexp : explicit_delete v = false) by (apply NewT_explicit_delete; exact Hv).
        destruct w, (is_comp c) eqn:Eic.
        -- apply (Hstep n m Hn En (Hnd' n)).
           unfold merge_step. cbn [bind get_child is_listk]. rewrite Eg. cbn [path_in existsb]. rewrite Er. cbn [bind].
           rewrite Eic, Hexp, !andb_false_r. reflexivity.
        -- apply (Hstep n m Hn En (Hnd' n)).
           unfold merge_step. cbn [bind get_child is_listk]. rewrite Eg. cbn [path_in existsb]. rewrite Er. cbn [bind].
           rewrite Eic. reflexivity.
        -- apply (Hstep (adopt (child_kwargs (Comp CDict f x chs)) n) m); [apply adopt_oldy; auto|rewrite adopt_erase; exact En|apply Hnd'|].
           unfold merge_step. cbn [bind get_child is_listk]. rewrite Eg. cbn [path_in existsb]. rewrite Er. cbn [bind].
           rewrite Eic, Hexp, !andb_false_r. reflexivity.
        -- destruct (Hw eq_refl) as [Hnr Hexpn].
           apply (Hstep (adopt (child_kwargs (Comp CDict f x chs)) n) m); [apply adopt_oldy; auto|rewrite adopt_erase; exact En|apply Hnd'|].
           unfold merge_step. cbn [bind get_child is_listk]. rewrite Eg. cbn [path_in existsb]. rewrite Er. cbn [bind].
           rewrite Eic, (require_all_new_newr n _ _ _ Hnr), Hexpn, !andb_false_r. reflexivity.
      * destruct Hrec as (q' & Er). exists q'.
        unfold merge_step at 2. cbn [bind get_child is_listk]. rewrite Eg. cbn [path_in existsb]. rewrite Er. cbn [bind].
        apply fold_merge_step_err.
    + rewrite mforget_mp_of.
      apply (Hstep (adopt (child_kwargs (Comp CDict f x chs)) v) (erase v)).
      * apply adopt_oldy, NewT_oldy; exact Hv.
      * apply adopt_erase.
      * rewrite (aset_new_fst k _ chs Eg). apply NoDup_app_snoc; [exact Hnd|].
        intro Hin. apply in_map_iff in Hin. destruct Hin as ([k' c'] & Ek & Hin). cbn in Ek. subst k'.
        rewrite (In_aget k c' chs Hnd Hin) in Eg. discriminate.
      * unfold merge_step. cbn [bind get_child is_listk]. rewrite Eg.
        rewrite require_all_new_newr by (apply NewT_NewR; exact Hv). reflexivity.
Qed.

(* the loop over a mapping merged onto a list: every key addresses an existing element *)
Lemma loop_list_m rec p f x : forall cho chs,
  (forall k v c, In (k, v) cho -> OldY c -> RelM (upd_m (erase c) (mp_of v)) (rec (p ++ [k]) c v)) ->
  Forall (fun kc => NewT (snd kc)) cho ->
  OldY (Comp CList f x chs) ->
  mkeys_valid (zlen chs) (mch cho) = true ->
  match m_lgo (mch cho) (map (fun kc => erase (snd kc)) chs) with
  | Ok r => exists chs', fold_left (merge_step rec [] p) cho (Ok (Comp CList f x chs)) = Ok (Comp CList f x chs')
                         /\ OldY (Comp CList f x chs') /\ map (fun kc => erase (snd kc)) chs' = r
  | Err _ _ => exists q, fold_left (merge_step rec [] p) cho (Ok (Comp CList f x chs)) = Err EMerge q
  end.
Proof.
  unfold mch. induction cho as [|[k v] rest IH]; intros chs Hrec HP Hold Hkv.
  - cbn. exists chs. auto.
  - cbn [m_lgo map fold_left fst snd].
    inversion HP as [|? ? Hv HPr]; subst. cbn [snd] in Hv.
    assert (HF : Forall (fun kc => OldY (snd kc)) chs) by (apply OldY_children in Hold; exact Hold).
    assert (HK : keys_enum 0 chs) by (inversion Hold; auto).
    cbn [mkeys_valid forallb fst map] in Hkv. apply andb_true_iff in Hkv. destruct Hkv as [Hk Hrest].
    rewrite zlen_map.
    destruct (validate_index (zlen chs) k true) as [i| |] eqn:Ev; try discriminate. clear Hk.
    destruct (validate_strict _ _ _ Ev) as [Evn Hi].
    destruct (nth_error chs (Z.to_nat i)) as [[ki c]|] eqn:En.
    2:{ apply nth_error_None in En. unfold zlen in Hi. lia. }
    assert (Eg : aget (KI i) chs = Some c) by (apply (keys_enum_aget chs 0 i (ki, c)); auto; lia).
    assert (Hc : OldY c) by (eapply aget_Forall; eauto).
    rewrite nth_error_map', En. cbn [option_map snd].
    assert (Hstep : forall n' m, OldY n' -> erase n' = m ->
               merge_step rec [] p (Ok (Comp CList f x chs)) (k, v) = Ok (Comp CList f x (aset (KI i) n' chs)) ->
               match m_lgo (map (fun kc => (fst kc, mp_of (snd kc))) rest) (lset (Z.to_nat i) m (map (fun kc => erase (snd kc)) chs)) with
               | Ok r => exists chs', fold_left (merge_step rec [] p) rest (merge_step rec [] p (Ok (Comp CList f x chs)) (k, v)) = Ok (Comp CList f x chs')
                                      /\ OldY (Comp CList f x chs') /\ map (fun kc => erase (snd kc)) chs' = r
               | Err _ _ => exists q, fold_left (merge_step rec [] p) rest (merge_step rec [] p (Ok (Comp CList f x chs)) (k, v)) = Err EMerge q
               end).
    { intros n' m Hn' Hm Heq. rewrite Heq. subst m.
      destruct (keys_enum_aset chs 0 i n' HK Hi) as [Ea Hke]. cbn [Z.add] in Ea, Hke.
      specialize (IH (aset (KI i) n' chs)).
      assert (El : map (fun kc => erase (snd kc)) (aset (KI i) n' chs) = lset (Z.to_nat i) (erase n') (map (fun kc => erase (snd kc)) chs)).
      { rewrite Ea. rewrite lset_map. reflexivity. }
      rewrite El in IH. apply IH; [|exact HPr| |].
      - intros k0 v0 c0 Hin. apply Hrec. right. exact Hin.
      - inversion Hold; subst. constructor; auto. apply aset_Forall; auto.
      - assert (zlen (aset (KI i) n' chs) = zlen chs) as -> by (rewrite Ea; unfold zlen; now rewrite lset_length). exact Hrest. }
    specialize (Hrec k v c (or_introl eq_refl) Hc).
    destruct (upd_m (erase c) (mp_of v)) as [m|e q] eqn:Eu; cbn [bind RelM] in *.
    + destruct Hrec as (n & w & Er & Hn & En' & Hw).
      assert (Hexp : explicit_delete v = false) by (apply NewT_explicit_delete; exact Hv).
      destruct w, (is_comp c) eqn:Eic.
      * apply (Hstep n m Hn En').
        unfold merge_step. cbn [bind get_child is_listk]. rewrite Ev, Eg. cbn [path_in existsb]. rewrite Er. cbn [bind].
        rewrite Eic, Hexp, !andb_false_r. cbn [put_child is_listk]. rewrite Ev. reflexivity.
      * apply (Hstep n m Hn En').
        unfold merge_step. cbn [bind get_child is_listk]. rewrite Ev, Eg. cbn [path_in existsb]. rewrite Er. cbn [bind].
        rewrite Eic. cbn [put_child is_listk]. rewrite Ev. reflexivity.
      * apply (Hstep (adopt (child_kwargs (Comp CList f x chs)) n) m); [apply adopt_oldy; auto|rewrite adopt_erase; exact En'|].
        unfold merge_step. cbn [bind get_child is_listk]. rewrite Ev, Eg. cbn [path_in existsb]. rewrite Er. cbn [bind].
        rewrite Eic, Hexp, !andb_false_r. cbn [set_child is_listk]. rewrite Evn. reflexivity.
      * destruct (Hw eq_refl) as [Hnr Hexpn].
        apply (Hstep (adopt (child_kwargs (Comp CList f x chs)) n) m); [apply adopt_oldy; auto|rewrite adopt_erase; exact En'|].
        unfold merge_step. cbn [bind get_child is_listk]. rewrite Ev, Eg. cbn [path_in existsb]. rewrite Er. cbn [bind].
        rewrite Eic, (require_all_new_newr n _ _ _ Hnr), Hexpn, !andb_false_r. cbn [set_child is_listk]. rewrite Evn. reflexivity.
    + destruct Hrec as (q' & Er). exists q'.
      unfold merge_step at 2. cbn [bind get_child is_listk]. rewrite Ev, Eg. cbn [path_in existsb]. rewrite Er. cbn [bind].
      apply fold_merge_step_err.
Qed.

Lemma keys_enum_app : forall l i v, keys_enum i l -> keys_enum i (l ++ [(KI (i + zlen l), v)]).
Proof.
  induction l as [|[k c] r IH]; intros i v H.
  - cbn [app keys_enum fst]. split; [|exact I]. f_equal. unfold zlen. cbn [length]. lia.
  - cbn [app keys_enum]. destruct H as [Hk H]. split; [exact Hk|].
    assert (E : i + zlen ((k, c) :: r) = i + 1 + zlen r) by (unfold zlen; cbn [length]; lia).
    rewrite E. apply IH. exact H.
Qed.

Lemma keys_enum_aget_none : forall l i j, keys_enum i l -> i + zlen l <= j -> aget (KI j) l = None.
Proof.
  induction l as [|[k c] r IH]; intros i j H Hj; cbn; [reflexivity|].
  destruct H as [Hk H]. cbn in Hk. subst k. cbn [key_eqb].
  assert (E : (j =? i) = false) by (apply Z.eqb_neq; unfold zlen in Hj; cbn [length] in Hj; lia). rewrite E.
  apply (IH (i + 1)); [exact H|]. unfold zlen in *. cbn [length] in Hj. lia.
Qed.

(* the loop over the elements of a !merge list merged onto a list: position by position, the surplus is appended *)
Lemma loop_ilist_m rec p f x : forall cho chs (j : nat),
  (forall k v c, In (k, v) cho -> OldY c -> RelM (upd_m (erase c) (mp_of v)) (rec (p ++ [k]) c v)) ->
  Forall (fun kc => NewT (snd kc)) cho ->
  keys_enum (Z.of_nat j) cho ->
  OldY (Comp CList f x chs) ->
  match m_igo j (map (fun kc => mp_of (snd kc)) cho) (map (fun kc => erase (snd kc)) chs) with
  | Ok r => exists chs', fold_left (merge_step rec [] p) cho (Ok (Comp CList f x chs)) = Ok (Comp CList f x chs')
                         /\ OldY (Comp CList f x chs') /\ map (fun kc => erase (snd kc)) chs' = r
  | Err _ _ => exists q, fold_left (merge_step rec [] p) cho (Ok (Comp CList f x chs)) = Err EMerge q
  end.
Proof.
  induction cho as [|[k v] rest IH]; intros chs j Hrec HP HKo Hold.
  - cbn. exists chs. auto.
  - cbn [m_igo map fold_left fst snd].
    inversion HP as [|? ? Hv HPr]; subst. cbn [snd] in Hv.
    destruct HKo as [Hk HKr]. cbn in Hk. subst k.
    assert (HKr' : keys_enum (Z.of_nat (S j)) rest) by (replace (Z.of_nat (S j)) with (Z.of_nat j + 1) by lia; exact HKr).
    assert (Hf : OY f) by (apply OldY_OY in Hold; exact Hold).
    assert (HF : Forall (fun kc => OldY (snd kc)) chs) by (apply OldY_children in Hold; exact Hold).
    assert (HK : keys_enum 0 chs) by (inversion Hold; auto).
    assert (Hrec' : forall k v c, In (k, v) rest -> OldY c -> RelM (upd_m (erase c) (mp_of v)) (rec (p ++ [k]) c v)) by (intros; apply Hrec; [right|]; assumption).
    rewrite nth_error_map'.
    destruct (nth_error chs j) as [[ki c]|] eqn:En; cbn [option_map snd].
    + (* an existing position *)
      assert (Hj : 0 <= Z.of_nat j < zlen chs) by (split; [lia|]; unfold zlen; apply inj_lt; apply nth_error_Some; congruence).
      destruct (Override.validate_in_range _ _ Hj) as [Ev Evn].
      assert (Eg : aget (KI (Z.of_nat j)) chs = Some c).
      { pose proof (keys_enum_aget chs 0 (Z.of_nat j) (ki, c) HK ltac:(lia)) as G. rewrite Nat2Z.id in G. exact (G En). }
      assert (Hc : OldY c) by (eapply aget_Forall; eauto).
      assert (Hstep : forall n' m, OldY n' -> erase n' = m ->
                 merge_step rec [] p (Ok (Comp CList f x chs)) (KI (Z.of_nat j), v) = Ok (Comp CList f x (aset (KI (Z.of_nat j)) n' chs)) ->
                 match m_igo (S j) (map (fun kc => mp_of (snd kc)) rest) (lset j m (map (fun kc => erase (snd kc)) chs)) with
                 | Ok r => exists chs', fold_left (merge_step rec [] p) rest (merge_step rec [] p (Ok (Comp CList f x chs)) (KI (Z.of_nat j), v)) = Ok (Comp CList f x chs')
                                        /\ OldY (Comp CList f x chs') /\ map (fun kc => erase (snd kc)) chs' = r
                 | Err _ _ => exists q, fold_left (merge_step rec [] p) rest (merge_step rec [] p (Ok (Comp CList f x chs)) (KI (Z.of_nat j), v)) = Err EMerge q
                 end).
      { intros n' m Hn' Hm Heq. rewrite Heq. subst m.
        destruct (keys_enum_aset chs 0 (Z.of_nat j) n' HK Hj) as [Ea Hke]. cbn [Z.add] in Ea, Hke. rewrite Nat2Z.id in Ea.
        specialize (IH (aset (KI (Z.of_nat j)) n' chs) (S j) Hrec' HPr HKr').
        assert (El : map (fun kc => erase (snd kc)) (aset (KI (Z.of_nat j)) n' chs) = lset j (erase n') (map (fun kc => erase (snd kc)) chs)).
        { rewrite Ea. rewrite lset_map. reflexivity. }
        rewrite El in IH. apply IH. constructor; auto. apply aset_Forall; auto. }
      specialize (Hrec (KI (Z.of_nat j)) v c (or_introl eq_refl) Hc).
      destruct (upd_m (erase c) (mp_of v)) as [m|e q] eqn:Eu; cbn [bind RelM] in *.
      * destruct Hrec as (n & w & Er & Hn & En' & Hw).
        assert (Hexp : explicit_delete v = false) by (apply NewT_explicit_delete; exact Hv).
        destruct w, (is_comp c) eqn:Eic.
        -- apply (Hstep n m Hn En').
           unfold merge_step. cbn [bind get_child is_listk]. rewrite Ev, Eg. cbn [path_in existsb]. rewrite Er. cbn [bind].
           rewrite Eic, Hexp, !andb_false_r. cbn [put_child is_listk]. rewrite Ev. reflexivity.
        -- apply (Hstep n m Hn En').
           unfold merge_step. cbn [bind get_child is_listk]. rewrite Ev, Eg. cbn [path_in existsb]. rewrite Er. cbn [bind].
           rewrite Eic. cbn [put_child is_listk]. rewrite Ev. reflexivity.
        -- apply (Hstep (adopt (child_kwargs (Comp CList f x chs)) n) m); [apply adopt_oldy; auto|rewrite adopt_erase; exact En'|].
           unfold merge_step. cbn [bind get_child is_listk]. rewrite Ev, Eg. cbn [path_in existsb]. rewrite Er. cbn [bind].
           rewrite Eic, Hexp, !andb_false_r. cbn [set_child is_listk]. rewrite Evn. reflexivity.
        -- destruct (Hw eq_refl) as [Hnr Hexpn].
           apply (Hstep (adopt (child_kwargs (Comp CList f x chs)) n) m); [apply adopt_oldy; auto|rewrite adopt_erase; exact En'|].
           unfold merge_step. cbn [bind get_child is_listk]. rewrite Ev, Eg. cbn [path_in existsb]. rewrite Er. cbn [bind].
           rewrite Eic, (require_all_new_newr n _ _ _ Hnr), Hexpn, !andb_false_r. cbn [set_child is_listk]. rewrite Evn. reflexivity.
      * destruct Hrec as (q' & Er). exists q'.
        unfold merge_step at 2. cbn [bind get_child is_listk]. rewrite Ev, Eg. cbn [path_in existsb]. rewrite Er. cbn [bind].
        apply fold_merge_step_err.
    + (* beyond the end: appended *)
      apply nth_error_None in En.
      assert (Hlen : zlen chs <= Z.of_nat j) by (unfold zlen; lia).
      assert (Eget : get_child (Comp CList f x chs) (KI (Z.of_nat j)) = None).
      { cbn [get_child is_listk]. destruct (validate_index (zlen chs) (KI (Z.of_nat j)) true) as [i| |] eqn:Ev; try reflexivity.
        destruct (validate_strict _ _ _ Ev) as [_ Hi].
        unfold validate_index in Ev. cbn [andb] in Ev. destruct ((Z.abs (Z.of_nat j) >? zlen chs) || (Z.of_nat j =? zlen chs))%bool eqn:Eb; [discriminate|].
        apply orb_false_elim in Eb. destruct Eb as [E1 E2]. apply Z.eqb_neq in E2.
        assert (Z.abs (Z.of_nat j) <= zlen chs) by (destruct (Z.gtb_spec (Z.abs (Z.of_nat j)) (zlen chs)); [discriminate|lia]). lia. }
      assert (Eset : set_child (Comp CList f x chs) (KI (Z.of_nat j)) v =
                     Some (Comp CList f x (chs ++ [(KI (zlen chs), adopt (child_kwargs (Comp CList f x chs)) v)]))).
      { cbn [set_child is_listk]. unfold validate_index. cbn [andb].
        assert (E3 : (Z.of_nat j <? 0) = false) by (apply Z.ltb_ge; lia). rewrite E3.
        replace (Z.min (zlen chs) (Z.max 0 (Z.of_nat j))) with (zlen chs) by lia.
        rewrite aset_append; [reflexivity|]. apply (keys_enum_aget_none chs 0); [exact HK|lia]. }
      assert (Hold' : OldY (Comp CList f x (chs ++ [(KI (zlen chs), adopt (child_kwargs (Comp CList f x chs)) v)]))).
      { constructor; [exact Hf| |].
        - apply Forall_app. split; [exact HF|]. constructor; [|constructor]. cbn [snd]. apply adopt_oldy, NewT_oldy; exact Hv.
        - pose proof (keys_enum_app chs 0 (adopt (child_kwargs (Comp CList f x chs)) v) HK) as G. cbn [Z.add] in G. exact G. }
      specialize (IH (chs ++ [(KI (zlen chs), adopt (child_kwargs (Comp CList f x chs)) v)]) (S j) Hrec' HPr HKr' Hold').
      rewrite map_app in IH. cbn [map snd] in IH. rewrite adopt_erase in IH. rewrite mforget_mp_of.
      assert (Estep : merge_step rec [] p (Ok (Comp CList f x chs)) (KI (Z.of_nat j), v) =
                      Ok (Comp CList f x (chs ++ [(KI (zlen chs), adopt (child_kwargs (Comp CList f x chs)) v)]))).
      { unfold merge_step. cbn [bind]. rewrite Eget. rewrite require_all_new_newr by (apply NewT_NewR; exact Hv). now rewrite Eset. }
      rewrite Estep. exact IH.
Qed.

(* a replacing (deleting) list replaces whatever container was there *)
Lemma prune_rlist_m p ck cf cx chs fo xo cho :
  OldY (Comp ck cf cx chs) -> NewT (Comp CList fo xo cho) -> delete (Comp CList fo xo cho) = true ->
  snd (prune p (Comp ck cf cx chs) (Comp CList fo xo cho)) = Some (Ok (with_flags (Comp CList fo xo cho) (absorb fo cf), Other)).
Proof.
  intros Hs Hp Ed. set (o := Comp CList fo xo cho) in *.
  assert (Ho : OldY o) by (apply NewT_oldy; exact Hp).
  assert (Hq : NewR o) by (apply NewT_NewR; exact Hp).
  unfold prune. rewrite Ed.
  set (cond := fun (ap : path) (n : node) => has_priority_over n (first_not_missing o (skipn (length p) ap)) false).
  assert (Hc : forall q m, OldY m -> cond q m = false).
  { intros q m Hm. unfold cond. apply hpo_OY; [apply OldY_OY; exact Hm|]. apply OldY_OY, first_not_missing_oldy; exact Ho. }
  pose proof (filter_all_y cond Hc _ p Hs) as Ef.
  destruct (filter_nodes cond p (Comp ck cf cx chs)) as [s' removed]. cbn [fst snd clear_children] in Ef. subst s'.
  cbn [children andb].
  assert (Hs' : OldY (Comp ck cf cx [])) by (inversion Hs; subst; constructor; auto; cbn; auto; constructor).
  rewrite hpo_OY by (apply OldY_OY; assumption).
  rewrite (require_all_new_newr o _ _ _ Hq).
  cbn [snd]. unfold replace_other. unfold o. cbn [with_flags nflags maybe_promote].
  inversion Hs; subst; cbn [ckind_eqb subk is_funck is_listk is_plaink andb orb negb who_of]; reflexivity.
Qed.

Lemma mkeys_valid_mch len cho : dict_keys_ok len cho = mkeys_valid len (mch cho).
Proof. unfold dict_keys_ok, mkeys_valid, mch. induction cho as [|[k' v'] r IHr]; cbn; [reflexivity|]. now rewrite IHr. Qed.

Lemma merge_m : forall fuel p s o, OldY s -> NewT o -> (nsize o < fuel)%nat ->
  RelM (upd_m (erase s) (mp_of o)) (on_merge [] fuel p s o).
Proof.
  induction fuel as [|fu IH]; intros p s o Hs Hp Hlt; [lia|].
  cbn [on_merge].
  assert (Hq : NewR o) by (apply NewT_NewR; exact Hp).
  assert (Ho : OldY o) by (apply NewT_oldy; exact Hp).
  (* whatever meets a scalar, and a scalar meeting anything: the newer value *)
  assert (Hleaf : forall s0, OldY s0 -> (is_comp s0 = false \/ is_comp o = false) -> upd_m (erase s0) (mp_of o) = Ok (erase o)).
  { intros s0 Hs0 [E|E].
    - destruct s0; [|discriminate]. cbn [erase]. rewrite <- (mforget_mp_of o).
      destruct (mp_of o) as [v0|kv0|[|] l0]; reflexivity.
    - destruct o; [|discriminate]. reflexivity. }
  destruct s as [lk lf lv | ck cf cx chs].
  - cbn [dispatch]. rewrite (Hleaf _ Hs (or_introl eq_refl)). apply leaf_merge_m; auto.
  - inversion Hp as [fo v HN|fo xo cho HN Hd HF Hnd|fo xo cho HN Hd HF HK|fo xo cho HN Hd HF HK]; subst.
    + (* a scalar replaces the container *)
      rewrite (Hleaf _ Hs (or_intror eq_refl)).
      assert (E : dispatch (on_merge [] fu) [] p (Comp ck cf cx chs) (Leaf LScalar fo v) = Ok (leaf_merge (Comp ck cf cx chs) (Leaf LScalar fo v))).
      { inversion Hs; subst; reflexivity. }
      rewrite E. apply leaf_merge_m; auto.
    + (* a mapping: merged key-wise into a mapping, index-wise into a list *)
      rewrite nsize_comp in Hlt.
      set (o := Comp CDict fo xo cho) in *.
      assert (Hrec : forall k v c, In (k, v) cho -> OldY c -> RelM (upd_m (erase c) (mp_of v)) (on_merge [] fu (p ++ [k]) c v)).
      { intros k v c Hin Hc. rewrite Forall_forall in HF. apply IH; [exact Hc|apply (HF (k, v) Hin)|].
        assert (nsize v <= list_sum (map (fun kc => nsize (snd kc)) cho))%nat; [|lia].
        clear - Hin. unfold list_sum. induction cho as [|[k' v'] r IHr]; [contradiction|]. cbn [map fold_right snd fst]. destruct Hin as [E|Hin]; [inversion E; subst; lia|].
        specialize (IHr Hin). lia. }
      assert (Hfin : forall s2, OldY s2 -> (exists f2 x2 c2, s2 = Comp ck f2 x2 c2) ->
                 exists r, (let '(r, promoted) := if has_priority_over o s2 true then replace_self s2 o true else replace_other s2 o true in
                            Ok (r, who_of promoted Self Other)) = Ok (r, Self) /\ OldY r /\ erase r = erase s2).
      { intros s2 H2 (f2 & x2 & c2 & ->).
        rewrite hpo_OY by (apply OldY_OY; assumption).
        unfold replace_self. cbn [with_flags nflags].
        assert (Hb : OY (become f2 (nflags o))) by (apply OY_become; [apply (OldY_OY _ H2)|apply (OldY_OY _ Ho)]).
        assert (Hpm : maybe_promote (Comp ck (become f2 (nflags o)) x2 c2) o = (Comp ck (become f2 (nflags o)) x2 c2, false)).
        { unfold o. inversion H2; subst; reflexivity. }
        rewrite Hpm. cbn [fst snd who_of]. eexists. split; [reflexivity|]. split.
        - apply propagate_oldy. inversion H2; subst; constructor; auto.
        - rewrite propagate_erase, !erase_comp. reflexivity. }
      assert (Eo : mp_of o = MD (mch cho)) by (unfold o; rewrite mp_of_comp; reflexivity).
      rewrite Eo.
      inversion Hs as [|f0 x0 ch0 HOX HFch Hnd0|f0 x0 ch0 HOX HFch HK]; subst.
      * rewrite erase_comp. cbn [is_listk]. rewrite upd_m_MD_PD.
        cbn [dispatch is_funck is_listk]. unfold comp_merge. unfold o at 1.
        unfold prune. fold o. rewrite Hd.
        pose proof (loop_dict_m (on_merge [] fu) p cf cx cho chs Hrec HF Hs) as HL. unfold ech in HL.
        destruct (m_dgo (mch cho) (map (fun kc => (fst kc, erase (snd kc))) chs)) as [r|e q]; cbn [bind RelM].
        -- destruct HL as (chs' & EL & Hold' & Er). rewrite EL. cbn [bind].
           destruct (Hfin (Comp CDict cf cx chs') Hold') as (r' & E' & Hr' & Ee'); [do 3 eexists; reflexivity|].
           rewrite E'. do 2 eexists. split; [reflexivity|]. split; [exact Hr'|]. split; [|intro Hx; discriminate].
           rewrite Ee', erase_comp. cbn [is_listk]. now rewrite Er.
        -- destruct HL as (q' & EL). rewrite EL. cbn [bind]. exists q'. reflexivity.
      * rewrite erase_comp. cbn [is_listk]. rewrite upd_m_MD_PL, zlen_map.
        cbn [dispatch is_funck is_listk]. unfold list_merge. unfold o at 1. cbn [is_listk negb andb children].
        fold o. rewrite Hd. cbn [negb andb].
        rewrite mkeys_valid_mch. destruct (mkeys_valid (zlen chs) (mch cho)) eqn:Ekeys; cbn [negb].
        -- rewrite (filter_keep_y (keep_if_exists (Comp CList cf cx chs))); [|
             intros q m Hm; unfold keep_if_exists; rewrite hpo_OY; [apply orb_true_r|apply OldY_OY; exact Hm|apply OldY_OY, first_not_missing_oldy; exact Hs] | exact Ho].
           cbn [fst]. unfold comp_merge. unfold o at 1. unfold prune. fold o. rewrite Hd.
           pose proof (loop_list_m (on_merge [] fu) p cf cx cho chs Hrec HF Hs Ekeys) as HL.
           destruct (m_lgo (mch cho) (map (fun kc => erase (snd kc)) chs)) as [r|e q]; cbn [bind RelM].
           ++ destruct HL as (chs' & EL & Hold' & Er). rewrite EL. cbn [bind].
              destruct (Hfin (Comp CList cf cx chs') Hold') as (r' & E' & Hr' & Ee'); [do 3 eexists; reflexivity|].
              rewrite E'. do 2 eexists. split; [reflexivity|]. split; [exact Hr'|]. split; [|intro Hx; discriminate].
              rewrite Ee', erase_comp. cbn [is_listk]. now rewrite Er.
           ++ destruct HL as (q' & EL). rewrite EL. cbn [bind]. exists q'. reflexivity.
        -- cbn [RelM]. exists p. reflexivity.
    + (* a !merge list: combined position by position with a list, by integer keys with a mapping *)
      rewrite nsize_comp in Hlt.
      set (o := Comp CList fo xo cho) in *.
      assert (Hrec : forall k v c, In (k, v) cho -> OldY c -> RelM (upd_m (erase c) (mp_of v)) (on_merge [] fu (p ++ [k]) c v)).
      { intros k v c Hin Hc. rewrite Forall_forall in HF. apply IH; [exact Hc|apply (HF (k, v) Hin)|].
        assert (nsize v <= list_sum (map (fun kc => nsize (snd kc)) cho))%nat; [|lia].
        clear - Hin. unfold list_sum. induction cho as [|[k' v'] r IHr]; [contradiction|]. cbn [map fold_right snd fst]. destruct Hin as [E|Hin]; [inversion E; subst; lia|].
        specialize (IHr Hin). lia. }
      assert (Hfin : forall s2, OldY s2 -> (exists f2 x2 c2, s2 = Comp ck f2 x2 c2) ->
                 exists r, (let '(r, promoted) := if has_priority_over o s2 true then replace_self s2 o true else replace_other s2 o true in
                            Ok (r, who_of promoted Self Other)) = Ok (r, Self) /\ OldY r /\ erase r = erase s2).
      { intros s2 H2 (f2 & x2 & c2 & ->).
        rewrite hpo_OY by (apply OldY_OY; assumption).
        unfold replace_self. cbn [with_flags nflags].
        assert (Hb : OY (become f2 (nflags o))) by (apply OY_become; [apply (OldY_OY _ H2)|apply (OldY_OY _ Ho)]).
        assert (Hpm : maybe_promote (Comp ck (become f2 (nflags o)) x2 c2) o = (Comp ck (become f2 (nflags o)) x2 c2, false)).
        { unfold o. inversion H2; subst; reflexivity. }
        rewrite Hpm. cbn [fst snd who_of]. eexists. split; [reflexivity|]. split.
        - apply propagate_oldy. inversion H2; subst; constructor; auto.
        - rewrite propagate_erase, !erase_comp. reflexivity. }
      assert (Eo : mp_of o = ML true (map (fun kc => mp_of (snd kc)) cho)) by (unfold o; rewrite mp_of_comp; cbn [is_listk]; fold o; now rewrite Hd).
      rewrite Eo.
      inversion Hs as [|f0 x0 ch0 HOX HFch Hnd0|f0 x0 ch0 HOX HFch HK0]; subst.
      * (* onto a mapping *)
        rewrite erase_comp. cbn [is_listk]. rewrite upd_m_ML_PD, m_ego_dgo, <- (mch_enum cho 0 HK).
        cbn [dispatch is_funck is_listk]. unfold comp_merge. unfold o at 1.
        unfold prune. fold o. rewrite Hd.
        pose proof (loop_dict_m (on_merge [] fu) p cf cx cho chs Hrec HF Hs) as HL. unfold ech in HL.
        destruct (m_dgo (mch cho) (map (fun kc => (fst kc, erase (snd kc))) chs)) as [r|e q]; cbn [bind RelM].
        -- destruct HL as (chs' & EL & Hold' & Er). rewrite EL. cbn [bind].
           destruct (Hfin (Comp CDict cf cx chs') Hold') as (r' & E' & Hr' & Ee'); [do 3 eexists; reflexivity|].
           rewrite E'. do 2 eexists. split; [reflexivity|]. split; [exact Hr'|]. split; [|intro Hx; discriminate].
           rewrite Ee', erase_comp. cbn [is_listk]. now rewrite Er.
        -- destruct HL as (q' & EL). rewrite EL. cbn [bind]. exists q'. reflexivity.
      * (* onto a list *)
        rewrite erase_comp. cbn [is_listk]. rewrite upd_m_ML_PL.
        cbn [dispatch is_funck is_listk]. unfold list_merge. unfold o at 1. cbn [is_listk negb andb].
        fold o.
        rewrite (filter_keep_y (keep_if_exists (Comp CList cf cx chs))); [|
          intros q m Hm; unfold keep_if_exists; rewrite hpo_OY; [apply orb_true_r|apply OldY_OY; exact Hm|apply OldY_OY, first_not_missing_oldy; exact Hs] | exact Ho].
        cbn [fst]. unfold comp_merge. unfold o at 1. unfold prune. fold o. rewrite Hd.
        pose proof (loop_ilist_m (on_merge [] fu) p cf cx cho chs O Hrec HF HK Hs) as HL.
        destruct (m_igo 0 (map (fun kc => mp_of (snd kc)) cho) (map (fun kc => erase (snd kc)) chs)) as [r|e q]; cbn [bind RelM].
        -- destruct HL as (chs' & EL & Hold' & Er). rewrite EL. cbn [bind].
           destruct (Hfin (Comp CList cf cx chs') Hold') as (r' & E' & Hr' & Ee'); [do 3 eexists; reflexivity|].
           rewrite E'. do 2 eexists. split; [reflexivity|]. split; [exact Hr'|]. split; [|intro Hx; discriminate].
           rewrite Ee', erase_comp. cbn [is_listk]. now rewrite Er.
        -- destruct HL as (q' & EL). rewrite EL. cbn [bind]. exists q'. reflexivity.
    + (* a replacing list *)
      pose proof (prune_rlist_m p ck cf cx chs fo xo cho Hs Hp Hd) as Epr.
      set (o := Comp CList fo xo cho) in *.
      assert (Eo : upd_m (erase (Comp ck cf cx chs)) (mp_of o) = Ok (erase o)).
      { rewrite <- (mforget_mp_of o). unfold o at 1 2. rewrite mp_of_comp. cbn [is_listk]. fold o. rewrite Hd. reflexivity. }
      rewrite Eo.
      assert (Ecm : comp_merge (on_merge [] fu) [] p (Comp ck cf cx chs) o = Ok (with_flags o (absorb fo cf), Other)).
      { unfold comp_merge. unfold o at 1. fold o.
        destruct (prune p (Comp ck cf cx chs) o) as [s1 r1]. cbn [snd] in Epr. subst r1. reflexivity. }
      assert (E : dispatch (on_merge [] fu) [] p (Comp ck cf cx chs) o = Ok (with_flags o (absorb fo cf), Other)).
      { inversion Hs; subst; cbn [dispatch is_funck is_listk]; [exact Ecm|].
        unfold list_merge. unfold o at 1. cbn [is_listk negb andb]. fold o.
        rewrite (filter_keep_y (keep_if_exists (Comp CList cf cx chs))); [exact Ecm| |exact Ho].
        intros q m Hm. unfold keep_if_exists. rewrite hpo_OY; [apply orb_true_r|apply OldY_OY; exact Hm|].
        apply OldY_OY, first_not_missing_oldy; exact Hs. }
      rewrite E. cbn [RelM].
      pose proof (MF_absorb _ cf HN) as HA.
      assert (Hq' : NewR (with_flags o (absorb fo cf))) by (apply NewR_with_flags; [exact Hq|apply MF_OY; exact HA|exact (proj1 (proj2 (proj2 HA)))]).
      do 2 eexists. split; [reflexivity|]. split; [apply NewR_oldy; exact Hq'|]. split; [apply erase_with_flags|].
      intros _. split; [exact Hq'|]. destruct HA as (_ & _ & _ & Hdd). unfold explicit_delete. unfold o. cbn [with_flags nflags].
      destruct (f_del (absorb fo cf)) as [[|]|]; [congruence|reflexivity|reflexivity].
Qed.

(* ---------- whole stages ---------- *)
Lemma OldY_PlainT : forall n, OldY n -> EvalPlain.PlainT n.
Proof.
  induction n as [k f v|k f x ch IH] using node_ind'; intro H.
  - inversion H; subst. constructor.
  - assert (HF : Forall (fun kc => EvalPlain.PlainT (snd kc)) ch).
    { pose proof (OldY_children _ H) as HC. cbn in HC. clear H. induction IH as [|kc r Hkc Hr IHr]; [constructor|].
      inversion HC; subst. constructor; auto. }
    pose proof (OldY_nodup _ H) as Hnd. cbn in Hnd.
    inversion H; subst; constructor; auto.
Qed.

Lemma merge2_m e root o : OldY root -> NewT o ->
  match upd_m (erase root) (mp_of o) with
  | Ok r => exists n, merge2 e root o = Ok n /\ OldY n /\ erase n = r
  | Err _ _ => exists q, merge2 e root o = Err EMerge q
  end.
Proof.
  intros Hr Hp. unfold merge2.
  rewrite (LoaderLemmas.premerge_plainT e o [] (Some root) (OldY_PlainT _ (NewT_oldy _ Hp))). cbn [bind].
  pose proof (merge_m (nsize root + nsize o + 1) [] root o Hr Hp ltac:(lia)) as HM.
  destruct (upd_m (erase root) (mp_of o)) as [r|e' q]; cbn [RelM] in HM.
  - destruct HM as (n & w & E & Hn & En & _). rewrite E. cbn [bind fst]. eauto.
  - destruct HM as (q' & E). rewrite E. cbn [bind]. eauto.
Qed.

Lemma OldY_dict_of_erase n l : OldY n -> erase n = PD l -> is_dictk n = true.
Proof. intros H E. inversion H; subst; [discriminate|reflexivity|]. rewrite erase_comp in E. discriminate. Qed.

Lemma is_dictk_erase_y n : OldY n -> is_dictk n = true -> exists l, erase n = PD l.
Proof. intros H E. inversion H; subst; try discriminate. rewrite erase_comp. cbn [is_listk]. eauto. Qed.

Lemma mfold_err l ek q : fold_left (fun acc (o : node) => do a <- acc; upd_m a (mp_of o)) l (Err ek q) = Err ek q.
Proof. induction l; cbn; auto. Qed.

Lemma fold_merge2_m e : forall sts root, OldY root -> is_dictk root = true -> Forall (fun o => NewT o /\ is_dictk o = true) sts ->
  match fold_left (fun acc o => do a <- acc; upd_m a (mp_of o)) sts (Ok (erase root)) with
  | Ok r => exists n, fold_left (fun acc st => do root <- acc; merge2 e root st) sts (Ok root) = Ok n /\ erase n = r
  | Err _ _ => exists q, fold_left (fun acc st => do root <- acc; merge2 e root st) sts (Ok root) = Err EMerge q
  end.
Proof.
  induction sts as [|o sts IH]; intros root Hr Hd HF; cbn [fold_left bind].
  - eauto.
  - inversion HF as [|? ? [Hp Hod] HF']; subst.
    destruct (is_dictk_erase_y _ Hr Hd) as (okv & Eok).
    pose proof (merge2_m e root o Hr Hp) as HM.
    assert (Emp : exists kv, mp_of o = MD kv).
    { destruct o as [|k f x ch]; [discriminate|]. rewrite mp_of_comp. cbn in Hod. destruct (is_listk k); [discriminate|eauto]. }
    destruct Emp as (kv & Ekv).
    destruct (upd_m (erase root) (mp_of o)) as [r|e' q] eqn:Eu.
    + destruct HM as (n & E & Hn & En). rewrite E. subst r. apply IH; [exact Hn| |exact HF'].
      rewrite Eok, Ekv, upd_m_MD_PD in Eu. destruct (m_dgo kv okv); cbn in Eu; [|discriminate]. inversion Eu as [Er].
      eapply OldY_dict_of_erase; eauto.
    + destruct HM as (q' & E). rewrite E, fold_merge2_err, mfold_err. eauto.
Qed.

(* any number of mapping documents whose only merge-control marks are !merge (any safety marks / metadata) *)
Theorem flatten_m e s0 sts : NewT s0 -> is_dictk s0 = true -> Forall (fun o => NewT o /\ is_dictk o = true) sts ->
  match fold_left (fun acc o => do a <- acc; upd_m a (mp_of o)) sts (Ok (erase s0)) with
  | Ok r => exists n, flatten e (s0 :: sts) = Ok n /\ erase n = r
  | Err _ _ => exists q, flatten e (s0 :: sts) = Err EMerge q
  end.
Proof.
  intros Hp Hd HF.
  assert (E : forallb is_dictk (s0 :: sts) = true).
  { cbn [forallb]. rewrite Hd. cbn [andb]. clear - HF. induction HF as [|st sts [_ Hst] HF' IH]; cbn; [reflexivity|]. now rewrite Hst, IH. }
  assert (EF : flatten e (s0 :: sts) = fold_left (fun acc st => do root <- acc; merge2 e root st) sts (Ok s0)).
  { unfold flatten. rewrite E. rewrite (LoaderLemmas.premerge_plainT e s0 [] None (OldY_PlainT _ (NewT_oldy _ Hp))). cbn [bind].
    rewrite require_all_new_newr by (apply NewT_NewR; exact Hp). reflexivity. }
  rewrite EF. apply fold_merge2_m; auto. apply NewT_oldy; exact Hp.
Qed.

(* ---------- the class NewT is decidable: a checker, sound by construction ---------- *)
Definition oy_b (f : flags) : bool := match f_prio f, f_new f with None, None => true | _, _ => false end.
Definition inew_none_b (f : flags) : bool := match f_inew f with None => true | Some _ => false end.
Definition mf_b (f : flags) : bool := (oy_b f && inew_none_b f && negb (ob_eqb (f_del f) (Some true)))%bool.

Fixpoint keys_enum_b (i : Z) (l : list (key * node)) : bool :=
  match l with [] => true | (k, _) :: r => (key_eqb k (KI i) && keys_enum_b (i + 1) r)%bool end.
Fixpoint nodup_b (l : list key) : bool :=
  match l with [] => true | k :: r => (negb (existsb (key_eqb k) r) && nodup_b r)%bool end.

Fixpoint newr_b (n : node) : bool :=
  match n with
  | Leaf LScalar f _ => (oy_b f && inew_none_b f)%bool
  | Comp CDict f _ ch => (oy_b f && inew_none_b f && nodup_b (map fst ch) && (fix go (l : list (key * node)) := match l with [] => true | (_, c) :: r => (newr_b c && go r)%bool end) ch)%bool
  | Comp CList f _ ch => (oy_b f && inew_none_b f && keys_enum_b 0 ch && (fix go (l : list (key * node)) := match l with [] => true | (_, c) :: r => (newr_b c && go r)%bool end) ch)%bool
  | _ => false
  end.

Fixpoint newt_b (n : node) : bool :=
  match n with
  | Leaf LScalar f _ => mf_b f
  | Comp CDict f _ ch => (mf_b f && negb (delete n) && nodup_b (map fst ch) && (fix go (l : list (key * node)) := match l with [] => true | (_, c) :: r => (newt_b c && go r)%bool end) ch)%bool
  | Comp CList f _ ch =>
    (mf_b f && keys_enum_b 0 ch &&
     if delete n then (fix go (l : list (key * node)) := match l with [] => true | (_, c) :: r => (newr_b c && go r)%bool end) ch
     else (fix go (l : list (key * node)) := match l with [] => true | (_, c) :: r => (newt_b c && go r)%bool end) ch)%bool
  | _ => false
  end.

Lemma oy_b_ok f : oy_b f = true -> OY f.
Proof. unfold oy_b, OY. destruct (f_prio f), (f_new f); try discriminate. auto. Qed.
Lemma inew_b_ok f : inew_none_b f = true -> f_inew f = None.
Proof. unfold inew_none_b. destruct (f_inew f); [discriminate|auto]. Qed.
Lemma mf_b_ok f : mf_b f = true -> MF f.
Proof.
  unfold mf_b. intro H. apply andb_true_iff in H. destruct H as [H H3]. apply andb_true_iff in H. destruct H as [H1 H2].
  destruct (oy_b_ok _ H1) as [a b]. repeat split; auto; [apply inew_b_ok; exact H2|].
  intro E. rewrite E in H3. discriminate.
Qed.
Lemma keys_enum_b_ok : forall l i, keys_enum_b i l = true -> keys_enum i l.
Proof.
  induction l as [|[k c] r IH]; intros i H; cbn in *; [exact I|]. apply andb_true_iff in H. destruct H as [H1 H2].
  split; [now apply key_eqb_eq|auto].
Qed.
Lemma nodup_b_ok : forall l, nodup_b l = true -> NoDup l.
Proof.
  induction l as [|k r IH]; intro H; cbn in *; [constructor|]. apply andb_true_iff in H. destruct H as [H1 H2].
  constructor; [|auto]. intro Hin. apply negb_true_iff in H1. assert (existsb (key_eqb k) r = true); [|congruence].
  apply existsb_exists. exists k. split; [exact Hin|apply key_eqb_refl].
Qed.

Lemma newr_b_ok : forall n, newr_b n = true -> NewR n.
Proof.
  induction n as [k f v|k f x ch IH] using node_ind'; intro H.
  - destruct k; try discriminate. cbn in H. apply andb_true_iff in H. destruct H as [H1 H2]. constructor; [now apply oy_b_ok|now apply inew_b_ok].
  - assert (G : (fix go (l : list (key * node)) := match l with [] => true | (_, c) :: r => (newr_b c && go r)%bool end) ch = true ->
                Forall (fun kc => NewR (snd kc)) ch).
    { clear H. induction IH as [|[kk c] r Hkc Hr IHr]; intro HG; [constructor|]. apply andb_true_iff in HG. destruct HG as [A B]. constructor; auto. }
    destruct k; try discriminate; cbn [newr_b] in H;
      apply andb_true_iff in H; destruct H as [H H4]; apply andb_true_iff in H; destruct H as [H H3]; apply andb_true_iff in H; destruct H as [H1 H2].
    + constructor; auto using oy_b_ok, inew_b_ok, nodup_b_ok.
    + constructor; auto using oy_b_ok, inew_b_ok, keys_enum_b_ok.
Qed.

Lemma newt_b_ok : forall n, newt_b n = true -> NewT n.
Proof.
  induction n as [k f v|k f x ch IH] using node_ind'; intro H.
  - destruct k; try discriminate. cbn in H. constructor. now apply mf_b_ok.
  - assert (G : (fix go (l : list (key * node)) := match l with [] => true | (_, c) :: r => (newt_b c && go r)%bool end) ch = true ->
                Forall (fun kc => NewT (snd kc)) ch).
    { clear H. induction IH as [|[kk c] r Hkc Hr IHr]; intro HG; [constructor|]. apply andb_true_iff in HG. destruct HG as [A B]. constructor; auto. }
    assert (G2 : (fix go (l : list (key * node)) := match l with [] => true | (_, c) :: r => (newr_b c && go r)%bool end) ch = true ->
                 Forall (fun kc => NewR (snd kc)) ch).
    { clear. induction ch as [|[kk c] r IHr]; intro HG; [constructor|]. apply andb_true_iff in HG. destruct HG as [A B]. constructor; [apply newr_b_ok; exact A|auto]. }
    destruct k; try discriminate; cbn [newt_b] in H.
    + apply andb_true_iff in H. destruct H as [H H4]. apply andb_true_iff in H. destruct H as [H H3]. apply andb_true_iff in H. destruct H as [H1 H2].
      apply negb_true_iff in H2.
      constructor; auto using mf_b_ok, nodup_b_ok.
    + apply andb_true_iff in H. destruct H as [H H3]. apply andb_true_iff in H. destruct H as [H1 H2].
      destruct (delete (Comp CList f x ch)) eqn:Ed.
      * apply NT_rlist; auto using mf_b_ok, keys_enum_b_ok.
      * apply NT_mlist; auto using mf_b_ok, keys_enum_b_ok.
Qed.

(* ---------- what !merge does to two lists, stated on the spec ---------- *)
(* ---------- without !merge marks the decorated update is the plain update of C02 ---------- *)
Section MInd.
  Variable P : mplain -> Prop.
  Hypothesis Hs : forall v, P (MS v).
  Hypothesis Hd : forall l, Forall (fun kc => P (snd kc)) l -> P (MD l).
  Hypothesis Hl : forall b l, Forall P l -> P (ML b l).
  Fixpoint mplain_ind' (p : mplain) : P p :=
    match p with
    | MS v => Hs v
    | MD l => Hd l ((fix go (l : list (key * mplain)) : Forall (fun kc => P (snd kc)) l :=
                       match l with [] => Forall_nil _ | kc :: r => Forall_cons kc (mplain_ind' (snd kc)) (go r) end) l)
    | ML b l => Hl b l ((fix go (l : list mplain) : Forall P l :=
                       match l with [] => Forall_nil _ | c :: r => Forall_cons c (mplain_ind' c) (go r) end) l)
    end.
End MInd.

(* no list is in merge mode *)
Fixpoint no_merge (m : mplain) : bool :=
  match m with
  | MS _ => true
  | MD l => (fix go (l : list (key * mplain)) := match l with [] => true | (_, c) :: r => (no_merge c && go r)%bool end) l
  | ML b _ => negb b
  end.

Lemma no_merge_MD l : no_merge (MD l) = forallb (fun kc => no_merge (snd kc)) l.
Proof. cbn [no_merge]. induction l as [|[k c] r IH]; cbn; [reflexivity|]. now rewrite IH. Qed.

(* without !merge marks the decorated update IS the plain update of C02 *)
Theorem upd_m_plain : forall m a, no_merge m = true -> upd_m a m = upd a (mforget m).
Proof.
  induction m as [v|kv IH|b l IH] using mplain_ind'; intros a Hn.
  - destruct a; reflexivity.
  - rewrite no_merge_MD in Hn. rewrite mforget_MD.
    destruct a as [s|okv|ol].
    + cbn [upd_m upd]. now rewrite mforget_MD.
    + rewrite upd_m_MD_PD, upd_PD_PD.
      assert (L : forall acc, m_dgo kv acc = upd_dgo (map (fun kc => (fst kc, mforget (snd kc))) kv) acc).
      { induction IH as [|[k v] rest Hv Hrest IHrest]; intro acc; cbn [m_dgo upd_dgo map fst snd]; [reflexivity|].
        cbn [forallb snd] in Hn. apply andb_true_iff in Hn. destruct Hn as [Hv1 Hn'].
        destruct (aget k acc) as [ov|]; [|now apply IHrest].
        cbn in Hv. rewrite (Hv ov Hv1). destruct (upd ov (mforget v)); cbn [bind]; [now apply IHrest|reflexivity]. }
      now rewrite L.
    + rewrite upd_m_MD_PL, upd_PL_PD.
      assert (Ek : mkeys_valid (zlen ol) kv = keys_valid (zlen ol) (map (fun kc => (fst kc, mforget (snd kc))) kv)).
      { unfold mkeys_valid, keys_valid. clear. induction kv as [|[k v] r IHr]; cbn; [reflexivity|]. now rewrite IHr. }
      rewrite Ek. destruct (keys_valid _ _); [|reflexivity].
      assert (L : forall acc, m_lgo kv acc = upd_lgo (map (fun kc => (fst kc, mforget (snd kc))) kv) acc).
      { clear Ek. induction IH as [|[k v] rest Hv Hrest IHrest]; intro acc; cbn [m_lgo upd_lgo map fst snd]; [reflexivity|].
        cbn [forallb snd] in Hn. apply andb_true_iff in Hn. destruct Hn as [Hv1 Hn'].
        destruct (validate_index (zlen acc) k true); try reflexivity.
        destruct (nth_error acc (Z.to_nat i)) as [ov|]; [|reflexivity].
        cbn in Hv. rewrite (Hv ov Hv1). destruct (upd ov (mforget v)); cbn [bind]; [now apply IHrest|reflexivity]. }
      now rewrite L.
  - cbn [no_merge] in Hn. apply negb_true_iff in Hn. subst b. rewrite mforget_ML. cbn [upd_m]. rewrite upd_other by (left; exact I).
    now rewrite mforget_ML.
Qed.


Local Open Scope nat_scope.
Lemma m_igo_elementwise : forall l i acc r, i <= length acc -> m_igo i l acc = Ok r ->
  length r = Nat.max (length acc) (i + length l) /\
  (forall j, j < i -> nth_error r j = nth_error acc j) /\
  (forall j v, nth_error l j = Some v ->
     match nth_error acc (i + j) with
     | Some ov => exists m, upd_m ov v = Ok m /\ nth_error r (i + j) = Some m
     | None => nth_error r (i + j) = Some (mforget v)
     end) /\
  (forall j, i + length l <= j -> nth_error r j = nth_error acc j).
Proof.
  induction l as [|v rest IH]; intros i acc r Hi H; cbn [m_igo] in H.
  - inversion H; subst. cbn [length]. repeat split; auto; [lia|]. intros j v E. destruct j; discriminate.
  - destruct (nth_error acc i) as [ov|] eqn:En.
    + destruct (upd_m ov v) as [m|e q] eqn:Eu; cbn [bind] in H; [|discriminate].
      assert (Hlt : i < length acc) by (apply nth_error_Some; congruence).
      destruct (IH (S i) (lset i m acc) r ltac:(rewrite lset_length; lia) H) as (L & A & B & C). rewrite lset_length in L.
      cbn [length]. split; [lia|]. split; [|split].
      * intros j Hj. rewrite (A j ltac:(lia)), nth_error_lset. assert (E : Nat.eqb i j = false) by (apply Nat.eqb_neq; lia). now rewrite E.
      * intros [|j] v0 E; cbn in E.
        -- inversion E; subst v0. rewrite Nat.add_0_r, En. exists m. split; [exact Eu|].
           rewrite (A i ltac:(lia)), nth_error_lset, Nat.eqb_refl, En. reflexivity.
        -- specialize (B j v0 E). replace (S i + j) with (i + S j) in B by lia.
           rewrite nth_error_lset in B. assert (E2 : Nat.eqb i (i + S j) = false) by (apply Nat.eqb_neq; lia). rewrite E2 in B. exact B.
      * intros j Hj. rewrite (C j ltac:(lia)), nth_error_lset. assert (E : Nat.eqb i j = false) by (apply Nat.eqb_neq; lia). now rewrite E.
    + apply nth_error_None in En. assert (Ei : i = length acc) by lia.
      destruct (IH (S i) (acc ++ [mforget v]) r ltac:(rewrite app_length; cbn; lia) H) as (L & A & B & C). rewrite app_length in L. cbn [length] in L.
      cbn [length]. split; [lia|]. split; [|split].
      * intros j Hj. rewrite (A j ltac:(lia)). apply nth_error_app1. lia.
      * intros [|j] v0 E; cbn in E.
        -- inversion E; subst v0. rewrite Nat.add_0_r. assert (En' : nth_error acc i = None) by (apply nth_error_None; lia). rewrite En'.
           rewrite (A i ltac:(lia)), nth_error_app2 by lia. replace (i - length acc) with 0 by lia. reflexivity.
        -- specialize (B j v0 E). replace (S i + j) with (i + S j) in B by lia.
           assert (En' : nth_error acc (i + S j) = None) by (apply nth_error_None; lia). rewrite En'.
           assert (En2 : nth_error (acc ++ [mforget v]) (i + S j) = None) by (apply nth_error_None; rewrite app_length; cbn; lia). rewrite En2 in B. exact B.
      * intros j Hj. rewrite (C j ltac:(lia)). assert (nth_error (acc ++ [mforget v]) j = None) as -> by (apply nth_error_None; rewrite app_length; cbn; lia).
        symmetry. apply nth_error_None. lia.
Qed.

Theorem merge_list_elementwise ol l r : upd_m (PL ol) (ML true l) = Ok (PL r) ->
  length r = Nat.max (length ol) (length l) /\
  (forall j v, nth_error l j = Some v ->
     match nth_error ol j with
     | Some ov => exists m, upd_m ov v = Ok m /\ nth_error r j = Some m
     | None => nth_error r j = Some (mforget v)
     end) /\
  (forall j, length l <= j -> nth_error r j = nth_error ol j).
Proof.
  rewrite upd_m_ML_PL. destruct (m_igo 0 l ol) as [r'|e q] eqn:E; cbn [bind]; [|discriminate]. intro H. inversion H; subst r'.
  destruct (m_igo_elementwise l 0 ol r ltac:(lia) E) as (L & _ & B & C). cbn [Nat.add] in *. auto.
Qed.
