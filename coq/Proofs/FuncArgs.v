(* Proofs/FuncArgs.v — how a function node's argument mapping reaches the target (C13). *)
From AY Require Import Model.Func Proofs.NodeInd.

Fixpoint enum_from (i : Z) (vs : list value) : list (key * value) :=
  match vs with [] => [] | v :: r => (KI i, v) :: enum_from (i + 1) r end.

Lemma aget_enum_head {V} i (v : V) r : aget (KI i) ((KI i, v) :: r) = Some v.
Proof. cbn. now rewrite Z.eqb_refl. Qed.

(* the consecutive run 0..n-1 is taken positionally, whatever follows it *)
Lemma take_consecutive_enum : forall vs i n rest, (length vs <= n)%nat ->
  aget (KI (i + Z.of_nat (length vs))) rest = None ->
  (forall j, i <= j < i + Z.of_nat (length vs) -> aget (KI j) rest = None) ->
  take_consecutive i n (enum_from i vs ++ rest) = (vs, rest) \/ (n = length vs /\ take_consecutive i n (enum_from i vs ++ rest) = (vs, rest)).
Proof.
  induction vs as [|v vs IH]; intros i n rest Hn Hnext Hnone.
  - left. cbn [enum_from app length] in *. replace (i + Z.of_nat 0) with i in Hnext by lia.
    destruct n; [reflexivity|]. cbn [take_consecutive]. now rewrite Hnext.
  - destruct n as [|n]; [cbn in Hn; lia|]. cbn [enum_from app take_consecutive].
    rewrite aget_enum_head. cbn [adel key_eqb]. rewrite Z.eqb_refl.
    assert (Hn' : (length vs <= n)%nat) by (cbn in Hn; lia).
    assert (Hnext' : aget (KI (i + 1 + Z.of_nat (length vs))) rest = None).
    { replace (i + 1 + Z.of_nat (length vs)) with (i + Z.of_nat (length (v :: vs))) by (cbn [length]; lia). exact Hnext. }
    assert (Hnone' : forall j, i + 1 <= j < i + 1 + Z.of_nat (length vs) -> aget (KI j) rest = None).
    { intros j Hj. apply Hnone. cbn [length]. lia. }
    destruct (IH (i + 1) n rest Hn' Hnext' Hnone') as [E|[_ E]]; rewrite E; left; reflexivity.
Qed.

Lemma take_consecutive_enum' vs n rest : (length vs <= n)%nat ->
  aget (KI (Z.of_nat (length vs))) rest = None ->
  (forall j, 0 <= j < Z.of_nat (length vs) -> aget (KI j) rest = None) ->
  take_consecutive 0 n (enum_from 0 vs ++ rest) = (vs, rest).
Proof.
  intros Hn H1 H2. destruct (take_consecutive_enum vs 0 n rest Hn H1 H2) as [E|[_ E]]; exact E.
Qed.

(* list arguments are positions 0..n-1 (a scalar argument is the one-element case) *)
Theorem list_args_positional names vs : vs <> [] -> resolve_args names (enum_from 0 vs) = Some (vs, []).
Proof.
  intro Hne. unfold resolve_args.
  assert (E0 : forallb (fun kv : key * value => match fst kv with KI _ => false | KS _ => true end) (enum_from 0 vs) = false)
    by (destruct vs; [congruence|reflexivity]).
  rewrite E0.
  assert (Ht : take_consecutive 0 (length (enum_from 0 vs)) (enum_from 0 vs) = (vs, [])).
  { rewrite <- (app_nil_r (enum_from 0 vs)) at 2. apply take_consecutive_enum'; [|reflexivity|reflexivity].
    clear. generalize 0. induction vs; intro i; cbn; [lia|]. specialize (IHvs (i + 1)). lia. }
  rewrite Ht. reflexivity.
Qed.

(* keyword-only arguments are passed through untouched *)
Theorem keyword_args_untouched names args :
  forallb (fun kv : key * value => match fst kv with KI _ => false | KS _ => true end) args = true ->
  resolve_args names args = Some ([], args).
Proof. intro H. unfold resolve_args. now rewrite H. Qed.

(* a gap in the positions: the argument after the gap is bound by the NAME of the positional parameter at that index ... *)
Theorem gap_bound_by_name names vs j w nm :
  Z.of_nat (length vs) < j -> nth_error names (Z.to_nat j) = Some nm ->
  resolve_args names (enum_from 0 vs ++ [(KI j, w)]) = Some (vs, [(KS nm, w)]).
Proof.
  intros Hj Hn. unfold resolve_args.
  assert (E0 : forallb (fun kv : key * value => match fst kv with KI _ => false | KS _ => true end) (enum_from 0 vs ++ [(KI j, w)]) = false).
  { rewrite forallb_app. cbn. apply andb_false_r. }
  rewrite E0.
  assert (Ht : take_consecutive 0 (length (enum_from 0 vs ++ [(KI j, w)])) (enum_from 0 vs ++ [(KI j, w)]) = (vs, [(KI j, w)])).
  { apply take_consecutive_enum'.
    - rewrite app_length. clear. generalize 0. induction vs; intro i; cbn; [lia|]. specialize (IHvs (i + 1)). cbn in IHvs. lia.
    - cbn. assert (Z.of_nat (length vs) =? j = false) as -> by (apply Z.eqb_neq; lia). reflexivity.
    - intros i Hi. cbn. assert (i =? j = false) as -> by (apply Z.eqb_neq; lia). reflexivity. }
  rewrite Ht. rewrite Hn. assert (j <? 0 = false) as -> by (apply Z.ltb_ge; lia). reflexivity.
Qed.

(* ... and an index beyond the positional parameters of the signature is an error *)
Theorem index_beyond_signature_rejected names vs j w :
  Z.of_nat (length vs) < j -> Z.of_nat (length names) <= j ->
  resolve_args names (enum_from 0 vs ++ [(KI j, w)]) = None.
Proof.
  intros Hj Hn. unfold resolve_args.
  assert (E0 : forallb (fun kv : key * value => match fst kv with KI _ => false | KS _ => true end) (enum_from 0 vs ++ [(KI j, w)]) = false).
  { rewrite forallb_app. cbn. apply andb_false_r. }
  rewrite E0.
  assert (Ht : take_consecutive 0 (length (enum_from 0 vs ++ [(KI j, w)])) (enum_from 0 vs ++ [(KI j, w)]) = (vs, [(KI j, w)])).
  { apply take_consecutive_enum'.
    - rewrite app_length. clear. generalize 0. induction vs; intro i; cbn; [lia|]. specialize (IHvs (i + 1)). cbn in IHvs. lia.
    - cbn. assert (Z.of_nat (length vs) =? j = false) as -> by (apply Z.eqb_neq; lia). reflexivity.
    - intros i Hi. cbn. assert (i =? j = false) as -> by (apply Z.eqb_neq; lia). reflexivity. }
  rewrite Ht.
  assert (nth_error names (Z.to_nat j) = None) as -> by (apply nth_error_None; lia). reflexivity.
Qed.

(* Python's side: positional values land in the positional parameters in order, the surplus in *args *)
Lemma bind_pos_zip : forall names pos i n v, NoDup names ->
  nth_error names i = Some n -> nth_error pos i = Some v -> zassoc n (fst (bind_pos names pos)) = Some v.
Proof.
  induction names as [|n0 names IH]; intros pos i n v Hnd Hn Hv; [destruct i; discriminate|].
  destruct pos as [|v0 pos]; [destruct i; discriminate|].
  inversion Hnd as [|? ? Hnin Hnd']; subst. cbn [bind_pos fst zassoc].
  destruct i as [|i]; cbn in Hn, Hv.
  - inversion Hn; inversion Hv; subst. now rewrite Z.eqb_refl.
  - assert (n0 =? n = false) as ->.
    { apply Z.eqb_neq. intro E. subst n0. apply Hnin. eapply nth_error_In; eauto. }
    eapply IH; eauto.
Qed.

Lemma bind_pos_surplus : forall names pos, snd (bind_pos names pos) = skipn (length names) pos.
Proof.
  induction names as [|n names IH]; intros pos; [reflexivity|]. destruct pos as [|v pos]; [reflexivity|]. cbn. apply IH.
Qed.

(* the i-th list argument reaches the i-th positional parameter of the target (or *args beyond them) *)
Theorem positional_argument_reaches_parameter s vs i n v b :
  NoDup (pos_names s) -> vs <> [] ->
  call_binding s (enum_from 0 vs) = Some b ->
  nth_error vs i = Some v ->
  (nth_error (pos_names s) i = Some n -> exists l, zassoc n l = Some v /\ (forall m w, zassoc m l = Some w -> zassoc m (b_named b) = Some w)) /\
  b_varargs b = skipn (length (pos_names s)) vs.
Proof.
  intros Hnd Hne Hb Hv. unfold call_binding in Hb. rewrite (list_args_positional _ vs Hne) in Hb.
  unfold pybind in Hb. destruct (bind_pos (pos_names s) vs) as [named extra] eqn:Ebp.
  destruct (match extra with [] => false | _ :: _ => negb (has_kind VarPos s) end); [discriminate|].
  cbn [bind_kw] in Hb. destruct (forallb _ s); [|discriminate]. inversion Hb; subst. cbn [b_named b_varargs].
  split.
  - intro Hn. exists named. split; [|auto]. pose proof (bind_pos_zip (pos_names s) vs i n v Hnd Hn Hv) as H. now rewrite Ebp in H.
  - pose proof (bind_pos_surplus (pos_names s) vs) as H. now rewrite Ebp in H.
Qed.
