(* Proofs/EvalCover.v — a successful evaluation reaches EVERY node of the tree, and every dynamic node it reached has run:
   together with "at most once" (EvalInv) this is "exactly once" (C10). *)
From AY Require Import Model.Eval Proofs.NodeInd Proofs.EvalInv.

(* the node found at a path of the tree *)
Definition At (root : node) (p : path) (n : node) : Prop := get_node root p = Some n.

(* every child of a node is found under its key (unique keys in mappings, lists numbered 0..n-1) *)
Definition KidsOk (n : node) : Prop :=
  match n with
  | Leaf _ _ _ => True
  | Comp _ _ _ ch => forall kc, In kc ch -> has_child n (fst kc) = true /\ get_child n (fst kc) = Some (snd kc)
  end.
Definition WF (root : node) : Prop := forall p n, At root p n -> KidsOk n.

Lemma get_node_app : forall p n q, get_node n (p ++ q) = match get_node n p with Some m => get_node m q | None => None end.
Proof.
  induction p as [|k p IH]; intros n q; [reflexivity|]. cbn [app get_node].
  destruct (has_child n k); [|reflexivity]. destruct (get_child n k) as [c|]; [apply IH|reflexivity].
Qed.

Lemma At_child root p k f x ch kc : WF root -> At root p (Comp k f x ch) -> In kc ch -> At root (p ++ [fst kc]) (snd kc).
Proof.
  intros Hwf Hat Hin. unfold At in *. rewrite get_node_app, Hat. cbn [get_node].
  destruct (Hwf _ _ Hat kc Hin) as [H1 H2]. now rewrite H1, H2.
Qed.

Definition is_dyn (n : node) : bool :=
  match n with
  | Leaf (LEval | LFStr) _ _ => true
  | Comp k _ _ _ => is_funck k
  | _ => false
  end.

(* every node of the subtree at p has a recorded result *)
Definition Cov (st : est) (n : node) (p : path) : Prop := forall q m, In (q, m) (nwp p n) -> lookup_path q (done st) <> None.

(* the invariant: whatever is recorded has its whole subtree recorded, and a recorded dynamic node is in the log *)
Definition K (root : node) (st : est) : Prop :=
  (forall p n, lookup_path p (done st) <> None -> At root p n -> Cov st n p) /\
  (forall p n, lookup_path p (done st) <> None -> At root p n -> is_dyn n = true -> In p (dyn_paths (log st))).

Lemma Cov_mono st st' n p : (forall q w, lookup_path q (done st) = Some w -> lookup_path q (done st') = Some w) -> Cov st n p -> Cov st' n p.
Proof.
  intros Hm Hc q m Hin. specialize (Hc q m Hin). destruct (lookup_path q (done st)) as [w|] eqn:E; [|congruence].
  rewrite (Hm q w E). discriminate.
Qed.

(* states that differ only in log (grown) / next / stack *)
Lemma K_same_done root st st' : done st' = done st -> (exists nw, log st' = log st ++ nw) -> K root st -> K root st'.
Proof.
  intros Hd (nw & Hl) [K1 K2]. split.
  - intros p n Hp Hat q m Hin. rewrite Hd in *. exact (K1 p n Hp Hat q m Hin).
  - intros p n Hp Hat Hdyn. rewrite Hd in Hp. rewrite Hl, dyn_paths_app. apply in_or_app. left. exact (K2 p n Hp Hat Hdyn).
Qed.

Lemma lookup_cons_ne {A} p q (v : A) l : lookup_path q ((p, v) :: l) <> None <-> q = p \/ lookup_path q l <> None.
Proof.
  destruct (path_eqb q p) eqn:E.
  - apply path_eqb_eq in E. subst. rewrite lookup_cons_eq. split; [now left|discriminate].
  - apply path_eqb_neq in E. rewrite lookup_cons_neq by assumption. split; [now right|]. intros [H|H]; [contradiction|exact H].
Qed.

Section Cover.
  Variables (root : node) (pe : penv) (fe : fenv).
  Hypothesis Hwf : WF root.
  Variable rec : bool -> node -> path -> est -> res (value * est).
  Hypothesis Hrec : Spec rec.
  Hypothesis Hcov : forall ras n p st v st', rec ras n p st = Ok (v, st') -> At root p n -> K root st -> K root st' /\ Cov st' n p.

  Lemma items_cover p ras : forall l acc st items st',
    fold_left (eval_step rec p ras) l (Ok (acc, st)) = Ok (items, st') ->
    (forall kc, In kc l -> At root (p ++ [fst kc]) (snd kc)) -> K root st ->
    K root st' /\ forall kc, In kc l -> Cov st' (snd kc) (p ++ [fst kc]).
  Proof.
    induction l as [|kc l IH]; intros acc st items st' H Hat HK; cbn [fold_left] in H.
    - inversion H; subst. split; [exact HK|intros kc []].
    - unfold eval_step at 2 in H. cbn [bind snd fst] in H.
      destruct (rec ras (snd kc) (p ++ [fst kc]) st) as [[v st1]|e q] eqn:E; cbn [bind] in H.
      + destruct (Hcov _ _ _ _ _ _ E (Hat kc (or_introl eq_refl)) HK) as [K1 C1].
        destruct (IH _ _ _ _ H (fun kc' Hin => Hat kc' (or_intror Hin)) K1) as [K2 C2].
        split; [exact K2|]. intros kc' [<-|Hin]; [|now apply C2].
        pose proof (eval_items_ext rec Hrec p ras l _ _ _ _ H) as X. eapply Cov_mono; [exact (x_mono _ _ _ X)|exact C1].
      + rewrite fold_eval_err in H. discriminate.
  Qed.

  Lemma follow_cover p ras : forall ff chain z st v st',
    follow root pe rec p ras ff chain z st = Ok (v, st') -> K root st -> K root st'.
  Proof.
    induction ff as [|ff IH]; intros chain z st v st' H HK; cbn [follow] in H; [discriminate|].
    destruct (plookup pe z) as [tp|]; [|discriminate].
    destruct (if ras then None else lookup_path tp (done st)) as [cv|].
    - destruct (path_in tp chain); [discriminate|]. inversion H; subst. exact HK.
    - destruct (get_node root tp) as [tn|] eqn:Eg; [|discriminate].
      destruct (path_in tp chain); [discriminate|].
      destruct (is_xref tn) as [z'|].
      + eapply IH; eauto.
      + exact (proj1 (Hcov _ _ _ _ _ _ H Eg HK)).
  Qed.

  (* after the node's own evaluation rule: the invariant holds, every strict descendant is recorded, a dynamic node is logged *)
  Lemma on_evaluate_cover ras n p st1 v st2 :
    on_evaluate root pe fe rec ras n p st1 = Ok (v, st2) -> At root p n -> K root st1 ->
    K root st2 /\
    (forall q m, In (q, m) (nwp p n) -> q <> p -> lookup_path q (done st2) <> None) /\
    (is_dyn n = true -> In p (dyn_paths (log st2))).
  Proof.
    intros H Hat HK.
    assert (Leafcase : forall lk f sv, n = Leaf lk f sv -> forall q m, In (q, m) (nwp p n) -> q <> p -> lookup_path q (done st2) <> None).
    { intros lk f sv -> q m [[= <- <-]|[]] Hne. congruence. }
    destruct n as [lk f sv|k f x ch]; cbn [on_evaluate] in H.
    - split; [|split; [eapply Leafcase; reflexivity|]].
      + destruct lk; try discriminate; try (inversion H; subst; exact HK).
        * destruct sv; try discriminate. eapply follow_cover; eauto.
        * destruct (negb (safe f)); [discriminate|]. inversion H; subst.
          apply (K_same_done root st1); [reflexivity|cbn; eexists; reflexivity|exact HK].
        * destruct (negb (safe f)); [discriminate|]. inversion H; subst.
          apply (K_same_done root st1); [reflexivity|cbn; eexists; reflexivity|exact HK].
        * destruct (negb (safe f)); [discriminate|]. destruct (negb (importable fe sv)); [discriminate|]. inversion H; subst.
          apply (K_same_done root st1); [reflexivity|cbn; eexists; reflexivity|exact HK].
      + intros Hd. destruct lk; try discriminate; cbn [is_dyn] in Hd.
        * destruct (negb (safe f)); [discriminate|]. inversion H; subst. cbn [alloc emit log snd]. rewrite dyn_paths_app. apply in_or_app. right. now left.
        * destruct (negb (safe f)); [discriminate|]. inversion H; subst. cbn [alloc emit log snd]. rewrite dyn_paths_app. apply in_or_app. right. now left.
    - assert (Hkids : forall kc, In kc ch -> At root (p ++ [fst kc]) (snd kc)) by (intros kc Hin; eapply At_child; eauto).
      assert (Desc : forall st3, (forall kc, In kc ch -> Cov st3 (snd kc) (p ++ [fst kc])) ->
                forall q m, In (q, m) (nwp p (Comp k f x ch)) -> q <> p -> lookup_path q (done st3) <> None).
      { intros st3 HC q m Hin Hne. rewrite nwp_comp in Hin. destruct Hin as [[= <- <-]|Hin]; [congruence|].
        apply in_flat_map in Hin as (kc & Hkc & Hin). exact (HC kc Hkc q m Hin). }
      destruct (is_funck k) eqn:Ek.
      + destruct (negb (safe f)); [discriminate|]. destruct (negb (importable fe x)); [discriminate|].
        set (st2' := match x with SStr _ => emit (EvImport p x) st1 | _ => st1 end) in *.
        assert (K2' : K root st2').
        { unfold st2'. destruct x; try exact HK. apply (K_same_done root st1); [reflexivity|cbn; eexists; reflexivity|exact HK]. }
        unfold eval_items in H.
        destruct (fold_left (eval_step rec p true) ch (Ok ([], st2'))) as [[args st3]|e q] eqn:Ef.
        2:{ destruct e; discriminate. }
        destruct (items_cover p true ch [] st2' args st3 Ef Hkids K2') as [K3 C3].
        destruct (resolve_args _ args) as [[pos kw]|]; [|discriminate].
        cbn [alloc] in H.
        assert (Fin : forall e s2, dyn_paths [e] = [p] ->
                  s2 = emit e (mkSt (done st3) (stack st3) (log st3) (next st3 + 1)) ->
                  K root s2 /\ (forall q m, In (q, m) (nwp p (Comp k f x ch)) -> q <> p -> lookup_path q (done s2) <> None) /\
                  (is_dyn (Comp k f x ch) = true -> In p (dyn_paths (log s2)))).
        { intros e s2 He ->. split; [|split].
          - apply (K_same_done root st3); [reflexivity|cbn; eexists; reflexivity|exact K3].
          - cbn [emit done]. apply Desc. exact C3.
          - intros _. cbn [emit log]. rewrite dyn_paths_app, He. apply in_or_app. right. now left. }
        destruct k; try discriminate; injection H as _ H; symmetry in H.
        * exact (Fin (EvCall p x) st2 eq_refl H).
        * exact (Fin (EvBind p x) st2 eq_refl H).
      + assert (Hnd : is_dyn (Comp k f x ch) = true -> False) by (cbn [is_dyn]; rewrite Ek; discriminate).
        destruct (is_listk k).
        * unfold eval_items in H.
          destruct (fold_left (eval_step rec p ras) ch (Ok ([], st1))) as [[items st3]|e q] eqn:Ef; cbn [bind] in H; [|discriminate].
          destruct (items_cover p ras ch [] st1 items st3 Ef Hkids HK) as [K3 C3]. cbn [alloc snd fst] in H.
          assert (E2 : done st2 = done st3 /\ log st2 = log st3) by (destruct k; inversion H; subst; split; reflexivity).
          destruct E2 as [Ed El]. split; [|split].
          -- apply (K_same_done root st3); [exact Ed|exists []; now rewrite app_nil_r|exact K3].
          -- intros q m Hin Hne. rewrite Ed. exact (Desc st3 C3 q m Hin Hne).
          -- intros Hd. elim (Hnd Hd).
        * unfold eval_items in H.
          destruct (fold_left (eval_step rec p ras) ch (Ok ([], st1))) as [[items st3]|e q] eqn:Ef; cbn [bind] in H; [|discriminate].
          destruct (items_cover p ras ch [] st1 items st3 Ef Hkids HK) as [K3 C3]. cbn [alloc snd fst] in H.
          inversion H; subst. split; [|split].
          -- apply (K_same_done root st3); [reflexivity|exists []; now rewrite app_nil_r|exact K3].
          -- intros q m Hin Hne. exact (Desc st3 C3 q m Hin Hne).
          -- intros Hd. elim (Hnd Hd).
  Qed.

  Theorem eval_node_cover ras n p st v st' :
    eval_node root pe fe rec ras n p st = Ok (v, st') -> At root p n -> K root st -> K root st' /\ Cov st' n p.
  Proof.
    intros H Hat HK. unfold eval_node in H.
    destruct (ras && negb (safe (nflags n)))%bool; [discriminate|].
    destruct (lookup_path p (done st)) as [cv|] eqn:Ec.
    - inversion H; subst. split; [exact HK|]. apply (proj1 HK p n); [congruence|exact Hat].
    - destruct (path_in p (stack st)); [discriminate|].
      destruct (on_evaluate root pe fe rec ras n p (push p st)) as [[v2 st2]|e q] eqn:Eo; cbn [bind] in H; [|discriminate].
      inversion H; subst. cbn [fst snd].
      assert (Kp : K root (push p st)) by (apply (K_same_done root st); [reflexivity|exists []; now rewrite app_nil_r|exact HK]).
      destruct (on_evaluate_cover ras n p (push p st) v st2 Eo Hat Kp) as ([K1 K2] & Hdesc & Hdyn).
      assert (Hmono : forall q w, lookup_path q (done st2) = Some w -> lookup_path q (done (finish p v st2)) = Some w \/ q = p).
      { intros q w Hq. cbn [finish done]. destruct (path_eqb q p) eqn:E; [right; now apply path_eqb_eq|left].
        apply path_eqb_neq in E. now rewrite lookup_cons_neq. }
      assert (Cself : Cov (finish p v st2) n p).
      { intros q m Hin. cbn [finish done]. apply lookup_cons_ne. destruct (path_eqb q p) eqn:E; [left; now apply path_eqb_eq|right].
        apply path_eqb_neq in E. exact (Hdesc q m Hin E). }
      split; [|exact Cself]. split.
      + intros p0 n0 Hp0 Hat0. cbn [finish done] in Hp0. apply lookup_cons_ne in Hp0 as [->|Hp0].
        * assert (n0 = n) by (unfold At in *; congruence). subst n0. exact Cself.
        * intros q m Hin. cbn [finish done]. apply lookup_cons_ne. right. exact (K1 p0 n0 Hp0 Hat0 q m Hin).
      + intros p0 n0 Hp0 Hat0 Hd0. cbn [finish done log] in *. apply lookup_cons_ne in Hp0 as [->|Hp0].
        * assert (n0 = n) by (unfold At in *; congruence). subst n0. exact (Hdyn Hd0).
        * exact (K2 p0 n0 Hp0 Hat0 Hd0).
  Qed.
End Cover.

Theorem ev_cover root pe fe : WF root -> forall fuel ras n p st v st',
  ev root pe fe fuel ras n p st = Ok (v, st') -> At root p n -> K root st -> K root st' /\ Cov st' n p.
Proof.
  intros Hwf. induction fuel as [|fu IH]; intros ras n p st v st' H; [discriminate|].
  cbn [ev] in H. eapply eval_node_cover; eauto. apply ev_spec.
Qed.

Lemma K_st0 root : K root st0.
Proof. split; intros p n Hp; cbn in Hp; congruence. Qed.

(* a successful build has a recorded result for every node of the evaluated tree, and every dynamic node of it ran *)
Theorem config_covers pe fe t v st : WF (recopy t) -> config pe fe t = Ok (v, st) ->
  forall q m, In (q, m) (nwp [] (recopy t)) ->
    lookup_path q (done st) <> None /\ (is_dyn m = true -> In q (dyn_paths (log st))).
Proof.
  intros Hwf H q m Hin. unfold config in H. destruct (check_missing t); [|discriminate].
  destruct (ev_cover (recopy t) pe fe Hwf _ _ _ _ _ _ _ H eq_refl (K_st0 _)) as [[K1 K2] C].
  split; [exact (C q m Hin)|]. intros Hd.
  assert (Hat : At (recopy t) q m).
  { clear - Hwf Hin. revert Hin. generalize (@eq_refl _ (get_node (recopy t) [])).
    assert (G : forall n p, At (recopy t) p n -> forall q m, In (q, m) (nwp p n) -> At (recopy t) q m).
    { induction n as [lk f sv|k f x ch IHn] using node_ind'; intros p Hat q0 m0 Hin0.
      - destruct Hin0 as [[= <- <-]|[]]. exact Hat.
      - rewrite nwp_comp in Hin0. destruct Hin0 as [[= <- <-]|Hin0]; [exact Hat|].
        apply in_flat_map in Hin0 as (kc & Hkc & Hin0). rewrite Forall_forall in IHn.
        apply (IHn kc Hkc (p ++ [fst kc])); [|exact Hin0]. eapply At_child; eauto. }
    intros _ Hin. exact (G (recopy t) [] eq_refl q m Hin). }
  exact (K2 q m (C q m Hin) Hat Hd).
Qed.

(* ---------- a sufficient, structural well-formedness: unique keys, lists numbered from 0 ---------- *)
Inductive WFT : node -> Prop :=
| WFT_leaf k f v : WFT (Leaf k f v)
| WFT_comp k f x ch : NoDup (map fst ch) -> (is_listk k = true -> keys_enum 0 ch) -> Forall (fun kc => WFT (snd kc)) ch -> WFT (Comp k f x ch).

Lemma aget_nodup (ch : list (key * node)) k c : NoDup (map fst ch) -> In (k, c) ch -> aget k ch = Some c /\ ahas k ch = true.
Proof.
  induction ch as [|[k0 c0] r IH]; intros Hnd Hin; [destruct Hin|]. cbn [map fst] in Hnd. inversion Hnd as [|? ? Hn Hd]; subst.
  unfold ahas. cbn [aget]. destruct Hin as [[= -> ->]|Hin].
  - rewrite key_eqb_refl. split; reflexivity.
  - destruct (key_eqb k k0) eqn:E.
    + apply key_eqb_eq in E. subst k0. elim Hn. apply in_map_iff. exists (k, c). split; [reflexivity|exact Hin].
    + specialize (IH Hd Hin). unfold ahas in IH. exact IH.
Qed.

Lemma keys_enum_range : forall (l : list (key * node)) i0 k c, keys_enum i0 l -> In (k, c) l -> exists j, k = KI (i0 + j) /\ (0 <= j < zlen l)%Z.
Proof.
  induction l as [|[k0 c0] r IH]; intros i0 k c HK Hin; [destruct Hin|]. cbn in HK. destruct HK as [Hk HK]. cbn in Hk. subst k0.
  destruct Hin as [[= <- <-]|Hin].
  - exists 0%Z. split; [f_equal; lia|]. unfold zlen. cbn [length]. lia.
  - destruct (IH (i0 + 1)%Z k c HK Hin) as (j & -> & Hj). exists (j + 1)%Z. split; [f_equal; lia|]. unfold zlen in *. cbn [length]. lia.
Qed.

Lemma WFT_kids n : WFT n -> KidsOk n.
Proof.
  intros [lk f v|k f x ch Hnd Hen HF]; [exact I|]. intros [kk c] Hin. cbn [fst snd].
  destruct (aget_nodup ch kk c Hnd Hin) as [Ha Hh]. split; [exact Hh|]. cbn [get_child].
  destruct (is_listk k) eqn:El; [|exact Ha].
  destruct (keys_enum_range ch 0 kk c (Hen eq_refl) Hin) as (j & -> & Hj). cbn [Z.add] in *.
  assert (V : validate_index (zlen ch) (KI j) true = IdxOk j).
  { unfold validate_index. cbn [andb].
    assert (E1 : (Z.abs j >? zlen ch)%Z = false) by (rewrite Z.gtb_ltb; apply Z.ltb_ge; lia).
    assert (E2 : (j =? zlen ch)%Z = false) by (apply Z.eqb_neq; lia).
    assert (E3 : (j <? 0)%Z = false) by (apply Z.ltb_ge; lia).
    rewrite E1, E2, E3. cbn [orb]. f_equal. lia. }
  now rewrite V.
Qed.

Lemma WFT_at root : WFT root -> forall p n, At root p n -> WFT n.
Proof.
  intros H p. revert root H. induction p as [|k p IH]; intros root H n Hat; unfold At in *; cbn [get_node] in Hat.
  - now injection Hat as <-.
  - destruct (has_child root k); [|discriminate]. destruct (get_child root k) as [c|] eqn:Eg; [|discriminate].
    apply (IH c); [|exact Hat].
    inversion H as [|kk f x ch Hnd Hen HF]; subst; [discriminate|]. cbn [get_child] in Eg.
    assert (Hin : exists k', In (k', c) ch).
    { destruct (is_listk kk); [destruct (validate_index _ _ _); try discriminate|];
        match type of Eg with aget ?key ch = Some c => exists key end;
        clear - Eg; induction ch as [|[k0 c0] r IHr]; cbn [aget] in Eg; try discriminate;
        (destruct (key_eqb _ k0) eqn:E; [apply key_eqb_eq in E; subst; injection Eg as <-; now left|right; now apply IHr]). }
    destruct Hin as (k' & Hin). rewrite Forall_forall in HF. exact (HF _ Hin).
Qed.

Theorem WFT_WF root : WFT root -> WF root.
Proof. intros H p n Hat. apply WFT_kids. eapply WFT_at; eauto. Qed.
