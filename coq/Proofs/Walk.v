(* Proofs/Walk.v — every node reported by the tree walk is the one found by looking its path up again (C17). *)
From AY Require Import Model.Node Proofs.NodeInd.

(* well-formed trees: mapping keys are unique (Python dict), list children are numbered 0..n-1 (C17 invariant) *)
Inductive WF : node -> Prop :=
| WFLeaf k f v : WF (Leaf k f v)
| WFComp k f x ch :
    Forall (fun kc => WF (snd kc)) ch ->
    (if is_listk k then keys_enum 0 ch else NoDup (map fst ch)) ->
    WF (Comp k f x ch).

Lemma aget_in_nodup {V} : forall (l : list (key * V)) k v, NoDup (map fst l) -> In (k, v) l -> aget k l = Some v.
Proof.
  induction l as [|[k' v'] r IH]; intros k v Hnd Hin; [contradiction|].
  cbn in Hnd. inversion Hnd; subst. cbn. destruct Hin as [E|Hin].
  - inversion E; subst. now rewrite key_eqb_refl.
  - destruct (key_eqb k k') eqn:Ek.
    + apply key_eqb_eq in Ek. subst k'. exfalso. apply H1. apply in_map_iff. exists (k, v). auto.
    + apply IH; auto.
Qed.

Lemma keys_enum_in : forall l i k c, keys_enum i l -> In (k, c) l ->
  exists j, k = KI (i + j) /\ 0 <= j < zlen l /\ aget k l = Some c.
Proof.
  induction l as [|[k' c'] r IH]; intros i k c HK Hin; [contradiction|].
  cbn in HK. destruct HK as [Hk HK]. cbn in Hk. subst k'. destruct Hin as [E|Hin].
  - inversion E; subst. exists 0. split; [f_equal; lia|]. split; [unfold zlen; cbn [length]; lia|].
    cbn. now rewrite Z.eqb_refl.
  - destruct (IH (i + 1) k c HK Hin) as (j & -> & Hj & Hg). exists (j + 1).
    split; [f_equal; lia|]. split; [unfold zlen in *; cbn [length]; lia|].
    cbn [aget key_eqb]. assert (i + 1 + j =? i = false) as -> by (apply Z.eqb_neq; lia). exact Hg.
Qed.

Lemma validate_in_range len j : 0 <= j < len -> validate_index len (KI j) true = IdxOk j.
Proof.
  intro H. unfold validate_index. cbn [andb].
  assert ((Z.abs j >? len) = false) as -> by (destruct (Z.gtb_spec (Z.abs j) len); [lia|reflexivity]).
  assert ((j =? len) = false) as -> by (apply Z.eqb_neq; lia). cbn [orb].
  assert (j <? 0 = false) as -> by (apply Z.ltb_ge; lia). f_equal. lia.
Qed.

(* a child listed in the child map is what has_child / get_child find under its key *)
Lemma child_lookup k f x ch kk c : WF (Comp k f x ch) -> In (kk, c) ch ->
  has_child (Comp k f x ch) kk = true /\ get_child (Comp k f x ch) kk = Some c.
Proof.
  intros H Hin. inversion H as [|? ? ? ? HF HK]; subst. cbn [has_child get_child]. unfold ahas.
  destruct (is_listk k).
  - destruct (keys_enum_in ch 0 kk c HK Hin) as (j & -> & Hj & Hg). cbn [Z.add] in *. rewrite Hg. split; [reflexivity|].
    rewrite validate_in_range by exact Hj. exact Hg.
  - rewrite (aget_in_nodup ch kk c HK Hin). auto.
Qed.

Theorem walk_lookup : forall n pre p m, WF n -> In (p, m) (nwp pre n) ->
  exists q, p = pre ++ q /\ get_node n q = Some m.
Proof.
  induction n as [k f v|k f x ch IH] using node_ind'; intros pre p m Hwf Hin.
  - cbn in Hin. destruct Hin as [E|[]]. inversion E; subst. exists []. split; [now rewrite app_nil_r|reflexivity].
  - rewrite nwp_comp in Hin. destruct Hin as [E|Hin].
    + inversion E; subst. exists []. split; [now rewrite app_nil_r|reflexivity].
    + apply in_flat_map in Hin. destruct Hin as ([kk c] & Hc & Hin). cbn [fst snd] in Hin.
      rewrite Forall_forall in IH. specialize (IH (kk, c) Hc). cbn [snd] in IH.
      assert (Hwc : WF c).
      { inversion Hwf as [|? ? ? ? HF HK]; subst. rewrite Forall_forall in HF. apply (HF (kk, c) Hc). }
      destruct (IH (pre ++ [kk]) p m Hwc Hin) as (q & -> & Hq).
      exists (kk :: q). split; [now rewrite <- app_assoc|].
      destruct (child_lookup k f x ch kk c Hwf Hc) as [Hh Hg].
      cbn [get_node]. rewrite Hh, Hg. exact Hq.
Qed.
