(* Proofs/Delete.v — a deleting node that is not outranked replaces the older content exactly (C04). *)
From AY Require Import Model.Merge Proofs.NodeInd Proofs.FlagsLemmas Proofs.FactsOk Proofs.MergePlain.

(* P holds for every proper descendant of a node *)
Inductive AllSub (P : node -> Prop) : node -> Prop :=
| ASLeaf k f v : AllSub P (Leaf k f v)
| ASComp k f x ch : Forall (fun kc => P (snd kc) /\ AllSub P (snd kc)) ch -> AllSub P (Comp k f x ch).

(* if the keep-condition is false on every descendant, filter_nodes empties the container *)
Lemma filter_all_pruned cond : forall n pre, AllSub (fun m => forall p, cond p m = false) n ->
  fst (filter_nodes cond pre n) = clear_children n.
Proof.
  induction n as [k f v|k f x ch IH] using node_ind'; intros pre H; [reflexivity|].
  rewrite filter_nodes_comp. cbv zeta. cbn [fst clear_children].
  inversion H as [|? ? ? ? HF]; subst.
  assert (HA : Forall (fun m => snd m = false) (fst (filter_go cond pre ch))).
  { clear H. induction IH as [|kc r Hkc Hr IHr]; cbn [filter_go]; [constructor|].
    inversion HF as [|? ? [Hc Hs] HF']; subst.
    destruct (filter_child (filter_nodes cond) cond pre kc) as [m rm] eqn:Em.
    destruct (filter_go cond pre r) as [rest rem_r] eqn:Er. cbn [fst]. constructor; [|apply IHr; auto].
    unfold filter_child in Em. rewrite Hc in Em. cbn [orb] in Em.
    destruct (snd kc) as [lk lf lv|ck cf cx cch] eqn:Ekc.
    - inversion Em; subst. reflexivity.
    - specialize (Hkc (pre ++ [fst kc]) Hs).
      destruct (filter_nodes cond (pre ++ [fst kc]) (Comp ck cf cx cch)) as [c' rc]. cbn [fst] in Hkc. subst c'.
      inversion Em; subst. reflexivity. }
  rewrite (shift_kept_all_false _ _ _ _ HA). destruct (is_listk k); reflexivity.
Qed.

(* content of a node's children, ignoring keys renumbering of lists *)
Definition content (n : node) : list plain := map (fun kc => erase (snd kc)) (children n).

Lemma content_with_flags n f : content (with_flags n f) = content n.
Proof. destruct n; reflexivity. Qed.

Lemma content_renum l : forall i, map (fun kc : key * node => erase (snd kc)) (renum_from i l) = map (fun kc => erase (snd kc)) l.
Proof. induction l as [|[k c] r IH]; intro i; cbn; [reflexivity|]. now rewrite IH. Qed.

Lemma maybe_promote_content s o : content (fst (maybe_promote s o)) = content s.
Proof.
  destruct s as [k f v|ks fs xs chs], o as [k' f' v'|ko fo xo cho]; try reflexivity.
  unfold maybe_promote.
  assert (E : content (Comp ko fs xo (if is_listk ko
                then renum_from 0 (map (fun kc => (fst kc, adopt (child_kwargs (Comp ko fo xo [])) (snd kc))) chs)
                else map (fun kc => (fst kc, adopt (child_kwargs (Comp ko fo xo [])) (snd kc))) chs)) = content (Comp ks fs xs chs)).
  { unfold content. cbn [children]. destruct (is_listk ko); rewrite ?content_renum, map_map; cbn [snd];
      apply map_ext; intro a; apply adopt_erase. }
  destruct (ckind_eqb ks ko); [reflexivity|].
  destruct (subk ko ks); [exact E|].
  destruct (subk ks ko); [reflexivity|].
  destruct (is_plaink ks && negb (is_plaink ko))%bool; [exact E|reflexivity].
Qed.

(* The headline of C04: [o] deletes, nothing below [s] outranks what [o] offers at the same relative path, [o] is not
   outranked by [s] and may create its paths: the merged content is exactly the content of [o] — every older entry is
   gone, at any depth, whatever the key names. *)
Theorem delete_exact rec als p s o :
  is_comp s = true -> is_comp o = true ->
  delete o = true ->
  AllSub (fun m => forall ap, has_priority_over m (first_not_missing o (skipn (length p) ap)) false = false) s ->
  has_priority_over o (clear_children s) true = true ->
  (forall removed, require_all_new o p (p :: removed) true = true) ->
  exists r w, comp_merge rec als p s o = Ok (r, w) /\ content r = content o.
Proof.
  intros Hs Ho Hdel Hsub Hprio Hnew.
  destruct o as [|ko fo xo cho]; [discriminate|].
  unfold comp_merge, prune. rewrite Hdel.
  pose proof (filter_all_pruned (fun ap n => has_priority_over n (first_not_missing (Comp ko fo xo cho) (skipn (length p) ap)) false) s p Hsub) as Ef.
  destruct (filter_nodes _ p s) as [s' removed]. cbn [fst] in Ef. subst s'.
  destruct s as [|ks fs xs chs]; [discriminate|]. cbn [clear_children children andb] in *.
  rewrite Hprio, Hnew.
  destruct (replace_other (Comp ko fo xo cho) (Comp ks fs xs []) true) as [r promoted] eqn:Er.
  do 2 eexists. split; [reflexivity|].
  unfold replace_other in Er. cbn [with_flags nflags] in Er.
  pose proof (maybe_promote_content (Comp ko (absorb fo fs) xo cho) (Comp ks fs xs [])) as Hc.
  rewrite Er in Hc. cbn [fst] in Hc. exact Hc.
Qed.

(* the value-less !del (a falsy leaf carrying an explicit delete) removes an existing key; the mapping itself stays *)
Theorem remove_key rec als p ks fs xs chs k c lk f v :
  is_listk ks = false ->
  aget k chs = Some c -> is_comp c = false ->
  rec (p ++ [k]) c (Leaf lk f v) = Ok (Leaf lk f v, Other) ->
  f_del f = Some true -> truthy (Leaf lk f v) = false -> allow_new f = true ->
  path_in (p ++ [k]) als = false ->
  merge_step rec als p (Ok (Comp ks fs xs chs)) (k, Leaf lk f v) = Ok (Comp ks fs xs (adel k chs)).
Proof.
  intros Hl Hg Hc Hr Hd Ht Hn Hal. unfold merge_step. cbn [bind get_child]. rewrite Hl, Hg, Hal, Hr. cbn [bind].
  rewrite Hc. cbn [require_all_new]. cbn [forallb]. rewrite Ht. unfold explicit_delete. cbn [nflags]. rewrite Hd. cbn [onone negb andb].
  cbn [remove_child]. rewrite Hl. unfold ahas. rewrite Hg. reflexivity.
Qed.

(* !clear leaves an empty container of the original kind, with the original flags *)
Theorem clear_empties e p f v root k cf cx ch :
  get_node root p = Some (Comp k cf cx ch) ->
  exists root', on_premerge e p (Leaf LClear f v) (Some root) = Ok (Comp k cf cx [], Some root', true, [p]).
Proof. intro H. cbn [on_premerge]. rewrite H. eexists. reflexivity. Qed.

(* if the keep-condition is true on every descendant, filter_nodes changes nothing (well-formed trees) *)
From AY Require Import Proofs.Walk.

Lemma filter_all_kept cond : forall n pre, WF n -> AllSub (fun m => forall p, cond p m = true) n ->
  filter_nodes cond pre n = (n, []).
Proof.
  induction n as [k f v|k f x ch IH] using node_ind'; intros pre Hwf H; [reflexivity|].
  rewrite filter_nodes_comp. cbv zeta.
  inversion H as [|? ? ? ? HF]; subst. inversion Hwf as [|? ? ? ? HW HK]; subst.
  assert (HA : filter_go cond pre ch = (map (fun kc => (fst kc, snd kc, true)) ch, [])).
  { clear H Hwf HK. induction IH as [|kc r Hkc Hr IHr]; cbn [filter_go]; [reflexivity|].
    inversion HF as [|? ? [Hc Hs] HF']; subst. inversion HW as [|? ? Hw1 Hw2]; subst. rewrite (IHr HF' Hw2).
    unfold filter_child. rewrite Hc. cbn [orb].
    destruct (snd kc) as [lk lf lv|ck cf cx cch] eqn:Ekc.
    - cbn. rewrite <- Ekc. reflexivity.
    - rewrite (Hkc (pre ++ [fst kc]) Hw1 Hs). cbn. rewrite <- Ekc. reflexivity. }
  rewrite HA. cbn [fst snd].
  assert (HS : forall kw il l, shift_kept kw il (map (fun kc : key * node => (fst kc, snd kc, true)) l) false = l).
  { intros kw il l. induction l as [|[kk c] r IHl]; cbn; [reflexivity|]. now rewrite IHl. }
  rewrite HS. destruct (is_listk k); [|reflexivity]. rewrite renum_enum; auto.
Qed.

(* the same for an older LIST (or other list-like node): the pre-filter keeps the newer node intact when none of its
   entries is a deleting node of lower priority than what it meets *)
Theorem delete_exact_list rec als p s o :
  (match s with Comp ks _ _ _ => is_listk ks = true | _ => False end) ->
  is_comp o = true ->
  WF o ->
  AllSub (fun m => forall rp, keep_if_exists s rp m = true) o ->
  delete o = true ->
  AllSub (fun m => forall ap, has_priority_over m (first_not_missing o (skipn (length p) ap)) false = false) s ->
  has_priority_over o (clear_children s) true = true ->
  (forall removed, require_all_new o p (p :: removed) true = true) ->
  exists r w, list_merge rec als p s o = Ok (r, w) /\ content r = content o.
Proof.
  intros Hs Ho Hwf Hkeep Hdel Hsub Hprio Hnew.
  destruct s as [|ks fs xs chs]; [contradiction|]. destruct o as [|ko fo xo cho]; [discriminate|].
  unfold list_merge. rewrite Hdel. cbn [negb]. rewrite andb_false_r. cbn [andb]. rewrite (filter_all_kept (keep_if_exists (Comp ks fs xs chs)) (Comp ko fo xo cho) [] Hwf Hkeep). cbn [fst].
  apply delete_exact; auto.
Qed.
