(* Proofs/Laws.v — algebraic laws of the reference update and their lift to the model of Builder.flatten (C15). *)
From AY Require Import Model.Merge Proofs.NodeInd Proofs.MergePlain Spec.Update.

(* well-formed plain documents: mapping keys are unique (YAML / Python dict) and no negative integer keys
   (a negative key addresses a list from its end; two spellings of one index are excluded here) *)
Definition key_nonneg (k : key) : Prop := match k with KI z => 0 <= z | KS _ => True end.

Inductive pwf : plain -> Prop :=
| pwf_s v : pwf (PS v)
| pwf_l l : Forall pwf l -> pwf (PL l)
| pwf_d kv : NoDup (map fst kv) -> Forall (fun kc => key_nonneg (fst kc) /\ pwf (snd kc)) kv -> pwf (PD kv).

Lemma aset_same {V} k (v : V) l : aget k l = Some v -> aset k v l = l.
Proof.
  induction l as [|[k' v'] r IH]; cbn; [discriminate|].
  destruct (key_eqb k k') eqn:E; intro H.
  - inversion H; subst. apply key_eqb_eq in E. now subst.
  - now rewrite IH.
Qed.

Lemma aget_notin {V} k (l : list (key * V)) : ~ In k (map fst l) -> aget k l = None.
Proof.
  induction l as [|[k' v'] r IH]; cbn; [reflexivity|]. intro H.
  destruct (key_eqb k k') eqn:E; [apply key_eqb_eq in E; subst; exfalso; apply H; auto|]. apply IH. tauto.
Qed.

(* a second pass over the same mapping changes nothing if every entry is already a fixpoint *)
Lemma dgo_fix : forall kv acc,
  (forall k v, In (k, v) kv -> exists m, aget k acc = Some m /\ upd m v = Ok m) -> upd_dgo kv acc = Ok acc.
Proof.
  induction kv as [|[k v] rest IH]; intros acc H; cbn; [reflexivity|].
  destruct (H k v (or_introl eq_refl)) as (m & Hg & Hm). rewrite Hg, Hm. cbn [bind].
  rewrite (aset_same k m acc Hg). apply IH. intros k' v' Hin. apply H. right. exact Hin.
Qed.

(* after the first pass every entry of the newer mapping sits in the result as a fixpoint *)
Lemma dgo_result : forall kv acc r,
  NoDup (map fst kv) ->
  (forall k v, In (k, v) kv -> forall x y, upd x v = Ok y -> upd y v = Ok y) ->
  upd_dgo kv acc = Ok r ->
  forall k v, In (k, v) kv -> exists m, aget k r = Some m /\ upd m v = Ok m.
Proof.
  induction kv as [|[k0 v0] rest IH]; intros acc r Hnd Hfix Hgo k v Hin; [contradiction|].
  cbn in Hnd. inversion Hnd as [|? ? Hnin Hnd']; subst.
  cbn [upd_dgo] in Hgo.
  assert (Hself : upd v0 v0 = Ok v0).
  { apply (Hfix k0 v0 (or_introl eq_refl) (PS SNone) v0). destruct v0; reflexivity. }
  destruct Hin as [E|Hin].
  - inversion E; subst k0 v0. clear E.
    destruct (aget k acc) as [ov|] eqn:Eg.
    + destruct (upd ov v) as [m|e q] eqn:Eu; cbn [bind] in Hgo; [|discriminate].
      exists m. split.
      * rewrite (upd_dgo_untouched rest _ r k Hgo (aget_notin k rest Hnin)). apply aget_aset_eq.
      * apply (Hfix k v (or_introl eq_refl) ov m Eu).
    + exists v. split; [|exact Hself].
      rewrite (upd_dgo_untouched rest _ r k Hgo (aget_notin k rest Hnin)). apply aget_aset_eq.
  - assert (Hfix' : forall k v, In (k, v) rest -> forall x y, upd x v = Ok y -> upd y v = Ok y)
      by (intros; eapply Hfix; [right; eassumption|eassumption]).
    destruct (aget k0 acc) as [ov|].
    + destruct (upd ov v0) as [m|e q]; cbn [bind] in Hgo; [|discriminate]. eapply IH; eauto.
    + eapply IH; eauto.
Qed.

(* the same two lemmas for a mapping addressing the elements of a list *)
Lemma lset_same {A} : forall (l : list A) i v, nth_error l i = Some v -> lset i v l = l.
Proof. induction l as [|x l IH]; intros [|i] v H; cbn in *; try discriminate; [inversion H; reflexivity|]. now rewrite IH. Qed.

Lemma nth_lset_eq {A} : forall (l : list A) i v, (i < length l)%nat -> nth_error (lset i v l) i = Some v.
Proof. induction l as [|x l IH]; intros [|i] v H; cbn in *; try lia; [reflexivity|]. apply IH. lia. Qed.

Lemma nth_lset_neq {A} : forall (l : list A) i j v, i <> j -> nth_error (lset i v l) j = nth_error l j.
Proof. induction l as [|x l IH]; intros [|i] [|j] v H; cbn; auto; try congruence. Qed.

Lemma lset_len {A} : forall (l : list A) i v, length (lset i v l) = length l.
Proof. induction l as [|x l IH]; intros [|i] v; cbn; auto. Qed.

Lemma validate_nonneg len z : 0 <= z -> forall i, validate_index len (KI z) true = IdxOk i -> i = z /\ z < len.
Proof.
  intros Hz i. unfold validate_index. cbn [andb].
  destruct ((Z.abs z >? len) || (z =? len))%bool eqn:E; [discriminate|].
  apply orb_false_elim in E. destruct E as [E1 E2].
  assert (z <? 0 = false) as -> by (apply Z.ltb_ge; lia). intro H. inversion H; subst.
  assert (Z.abs z <= len) by (destruct (Z.gtb_spec (Z.abs z) len); [discriminate|lia]).
  apply Z.eqb_neq in E2. lia.
Qed.

Lemma lgo_fix : forall kv acc,
  (forall k v, In (k, v) kv -> exists i m, validate_index (zlen acc) k true = IdxOk i /\ nth_error acc (Z.to_nat i) = Some m /\ upd m v = Ok m) ->
  upd_lgo kv acc = Ok acc.
Proof.
  induction kv as [|[k v] rest IH]; intros acc H; cbn; [reflexivity|].
  destruct (H k v (or_introl eq_refl)) as (i & m & Hv & Hn & Hm). rewrite Hv, Hn, Hm. cbn [bind].
  rewrite (lset_same acc _ m Hn). apply IH. intros k' v' Hin. apply H. right. exact Hin.
Qed.

Lemma lgo_len : forall kv acc r, upd_lgo kv acc = Ok r -> length r = length acc.
Proof.
  induction kv as [|[k v] rest IH]; intros acc r H; cbn in H; [inversion H; reflexivity|].
  destruct (validate_index (zlen acc) k true) as [i| |]; try discriminate.
  destruct (nth_error acc (Z.to_nat i)) as [ov|]; [|discriminate].
  destruct (upd ov v) as [m|]; cbn in H; [|discriminate]. rewrite (IH _ _ H). apply lset_len.
Qed.

Lemma lgo_untouched : forall kv acc r j, upd_lgo kv acc = Ok r ->
  (forall k v, In (k, v) kv -> forall i, validate_index (zlen acc) k true = IdxOk i -> Z.to_nat i <> j) ->
  nth_error r j = nth_error acc j.
Proof.
  induction kv as [|[k v] rest IH]; intros acc r j H Hne; cbn in H; [inversion H; reflexivity|].
  destruct (validate_index (zlen acc) k true) as [i| |] eqn:Ev; try discriminate.
  destruct (nth_error acc (Z.to_nat i)) as [ov|]; [|discriminate].
  destruct (upd ov v) as [m|]; cbn in H; [|discriminate].
  rewrite (IH _ _ j H).
  - apply nth_lset_neq. apply (Hne k v (or_introl eq_refl) i Ev).
  - intros k' v' Hin i'. unfold zlen. rewrite lset_len. intro Hv'. apply (Hne k' v' (or_intror Hin) i' Hv').
Qed.

Lemma lgo_result : forall kv acc r,
  NoDup (map fst kv) -> Forall (fun kc => key_nonneg (fst kc)) kv ->
  (forall k v, In (k, v) kv -> forall x y, upd x v = Ok y -> upd y v = Ok y) ->
  upd_lgo kv acc = Ok r ->
  forall k v, In (k, v) kv -> exists i m, validate_index (zlen r) k true = IdxOk i /\ nth_error r (Z.to_nat i) = Some m /\ upd m v = Ok m.
Proof.
  induction kv as [|[k0 v0] rest IH]; intros acc r Hnd Hnn Hfix Hgo k v Hin; [contradiction|].
  cbn in Hnd. inversion Hnd as [|? ? Hnin Hnd']; subst. inversion Hnn as [|? ? Hk0 Hnn']; subst. cbn [fst] in Hk0.
  pose proof (lgo_len _ _ _ Hgo) as Hlen.
  cbn [upd_lgo] in Hgo.
  destruct (validate_index (zlen acc) k0 true) as [i0| |] eqn:Ev0; try discriminate.
  destruct (nth_error acc (Z.to_nat i0)) as [ov|] eqn:En0; [|discriminate].
  destruct (upd ov v0) as [m0|] eqn:Eu0; cbn [bind] in Hgo; [|discriminate].
  assert (Hfix' : forall k v, In (k, v) rest -> forall x y, upd x v = Ok y -> upd y v = Ok y)
    by (intros; eapply Hfix; [right; eassumption|eassumption]).
  destruct Hin as [E|Hin].
  - inversion E; subst k0 v0. clear E. exists i0, m0.
    assert (zlen r = zlen acc) as -> by (unfold zlen; now rewrite Hlen).
    split; [exact Ev0|]. split; [|apply (Hfix k v (or_introl eq_refl) ov m0 Eu0)].
    rewrite (lgo_untouched rest _ r (Z.to_nat i0) Hgo).
    + apply nth_lset_eq. apply nth_error_Some. congruence.
    + intros k' v' Hin' i'. unfold zlen. rewrite lset_len. intros Hv' Heq.
      (* k and k' are distinct non-negative integer keys, so they address distinct elements *)
      destruct k as [z|s]; [|cbn in Ev0; discriminate]. destruct k' as [z'|s']; [|cbn in Hv'; discriminate].
      destruct (validate_nonneg _ z Hk0 _ Ev0) as [-> _].
      assert (Hk' : 0 <= z').
      { rewrite Forall_forall in Hnn'. apply (Hnn' (KI z', v') Hin'). }
      destruct (validate_nonneg _ z' Hk' _ Hv') as [-> _].
      assert (z' = z) by (cbn in Hk0; lia). subst z'. apply Hnin. apply in_map_iff. exists (KI z, v'). auto.
  - eapply IH; eauto.
Qed.

(* idempotence of the reference update: applying the same document again changes nothing *)
Theorem upd_idempotent : forall d, pwf d -> forall a r, upd a d = Ok r -> upd r d = Ok r.
Proof.
  induction d as [v|kv IH|l IH] using plain_ind'; intros Hwf a r H.
  - destruct a; cbn in H; inversion H; reflexivity.
  - inversion Hwf as [| |? Hnd HF]; subst.
    assert (Hfix : forall k v, In (k, v) kv -> forall x y, upd x v = Ok y -> upd y v = Ok y).
    { intros k v Hin x y Hxy. rewrite Forall_forall in IH, HF. apply (IH (k, v) Hin (proj2 (HF (k, v) Hin)) x y Hxy). }
    destruct a as [s|okv|ol].
    + (* a scalar was replaced by the mapping: the mapping is a fixpoint of itself *)
      cbn in H. inversion H; subst r. rewrite upd_PD_PD.
      assert (Hd : upd_dgo kv kv = Ok kv).
      { apply dgo_fix. intros k v Hin. exists v. split.
        - clear - Hnd Hin. induction kv as [|[k' v'] rest IHr]; [contradiction|]. cbn in Hnd. inversion Hnd; subst.
          cbn. destruct Hin as [E|Hin].
          + inversion E; subst. now rewrite key_eqb_refl.
          + destruct (key_eqb k k') eqn:Ek; [apply key_eqb_eq in Ek; subst; exfalso; apply H1; apply in_map_iff; exists (k', v); auto|auto].
        - apply (Hfix k v Hin (PS SNone) v). destruct v; reflexivity. }
      rewrite Hd. reflexivity.
    + rewrite upd_PD_PD in H. destruct (upd_dgo kv okv) as [r0|] eqn:Eg; cbn in H; [|discriminate]. inversion H; subst r.
      rewrite upd_PD_PD. rewrite (dgo_fix kv r0); [reflexivity|]. apply (dgo_result kv okv r0 Hnd Hfix Eg).
    + rewrite upd_PL_PD in H. destruct (keys_valid (zlen ol) kv) eqn:Ek; [|discriminate].
      destruct (upd_lgo kv ol) as [r0|] eqn:Eg; cbn in H; [|discriminate]. inversion H; subst r.
      rewrite upd_PL_PD.
      assert (zlen r0 = zlen ol) as -> by (unfold zlen; now rewrite (lgo_len _ _ _ Eg)).
      rewrite Ek. rewrite (lgo_fix kv r0); [reflexivity|].
      apply (lgo_result kv ol r0 Hnd); auto.
      rewrite Forall_forall in HF |- *. intros x Hx. apply (HF x Hx).
  - destruct a; cbn in H; inversion H; reflexivity.
Qed.

(* an empty mapping document is neutral on a mapping *)
Lemma upd_empty_neutral okv : upd (PD okv) (PD []) = Ok (PD okv).
Proof. reflexivity. Qed.

Lemma upd_PD_is_PD okv kv r : upd (PD okv) (PD kv) = Ok r -> exists rkv, r = PD rkv.
Proof. rewrite upd_PD_PD. destruct (upd_dgo kv okv); cbn; intro H; inversion H; eauto. Qed.

(* ---------- lift to histories ---------- *)
Lemma fold_upd_app l1 l2 x : fold_left (fun acc d => do a <- acc; upd a d) (l1 ++ l2) x
                            = fold_left (fun acc d => do a <- acc; upd a d) l2 (fold_left (fun acc d => do a <- acc; upd a d) l1 x).
Proof. apply fold_left_app. Qed.

Theorem fold_idempotent_last d0 rest d : pwf d ->
  upd_fold d0 (rest ++ [d; d]) = upd_fold d0 (rest ++ [d]).
Proof.
  intro Hd. unfold upd_fold. rewrite !fold_upd_app. cbn [fold_left].
  destruct (fold_left (fun acc d => do a <- acc; upd a d) rest (Ok d0)) as [a|e q]; cbn [bind]; [|reflexivity].
  destruct (upd a d) as [r|e q] eqn:E; cbn [bind]; [|reflexivity]. apply (upd_idempotent d Hd a r E).
Qed.

Lemma fold_PD_stays : forall ds okv, forallb is_PD ds = true ->
  match fold_left (fun acc d => do a <- acc; upd a d) ds (Ok (PD okv)) with Ok r => exists rkv, r = PD rkv | Err _ _ => True end.
Proof.
  induction ds as [|d ds IH]; intros okv H; cbn [fold_left bind]; [eauto|].
  cbn in H. apply andb_true_iff in H. destruct H as [H1 H2]. destruct d as [|kv|]; try discriminate.
  destruct (upd (PD okv) (PD kv)) as [r|e q] eqn:E.
  - destruct (upd_PD_is_PD _ _ _ E) as (rkv & ->). apply IH; exact H2.
  - clear. induction ds; cbn; auto.
Qed.

Theorem fold_empty_neutral okv0 xs ys : forallb is_PD xs = true ->
  upd_fold (PD okv0) (xs ++ PD [] :: ys) = upd_fold (PD okv0) (xs ++ ys).
Proof.
  intro Hx. unfold upd_fold. rewrite !fold_upd_app. cbn [fold_left].
  pose proof (fold_PD_stays xs okv0 Hx) as H.
  destruct (fold_left (fun acc d => do a <- acc; upd a d) xs (Ok (PD okv0))) as [a|e q]; cbn [bind]; [|reflexivity].
  destruct H as (rkv & ->). reflexivity.
Qed.

(* model level: the two histories give trees with equal content (or both fail with a MergeError) *)
Definition same_outcome (a b : res node) : Prop :=
  match a, b with
  | Ok n, Ok m => erase n = erase m
  | Err EMerge _, Err EMerge _ => True
  | _, _ => False
  end.

Lemma flatten_same_fold e d0 rest d0' rest' :
  forallb (fun d => is_PD (d_data d)) (d0 :: rest) = true ->
  forallb (fun d => is_PD (d_data d)) (d0' :: rest') = true ->
  upd_fold (d_data d0) (map d_data rest) = upd_fold (d_data d0') (map d_data rest') ->
  same_outcome (flatten e (map load_plain (d0 :: rest))) (flatten e (map load_plain (d0' :: rest'))).
Proof.
  intros H1 H2 E.
  pose proof (flatten_plain e d0 rest H1) as F1. pose proof (flatten_plain e d0' rest' H2) as F2.
  rewrite E in F1.
  destruct (upd_fold (d_data d0') (map d_data rest')) as [r|er q].
  - destruct F1 as (n & -> & En). destruct F2 as (m & -> & Em). cbn. congruence.
  - destruct F1 as (q1 & ->). destruct F2 as (q2 & ->). exact I.
Qed.
