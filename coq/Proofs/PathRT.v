(* Proofs/PathRT.v — a path converted to text and parsed back is unchanged (C17). *)
From AY Require Import Model.Path.
From Coq Require Import Lia.

Lemma ident_not_dot c : is_ident c = true -> Ascii.eqb c ch_dot = false /\ Ascii.eqb c ch_lb = false.
Proof.
  intro H. split; destruct (Ascii.eqb_spec c ch_dot), (Ascii.eqb_spec c ch_lb); subst; try reflexivity; discriminate H.
Qed.

Lemma digit_props c : is_digit c = true -> Ascii.eqb c ch_minus = false /\ Ascii.eqb c ch_rb = false.
Proof.
  intro H. split; destruct (Ascii.eqb_spec c ch_minus), (Ascii.eqb_spec c ch_rb); subst; try reflexivity; discriminate H.
Qed.

(* reading an identifier *)
Lemma lex_name : forall s acc r out, forallb is_ident s = true ->
  lex (SName acc) (s ++ r) out = lex (SName (rev s ++ acc)) r out.
Proof.
  induction s as [|c s IH]; intros acc r out H; [reflexivity|].
  cbn in H. apply andb_true_iff in H. destruct H as [Hc Hs].
  cbn [app lex]. rewrite Hc. rewrite IH by exact Hs. cbn [rev]. now rewrite <- app_assoc.
Qed.

(* reading the digits of an index *)
Lemma lex_digits : forall s neg acc r out, forallb is_digit s = true ->
  lex (SIdx neg acc) (s ++ r) out = lex (SIdx neg (rev s ++ acc)) r out.
Proof.
  induction s as [|c s IH]; intros neg acc r out H; [reflexivity|].
  cbn in H. apply andb_true_iff in H. destruct H as [Hc Hs].
  cbn [app lex]. rewrite Hc. rewrite IH by exact Hs. cbn [rev]. now rewrite <- app_assoc.
Qed.

(* what follows a rendered component: the end, a dot (before a name) or a bracket *)
Definition next_ok (r : list ascii) : Prop :=
  match r with [] => True | c :: _ => is_ident c = false end.

Lemma join_next_ok p : path_ok p = true -> next_ok (join false p).
Proof.
  destruct p as [|[neg ds|s] r]; cbn; auto.
Qed.

(* the state after a complete component, given what follows *)
Lemma roundtrip_gen : forall p out,
  path_ok p = true ->
  lex (SBeg false false) (join false p) out = Some (out ++ p).
Proof.
  induction p as [|c p IH]; intros out Hok.
  - cbn. now rewrite app_nil_r.
  - cbn [path_ok forallb] in Hok. apply andb_true_iff in Hok. destruct Hok as [Hc Hp].
    destruct c as [neg ds|s]; cbn [join].
    + (* [digits] *)
      cbn [comp_ok] in Hc. destruct ds as [|d ds]; [discriminate|].
      cbn [lex app]. change (is_ident ch_lb) with false. cbn [Ascii.eqb]. rewrite Ascii.eqb_refl.
      assert (Hd : is_digit d = true) by (cbn in Hc; apply andb_true_iff in Hc; tauto).
      assert (Hds : forallb is_digit ds = true) by (cbn in Hc; apply andb_true_iff in Hc; tauto).
      destruct (digit_props d Hd) as [Hm Hr].
      assert (Hfin : forall neg0 acc0, acc0 <> [] -> lex (SIdx neg0 acc0) (ch_rb :: join false p) out = Some (out ++ PI neg0 (rev acc0) :: p)).
      { intros neg0 acc0 Hne. cbn [lex]. change (is_digit ch_rb) with false. rewrite Ascii.eqb_refl.
        destruct acc0; [congruence|]. rewrite IH by exact Hp. now rewrite <- app_assoc. }
      destruct neg; cbn [app lex].
      * rewrite Ascii.eqb_refl. cbn [lex]. rewrite Hd.
        rewrite lex_digits by exact Hds. rewrite Hfin.
        -- rewrite rev_app_distr, rev_involutive. reflexivity.
        -- intro E. apply app_eq_nil in E. destruct E; discriminate.
      * rewrite Hm, Hd. rewrite lex_digits by exact Hds. rewrite Hfin.
        -- rewrite rev_app_distr, rev_involutive. reflexivity.
        -- intro E. apply app_eq_nil in E. destruct E; discriminate.
    + (* .name *)
      cbn [comp_ok] in Hc. destruct s as [|c s]; [discriminate|].
      assert (Hcc : is_ident c = true) by (cbn in Hc; apply andb_true_iff in Hc; tauto).
      assert (Hs : forallb is_ident s = true) by (cbn in Hc; apply andb_true_iff in Hc; tauto).
      cbn [app lex]. change (is_ident ch_dot) with false. change (Ascii.eqb ch_dot ch_lb) with false. rewrite Ascii.eqb_refl.
      cbn [lex]. rewrite Hcc. rewrite lex_name by exact Hs.
      pose proof (join_next_ok p Hp) as Hn.
      destruct p as [|c2 p2].
      * cbn. rewrite rev_app_distr, rev_involutive. reflexivity.
      * assert (E : lex (SName (rev s ++ [c])) (join false (c2 :: p2)) out
                    = lex (SBeg false false) (join false (c2 :: p2)) (out ++ [PN (rev (rev s ++ [c]))])).
        { destruct c2 as [neg2 ds2|s2]; cbn [join app lex].
          - change (is_ident ch_lb) with false. change (Ascii.eqb ch_lb ch_dot) with false. rewrite Ascii.eqb_refl. reflexivity.
          - change (is_ident ch_dot) with false. change (Ascii.eqb ch_dot ch_lb) with false. rewrite Ascii.eqb_refl. reflexivity. }
        rewrite E, IH by exact Hp. rewrite rev_app_distr, rev_involutive. cbn [rev app]. now rewrite <- app_assoc.
Qed.

Theorem path_roundtrip p : path_ok p = true -> split (join true p) = Some p.
Proof.
  intro Hok. unfold split. destruct p as [|c p]; [reflexivity|].
  cbn [path_ok forallb] in Hok. apply andb_true_iff in Hok. destruct Hok as [Hc Hp].
  destruct c as [neg ds|s].
  - (* a leading index is lexed exactly as a later one *)
    change (join true (PI neg ds :: p)) with (join false (PI neg ds :: p)).
    assert (E : forall r out, lex (SBeg true true) (ch_lb :: r) out = lex (SBeg false false) (ch_lb :: r) out) by reflexivity.
    cbn [join]. rewrite E. change (ch_lb :: (if neg then [ch_minus] else []) ++ ds ++ ch_rb :: join false p) with (join false (PI neg ds :: p)).
    apply (roundtrip_gen (PI neg ds :: p) []). cbn [path_ok forallb]. now rewrite Hc, Hp.
  - cbn [comp_ok] in Hc. destruct s as [|c s]; [discriminate|].
    assert (Hcc : is_ident c = true) by (cbn in Hc; apply andb_true_iff in Hc; tauto).
    assert (Hs : forallb is_ident s = true) by (cbn in Hc; apply andb_true_iff in Hc; tauto).
    cbn [join app lex]. rewrite Hcc. rewrite lex_name by exact Hs.
    destruct p as [|c2 p2].
    + cbn. rewrite rev_app_distr, rev_involutive. reflexivity.
    + assert (E : lex (SName (rev s ++ [c])) (join false (c2 :: p2)) []
                  = lex (SBeg false false) (join false (c2 :: p2)) ([] ++ [PN (rev (rev s ++ [c]))])).
      { destruct c2 as [neg2 ds2|s2]; cbn [join app lex].
        - change (is_ident ch_lb) with false. change (Ascii.eqb ch_lb ch_dot) with false. rewrite Ascii.eqb_refl. reflexivity.
        - change (is_ident ch_dot) with false. change (Ascii.eqb ch_dot ch_lb) with false. rewrite Ascii.eqb_refl. reflexivity. }
      rewrite E, roundtrip_gen by exact Hp. rewrite rev_app_distr, rev_involutive. reflexivity.
Qed.
