(* Proofs/ThreadsLemmas.v — per-thread slots make every interleaving equivalent, for each thread, to running alone. *)
From AY Require Import Model.Threads Proofs.FactsOk.

Lemma all_local : forall s, thread_local s = true.
Proof.
  pose proof parse_defaults_thread_local as H. apply andb_prop in H as [H H3]. apply andb_prop in H as [H1 H2].
  intros []; cbn [thread_local]; assumption.
Qed.

Section Local.
  Variable loc : slot -> bool.
  Hypothesis AllLocal : forall s, loc s = true.
  Notation getv := (getv loc). Notation setv := (setv loc). Notation exec := (exec loc). Notation step := (step loc). Notation run := (run loc).

  Lemma getv_local g t s : getv g t s = t_local t s.
  Proof. unfold getv. now rewrite AllLocal. Qed.

  Lemma setv_local g t s v : setv g t s v = (g_shared g, mkTS (upd (t_local t) s v) (t_saved t) (t_obs t) (t_prog t)).
  Proof. unfold setv. now rewrite AllLocal. Qed.

  (* an action touches nothing but the acting thread's own state, and its effect does not depend on anything else *)
  Lemma exec_local g g' t a : fst (exec g t a) = g_shared g /\ snd (exec g t a) = snd (exec g' t a).
  Proof.
    destruct a; cbn [exec]; rewrite ?getv_local, ?setv_local; cbn [fst snd]; try (split; reflexivity).
    destruct (t_local t s =? 0); rewrite ?setv_local; split; reflexivity.
  Qed.

  Lemma step_other g i j : j <> i -> g_thread (step g i) j = g_thread g j.
  Proof.
    intros H. unfold step. destruct (t_prog (g_thread g i)) as [|a rest]; [reflexivity|].
    destruct (exec g _ a) as [sh t']. cbn [g_thread]. apply Nat.eqb_neq in H. now rewrite H.
  Qed.

  Lemma step_own g g' i : g_thread g i = g_thread g' i -> g_thread (step g i) i = g_thread (step g' i) i.
  Proof.
    intros H. unfold step. rewrite <- H. destruct (t_prog (g_thread g i)) as [|a rest]; [exact H|].
    pose proof (exec_local g g' (mkTS (t_local (g_thread g i)) (t_saved (g_thread g i)) (t_obs (g_thread g i)) rest) a) as [_ E].
    destruct (exec g _ a) as [sh t']. destruct (exec g' _ a) as [sh' t'']. cbn [snd] in E. subst t''.
    cbn [g_thread]. now rewrite Nat.eqb_refl.
  Qed.

  Lemma run_thread i : forall sched g g',
    g_thread g i = g_thread g' i -> g_thread (run g sched) i = g_thread (run g' (alone i sched)) i.
  Proof.
    induction sched as [|j r IH]; intros g g' H; [exact H|].
    unfold run, alone in *. cbn [fold_left filter]. destruct (Nat.eqb i j) eqn:E.
    - apply Nat.eqb_eq in E. subst j. cbn [fold_left]. apply IH. now apply step_own.
    - apply Nat.eqb_neq in E. apply IH. rewrite step_other by congruence. exact H.
  Qed.
End Local.

Theorem noninterference progs sched i :
  g_thread (run thread_local (start progs) sched) i = g_thread (run thread_local (start progs) (alone i sched)) i.
Proof. apply run_thread; [exact all_local|reflexivity]. Qed.

(* the observations of a thread do not even depend on WHICH other threads exist or what they do *)
Theorem independent_of_others progs progs' sched sched' i :
  nth i progs [] = nth i progs' [] -> alone i sched = alone i sched' ->
  observations (run thread_local (start progs) sched) i = observations (run thread_local (start progs') sched') i.
Proof.
  intros Hp Hs. unfold observations.
  assert (H : g_thread (start progs) i = g_thread (start progs') i) by (unfold start; cbn [g_thread]; now rewrite Hp).
  rewrite (run_thread thread_local all_local i sched (start progs) (start progs') H).
  rewrite (run_thread thread_local all_local i sched' (start progs') (start progs') eq_refl).
  now rewrite Hs.
Qed.
