(* Proofs/EvalCodeLemmas.v — name resolution order, the code split, build histories of !eval. *)
From AY Require Import Model.EvalCode.
From Coq Require Import Lia.

(* ---------- assoc lists with dict.update semantics ---------- *)
Lemma nget_nset_same n v l : nget n (nset n v l) = Some v.
Proof. induction l as [|[k w] r IH]; cbn; [now rewrite Z.eqb_refl|]. destruct (k =? n) eqn:E; cbn; rewrite E; [reflexivity|exact IH]. Qed.

Lemma nget_nset_other n m v l : n <> m -> nget n (nset m v l) = nget n l.
Proof.
  intros H. induction l as [|[k w] r IH]; cbn.
  - destruct (m =? n) eqn:E; [apply Z.eqb_eq in E; congruence|reflexivity].
  - destruct (k =? m) eqn:E; cbn.
    + apply Z.eqb_eq in E. subst k. destruct (m =? n) eqn:E2; [apply Z.eqb_eq in E2; congruence|reflexivity].
    + destruct (k =? n); [reflexivity|exact IH].
Qed.

(* the binding an update leaves for n: the LAST one in upd, else the one in base *)
Lemma nget_nupdate n : forall upd base,
  nget n (nupdate base upd) = match nget n (rev upd) with Some v => Some v | None => nget n base end.
Proof.
  unfold nupdate. induction upd as [|[k v] r IH]; intros base; [reflexivity|].
  cbn [fold_left fst snd rev]. rewrite IH.
  assert (A : forall l1, nget n (l1 ++ [(k, v)]) = match nget n l1 with Some x => Some x | None => if k =? n then Some v else None end).
  { induction l1 as [|[k' v'] t IHt]; cbn; [reflexivity|]. destruct (k' =? n); [reflexivity|exact IHt]. }
  rewrite A. destruct (nget n (rev r)); [reflexivity|].
  destruct (k =? n) eqn:E.
  - apply Z.eqb_eq in E. subst k. apply nget_nset_same.
  - apply Z.eqb_neq in E. apply nget_nset_other. congruence.
Qed.

Theorem resolve_order symbols defs cfg bi ctx n : n <> AYNS ->
  resolve (nupdate (nupdate [(AYNS, ctx)] symbols) defs) cfg bi n =
  match nget n (rev defs) with
  | Some v => Some v
  | None => match nget n (rev symbols) with
            | Some v => Some v
            | None => match nget n cfg with Some v => Some v | None => nget n bi end
            end
  end.
Proof.
  intros H. unfold resolve. rewrite !nget_nupdate.
  destruct (nget n (rev defs)); [reflexivity|]. destruct (nget n (rev symbols)); [reflexivity|].
  cbn [nget]. destruct (AYNS =? n) eqn:E; [apply Z.eqb_eq in E; congruence|reflexivity].
Qed.

(* ---------- the split ---------- *)
Lemma split_on_absent c s : ~ In c s -> split_on c s = [s].
Proof.
  induction s as [|x r IH]; intros H; [reflexivity|]. cbn [split_on].
  destruct (x =? c) eqn:E; [apply Z.eqb_eq in E; subst; elim H; now left|].
  rewrite IH by (intros Hc; apply H; now right). reflexivity.
Qed.

Lemma split_on_chars c : forall s l x, In l (split_on c s) -> In x l -> In x s.
Proof.
  induction s as [|y r IH]; intros l x Hl Hx; cbn [split_on] in Hl.
  - destruct Hl as [<-|[]]. destruct Hx.
  - destruct (y =? c).
    + destruct Hl as [<-|Hl]; [destruct Hx|]. right. eapply IH; eassumption.
    + destruct (split_on c r) as [|h t] eqn:E.
      * destruct Hl as [<-|[]]. destruct Hx as [<-|[]]. now left.
      * destruct Hl as [<-|Hl].
        -- destruct Hx as [<-|Hx]; [now left|]. right. apply (IH h x); [now left|exact Hx].
        -- right. apply (IH l x); [now right|exact Hx].
Qed.

Lemma flat_map_id_split lines : Forall (fun l => ~ In SEMI l) lines -> flat_map (split_on SEMI) lines = lines.
Proof.
  induction 1 as [|l r Hl _ IH]; [reflexivity|]. cbn [flat_map]. rewrite (split_on_absent _ _ Hl), IH. reflexivity.
Qed.

Theorem split_spec code : ~ In SEMI (strip code) ->
  exec_part code = spec_exec_part code /\ eval_part code = spec_eval_part code.
Proof.
  intros H. unfold exec_part, eval_part, spec_exec_part, spec_eval_part, code_lines.
  rewrite flat_map_id_split; [split; reflexivity|].
  rewrite Forall_forall. intros l Hl Hs. apply H. eapply split_on_chars; eassumption.
Qed.

(* ---------- histories ---------- *)
Definition fresh_ns (b : build) : ns := nupdate (nupdate [(AYNS, b_ctx b)] (b_symbols b)) (b_defs b).

Theorem single_line_fresh c b : b_multi b = false -> fst (run_build c b) = fresh_ns b.
Proof. intros H. unfold run_build, fresh_ns. rewrite H. destruct Facts.eval_module_cache; reflexivity. Qed.

Theorem first_use_fresh c b : cget (b_key b) c = None -> fst (run_build c b) = fresh_ns b.
Proof. intros H. unfold run_build, fresh_ns. rewrite H. destruct Facts.eval_module_cache, (b_multi b); reflexivity. Qed.
