(* Proofs/EvalPlain.v — evaluating plain data mirrors the tree: mappings become mappings with the same keys in the same
   order, lists lists, scalars themselves (C11). *)
From AY Require Import Model.Eval Proofs.NodeInd Proofs.EvalInv.

Fixpoint vplain (v : value) : plain :=
  match v with
  | VS s => PS s
  | VD _ l => PD ((fix go (l : list (key * value)) := match l with [] => [] | (k, x) :: r => (k, vplain x) :: go r end) l)
  | VL _ l => PL ((fix go (l : list value) := match l with [] => [] | x :: r => vplain x :: go r end) l)
  | _ => PS SNone
  end.

Lemma vplain_VD o l : vplain (VD o l) = PD (map (fun kx => (fst kx, vplain (snd kx))) l).
Proof. cbn [vplain]. f_equal; try (induction l as [|[k x] r IH]; cbn; [reflexivity|]; now rewrite IH). Qed.
Lemma vplain_VL o l : vplain (VL o l) = PL (map vplain l).
Proof. cbn [vplain]. f_equal; try (induction l as [|x r IH]; cbn; [reflexivity|]; now rewrite IH). Qed.

(* plain, well-formed trees: scalars, mappings with unique keys, lists numbered 0..n-1 *)
Inductive PlainT : node -> Prop :=
| PT_leaf f v : PlainT (Leaf LScalar f v)
| PT_dict f x ch : Forall (fun kc => PlainT (snd kc)) ch -> NoDup (map fst ch) -> PlainT (Comp CDict f x ch)
| PT_list f x ch : Forall (fun kc => PlainT (snd kc)) ch -> NoDup (map fst ch) -> PlainT (Comp CList f x ch).

Definition prefix_free (p : path) (st : est) : Prop :=
  (forall q, lookup_path (p ++ q) (done st) = None) /\ (forall q, ~ In (p ++ q) (stack st)).

Definition only_below (p : path) (st st' : est) : Prop :=
  stack st' = stack st /\ forall q, (forall r, q <> p ++ r) -> lookup_path q (done st') = lookup_path q (done st).

Lemma only_below_refl p st : only_below p st st. Proof. split; auto. Qed.

Lemma only_below_trans p st st1 st2 : only_below p st st1 -> only_below p st1 st2 -> only_below p st st2.
Proof. intros [s1 d1] [s2 d2]. split; [congruence|]. intros q Hq. rewrite d2 by exact Hq. apply d1; exact Hq. Qed.

Lemma only_below_deeper p k st st' : only_below (p ++ [k]) st st' -> only_below p st st'.
Proof.
  intros [s d]. split; [exact s|]. intros q Hq. apply d. intros r E. apply (Hq (k :: r)). rewrite E, <- app_assoc. reflexivity.
Qed.

Lemma app_inj_tail_key (p : path) k k' q q' : p ++ k :: q = p ++ k' :: q' -> k = k'.
Proof. intro H. apply app_inv_head in H. inversion H. reflexivity. Qed.

Section Plain.
  Variables (root : node) (pe : penv) (fe : fenv).

  Lemma eval_plain : forall fuel n p st, PlainT n -> prefix_free p st -> (nsize n < fuel)%nat ->
    exists v st', ev root pe fe fuel false n p st = Ok (v, st') /\ vplain v = erase n /\ only_below p st st'.
  Proof.
    induction fuel as [|fu IH]; intros n p st Hn Hf Hlt; [lia|].
    cbn [ev]. unfold eval_node. cbn [andb].
    destruct Hf as [Hd Hs].
    assert (E0 : lookup_path p (done st) = None) by (specialize (Hd []); now rewrite app_nil_r in Hd).
    assert (E1 : path_in p (stack st) = false).
    { destruct (path_in p (stack st)) eqn:E; [|reflexivity]. apply path_in_In in E. exfalso. apply (Hs []). now rewrite app_nil_r. }
    rewrite E0, E1.
    (* what finishing the node adds is at p itself *)
    assert (Fin : forall v st2, only_below p (push p st) st2 -> only_below p st (finish p v st2)).
    { intros v st2 [s d]. split; cbn [finish stack done push] in *; [now rewrite s|].
      intros q Hq. assert (q <> p) by (intro E; apply (Hq []); now rewrite app_nil_r).
      rewrite lookup_cons_neq by assumption. apply d; exact Hq. }
    inversion Hn as [f v|f x ch HF Hnd|f x ch HF Hnd]; subst.
    - (* scalar *)
      cbn [on_evaluate bind fst snd]. do 2 eexists. split; [reflexivity|]. split; [reflexivity|]. apply Fin, only_below_refl.
    - (* mapping *)
      cbn [on_evaluate is_funck is_listk]. unfold eval_items.
      assert (Loop : forall l acc st1, incl l ch -> NoDup (map fst l) ->
                (forall kc, In kc l -> prefix_free (p ++ [fst kc]) st1) -> stack st1 = p :: stack st ->
                exists items st3, fold_left (eval_step (ev root pe fe fu) p false) l (Ok (acc, st1)) = Ok (acc ++ items, st3) /\
                                  map (fun kx => (fst kx, vplain (snd kx))) items = map (fun kc => (fst kc, erase (snd kc))) l /\ only_below p st1 st3).
      { induction l as [|kc l IHl]; intros acc st1 Hi Hnd' Hpf Hst.
        - exists [], st1. cbn. rewrite app_nil_r. split; [reflexivity|]. split; [reflexivity|apply only_below_refl].
        - cbn [fold_left]. unfold eval_step at 2. cbn [bind fst snd].
          assert (Hc : PlainT (snd kc)) by (rewrite Forall_forall in HF; apply HF, Hi; left; reflexivity).
          assert (Hsz : (nsize (snd kc) < fu)%nat).
          { rewrite nsize_comp in Hlt. assert (nsize (snd kc) <= list_sum (map (fun kc => nsize (snd kc)) ch))%nat; [|lia].
            assert (Hin : In kc ch) by (apply Hi; left; reflexivity). clear - Hin. unfold list_sum.
            induction ch as [|a r IHr]; [contradiction|]. cbn. destruct Hin as [->|Hin]; [lia|]. specialize (IHr Hin). lia. }
          destruct (IH (snd kc) (p ++ [fst kc]) st1 Hc (Hpf kc (or_introl eq_refl)) Hsz) as (v & st2 & Ev & Hv & Hb).
          rewrite Ev. cbn [bind fst snd].
          inversion Hnd' as [|? ? Hnin Hnd'']; subst.
          destruct (IHl (acc ++ [(fst kc, v)]) st2) as (items & st3 & Ef & Hm & Hb3).
          + intros a Ha. apply Hi. right. exact Ha.
          + exact Hnd''.
          + (* the remaining siblings are still untouched *)
            intros kc' Hin'. destruct (Hpf kc' (or_intror Hin')) as [Hd' Hs']. destruct Hb as [sb db]. split.
            * intros q. rewrite db; [apply Hd'|]. intros r E. rewrite <- !app_assoc in E. cbn in E.
              apply app_inj_tail_key in E. apply Hnin. rewrite <- E. apply in_map. exact Hin'.
            * intros q. rewrite sb. apply Hs'.
          + destruct Hb as [sb _]. congruence.
          + exists ((fst kc, v) :: items), st3. rewrite <- app_assoc in Ef. cbn [app] in Ef. split; [exact Ef|]. split.
            * cbn [map fst snd]. now rewrite Hv, Hm.
            * eapply only_below_trans; [apply (only_below_deeper p (fst kc)); exact Hb|exact Hb3]. }
      destruct (Loop ch [] (push p st) (incl_refl _) Hnd) as (items & st3 & Ef & Hm & Hb).
      { intros kc Hin. split; cbn [push done stack].
        - intros q. rewrite <- app_assoc. apply Hd.
        - intros q [E|Hin']; [|apply (Hs ([fst kc] ++ q)); rewrite app_assoc; exact Hin'].
          assert (length p = length ((p ++ [fst kc]) ++ q)) by (rewrite E at 1; reflexivity). rewrite !app_length in H. cbn in H. lia. }
      { reflexivity. }
      cbn [app] in Ef. rewrite Ef. cbn [bind alloc fst snd].
      do 2 eexists. split; [reflexivity|]. split.
      + rewrite vplain_VD, erase_comp. cbn [is_listk]. now rewrite Hm.
      + apply Fin. destruct Hb as [sb db]. split; cbn [stack done]; auto.
    - (* list *)
      cbn [on_evaluate is_funck is_listk]. unfold eval_items.
      assert (Loop : forall l acc st1, incl l ch -> NoDup (map fst l) ->
                (forall kc, In kc l -> prefix_free (p ++ [fst kc]) st1) -> stack st1 = p :: stack st ->
                exists items st3, fold_left (eval_step (ev root pe fe fu) p false) l (Ok (acc, st1)) = Ok (acc ++ items, st3) /\
                                  map (fun kx => vplain (snd kx)) items = map (fun kc => erase (snd kc)) l /\ only_below p st1 st3).
      { induction l as [|kc l IHl]; intros acc st1 Hi Hnd' Hpf Hst.
        - exists [], st1. cbn. rewrite app_nil_r. split; [reflexivity|]. split; [reflexivity|apply only_below_refl].
        - cbn [fold_left]. unfold eval_step at 2. cbn [bind fst snd].
          assert (Hc : PlainT (snd kc)) by (rewrite Forall_forall in HF; apply HF, Hi; left; reflexivity).
          assert (Hsz : (nsize (snd kc) < fu)%nat).
          { rewrite nsize_comp in Hlt. assert (nsize (snd kc) <= list_sum (map (fun kc => nsize (snd kc)) ch))%nat; [|lia].
            assert (Hin : In kc ch) by (apply Hi; left; reflexivity). clear - Hin. unfold list_sum.
            induction ch as [|a r IHr]; [contradiction|]. cbn. destruct Hin as [->|Hin]; [lia|]. specialize (IHr Hin). lia. }
          destruct (IH (snd kc) (p ++ [fst kc]) st1 Hc (Hpf kc (or_introl eq_refl)) Hsz) as (v & st2 & Ev & Hv & Hb).
          rewrite Ev. cbn [bind fst snd].
          inversion Hnd' as [|? ? Hnin Hnd'']; subst.
          destruct (IHl (acc ++ [(fst kc, v)]) st2) as (items & st3 & Ef & Hm & Hb3).
          + intros a Ha. apply Hi. right. exact Ha.
          + exact Hnd''.
          + intros kc' Hin'. destruct (Hpf kc' (or_intror Hin')) as [Hd' Hs']. destruct Hb as [sb db]. split.
            * intros q. rewrite db; [apply Hd'|]. intros r E. rewrite <- !app_assoc in E. cbn in E.
              apply app_inj_tail_key in E. apply Hnin. rewrite <- E. apply in_map. exact Hin'.
            * intros q. rewrite sb. apply Hs'.
          + destruct Hb as [sb _]. congruence.
          + exists ((fst kc, v) :: items), st3. rewrite <- app_assoc in Ef. cbn [app] in Ef. split; [exact Ef|]. split.
            * cbn [map fst snd]. now rewrite Hv, Hm.
            * eapply only_below_trans; [apply (only_below_deeper p (fst kc)); exact Hb|exact Hb3]. }
      destruct (Loop ch [] (push p st) (incl_refl _) Hnd) as (items & st3 & Ef & Hm & Hb).
      { intros kc Hin. split; cbn [push done stack].
        - intros q. rewrite <- app_assoc. apply Hd.
        - intros q [E|Hin']; [|apply (Hs ([fst kc] ++ q)); rewrite app_assoc; exact Hin'].
          assert (length p = length ((p ++ [fst kc]) ++ q)) by (rewrite E at 1; reflexivity). rewrite !app_length in H. cbn in H. lia. }
      { reflexivity. }
      cbn [app] in Ef. rewrite Ef. cbn [bind alloc fst snd].
      do 2 eexists. split; [reflexivity|]. split.
      + rewrite vplain_VL, erase_comp. cbn [is_listk]. rewrite map_map. cbn [snd]. now rewrite Hm.
      + apply Fin. destruct Hb as [sb db]. split; cbn [stack done]; auto.
  Qed.
End Plain.

(* ---------- the whole pipeline Config(tree) on plain trees ---------- *)
From AY Require Import Proofs.FlagsLemmas.

Lemma recopy_sim : forall n, Sim n (recopy n).
Proof.
  induction n as [k f v|k f x ch IH] using node_ind'; [apply Sim_refl|].
  cbn [recopy]. constructor; [apply same_explicit_refl|].
  induction IH as [|[kk c] r Hkc Hr IHr]; cbn; constructor; auto.
  split; [reflexivity|]. cbn [snd]. eapply Sim_trans; [exact Hkc|apply adopt_sim].
Qed.

Lemma PlainT_sim : forall a b, Sim a b -> PlainT a -> PlainT b.
Proof.
  induction a as [k f v|k f x ch IH] using node_ind'; intros b HS HP; inversion HS; subst.
  - inversion HP; subst. constructor.
  - match goal with H2 : Forall2 _ ch ?l |- _ => rename H2 into HF2; rename l into chb end.
    assert (Keys : map fst chb = map fst ch).
    { clear - HF2. induction HF2 as [|a b r r' [Hk _] _ IHF]; cbn; [reflexivity|]. now rewrite Hk, IHF. }
    assert (Kids : Forall (fun kc => PlainT (snd kc)) ch -> Forall (fun kc => PlainT (snd kc)) chb).
    { intro HA. clear - IH HF2 HA. induction HF2 as [|a b r r' [Hk Hs] _ IHF]; [constructor|].
      inversion IH; subst. inversion HA; subst. constructor; auto. }
    inversion HP; subst; constructor; try (apply Kids; assumption); rewrite Keys; assumption.
Qed.

Lemma plain_no_required : forall n pre, PlainT n -> filter (fun pn : path * node => is_required (snd pn)) (nwp pre n) = [].
Proof.
  induction n as [k f v|k f x ch IH] using node_ind'; intros pre H.
  - inversion H; subst. reflexivity.
  - rewrite nwp_comp. cbn [filter snd].
    assert (is_required (Comp k f x ch) = false) as -> by reflexivity.
    assert (HF : Forall (fun kc => PlainT (snd kc)) ch) by (inversion H; subst; assumption).
    clear H. induction IH as [|kc r Hkc Hr IHr]; cbn; [reflexivity|].
    inversion HF; subst. rewrite filter_app, Hkc, IHr; auto.
Qed.

Theorem config_plain pe fe t : PlainT t ->
  exists v st, config pe fe t = Ok (v, st) /\ vplain v = erase t.
Proof.
  intro H. unfold config, check_missing, nodes_with_paths.
  assert (E : filter (fun pn : path * node => is_required (snd pn)) (tl (nwp [] t)) = []).
  { pose proof (plain_no_required t [] H) as Hf. destruct (nwp [] t) as [|a l]; [reflexivity|]. cbn [filter tl] in *.
    destruct (is_required (snd a)); [discriminate|exact Hf]. }
  rewrite E. cbn [map].
  pose proof (PlainT_sim _ _ (recopy_sim t) H) as Hr.
  destruct (eval_plain (recopy t) pe fe (2 * nsize (recopy t) + 2) (recopy t) [] st0 Hr) as (v & st' & Ev & Hv & _).
  - split; intros q; cbn; auto.
  - lia.
  - exists v, st'. split; [exact Ev|]. rewrite Hv. symmetry. apply Sim_erase, recopy_sim.
Qed.
