(* Proofs/Safety.v — unsafe content never reaches executed code (C07): the gate, and monotonicity of merging. *)
From AY Require Import Model.Eval Proofs.NodeInd Proofs.FlagsLemmas Proofs.EvalInv Proofs.Prio.

Definition is_dynamic (n : node) : bool :=
  match n with
  | Leaf (LEval | LFStr | LImport) _ _ => true
  | Comp k _ _ _ => is_funck k
  | _ => false
  end.

(* ---------- the gate ---------- *)
(* an unsafe dynamic node never runs: evaluating it, in any state in which it has no recorded result, in any mode,
   with any recursive evaluator, is an error and produces no state (hence no call, import or exec event) *)
Theorem unsafe_dynamic_never_runs root pe fe rec ras n p st :
  is_dynamic n = true -> safe (nflags n) = false -> lookup_path p (done st) = None ->
  exists e q, eval_node root pe fe rec ras n p st = Err e q /\ (e = EUnsafe \/ e = EEval).
Proof.
  intros Hd Hs Hc. unfold eval_node. rewrite Hs, Hc. cbn [negb andb].
  destruct ras; cbn [andb]; [eauto|].
  destruct (path_in p (stack st)); [eauto|].
  destruct n as [lk f v|k f x ch]; cbn [is_dynamic nflags] in *.
  - destruct lk; try discriminate; cbn [on_evaluate]; rewrite Hs; cbn [negb bind]; eauto.
  - cbn [on_evaluate]. rewrite Hd, Hs. cbn [negb bind]. eauto.
Qed.

(* while the arguments of a call / bind node are evaluated, every node that is evaluated - at any depth, through any
   reference - must be safe: an unsafe one is an error before anything else happens, recorded result or not *)
Theorem require_all_safe_checks_first root pe fe rec n p st :
  safe (nflags n) = false -> eval_node root pe fe rec true n p st = Err EUnsafe p.
Proof. intro Hs. unfold eval_node. now rewrite Hs. Qed.

(* ---------- merging can only spread unsafety ---------- *)
Lemma and_safe_false_l mine other : onone mine true = false -> onone (and_safe mine other) true = false.
Proof. destruct mine as [[|]|], other as [[|]|]; cbn; intro H; try discriminate; reflexivity. Qed.

Lemma and_safe_false_r mine other : other = Some false -> and_safe mine other = Some false.
Proof. intros ->. cbn. now rewrite andb_false_r. Qed.

(* the explicit (!unsafe) and the source-level safety marks of both nodes survive in the node that absorbs the other *)
Theorem absorb_keeps_unsafe s o :
  (f_safe s = Some false \/ f_safe o = Some false -> f_safe (absorb s o) = Some false) /\
  (f_dsafe s = Some false \/ f_dsafe o = Some false -> f_dsafe (absorb s o) = Some false).
Proof.
  split; intros [H|H]; cbn [absorb set_meta set_dsafe set_safe f_safe f_dsafe].
  - rewrite H. destruct (f_safe o) as [[|]|]; reflexivity.
  - rewrite H. cbn. now rewrite andb_false_r.
  - rewrite H. destruct (f_dsafe o) as [[|]|]; reflexivity.
  - rewrite H. cbn. now rewrite andb_false_r.
Qed.

Theorem become_keeps_unsafe s o :
  (f_safe s = Some false \/ f_safe o = Some false -> f_safe (become s o) = Some false) /\
  (f_dsafe s = Some false \/ f_dsafe o = Some false -> f_dsafe (become s o) = Some false).
Proof.
  split; intros [H|H]; cbn [become set_meta set_dsafe set_safe set_del set_prio f_safe f_dsafe].
  - rewrite H. destruct (f_safe o) as [[|]|]; reflexivity.
  - rewrite H. cbn. now rewrite andb_false_r.
  - rewrite H. destruct (f_dsafe o) as [[|]|]; reflexivity.
  - rewrite H. cbn. now rewrite andb_false_r.
Qed.

Lemma safe_false_of_marks f : f_safe f = Some false \/ f_dsafe f = Some false -> safe f = false.
Proof. intros [H|H]; unfold safe; rewrite H; cbn; [reflexivity|]. now rewrite andb_false_r. Qed.

(* two writers of a leaf: whichever value survives, if either writer was marked unsafe (explicitly or by its source) the survivor is unsafe *)
Theorem leaf_merge_spreads_unsafety s o :
  (f_safe (nflags s) = Some false \/ f_dsafe (nflags s) = Some false \/ f_safe (nflags o) = Some false \/ f_dsafe (nflags o) = Some false) ->
  safe (nflags (fst (leaf_merge s o))) = false.
Proof.
  intro H. rewrite leaf_merge_winner. apply safe_false_of_marks.
  destruct (nprio s >? nprio o).
  - destruct s as [k f v|k f x ch]; cbn [with_flags nflags] in *;
      destruct (absorb_keeps_unsafe f (nflags o)) as [A B]; destruct H as [H|[H|[H|H]]]; auto.
  - destruct o as [k f v|k f x ch]; cbn [with_flags nflags] in *;
      destruct (absorb_keeps_unsafe f (nflags s)) as [A B]; destruct H as [H|[H|[H|H]]]; auto.
Qed.

(* an adopted child never loses an inherited unsafe mark *)
Lemma adopt_flags_isafe_sticky kw cf : f_isafe cf = Some false -> f_isafe (adopt_flags kw cf) = Some false.
Proof. intro H. unfold adopt_flags. cbv zeta. cbn [set_inew set_idel f_isafe]. rewrite H. cbn [ob_eqb Bool.eqb f_isafe set_inew set_idel]. exact H. Qed.

Lemma pc_flags_isafe_sticky f idel cf : f_isafe cf = Some false -> f_isafe (fst (pc_flags f idel cf)) = Some false.
Proof.
  intro H. unfold pc_flags. cbv zeta. cbn [fst].
  set (cf1 := if match f_del f with None => negb (ob_eqb (f_idel cf) idel) | Some _ => false end then set_idel cf idel else cf).
  assert (H1 : f_isafe cf1 = Some false) by (unfold cf1; destruct (match f_del f with None => _ | Some _ => _ end); exact H).
  set (cf2 := if match f_new f with None => negb (ob_eqb (f_inew cf1) (f_inew f)) | Some _ => false end then set_inew cf1 (f_inew f) else cf1).
  assert (H2 : f_isafe cf2 = Some false) by (unfold cf2; destruct (match f_new f with None => _ | Some _ => _ end); exact H1).
  destruct (f_safe f); [exact H2|]. rewrite H2. cbn [ob_eqb Bool.eqb negb]. rewrite andb_false_r. exact H2.
Qed.

(* ---------- every executed node is a safe node of the tree ---------- *)
From AY Require Import Proofs.Walk Proofs.XRef.

Definition ev_path (e : event) : path := match e with EvImport p _ | EvCall p _ | EvBind p _ | EvExec p => p end.
Definition SafeAt (root : node) (p : path) : Prop := exists n, get_node root p = Some n /\ safe (nflags n) = true.

Lemma get_node_app : forall p root q, get_node root (p ++ q) = match get_node root p with Some n => get_node n q | None => None end.
Proof.
  induction p as [|k p IH]; intros root q; [reflexivity|].
  cbn [app get_node]. destruct (has_child root k); [|reflexivity]. destruct (get_child root k); [apply IH|reflexivity].
Qed.

Lemma WF_get_node : forall p root n, WF root -> get_node root p = Some n -> WF n.
Proof.
  induction p as [|k p IH]; intros root n Hwf H; cbn in H; [inversion H; subst; exact Hwf|].
  destruct (has_child root k) eqn:Eh; [|discriminate]. destruct (get_child root k) as [c|] eqn:Eg; [|discriminate].
  apply (IH c n); [|exact H].
  destruct root as [|ck f x ch]; [discriminate|]. inversion Hwf as [|? ? ? ? HF HK]; subst.
  assert (Hin : In (k, c) ch).
  { cbn [get_child has_child] in *. destruct (is_listk ck).
    - destruct (keys_enum_has ch 0 k HK Eh) as (z & -> & Hz). rewrite validate_in_range in Eg by lia. apply aget_in. exact Eg.
    - apply aget_in. exact Eg. }
  rewrite Forall_forall in HF. apply (HF (k, c) Hin).
Qed.

Definition Gate (root : node) (rec : bool -> node -> path -> est -> res (value * est)) : Prop :=
  forall ras n p st v st', get_node root p = Some n -> rec ras n p st = Ok (v, st') ->
    exists nw, log st' = log st ++ nw /\ forall e, In e nw -> SafeAt root (ev_path e).

Section GateStep.
  Variables (root : node) (pe : penv) (fe : fenv).
  Variable rec : bool -> node -> path -> est -> res (value * est).
  Hypothesis Hwf : WF root.
  Hypothesis Hrec : Gate root rec.

  Lemma gate_items p ras k f x : get_node root p = Some (Comp k f x (@nil (key * node))) \/ True -> forall ch all acc st items st',
    get_node root p = Some (Comp k f x all) -> incl ch all ->
    fold_left (eval_step rec p ras) ch (Ok (acc, st)) = Ok (items, st') ->
    exists nw, log st' = log st ++ nw /\ forall e, In e nw -> SafeAt root (ev_path e).
  Proof.
    intros _. induction ch as [|kc ch IH]; intros all acc st items st' Hg Hi H; cbn [fold_left] in H.
    - inversion H; subst. exists []. rewrite app_nil_r. split; [reflexivity|intros e []].
    - unfold eval_step at 2 in H. cbn [bind snd fst] in H.
      destruct (rec ras (snd kc) (p ++ [fst kc]) st) as [[v st1]|e q] eqn:E; cbn [bind] in H.
      + assert (Hc : get_node root (p ++ [fst kc]) = Some (snd kc)).
        { rewrite get_node_app, Hg. pose proof (WF_get_node p root _ Hwf Hg) as Hwn.
          destruct (child_lookup k f x all (fst kc) (snd kc) Hwn) as [Hh Hgc]; [apply Hi; left; destruct kc; reflexivity|].
          cbn [get_node]. now rewrite Hh, Hgc. }
        destruct (Hrec _ _ _ _ _ _ Hc E) as (nw1 & L1 & S1).
        destruct (IH all _ _ _ _ Hg (fun a Ha => Hi a (or_intror Ha)) H) as (nw2 & L2 & S2). cbn [snd] in L2.
        exists (nw1 ++ nw2). split; [rewrite L2, L1; now rewrite app_assoc|].
        intros e He. apply in_app_or in He. destruct He; auto.
      + rewrite fold_eval_err in H. discriminate.
  Qed.

  Lemma gate_follow p ras : forall ff chain z st v st',
    follow root pe rec p ras ff chain z st = Ok (v, st') ->
    exists nw, log st' = log st ++ nw /\ forall e, In e nw -> SafeAt root (ev_path e).
  Proof.
    induction ff as [|ff IH]; intros chain z st v st' H; cbn [follow] in H; [discriminate|].
    destruct (plookup pe z) as [tp|]; [|discriminate].
    destruct (if ras then None else lookup_path tp (done st)) as [cv|].
    - destruct (path_in tp chain); [discriminate|]. inversion H; subst. exists []. rewrite app_nil_r. split; [reflexivity|intros e []].
    - destruct (get_node root tp) as [tn|] eqn:Eg; [|discriminate].
      destruct (path_in tp chain); [discriminate|].
      destruct (is_xref tn) as [z'|]; [eapply IH; eauto|eapply Hrec; eauto].
  Qed.

  Theorem gate_eval_node : Gate root (eval_node root pe fe rec).
  Proof.
    intros ras n p st v st' Hg H. unfold eval_node in H.
    destruct (ras && negb (safe (nflags n)))%bool; [discriminate|].
    destruct (lookup_path p (done st)) as [cv|].
    - inversion H; subst. exists []. rewrite app_nil_r. split; [reflexivity|intros e []].
    - destruct (path_in p (stack st)); [discriminate|].
      destruct (on_evaluate root pe fe rec ras n p (push p st)) as [[v2 st2]|e q] eqn:Eo; cbn [bind] in H; [|discriminate].
      inversion H; subst. cbn [fst snd finish log]. change (log st) with (log (push p st)). clear H.
      assert (Nil : exists nw, log (push p st) = log (push p st) ++ nw /\ forall e, In e nw -> SafeAt root (ev_path e))
        by (exists []; rewrite app_nil_r; split; [reflexivity|intros e []]).
      destruct n as [lk f sv|k f x ch]; cbn [on_evaluate] in Eo.
      + destruct lk; try discriminate; try (inversion Eo; subst; exact Nil).
        * destruct sv; try discriminate. eapply gate_follow; eauto.
        * destruct (negb (safe f)) eqn:Es; [discriminate|]. cbn in Eo. inversion Eo; subst. cbn [log].
          exists [EvExec p]. split; [reflexivity|]. intros e [<-|[]]. exists (Leaf LEval f sv). split; [exact Hg|]. apply negb_false_iff in Es. exact Es.
        * destruct (negb (safe f)) eqn:Es; [discriminate|]. cbn in Eo. inversion Eo; subst. cbn [log].
          exists [EvExec p]. split; [reflexivity|]. intros e [<-|[]]. exists (Leaf LFStr f sv). split; [exact Hg|]. apply negb_false_iff in Es. exact Es.
        * destruct (negb (safe f)) eqn:Es; [discriminate|]. destruct (negb (importable fe sv)); [discriminate|].
          inversion Eo; subst. cbn [emit log].
          exists [EvImport p sv]. split; [reflexivity|]. intros e [<-|[]]. exists (Leaf LImport f sv). split; [exact Hg|]. apply negb_false_iff in Es. exact Es.
      + destruct (is_funck k) eqn:Ek.
        * destruct (negb (safe f)) eqn:Es; [discriminate|]. apply negb_false_iff in Es.
          destruct (negb (importable fe x)); [discriminate|].
          assert (Hme : SafeAt root p) by (exists (Comp k f x ch); auto).
          set (st2' := match x with SStr _ => emit (EvImport p x) (push p st) | _ => push p st end) in *.
          assert (L0 : exists nw0, log st2' = log (push p st) ++ nw0 /\ forall e, In e nw0 -> SafeAt root (ev_path e)).
          { unfold st2'. destruct x; try exact Nil. exists [EvImport p (SStr s)]. split; [reflexivity|]. intros e [<-|[]]. exact Hme. }
          destruct L0 as (nw0 & L0 & S0).
          unfold eval_items in Eo.
          destruct (fold_left (eval_step rec p true) ch (Ok ([], st2'))) as [[args st3]|e q] eqn:Ef.
          2:{ destruct e; discriminate. }
          destruct (gate_items p true k f x (or_intror I) ch ch [] st2' args st3 Hg (incl_refl _) Ef) as (nw1 & L1 & S1).
          destruct (resolve_args _ args) as [[pos kw]|]; [|discriminate].
          cbn [alloc] in Eo.
          assert (Fin : forall e0, ev_path e0 = p ->
                    exists nw, log st3 ++ [e0] = log (push p st) ++ nw /\ forall e, In e nw -> SafeAt root (ev_path e)).
          { intros e0 He0. exists (nw0 ++ nw1 ++ [e0]). split; [rewrite L1, L0; now rewrite <- !app_assoc|].
            intros e He. apply in_app_or in He. destruct He as [He|He]; [auto|]. apply in_app_or in He. destruct He as [He|[<-|[]]]; [auto|]. rewrite He0. exact Hme. }
          destruct k; try discriminate; inversion Eo; subst; cbn [emit log]; apply Fin; reflexivity.
        * unfold eval_items in Eo.
          destruct (fold_left (eval_step rec p ras) ch (Ok ([], push p st))) as [[items st3]|e q] eqn:Ef.
          2:{ destruct (is_listk k); cbn [bind] in Eo; discriminate. }
          destruct (gate_items p ras k f x (or_intror I) ch ch [] (push p st) items st3 Hg (incl_refl _) Ef) as (nw1 & L1 & S1).
          destruct (is_listk k); cbn [bind alloc snd fst] in Eo; [destruct k|]; inversion Eo; subst; cbn [log]; eauto.
  Qed.
End GateStep.

Theorem gate_ev root pe fe : WF root -> forall fuel, Gate root (ev root pe fe fuel).
Proof.
  intros Hwf. induction fuel as [|fu IH]; [intros ras n p st v st' _ H; discriminate|].
  cbn [ev]. apply gate_eval_node; assumption.
Qed.
