(* Proofs/KeyOrder.v — permuting the entries of mappings changes at most the order of keys in the merged result (C15),
   for the reference update, hence (by the C02 refinement) for Builder.flatten on tag-free histories. *)
From Coq Require Import Permutation.
From AY Require Import Model.Merge Spec.Update Proofs.NodeInd Proofs.MergePlain Proofs.Laws Proofs.UpdateNNLemmas Proofs.MergeNotNew.

(* equal up to the order of mapping entries, at every depth *)
Inductive peqv : plain -> plain -> Prop :=
| pe_s v : peqv (PS v) (PS v)
| pe_l l l' : Forall2 peqv l l' -> peqv (PL l) (PL l')
| pe_d kv kv' : NoDup (map fst kv) -> NoDup (map fst kv') ->
    (forall k, aget k kv = None <-> aget k kv' = None) ->
    (forall k a b, aget k kv = Some a -> aget k kv' = Some b -> peqv a b) -> peqv (PD kv) (PD kv').

Definition req (r r' : res plain) : Prop :=
  match r, r' with Ok x, Ok y => peqv x y | Err _ _, Err _ _ => True | _, _ => False end.

(* ---------- the mapping loop, key by key ---------- *)
Lemma upd_dgo_ok : forall kv acc r, NoDup (map fst kv) -> upd_dgo kv acc = Ok r ->
  forall k,
    (forall v ov, aget k kv = Some v -> aget k acc = Some ov -> exists m, upd ov v = Ok m /\ aget k r = Some m) /\
    (forall v, aget k kv = Some v -> aget k acc = None -> aget k r = Some v) /\
    (aget k kv = None -> aget k r = aget k acc).
Proof.
  induction kv as [|[k0 v0] rest IH]; intros acc r Hnd H k; cbn [upd_dgo] in H.
  - inversion H; subst. cbn. repeat split; intros; try discriminate; auto.
  - cbn [map fst] in Hnd. inversion Hnd as [|? ? Hni Hnd']; subst.
    assert (Hk0 : aget k0 rest = None) by (apply aget_notin; exact Hni).
    cbn [aget].
    destruct (aget k0 acc) as [ov0|] eqn:Eg0.
    + destruct (upd ov0 v0) as [m0|e q] eqn:Eu; cbn [bind] in H; [|discriminate].
      destruct (IH _ _ Hnd' H k) as (I1 & I2 & I3).
      destruct (key_eqb k k0) eqn:Ek.
      * apply key_eqb_eq in Ek. subst k. repeat split.
        -- intros v ov Ev Eo. inversion Ev; subst. rewrite Eg0 in Eo. inversion Eo; subst. exists m0. split; [exact Eu|].
           rewrite (I3 Hk0). apply aget_aset_eq.
        -- intros v Ev Eo. rewrite Eg0 in Eo. discriminate.
        -- intro; discriminate.
      * rewrite aget_aset_neq in I1, I2, I3 by exact Ek. repeat split; auto.
    + destruct (IH _ _ Hnd' H k) as (I1 & I2 & I3).
      destruct (key_eqb k k0) eqn:Ek.
      * apply key_eqb_eq in Ek. subst k. repeat split.
        -- intros v ov Ev Eo. rewrite Eg0 in Eo. discriminate.
        -- intros v Ev _. inversion Ev; subst. rewrite (I3 Hk0). apply aget_aset_eq.
        -- intro; discriminate.
      * rewrite aget_aset_neq in I1, I2, I3 by exact Ek. repeat split; auto.
Qed.

Lemma upd_dgo_err : forall kv acc e q, NoDup (map fst kv) -> upd_dgo kv acc = Err e q ->
  exists k v ov e' q', aget k kv = Some v /\ aget k acc = Some ov /\ upd ov v = Err e' q'.
Proof.
  induction kv as [|[k0 v0] rest IH]; intros acc e q Hnd H; cbn [upd_dgo] in H; [discriminate|].
  cbn [map fst] in Hnd. inversion Hnd as [|? ? Hni Hnd']; subst.
  assert (Hshift : forall acc', (forall k, key_eqb k k0 = false -> aget k acc' = aget k acc) -> upd_dgo rest acc' = Err e q ->
             exists k v ov e' q', aget k ((k0, v0) :: rest) = Some v /\ aget k acc = Some ov /\ upd ov v = Err e' q').
  { intros acc' Hacc H'. destruct (IH _ _ _ Hnd' H') as (k & v & ov & e' & q' & Ev & Eo & Eu).
    assert (Ek : key_eqb k k0 = false).
    { destruct (key_eqb k k0) eqn:Ek; [|reflexivity]. apply key_eqb_eq in Ek. subst k. rewrite (aget_notin _ _ Hni) in Ev. discriminate. }
    exists k, v, ov, e', q'. cbn [aget]. rewrite Ek. rewrite <- (Hacc k Ek). auto. }
  destruct (aget k0 acc) as [ov0|] eqn:Eg0.
  - destruct (upd ov0 v0) as [m0|e0 q0] eqn:Eu; cbn [bind] in H.
    + apply (Hshift (aset k0 m0 acc)); [|exact H]. intros k Ek. now apply aget_aset_neq.
    + inversion H; subst. exists k0, v0, ov0, e, q. cbn [aget]. rewrite key_eqb_refl. auto.
  - apply (Hshift (aset k0 v0 acc)); [|exact H]. intros k Ek. now apply aget_aset_neq.
Qed.

Lemma upd_dgo_nodup : forall kv acc r, NoDup (map fst acc) -> upd_dgo kv acc = Ok r -> NoDup (map fst r).
Proof.
  induction kv as [|[k0 v0] rest IH]; intros acc r Hn H; cbn [upd_dgo] in H; [inversion H; subst; exact Hn|].
  destruct (aget k0 acc) as [ov0|].
  - destruct (upd ov0 v0) as [m0|e q]; cbn [bind] in H; [|discriminate]. eapply IH; [|exact H]. now apply aset_nodup.
  - eapply IH; [|exact H]. now apply aset_nodup.
Qed.

(* ---------- the list loop, index by index (keys are distinct valid non-negative indices) ---------- *)
Definition kvalid (len : Z) (kv : list (key * plain)) : Prop := forall k v, In (k, v) kv -> exists z, k = KI z /\ 0 <= z < len.

Lemma kvalid_tail len kc kv : kvalid len (kc :: kv) -> kvalid len kv.
Proof. intros H k v Hin. apply (H k v). now right. Qed.

Lemma zlen_lset {A} i (v : A) l : zlen (lset i v l) = zlen l.
Proof. unfold zlen. now rewrite lset_length. Qed.

Lemma upd_lgo_ok : forall kv acc r, NoDup (map fst kv) -> kvalid (zlen acc) kv -> upd_lgo kv acc = Ok r ->
  length r = length acc /\
  forall i : nat,
    (forall v ov, aget (KI (Z.of_nat i)) kv = Some v -> nth_error acc i = Some ov -> exists m, upd ov v = Ok m /\ nth_error r i = Some m) /\
    (aget (KI (Z.of_nat i)) kv = None -> nth_error r i = nth_error acc i).
Proof.
  induction kv as [|[k0 v0] rest IH]; intros acc r Hnd Hv H; cbn [upd_lgo] in H.
  - inversion H; subst. split; [reflexivity|]. intro i. cbn. split; [intros; discriminate|auto].
  - cbn [map fst] in Hnd. inversion Hnd as [|? ? Hni Hnd']; subst.
    destruct (Hv k0 v0 (or_introl eq_refl)) as (z0 & -> & Hz0).
    assert (Hk0 : aget (KI z0) rest = None) by (apply aget_notin; exact Hni).
    rewrite (proj1 (Override.validate_in_range _ _ Hz0)) in H.
    destruct (nth_error acc (Z.to_nat z0)) as [ov0|] eqn:En0.
    2:{ apply nth_error_None in En0. unfold zlen in Hz0. lia. }
    destruct (upd ov0 v0) as [m0|e q] eqn:Eu; cbn [bind] in H; [|discriminate].
    assert (Hv' : kvalid (zlen (lset (Z.to_nat z0) m0 acc)) rest) by (rewrite zlen_lset; eapply kvalid_tail; eauto).
    destruct (IH _ _ Hnd' Hv' H) as (Hlen & Hi). split; [now rewrite Hlen, lset_length|].
    intro i. destruct (Hi i) as (I1 & I2). cbn [aget key_eqb].
    destruct (Z.of_nat i =? z0) eqn:Ei.
    + apply Z.eqb_eq in Ei. assert (Ein : Z.to_nat z0 = i) by lia. split.
      * intros v ov Ev Eo. inversion Ev; subst v. rewrite <- Ein, En0 in Eo. inversion Eo; subst ov. exists m0. split; [exact Eu|].
        rewrite <- Ei in Hk0. rewrite (I2 Hk0), nth_error_lset, Ein, Nat.eqb_refl. rewrite <- Ein, En0. reflexivity.
      * intro; discriminate.
    + apply Z.eqb_neq in Ei. assert (Ein : Nat.eqb (Z.to_nat z0) i = false) by (apply Nat.eqb_neq; lia).
      rewrite nth_error_lset, Ein in I1, I2. split; auto.
Qed.

Lemma upd_lgo_err : forall kv acc e q, NoDup (map fst kv) -> kvalid (zlen acc) kv -> upd_lgo kv acc = Err e q ->
  exists (i : nat) v ov e' q', aget (KI (Z.of_nat i)) kv = Some v /\ nth_error acc i = Some ov /\ upd ov v = Err e' q'.
Proof.
  induction kv as [|[k0 v0] rest IH]; intros acc e q Hnd Hv H; cbn [upd_lgo] in H; [discriminate|].
  cbn [map fst] in Hnd. inversion Hnd as [|? ? Hni Hnd']; subst.
  destruct (Hv k0 v0 (or_introl eq_refl)) as (z0 & -> & Hz0).
  rewrite (proj1 (Override.validate_in_range _ _ Hz0)) in H.
  destruct (nth_error acc (Z.to_nat z0)) as [ov0|] eqn:En0.
  2:{ apply nth_error_None in En0. unfold zlen in Hz0. lia. }
  destruct (upd ov0 v0) as [m0|e0 q0] eqn:Eu; cbn [bind] in H.
  - assert (Hv' : kvalid (zlen (lset (Z.to_nat z0) m0 acc)) rest) by (rewrite zlen_lset; eapply kvalid_tail; eauto).
    destruct (IH _ _ _ Hnd' Hv' H) as (i & v & ov & e' & q' & Ev & Eo & Eu').
    assert (Ei : (Z.of_nat i =? z0) = false).
    { destruct (Z.of_nat i =? z0) eqn:Ei; [|reflexivity]. apply Z.eqb_eq in Ei. subst z0. rewrite (aget_notin _ _ Hni) in Ev. discriminate. }
    exists i, v, ov, e', q'. cbn [aget key_eqb]. rewrite Ei. split; [exact Ev|]. split; [|exact Eu'].
    apply Z.eqb_neq in Ei. rewrite nth_error_lset in Eo. assert (Ein : Nat.eqb (Z.to_nat z0) i = false) by (apply Nat.eqb_neq; lia). now rewrite Ein in Eo.
  - inversion H; subst. exists (Z.to_nat z0), v0, ov0, e, q. cbn [aget key_eqb]. rewrite Z2Nat.id by lia. rewrite Z.eqb_refl. auto.
Qed.

(* ---------- helpers ---------- *)
Lemma aget_some_in {V} k (l : list (key * V)) : aget k l <> None -> exists v, aget k l = Some v /\ In (k, v) l.
Proof. destruct (aget k l) as [v|] eqn:E; [|congruence]. intros _. exists v. split; [reflexivity|now apply aget_In]. Qed.

Lemma in_aget_some {V} k (v : V) l : In (k, v) l -> aget k l <> None.
Proof.
  induction l as [|[k' v'] r IH]; cbn; [contradiction|]. intros [E|Hin].
  - inversion E; subst. rewrite key_eqb_refl. discriminate.
  - destruct (key_eqb k k'); [discriminate|auto].
Qed.

Lemma F2_len {A B} (R : A -> B -> Prop) (l : list A) (l' : list B) : Forall2 R l l' -> length l = length l'.
Proof. induction 1; cbn; congruence. Qed.

Lemma Forall2_nth {A B} (R : A -> B -> Prop) : forall (l : list A) (l' : list B), length l = length l' ->
  (forall i x y, nth_error l i = Some x -> nth_error l' i = Some y -> R x y) -> Forall2 R l l'.
Proof.
  induction l as [|a l IH]; intros [|b l'] Hl H; cbn in Hl; try discriminate; constructor.
  - apply (H O); reflexivity.
  - apply IH; [lia|]. intros i x y Hx Hy. apply (H (S i)); assumption.
Qed.

Lemma Forall2_nth_rel {A B} (R : A -> B -> Prop) : forall (l : list A) (l' : list B) i x y,
  Forall2 R l l' -> nth_error l i = Some x -> nth_error l' i = Some y -> R x y.
Proof.
  intros l l' i x y H. revert i. induction H as [|a b l l' Hab _ IH]; intros [|i] Hx Hy; cbn in *; try discriminate.
  - inversion Hx; inversion Hy; subst; exact Hab.
  - eauto.
Qed.

Lemma valid_nonneg len k i : validate_index len k true = IdxOk i -> key_nonneg k -> exists z, k = KI z /\ 0 <= z < len.
Proof.
  intros H Hn. destruct k as [z|s]; [|discriminate]. cbn in Hn. exists z. split; [reflexivity|].
  destruct (validate_strict _ _ _ H) as [_ Hi].
  unfold validate_index in H. cbn [andb] in H.
  destruct ((Z.abs z >? len) || (z =? len))%bool eqn:E; [discriminate|]. apply orb_false_elim in E. destruct E as [E1 E2].
  assert (Z.abs z <= len) by (destruct (Z.gtb_spec (Z.abs z) len); [discriminate|lia]). apply Z.eqb_neq in E2. lia.
Qed.

Lemma keys_valid_forall len kv : keys_valid len kv = true <-> forall k v, In (k, v) kv -> exists i, validate_index len k true = IdxOk i.
Proof.
  unfold keys_valid. rewrite forallb_forall. split.
  - intros H k v Hin. specialize (H (k, v) Hin). cbn in H. destruct (validate_index len k true); try discriminate. eauto.
  - intros H [k v] Hin. cbn. destruct (H k v Hin) as (i & ->). reflexivity.
Qed.

(* ---------- the congruence ---------- *)
Theorem upd_peqv : forall d d' a a', pwf d -> peqv d d' -> peqv a a' -> req (upd a d) (upd a' d').
Proof.
  induction d as [v|kv IH|l IH] using plain_ind'; intros d' a a' Hw Hd Ha.
  - inversion Hd; subst. destruct a, a'; cbn; constructor.
  - inversion Hd as [| |kv0 kv' Hnd Hnd' Hnone Hval]; subst.
    inversion Hw as [| |kv0 _ HFw]; subst.
    rewrite Forall_forall in IH, HFw.
    (* values under a common key are related by the induction hypothesis *)
    assert (HIH : forall k v v' x x', aget k kv = Some v -> aget k kv' = Some v' -> peqv x x' -> req (upd x v) (upd x' v')).
    { intros k v v' x x' Ev Ev' Hx. apply (IH (k, v) (aget_In _ _ _ Ev)); [apply (HFw (k, v) (aget_In _ _ _ Ev))|eapply Hval; eauto|exact Hx]. }
    assert (Hsome : forall k v, aget k kv = Some v -> exists v', aget k kv' = Some v').
    { intros k v Ev. destruct (aget k kv') as [v'|] eqn:E; [eauto|]. apply Hnone in E. congruence. }
    assert (Hsome' : forall k v', aget k kv' = Some v' -> exists v, aget k kv = Some v).
    { intros k v' Ev. destruct (aget k kv) as [v|] eqn:E; [eauto|]. apply Hnone in E. congruence. }
    inversion Ha as [s|al al' HF2|akv akv' Hna Hna' Hanone Haval]; subst.
    + (* onto a scalar *) cbn. exact Hd.
    + (* onto a list *)
      rewrite !upd_PL_PD.
      assert (El : zlen al' = zlen al) by (unfold zlen; now rewrite (F2_len _ _ _ HF2)).
      rewrite El.
      assert (Ekv : keys_valid (zlen al) kv = keys_valid (zlen al) kv').
      { apply Bool.eq_iff_eq_true. rewrite !keys_valid_forall. split; intros H k v Hin.
        - destruct (Hsome' k v (In_aget _ _ _ Hnd' Hin)) as (v0 & Ev0). exact (H k v0 (aget_In _ _ _ Ev0)).
        - destruct (Hsome k v (In_aget _ _ _ Hnd Hin)) as (v0 & Ev0). exact (H k v0 (aget_In _ _ _ Ev0)). }
      rewrite <- Ekv. destruct (keys_valid (zlen al) kv) eqn:Ekeys; [|exact I].
      assert (Hkv : kvalid (zlen al) kv).
      { intros k v Hin. destruct (proj1 (keys_valid_forall _ _) Ekeys k v Hin) as (i & Hi). apply (valid_nonneg _ _ _ Hi). apply (HFw (k, v) Hin). }
      assert (Hkv' : kvalid (zlen al') kv').
      { rewrite El. intros k v Hin. destruct (Hsome' k v (In_aget _ _ _ Hnd' Hin)) as (v0 & Ev0). exact (Hkv k v0 (aget_In _ _ _ Ev0)). }
      destruct (upd_lgo kv al) as [r|e q] eqn:E1, (upd_lgo kv' al') as [r'|e' q'] eqn:E2; cbn [bind req]; try exact I.
      * destruct (upd_lgo_ok _ _ _ Hnd Hkv E1) as (L1 & P1). destruct (upd_lgo_ok _ _ _ Hnd' Hkv' E2) as (L2 & P2).
        constructor. apply Forall2_nth; [rewrite L1, L2; exact (F2_len _ _ _ HF2)|].
        intros i x y Hx Hy. destruct (P1 i) as (A1 & B1). destruct (P2 i) as (A2 & B2).
        destruct (aget (KI (Z.of_nat i)) kv) as [v|] eqn:Ev.
        -- destruct (Hsome _ _ Ev) as (v' & Ev').
           assert (Hi : (i < length al)%nat) by (rewrite <- L1; apply nth_error_Some; congruence).
           destruct (nth_error al i) as [ov|] eqn:Eo; [|apply nth_error_None in Eo; lia].
           destruct (nth_error al' i) as [ov'|] eqn:Eo'; [|apply nth_error_None in Eo'; rewrite <- (F2_len _ _ _ HF2) in Eo'; lia].
           destruct (A1 v ov eq_refl eq_refl) as (m & Em & Er). destruct (A2 v' ov' Ev' eq_refl) as (m' & Em' & Er').
           rewrite Er in Hx. rewrite Er' in Hy. inversion Hx; inversion Hy; subst.
           pose proof (HIH _ _ _ ov ov' Ev Ev' (Forall2_nth_rel _ _ _ _ _ _ HF2 Eo Eo')) as Hreq. rewrite Em, Em' in Hreq. exact Hreq.
        -- assert (Ev' : aget (KI (Z.of_nat i)) kv' = None) by (apply Hnone; exact Ev).
           rewrite (B1 eq_refl) in Hx. rewrite (B2 Ev') in Hy. exact (Forall2_nth_rel _ _ _ _ _ _ HF2 Hx Hy).
      * exfalso. destruct (upd_lgo_ok _ _ _ Hnd Hkv E1) as (L1 & P1).
        destruct (upd_lgo_err _ _ _ _ Hnd' Hkv' E2) as (i & v' & ov' & e1 & q1 & Ev' & Eo' & Eu').
        destruct (Hsome' _ _ Ev') as (v & Ev).
        destruct (nth_error al i) as [ov|] eqn:Eo.
        2:{ apply nth_error_None in Eo. assert (i < length al')%nat by (apply nth_error_Some; congruence). rewrite <- (F2_len _ _ _ HF2) in H. lia. }
        destruct (proj1 (P1 i) v ov Ev Eo) as (m & Em & _).
        pose proof (HIH _ _ _ ov ov' Ev Ev' (Forall2_nth_rel _ _ _ _ _ _ HF2 Eo Eo')) as Hreq. rewrite Em, Eu' in Hreq. exact Hreq.
      * exfalso. destruct (upd_lgo_ok _ _ _ Hnd' Hkv' E2) as (L2 & P2).
        destruct (upd_lgo_err _ _ _ _ Hnd Hkv E1) as (i & v & ov & e1 & q1 & Ev & Eo & Eu).
        destruct (Hsome _ _ Ev) as (v' & Ev').
        destruct (nth_error al' i) as [ov'|] eqn:Eo'.
        2:{ apply nth_error_None in Eo'. assert (i < length al)%nat by (apply nth_error_Some; congruence). rewrite (F2_len _ _ _ HF2) in H. lia. }
        destruct (proj1 (P2 i) v' ov' Ev' Eo') as (m' & Em' & _).
        pose proof (HIH _ _ _ ov ov' Ev Ev' (Forall2_nth_rel _ _ _ _ _ _ HF2 Eo Eo')) as Hreq. rewrite Eu, Em' in Hreq. exact Hreq.
    + (* onto a mapping *)
      rewrite !upd_PD_PD.
      destruct (upd_dgo kv akv) as [r|e q] eqn:E1, (upd_dgo kv' akv') as [r'|e' q'] eqn:E2; cbn [bind req]; try exact I.
      * pose proof (upd_dgo_ok _ _ _ Hnd E1) as P1. pose proof (upd_dgo_ok _ _ _ Hnd' E2) as P2.
        constructor; [exact (upd_dgo_nodup _ _ _ Hna E1)|exact (upd_dgo_nodup _ _ _ Hna' E2)| |].
        -- intro k. destruct (P1 k) as (A1 & B1 & C1). destruct (P2 k) as (A2 & B2 & C2).
           destruct (aget k kv) as [v|] eqn:Ev.
           ++ destruct (Hsome _ _ Ev) as (v' & Ev'). rewrite Ev' in *.
              destruct (aget k akv) as [ov|] eqn:Eo.
              ** destruct (aget k akv') as [ov'|] eqn:Eo'; [|apply Hanone in Eo'; congruence].
                 destruct (A1 v ov eq_refl eq_refl) as (m & _ & ->). destruct (A2 v' ov' eq_refl eq_refl) as (m' & _ & ->). split; discriminate.
              ** assert (Eo' : aget k akv' = None) by (apply Hanone; exact Eo). rewrite Eo' in *.
                 rewrite (B1 v eq_refl eq_refl), (B2 v' eq_refl eq_refl). split; discriminate.
           ++ assert (Ev' : aget k kv' = None) by (apply Hnone; exact Ev). rewrite Ev' in *.
              rewrite (C1 eq_refl), (C2 eq_refl). apply Hanone.
        -- intros k x y Hx Hy. destruct (P1 k) as (A1 & B1 & C1). destruct (P2 k) as (A2 & B2 & C2).
           destruct (aget k kv) as [v|] eqn:Ev.
           ++ destruct (Hsome _ _ Ev) as (v' & Ev'). rewrite Ev' in *.
              destruct (aget k akv) as [ov|] eqn:Eo.
              ** destruct (aget k akv') as [ov'|] eqn:Eo'; [|apply Hanone in Eo'; congruence].
                 destruct (A1 v ov eq_refl eq_refl) as (m & Em & Er). destruct (A2 v' ov' eq_refl eq_refl) as (m' & Em' & Er').
                 rewrite Er in Hx. rewrite Er' in Hy. inversion Hx; inversion Hy; subst.
                 pose proof (HIH _ _ _ ov ov' Ev Ev' (Haval _ _ _ Eo Eo')) as Hreq. rewrite Em, Em' in Hreq. exact Hreq.
              ** assert (Eo' : aget k akv' = None) by (apply Hanone; exact Eo). rewrite Eo' in *.
                 rewrite (B1 v eq_refl eq_refl) in Hx. rewrite (B2 v' eq_refl eq_refl) in Hy. inversion Hx; inversion Hy; subst. eapply Hval; eauto.
           ++ assert (Ev' : aget k kv' = None) by (apply Hnone; exact Ev). rewrite Ev' in *.
              rewrite (C1 eq_refl) in Hx. rewrite (C2 eq_refl) in Hy. eapply Haval; eauto.
      * exfalso. pose proof (upd_dgo_ok _ _ _ Hnd E1) as P1.
        destruct (upd_dgo_err _ _ _ _ Hnd' E2) as (k & v' & ov' & e1 & q1 & Ev' & Eo' & Eu').
        destruct (Hsome' _ _ Ev') as (v & Ev).
        destruct (aget k akv) as [ov|] eqn:Eo; [|apply Hanone in Eo; congruence].
        destruct (proj1 (P1 k) v ov Ev Eo) as (m & Em & _).
        pose proof (HIH _ _ _ ov ov' Ev Ev' (Haval _ _ _ Eo Eo')) as Hreq. rewrite Em, Eu' in Hreq. exact Hreq.
      * exfalso. pose proof (upd_dgo_ok _ _ _ Hnd' E2) as P2.
        destruct (upd_dgo_err _ _ _ _ Hnd E1) as (k & v & ov & e1 & q1 & Ev & Eo & Eu).
        destruct (Hsome _ _ Ev) as (v' & Ev').
        destruct (aget k akv') as [ov'|] eqn:Eo'; [|apply Hanone in Eo'; congruence].
        destruct (proj1 (P2 k) v' ov' Ev' Eo') as (m' & Em' & _).
        pose proof (HIH _ _ _ ov ov' Ev Ev' (Haval _ _ _ Eo Eo')) as Hreq. rewrite Eu, Em' in Hreq. exact Hreq.
  - inversion Hd; subst. rewrite !upd_other by (left; exact I). cbn. exact Hd.
Qed.

(* ---------- whole histories ---------- *)
Lemma fold_upd_peqv : forall ds ds' a a', Forall pwf ds -> Forall2 peqv ds ds' -> req a a' ->
  req (fold_left (fun acc d => do x <- acc; upd x d) ds a) (fold_left (fun acc d => do x <- acc; upd x d) ds' a').
Proof.
  induction ds as [|d ds IH]; intros ds' a a' Hw H2 Ha; inversion H2 as [|? d' ? ds'' Hd Hds]; subst; cbn [fold_left]; [exact Ha|].
  inversion Hw as [|? ? Hwd Hws]; subst. apply IH; [exact Hws|exact Hds|].
  destruct a as [x|e q], a' as [x'|e' q']; cbn [req bind] in *; try contradiction; [|exact I].
  apply upd_peqv; assumption.
Qed.

(* model level: trees whose contents are equal up to the order of mapping entries (or both builds fail with a MergeError) *)
Definition same_up_to_key_order (a b : res node) : Prop :=
  match a, b with
  | Ok n, Ok m => peqv (erase n) (erase m)
  | Err EMerge _, Err EMerge _ => True
  | _, _ => False
  end.

Theorem flatten_key_order e d0 rest d0' rest' :
  forallb (fun d => is_PD (d_data d)) (d0 :: rest) = true -> forallb (fun d => is_PD (d_data d)) (d0' :: rest') = true ->
  Forall (fun d => pwf (d_data d)) (d0 :: rest) ->
  Forall2 (fun d d' => peqv (d_data d) (d_data d')) (d0 :: rest) (d0' :: rest') ->
  same_up_to_key_order (flatten e (map load_plain (d0 :: rest))) (flatten e (map load_plain (d0' :: rest'))).
Proof.
  intros H1 H2 Hw HP.
  pose proof (flatten_plain e d0 rest H1) as F1. pose proof (flatten_plain e d0' rest' H2) as F2.
  inversion HP as [|? ? ? ? Hd0 Hrest]; subst. inversion Hw as [|? ? Hw0 Hwr]; subst.
  assert (R : req (upd_fold (d_data d0) (map d_data rest)) (upd_fold (d_data d0') (map d_data rest'))).
  { unfold upd_fold. apply fold_upd_peqv.
    - clear - Hwr. induction Hwr; cbn; constructor; auto.
    - clear - Hrest. induction Hrest; cbn; constructor; auto.
    - exact Hd0. }
  destruct (upd_fold (d_data d0) (map d_data rest)) as [r|er q], (upd_fold (d_data d0') (map d_data rest')) as [r'|er' q']; cbn [req] in R; try contradiction.
  - destruct F1 as (n & -> & En). destruct F2 as (m & -> & Em). cbn. now rewrite En, Em.
  - destruct F1 as (q1 & ->). destruct F2 as (q2 & ->). exact I.
Qed.

(* peqv really is "a permutation of the entries": a mapping and any reordering of its entries are related *)
Lemma peqv_refl : forall p, pwf p -> peqv p p.
Proof.
  induction p as [v|kv IH|l IH] using plain_ind'; intro H.
  - constructor.
  - inversion H as [| |? Hnd HF]; subst. constructor; auto; [tauto|].
    intros k a b Ea Eb. rewrite Ea in Eb. inversion Eb; subst. rewrite Forall_forall in IH, HF.
    apply (IH (k, b) (aget_In _ _ _ Ea)). apply (HF (k, b) (aget_In _ _ _ Ea)).
  - inversion H as [|? HF|]; subst. constructor. clear H. induction IH as [|x r Hx Hr IHr]; [constructor|]. inversion HF; subst. constructor; auto.
Qed.

Lemma peqv_permutation kv kv' : pwf (PD kv) -> Permutation.Permutation kv kv' -> peqv (PD kv) (PD kv').
Proof.
  intros H HP. inversion H as [| |? Hnd HF]; subst.
  assert (Hnd' : NoDup (map fst kv')) by (eapply Permutation.Permutation_NoDup; [apply Permutation.Permutation_map; exact HP|exact Hnd]).
  assert (Hin : forall k v, aget k kv = Some v <-> aget k kv' = Some v).
  { intros k v. split; intro E.
    - apply In_aget; [exact Hnd'|]. eapply Permutation.Permutation_in; [exact HP|]. now apply aget_In.
    - apply In_aget; [exact Hnd|]. eapply Permutation.Permutation_in; [apply Permutation.Permutation_sym; exact HP|]. now apply aget_In. }
  constructor; auto.
  - intro k. split; intro E.
    + destruct (aget k kv') as [v|] eqn:E'; [|reflexivity]. apply Hin in E'. congruence.
    + destruct (aget k kv) as [v|] eqn:E'; [|reflexivity]. apply Hin in E'. congruence.
  - intros k a b Ea Eb. apply Hin in Ea. rewrite Ea in Eb. inversion Eb; subst.
    apply peqv_refl. rewrite Forall_forall in HF. apply (HF (k, b)). apply aget_In. now apply Hin.
Qed.
