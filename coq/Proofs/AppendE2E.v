(* Proofs/AppendE2E.v — C16 end to end: a document that holds `!append L` at a path through mappings, merged into a tag-free
   config that has a list there, yields the config with that list followed by the elements of L - every other path keeps its
   value (the list's key moves to the end of its mapping) - as a theorem about the whole of root.merge(doc): premerge
   (detach, extend) followed by the merge. *)
From AY Require Import Model.Merge Proofs.NodeInd Proofs.FlagsLemmas Proofs.FactsOk Spec.Update Proofs.MergePlain Proofs.Ops
  Proofs.EvalPlain Proofs.LoaderLemmas Proofs.Laws Proofs.MergeNotNew Proofs.MergeGen.

(* the document: the operator below a chain of one-entry mappings *)
Fixpoint wrap (ws : list (key * flags * scalar)) (n : node) : node :=
  match ws with [] => n | (k, f, x) :: r => Comp CDict f x [(k, wrap r n)] end.
Definition wkeys (ws : list (key * flags * scalar)) : path := map (fun w => fst (fst w)) ws.
(* after premerge: the same chain; the innermost mapping has adopted the node the operator returned *)
Fixpoint wrapA (ws : list (key * flags * scalar)) (n : node) : node :=
  match ws with
  | [] => n
  | (k, f, x) :: r => Comp CDict f x [(k, match r with [] => adopt (child_kwargs (Comp CDict f x [])) n | _ => wrapA r n end)]
  end.
Fixpoint pwrap (q : path) (v : plain) : plain := match q with [] => v | k :: r => PD [(k, pwrap r v)] end.

(* the reference: the list at q (reached through mappings) followed by l; its key moves to the end of its mapping *)
Fixpoint app_at (d : plain) (q : path) (l : list plain) : option plain :=
  match q with
  | [] => None
  | k :: r =>
    match d with
    | PD kv =>
      match aget k kv with
      | Some c =>
        match r with
        | [] => match c with PL l0 => Some (PD (adel k kv ++ [(k, PL (l0 ++ l))])) | _ => None end
        | _ => option_map (fun c' => PD (aset k c' kv)) (app_at c r l)
        end
      | None => None
      end
    | _ => None
    end
  end.

(* the path goes through mappings *)
Fixpoint dpath (n : node) (q : path) : Prop :=
  match q with
  | [] => True
  | k :: r => match n with
              | Comp CDict _ _ ch => match r with [] => True | _ => match aget k ch with Some c => dpath c r | None => False end end
              | _ => False
              end
  end.

(* ---------- association-list facts ---------- *)
Lemma adel_map {A B} (g : A -> B) k (l : list (key * A)) :
  adel k (map (fun kc => (fst kc, g (snd kc))) l) = map (fun kc => (fst kc, g (snd kc))) (adel k l).
Proof. induction l as [|[k' v] r IH]; cbn; [reflexivity|]. destruct (key_eqb k k'); [reflexivity|]. cbn. now rewrite IH. Qed.

Lemma aget_adel_nodup {V} k (l : list (key * V)) : NoDup (map fst l) -> aget k (adel k l) = None.
Proof.
  induction l as [|[k' v] r IH]; cbn; intro H; [reflexivity|]. inversion H as [|? ? Hni Hnd]; subst.
  destruct (key_eqb k k') eqn:E.
  - apply key_eqb_eq in E. subst. now apply aget_notin.
  - cbn. rewrite E. auto.
Qed.

Lemma aset_absent {V} k (v : V) l : aget k l = None -> aset k v l = l ++ [(k, v)].
Proof. induction l as [|[k' v'] r IH]; cbn; intro H; [reflexivity|]. destruct (key_eqb k k'); [discriminate|]. now rewrite IH. Qed.

Lemma aset_aset {V} k (v w : V) l : aset k v (aset k w l) = aset k v l.
Proof.
  induction l as [|[k' v'] r IH]; cbn; [now rewrite key_eqb_refl|].
  destruct (key_eqb k k') eqn:E; cbn; [now rewrite key_eqb_refl|]. now rewrite E, IH.
Qed.

Lemma adel_fst_incl {V} k (l : list (key * V)) x : In x (map fst (adel k l)) -> In x (map fst l).
Proof. induction l as [|[k' v] r IH]; cbn; [auto|]. destruct (key_eqb k k'); cbn; [auto|]. intros [H|H]; auto. Qed.

Lemma adel_nodup {V} k (l : list (key * V)) : NoDup (map fst l) -> NoDup (map fst (adel k l)).
Proof.
  induction l as [|[k' v] r IH]; cbn; intro H; [constructor|]. inversion H as [|? ? Hni Hnd]; subst.
  destruct (key_eqb k k'); [exact Hnd|]. cbn. constructor; [|auto]. intro Hin. apply Hni. eapply adel_fst_incl; eauto.
Qed.

Lemma adel_Forall {V} (P : V -> Prop) k (l : list (key * V)) : Forall (fun kv => P (snd kv)) l -> Forall (fun kv => P (snd kv)) (adel k l).
Proof. induction 1 as [|[k' v] r Hh Hr IH]; cbn; [constructor|]. destruct (key_eqb k k'); [exact Hr|constructor; auto]. Qed.

Lemma aset_nodup_some {V} k (v w : V) l : aget k l = Some w -> NoDup (map fst l) -> NoDup (map fst (aset k v l)).
Proof. intros E H. now rewrite (aset_fst k v w l E). Qed.

(* ---------- classes ---------- *)
Lemma puk_PD_inv kv : puk (PD kv) -> NoDup (map fst kv) /\ Forall (fun kc => puk (snd kc)) kv.
Proof. intro H. inversion H; subst. auto. Qed.

Lemma Old_NewQ : forall n, Old n -> puk (erase n) -> NewQ n.
Proof.
  intros n H Hp. pose proof (Old_OldX n H Hp) as HX.
  assert (G : forall m, Old m -> OldX m -> NewQ m).
  { induction m as [k f v|k f x ch IH] using node_ind'; intros Ho Hx.
    - inversion Ho as [f0 v0 HOF| |]; subst. constructor. split; [now apply OF_OX|]. destruct HOF as (_ & _ & _ & h). exact h.
    - assert (HN : NX f) by (pose proof (Old_OF _ Ho) as HOF; cbn in HOF; split; [now apply OF_OX|]; destruct HOF as (_ & _ & _ & h); exact h).
      pose proof (Old_children _ Ho) as HC. pose proof (OldX_children _ Hx) as HCX. cbn in HC, HCX.
      assert (HF : Forall (fun kc => NewQ (snd kc)) ch).
      { clear - IH HC HCX. induction IH as [|kc r Hkc Hr IHr]; [constructor|]. inversion HC; subst. inversion HCX; subst. constructor; auto. }
      inversion Hx as [|f1 x1 ch1 _ _ Hnd|f1 x1 ch1 _ _ HK]; subst; constructor; auto. }
  exact (G n H HX).
Qed.

Definition WF (w : key * flags * scalar) : Prop := OF (snd (fst w)) /\ f_idel (snd (fst w)) = None.

Lemma OF_NX f : OF f -> NX f.
Proof. intros (a & b & c & d). split; [repeat split; auto|exact d]. Qed.

Lemma wf_kw_inew f x : OF f -> ck_inew (child_kwargs (Comp CDict f x [])) = None.
Proof. intros (_ & _ & h3 & h4). cbn. now rewrite h3. Qed.

Lemma wf_kw_idel f x : OF f -> f_idel f = None -> ck_idel (child_kwargs (Comp CDict f x [])) = None.
Proof. intros (_ & h2 & _ & _) hi. cbn. rewrite h2. try rewrite dict_default_delete. exact hi. Qed.

Lemma nflags_prop_as f n : nflags (prop_as f n) = f.
Proof. destruct n as [k f0 v|k f0 x ch]; [reflexivity|]. rewrite prop_as_comp. destruct (prop_stops f); reflexivity. Qed.

Lemma adopt_dict_idel f x n : OF f -> f_idel f = None -> f_idel (nflags (adopt (child_kwargs (Comp CDict f x [])) n)) = None.
Proof.
  intros HO hi. unfold adopt. cbn [child_kwargs ck_any]. rewrite nflags_prop_as. unfold adopt_flags. cbv zeta.
  pose proof (wf_kw_idel f x HO hi) as E. cbn [child_kwargs] in E.
  destruct (ob_eqb _ (Some false)); cbn; exact E.
Qed.

(* the adopted list is a document-side list *)
Lemma adopted_list_newp f x tf tx tch :
  OF f -> f_idel f = None -> Old (Comp CList tf tx tch) -> puk (erase (Comp CList tf tx tch)) ->
  NewP (adopt (child_kwargs (Comp CDict f x [])) (Comp CList tf tx tch)).
Proof.
  intros HO hi Ho Hp.
  pose proof (adopt_old (child_kwargs (Comp CDict f x [])) _ (wf_kw_inew f x HO) Ho) as Ha.
  assert (Hpa : puk (erase (adopt (child_kwargs (Comp CDict f x [])) (Comp CList tf tx tch)))) by (rewrite adopt_erase; exact Hp).
  pose proof (Old_NewQ _ Ha Hpa) as Hq.
  pose proof (adopt_dict_idel f x (Comp CList tf tx tch) HO hi) as Hi.
  assert (EA : exists f' ch', adopt (child_kwargs (Comp CDict f x [])) (Comp CList tf tx tch) = Comp CList f' tx ch').
  { unfold adopt. cbn [child_kwargs ck_any]. rewrite prop_as_comp. destruct (prop_stops _); eauto. }
  destruct EA as (f' & ch' & EA). rewrite EA in *. cbn [nflags] in Hi.
  inversion Hq as [| |f1 x1 ch1 HN HF HK]; subst. constructor; auto.
Qed.

(* ---------- list.extend on tag-free lists ---------- *)
Lemma append_one_old f x chs v :
  Old (Comp CList f x chs) -> Old v ->
  exists chs', set_child (Comp CList f x chs) (KI (zlen chs)) v = Some (Comp CList f x chs') /\
               map (fun kc => erase (snd kc)) chs' = map (fun kc => erase (snd kc)) chs ++ [erase v] /\ Old (Comp CList f x chs').
Proof.
  intros Ho Hv. inversion Ho as [| |f0 x0 ch0 HOF HF HK]; subst.
  destruct (append_one CList f x chs v eq_refl HK) as (chs' & E & C & K). exists chs'. split; [exact E|]. split; [exact C|].
  cbn [set_child is_listk] in E.
  destruct (validate_index (zlen chs) (KI (zlen chs)) false); try discriminate. inversion E; subst.
  constructor; [exact HOF| |exact K]. apply aset_Forall; [|exact HF].
  apply adopt_old; [apply (child_kwargs_old _ Ho)|exact Hv].
Qed.

Lemma extend_node_old f x : forall vals chs,
  Old (Comp CList f x chs) -> Forall (fun kc => Old (snd kc)) vals ->
  exists chs', extend_node (Comp CList f x chs) vals = Some (Comp CList f x chs') /\
               map (fun kc => erase (snd kc)) chs' = map (fun kc => erase (snd kc)) chs ++ map (fun kc => erase (snd kc)) vals /\
               Old (Comp CList f x chs').
Proof.
  unfold extend_node. cbn [is_listk].
  induction vals as [|[kv v] vals IH]; intros chs Ho HF; cbn [fold_left map].
  - exists chs. rewrite app_nil_r. auto.
  - inversion HF as [|? ? Hv HF']; subst. cbn [children snd] in *.
    destruct (append_one_old f x chs v Ho Hv) as (chs1 & E1 & C1 & O1). rewrite E1.
    destruct (IH chs1 O1 HF') as (chs2 & E2 & C2 & O2). exists chs2. split; [exact E2|]. split; [|exact O2].
    rewrite C2, C1, <- app_assoc. reflexivity.
Qed.

(* ---------- detaching the list, on nodes and on plain data ---------- *)
Lemma erase_dict f x ch : erase (Comp CDict f x ch) = PD (ech ch).
Proof. rewrite erase_comp. reflexivity. Qed.

Lemma ech_aget k ch : aget k (ech ch) = option_map erase (aget k ch).
Proof. unfold ech. apply (aget_map erase). Qed.

Lemma ech_aset k c ch : ech (aset k c ch) = aset k (erase c) (ech ch).
Proof. unfold ech. apply (aset_map erase). Qed.

Lemma ech_adel k ch : ech (adel k ch) = adel k (ech ch).
Proof. unfold ech. symmetry. apply (adel_map erase). Qed.

Lemma ahas_aget {V} k (l : list (key * V)) v : aget k l = Some v -> ahas k l = true.
Proof. unfold ahas. now intros ->. Qed.

Lemma puk_aget k kv c : puk (PD kv) -> aget k kv = Some c -> puk c.
Proof. intros H E. destruct (puk_PD_inv _ H) as [_ HF]. eapply aget_Forall; eauto. Qed.

Lemma app_at_cons2 kv k k2 r2 l :
  app_at (PD kv) (k :: k2 :: r2) l = match aget k kv with Some c => option_map (fun c' => PD (aset k c' kv)) (app_at c (k2 :: r2) l) | None => None end.
Proof. reflexivity. Qed.

Lemma pwrap_cons k r v : pwrap (k :: r) v = PD [(k, pwrap r v)].
Proof. reflexivity. Qed.

Lemma detach_plain : forall q root root' tf tx tch l,
  Old root -> puk (erase root) -> dpath root q ->
  remove_node root q = Some (Some (root', Comp CList tf tx tch)) ->
  Old root' /\ puk (erase root') /\ is_dictk root' = true /\ Old (Comp CList tf tx tch) /\ puk (erase (Comp CList tf tx tch)) /\
  exists X, app_at (erase root) q l = Some X /\
            upd (erase root') (pwrap q (PL (map (fun kc => erase (snd kc)) tch ++ l))) = Ok X.
Proof.
  induction q as [|k r IH]; intros root root' tf tx tch l Ho Hp Hd Hr; [discriminate|].
  destruct root as [lk lf lv|ck f x ch]; [contradiction|]. destruct ck; try contradiction.
  inversion Ho as [|f0 x0 ch0 HOF HF|]; subst.
  rewrite erase_dict in Hp. destruct (puk_PD_inv _ Hp) as [Hnd HFp].
  assert (Hndc : NoDup (map fst ch)) by (unfold ech in Hnd; rewrite map_map in Hnd; exact Hnd).
  destruct r as [|k2 r2].
  - cbn [remove_node has_child get_child is_listk remove_child] in Hr.
    destruct (ahas k ch) eqn:Eh; [|discriminate]. destruct (aget k ch) as [c|] eqn:Eg; [|discriminate]. inversion Hr; subst.
    assert (Hc : Old (Comp CList tf tx tch)) by (eapply aget_Forall; eauto).
    assert (Hpc : puk (erase (Comp CList tf tx tch))) by (eapply (puk_aget k (ech ch)); [exact Hp|rewrite ech_aget, Eg; reflexivity]).
    split; [apply OldDict; [exact HOF|apply adel_Forall; exact HF]|].
    split; [rewrite erase_dict, ech_adel; constructor; [apply adel_nodup; exact Hnd|apply adel_Forall; exact HFp]|].
    split; [reflexivity|]. split; [exact Hc|]. split; [exact Hpc|].
    rewrite !erase_dict. cbn [app_at pwrap]. rewrite ech_aget, Eg. cbn [option_map]. rewrite erase_comp. cbn [is_listk].
    eexists. split; [reflexivity|].
    rewrite upd_PD_PD. cbn [upd_dgo]. rewrite ech_adel, (aget_adel_nodup k (ech ch) Hnd).
    rewrite (aset_absent k _ _ (aget_adel_nodup k (ech ch) Hnd)). reflexivity.
  - change (remove_node (Comp CDict f x ch) (k :: k2 :: r2)) with
      (if has_child (Comp CDict f x ch) k then
         match get_child (Comp CDict f x ch) k with
         | Some c => match remove_node c (k2 :: r2) with
                     | Some (Some (c', removed)) => Some (Some (put_child (Comp CDict f x ch) k c', removed))
                     | Some None => Some None
                     | None => None
                     end
         | None => None
         end
       else Some None) in Hr.
    cbn [has_child get_child is_listk] in Hr. cbn [dpath] in Hd.
    destruct (aget k ch) as [c|] eqn:Eg; [|contradiction]. rewrite (ahas_aget k ch c Eg) in Hr.
    destruct (remove_node c (k2 :: r2)) as [[[c' rm]|]|] eqn:Er; try discriminate. inversion Hr; subst. clear Hr.
    assert (Hc : Old c) by (eapply aget_Forall; eauto).
    assert (Hpc : puk (erase c)) by (eapply (puk_aget k (ech ch)); [exact Hp|rewrite ech_aget, Eg; reflexivity]).
    destruct (IH c c' tf tx tch l Hc Hpc Hd Er) as (Ho' & Hp' & Hdk & HoT & HpT & X & EA & EU).
    cbn [put_child is_listk].
    split; [apply OldDict; [exact HOF|apply aset_Forall; [exact Ho'|exact HF]]|].
    split.
    { rewrite erase_dict, ech_aset. constructor.
      - rewrite (aset_fst k (erase c') (erase c) (ech ch)); [exact Hnd|rewrite ech_aget, Eg; reflexivity].
      - apply aset_Forall; [exact Hp'|exact HFp]. }
    split; [reflexivity|]. split; [exact HoT|]. split; [exact HpT|].
    rewrite !erase_dict. rewrite app_at_cons2, (pwrap_cons k). rewrite ech_aget, Eg. cbn [option_map]. rewrite EA. cbn [option_map].
    eexists. split; [reflexivity|].
    rewrite upd_PD_PD. cbn [upd_dgo]. rewrite ech_aset, aget_aset_eq.
    rewrite EU. cbn [bind]. now rewrite aset_aset.
Qed.

(* ---------- premerge of the document: the list is detached from the older tree, extended, and sits below the same chain ---------- *)
Lemma premerge_wrap e fa xa chs root root' T T' : forall ws p,
  ws <> [] ->
  remove_node root (p ++ wkeys ws) = Some (Some (root', T)) -> extend_node T chs = Some T' ->
  on_premerge e p (wrap ws (Comp CAppend fa xa chs)) (Some root) = Ok (wrapA ws T', Some root', false, []).
Proof.
  induction ws as [|[[k f] x] r IH]; intros p Hne Hr He; [congruence|].
  destruct r as [|w2 r2].
  - cbn [wrap wkeys map fst] in *. cbn [on_premerge]. rewrite Hr, He. cbn [bind]. cbn [map fst snd fold_left set_child is_listk aset].
    rewrite key_eqb_refl. reflexivity.
  - assert (Hr' : remove_node root ((p ++ [k]) ++ wkeys (w2 :: r2)) = Some (Some (root', T))).
    { rewrite <- app_assoc. exact Hr. }
    specialize (IH (p ++ [k]) ltac:(discriminate) Hr' He).
    change (wrap ((k, f, x) :: w2 :: r2) (Comp CAppend fa xa chs)) with (Comp CDict f x [(k, wrap (w2 :: r2) (Comp CAppend fa xa chs))]).
    cbn [on_premerge]. rewrite IH. cbn [bind]. cbn [map fst snd fold_left]. reflexivity.
Qed.

Lemma wrapA_newp T' : (forall f x, OF f -> f_idel f = None -> NewP (adopt (child_kwargs (Comp CDict f x [])) T')) ->
  forall ws, ws <> [] -> Forall WF ws -> NewP (wrapA ws T').
Proof.
  intros HA. induction ws as [|[[k f] x] r IH]; intros Hne HW; [congruence|].
  inversion HW as [|? ? [HO Hi] HW']; subst. cbn [fst snd] in HO, Hi.
  destruct r as [|w2 r2]; cbn [wrapA].
  - constructor; [apply OF_NX; exact HO|exact Hi|constructor; [cbn [snd]; apply HA; assumption|constructor]|cbn; constructor; [intros []|constructor]].
  - constructor; [apply OF_NX; exact HO|exact Hi|constructor; [cbn [snd]; apply IH; [discriminate|exact HW']|constructor]|cbn; constructor; [intros []|constructor]].
Qed.

Lemma wrapA_erase T' : forall ws, erase (wrapA ws T') = pwrap (wkeys ws) (erase T').
Proof.
  induction ws as [|[[k f] x] r IH]; [reflexivity|].
  destruct r as [|w2 r2].
  - cbn [wrapA wkeys map fst pwrap]. rewrite erase_dict. cbn [ech map fst snd]. now rewrite adopt_erase.
  - change (wrapA ((k, f, x) :: w2 :: r2) T') with (Comp CDict f x [(k, wrapA (w2 :: r2) T')]).
    rewrite erase_dict. cbn [ech map fst snd]. rewrite IH. reflexivity.
Qed.

(* C16, end to end *)
Theorem append_end_to_end e ws fa xa chs root root' tf tx tch :
  ws <> [] -> Forall WF ws -> Old root -> puk (erase root) -> dpath root (wkeys ws) ->
  remove_node root (wkeys ws) = Some (Some (root', Comp CList tf tx tch)) ->
  Forall (fun kc => Old (snd kc)) chs -> Forall (fun kc => puk (erase (snd kc))) chs ->
  exists n, merge2 e root (wrap ws (Comp CAppend fa xa chs)) = Ok n /\
            Some (erase n) = app_at (erase root) (wkeys ws) (map (fun kc => erase (snd kc)) chs).
Proof.
  intros Hne HW Ho Hp Hd Hr HOc HPc.
  destruct (detach_plain (wkeys ws) root root' tf tx tch (map (fun kc => erase (snd kc)) chs) Ho Hp Hd Hr)
    as (Ho' & Hp' & Hdk & HoT & HpT & X & EA & EU).
  destruct (extend_node_old tf tx chs tch HoT HOc) as (tch' & EE & EC & HoT').
  assert (HpT' : puk (erase (Comp CList tf tx tch'))).
  { rewrite erase_comp. cbn [is_listk]. rewrite EC. constructor. apply Forall_app. split.
    - rewrite erase_comp in HpT. cbn [is_listk] in HpT. inversion HpT; subst. assumption.
    - clear - HPc. induction HPc; cbn; constructor; auto. }
  pose proof (premerge_wrap e fa xa chs root root' _ _ ws [] Hne Hr EE) as EP.
  unfold merge2. rewrite EP. cbn [bind].
  assert (HN : NewP (wrapA ws (Comp CList tf tx tch'))).
  { apply wrapA_newp; [intros f x HO Hi; apply adopted_list_newp; assumption|exact Hne|exact HW]. }
  pose proof (merge_gen (nsize root' + nsize (wrapA ws (Comp CList tf tx tch')) + 1) [] root' _ (Old_OldX _ Ho' Hp') HN ltac:(lia)) as HM.
  rewrite wrapA_erase, erase_comp in HM. cbn [is_listk] in HM. rewrite EC, EU in HM. cbn [RelG] in HM.
  destruct HM as (n & w & E & _ & En & _). rewrite E. cbn [bind fst]. exists n. split; [reflexivity|]. now rewrite En, EA.
Qed.

(* ---------- what app_at means path by path: the list at q grows, every path that leaves q's spine keeps its value ---------- *)
Fixpoint pat (d : plain) (q : path) : option plain :=
  match q with
  | [] => Some d
  | k :: r => match d with PD kv => match aget k kv with Some c => pat c r | None => None end | _ => None end
  end.

(* the two paths part at some key *)
Fixpoint diverge (q q' : path) : Prop :=
  match q, q' with
  | k :: r, k' :: r' => if key_eqb k k' then diverge r r' else True
  | _, _ => False
  end.

Lemma aget_app_r {V} k (l l2 : list (key * V)) : aget k l = None -> aget k (l ++ l2) = aget k l2.
Proof. induction l as [|[k' v] r IH]; cbn; intro H; [reflexivity|]. destruct (key_eqb k k'); [discriminate|auto]. Qed.

Lemma aget_app_l {V} k (l l2 : list (key * V)) v : aget k l = Some v -> aget k (l ++ l2) = Some v.
Proof. induction l as [|[k' v'] r IH]; cbn; intro H; [discriminate|]. destruct (key_eqb k k'); auto. Qed.

Lemma aget_adel_neq {V} k k' (l : list (key * V)) : key_eqb k' k = false -> aget k' (adel k l) = aget k' l.
Proof.
  intro E. induction l as [|[k2 v] r IH]; cbn; [reflexivity|].
  destruct (key_eqb k k2) eqn:E2.
  - apply key_eqb_eq in E2. subst k2. now rewrite E.
  - cbn. now rewrite IH.
Qed.

Lemma app_at_one kv k l : app_at (PD kv) [k] l = match aget k kv with Some (PL l0) => Some (PD (adel k kv ++ [(k, PL (l0 ++ l))])) | _ => None end.
Proof. cbn. destruct (aget k kv) as [[| |]|]; reflexivity. Qed.

(* the list at q has grown by l ... *)
Lemma app_at_at : forall q d l X, puk d -> app_at d q l = Some X ->
  exists l0, pat d q = Some (PL l0) /\ pat X q = Some (PL (l0 ++ l)).
Proof.
  induction q as [|k r IH]; intros d l X Hp H; [discriminate|].
  destruct d as [v|kv|ll]; try discriminate. destruct (puk_PD_inv _ Hp) as [Hnd HF].
  destruct r as [|k2 r2].
  - rewrite app_at_one in H. destruct (aget k kv) as [[v|kv2|l0]|] eqn:Eg; try discriminate. inversion H; subst.
    exists l0. cbn [pat]. rewrite Eg. split; [reflexivity|].
    rewrite (aget_app_r k _ _ (aget_adel_nodup k kv Hnd)). cbn. now rewrite key_eqb_refl.
  - rewrite app_at_cons2 in H. destruct (aget k kv) as [c|] eqn:Eg; [|discriminate].
    destruct (app_at c (k2 :: r2) l) as [c'|] eqn:Ec; [|discriminate]. inversion H; subst.
    destruct (IH c l c' (aget_Forall puk k kv c HF Eg) Ec) as (l0 & P1 & P2).
    exists l0. cbn [pat]. rewrite Eg, aget_aset_eq. auto.
Qed.

(* ... and every path that leaves the spine of q keeps its value *)
Lemma app_at_frame : forall q d l X q', puk d -> app_at d q l = Some X -> diverge q q' -> pat X q' = pat d q'.
Proof.
  induction q as [|k r IH]; intros d l X q' Hp H Hd; [discriminate|].
  destruct d as [v|kv|ll]; try discriminate. destruct (puk_PD_inv _ Hp) as [Hnd HF].
  destruct q' as [|k' r']; [contradiction|]. cbn [diverge] in Hd.
  destruct r as [|k2 r2].
  - rewrite app_at_one in H. destruct (aget k kv) as [[v|kv2|l0]|] eqn:Eg; try discriminate. inversion H; subst.
    destruct (key_eqb k k') eqn:Ek; [destruct r'; contradiction|].
    assert (Ek' : key_eqb k' k = false).
    { apply key_eqb_neq. intro E. subst. rewrite key_eqb_refl in Ek. discriminate. }
    cbn [pat].
    assert (E : aget k' (adel k kv ++ [(k, PL (l0 ++ l))]) = aget k' kv).
    { rewrite <- (aget_adel_neq k k' kv Ek'). destruct (aget k' (adel k kv)) as [v|] eqn:Ea.
      - now apply aget_app_l.
      - rewrite (aget_app_r k' _ _ Ea). cbn. now rewrite Ek'. }
    now rewrite E.
  - rewrite app_at_cons2 in H. destruct (aget k kv) as [c|] eqn:Eg; [|discriminate].
    destruct (app_at c (k2 :: r2) l) as [c'|] eqn:Ec; [|discriminate]. inversion H; subst. cbn [pat].
    destruct (key_eqb k k') eqn:Ek.
    + apply key_eqb_eq in Ek. subst k'. rewrite aget_aset_eq, Eg.
      apply (IH c l c' r' (aget_Forall puk k kv c HF Eg) Ec Hd).
    + assert (Ek' : key_eqb k' k = false).
      { apply key_eqb_neq. intro E. subst. rewrite key_eqb_refl in Ek. discriminate. }
      now rewrite (aget_aset_neq k' k c' kv Ek').
Qed.
