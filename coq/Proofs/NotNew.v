(* Proofs/NotNew.v — !notnew content cannot create keys (C08). *)
From AY Require Import Model.Merge Proofs.NodeInd Proofs.FlagsLemmas Proofs.FactsOk.

Lemma require_self_false n p exc : allow_new (nflags n) = false -> path_in p exc = false -> require_all_new n p exc true = false.
Proof.
  intros Ha He. unfold require_all_new. destruct n as [k f v|k f x ch].
  - cbn. cbn in Ha. now rewrite Ha, He.
  - unfold nodes_with_paths. rewrite nwp_comp. cbn [forallb fst snd nflags]. cbn [nflags] in Ha. now rewrite Ha, He.
Qed.

(* a key that does not exist yet is refused when the incoming node does not allow new paths *)
Theorem new_key_rejected rec als p cur k v :
  get_child cur k = None -> allow_new (nflags v) = false ->
  merge_step rec als p (Ok cur) (k, v) = Err EMerge p.
Proof.
  intros Hg Ha. unfold merge_step. cbn [bind]. rewrite Hg.
  rewrite require_self_false; [reflexivity|exact Ha|reflexivity].
Qed.

(* any node of a first document that does not allow new paths makes the build fail *)
Lemma require_any_false : forall n p q m, In (q, m) (nwp p n) -> allow_new (nflags m) = false -> require_all_new n p [] true = false.
Proof.
  intros n p q m Hin Ha. unfold require_all_new.
  assert (E : forallb (fun pn : path * node => (allow_new (nflags (snd pn)) || path_in (fst pn) [])%bool) (nwp p n) = false).
  { apply not_true_is_false. intro H. rewrite forallb_forall in H. specialize (H (q, m) Hin). cbn in H. rewrite Ha in H. discriminate. }
  destruct n as [k f v|k f x ch].
  - cbn in E. exact E.
  - exact E.
Qed.

Theorem first_stage_notnew e s0 s0' q m :
  is_dictk s0 = true ->
  on_premerge e [] s0 None = Ok (s0', None, false, []) ->
  In (q, m) (nwp [] s0') -> allow_new (nflags m) = false ->
  flatten e [s0] = Err EMerge [].
Proof.
  intros Hd Hp Hin Ha. unfold flatten. cbn [forallb]. rewrite Hd. cbn [andb]. rewrite Hp. cbn [bind].
  now rewrite (require_any_false s0' [] q m Hin Ha).
Qed.

(* the effective allow_new of a node is decided by its implicit flag alone: the node's own !new / !notnew governs its children only *)
Lemma allow_new_own_flag_irrelevant f v : allow_new (set_inew (mkF (f_prio f) (f_del f) v (f_safe f) (f_idel f) (f_inew f) (f_isafe f) (f_dsafe f) (f_meta f) (f_src f)) (f_inew f)) = allow_new f.
Proof. reflexivity. Qed.

Lemma child_kwargs_notnew k f x ch : f_new f = Some false -> k <> CStream -> ck_inew (child_kwargs (Comp k f x ch)) = Some false.
Proof. intros H Hk. destruct k; cbn; try rewrite H; try reflexivity. congruence. Qed.

Lemma child_kwargs_new k f x ch : f_new f = Some true -> k <> CStream -> ck_inew (child_kwargs (Comp k f x ch)) = Some true.
Proof. intros H Hk. destruct k; cbn; try rewrite H; try reflexivity. congruence. Qed.
