(* Proofs/PathRefLemmas.v — a file-relative !path denotes a location that depends only on WHERE its file is. *)
From AY Require Import Model.PathRef.

Lemma norm_stack_app abs a b : norm_stack abs (a ++ b) = fold_left (push abs) b (norm_stack abs a).
Proof. unfold norm_stack. apply fold_left_app. Qed.

(* feeding the normal form of a relative piece instead of the piece itself does not change an absolute normalisation *)
Lemma fold_norm_rel : forall x A,
  fold_left (push true) (rev (norm_stack false x)) A = fold_left (push true) x A.
Proof.
  intros x. induction x as [|c x IH] using rev_ind; intros A; [reflexivity|].
  rewrite norm_stack_app. cbn [fold_left]. rewrite fold_left_app. cbn [fold_left]. rewrite <- IH.
  destruct c as [|n].
  - cbn [push]. destruct (norm_stack false x) as [|[|m] r] eqn:E.
    + cbn [rev app fold_left push]. reflexivity.
    + cbn [rev]. rewrite fold_left_app. cbn [fold_left]. reflexivity.
    + cbn [rev]. rewrite fold_left_app. cbn [fold_left push]. reflexivity.
  - cbn [push rev]. rewrite fold_left_app. reflexivity.
Qed.

(* an absolute normal form consists of names only, so normalising it again changes nothing *)
Lemma push_true_names st c : Forall (fun x => x <> Up) st -> Forall (fun x => x <> Up) (push true st c).
Proof.
  intros H. destruct c as [|n]; cbn [push].
  - destruct st as [|[|m] r]; [exact H|exact H|now inversion H].
  - constructor; [discriminate|exact H].
Qed.

Lemma norm_true_names : forall l st, Forall (fun x => x <> Up) st -> Forall (fun x => x <> Up) (fold_left (push true) l st).
Proof. induction l as [|c l IH]; intros st H; [exact H|]. cbn [fold_left]. apply IH. now apply push_true_names. Qed.

Lemma fold_names : forall l A, Forall (fun x => x <> Up) l -> fold_left (push true) l A = rev l ++ A.
Proof.
  induction l as [|c l IH]; intros A H; [reflexivity|]. inversion H as [|? ? Hc Hl]; subst. cbn [fold_left rev].
  destruct c as [|n]; [congruence|]. cbn [push]. rewrite IH by exact Hl. now rewrite <- app_assoc.
Qed.

Lemma locate_parent_ref cwd src n args :
  locate cwd (parent_ref src n args) = rev (fold_left (push true) (repeat Up (S n) ++ args) (rev (locate cwd src))).
Proof.
  unfold locate, parent_ref, normpath. cbn [p_abs p_comps]. rewrite !rev_involutive. f_equal.
  destruct (p_abs src).
  - (* absolute source *)
    rewrite norm_stack_app.
    set (S0 := norm_stack true (p_comps src)).
    assert (HS : Forall (fun x => x <> Up) S0) by (apply norm_true_names; constructor).
    set (T := fold_left (push true) (repeat Up (S n) ++ args) S0).
    assert (HT : Forall (fun x => x <> Up) T) by (apply norm_true_names; exact HS).
    unfold norm_stack. rewrite fold_names by (apply Forall_rev; exact HT). now rewrite rev_involutive, app_nil_r.
  - (* relative source: located below cwd *)
    rewrite (norm_stack_app true cwd). rewrite fold_norm_rel. rewrite fold_left_app, (norm_stack_app true cwd). reflexivity.
Qed.

Theorem path_spelling_irrelevant cwd1 s1 cwd2 s2 n args :
  locate cwd1 s1 = locate cwd2 s2 -> locate cwd1 (parent_ref s1 n args) = locate cwd2 (parent_ref s2 n args).
Proof. intros H. rewrite !locate_parent_ref. now rewrite H. Qed.
