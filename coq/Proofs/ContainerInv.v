(* Proofs/ContainerInv.v — the two stores of a container stay in sync under every mutator (C17). *)
From AY Require Import Model.Container Proofs.NodeInd.

Definition LInv (s : lst) : Prop := lchil s = enumerate_from 0 (lstore s) /\ Forall (fun v => is_nd v = true) (lstore s).
Definition DInv (s : dct) : Prop := dchil s = dstore s /\ Forall (fun kv => is_nd (snd kv) = true) (dstore s).

Lemma is_nd_adoptv v : is_nd (adoptv v) = true.
Proof. destruct v; reflexivity. Qed.

(* ---------- enumerate / aset / adel ---------- *)
Lemma enumerate_app : forall l i r, enumerate_from i (l ++ r) = enumerate_from i l ++ enumerate_from (i + zlen l) r.
Proof.
  induction l as [|v l IH]; intros i r.
  - unfold zlen. cbn. now replace (i + 0) with i by lia.
  - cbn [enumerate_from app]. rewrite IH. do 3 f_equal. unfold zlen. cbn [length]. lia.
Qed.

Lemma aget_enum_none : forall l i j, j < i -> aget (KI j) (enumerate_from i l) = None.
Proof.
  induction l as [|v l IH]; intros i j H; cbn; [reflexivity|].
  assert (j =? i = false) as -> by (apply Z.eqb_neq; lia). apply IH. lia.
Qed.

Lemma aset_enum_append : forall l i v, aset (KI (i + zlen l)) v (enumerate_from i l) = enumerate_from i (l ++ [v]).
Proof.
  induction l as [|x l IH]; intros i v.
  - unfold zlen. cbn. now replace (i + 0) with i by lia.
  - cbn [enumerate_from aset key_eqb app].
    assert (i + zlen (x :: l) =? i = false) as -> by (apply Z.eqb_neq; unfold zlen; cbn [length]; lia).
    f_equal. replace (i + zlen (x :: l)) with ((i + 1) + zlen l) by (unfold zlen; cbn [length]; lia). apply IH.
Qed.

Lemma aset_enum_set : forall l i j v, 0 <= j < zlen l ->
  aset (KI (i + j)) v (enumerate_from i l) = enumerate_from i (lset_nth (Z.to_nat j) v l).
Proof.
  induction l as [|x l IH]; intros i j v H.
  - unfold zlen in H. cbn in H. lia.
  - cbn [enumerate_from aset key_eqb]. destruct (Z.eq_dec j 0) as [->|Hne].
    + replace (i + 0) with i by lia. rewrite Z.eqb_refl. reflexivity.
    + assert (i + j =? i = false) as -> by (apply Z.eqb_neq; lia).
      replace (Z.to_nat j) with (S (Z.to_nat (j - 1))) by lia. cbn [lset_nth enumerate_from]. f_equal.
      replace (i + j) with ((i + 1) + (j - 1)) by lia. apply IH. unfold zlen in *. cbn [length] in H. lia.
Qed.

Lemma adel_enum_last : forall l i, l <> [] -> adel (KI (i + zlen l - 1)) (enumerate_from i l) = enumerate_from i (removelast l).
Proof.
  induction l as [|x l IH]; intros i H; [congruence|].
  destruct l as [|y l'].
  - cbn. unfold zlen. cbn. replace (i + 1 - 1) with i by lia. now rewrite Z.eqb_refl.
  - cbn [enumerate_from adel key_eqb].
    assert (i + zlen (x :: y :: l') - 1 =? i = false) as -> by (apply Z.eqb_neq; unfold zlen; cbn [length]; lia).
    cbn [removelast]. cbn [enumerate_from]. f_equal.
    replace (i + zlen (x :: y :: l') - 1) with ((i + 1) + zlen (y :: l') - 1) by (unfold zlen; cbn [length]; lia).
    apply (IH (i + 1)). congruence.
Qed.

Lemma lset_nth_length {A} : forall (l : list A) i v, length (lset_nth i v l) = length l.
Proof. induction l as [|x l IH]; intros [|i] v; cbn; auto. Qed.

Lemma lset_nth_Forall {A} (P : A -> Prop) : forall (l : list A) i v, P v -> Forall P l -> Forall P (lset_nth i v l).
Proof. induction l as [|x l IH]; intros [|i] v Hv HF; cbn; auto; inversion HF; subst; constructor; auto. Qed.

Lemma insert_nth_Forall {A} (P : A -> Prop) : forall i (l : list A) v, P v -> Forall P l -> Forall P (insert_nth i v l).
Proof.
  induction i as [|i IH]; intros l v Hv HF; cbn; [constructor; auto|].
  destruct l; [constructor; auto|]. inversion HF; subst. constructor; auto.
Qed.

Lemma removelast_Forall {A} (P : A -> Prop) : forall (l : list A), Forall P l -> Forall P (removelast l).
Proof.
  induction l as [|x l IH]; intro HF; cbn; [constructor|]. inversion HF; subst.
  destruct l; [constructor|]. constructor; auto.
Qed.

Lemma validate_range len k strict i : 0 <= len -> validate_index len k strict = IdxOk i ->
  0 <= i <= len /\ (strict = true -> i < len).
Proof.
  intros Hl. unfold validate_index. destruct k as [z|]; [|discriminate].
  destruct (strict && ((Z.abs z >? len) || (z =? len)))%bool eqn:E; [discriminate|].
  intro H. inversion H; subst. split; [lia|].
  intro Hs. subst strict. cbn in E. apply orb_false_elim in E. destruct E as [E1 E2].
  assert (Z.abs z <= len) by (destruct (Z.gtb_spec (Z.abs z) len); [discriminate|lia]).
  apply Z.eqb_neq in E2. destruct (Z.ltb_spec z 0); lia.
Qed.

Lemma zlen_nonneg {A} (l : list A) : 0 <= zlen l.
Proof. unfold zlen. lia. Qed.

(* ---------- lists ---------- *)
Lemma l_set_inv s k v strict : LInv s -> LInv (fst (l_set s k v strict)).
Proof.
  intros [Hc Hn]. unfold l_set.
  destruct (validate_index (zlen (lstore s)) k strict) as [i| |] eqn:Ev; cbn [fst]; try (split; assumption).
  destruct (validate_range _ _ _ _ (zlen_nonneg _) Ev) as [Hi _].
  destruct (Z.eqb_spec i (zlen (lstore s))) as [->|Hne]; cbn [fst]; split; cbn [lchil lstore].
  - rewrite Hc. apply (aset_enum_append (lstore s) 0).
  - apply Forall_app. split; auto. constructor; [apply is_nd_adoptv|constructor].
  - rewrite Hc. apply (aset_enum_set (lstore s) 0 i). lia.
  - apply lset_nth_Forall; auto. apply is_nd_adoptv.
Qed.

Lemma l_set_length s k v : forall i, validate_index (zlen (lstore s)) k true = IdxOk i ->
  length (lstore (fst (l_set s k v true))) = length (lstore s).
Proof.
  intros i Ev. unfold l_set. rewrite Ev.
  destruct (validate_range _ _ _ _ (zlen_nonneg _) Ev) as [Hi Hs]. specialize (Hs eq_refl).
  destruct (Z.eqb_spec i (zlen (lstore s))); [lia|]. cbn. apply lset_nth_length.
Qed.

Lemma l_shift_inv : forall n s j, LInv s -> LInv (l_shift s j n) /\ (1 <= j -> length (lstore (l_shift s j n)) = length (lstore s)).
Proof.
  induction n as [|n IH]; intros s j H; cbn; [auto|].
  destruct (nth_error (lstore s) (Z.to_nat j)) as [v|] eqn:En; [|auto].
  pose proof (l_set_inv s (KI (j - 1)) v true H) as H1.
  destruct (IH (fst (l_set s (KI (j - 1)) v true)) (j + 1) H1) as [I1 I2].
  split; [exact I1|]. intro Hj. rewrite I2 by lia.
  assert (Hlt : (Z.to_nat j < length (lstore s))%nat) by (apply nth_error_Some; congruence).
  assert (Ev : validate_index (zlen (lstore s)) (KI (j - 1)) true = IdxOk (j - 1)).
  { unfold validate_index, zlen. cbn [andb].
    assert ((Z.abs (j - 1) >? Z.of_nat (length (lstore s))) = false) as -> by (destruct (Z.gtb_spec (Z.abs (j - 1)) (Z.of_nat (length (lstore s)))); [lia|reflexivity]).
    assert ((j - 1 =? Z.of_nat (length (lstore s))) = false) as -> by (apply Z.eqb_neq; lia).
    cbn [orb]. assert (j - 1 <? 0 = false) as -> by (apply Z.ltb_ge; lia). f_equal. lia. }
  apply (l_set_length s (KI (j - 1)) v (j - 1) Ev).
Qed.

Lemma l_del_inv s k : LInv s -> LInv (fst (l_del s k)).
Proof.
  intro H. unfold l_del.
  destruct (validate_index (zlen (lstore s)) k true) as [i| |] eqn:Ev; cbn [fst]; auto.
  destruct (nth_error (lstore s) (Z.to_nat i)) as [ret|] eqn:En; cbn [fst]; auto.
  destruct (validate_range _ _ _ _ (zlen_nonneg _) Ev) as [Hi Hs]. specialize (Hs eq_refl).
  destruct (l_shift_inv (Z.to_nat (zlen (lstore s) - i - 1)) s (i + 1) H) as [[Hc Hn] Hlen].
  specialize (Hlen ltac:(lia)).
  set (s1 := l_shift s (i + 1) (Z.to_nat (zlen (lstore s) - i - 1))) in *.
  split; cbn [lchil lstore].
  - rewrite Hc.
    assert (Hne : lstore s1 <> []) by (intro E; rewrite E in Hlen; unfold zlen in *; cbn in Hlen; lia).
    replace (zlen (lstore s) - 1) with (0 + zlen (lstore s1) - 1) by (unfold zlen; lia).
    apply adel_enum_last; exact Hne.
  - apply removelast_Forall; exact Hn.
Qed.

Lemma l_append_inv s v : LInv s -> LInv (l_append s v).
Proof.
  intros [Hc Hn]. unfold l_append. split; cbn [lchil lstore].
  - rewrite Hc. apply (aset_enum_append (lstore s) 0).
  - apply Forall_app. split; auto. constructor; [apply is_nd_adoptv|constructor].
Qed.

Theorem lstep_inv s o : LInv s -> LInv (fst (lstep s o)).
Proof.
  intro H. destruct o; cbn [lstep].
  - apply l_set_inv; exact H.
  - apply l_del_inv; exact H.
  - cbn [fst]. apply l_append_inv; exact H.
  - destruct (validate_index (zlen (lstore s)) k false) as [i| |]; cbn [fst]; auto.
    split; cbn [lchil lstore]; [reflexivity|]. destruct H as [_ Hn]. apply insert_nth_Forall; auto. apply is_nd_adoptv.
  - cbn [fst]. revert s H. induction vs as [|v vs IH]; intros s H; cbn; auto. apply IH, l_append_inv, H.
  - destruct (index_of (payload v) (lstore s) 0); cbn [fst]; auto. apply l_del_inv; exact H.
  - apply l_del_inv; exact H.
  - cbn. split; [reflexivity|constructor].
  - apply l_set_inv; exact H.
  - apply l_del_inv; exact H.
  - exact H.
Qed.

(* an operation that fails leaves the list as it was *)
Theorem lstep_error_unchanged s o : LInv s ->
  (match snd (lstep s o) with TypeErr | IndexErr | KeyErr | ValueErr => True | _ => False end) -> fst (lstep s o) = s.
Proof.
  intros H. destruct o; cbn [lstep]; unfold l_set, l_del;
    repeat match goal with
           | |- context [validate_index ?a ?b ?c] => destruct (validate_index a b c)
           | |- context [nth_error ?a ?b] => destruct (nth_error a b)
           | |- context [index_of ?a ?b ?c] => destruct (index_of a b c)
           | |- context [?a =? ?b] => destruct (a =? b)
           end; cbn; try tauto; try reflexivity.
Qed.

Theorem lsteps_inv ops : forall s, LInv s -> LInv (fold_left (fun s o => fst (lstep s o)) ops s).
Proof. induction ops as [|o ops IH]; intros s H; cbn; auto. apply IH, lstep_inv, H. Qed.

Lemma LInv_init vs : LInv (mkL (map adoptv vs) (enumerate_from 0 (map adoptv vs))).
Proof. split; [reflexivity|]. cbn. induction vs; cbn; constructor; auto using is_nd_adoptv. Qed.

(* ---------- dicts ---------- *)
Lemma adel_Forall {V} (P : V -> Prop) k (l : list (key * V)) : Forall (fun kv => P (snd kv)) l -> Forall (fun kv => P (snd kv)) (adel k l).
Proof. induction 1 as [|[k' v] r Hh Hr IH]; cbn; [constructor|]. destruct (key_eqb k k'); auto. Qed.

Lemma aset_Forall' {V} (P : V -> Prop) k v (l : list (key * V)) : P v -> Forall (fun kv => P (snd kv)) l -> Forall (fun kv => P (snd kv)) (aset k v l).
Proof. intros Hv. induction 1 as [|[k' v'] r Hh Hr IH]; cbn; [constructor; auto|]. destruct (key_eqb k k'); constructor; auto. Qed.

Lemma d_set_inv s k v : DInv s -> DInv (d_set s k v).
Proof. intros [Hc Hn]. unfold d_set. split; cbn; [now rewrite Hc|]. apply (aset_Forall' (fun v => is_nd v = true)); auto. apply is_nd_adoptv. Qed.

Theorem dstep_inv s o : DInv s -> DInv (fst (dstep s o)).
Proof.
  intros H. pose proof H as [Hc Hn]. destruct o; cbn [dstep].
  - cbn [fst]. apply d_set_inv; exact H.
  - destruct (ahas k (dstore s)) eqn:E; cbn [fst]; split; cbn; rewrite ?Hc; auto using (adel_Forall (fun v => is_nd v = true)).
    unfold ahas in E. clear - E. induction (dstore s) as [|[k' v] r IH]; cbn in *; [reflexivity|].
    destruct (key_eqb k k'); [discriminate|]. f_equal. auto.
  - destruct (aget k (dstore s)) as [v|] eqn:E; [|destruct dflt]; cbn [fst]; auto; split; cbn; rewrite ?Hc; auto using (adel_Forall (fun v => is_nd v = true)).
    clear - E. induction (dstore s) as [|[k' v] r IH]; cbn in *; [reflexivity|].
    destruct (key_eqb k k'); [discriminate|]. f_equal. auto.
  - destruct (ahas k (dchil s)); cbn [fst]; auto. apply d_set_inv; exact H.
  - cbn [fst]. revert s H Hc Hn. induction kvs as [|kv kvs IH]; intros s H Hc Hn; cbn; auto.
    pose proof (d_set_inv s (fst kv) (snd kv) H) as H'. destruct H' as [Hc' Hn']. apply IH; auto. split; auto.
  - cbn. split; [reflexivity|constructor].
  - destruct (negb (ahas a (dchil s))); cbn [fst]; auto.
    destruct (ahas b (dchil s)); cbn [fst]; auto.
    destruct (aget a (dchil s)) as [c|] eqn:Ea; cbn [fst]; auto.
    assert (Hcn : is_nd c = true).
    { rewrite Hc in Ea. clear - Ea Hn. induction Hn as [|[k' v] r Hh Hr IH]; cbn in *; [discriminate|].
      destruct (key_eqb a k'); [inversion Ea; subst; auto|auto]. }
    destruct (ahas a (dstore s)) eqn:E; cbn [fst].
    + split; cbn; [now rewrite Hc|]. apply (aset_Forall' (fun v => is_nd v = true)); auto. apply (adel_Forall (fun v => is_nd v = true)); auto.
    + exfalso. rewrite Hc in Ea. unfold ahas in E. rewrite Ea in E. discriminate.
Qed.

Theorem dsteps_inv ops : forall s, DInv s -> DInv (fold_left (fun s o => fst (dstep s o)) ops s).
Proof. induction ops as [|o ops IH]; intros s H; cbn; auto. apply IH, dstep_inv, H. Qed.
