(* Proofs/PlainPath.v — C02's reference update, path by path (extension round 7).
   Spec.Update.upd characterised key by key (pointwise), key ORDER of the result, and along arbitrary mapping paths:
   a path the newer document leaves at a mapping keeps its old content; a path at which the newer document holds a
   scalar or a list holds exactly that value afterwards; whole-history versions for the fold. *)
From AY Require Import Model.Merge Spec.Update Proofs.NodeInd Proofs.MergePlain Proofs.MergeNotNew Proofs.AppendE2E.

(* ---------- one level: upd_dgo key by key ---------- *)
Lemma aget_none_notin {V} k (l : list (key * V)) : aget k l = None -> ~ In k (map fst l).
Proof.
  induction l as [|[k' v] r IH]; cbn; intros H HI; [exact HI|]. destruct HI as [E|HI].
  - subst k'. now rewrite key_eqb_refl in H.
  - destruct (key_eqb k k'); [discriminate|exact (IH H HI)].
Qed.

Lemma aget_notin_none {V} k (l : list (key * V)) : ~ In k (map fst l) -> aget k l = None.
Proof.
  induction l as [|[k' v] r IH]; cbn; intro H; [reflexivity|].
  destruct (key_eqb k k') eqn:E; [apply key_eqb_eq in E; subst; exfalso; apply H; now left|apply IH; intro; apply H; now right].
Qed.

(* the value the update leaves under a key the newer mapping mentions (once) *)
Lemma upd_dgo_hit : forall kv acc r k v, NoDup (map fst kv) -> upd_dgo kv acc = Ok r -> aget k kv = Some v ->
  match aget k acc with
  | Some ov => exists m, upd ov v = Ok m /\ aget k r = Some m
  | None => aget k r = Some v
  end.
Proof.
  induction kv as [|[k' v'] rest IH]; intros acc r k v Hnd H Hk; [discriminate|].
  cbn [map fst] in Hnd. inversion Hnd as [|? ? Hni Hnd']; subst.
  cbn [upd_dgo] in H. cbn [aget] in Hk. destruct (key_eqb k k') eqn:E.
  - apply key_eqb_eq in E. subst k'. inversion Hk; subst v'. clear Hk.
    pose proof (aget_notin_none _ _ Hni) as Hrest.
    destruct (aget k acc) as [ov|].
    + destruct (upd ov v) as [m|] eqn:Eu; cbn in H; [|discriminate]. exists m. split; [reflexivity|].
      rewrite (upd_dgo_untouched _ _ _ _ H Hrest). apply aget_aset_eq.
    + rewrite (upd_dgo_untouched _ _ _ _ H Hrest). apply aget_aset_eq.
  - assert (Hacc : forall m, aget k (aset k' m acc) = aget k acc) by (intro m; apply aget_aset_neq; exact E).
    destruct (aget k' acc) as [ov'|].
    + destruct (upd ov' v') as [m'|]; cbn in H; [|discriminate].
      specialize (IH _ _ _ _ Hnd' H Hk). now rewrite Hacc in IH.
    + specialize (IH _ _ _ _ Hnd' H Hk). now rewrite Hacc in IH.
Qed.

(* key by key: the result of updating one mapping by another *)
Lemma upd_pointwise okv kv r k : NoDup (map fst kv) -> upd (PD okv) (PD kv) = Ok (PD r) ->
  match aget k kv, aget k okv with
  | None, o => aget k r = o
  | Some v, None => aget k r = Some v
  | Some v, Some ov => exists m, upd ov v = Ok m /\ aget k r = Some m
  end.
Proof.
  intros Hnd H. rewrite upd_PD_PD in H. destruct (upd_dgo kv okv) as [r'|] eqn:E; cbn in H; inversion H; subst r'.
  destruct (aget k kv) as [v|] eqn:Ek.
  - pose proof (upd_dgo_hit _ _ _ _ _ Hnd E Ek) as Hh. destruct (aget k okv); exact Hh.
  - exact (upd_dgo_untouched _ _ _ _ E Ek).
Qed.

(* ---------- key order: old keys keep their positions, new keys are appended in the newer document's order ---------- *)
Lemma aset_keys_some {V} k (v w : V) l : aget k l = Some w -> map fst (aset k v l) = map fst l.
Proof.
  induction l as [|[k' v'] r IH]; cbn; intro H; [discriminate|].
  destruct (key_eqb k k') eqn:E; cbn; [apply key_eqb_eq in E; now subst|f_equal; auto].
Qed.

Lemma aset_keys_none {V} k (v : V) l : aget k l = None -> map fst (aset k v l) = map fst l ++ [k].
Proof.
  induction l as [|[k' v'] r IH]; cbn; intro H; [reflexivity|].
  destruct (key_eqb k k') eqn:E; [discriminate|cbn; f_equal; auto].
Qed.

Lemma ahas_aset_other {V} k k' (v : V) l : key_eqb k k' = false -> ahas k (aset k' v l) = ahas k l.
Proof. intro H. unfold ahas. now rewrite aget_aset_neq. Qed.

Lemma ahas_aset_some {V} k k' (v w : V) l : aget k' l = Some w -> ahas k (aset k' v l) = ahas k l.
Proof.
  intro H. destruct (key_eqb k k') eqn:E; [|now apply ahas_aset_other].
  apply key_eqb_eq in E. subst k'. unfold ahas. now rewrite aget_aset_eq, H.
Qed.

Lemma upd_dgo_keys : forall kv acc r, NoDup (map fst kv) -> upd_dgo kv acc = Ok r ->
  map fst r = map fst acc ++ filter (fun k => negb (ahas k acc)) (map fst kv).
Proof.
  induction kv as [|[k v] rest IH]; intros acc r Hnd H.
  - cbn in *. inversion H; subst. now rewrite app_nil_r.
  - cbn [map fst] in Hnd. inversion Hnd as [|? ? Hni Hnd']; subst. cbn [upd_dgo] in H. cbn [map fst filter].
    destruct (aget k acc) as [ov|] eqn:Ea.
    + destruct (upd ov v) as [m|]; cbn in H; [|discriminate].
      rewrite (IH _ _ Hnd' H), (aset_keys_some _ _ _ _ Ea). unfold ahas at 2. rewrite Ea. cbn [negb]. f_equal.
      apply filter_ext. intro k'. now rewrite (ahas_aset_some _ _ _ _ _ Ea).
    + rewrite (IH _ _ Hnd' H), (aset_keys_none _ _ _ Ea). unfold ahas at 2. rewrite Ea. cbn [negb]. rewrite <- app_assoc. cbn [app]. do 2 f_equal.
      apply filter_ext_in. intros k' Hk'. rewrite ahas_aset_other; [reflexivity|].
      destruct (key_eqb k' k) eqn:E; [|reflexivity]. apply key_eqb_eq in E. subst k'. contradiction.
Qed.

Lemma upd_key_order okv kv r : NoDup (map fst kv) -> upd (PD okv) (PD kv) = Ok (PD r) ->
  map fst r = map fst okv ++ filter (fun k => negb (ahas k okv)) (map fst kv).
Proof.
  intros Hnd H. rewrite upd_PD_PD in H. destruct (upd_dgo kv okv) as [r'|] eqn:E; cbn in H; inversion H; subst r'.
  exact (upd_dgo_keys _ _ _ Hnd E).
Qed.

(* ---------- along mapping paths ---------- *)
(* the newer document leaves the path at a mapping: some key on the way is absent from a mapping of the newer document
   (a scalar or list met on the way is NOT a miss: it replaces what was there) *)
Fixpoint misses (d : plain) (q : path) : Prop :=
  match q with
  | [] => False
  | k :: r => match d with PD kv => match aget k kv with None => True | Some c => misses c r end | _ => False end
  end.

(* the older value can be followed along q through mappings (it may end early at a scalar or a missing key; it never
   holds a list at a proper prefix of q: below a list the newer mapping addresses indices, which pat does not follow) *)
Fixpoint through (d : plain) (q : path) : Prop :=
  match q with
  | [] => True
  | k :: r => match d with PD kv => match aget k kv with None => True | Some c => through c r end | PS _ => True | PL _ => False end
  end.

Lemma misses_pat_none : forall q d, misses d q -> pat d q = None.
Proof.
  induction q as [|k r IH]; intros d H; [contradiction|]. cbn in *.
  destruct d as [v|kv|l]; try reflexivity. destruct (aget k kv) as [c|]; auto.
Qed.

Lemma upd_PD_shape old kv r : upd old (PD kv) = Ok r ->
  match old with
  | PS _ => r = PD kv
  | PD okv => exists r', r = PD r' /\ upd (PD okv) (PD kv) = Ok (PD r')
  | PL _ => exists r', r = PL r'
  end.
Proof.
  intro H. destruct old as [v|okv|ol].
  - cbn in H. now inversion H.
  - pose proof H as H0. rewrite upd_PD_PD in H. destruct (upd_dgo kv okv) as [r'|]; cbn in H; inversion H; subst. exists r'. split; [reflexivity|].
    rewrite upd_PD_PD in H0 |- *. exact H0.
  - rewrite upd_PL_PD in H. destruct (keys_valid (zlen ol) kv); [|discriminate]. destruct (upd_lgo kv ol) as [r'|]; cbn in H; inversion H. now exists r'.
Qed.

(* nothing not mentioned by the newer document changes, at any depth *)
Lemma upd_deep_untouched : forall new, puk new -> forall old r q, upd old new = Ok r -> misses new q -> pat r q = pat old q.
Proof.
  induction new as [v|kv IH|l IH] using plain_ind'; intros Hp old r q H Hm; destruct q as [|k q']; try contradiction.
  cbn [misses] in Hm. pose proof (upd_PD_shape _ _ _ H) as Hs.
  destruct old as [ov|okv|ol].
  - subst r. cbn [pat]. destruct (aget k kv) as [c|]; [exact (misses_pat_none _ _ Hm)|reflexivity].
  - destruct Hs as (r' & -> & H'). destruct (puk_PD_inv _ Hp) as [Hnd _].
    pose proof (upd_pointwise _ _ _ k Hnd H') as Hk. cbn [pat].
    destruct (aget k kv) as [c|] eqn:Ek.
    + destruct (aget k okv) as [ov|].
      * destruct Hk as (m & Eu & ->).
        exact (aget_Forall (fun c => puk c -> forall old r q, upd old c = Ok r -> misses c q -> pat r q = pat old q) _ _ _ IH Ek (puk_aget _ _ _ Hp Ek) _ _ _ Eu Hm).
      * rewrite Hk. exact (misses_pat_none _ _ Hm).
    + now rewrite Hk.
  - destruct Hs as (r' & ->). reflexivity.
Qed.

(* what the newer document holds at a path is merged, by the same update, into what the older one held there *)
Lemma upd_deep_hit : forall new, puk new -> forall old r q c, upd old new = Ok r -> pat new q = Some c -> through old q ->
  match pat old q with
  | Some ov => exists m, upd ov c = Ok m /\ pat r q = Some m
  | None => pat r q = Some c
  end.
Proof.
  induction new as [v|kv IH|l IH] using plain_ind'; intros Hp old r q c H Hq Ht; destruct q as [|k q'];
    try (cbn in Hq; inversion Hq; subst c; cbn [pat]; exists r; split; [exact H|reflexivity]); try discriminate.
  cbn [pat] in Hq. destruct (aget k kv) as [c0|] eqn:Ek; [|discriminate].
  pose proof (upd_PD_shape _ _ _ H) as Hs. cbn [through] in Ht.
  destruct old as [ov|okv|ol]; [|destruct Hs as (r' & -> & H')|contradiction].
  - subst r. cbn [pat]. now rewrite Ek.
  - destruct (puk_PD_inv _ Hp) as [Hnd _]. pose proof (upd_pointwise _ _ _ k Hnd H') as Hk. rewrite Ek in Hk. cbn [pat].
    destruct (aget k okv) as [ov|].
    + destruct Hk as (m & Eu & ->).
      exact (aget_Forall (fun c0 => puk c0 -> forall old r q c, upd old c0 = Ok r -> pat c0 q = Some c -> through old q ->
               match pat old q with Some ov => exists m, upd ov c = Ok m /\ pat r q = Some m | None => pat r q = Some c end)
             _ _ _ IH Ek (puk_aget _ _ _ Hp Ek) _ _ _ _ Eu Hq Ht).
    + rewrite Hk. exact Hq.
Qed.

Definition atom (p : plain) : Prop := match p with PD _ => False | _ => True end.

(* any other value (scalar or list) is replaced wholesale, at any depth *)
Lemma upd_deep_replaced new old r q a : puk new -> upd old new = Ok r -> pat new q = Some a -> atom a -> through old q -> pat r q = Some a.
Proof.
  intros Hp H Hq Ha Ht. pose proof (upd_deep_hit _ Hp _ _ _ _ H Hq Ht) as Hh.
  destruct (pat old q) as [ov|]; [|exact Hh]. destruct Hh as (m & Eu & ->).
  rewrite upd_other in Eu; [now inversion Eu|left; destruct a; auto].
Qed.

(* ---------- whole histories ---------- *)
Lemma upd_fold_keys : forall ds okv r, forallb is_PD ds = true -> upd_fold (PD okv) ds = Ok r ->
  exists rkv, r = PD rkv /\ (forall k, ahas k okv = true -> ahas k rkv = true) /\
              (forall kv k, In (PD kv) ds -> ahas k kv = true -> ahas k rkv = true).
Proof.
  unfold upd_fold. induction ds as [|d ds IH]; intros okv r Hpd H.
  - cbn in H. inversion H; subst. exists okv. repeat split; auto.
  - cbn [forallb] in Hpd. apply andb_prop in Hpd. destruct Hpd as [Hd Hpd]. destruct d as [|kv|]; try discriminate.
    cbn [fold_left bind] in H. destruct (upd (PD okv) (PD kv)) as [r1|e q] eqn:Eu; [|rewrite fold_upd_err in H; discriminate].
    destruct (upd_PD_shape _ _ _ Eu) as (r' & -> & Eu').
    destruct (IH _ _ Hpd H) as (rkv & -> & Hold & Hnew). exists rkv. split; [reflexivity|]. split.
    + intros k Hk. apply Hold. rewrite upd_PD_PD in Eu'. destruct (upd_dgo kv okv) as [x|] eqn:E; cbn in Eu'; inversion Eu'; subst x.
      exact (upd_dgo_keeps _ _ _ _ E Hk).
    + intros kv' k [Hin|Hin] Hk.
      * inversion Hin; subst kv'. apply Hold. rewrite upd_PD_PD in Eu'. destruct (upd_dgo kv okv) as [x|] eqn:E; cbn in Eu'; inversion Eu'; subst x.
        exact (upd_dgo_adds _ _ _ _ E Hk).
      * exact (Hnew _ _ Hin Hk).
Qed.

(* a path that every later document leaves at a mapping still holds what the first document held there *)
Lemma upd_fold_untouched : forall ds d0 r q, Forall puk ds -> Forall (fun d => misses d q) ds -> upd_fold d0 ds = Ok r -> pat r q = pat d0 q.
Proof.
  unfold upd_fold. induction ds as [|d ds IH]; intros d0 r q Hp Hm H.
  - cbn in H. now inversion H.
  - inversion Hp; subst. inversion Hm; subst. cbn [fold_left bind] in H.
    destruct (upd d0 d) as [r1|e q1] eqn:Eu; [|rewrite fold_upd_err in H; discriminate].
    rewrite (IH _ _ _ H3 H5 H). eapply upd_deep_untouched; eauto.
Qed.

(* the last document that mentions a path with a scalar or a list decides it, whatever came before *)
Lemma upd_fold_last_atom : forall ds d0 d r r0 q a, Forall puk (d :: ds) -> Forall (fun d => misses d q) ds ->
  upd_fold d0 (d :: ds) = Ok r -> upd d0 d = Ok r0 -> pat d q = Some a -> atom a -> through d0 q -> pat r q = Some a.
Proof.
  intros ds d0 d r r0 q a Hp Hm H E0 Hq Ha Ht. inversion Hp; subst.
  unfold upd_fold in H. cbn [fold_left bind] in H. rewrite E0 in H.
  rewrite (upd_fold_untouched ds r0 r q H3 Hm H). eapply upd_deep_replaced; eauto.
Qed.

(* ---------- the same, for the tree Builder.flatten builds ---------- *)
Lemma flatten_plain_ok e d0 rest n : forallb (fun d => is_PD (d_data d)) (d0 :: rest) = true ->
  flatten e (map load_plain (d0 :: rest)) = Ok n -> upd_fold (d_data d0) (map d_data rest) = Ok (erase n).
Proof.
  intros Hpd H. pose proof (flatten_plain e d0 rest Hpd) as HF.
  destruct (upd_fold (d_data d0) (map d_data rest)) as [r|ek q].
  - destruct HF as (n' & E & <-). rewrite E in H. now inversion H.
  - destruct HF as (q' & E). rewrite E in H. discriminate.
Qed.

Lemma flatten_untouched e d0 rest n q : forallb (fun d => is_PD (d_data d)) (d0 :: rest) = true ->
  Forall (fun d => puk (d_data d)) rest -> Forall (fun d => misses (d_data d) q) rest ->
  flatten e (map load_plain (d0 :: rest)) = Ok n -> pat (erase n) q = pat (d_data d0) q.
Proof.
  intros Hpd Hp Hm H. apply (upd_fold_untouched (map d_data rest)); [| |exact (flatten_plain_ok _ _ _ _ Hpd H)].
  - rewrite Forall_map. exact Hp.
  - rewrite Forall_map. exact Hm.
Qed.

Lemma flatten_no_key_lost e d0 rest n : forallb (fun d => is_PD (d_data d)) (d0 :: rest) = true ->
  flatten e (map load_plain (d0 :: rest)) = Ok n ->
  exists rkv, erase n = PD rkv /\ forall d kv k, In d (d0 :: rest) -> d_data d = PD kv -> ahas k kv = true -> ahas k rkv = true.
Proof.
  intros Hpd H. pose proof (flatten_plain_ok _ _ _ _ Hpd H) as HU.
  cbn [forallb] in Hpd. apply andb_prop in Hpd. destruct Hpd as [H0 Hr].
  destruct (d_data d0) as [|okv|] eqn:E0; try discriminate.
  assert (Hr' : forallb is_PD (map d_data rest) = true) by (rewrite forallb_forall in *; intros x Hx; apply in_map_iff in Hx; destruct Hx as (d & <- & Hd); auto).
  destruct (upd_fold_keys _ _ _ Hr' HU) as (rkv & En & Hold & Hnew). exists rkv. split; [exact En|].
  intros d kv k [<-|Hin] Ed Hk.
  - rewrite E0 in Ed. inversion Ed; subst kv. auto.
  - apply (Hnew kv k); [|exact Hk]. rewrite <- Ed. apply in_map. exact Hin.
Qed.
