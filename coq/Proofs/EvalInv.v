(* Proofs/EvalInv.v — the memoisation invariant of the evaluator: results are recorded, never overwritten, nodes in
   progress are never completed by a nested evaluation, and every dynamic node (call / bind / eval) runs at most once.
   Basis of C09 (aliasing), C10 (exactly once), C11, C14. *)
From AY Require Import Model.Eval Proofs.NodeInd.

(* ---------- paths ---------- *)
Lemma path_eqb_refl p : path_eqb p p = true.
Proof.
  unfold path_eqb. rewrite Nat.eqb_refl. cbn [andb]. induction p as [|k p IH]; cbn; [reflexivity|]. now rewrite key_eqb_refl.
Qed.

Lemma path_eqb_eq p q : path_eqb p q = true <-> p = q.
Proof.
  split; [|intros ->; apply path_eqb_refl].
  unfold path_eqb. revert q. induction p as [|k p IH]; intros [|k' q] H; cbn in H; try discriminate; [reflexivity|].
  apply andb_true_iff in H. destruct H as [Hl H]. cbn in H. apply andb_true_iff in H. destruct H as [Hk H].
  apply key_eqb_eq in Hk. subst k'. f_equal. apply IH. cbn in Hl. now rewrite Hl, H.
Qed.

Lemma path_eqb_neq p q : path_eqb p q = false <-> p <> q.
Proof.
  split; intro H.
  - intro E. apply path_eqb_eq in E. congruence.
  - destruct (path_eqb p q) eqn:E; [|reflexivity]. apply path_eqb_eq in E. contradiction.
Qed.

Lemma path_in_In p l : path_in p l = true <-> In p l.
Proof.
  unfold path_in. rewrite existsb_exists. split.
  - intros (x & Hx & E). apply path_eqb_eq in E. now subst.
  - intro H. exists p. split; [exact H|apply path_eqb_refl].
Qed.

Lemma lookup_cons_eq {A} p (v : A) l : lookup_path p ((p, v) :: l) = Some v.
Proof. cbn. now rewrite path_eqb_refl. Qed.

Lemma lookup_cons_neq {A} p q (v : A) l : q <> p -> lookup_path q ((p, v) :: l) = lookup_path q l.
Proof. intro H. cbn. apply path_eqb_neq in H. now rewrite H. Qed.

Lemma NoDup_app_disjoint {A} (a b : list A) : NoDup a -> NoDup b -> (forall x, In x a -> In x b -> False) -> NoDup (a ++ b).
Proof.
  induction a as [|x a IH]; intros Ha Hb Hd; cbn; [exact Hb|].
  inversion Ha; subst. constructor.
  - intro Hin. apply in_app_or in Hin. destruct Hin as [Hin|Hin]; [contradiction|]. apply (Hd x); [left; reflexivity|exact Hin].
  - apply IH; auto. intros y Hy Hy'. apply (Hd y); [right; exact Hy|exact Hy'].
Qed.

(* ---------- the extension relation between evaluator states ---------- *)
Definition dyn_paths (l : list event) : list path :=
  flat_map (fun e => match e with EvCall p _ | EvBind p _ | EvExec p => [p] | EvImport _ _ => [] end) l.

Lemma dyn_paths_app a b : dyn_paths (a ++ b) = dyn_paths a ++ dyn_paths b.
Proof. unfold dyn_paths. apply flat_map_app. Qed.

Record Ext (own : option path) (st st' : est) : Prop := mkExt {
  x_mono : forall q w, lookup_path q (done st) = Some w -> lookup_path q (done st') = Some w;
  x_stack : stack st' = stack st;
  x_frozen : forall q, In q (stack st) -> lookup_path q (done st') = lookup_path q (done st);
  x_next : next st <= next st';
  x_log : exists nw, log st' = log st ++ nw /\ NoDup (dyn_paths nw) /\
          forall q, In q (dyn_paths nw) -> lookup_path q (done st) = None /\ (lookup_path q (done st') <> None \/ Some q = own)
}.

Lemma Ext_refl own st : Ext own st st.
Proof.
  constructor; auto; [lia|]. exists []. rewrite app_nil_r. split; [reflexivity|]. split; [constructor|]. intros q [].
Qed.

Lemma Ext_trans own st st1 st2 : Ext None st st1 -> Ext own st1 st2 -> Ext own st st2.
Proof.
  intros [m1 s1 f1 n1 (nw1 & L1 & D1 & P1)] [m2 s2 f2 n2 (nw2 & L2 & D2 & P2)].
  constructor.
  - intros q w H. apply m2, m1, H.
  - congruence.
  - intros q Hq. rewrite f2 by (rewrite s1; exact Hq). apply f1, Hq.
  - lia.
  - exists (nw1 ++ nw2). split; [rewrite L2, L1; now rewrite app_assoc|].
    rewrite dyn_paths_app. split.
    + apply NoDup_app_disjoint; try assumption.
      intros q H1 H2. destruct (P1 q H1) as [_ [Hd|Hd]]; [|discriminate]. destruct (P2 q H2) as [Hn _]. congruence.
    + intros q Hq. apply in_app_or in Hq. destruct Hq as [Hq|Hq].
      * destruct (P1 q Hq) as [Hn [Hd|Hd]]; [|discriminate]. split; [exact Hn|]. left.
        destruct (lookup_path q (done st1)) as [w|] eqn:E; [|congruence]. rewrite (m2 q w E). discriminate.
      * destruct (P2 q Hq) as [Hn Hd]. split; [|exact Hd].
        destruct (lookup_path q (done st)) as [w|] eqn:E; [|reflexivity]. rewrite (m1 q w E) in Hn. discriminate.
Qed.


(* what one successful evaluation of the node at p guarantees *)
Definition Good (st st' : est) (p : path) (v : value) : Prop :=
  lookup_path p (done st') = Some v /\ Ext None st st'.

Definition Spec (rec : bool -> node -> path -> est -> res (value * est)) : Prop :=
  forall ras n p st v st', rec ras n p st = Ok (v, st') -> Good st st' p v.

Section Step.
  Variables (root : node) (pe : penv) (fe : fenv).
  Variable rec : bool -> node -> path -> est -> res (value * est).
  Hypothesis Hrec : Spec rec.

  Lemma eval_step_err p ras e q kc : eval_step rec p ras (Err e q) kc = Err e q.
  Proof. reflexivity. Qed.

  Lemma fold_eval_err p ras e q : forall l, fold_left (eval_step rec p ras) l (Err e q) = Err e q.
  Proof. induction l; cbn; auto. Qed.

  Lemma eval_items_ext p ras : forall ch acc st items st',
    fold_left (eval_step rec p ras) ch (Ok (acc, st)) = Ok (items, st') -> Ext None st st'.
  Proof.
    induction ch as [|kc ch IH]; intros acc st items st' H; cbn [fold_left] in H.
    - inversion H; subst. apply Ext_refl.
    - unfold eval_step at 2 in H. cbn [bind snd fst] in H.
      destruct (rec ras (snd kc) (p ++ [fst kc]) st) as [[v st1]|e q] eqn:E; cbn [bind] in H.
      + destruct (Hrec _ _ _ _ _ _ E) as [_ X]. eapply Ext_trans; [exact X|]. eapply IH; eauto.
      + rewrite fold_eval_err in H. discriminate.
  Qed.

  Lemma follow_good p ras : forall ff chain z st v st',
    follow root pe rec p ras ff chain z st = Ok (v, st') -> Ext None st st'.
  Proof.
    induction ff as [|ff IH]; intros chain z st v st' H; cbn [follow] in H; [discriminate|].
    destruct (plookup pe z) as [tp|]; [|discriminate].
    destruct (if ras then None else lookup_path tp (done st)) as [cv|].
    - destruct (path_in tp chain); [discriminate|]. inversion H; subst. apply Ext_refl.
    - destruct (get_node root tp) as [tn|]; [|discriminate].
      destruct (path_in tp chain); [discriminate|].
      destruct (is_xref tn) as [z'|].
      + eapply IH; eauto.
      + destruct (Hrec _ _ _ _ _ _ H) as [_ X]. exact X.
  Qed.

  (* emitting / allocating *)
  Lemma Ext_alloc own st st' : Ext own st st' -> Ext own st (snd (alloc st')).
  Proof.
    intros [m s f n (nw & L & D & P)]. constructor; cbn; auto; [lia|]. exists nw. auto.
  Qed.

  Lemma Ext_emit_import st st' p x : Ext None st st' -> Ext None st (emit (EvImport p x) st').
  Proof.
    intros [m s f n (nw & L & D & P)]. constructor; cbn; auto.
    exists (nw ++ [EvImport p x]). split; [rewrite L; now rewrite app_assoc|].
    rewrite dyn_paths_app. cbn. rewrite app_nil_r. auto.
  Qed.

  (* the node's own event: its path is in progress, hence not recorded yet and not among the nested ones *)
  Lemma Ext_emit_own st st' p e :
    dyn_paths [e] = [p] -> In p (stack st) -> lookup_path p (done st) = None ->
    Ext None st st' -> Ext (Some p) st (emit e st').
  Proof.
    intros He Hin Hn [m s f n (nw & L & D & P)]. constructor; cbn; auto.
    exists (nw ++ [e]). split; [rewrite L; now rewrite app_assoc|].
    rewrite dyn_paths_app, He. split.
    - apply NoDup_app_disjoint; [exact D|repeat constructor; intros []|].
      intros q Hq [E|[]]. subst q. destruct (P p Hq) as [_ [Hd|Hd]]; [|discriminate].
      rewrite (f p Hin) in Hd. congruence.
    - intros q Hq. apply in_app_or in Hq. destruct Hq as [Hq|[E|[]]].
      + destruct (P q Hq) as [H1 [H2|H2]]; [|discriminate]. auto.
      + subst q. auto.
  Qed.

  Lemma on_evaluate_ext ras n p st1 v st2 :
    In p (stack st1) -> lookup_path p (done st1) = None ->
    on_evaluate root pe fe rec ras n p st1 = Ok (v, st2) -> Ext (Some p) st1 st2.
  Proof.
    intros Hin Hn H.
    assert (Weak : forall a b, Ext None a b -> Ext (Some p) a b).
    { intros a b [m s f nx (nw & L & D & P)]. constructor; auto. exists nw. split; [auto|]. split; [auto|].
      intros q Hq. destruct (P q Hq) as [H1 [H2|H2]]; [auto|discriminate]. }
    destruct n as [lk f sv|k f x ch]; cbn [on_evaluate] in H.
    - destruct lk; try discriminate; try (inversion H; subst; apply Ext_refl).
      + (* xref *) destruct sv; try discriminate. apply Weak. eapply follow_good; eauto.
      + (* eval *) destruct (negb (safe f)); [discriminate|].
        destruct (alloc (emit (EvExec p) st1)) as [o st2'] eqn:Ea. inversion H; subst.
        replace st2 with (snd (alloc (emit (EvExec p) st1))) by (rewrite Ea; reflexivity).
        apply Ext_alloc. apply Ext_emit_own; auto. apply Ext_refl.
      + (* fstr *) destruct (negb (safe f)); [discriminate|].
        destruct (alloc (emit (EvExec p) st1)) as [o st2'] eqn:Ea. inversion H; subst.
        replace st2 with (snd (alloc (emit (EvExec p) st1))) by (rewrite Ea; reflexivity).
        apply Ext_alloc. apply Ext_emit_own; auto. apply Ext_refl.
      + (* import *) destruct (negb (safe f)); [discriminate|]. destruct (negb (importable fe sv)); [discriminate|].
        inversion H; subst. apply Weak. apply Ext_emit_import. apply Ext_refl.
    - destruct (is_funck k) eqn:Ek.
      + destruct (negb (safe f)); [discriminate|]. destruct (negb (importable fe x)); [discriminate|].
        set (st2' := match x with SStr _ => emit (EvImport p x) st1 | _ => st1 end) in *.
        assert (X2 : Ext None st1 st2') by (unfold st2'; destruct x; try apply Ext_refl; apply Ext_emit_import, Ext_refl).
        unfold eval_items in H.
        destruct (fold_left (eval_step rec p true) ch (Ok ([], st2'))) as [[args st3]|e q] eqn:Ef.
        2:{ destruct e; discriminate. }
        pose proof (eval_items_ext p true ch [] st2' args st3 Ef) as X3.
        destruct (resolve_args _ args) as [[pos kw]|]; [|discriminate].
        assert (X13 : Ext None st1 st3) by (eapply Ext_trans; eauto).
        cbn [alloc] in H.
        destruct k; try discriminate; inversion H; subst;
          (apply Ext_emit_own; [reflexivity|exact Hin|exact Hn|]); apply (Ext_alloc None st1 st3 X13).
      + destruct (is_listk k).
        * unfold eval_items in H.
          destruct (fold_left (eval_step rec p ras) ch (Ok ([], st1))) as [[items st3]|e q] eqn:Ef; cbn [bind] in H; [|discriminate].
          pose proof (eval_items_ext p ras ch [] st1 items st3 Ef) as X3. cbn [alloc snd fst] in H.
          apply Weak. destruct k; inversion H; subst; apply (Ext_alloc None st1 st3 X3).
        * unfold eval_items in H.
          destruct (fold_left (eval_step rec p ras) ch (Ok ([], st1))) as [[items st3]|e q] eqn:Ef; cbn [bind] in H; [|discriminate].
          pose proof (eval_items_ext p ras ch [] st1 items st3 Ef) as X3. cbn [alloc snd fst] in H.
          apply Weak. inversion H; subst. apply (Ext_alloc None st1 st3 X3).
  Qed.

  Theorem eval_node_spec : Spec (eval_node root pe fe rec).
  Proof.
    intros ras n p st v st' H. unfold eval_node in H.
    destruct (ras && negb (safe (nflags n)))%bool; [discriminate|].
    destruct (lookup_path p (done st)) as [cv|] eqn:Ec.
    - inversion H; subst. split; [exact Ec|apply Ext_refl].
    - destruct (path_in p (stack st)) eqn:Es; [discriminate|].
      destruct (on_evaluate root pe fe rec ras n p (push p st)) as [[v2 st2]|e q] eqn:Eo; cbn [bind] in H; [|discriminate].
      inversion H; subst. cbn [fst snd].
      assert (Hns : ~ In p (stack st)) by (intro Hi; apply path_in_In in Hi; congruence).
      pose proof (on_evaluate_ext ras n p (push p st) v st2 (or_introl eq_refl) Ec Eo) as [m s f nx (nw & L & D & P)].
      cbn [push done stack log next] in *.
      assert (Hp2 : lookup_path p (done st2) = None) by (rewrite (f p (or_introl eq_refl)); exact Ec).
      split; [apply lookup_cons_eq|].
      constructor; cbn [finish done stack log next].
      + intros q w Hq. assert (q <> p) by (intro; subst; congruence). rewrite lookup_cons_neq by assumption. apply m, Hq.
      + now rewrite s.
      + intros q Hq. assert (q <> p) by (intro; subst; contradiction). rewrite lookup_cons_neq by assumption. apply f. right. exact Hq.
      + exact nx.
      + exists nw. split; [exact L|]. split; [exact D|]. intros q Hq. destruct (P q Hq) as [H1 H2]. split; [exact H1|].
        left. destruct (path_eqb q p) eqn:E.
        * apply path_eqb_eq in E. subst q. rewrite lookup_cons_eq. discriminate.
        * apply path_eqb_neq in E. rewrite lookup_cons_neq by assumption. destruct H2 as [H2|H2]; [exact H2|]. inversion H2. contradiction.
  Qed.
End Step.

Theorem ev_spec root pe fe : forall fuel, Spec (ev root pe fe fuel).
Proof.
  induction fuel as [|fu IH]; [intros ras n p st v st' H; discriminate|].
  cbn [ev]. apply eval_node_spec. exact IH.
Qed.

(* ---------- consequences ---------- *)
(* every dynamic node runs at most once during a build, and whatever ran has its result recorded *)
Theorem config_at_most_once pe fe t v st :
  config pe fe t = Ok (v, st) ->
  NoDup (dyn_paths (log st)) /\ forall q, In q (dyn_paths (log st)) -> lookup_path q (done st) <> None.
Proof.
  unfold config. destruct (check_missing t); [|discriminate]. intro H.
  destruct (ev_spec _ _ _ _ _ _ _ _ _ _ H) as [_ [_ _ _ _ (nw & L & D & P)]].
  cbn in L. subst. split; [exact D|]. intros q Hq. destruct (P q Hq) as [_ [H1|H1]]; [exact H1|discriminate].
Qed.

(* a reference evaluates to the very same object (value AND identity) that is recorded for the path at the end of its chain *)
Lemma follow_alias root pe rec p ras : Spec rec -> forall ff chain z st v st',
  follow root pe rec p ras ff chain z st = Ok (v, st') -> exists tq, lookup_path tq (done st') = Some v.
Proof.
  intros Hrec. induction ff as [|ff IH]; intros chain z st v st' H; cbn [follow] in H; [discriminate|].
  destruct (plookup pe z) as [tp|]; [|discriminate].
  destruct (if ras then None else lookup_path tp (done st)) as [cv|] eqn:Ec.
  - destruct (path_in tp chain); [discriminate|]. inversion H; subst. exists tp. destruct ras; [discriminate|exact Ec].
  - destruct (get_node root tp) as [tn|]; [|discriminate].
    destruct (path_in tp chain); [discriminate|].
    destruct (is_xref tn) as [z'|].
    + eapply IH; eauto.
    + exists tp. destruct (Hrec _ _ _ _ _ _ H) as [R _]. exact R.
Qed.

Theorem xref_alias root pe fe fuel ras f z p st v st' :
  ev root pe fe fuel ras (Leaf LXRef f (SStr z)) p st = Ok (v, st') ->
  lookup_path p (done st') = Some v /\ exists tq, lookup_path tq (done st') = Some v /\ (lookup_path p (done st) = None -> tq <> p).
Proof.
  intro H. split; [destruct (ev_spec _ _ _ _ _ _ _ _ _ _ H) as [R _]; exact R|].
  destruct fuel as [|fu]; [discriminate|]. cbn [ev] in H. unfold eval_node in H.
  destruct (ras && negb (safe (nflags (Leaf LXRef f (SStr z)))))%bool; [discriminate|].
  destruct (lookup_path p (done st)) as [cv|] eqn:Ec.
  - inversion H; subst. exists p. split; [exact Ec|]. intro; discriminate.
  - destruct (path_in p (stack st)) eqn:Es; [discriminate|].
    cbn [on_evaluate] in H.
    destruct (follow root pe (ev root pe fe fu) p ras (S (nsize root)) [p] z (push p st)) as [[v2 st2]|e q] eqn:Ef; cbn [bind] in H; [|discriminate].
    inversion H; subst. cbn [fst snd].
    destruct (follow_alias root pe _ p ras (ev_spec root pe fe fu) _ _ _ _ _ _ Ef) as (tq & Htq).
    (* p is in progress during the chain: nothing is recorded for it by then, so the end of the chain is another path *)
    pose proof (follow_good root pe _ (ev_spec root pe fe fu) p ras _ _ _ _ _ _ Ef) as X.
    assert (Hp2 : lookup_path p (done st2) = None).
    { rewrite (x_frozen _ _ _ X p); [exact Ec|]. left. reflexivity. }
    assert (Hne : tq <> p) by (intro; subst; congruence).
    exists tq. split; [|intro; exact Hne]. cbn [finish done]. rewrite lookup_cons_neq by exact Hne. exact Htq.
Qed.

(* ---------- errors: evaluation never reports a missing placeholder error of the pre-check kind ---------- *)
Definition ErrOk (rec : bool -> node -> path -> est -> res (value * est)) : Prop :=
  forall ras n p st e q, rec ras n p st = Err e q -> e <> EMissing /\ e <> EMerge /\ e <> EPremerge.

Section StepErr.
  Variables (root : node) (pe : penv) (fe : fenv).
  Variable rec : bool -> node -> path -> est -> res (value * est).
  Hypothesis Hrec : ErrOk rec.

  Lemma eval_items_err p ras : forall ch acc e q,
    fold_left (eval_step rec p ras) ch acc = Err e q -> (match acc with Err e0 _ => e0 = e | Ok _ => True end) ->
    (match acc with Err _ _ => True | Ok _ => e <> EMissing /\ e <> EMerge /\ e <> EPremerge end).
  Proof.
    induction ch as [|kc ch IH]; intros acc e q H Ha; cbn [fold_left] in H.
    - subst acc. exact I.
    - destruct acc as [[items st]|e0 q0]; [|exact I].
      unfold eval_step at 2 in H. cbn [bind snd fst] in H.
      destruct (rec ras (snd kc) (p ++ [fst kc]) st) as [[v st1]|e1 q1] eqn:E; cbn [bind] in H.
      + exact (IH _ _ _ H I).
      + rewrite fold_eval_err in H. inversion H; subst. eapply Hrec; eauto.
  Qed.

  Lemma follow_err p ras : forall ff chain z st e q,
    follow root pe rec p ras ff chain z st = Err e q -> e <> EMissing /\ e <> EMerge /\ e <> EPremerge.
  Proof.
    induction ff as [|ff IH]; intros chain z st e q H; cbn [follow] in H; [inversion H; repeat split; discriminate|].
    destruct (plookup pe z) as [tp|]; [|inversion H; repeat split; discriminate].
    destruct (if ras then None else lookup_path tp (done st)) as [cv|].
    - destruct (path_in tp chain); inversion H; repeat split; discriminate.
    - destruct (get_node root tp) as [tn|]; [|inversion H; repeat split; discriminate].
      destruct (path_in tp chain); [inversion H; repeat split; discriminate|].
      destruct (is_xref tn) as [z'|]; [eapply IH; eauto|eapply Hrec; eauto].
  Qed.

  Lemma eval_node_err : ErrOk (eval_node root pe fe rec).
  Proof.
    intros ras n p st e q H. unfold eval_node in H.
    destruct (ras && negb (safe (nflags n)))%bool; [inversion H; repeat split; discriminate|].
    destruct (lookup_path p (done st)); [discriminate|].
    destruct (path_in p (stack st)); [inversion H; repeat split; discriminate|].
    destruct (on_evaluate root pe fe rec ras n p (push p st)) as [[v2 st2]|e2 q2] eqn:Eo; cbn [bind] in H; [discriminate|].
    inversion H; subst. clear H.
    destruct n as [lk f sv|k f x ch]; cbn [on_evaluate] in Eo.
    - destruct lk; try (inversion Eo; repeat split; discriminate).
      + destruct sv; try (inversion Eo; repeat split; discriminate). eapply follow_err; eauto.
      + destruct (negb (safe f)); [inversion Eo; repeat split; discriminate|]. cbn in Eo. discriminate.
      + destruct (negb (safe f)); [inversion Eo; repeat split; discriminate|]. cbn in Eo. discriminate.
      + destruct (negb (safe f)); [inversion Eo; repeat split; discriminate|].
        destruct (negb (importable fe sv)); inversion Eo; repeat split; discriminate.
    - destruct (is_funck k).
      + destruct (negb (safe f)); [inversion Eo; repeat split; discriminate|].
        destruct (negb (importable fe x)); [inversion Eo; repeat split; discriminate|].
        unfold eval_items in Eo.
        destruct (fold_left (eval_step rec p true) ch (Ok ([], _))) as [[args st3]|e3 q3] eqn:Ef.
        * destruct (resolve_args _ args) as [[pos kw]|]; [|inversion Eo; repeat split; discriminate].
          cbn [alloc] in Eo. destruct k; discriminate.
        * pose proof (eval_items_err p true ch _ _ _ Ef I) as He. cbn in He.
          destruct e3; inversion Eo; subst; try exact He; repeat split; discriminate.
      + unfold eval_items in Eo.
        destruct (is_listk k);
          (destruct (fold_left (eval_step rec p ras) ch (Ok ([], push p st))) as [[items st3]|e3 q3] eqn:Ef; cbn [bind] in Eo;
           [cbn [alloc] in Eo; try destruct k; discriminate | inversion Eo; subst; exact (eval_items_err p ras ch _ _ _ Ef I)]).
  Qed.
End StepErr.

Theorem ev_err root pe fe : forall fuel, ErrOk (ev root pe fe fuel).
Proof.
  induction fuel as [|fu IH]; [intros ras n p st e q H; inversion H; repeat split; discriminate|].
  cbn [ev]. apply eval_node_err. exact IH.
Qed.
