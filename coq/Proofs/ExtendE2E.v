(* Proofs/ExtendE2E.v — C16 end to end for `!extend`: with a list at the path it is `!append`; with nothing (or no list) there it is the plain
   list - as theorems about the whole of root.merge(doc). *)
From AY Require Import Model.Merge Proofs.NodeInd Proofs.FlagsLemmas Proofs.FactsOk Spec.Update Proofs.MergePlain Proofs.Ops
  Proofs.EvalPlain Proofs.LoaderLemmas Proofs.Laws Proofs.MergeNotNew Proofs.MergeGen Proofs.AppendE2E.

(* premerge of a chain of one-entry mappings around ANY operator node that hands back a replacement *)
Lemma premerge_wrap_gen e A root into' T' : forall ws p,
  ws <> [] ->
  on_premerge e (p ++ wkeys ws) A (Some root) = Ok (T', into', true, []) ->
  on_premerge e p (wrap ws A) (Some root) = Ok (wrapA ws T', into', false, []).
Proof.
  induction ws as [|[[k f] x] r IH]; intros p Hne HA; [congruence|].
  destruct r as [|w2 r2].
  - cbn [wrap wkeys map fst] in *.
    change (on_premerge e p (Comp CDict f x [(k, A)]) (Some root)) with
      (do stp <- (do x1 <- on_premerge e (p ++ [k]) A (Some root);
                  let '(c', into1, changed, al1) := x1 in
                  Ok ((k, c', changed) :: [], into1, al1 ++ []));
       let '(marked, into2, als) := stp in
       match fold_left (fun (acc : option node) (kcb : key * node * bool) =>
                          match acc with
                          | Some cur => if snd kcb then set_child cur (fst (fst kcb)) (snd (fst kcb)) else Some cur
                          | None => None end) marked (Some (Comp CDict f x (map (fun kcb => (fst (fst kcb), snd (fst kcb))) marked))) with
       | Some r => Ok (r, into2, false, als)
       | None => Err EPremerge p
       end).
    rewrite HA. cbn [bind app map fst snd fold_left set_child is_listk aset]. rewrite key_eqb_refl. reflexivity.
  - assert (HA' : on_premerge e ((p ++ [k]) ++ wkeys (w2 :: r2)) A (Some root) = Ok (T', into', true, [])).
    { rewrite <- app_assoc. exact HA. }
    specialize (IH (p ++ [k]) ltac:(discriminate) HA').
    change (wrap ((k, f, x) :: w2 :: r2) A) with (Comp CDict f x [(k, wrap (w2 :: r2) A)]).
    change (on_premerge e p (Comp CDict f x [(k, wrap (w2 :: r2) A)]) (Some root)) with
      (do stp <- (do x1 <- on_premerge e (p ++ [k]) (wrap (w2 :: r2) A) (Some root);
                  let '(c', into1, changed, al1) := x1 in
                  Ok ((k, c', changed) :: [], into1, al1 ++ []));
       let '(marked, into2, als) := stp in
       match fold_left (fun (acc : option node) (kcb : key * node * bool) =>
                          match acc with
                          | Some cur => if snd kcb then set_child cur (fst (fst kcb)) (snd (fst kcb)) else Some cur
                          | None => None end) marked (Some (Comp CDict f x (map (fun kcb => (fst (fst kcb), snd (fst kcb))) marked))) with
       | Some r => Ok (r, into2, false, als)
       | None => Err EPremerge p
       end).
    rewrite IH. cbn [bind app map fst snd fold_left]. reflexivity.
Qed.

(* !extend with a list at the path behaves as !append *)
Theorem extend_end_to_end e ws fa xa chs root root' tf tx tch :
  ws <> [] -> Forall WF ws -> Old root -> puk (erase root) -> dpath root (wkeys ws) ->
  remove_node root (wkeys ws) = Some (Some (root', Comp CList tf tx tch)) ->
  Forall (fun kc => Old (snd kc)) chs -> Forall (fun kc => puk (erase (snd kc))) chs ->
  exists n, merge2 e root (wrap ws (Comp CExtend fa xa chs)) = Ok n /\
            Some (erase n) = app_at (erase root) (wkeys ws) (map (fun kc => erase (snd kc)) chs).
Proof.
  intros Hne HW Ho Hp Hd Hr HOc HPc.
  destruct (detach_plain (wkeys ws) root root' tf tx tch (map (fun kc => erase (snd kc)) chs) Ho Hp Hd Hr)
    as (Ho' & Hp' & Hdk & HoT & HpT & X & EA & EU).
  destruct (extend_node_old tf tx chs tch HoT HOc) as (tch' & EE & EC & HoT').
  assert (HpT' : puk (erase (Comp CList tf tx tch'))).
  { rewrite erase_comp. cbn [is_listk]. rewrite EC. constructor. apply Forall_app. split.
    - rewrite erase_comp in HpT. cbn [is_listk] in HpT. inversion HpT; subst. assumption.
    - clear - HPc. induction HPc; cbn; constructor; auto. }
  assert (EP : on_premerge e [] (wrap ws (Comp CExtend fa xa chs)) (Some root) = Ok (wrapA ws (Comp CList tf tx tch'), Some root', false, [])).
  { apply premerge_wrap_gen; [exact Hne|]. cbn [app on_premerge].
    rewrite (remove_node_returns_target _ _ _ _ Hr), EE, Hr. reflexivity. }
  unfold merge2. rewrite EP. cbn [bind].
  assert (HN : NewP (wrapA ws (Comp CList tf tx tch'))).
  { apply wrapA_newp; [intros f x HO Hi; apply adopted_list_newp; assumption|exact Hne|exact HW]. }
  pose proof (merge_gen (nsize root' + nsize (wrapA ws (Comp CList tf tx tch')) + 1) [] root' _ (Old_OldX _ Ho' Hp') HN ltac:(lia)) as HM.
  rewrite wrapA_erase, erase_comp in HM. cbn [is_listk] in HM. rewrite EC, EU in HM. cbn [RelG] in HM.
  destruct HM as (n & w & E & _ & En & _). rewrite E. cbn [bind fst]. exists n. split; [reflexivity|]. now rewrite En, EA.
Qed.

(* ---------- nothing to extend: the plain list ---------- *)
Lemma keys_enum_renum : forall l i, keys_enum i (renum_from i l).
Proof. induction l as [|[k c] r IH]; intro i; cbn; auto. Qed.

Lemma erase_renum (g : node -> node) : (forall n, erase (g n) = erase n) ->
  forall l i, map (fun kc => erase (snd kc)) (renum_from i (map (fun kc => (fst kc, g (snd kc))) l)) = map (fun kc => erase (snd kc)) l.
Proof. intros Hg. induction l as [|[k c] r IH]; intro i; cbn; [reflexivity|]. now rewrite Hg, IH. Qed.

Lemma renum_Forall (P : node -> Prop) : forall l i, Forall (fun kc => P (snd kc)) l -> Forall (fun kc => P (snd kc)) (renum_from i l).
Proof. induction l as [|[k c] r IH]; intros i H; cbn; [constructor|]. inversion H; subst. constructor; auto. Qed.

Lemma fresh_list_old ds chs : Forall (fun kc => Old (snd kc)) chs -> Old (fresh_list ds chs).
Proof.
  intro HF. unfold fresh_list. apply OldList; [repeat split| |apply keys_enum_renum].
  apply renum_Forall. clear - HF. induction HF as [|kc r Hkc Hr IH]; cbn [map]; constructor; [|exact IH].
  cbn [snd]. apply adopt_old; [reflexivity|exact Hkc].
Qed.

Lemma fresh_list_erase ds chs : erase (fresh_list ds chs) = PL (map (fun kc => erase (snd kc)) chs).
Proof. unfold fresh_list. rewrite erase_comp. cbn [is_listk]. f_equal. apply erase_renum. intro n. apply adopt_erase. Qed.

Theorem extend_fallback_end_to_end e ws fa xa chs root :
  ws <> [] -> Forall WF ws -> Old root -> puk (erase root) ->
  (get_node root (wkeys ws) = None \/ exists t, get_node root (wkeys ws) = Some t /\ (match t with Comp k _ _ _ => is_listk k = false | Leaf _ _ _ => True end)) ->
  Forall (fun kc => Old (snd kc)) chs -> Forall (fun kc => puk (erase (snd kc))) chs ->
  match upd (erase root) (pwrap (wkeys ws) (PL (map (fun kc => erase (snd kc)) chs))) with
  | Ok r => exists n, merge2 e root (wrap ws (Comp CExtend fa xa chs)) = Ok n /\ erase n = r
  | Err _ _ => exists q, merge2 e root (wrap ws (Comp CExtend fa xa chs)) = Err EMerge q
  end.
Proof.
  intros Hne HW Ho Hp Hg HOc HPc.
  assert (EP : on_premerge e [] (wrap ws (Comp CExtend fa xa chs)) (Some root) = Ok (wrapA ws (fresh_list (Some true) chs), Some root, false, [])).
  { apply premerge_wrap_gen; [exact Hne|]. cbn [app]. apply extend_fallback. exact Hg. }
  unfold merge2. rewrite EP. cbn [bind].
  pose proof (fresh_list_old (Some true) chs HOc) as HoL.
  assert (HpL : puk (erase (fresh_list (Some true) chs))).
  { rewrite fresh_list_erase. constructor. clear - HPc. induction HPc; cbn; constructor; auto. }
  assert (HN : NewP (wrapA ws (fresh_list (Some true) chs))).
  { apply wrapA_newp; [|exact Hne|exact HW]. intros f x HO Hi. unfold fresh_list in *. apply adopted_list_newp; assumption. }
  pose proof (merge_gen (nsize root + nsize (wrapA ws (fresh_list (Some true) chs)) + 1) [] root _ (Old_OldX _ Ho Hp) HN ltac:(lia)) as HM.
  rewrite wrapA_erase, fresh_list_erase in HM.
  destruct (upd (erase root) (pwrap (wkeys ws) (PL (map (fun kc => erase (snd kc)) chs)))) as [r|er q]; cbn [RelG] in HM.
  - destruct HM as (n & w & E & _ & En & _). rewrite E. cbn [bind fst]. eauto.
  - destruct HM as (q' & E). rewrite E. cbn [bind]. eauto.
Qed.
