(* Proofs/MergeGen.v — the plain-merge refinement (C02) generalised in two directions:
   - the OLDER tree only needs to be free of explicit priority / delete / new marks (OldX: any implicit flags, any safety);
   - the NEWER document may carry ANY safety decoration (explicit !unsafe on any node, inherited marks, source-level safety) -
     only its priority / delete / new flags have to be the untagged ones.
   Consequences: stages may alternate between tag-free documents and !notnew overlays (C08), and !unsafe marks placed on
   ANY nodes of tag-free documents never change the merged data (C15). *)
From AY Require Import Model.Merge Proofs.NodeInd Proofs.FlagsLemmas Proofs.FactsOk Spec.Update Spec.UpdateNN
  Proofs.MergePlain Proofs.UpdateNNLemmas Proofs.NotNew Model.Loader Proofs.EvalPlain Proofs.LoaderLemmas Proofs.OverrideLoad Proofs.Laws
  Proofs.MergeNotNew.

(* flags of an untagged node that may create paths; safety fields are free *)
Definition NX (f : flags) : Prop := OX f /\ f_inew f = None.

(* anything that can sit below a (replacing) list *)
Inductive NewQ : node -> Prop :=
| NQ_leaf f v : NX f -> NewQ (Leaf LScalar f v)
| NQ_dict f x ch : NX f -> Forall (fun kc => NewQ (snd kc)) ch -> NoDup (map fst ch) -> NewQ (Comp CDict f x ch)
| NQ_list f x ch : NX f -> Forall (fun kc => NewQ (snd kc)) ch -> keys_enum 0 ch -> NewQ (Comp CList f x ch).

(* a newer document: mappings (not below a list) merge key-wise, lists replace *)
Inductive NewP : node -> Prop :=
| NP_leaf f v : NX f -> NewP (Leaf LScalar f v)
| NP_dict f x ch : NX f -> f_idel f = None -> Forall (fun kc => NewP (snd kc)) ch -> NoDup (map fst ch) -> NewP (Comp CDict f x ch)
| NP_list f x ch : NX f -> f_idel f = None -> Forall (fun kc => NewQ (snd kc)) ch -> keys_enum 0 ch -> NewP (Comp CList f x ch).

Lemma NewQ_NX n : NewQ n -> NX (nflags n).
Proof. intro H; inversion H; auto. Qed.

Lemma NewP_NX n : NewP n -> NX (nflags n).
Proof. intro H; inversion H; auto. Qed.

Lemma NewQ_oldx : forall n, NewQ n -> OldX n.
Proof.
  induction n as [k f v|k f x ch IH] using node_ind'; intro H.
  - inversion H as [f0 v0 [HO _]| |]; subst. constructor. exact HO.
  - assert (G : Forall (fun kc => NewQ (snd kc)) ch -> Forall (fun kc => OldX (snd kc)) ch).
    { clear H. induction IH as [|kc r Hkc Hr IHr]; intro HF; [constructor|]. inversion HF; subst. constructor; auto. }
    inversion H as [|f0 x0 ch0 [HO _] HF Hnd|f0 x0 ch0 [HO _] HF HK]; subst; constructor; auto.
Qed.

Lemma NewP_NewQ : forall n, NewP n -> NewQ n.
Proof.
  induction n as [k f v|k f x ch IH] using node_ind'; intro H.
  - inversion H; subst. constructor. assumption.
  - inversion H as [|f0 x0 ch0 HN Hi HF Hnd|f0 x0 ch0 HN Hi HF HK]; subst.
    + constructor; auto. clear H Hnd. induction IH as [|kc r Hkc Hr IHr]; [constructor|]. inversion HF; subst. constructor; auto.
    + constructor; auto.
Qed.

Lemma NewP_oldx n : NewP n -> OldX n.
Proof. intro H. apply NewQ_oldx, NewP_NewQ, H. Qed.

Lemma NewQ_children n : NewQ n -> Forall (fun kc => NewQ (snd kc)) (children n).
Proof. intro H; inversion H; cbn; auto. Qed.

Lemma NX_allow_new f : NX f -> allow_new f = true.
Proof. intros [_ H]. unfold allow_new. now rewrite H. Qed.

Lemma nwp_newq : forall n pre, NewQ n -> Forall (fun pn => NewQ (snd pn)) (nwp pre n).
Proof.
  induction n as [k f v|k f x ch IH] using node_ind'; intros pre H.
  - cbn. constructor; auto.
  - rewrite nwp_comp. constructor; [exact H|].
    pose proof (NewQ_children _ H) as HF. cbn in HF. clear H.
    induction IH as [|kc r Hkc Hr IHr]; cbn; [constructor|].
    inversion HF; subst. apply Forall_app. split; auto.
Qed.

Lemma require_all_new_newq n p exc inc : NewQ n -> require_all_new n p exc inc = true.
Proof.
  intro H. unfold require_all_new. apply forallb_forall. intros [q m] Hin. cbn.
  assert (Hm : NewQ m).
  { destruct n as [lk f v|ck f x ch].
    - destruct inc; cbn in Hin; [|contradiction]. destruct Hin as [E|[]]. inversion E; subst. exact H.
    - unfold nodes_with_paths in Hin. pose proof (nwp_newq _ p H) as HF. rewrite Forall_forall in HF.
      destruct inc; [apply (HF (q, m)); exact Hin|].
      apply (HF (q, m)). destruct (nwp p (Comp ck f x ch)); cbn in Hin; [contradiction|right; exact Hin]. }
  rewrite (NX_allow_new _ (NewQ_NX _ Hm)). reflexivity.
Qed.

Lemma NX_absorb a b : NX a -> NX (absorb a b).
Proof. intros [(h1 & h2 & h3) h4]. split; [repeat split; auto|exact h4]. Qed.

Lemma NewQ_with_flags n f : NewQ n -> NX f -> NewQ (with_flags n f).
Proof. intros H Hf. inversion H; subst; cbn; constructor; auto. Qed.

(* ---------- the relation between the spec's result and the model's ---------- *)
Definition RelG (r : res plain) (m : res (node * who)) : Prop :=
  match r with
  | Ok pr => exists n w, m = Ok (n, w) /\ OldX n /\ erase n = pr /\ (w = Other -> NewQ n)
  | Err _ _ => exists q, m = Err EMerge q
  end.

Lemma leaf_merge_gen s o : OldX s -> NewQ o -> RelG (Ok (erase o)) (Ok (leaf_merge s o)).
Proof.
  intros Hs Ho. unfold leaf_merge.
  rewrite hpo_OX; [|apply OldX_OX; exact Hs|apply (proj1 (NewQ_NX _ Ho))].
  cbn [replace_other fst RelG]. do 2 eexists. split; [reflexivity|].
  assert (Hq : NewQ (with_flags o (absorb (nflags o) (nflags s)))) by (apply NewQ_with_flags; [exact Ho|apply NX_absorb, NewQ_NX; exact Ho]).
  split; [apply NewQ_oldx; exact Hq|]. split; [apply erase_with_flags|auto].
Qed.

Lemma aset_new_fst {V} k (v : V) : forall l, aget k l = None -> map fst (aset k v l) = map fst l ++ [k].
Proof.
  induction l as [|[k' v'] r IH]; cbn; intro H; [reflexivity|].
  destruct (key_eqb k k'); [discriminate|]. cbn. now rewrite IH.
Qed.

Lemma NoDup_app_snoc {A} (l : list A) a : NoDup l -> ~ In a l -> NoDup (l ++ [a]).
Proof.
  induction l as [|b l IH]; cbn; intros Hn Hni; [constructor; [intros []|constructor]|].
  inversion Hn as [|? ? Hb Hl]; subst. constructor.
  - intro Hin. apply in_app_or in Hin. destruct Hin as [Hin|[E|[]]]; [contradiction|]. subst. apply Hni. now left.
  - apply IH; [exact Hl|]. intro Hin. apply Hni. now right.
Qed.

Definition ech (l : list (key * node)) : list (key * plain) := map (fun kc => (fst kc, erase (snd kc))) l.

(* the loop over a mapping merged onto a mapping *)
Lemma loop_dict_gen rec p f x : forall cho chs,
  (forall k v c, In (k, v) cho -> OldX c -> RelG (upd (erase c) (erase v)) (rec (p ++ [k]) c v)) ->
  Forall (fun kc => NewP (snd kc)) cho ->
  OldX (Comp CDict f x chs) ->
  match upd_dgo (ech cho) (ech chs) with
  | Ok r => exists chs', fold_left (merge_step rec [] p) cho (Ok (Comp CDict f x chs)) = Ok (Comp CDict f x chs')
                         /\ OldX (Comp CDict f x chs') /\ ech chs' = r
  | Err _ _ => exists q, fold_left (merge_step rec [] p) cho (Ok (Comp CDict f x chs)) = Err EMerge q
  end.
Proof.
  unfold ech. induction cho as [|[k v] rest IH]; intros chs Hrec HP Hold.
  - cbn. exists chs. auto.
  - cbn [upd_dgo map fold_left fst snd].
    inversion HP as [|? ? Hv HPr]; subst. cbn [snd] in Hv.
    assert (Hf : OX f) by (apply OldX_OX in Hold; exact Hold).
    assert (HF : Forall (fun kc => OldX (snd kc)) chs) by (apply OldX_children in Hold; exact Hold).
    assert (Hnd : NoDup (map fst chs)) by (apply OldX_nodup in Hold; exact Hold).
    assert (Hstep : forall n' m, OldX n' -> erase n' = m -> NoDup (map fst (aset k n' chs)) ->
               merge_step rec [] p (Ok (Comp CDict f x chs)) (k, v) = Ok (Comp CDict f x (aset k n' chs)) ->
               match upd_dgo (map (fun kc => (fst kc, erase (snd kc))) rest) (aset k m (map (fun kc => (fst kc, erase (snd kc))) chs)) with
               | Ok r => exists chs', fold_left (merge_step rec [] p) rest (merge_step rec [] p (Ok (Comp CDict f x chs)) (k, v)) = Ok (Comp CDict f x chs')
                                      /\ OldX (Comp CDict f x chs') /\ map (fun kc => (fst kc, erase (snd kc))) chs' = r
               | Err _ _ => exists q, fold_left (merge_step rec [] p) rest (merge_step rec [] p (Ok (Comp CDict f x chs)) (k, v)) = Err EMerge q
               end).
    { intros n' m Hn' Hm Hnd' Heq. rewrite Heq. subst m.
      specialize (IH (aset k n' chs)). rewrite aset_map in IH. apply IH; [|exact HPr|].
      - intros k0 v0 c0 Hin. apply Hrec. right. exact Hin.
      - constructor; auto. apply aset_Forall; auto. }
    rewrite aget_map.
    destruct (aget k chs) as [c|] eqn:Eg; cbn [option_map].
    + assert (Hc : OldX c) by (eapply aget_Forall; eauto).
      assert (Hnd' : forall n', NoDup (map fst (aset k n' chs))) by (intro n'; now rewrite (aset_fst k n' c chs Eg)).
      specialize (Hrec k v c (or_introl eq_refl) Hc).
      destruct (upd (erase c) (erase v)) as [m|e q] eqn:Eu; cbn [bind RelG] in *.
      * destruct Hrec as (n & w & Er & Hn & En & Hw).
        assert (Hexp : explicit_delete v = false) by (apply OldX_explicit_delete, NewP_oldx; exact Hv).
        assert (Hexpn : explicit_delete n = false) by (apply OldX_explicit_delete; exact Hn).
        destruct w, (is_comp c) eqn:Eic.
        -- apply (Hstep n m Hn En (Hnd' n)).
           unfold merge_step. cbn [bind get_child is_listk]. rewrite Eg. cbn [path_in existsb]. rewrite Er. cbn [bind].
           rewrite Eic, Hexp, !andb_false_r. reflexivity.
        -- apply (Hstep n m Hn En (Hnd' n)).
           unfold merge_step. cbn [bind get_child is_listk]. rewrite Eg. cbn [path_in existsb]. rewrite Er. cbn [bind].
           rewrite Eic. reflexivity.
        -- apply (Hstep (adopt (child_kwargs (Comp CDict f x chs)) n) m); [apply adopt_oldx; auto|rewrite adopt_erase; exact En|apply Hnd'|].
           unfold merge_step. cbn [bind get_child is_listk]. rewrite Eg. cbn [path_in existsb]. rewrite Er. cbn [bind].
           rewrite Eic, Hexp, !andb_false_r. reflexivity.
        -- apply (Hstep (adopt (child_kwargs (Comp CDict f x chs)) n) m); [apply adopt_oldx; auto|rewrite adopt_erase; exact En|apply Hnd'|].
           unfold merge_step. cbn [bind get_child is_listk]. rewrite Eg. cbn [path_in existsb]. rewrite Er. cbn [bind].
           rewrite Eic, (require_all_new_newq n _ _ _ (Hw eq_refl)), Hexpn, !andb_false_r. reflexivity.
      * destruct Hrec as (q' & Er). exists q'.
        unfold merge_step at 2. cbn [bind get_child is_listk]. rewrite Eg. cbn [path_in existsb]. rewrite Er. cbn [bind].
        apply fold_merge_step_err.
    + apply (Hstep (adopt (child_kwargs (Comp CDict f x chs)) v) (erase v)).
      * apply adopt_oldx, NewP_oldx; exact Hv.
      * apply adopt_erase.
      * rewrite (aset_new_fst k _ chs Eg). apply NoDup_app_snoc; [exact Hnd|].
        intro Hin. apply in_map_iff in Hin. destruct Hin as ([k' c'] & Ek & Hin). cbn in Ek. subst k'.
        rewrite (In_aget k c' chs Hnd Hin) in Eg. discriminate.
      * unfold merge_step. cbn [bind get_child is_listk]. rewrite Eg.
        rewrite require_all_new_newq by (apply NewP_NewQ; exact Hv). reflexivity.
Qed.

(* the loop over a mapping merged onto a list: every key addresses an existing element *)
Lemma loop_list_gen rec p f x : forall cho chs,
  (forall k v c, In (k, v) cho -> OldX c -> RelG (upd (erase c) (erase v)) (rec (p ++ [k]) c v)) ->
  Forall (fun kc => NewP (snd kc)) cho ->
  OldX (Comp CList f x chs) ->
  keys_valid (zlen chs) (ech cho) = true ->
  match upd_lgo (ech cho) (map (fun kc => erase (snd kc)) chs) with
  | Ok r => exists chs', fold_left (merge_step rec [] p) cho (Ok (Comp CList f x chs)) = Ok (Comp CList f x chs')
                         /\ OldX (Comp CList f x chs') /\ map (fun kc => erase (snd kc)) chs' = r
  | Err _ _ => exists q, fold_left (merge_step rec [] p) cho (Ok (Comp CList f x chs)) = Err EMerge q
  end.
Proof.
  unfold ech. induction cho as [|[k v] rest IH]; intros chs Hrec HP Hold Hkv.
  - cbn. exists chs. auto.
  - cbn [upd_lgo map fold_left fst snd].
    inversion HP as [|? ? Hv HPr]; subst. cbn [snd] in Hv.
    assert (Hf : OX f) by (apply OldX_OX in Hold; exact Hold).
    assert (HF : Forall (fun kc => OldX (snd kc)) chs) by (apply OldX_children in Hold; exact Hold).
    assert (HK : keys_enum 0 chs) by (inversion Hold; auto).
    cbn [keys_valid forallb fst map] in Hkv. apply andb_true_iff in Hkv. destruct Hkv as [Hk Hrest].
    rewrite zlen_map.
    destruct (validate_index (zlen chs) k true) as [i| |] eqn:Ev; try discriminate. clear Hk.
    destruct (validate_strict _ _ _ Ev) as [Evn Hi].
    destruct (nth_error chs (Z.to_nat i)) as [[ki c]|] eqn:En.
    2:{ apply nth_error_None in En. unfold zlen in Hi. lia. }
    assert (Eg : aget (KI i) chs = Some c) by (apply (keys_enum_aget chs 0 i (ki, c)); auto; lia).
    assert (Hc : OldX c) by (eapply aget_Forall; eauto).
    rewrite nth_error_map', En. cbn [option_map snd].
    assert (Hstep : forall n' m, OldX n' -> erase n' = m ->
               merge_step rec [] p (Ok (Comp CList f x chs)) (k, v) = Ok (Comp CList f x (aset (KI i) n' chs)) ->
               match upd_lgo (map (fun kc => (fst kc, erase (snd kc))) rest) (lset (Z.to_nat i) m (map (fun kc => erase (snd kc)) chs)) with
               | Ok r => exists chs', fold_left (merge_step rec [] p) rest (merge_step rec [] p (Ok (Comp CList f x chs)) (k, v)) = Ok (Comp CList f x chs')
                                      /\ OldX (Comp CList f x chs') /\ map (fun kc => erase (snd kc)) chs' = r
               | Err _ _ => exists q, fold_left (merge_step rec [] p) rest (merge_step rec [] p (Ok (Comp CList f x chs)) (k, v)) = Err EMerge q
               end).
    { intros n' m Hn' Hm Heq. rewrite Heq. subst m.
      destruct (keys_enum_aset chs 0 i n' HK Hi) as [Ea Hke]. cbn [Z.add] in Ea, Hke.
      specialize (IH (aset (KI i) n' chs)).
      assert (El : map (fun kc => erase (snd kc)) (aset (KI i) n' chs) = lset (Z.to_nat i) (erase n') (map (fun kc => erase (snd kc)) chs)).
      { rewrite Ea. rewrite lset_map. reflexivity. }
      rewrite El in IH. apply IH; [|exact HPr| |].
      - intros k0 v0 c0 Hin. apply Hrec. right. exact Hin.
      - constructor; auto. apply aset_Forall; auto.
      - assert (zlen (aset (KI i) n' chs) = zlen chs) as -> by (rewrite Ea; unfold zlen; now rewrite lset_length). exact Hrest. }
    specialize (Hrec k v c (or_introl eq_refl) Hc).
    destruct (upd (erase c) (erase v)) as [m|e q] eqn:Eu; cbn [bind RelG] in *.
    + destruct Hrec as (n & w & Er & Hn & En' & Hw).
      assert (Hexp : explicit_delete v = false) by (apply OldX_explicit_delete, NewP_oldx; exact Hv).
      assert (Hexpn : explicit_delete n = false) by (apply OldX_explicit_delete; exact Hn).
      destruct w, (is_comp c) eqn:Eic.
      * apply (Hstep n m Hn En').
        unfold merge_step. cbn [bind get_child is_listk]. rewrite Ev, Eg. cbn [path_in existsb]. rewrite Er. cbn [bind].
        rewrite Eic, Hexp, !andb_false_r. cbn [put_child is_listk]. rewrite Ev. reflexivity.
      * apply (Hstep n m Hn En').
        unfold merge_step. cbn [bind get_child is_listk]. rewrite Ev, Eg. cbn [path_in existsb]. rewrite Er. cbn [bind].
        rewrite Eic. cbn [put_child is_listk]. rewrite Ev. reflexivity.
      * apply (Hstep (adopt (child_kwargs (Comp CList f x chs)) n) m); [apply adopt_oldx; auto|rewrite adopt_erase; exact En'|].
        unfold merge_step. cbn [bind get_child is_listk]. rewrite Ev, Eg. cbn [path_in existsb]. rewrite Er. cbn [bind].
        rewrite Eic, Hexp, !andb_false_r. cbn [set_child is_listk]. rewrite Evn. reflexivity.
      * apply (Hstep (adopt (child_kwargs (Comp CList f x chs)) n) m); [apply adopt_oldx; auto|rewrite adopt_erase; exact En'|].
        unfold merge_step. cbn [bind get_child is_listk]. rewrite Ev, Eg. cbn [path_in existsb]. rewrite Er. cbn [bind].
        rewrite Eic, (require_all_new_newq n _ _ _ (Hw eq_refl)), Hexpn, !andb_false_r. cbn [set_child is_listk]. rewrite Evn. reflexivity.
    + destruct Hrec as (q' & Er). exists q'.
      unfold merge_step at 2. cbn [bind get_child is_listk]. rewrite Ev, Eg. cbn [path_in existsb]. rewrite Er. cbn [bind].
      apply fold_merge_step_err.
Qed.

(* a (deleting) list replaces whatever plain container was there *)
Lemma prune_list_gen p ck cf cx chs fo xo cho :
  OldX (Comp ck cf cx chs) -> NewP (Comp CList fo xo cho) ->
  snd (prune p (Comp ck cf cx chs) (Comp CList fo xo cho)) = Some (Ok (with_flags (Comp CList fo xo cho) (absorb fo cf), Other)).
Proof.
  intros Hs Hp. set (o := Comp CList fo xo cho) in *.
  assert (Ho : OldX o) by (apply NewP_oldx; exact Hp).
  assert (Hq : NewQ o) by (apply NewP_NewQ; exact Hp).
  assert (Ed : delete o = true).
  { inversion Hp as [| |f0 x0 ch0 [(_ & Hd & _) _] Hi HF HK]; subst. unfold o, delete. cbn [nflags]. rewrite Hd, Hi. cbn. apply list_default_delete. }
  unfold prune. rewrite Ed.
  set (cond := fun (ap : path) (n : node) => has_priority_over n (first_not_missing o (skipn (length p) ap)) false).
  assert (Hc : forall q m, OldX m -> cond q m = false).
  { intros q m Hm. unfold cond. apply hpo_OX; [apply OldX_OX; exact Hm|]. apply OldX_OX, first_not_missing_oldx; exact Ho. }
  destruct (filter_all_x cond Hc _ p Hs) as [Ef _].
  destruct (filter_nodes cond p (Comp ck cf cx chs)) as [s' removed]. cbn [fst snd clear_children] in Ef. subst s'.
  cbn [children andb].
  assert (Hs' : OldX (Comp ck cf cx [])) by (inversion Hs; subst; constructor; auto; cbn; auto; constructor).
  rewrite hpo_OX by (apply OldX_OX; assumption).
  rewrite (require_all_new_newq o _ _ _ Hq).
  cbn [snd]. unfold replace_other. unfold o. cbn [with_flags nflags maybe_promote].
  inversion Hs; subst; cbn [ckind_eqb subk is_funck is_listk is_plaink andb orb negb who_of]; reflexivity.
Qed.

Lemma ech_keys (l : list (key * node)) : map fst (ech l) = map fst l.
Proof. unfold ech. rewrite map_map. reflexivity. Qed.

Lemma merge_gen : forall fuel p s o, OldX s -> NewP o -> (nsize o < fuel)%nat ->
  RelG (upd (erase s) (erase o)) (on_merge [] fuel p s o).
Proof.
  induction fuel as [|fu IH]; intros p s o Hs Hp Hlt; [lia|].
  cbn [on_merge].
  assert (Hq : NewQ o) by (apply NewP_NewQ; exact Hp).
  destruct s as [lk lf lv | ck cf cx chs].
  - cbn [dispatch]. rewrite upd_other by (right; cbn; exact I). apply leaf_merge_gen; auto.
  - inversion Hp as [fo v HN|fo xo cho HN Hi HF Hnd|fo xo cho HN Hi HF HK]; subst.
    + (* a scalar replaces the container *)
      rewrite upd_other by (left; exact I).
      assert (E : dispatch (on_merge [] fu) [] p (Comp ck cf cx chs) (Leaf LScalar fo v) = Ok (leaf_merge (Comp ck cf cx chs) (Leaf LScalar fo v))).
      { inversion Hs; subst; reflexivity. }
      rewrite E. apply leaf_merge_gen; auto.
    + (* a mapping: merged key-wise into a mapping, index-wise into a list *)
      rewrite nsize_comp in Hlt.
      set (o := Comp CDict fo xo cho) in *.
      assert (Ho : OldX o) by (apply NewP_oldx; exact Hp).
      assert (Hrec : forall k v c, In (k, v) cho -> OldX c -> RelG (upd (erase c) (erase v)) (on_merge [] fu (p ++ [k]) c v)).
      { intros k v c Hin Hc. rewrite Forall_forall in HF. apply IH; [exact Hc|apply (HF (k, v) Hin)|].
        assert (nsize v <= list_sum (map (fun kc => nsize (snd kc)) cho))%nat; [|lia].
        clear - Hin. unfold list_sum. induction cho as [|[k' v'] r IHr]; [contradiction|]. cbn [map fold_right snd fst]. destruct Hin as [E|Hin]; [inversion E; subst; lia|].
        specialize (IHr Hin). lia. }
      assert (Edo : delete o = false).
      { destruct HN as [(_ & Hd & _) _]. unfold o, delete. cbn [nflags]. rewrite Hd, Hi. cbn. apply dict_default_delete. }
      assert (Hfin : forall s2, OldX s2 -> (exists f2 x2 c2, s2 = Comp ck f2 x2 c2) ->
                 exists r, (let '(r, promoted) := if has_priority_over o s2 true then replace_self s2 o true else replace_other s2 o true in
                            Ok (r, who_of promoted Self Other)) = Ok (r, Self) /\ OldX r /\ erase r = erase s2).
      { intros s2 H2 (f2 & x2 & c2 & ->).
        rewrite hpo_OX by (apply OldX_OX; assumption).
        unfold replace_self. cbn [with_flags nflags].
        assert (Hb : OX (become f2 (nflags o))) by (apply OX_become; [apply (OldX_OX _ H2)|apply (OldX_OX _ Ho)]).
        assert (Hpm : maybe_promote (Comp ck (become f2 (nflags o)) x2 c2) o = (Comp ck (become f2 (nflags o)) x2 c2, false)).
        { unfold o. inversion H2; subst; reflexivity. }
        rewrite Hpm. cbn [fst snd who_of]. eexists. split; [reflexivity|]. split.
        - apply propagate_oldx. inversion H2; subst; constructor; auto.
        - rewrite propagate_erase, !erase_comp. reflexivity. }
      assert (Eo : erase o = PD (ech cho)) by (unfold o; rewrite erase_comp; reflexivity).
      rewrite Eo.
      inversion Hs as [|f0 x0 ch0 HOX HFch Hnd0|f0 x0 ch0 HOX HFch HK]; subst.
      * (* mapping onto mapping *)
        rewrite erase_comp. cbn [is_listk]. rewrite upd_PD_PD.
        cbn [dispatch is_funck is_listk]. unfold comp_merge. unfold o at 1.
        unfold prune. fold o. rewrite Edo.
        pose proof (loop_dict_gen (on_merge [] fu) p cf cx cho chs Hrec HF Hs) as HL. unfold ech at 2 in HL.
        destruct (upd_dgo (ech cho) (map (fun kc => (fst kc, erase (snd kc))) chs)) as [r|e q]; cbn [bind RelG].
        -- destruct HL as (chs' & EL & Hold' & Er). rewrite EL. cbn [bind].
           destruct (Hfin (Comp CDict cf cx chs') Hold') as (r' & E' & Hr' & Ee'); [do 3 eexists; reflexivity|].
           rewrite E'. do 2 eexists. split; [reflexivity|]. split; [exact Hr'|]. split; [|intro Hx; discriminate].
           rewrite Ee', erase_comp. cbn [is_listk]. unfold ech in Er. now rewrite Er.
        -- destruct HL as (q' & EL). rewrite EL. cbn [bind]. exists q'. reflexivity.
      * (* mapping onto list *)
        rewrite erase_comp. cbn [is_listk]. rewrite upd_PL_PD, zlen_map.
        cbn [dispatch is_funck is_listk]. unfold list_merge. unfold o at 1. cbn [is_listk negb andb children].
        fold o. rewrite Edo. cbn [negb andb].
        assert (Ekv : dict_keys_ok (zlen chs) cho = keys_valid (zlen chs) (ech cho)).
        { unfold dict_keys_ok, keys_valid, ech. clear. induction cho as [|[k' v'] r IHr]; cbn; [reflexivity|]. now rewrite IHr. }
        rewrite Ekv. destruct (keys_valid (zlen chs) (ech cho)) eqn:Ekeys; cbn [negb].
        -- rewrite (filter_keep_x (keep_if_exists (Comp CList cf cx chs))); [|
             intros q m Hm; unfold keep_if_exists; rewrite hpo_OX; [apply orb_true_r|apply OldX_OX; exact Hm|apply OldX_OX, first_not_missing_oldx; exact Hs] | exact Ho].
           cbn [fst]. unfold comp_merge. unfold o at 1. unfold prune. fold o. rewrite Edo.
           pose proof (loop_list_gen (on_merge [] fu) p cf cx cho chs Hrec HF Hs Ekeys) as HL.
           destruct (upd_lgo (ech cho) (map (fun kc => erase (snd kc)) chs)) as [r|e q]; cbn [bind RelG].
           ++ destruct HL as (chs' & EL & Hold' & Er). rewrite EL. cbn [bind].
              destruct (Hfin (Comp CList cf cx chs') Hold') as (r' & E' & Hr' & Ee'); [do 3 eexists; reflexivity|].
              rewrite E'. do 2 eexists. split; [reflexivity|]. split; [exact Hr'|]. split; [|intro Hx; discriminate].
              rewrite Ee', erase_comp. cbn [is_listk]. now rewrite Er.
           ++ destruct HL as (q' & EL). rewrite EL. cbn [bind]. exists q'. reflexivity.
        -- cbn [RelG]. exists p. reflexivity.
    + (* a list replaces the container wholesale *)
      rewrite upd_other by (left; rewrite erase_comp; exact I).
      pose proof (prune_list_gen p ck cf cx chs fo xo cho Hs Hp) as Epr.
      set (o := Comp CList fo xo cho) in *.
      assert (Ho : OldX o) by (apply NewP_oldx; exact Hp).
      assert (Ecm : comp_merge (on_merge [] fu) [] p (Comp ck cf cx chs) o = Ok (with_flags o (absorb fo cf), Other)).
      { unfold comp_merge. unfold o at 1. fold o.
        destruct (prune p (Comp ck cf cx chs) o) as [s1 r1]. cbn [snd] in Epr. subst r1. reflexivity. }
      assert (E : dispatch (on_merge [] fu) [] p (Comp ck cf cx chs) o = Ok (with_flags o (absorb fo cf), Other)).
      { inversion Hs; subst; cbn [dispatch is_funck is_listk]; [exact Ecm|].
        unfold list_merge. unfold o at 1. cbn [is_listk negb andb]. fold o.
        rewrite (filter_keep_x (keep_if_exists (Comp CList cf cx chs))); [exact Ecm| |exact Ho].
        intros q m Hm. unfold keep_if_exists. rewrite hpo_OX; [apply orb_true_r|apply OldX_OX; exact Hm|].
        apply OldX_OX, first_not_missing_oldx; exact Hs. }
      rewrite E. cbn [RelG].
      assert (Hq' : NewQ (with_flags o (absorb fo cf))) by (apply NewQ_with_flags; [exact Hq|apply NX_absorb; exact HN]).
      do 2 eexists. split; [reflexivity|]. split; [apply NewQ_oldx; exact Hq'|]. split; [apply erase_with_flags|auto].
Qed.

(* ---------- whole stages ---------- *)
Lemma merge2_gen e root o : OldX root -> NewP o ->
  match upd (erase root) (erase o) with
  | Ok r => exists n, merge2 e root o = Ok n /\ OldX n /\ erase n = r
  | Err _ _ => exists q, merge2 e root o = Err EMerge q
  end.
Proof.
  intros Hr Hp. unfold merge2.
  rewrite (premerge_plainT e o [] (Some root) (OldX_PlainT _ (NewP_oldx _ Hp))). cbn [bind].
  pose proof (merge_gen (nsize root + nsize o + 1) [] root o Hr Hp ltac:(lia)) as HM.
  destruct (upd (erase root) (erase o)) as [r|e' q]; cbn [RelG] in HM.
  - destruct HM as (n & w & E & Hn & En & _). rewrite E. cbn [bind fst]. eauto.
  - destruct HM as (q' & E). rewrite E. cbn [bind]. eauto.
Qed.

Lemma OldX_dict_of_erase n l : OldX n -> erase n = PD l -> is_dictk n = true.
Proof.
  intros H E. inversion H; subst; [discriminate|reflexivity|]. rewrite erase_comp in E. discriminate.
Qed.

Lemma is_dictk_erase n : OldX n -> is_dictk n = true -> exists l, erase n = PD l.
Proof.
  intros H E. inversion H; subst; try discriminate. rewrite erase_comp. cbn [is_listk]. eauto.
Qed.

(* a stage is either a document free of priority / delete / new tags (any safety marks) or a tag-free !notnew overlay *)
Inductive gstage := GPlain (o : node) | GNotNew (c : lctx) (kv : list (key * plain)).
Definition gnode (st : gstage) : node := match st with GPlain o => o | GNotNew c kv => load_doc c (notnew_doc kv) end.
Definition gok (st : gstage) : Prop := match st with GPlain o => NewP o /\ is_dictk o = true | GNotNew _ kv => puk (PD kv) end.
Definition gstep (a : plain) (st : gstage) : res plain := match st with GPlain o => upd a (erase o) | GNotNew _ kv => upd_nn a (PD kv) end.

Lemma gfold_err l ek q : fold_left (fun acc st => do a <- acc; gstep a st) l (Err ek q) = Err ek q.
Proof. induction l; cbn; auto. Qed.

Lemma fold_merge2_gen e : forall sts root, OldX root -> is_dictk root = true -> Forall gok sts ->
  match fold_left (fun acc st => do a <- acc; gstep a st) sts (Ok (erase root)) with
  | Ok r => exists n, fold_left (fun acc st => do root <- acc; merge2 e root st) (map gnode sts) (Ok root) = Ok n /\ erase n = r
  | Err _ _ => exists q, fold_left (fun acc st => do root <- acc; merge2 e root st) (map gnode sts) (Ok root) = Err EMerge q
  end.
Proof.
  induction sts as [|st sts IH]; intros root Hr Hd HF; cbn [map fold_left bind].
  - eauto.
  - inversion HF as [|? ? Hst HF']; subst.
    destruct (is_dictk_erase _ Hr Hd) as (okv & Eok).
    destruct st as [o|c kv]; cbn [gstep gnode gok] in *.
    + destruct Hst as [Hp Hod].
      pose proof (merge2_gen e root o Hr Hp) as HM.
      destruct (is_dictk_erase _ (NewP_oldx _ Hp) Hod) as (kv & Ekv).
      destruct (upd (erase root) (erase o)) as [r|e' q] eqn:Eu.
      * destruct HM as (n & E & Hn & En). rewrite E. subst r. apply IH; [exact Hn| |exact HF'].
        rewrite Eok, Ekv, upd_PD_PD in Eu. destruct (upd_dgo kv okv); cbn in Eu; [|discriminate]. inversion Eu as [Er].
        eapply OldX_dict_of_erase; eauto.
      * destruct HM as (q' & E). rewrite E, fold_merge2_err, gfold_err. eauto.
    + pose proof (merge2_notnew e c root kv Hr Hd Hst) as HM.
      destruct (upd_nn (erase root) (PD kv)) as [r|e' q] eqn:Eu.
      * destruct HM as (n & E & Hn & En). rewrite E. subst r. apply IH; [exact Hn| |exact HF'].
        rewrite Eok, upd_nn_PD_PD in Eu. destruct (nn_dgo kv okv); cbn in Eu; [|discriminate]. inversion Eu as [Er].
        eapply OldX_dict_of_erase; eauto.
      * destruct HM as (q' & E). rewrite E, fold_merge2_err, gfold_err. eauto.
Qed.

Lemma gnode_dict st : gok st -> is_dictk (gnode st) = true.
Proof. destruct st as [o|c kv]; cbn [gok gnode]; [intros [_ H]; exact H|]. intros _. rewrite load_notnew_doc. reflexivity. Qed.

Theorem flatten_mixed e s0 sts : NewP s0 -> is_dictk s0 = true -> Forall gok sts ->
  match fold_left (fun acc st => do a <- acc; gstep a st) sts (Ok (erase s0)) with
  | Ok r => exists n, flatten e (s0 :: map gnode sts) = Ok n /\ erase n = r
  | Err _ _ => exists q, flatten e (s0 :: map gnode sts) = Err EMerge q
  end.
Proof.
  intros Hp Hd HF.
  assert (E : forallb is_dictk (s0 :: map gnode sts) = true).
  { cbn [forallb]. rewrite Hd. cbn [andb]. clear - HF. induction HF as [|st sts Hst HF' IH]; cbn; [reflexivity|]. now rewrite (gnode_dict _ Hst), IH. }
  assert (EF : flatten e (s0 :: map gnode sts) = fold_left (fun acc st => do root <- acc; merge2 e root st) (map gnode sts) (Ok s0)).
  { unfold flatten. rewrite E. rewrite (premerge_plainT e s0 [] None (OldX_PlainT _ (NewP_oldx _ Hp))). cbn [bind].
    rewrite require_all_new_newq by (apply NewP_NewQ; exact Hp). reflexivity. }
  rewrite EF. apply fold_merge2_gen; auto. apply NewP_oldx; exact Hp.
Qed.

(* ---------- the loader: documents whose only tags are safety marks and metadata ---------- *)
Definition tsafe (t : tagkw) : Prop := t_prio t = None /\ t_del t = None /\ t_new t = None.

Inductive ysafe_only : ynode -> Prop :=
| ys_s t v : tsafe t -> ysafe_only (YS t v)
| ys_m t l : tsafe t -> Forall (fun kx => ysafe_only (snd kx)) l -> NoDup (map fst l) -> ysafe_only (YM t l)
| ys_q t l : tsafe t -> Forall ysafe_only l -> ysafe_only (YQ t l).

Definition kw_new_none (kw : ckw) : Prop := (if ck_any kw then ck_inew kw else None) = None.
Definition kw_idel_none (kw : ckw) : Prop := (if ck_any kw then ck_idel kw else None) = None.

Lemma own_flags_NX c kw t : tsafe t -> kw_new_none kw -> NX (own_flags c None kw t).
Proof. intros (h1 & h2 & h3) Hk. unfold own_flags, NX, OX. cbn. unfold inh_prio. repeat split; auto. Qed.

Lemma keys_enum_load_list c inh kw : forall l i, keys_enum i (load_list c inh kw i l).
Proof. induction l as [|x r IH]; intro i; cbn; auto. Qed.

Lemma load_newq : forall y c kw, ysafe_only y -> kw_new_none kw -> NewQ (load c None kw y).
Proof.
  induction y as [t v|t l IH|t l IH] using ynode_ind'; intros c kw Hy Hk.
  - inversion Hy; subst. cbn [load]. constructor. now apply own_flags_NX.
  - inversion Hy as [|t0 l0 Ht HF Hnd|]; subst. rewrite load_YM.
    pose proof (own_flags_NX c kw t Ht Hk) as HN.
    constructor; [exact HN| |rewrite map_map; cbn [fst]; exact Hnd].
    destruct Ht as (h1 & h2 & h3).
    assert (Hk' : kw_new_none (child_kwargs (Comp CDict (own_flags c None kw t) SNone []))).
    { unfold kw_new_none. cbn [child_kwargs nflags ck_any ck_inew]. cbn [own_flags f_new]. rewrite h3. exact (proj2 HN). }
    assert (Ei : inh_prio None t = None) by (unfold inh_prio; exact h1). rewrite Ei.
    clear Hy Hnd. induction IH as [|kx r Hkx Hr IHr]; cbn [map]; [constructor|].
    inversion HF; subst. constructor; cbn [snd]; auto.
  - inversion Hy as [| |t0 l0 Ht HF]; subst. rewrite load_YQ.
    pose proof (own_flags_NX c kw t Ht Hk) as HN.
    constructor; [exact HN| |apply keys_enum_load_list].
    destruct Ht as (h1 & h2 & h3).
    assert (Hk' : kw_new_none (child_kwargs (Comp CList (own_flags c None kw t) SNone []))).
    { unfold kw_new_none. cbn [child_kwargs nflags ck_any ck_inew]. cbn [own_flags f_new]. rewrite h3. exact (proj2 HN). }
    assert (Ei : inh_prio None t = None) by (unfold inh_prio; exact h1). rewrite Ei.
    clear Hy. generalize 0. induction IH as [|x r Hx Hr IHr]; intro i; cbn [load_list]; [constructor|].
    inversion HF; subst. constructor; cbn [snd]; auto.
Qed.

Lemma load_newp : forall y c kw, ysafe_only y -> kw_new_none kw -> kw_idel_none kw -> NewP (load c None kw y).
Proof.
  induction y as [t v|t l IH|t l IH] using ynode_ind'; intros c kw Hy Hk Hi.
  - inversion Hy; subst. cbn [load]. constructor. now apply own_flags_NX.
  - inversion Hy as [|t0 l0 Ht HF Hnd|]; subst. rewrite load_YM.
    pose proof (own_flags_NX c kw t Ht Hk) as HN.
    constructor; [exact HN|exact Hi| |rewrite map_map; cbn [fst]; exact Hnd].
    destruct Ht as (h1 & h2 & h3).
    assert (Hk' : kw_new_none (child_kwargs (Comp CDict (own_flags c None kw t) SNone []))).
    { unfold kw_new_none. cbn [child_kwargs nflags ck_any ck_inew]. cbn [own_flags f_new]. rewrite h3. exact (proj2 HN). }
    assert (Hi' : kw_idel_none (child_kwargs (Comp CDict (own_flags c None kw t) SNone []))).
    { unfold kw_idel_none. cbn [child_kwargs nflags ck_any ck_idel default_delete]. cbn [own_flags f_del]. rewrite h2, dict_default_delete. exact Hi. }
    assert (Ei : inh_prio None t = None) by (unfold inh_prio; exact h1). rewrite Ei.
    clear Hy Hnd. induction IH as [|kx r Hkx Hr IHr]; cbn [map]; [constructor|].
    inversion HF; subst. constructor; cbn [snd]; auto.
  - inversion Hy as [| |t0 l0 Ht HF]; subst. rewrite load_YQ.
    pose proof (own_flags_NX c kw t Ht Hk) as HN.
    constructor; [exact HN|exact Hi| |apply keys_enum_load_list].
    destruct Ht as (h1 & h2 & h3).
    assert (Hk' : kw_new_none (child_kwargs (Comp CList (own_flags c None kw t) SNone []))).
    { unfold kw_new_none. cbn [child_kwargs nflags ck_any ck_inew]. cbn [own_flags f_new]. rewrite h3. exact (proj2 HN). }
    assert (Ei : inh_prio None t = None) by (unfold inh_prio; exact h1). rewrite Ei.
    clear Hy IH. generalize 0. induction HF as [|x r Hx Hr IHr]; intro i; cbn [load_list]; [constructor|].
    constructor; cbn [snd]; [apply load_newq; auto|apply IHr].
Qed.

Lemma load_doc_newp c y : ysafe_only y -> NewP (load_doc c y).
Proof. intro H. apply load_newp; [exact H|reflexivity|reflexivity]. Qed.

(* ---------- C15: safety marks on ANY nodes of tag-free documents are data-neutral ---------- *)
Definition is_YM (y : ynode) : bool := match y with YM _ _ => true | _ => false end.

Lemma load_doc_dict c y : is_YM y = true -> is_dictk (load_doc c y) = true.
Proof. destruct y; try discriminate. intros _. unfold load_doc. rewrite load_YM. reflexivity. Qed.

Theorem unsafe_marks_neutral e c c' : forall y0 ys y0' ys',
  Forall ysafe_only (y0 :: ys) -> Forall ysafe_only (y0' :: ys') ->
  forallb is_YM (y0 :: ys) = true -> forallb is_YM (y0' :: ys') = true ->
  map yerase (y0 :: ys) = map yerase (y0' :: ys') ->
  same_outcome (flatten e (map (load_doc c) (y0 :: ys))) (flatten e (map (load_doc c') (y0' :: ys'))).
Proof.
  intros y0 ys y0' ys' HS HS' HM HM' HE.
  assert (G : forall cc z zs, Forall ysafe_only (z :: zs) -> forallb is_YM (z :: zs) = true ->
            match fold_left (fun acc y => do a <- acc; upd a (yplain y)) zs (Ok (yplain z)) with
            | Ok r => exists n, flatten e (map (load_doc cc) (z :: zs)) = Ok n /\ erase n = r
            | Err _ _ => exists q, flatten e (map (load_doc cc) (z :: zs)) = Err EMerge q
            end).
  { intros cc z zs HZ HMz. inversion HZ as [|? ? Hz HZs]; subst. cbn [forallb] in HMz. apply andb_true_iff in HMz. destruct HMz as [Hmz Hmzs].
    pose proof (flatten_mixed e (load_doc cc z) (map (fun y => GPlain (load_doc cc y)) zs) (load_doc_newp cc z Hz) (load_doc_dict cc z Hmz)) as FM.
    assert (HG : Forall gok (map (fun y => GPlain (load_doc cc y)) zs)).
    { clear - HZs Hmzs. induction HZs as [|y r Hy Hr IH]; cbn [map]; [constructor|]. cbn [forallb] in Hmzs. apply andb_true_iff in Hmzs. destruct Hmzs as [A B].
      constructor; [split; [apply load_doc_newp; exact Hy|apply load_doc_dict; exact A]|apply IH; exact B]. }
    specialize (FM HG). rewrite map_map in FM. cbn [gnode] in FM. cbn [map].
    assert (EFo : forall l acc, fold_left (fun acc st => do a <- acc; gstep a st) (map (fun y => GPlain (load_doc cc y)) l) acc
                             = fold_left (fun acc y => do a <- acc; upd a (yplain y)) l acc).
    { induction l as [|y r IHl]; intro acc; cbn [map fold_left]; [reflexivity|]. rewrite <- IHl. f_equal.
      destruct acc; cbn [bind gstep]; [|reflexivity]. unfold load_doc. now rewrite load_erase. }
    rewrite EFo in FM. unfold load_doc at 1 in FM. rewrite load_erase in FM. exact FM. }
  pose proof (G c y0 ys HS HM) as F1. pose proof (G c' y0' ys' HS' HM') as F2.
  assert (EP : forall l l', map yerase l = map yerase l' -> map yplain l = map yplain l').
  { induction l as [|a l IHl]; intros [|b l'] Hm; cbn in *; try discriminate; [reflexivity|]. injection Hm as Ha Hl.
    rewrite <- (yerase_yplain a), <- (yerase_yplain b), Ha. f_equal. auto. }
  cbn [map] in HE. injection HE as HE0 HEr.
  assert (E0 : yplain y0 = yplain y0') by (rewrite <- (yerase_yplain y0), <- (yerase_yplain y0'), HE0; reflexivity).
  assert (EFold : fold_left (fun acc y => do a <- acc; upd a (yplain y)) ys (Ok (yplain y0)) = fold_left (fun acc y => do a <- acc; upd a (yplain y)) ys' (Ok (yplain y0'))).
  { rewrite E0. pose proof (EP _ _ HEr) as Ep. clear - Ep. generalize (@Ok plain (yplain y0')). revert ys' Ep.
    induction ys as [|a l IHl]; intros [|b l'] Ep acc; cbn in *; try discriminate; [reflexivity|]. injection Ep as Ea El. rewrite Ea. apply IHl; exact El. }
  rewrite EFold in F1.
  destruct (fold_left (fun acc y => do a <- acc; upd a (yplain y)) ys' (Ok (yplain y0'))) as [r|er q].
  - destruct F1 as (n & -> & En). destruct F2 as (m & -> & Em). cbn. congruence.
  - destruct F1 as (q1 & ->). destruct F2 as (q2 & ->). exact I.
Qed.
