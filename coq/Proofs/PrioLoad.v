(* Proofs/PrioLoad.v — C03 from the document down: mapping documents with arbitrary !force / !weak / !metadata{{priority}} tags on
   scalars and on enclosing mappings load to trees of the class of Proofs.MergePrio, whose priority image is [yprio]: every
   node carries the priority of the nearest tagged ancestor-or-self (outermost first), else the default. *)
From AY Require Import Model.Merge Model.Loader Proofs.NodeInd Proofs.FlagsLemmas Proofs.FactsOk Spec.UpdateP
  Proofs.MergePlain Proofs.LoaderLemmas Proofs.Laws Proofs.MergeNotNew Proofs.MergeGen Proofs.MergePrio Proofs.PrioPath.

Definition tz (t : tagkw) : Prop := t_del t = None /\ t_new t <> Some false.
Definition kw_new_ok (kw : ckw) : Prop := (if ck_any kw then ck_inew kw else None) <> Some false.

(* what may sit INSIDE a list: no priority tag of its own (the list's priority - its own tag or an enclosing one - applies to it) *)
Definition tin (t : tagkw) : Prop := tz t /\ t_prio t = None.
Inductive yin : ynode -> Prop :=
| yin_s t v : tin t -> yin (YS t v)
| yin_m t l : tin t -> Forall (fun kx => yin (snd kx)) l -> NoDup (map fst l) -> yin (YM t l)
| yin_q t l : tin t -> Forall yin l -> yin (YQ t l).

Inductive yz : ynode -> Prop :=
| yz_s t v : tz t -> yz (YS t v)
| yz_m t l : tz t -> Forall (fun kx => yz (snd kx)) l -> NoDup (map fst l) -> yz (YM t l)
| yz_q t l : tz t -> Forall yin l -> yz (YQ t l).

Definition kw_idel_true (kw : ckw) : Prop := (if ck_any kw then ck_idel kw else None) = Some true.

Fixpoint yprio (inh : option Z) (y : ynode) : pp :=
  match y with
  | YS t v => PPS (onone (inh_prio inh t) Facts.default_priority) (AS v)
  | YM t l => PPD (onone (inh_prio inh t) Facts.default_priority)
                  ((fix go (l : list (key * ynode)) := match l with [] => [] | (k, x) :: r => (k, yprio (inh_prio inh t) x) :: go r end) l)
  | YQ t l => PPS (onone (inh_prio inh t) Facts.default_priority) (AL ((fix go (l : list ynode) := match l with [] => [] | x :: r => yplain x :: go r end) l))
  end.

Lemma yprio_YQ inh t l : yprio inh (YQ t l) = PPS (onone (inh_prio inh t) Facts.default_priority) (AL (map yplain l)).
Proof. cbn [yprio]. apply f_equal. apply f_equal. induction l as [|x r IH]; [reflexivity|]. cbn [map]. now rewrite IH. Qed.

Lemma yprio_YM inh t l :
  yprio inh (YM t l) = PPD (onone (inh_prio inh t) Facts.default_priority) (map (fun kx => (fst kx, yprio (inh_prio inh t) (snd kx))) l).
Proof. cbn [yprio]. f_equal. induction l as [|[k x] r IH]; [reflexivity|]. cbn [map fst snd]. now f_equal. Qed.

Lemma own_flags_NZ c inh kw t : tz t -> kw_new_ok kw -> NZ (own_flags c inh kw t).
Proof. intros (h2 & h3) Hk. unfold own_flags, NZ, OZ. cbn. repeat split; auto. Qed.

Lemma own_flags_prio c inh kw t : priority (own_flags c inh kw t) = onone (inh_prio inh t) Facts.default_priority.
Proof. reflexivity. Qed.

Lemma own_flags_idel c inh kw t : f_idel (own_flags c inh kw t) = (if ck_any kw then ck_idel kw else None).
Proof. reflexivity. Qed.

(* inside a list: every node gets the list's priority and implicit_delete = True *)
Lemma load_UN : forall y c inh kw p, yin y -> kw_new_ok kw -> kw_idel_true kw -> onone inh Facts.default_priority = p ->
  UN p (load c inh kw y).
Proof.
  induction y as [t v|t l IH|t l IH] using ynode_ind'; intros c inh kw p Hy Hk Hi Hp.
  - inversion Hy as [t0 v0 [Ht Hpr]| |]; subst. cbn [load].
    apply UNLeaf; [now apply own_flags_NZ|rewrite own_flags_idel; exact Hi|].
    rewrite own_flags_prio. unfold inh_prio. destruct inh; [first [exact Hp|reflexivity]|rewrite Hpr; first [exact Hp|reflexivity]].
  - inversion Hy as [|t0 l0 [Ht Hpr] HF Hnd|]; subst. rewrite load_YM.
    pose proof (own_flags_NZ c inh kw t Ht Hk) as HN. destruct Ht as (h2 & h3).
    set (f := own_flags c inh kw t) in *.
    assert (Ei : inh_prio inh t = inh) by (unfold inh_prio; destruct inh; [reflexivity|exact Hpr]).
    assert (Hk' : kw_new_ok (child_kwargs (Comp CDict f SNone []))).
    { unfold kw_new_ok. cbn [child_kwargs nflags ck_any ck_inew]. unfold f at 1. cbn [own_flags f_new].
      destruct (t_new t) as [[|]|]; [discriminate|congruence|exact (proj2 (proj2 HN))]. }
    assert (Hi' : kw_idel_true (child_kwargs (Comp CDict f SNone []))).
    { unfold kw_idel_true. cbn [child_kwargs nflags ck_any ck_idel default_delete]. unfold f at 1. cbn [own_flags f_del]. rewrite h2, dict_default_delete.
      unfold f. rewrite own_flags_idel. exact Hi. }
    apply UNDict; [exact HN|unfold f; rewrite own_flags_idel; exact Hi|unfold f; rewrite own_flags_prio, Ei; first [exact Hp|reflexivity]| |rewrite map_map; cbn [fst]; exact Hnd].
    rewrite Ei. clear Hy Hnd. induction IH as [|kx r Hkx Hr IHr]; cbn [map]; [constructor|].
    inversion HF as [|? ? Hx HF']; subst. constructor; [cbn [snd]; apply Hkx; auto|apply IHr; exact HF'].
  - inversion Hy as [| |t0 l0 [Ht Hpr] HF]; subst. rewrite load_YQ.
    pose proof (own_flags_NZ c inh kw t Ht Hk) as HN. destruct Ht as (h2 & h3).
    set (f := own_flags c inh kw t) in *.
    assert (Ei : inh_prio inh t = inh) by (unfold inh_prio; destruct inh; [reflexivity|exact Hpr]).
    assert (Hk' : kw_new_ok (child_kwargs (Comp CList f SNone []))).
    { unfold kw_new_ok. cbn [child_kwargs nflags ck_any ck_inew]. unfold f at 1. cbn [own_flags f_new].
      destruct (t_new t) as [[|]|]; [discriminate|congruence|exact (proj2 (proj2 HN))]. }
    assert (Hi' : kw_idel_true (child_kwargs (Comp CList f SNone []))).
    { unfold kw_idel_true. cbn [child_kwargs nflags ck_any ck_idel default_delete]. unfold f at 1. cbn [own_flags f_del]. rewrite h2, list_default_delete. reflexivity. }
    apply UNList; [exact HN|unfold f; rewrite own_flags_idel; exact Hi|unfold f; rewrite own_flags_prio, Ei; first [exact Hp|reflexivity]| |apply keys_enum_load_list].
    rewrite Ei. clear Hy. generalize 0. induction IH as [|x r Hx Hr IHr]; intro i; cbn [load_list]; [constructor|].
    inversion HF as [|? ? Hx' HF']; subst. constructor; [cbn [snd]; apply Hx; auto|apply IHr; exact HF'].
Qed.

Lemma lch_load_list c inh kw : forall l i, lch (load_list c inh kw i l) = map yplain l.
Proof. induction l as [|x r IH]; intro i; cbn [load_list lch map snd]; [reflexivity|]. rewrite load_erase. f_equal. apply IH. Qed.

Lemma load_newz : forall y c inh kw, yz y -> kw_new_ok kw -> kw_idel_none kw ->
  NewZ (load c inh kw y) /\ perase (load c inh kw y) = yprio inh y.
Proof.
  induction y as [t v|t l IH|t l IH] using ynode_ind'; intros c inh kw Hy Hk Hi.
  - inversion Hy; subst. cbn [load]. split; [constructor; now apply own_flags_NZ|reflexivity].
  - inversion Hy as [|t0 l0 Ht HF Hnd|]; subst. rewrite load_YM, yprio_YM, perase_dict.
    pose proof (own_flags_NZ c inh kw t Ht Hk) as HN.
    destruct Ht as (h2 & h3).
    set (f := own_flags c inh kw t) in *.
    assert (Hk' : kw_new_ok (child_kwargs (Comp CDict f SNone []))).
    { unfold kw_new_ok. cbn [child_kwargs nflags ck_any ck_inew]. unfold f at 1. cbn [own_flags f_new].
      destruct (t_new t) as [[|]|]; [discriminate|congruence|exact (proj2 (proj2 HN))]. }
    assert (Hi' : kw_idel_none (child_kwargs (Comp CDict f SNone []))).
    { unfold kw_idel_none. cbn [child_kwargs nflags ck_any ck_idel default_delete]. unfold f at 1. cbn [own_flags f_del]. rewrite h2, dict_default_delete. exact Hi. }
    assert (G : Forall (fun kc => NewZ (snd kc)) (map (fun kx => (fst kx, load c (inh_prio inh t) (child_kwargs (Comp CDict f SNone [])) (snd kx))) l)
                /\ pch (map (fun kx => (fst kx, load c (inh_prio inh t) (child_kwargs (Comp CDict f SNone [])) (snd kx))) l)
                   = map (fun kx => (fst kx, yprio (inh_prio inh t) (snd kx))) l).
    { clear Hy Hnd. induction IH as [|kx r Hkx Hr IHr]; cbn [map pch]; [split; [constructor|reflexivity]|].
      inversion HF as [|? ? Hx HF']; subst. destruct (IHr HF') as [G1 G2].
      destruct (Hkx c (inh_prio inh t) (child_kwargs (Comp CDict f SNone [])) Hx Hk' Hi') as [N1 N2].
      split; [constructor; [exact N1|exact G1]|]. cbn [fst snd]. rewrite N2. f_equal. exact G2. }
    destruct G as [G1 G2]. split.
    + constructor; [exact HN|exact Hi|exact G1|rewrite map_map; cbn [fst]; exact Hnd].
    + rewrite G2. reflexivity.
  - inversion Hy as [| |t0 l0 Ht HF]; subst. rewrite load_YQ, yprio_YQ, perase_list, lch_load_list.
    pose proof (own_flags_NZ c inh kw t Ht Hk) as HN. destruct Ht as (h2 & h3).
    set (f := own_flags c inh kw t) in *.
    assert (Hk' : kw_new_ok (child_kwargs (Comp CList f SNone []))).
    { unfold kw_new_ok. cbn [child_kwargs nflags ck_any ck_inew]. unfold f at 1. cbn [own_flags f_new].
      destruct (t_new t) as [[|]|]; [discriminate|congruence|exact (proj2 (proj2 HN))]. }
    assert (Hi' : kw_idel_true (child_kwargs (Comp CList f SNone []))).
    { unfold kw_idel_true. cbn [child_kwargs nflags ck_any ck_idel default_delete]. unfold f at 1. cbn [own_flags f_del]. rewrite h2, list_default_delete. reflexivity. }
    split; [|reflexivity].
    constructor; [exact HN|unfold f; rewrite own_flags_idel; unfold kw_idel_none in Hi; rewrite Hi; discriminate| |apply keys_enum_load_list].
    unfold f at 1. rewrite own_flags_prio. clear Hy IH. generalize 0. induction HF as [|x r Hx Hr IHr]; intro i; cbn [load_list]; [constructor|].
    constructor; [cbn [snd]; apply load_UN; auto|apply IHr].
Qed.

Lemma yprio_pwf : forall y inh, yz y -> pwf (yprio inh y).
Proof.
  induction y as [t v|t l IH|t l IH] using ynode_ind'; intros inh Hy.
  - constructor.
  - inversion Hy as [|t0 l0 Ht HF Hnd|]; subst. rewrite yprio_YM. constructor; [rewrite map_map; cbn [fst]; exact Hnd|].
    clear Hy Hnd. induction IH as [|kx r Hkx Hr IHr]; cbn [map]; [constructor|]. inversion HF; subst. constructor; cbn [snd]; auto.
  - rewrite yprio_YQ. constructor.
Qed.

Lemma load_doc_newz c y : yz y -> NewZ (load_doc c y) /\ perase (load_doc c y) = yprio None y.
Proof. intro H. apply load_newz; [exact H|discriminate|reflexivity]. Qed.

Lemma perase_load_docs c : forall l, Forall yz l -> map perase (map (load_doc c) l) = map (yprio None) l.
Proof. induction 1 as [|y r Hy Hr IH]; cbn [map]; [reflexivity|]. now rewrite (proj2 (load_doc_newz c y Hy)), IH. Qed.

(* any number of documents: Builder.flatten builds the left fold of upd_p over their priority images - as long as no mapping meets a list *)
Theorem flatten_prio_docs e c y0 ys : Forall yz (y0 :: ys) -> forallb is_YM (y0 :: ys) = true ->
  hcompat (yprio None y0) (map (yprio None) ys) ->
  exists n, flatten e (map (load_doc c) (y0 :: ys)) = Ok n /\ perase n = fold_left upd_p (map (yprio None) ys) (yprio None y0).
Proof.
  intros HF HM Hh.
  assert (HN : Forall NewZ (map (load_doc c) (y0 :: ys))).
  { clear HM Hh. induction HF as [|y r Hy Hr IHr]; cbn [map]; [constructor|]. constructor; [apply (load_doc_newz c y Hy)|exact IHr]. }
  assert (HD : forallb is_dictk (map (load_doc c) (y0 :: ys)) = true).
  { clear HF HN Hh. induction (y0 :: ys) as [|y r IHr]; [reflexivity|]. cbn [forallb map] in *. apply andb_true_iff in HM. destruct HM as [A B].
    now rewrite (load_doc_dict c y A), IHr. }
  inversion HF as [|? ? H0 HF']; subst.
  cbn [map] in HN, HD. destruct (flatten_prio e _ _ HN HD) as (n & E & En).
  { rewrite (proj2 (load_doc_newz c y0 H0)), (perase_load_docs c ys HF'). exact Hh. }
  exists n. split; [exact E|]. now rewrite En, (proj2 (load_doc_newz c y0 H0)), (perase_load_docs c ys HF').
Qed.

(* documents without lists: the side condition is vacuous *)
Fixpoint ynolist (y : ynode) : Prop :=
  match y with
  | YS _ _ => True
  | YM _ l => (fix go (l : list (key * ynode)) : Prop := match l with [] => True | (_, x) :: r => ynolist x /\ go r end) l
  | YQ _ _ => False
  end.

Lemma yprio_nolist : forall y inh, ynolist y -> nolist (yprio inh y).
Proof.
  induction y as [t v|t l IH|t l IH] using ynode_ind'; intros inh H; [exact I| |contradiction].
  rewrite yprio_YM. apply nolist_PPD. cbn [ynolist] in H.
  induction IH as [|[k x] r Hx Hr IHr]; cbn [map]; [constructor|]. destruct H as [A B]. constructor; [cbn [snd]; apply Hx; exact A|apply IHr; exact B].
Qed.

Lemma hcompat_ynolist y0 ys : Forall ynolist (y0 :: ys) -> hcompat (yprio None y0) (map (yprio None) ys).
Proof.
  intro H. inversion H as [|? ? H0 Hr]; subst. apply hcompat_nolist; [apply yprio_nolist; exact H0|].
  clear - Hr. induction Hr as [|y r Hy Hr' IH]; cbn [map]; constructor; auto. apply yprio_nolist; exact Hy.
Qed.

(* ... and therefore, at every path whose spine consists of mappings in every document and which holds scalars (where it holds anything):
   the merged value is the one written by the latest document among those of maximal priority *)
Theorem docs_leaf_path_winner e c y0 ys q : Forall yz (y0 :: ys) -> forallb is_YM (y0 :: ys) = true -> q <> [] ->
  hcompat (yprio None y0) (map (yprio None) ys) ->
  Forall (fun y => sp (yprio None y) q /\ leafy q (yprio None y)) (y0 :: ys) ->
  exists n, flatten e (map (load_doc c) (y0 :: ys)) = Ok n /\
    match flat_map (wat q) (map (yprio None) (y0 :: ys)) with
    | [] => pget (perase n) q = None
    | w0 :: ws =>
      exists pre post p v,
        w0 :: ws = pre ++ (p, v) :: post /\
        Forall (fun x => fst x <= p) pre /\ Forall (fun x => fst x < p) post /\
        pget (perase n) q = Some (PPS p v)
    end.
Proof.
  intros HF HM Hq Hh HS. destruct (flatten_prio_docs e c y0 ys HF HM Hh) as (n & E & En). exists n. split; [exact E|]. rewrite En.
  cbn [map]. apply leaf_path_winner; [exact Hq|].
  assert (G : forall l, Forall yz l -> Forall (fun y => sp (yprio None y) q /\ leafy q (yprio None y)) l ->
              Forall (fun d => sp d q /\ pwf d /\ leafy q d) (map (yprio None) l)).
  { induction l as [|y r IHr]; intros H1 H2; cbn [map]; [constructor|]. inversion H1; subst. inversion H2 as [|? ? [A B] H2']; subst.
    constructor; [split; [exact A|split; [apply yprio_pwf; assumption|exact B]]|apply IHr; assumption]. }
  exact (G (y0 :: ys) HF HS).
Qed.
