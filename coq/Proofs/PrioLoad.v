(* Proofs/PrioLoad.v — C03 from the document down: mapping documents with arbitrary !force / !weak / !metadata{{priority}} tags on
   scalars and on enclosing mappings load to trees of the class of Proofs.MergePrio, whose priority image is [yprio]: every
   node carries the priority of the nearest tagged ancestor-or-self (outermost first), else the default. *)
From AY Require Import Model.Merge Model.Loader Proofs.NodeInd Proofs.FlagsLemmas Proofs.FactsOk Spec.UpdateP
  Proofs.MergePlain Proofs.LoaderLemmas Proofs.Laws Proofs.MergeNotNew Proofs.MergeGen Proofs.MergePrio Proofs.PrioPath.

Definition tz (t : tagkw) : Prop := t_del t = None /\ t_new t <> Some false.
Definition kw_new_ok (kw : ckw) : Prop := (if ck_any kw then ck_inew kw else None) <> Some false.

Inductive yz : ynode -> Prop :=
| yz_s t v : tz t -> yz (YS t v)
| yz_m t l : tz t -> Forall (fun kx => yz (snd kx)) l -> NoDup (map fst l) -> yz (YM t l).

Fixpoint yprio (inh : option Z) (y : ynode) : pp :=
  match y with
  | YS t v => PPS (onone (inh_prio inh t) Facts.default_priority) v
  | YM t l => PPD (onone (inh_prio inh t) Facts.default_priority)
                  ((fix go (l : list (key * ynode)) := match l with [] => [] | (k, x) :: r => (k, yprio (inh_prio inh t) x) :: go r end) l)
  | YQ t l => PPS 0 SNone
  end.

Lemma yprio_YM inh t l :
  yprio inh (YM t l) = PPD (onone (inh_prio inh t) Facts.default_priority) (map (fun kx => (fst kx, yprio (inh_prio inh t) (snd kx))) l).
Proof. cbn [yprio]. f_equal. induction l as [|[k x] r IH]; [reflexivity|]. cbn [map fst snd]. now f_equal. Qed.

Lemma own_flags_NZ c inh kw t : tz t -> kw_new_ok kw -> NZ (own_flags c inh kw t).
Proof. intros (h2 & h3) Hk. unfold own_flags, NZ, OZ. cbn. repeat split; auto. Qed.

Lemma load_newz : forall y c inh kw, yz y -> kw_new_ok kw -> kw_idel_none kw ->
  NewZ (load c inh kw y) /\ perase (load c inh kw y) = yprio inh y.
Proof.
  induction y as [t v|t l IH|t l IH] using ynode_ind'; intros c inh kw Hy Hk Hi.
  - inversion Hy; subst. cbn [load]. split; [constructor; now apply own_flags_NZ|reflexivity].
  - inversion Hy as [|t0 l0 Ht HF Hnd]; subst. rewrite load_YM, yprio_YM, perase_comp.
    pose proof (own_flags_NZ c inh kw t Ht Hk) as HN.
    destruct Ht as (h2 & h3).
    set (f := own_flags c inh kw t) in *.
    assert (Hk' : kw_new_ok (child_kwargs (Comp CDict f SNone []))).
    { unfold kw_new_ok. cbn [child_kwargs nflags ck_any ck_inew]. unfold f at 1. cbn [own_flags f_new].
      destruct (t_new t) as [[|]|]; [discriminate|congruence|exact (proj2 (proj2 HN))]. }
    assert (Hi' : kw_idel_none (child_kwargs (Comp CDict f SNone []))).
    { unfold kw_idel_none. cbn [child_kwargs nflags ck_any ck_idel default_delete]. unfold f at 1. cbn [own_flags f_del]. rewrite h2, dict_default_delete. exact Hi. }
    assert (G : Forall (fun kc => NewZ (snd kc)) (map (fun kx => (fst kx, load c (inh_prio inh t) (child_kwargs (Comp CDict f SNone [])) (snd kx))) l)
                /\ pch (map (fun kx => (fst kx, load c (inh_prio inh t) (child_kwargs (Comp CDict f SNone [])) (snd kx))) l)
                   = map (fun kx => (fst kx, yprio (inh_prio inh t) (snd kx))) l).
    { clear Hy Hnd. induction IH as [|kx r Hkx Hr IHr]; cbn [map pch]; [split; [constructor|reflexivity]|].
      inversion HF as [|? ? Hx HF']; subst. destruct (IHr HF') as [G1 G2].
      destruct (Hkx c (inh_prio inh t) (child_kwargs (Comp CDict f SNone [])) Hx Hk' Hi') as [N1 N2].
      split; [constructor; [exact N1|exact G1]|]. cbn [fst snd]. rewrite N2. f_equal. exact G2. }
    destruct G as [G1 G2]. split.
    + constructor; [exact HN|exact Hi|exact G1|rewrite map_map; cbn [fst]; exact Hnd].
    + rewrite G2. reflexivity.
  - inversion Hy.
Qed.

Lemma yprio_pwf : forall y inh, yz y -> pwf (yprio inh y).
Proof.
  induction y as [t v|t l IH|t l IH] using ynode_ind'; intros inh Hy.
  - constructor.
  - inversion Hy as [|t0 l0 Ht HF Hnd]; subst. rewrite yprio_YM. constructor; [rewrite map_map; cbn [fst]; exact Hnd|].
    clear Hy Hnd. induction IH as [|kx r Hkx Hr IHr]; cbn [map]; [constructor|]. inversion HF; subst. constructor; cbn [snd]; auto.
  - inversion Hy.
Qed.

Lemma load_doc_newz c y : yz y -> NewZ (load_doc c y) /\ perase (load_doc c y) = yprio None y.
Proof. intro H. apply load_newz; [exact H|discriminate|reflexivity]. Qed.

(* any number of documents: Builder.flatten builds the left fold of upd_p over their priority images *)
Theorem flatten_prio_docs e c y0 ys : Forall yz (y0 :: ys) -> forallb is_YM (y0 :: ys) = true ->
  exists n, flatten e (map (load_doc c) (y0 :: ys)) = Ok n /\ perase n = fold_left upd_p (map (yprio None) ys) (yprio None y0).
Proof.
  intros HF HM.
  assert (HN : Forall NewZ (map (load_doc c) (y0 :: ys))).
  { clear HM. induction HF as [|y r Hy Hr IHr]; cbn [map]; [constructor|]. constructor; [apply (load_doc_newz c y Hy)|exact IHr]. }
  assert (HD : forallb is_dictk (map (load_doc c) (y0 :: ys)) = true).
  { clear HF HN. induction (y0 :: ys) as [|y r IHr]; [reflexivity|]. cbn [forallb map] in *. apply andb_true_iff in HM. destruct HM as [A B].
    now rewrite (load_doc_dict c y A), IHr. }
  cbn [map] in HN, HD. destruct (flatten_prio e _ _ HN HD) as (n & E & En). exists n. split; [exact E|].
  rewrite En. inversion HF as [|? ? H0 HF']; subst. rewrite (proj2 (load_doc_newz c y0 H0)). f_equal.
  rewrite map_map. clear - HF'. induction HF' as [|y r Hy Hr IHr]; cbn [map]; [reflexivity|]. now rewrite (proj2 (load_doc_newz c y Hy)), IHr.
Qed.

(* ... and therefore, at every path whose spine consists of mappings in every document and which holds scalars (where it holds anything):
   the merged value is the one written by the latest document among those of maximal priority *)
Theorem docs_leaf_path_winner e c y0 ys q : Forall yz (y0 :: ys) -> forallb is_YM (y0 :: ys) = true -> q <> [] ->
  Forall (fun y => sp (yprio None y) q /\ leafy q (yprio None y)) (y0 :: ys) ->
  exists n, flatten e (map (load_doc c) (y0 :: ys)) = Ok n /\
    match flat_map (wat q) (map (yprio None) (y0 :: ys)) with
    | [] => pget (perase n) q = None
    | w0 :: ws =>
      exists pre post p v,
        w0 :: ws = pre ++ (p, v) :: post /\
        Forall (fun x => fst x <= p) pre /\ Forall (fun x => fst x < p) post /\
        pget (perase n) q = Some (PPS p v)
    end.
Proof.
  intros HF HM Hq HS. destruct (flatten_prio_docs e c y0 ys HF HM) as (n & E & En). exists n. split; [exact E|]. rewrite En.
  cbn [map]. apply leaf_path_winner; [exact Hq|].
  assert (G : forall l, Forall yz l -> Forall (fun y => sp (yprio None y) q /\ leafy q (yprio None y)) l ->
              Forall (fun d => sp d q /\ pwf d /\ leafy q d) (map (yprio None) l)).
  { induction l as [|y r IHr]; intros H1 H2; cbn [map]; [constructor|]. inversion H1; subst. inversion H2 as [|? ? [A B] H2']; subst.
    constructor; [split; [exact A|split; [apply yprio_pwf; assumption|exact B]]|apply IHr; assumption]. }
  exact (G (y0 :: ys) HF HS).
Qed.
