(* Proofs/Local.v — merging is local: the path argument of the merge only reaches error reports (C05). *)
From AY Require Import Model.Merge Proofs.NodeInd Proofs.FlagsLemmas Proofs.FactsOk.

Definition strip {A} (r : res A) : res A := match r with Ok x => Ok x | Err e _ => Err e [] end.

(* ---------- paths under a common prefix ---------- *)
Lemma path_eqb_app p a b : path_eqb (p ++ a) (p ++ b) = path_eqb a b.
Proof.
  unfold path_eqb. induction p as [|k p IH]; cbn [app length combine forallb]; [reflexivity|].
  cbn [Nat.eqb fst snd]. rewrite key_eqb_refl. cbn [andb]. exact IH.
Qed.

Lemma path_in_app p a l : path_in (p ++ a) (map (app p) l) = path_in a l.
Proof. unfold path_in. induction l as [|b l IH]; cbn; [reflexivity|]. now rewrite path_eqb_app, IH. Qed.

Lemma skipn_app_exact {A} (p q : list A) : skipn (length p) (p ++ q) = q.
Proof. induction p; cbn; auto. Qed.

Lemma nwp_prefix : forall n p q, nwp (p ++ q) n = map (fun pn => (p ++ fst pn, snd pn)) (nwp q n).
Proof.
  induction n as [k f v|k f x ch IH] using node_ind'; intros p q; [reflexivity|].
  rewrite !nwp_comp. cbn [map fst snd]. f_equal.
  induction IH as [|kc r Hkc Hr IHr]; cbn [flat_map map]; [reflexivity|].
  rewrite map_app, IHr. f_equal. rewrite <- app_assoc. apply Hkc.
Qed.

Lemma nodes_with_paths_prefix n p q inc :
  nodes_with_paths (p ++ q) n inc = map (fun pn => (p ++ fst pn, snd pn)) (nodes_with_paths q n inc).
Proof. unfold nodes_with_paths. rewrite nwp_prefix. destruct inc; [reflexivity|]. destruct (nwp q n); reflexivity. Qed.

Lemma require_all_new_prefix n p q exc inc :
  require_all_new n (p ++ q) (map (app p) exc) inc = require_all_new n q exc inc.
Proof.
  unfold require_all_new.
  assert (E : forall l, forallb (fun pn : path * node => (allow_new (nflags (snd pn)) || path_in (fst pn) (map (app p) exc))%bool)
                         (map (fun pn => (p ++ fst pn, snd pn)) l)
                = forallb (fun pn : path * node => (allow_new (nflags (snd pn)) || path_in (fst pn) exc)%bool) l).
  { induction l as [|[r m] l IHl]; cbn [map forallb fst snd]; [reflexivity|]. now rewrite path_in_app, IHl. }
  destruct n as [k f v|k f x ch].
  - destruct inc; [|reflexivity]. exact (E [(q, Leaf k f v)]).
  - rewrite nodes_with_paths_prefix. apply E.
Qed.

Lemma require_all_new_nil n p p' inc : require_all_new n p [] inc = require_all_new n p' [] inc.
Proof.
  rewrite <- (app_nil_r p), <- (app_nil_r p').
  change (@nil path) with (map (app p) (@nil path)) at 1. rewrite require_all_new_prefix.
  change (@nil path) with (map (app p') (@nil path)) at 2. now rewrite require_all_new_prefix.
Qed.

(* ---------- filter_nodes under a prefix ---------- *)
Lemma filter_prefix (g : path -> node -> bool) : forall n p q,
  filter_nodes (fun ap m => g (skipn (length p) ap) m) (p ++ q) n =
  (fst (filter_nodes g q n), map (app p) (snd (filter_nodes g q n))).
Proof.
  induction n as [k f v|k f x ch IH] using node_ind'; intros p q; [reflexivity|].
  rewrite !filter_nodes_comp. cbv zeta. cbn [fst snd].
  assert (E : filter_go (fun ap m => g (skipn (length p) ap) m) (p ++ q) ch =
              (fst (filter_go g q ch), map (app p) (snd (filter_go g q ch)))).
  { induction IH as [|kc r Hkc Hr IHr]; cbn [filter_go]; [reflexivity|].
    rewrite IHr.
    assert (Ec : filter_child (filter_nodes (fun ap m => g (skipn (length p) ap) m)) (fun ap m => g (skipn (length p) ap) m) (p ++ q) kc
                 = (fst (filter_child (filter_nodes g) g q kc), map (app p) (snd (filter_child (filter_nodes g) g q kc)))).
    { unfold filter_child. rewrite <- app_assoc, skipn_app_exact.
      destruct (snd kc) as [lk lf lv|ck cf cx cch] eqn:Ekc.
      - cbn [fst snd app map]. destruct (g (q ++ [fst kc]) (Leaf lk lf lv) || has_children (Leaf lk lf lv))%bool; reflexivity.
      - rewrite (Hkc p (q ++ [fst kc])).
        destruct (filter_nodes g (q ++ [fst kc]) (Comp ck cf cx cch)) as [c' rc]. cbn [fst snd].
        destruct (g (q ++ [fst kc]) (Comp ck cf cx cch) || has_children c')%bool; cbn [fst snd]; rewrite map_app; reflexivity. }
    rewrite Ec.
    destruct (filter_child (filter_nodes g) g q kc) as [m rm]. destruct (filter_go g q r) as [rest rem_r].
    cbn [fst snd]. now rewrite map_app. }
  rewrite E. reflexivity.
Qed.

(* ---------- the merge rules do not look at the path ---------- *)
Section Indep.
  Variables rec rec' : path -> node -> node -> res (node * who).
  Hypothesis Hrec : forall q q' c v, strip (rec q c v) = strip (rec' q' c v).

  Lemma merge_step_indep p p' acc acc' kv :
    strip acc = strip acc' -> strip (merge_step rec [] p acc kv) = strip (merge_step rec' [] p' acc' kv).
  Proof.
    intro Ha. unfold merge_step.
    destruct acc as [cur|e q], acc' as [cur'|e' q']; cbn in Ha; try discriminate; [|inversion Ha; subst; reflexivity].
    inversion Ha; subst cur'. cbn [bind]. destruct kv as [k v].
    destruct (get_child cur k) as [c|].
    - cbn [path_in existsb].
      pose proof (Hrec (p ++ [k]) (p' ++ [k]) c v) as Hr.
      destruct (rec (p ++ [k]) c v) as [[n w]|e q], (rec' (p' ++ [k]) c v) as [[n' w']|e' q']; cbn in Hr; try discriminate;
        [|inversion Hr; subst; reflexivity].
      inversion Hr; subst n' w'. cbn [bind].
      rewrite (require_all_new_nil n (p ++ [k]) (p' ++ [k]) false).
      destruct (is_comp c).
      + destruct (negb (truthy n) && negb (has_priority_over n v false) && explicit_delete v)%bool.
        * destruct (remove_child cur k); reflexivity.
        * destruct w; [reflexivity|]. destruct (set_child cur k n); reflexivity.
      + destruct w; [reflexivity|].
        destruct (require_all_new n (p' ++ [k]) [] false); [|reflexivity].
        destruct (negb (truthy n) && explicit_delete n)%bool.
        * destruct (remove_child cur k); reflexivity.
        * destruct (set_child cur k n); reflexivity.
    - rewrite (require_all_new_nil v (p ++ [k]) (p' ++ [k]) true).
      destruct (require_all_new v (p' ++ [k]) [] true); [|reflexivity].
      destruct (set_child cur k v); reflexivity.
  Qed.

  Lemma fold_step_indep p p' : forall l acc acc',
    strip acc = strip acc' ->
    strip (fold_left (merge_step rec [] p) l acc) = strip (fold_left (merge_step rec' [] p') l acc').
  Proof.
    induction l as [|kv l IH]; intros acc acc' Ha; cbn [fold_left]; [exact Ha|].
    apply IH. apply merge_step_indep. exact Ha.
  Qed.

  Lemma prune_indep p p' s o :
    fst (prune p s o) = fst (prune p' s o) /\
    match snd (prune p s o), snd (prune p' s o) with
    | Some r, Some r' => strip r = strip r'
    | None, None => True
    | _, _ => False
    end.
  Proof.
    unfold prune. destruct (delete o); [|cbn; auto].
    pose proof (filter_prefix (fun rp n => has_priority_over n (first_not_missing o rp) false) s p []) as E1.
    pose proof (filter_prefix (fun rp n => has_priority_over n (first_not_missing o rp) false) s p' []) as E2.
    rewrite app_nil_r in E1, E2. cbv beta in E1, E2. rewrite E1, E2.
    destruct (filter_nodes (fun rp n => has_priority_over n (first_not_missing o rp) false) [] s) as [s' R]. cbn [fst snd].
    destruct (match children s' with [] => true | _ :: _ => false end && has_priority_over o s' true)%bool; [|cbn; auto].
    assert (Er : forall pp, require_all_new o pp (pp :: map (app pp) R) true = require_all_new o [] ([] :: R) true).
    { intro pp. rewrite <- (app_nil_r pp) at 1 2.
      change ((pp ++ []) :: map (app pp) R) with (map (app pp) ([] :: R)). apply require_all_new_prefix. }
    rewrite (Er p), (Er p').
    destruct (require_all_new o [] ([] :: R) true); cbn [fst snd]; [|cbn; auto].
    destruct (replace_other o s' true). cbn. auto.
  Qed.

  Lemma comp_merge_indep p p' s o : strip (comp_merge rec [] p s o) = strip (comp_merge rec' [] p' s o).
  Proof.
    unfold comp_merge. destruct o as [|ko fo xo cho]; [reflexivity|].
    destruct (prune_indep p p' s (Comp ko fo xo cho)) as [E1 E2].
    destruct (prune p s (Comp ko fo xo cho)) as [s1 [r|]], (prune p' s (Comp ko fo xo cho)) as [s1' [r'|]]; cbn [fst snd] in *; try contradiction; [exact E2|].
    subst s1'.
    pose proof (fold_step_indep p p' cho (Ok s1) (Ok s1) eq_refl) as HF.
    destruct (fold_left (merge_step rec [] p) cho (Ok s1)) as [s2|e q], (fold_left (merge_step rec' [] p') cho (Ok s1)) as [s2'|e' q'];
      cbn in HF; try discriminate; [|inversion HF; subst; reflexivity].
    inversion HF; subst s2'. cbn [bind]. reflexivity.
  Qed.

  Lemma dispatch_indep p p' s o : strip (dispatch rec [] p s o) = strip (dispatch rec' [] p' s o).
  Proof.
    unfold dispatch. destruct s as [|ks fs xs chs]; [reflexivity|].
    destruct (is_funck ks).
    - unfold func_merge. destruct (is_str_leaf o); [destruct (has_priority_over o (Comp ks fs xs chs) true); reflexivity|].
      destruct (match node_x o with Some x => negb (scalar_eqb xs x) | None => false end); [|apply comp_merge_indep].
      destruct (negb (has_priority_over o (Comp ks fs xs chs) true)); [reflexivity|apply comp_merge_indep].
    - destruct (is_listk ks); [|apply comp_merge_indep].
      unfold list_merge. destruct o as [|ko fo xo cho]; [apply comp_merge_indep|].
      destruct (negb (is_listk ko) && negb (delete (Comp ko fo xo cho)) && negb (dict_keys_ok (zlen (children (Comp ks fs xs chs))) cho))%bool;
        [reflexivity|apply comp_merge_indep].
  Qed.
End Indep.

Theorem on_merge_path_irrelevant : forall fuel p p' s o,
  strip (on_merge [] fuel p s o) = strip (on_merge [] fuel p' s o).
Proof.
  induction fuel as [|fu IH]; intros p p' s o; [reflexivity|].
  cbn [on_merge]. apply dispatch_indep. intros q q' c v. apply IH.
Qed.

(* ---------- fuel: once enough, more changes nothing ---------- *)
Definition noFuel {A} (r : res A) : Prop := match r with Err EFuel _ => False | _ => True end.

Section Mono.
  Variables (rec rec' : path -> node -> node -> res (node * who)) (als : list path).
  Hypothesis Hrec : forall q c v, noFuel (rec q c v) -> rec' q c v = rec q c v.

  Lemma merge_step_mono p acc kv : noFuel (merge_step rec als p acc kv) -> merge_step rec' als p acc kv = merge_step rec als p acc kv.
  Proof.
    unfold merge_step. destruct acc as [cur|e q]; cbn [bind]; [|reflexivity]. destruct kv as [k v].
    destruct (get_child cur k) as [c0|]; [|reflexivity].
    set (c := if (if path_in (p ++ [k]) als then same_obj c0 v else false) then v else c0).
    intro H. destruct (rec (p ++ [k]) c v) as [[n w]|e q] eqn:Er.
    - rewrite (Hrec (p ++ [k]) c v) by (rewrite Er; exact I). rewrite Er. reflexivity.
    - cbn [bind] in H. rewrite (Hrec (p ++ [k]) c v) by (rewrite Er; destruct e; try exact I; exact H). rewrite Er. reflexivity.
  Qed.

  Lemma fold_err_any p e q : forall l, fold_left (merge_step rec als p) l (Err e q) = Err e q.
  Proof. induction l; cbn; auto. Qed.

  Lemma fold_step_mono p : forall l acc, noFuel (fold_left (merge_step rec als p) l acc) ->
    fold_left (merge_step rec' als p) l acc = fold_left (merge_step rec als p) l acc.
  Proof.
    induction l as [|kv l IH]; intros acc H; cbn [fold_left] in *; [reflexivity|].
    assert (Hs : noFuel (merge_step rec als p acc kv)).
    { destruct (merge_step rec als p acc kv) as [x|e q] eqn:E; [exact I|]. rewrite fold_err_any in H. exact H. }
    rewrite (merge_step_mono p acc kv Hs). apply IH. exact H.
  Qed.

  Lemma comp_merge_mono p s o : noFuel (comp_merge rec als p s o) -> comp_merge rec' als p s o = comp_merge rec als p s o.
  Proof.
    unfold comp_merge. destruct o as [|ko fo xo cho]; [reflexivity|].
    destruct (prune p s (Comp ko fo xo cho)) as [s1 [r|]]; [reflexivity|].
    intro H.
    assert (Hf : noFuel (fold_left (merge_step rec als p) cho (Ok s1))).
    { destruct (fold_left (merge_step rec als p) cho (Ok s1)) as [x|e q]; [exact I|exact H]. }
    rewrite (fold_step_mono p cho (Ok s1) Hf). reflexivity.
  Qed.

  Lemma dispatch_mono p s o : noFuel (dispatch rec als p s o) -> dispatch rec' als p s o = dispatch rec als p s o.
  Proof.
    unfold dispatch. destruct s as [|ks fs xs chs]; [reflexivity|].
    destruct (is_funck ks).
    - unfold func_merge. destruct (is_str_leaf o); [reflexivity|].
      destruct (match node_x o with Some x => negb (scalar_eqb xs x) | None => false end); [|apply comp_merge_mono].
      destruct (negb (has_priority_over o (Comp ks fs xs chs) true)); [reflexivity|apply comp_merge_mono].
    - destruct (is_listk ks); [|apply comp_merge_mono].
      unfold list_merge. destruct o as [|ko fo xo cho]; [apply comp_merge_mono|].
      destruct (negb (is_listk ko) && negb (delete (Comp ko fo xo cho)) && negb (dict_keys_ok (zlen (children (Comp ks fs xs chs))) cho))%bool;
        [reflexivity|apply comp_merge_mono].
  Qed.
End Mono.

Theorem on_merge_fuel_mono als : forall fuel p s o, noFuel (on_merge als fuel p s o) ->
  on_merge als (S fuel) p s o = on_merge als fuel p s o.
Proof.
  induction fuel as [|fu IH]; intros p s o H; [cbn in H; contradiction|].
  cbn [on_merge] in *. apply dispatch_mono; [|exact H]. intros q c v Hq. apply IH. exact Hq.
Qed.

Theorem on_merge_fuel_irrelevant als fuel p s o : noFuel (on_merge als fuel p s o) ->
  forall n, on_merge als (n + fuel) p s o = on_merge als fuel p s o.
Proof.
  intros H n. induction n as [|n IH]; [reflexivity|].
  cbn [plus]. rewrite on_merge_fuel_mono; [exact IH|]. rewrite IH. exact H.
Qed.

(* ---------- wrapping both documents under the same key ---------- *)
Definition wrapn (f : flags) (k : key) (n : node) : node := Comp CDict f SNone [(k, n)].

Definition plain_wrapper (f : flags) : Prop := f_prio f = None /\ f_del f = None /\ f_idel f = None.

Theorem wrap_local fuel k fa fb a b r w :
  plain_wrapper fa -> plain_wrapper fb ->
  is_comp a = true ->
  on_merge [] fuel [] a b = Ok (r, w) ->
  (negb (truthy r) && negb (has_priority_over r b false) && explicit_delete b)%bool = false ->   (* not the remove-this-key idiom *)
  exists r' w' c, on_merge [] (S fuel) [] (wrapn fa k a) (wrapn fb k b) = Ok (r', w') /\ children r' = [(k, c)] /\ Sim r c.
Proof.
  intros (pa1 & pa2 & pa3) (pb1 & pb2 & pb3) Ha Hm Hidiom.
  unfold wrapn. cbn [on_merge dispatch is_funck is_listk]. unfold comp_merge, prune.
  assert (Hd : delete (Comp CDict fb SNone [(k, b)]) = false).
  { unfold delete. cbn [nflags]. rewrite pb2, pb3. cbn. apply dict_default_delete. }
  rewrite Hd. cbn [fold_left].
  assert (Hr : on_merge [] fuel ([] ++ [k]) a b = Ok (r, w)).
  { pose proof (on_merge_path_irrelevant fuel ([] ++ [k]) [] a b) as E. rewrite Hm in E.
    destruct (on_merge [] fuel ([] ++ [k]) a b); cbn in E; [congruence|discriminate]. }
  unfold merge_step. cbn [bind get_child is_listk aget]. rewrite key_eqb_refl. cbn [path_in existsb]. rewrite Hr. cbn [bind].
  rewrite Ha, Hidiom.
  assert (Hfin : forall c0, Sim r c0 ->
            exists r' w' c, (do s2 <- Ok (Comp CDict fa SNone [(k, c0)]);
                  let '(r0, promoted) := if has_priority_over (Comp CDict fb SNone [(k, b)]) s2 true
                                         then replace_self s2 (Comp CDict fb SNone [(k, b)]) true
                                         else replace_other s2 (Comp CDict fb SNone [(k, b)]) true in
                  Ok (r0, who_of promoted Self Other)) = Ok (r', w') /\ children r' = [(k, c)] /\ Sim r c).
  { intros c0 Hs. cbn [bind].
    assert (Hp : has_priority_over (Comp CDict fb SNone [(k, b)]) (Comp CDict fa SNone [(k, c0)]) true = true).
    { unfold has_priority_over, priority. cbn [nflags]. rewrite pa1, pb1. cbn [onone]. now rewrite Z.eqb_refl. }
    rewrite Hp. unfold replace_self. cbn [with_flags nflags maybe_promote ckind_eqb fst snd who_of].
    unfold propagate. cbn [nflags]. rewrite prop_as_comp.
    destruct (prop_stops (become fa fb)).
    - do 3 eexists. split; [reflexivity|]. split; [reflexivity|exact Hs].
    - do 3 eexists. split; [reflexivity|]. split; [reflexivity|]. cbn [snd].
      eapply Sim_trans; [exact Hs|]. unfold prop_child.
      assert (Hg : same_explicit (nflags c0) (fst (pc_flags (become fa fb) (if Facts.default_delete CDict then Some true else f_idel (become fa fb)) (nflags c0)))).
      { unfold pc_flags. cbv zeta. cbn [fst]. se_solve. }
      destruct (snd (pc_flags _ _ _)); [apply prop_as_sim; exact Hg|apply Sim_with_flags; exact Hg]. }
  destruct w.
  - cbn [put_child is_listk aset]. rewrite key_eqb_refl. apply Hfin. apply Sim_refl.
  - cbn [set_child is_listk aset]. rewrite key_eqb_refl. apply Hfin. apply adopt_sim.
Qed.
