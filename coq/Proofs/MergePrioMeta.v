(* Proofs/MergePrioMeta.v — C03 with user metadata: on the class of Proofs.MergePrio the merge builds exactly Spec.UpdatePM.upd_pm - values,
   priorities AND the metadata mapping of every node ({**loser, **survivor} at every meeting). *)
From AY Require Import Model.Merge Proofs.NodeInd Proofs.FlagsLemmas Proofs.FactsOk Spec.Update Spec.UpdateP Spec.UpdatePM
  Proofs.MergePlain Proofs.NotNew Model.Loader Proofs.EvalPlain Proofs.LoaderLemmas Proofs.Laws Proofs.MergeNotNew Proofs.MergeGen Proofs.MergePrio.

Fixpoint merase (n : node) : mp :=
  match n with
  | Leaf _ f v => MPS (priority f) (f_meta f) (AS v)
  | Comp k f _ ch =>
    if is_listk k
    then MPS (priority f) (f_meta f) (AL ((fix go (l : list (key * node)) := match l with [] => [] | (_, c) :: r => erase c :: go r end) ch))
    else MPD (priority f) (f_meta f) ((fix go (l : list (key * node)) := match l with [] => [] | (kk, c) :: r => (kk, merase c) :: go r end) ch)
  end.

Definition mch (l : list (key * node)) : list (key * mp) := map (fun kc => (fst kc, merase (snd kc))) l.

Lemma merase_comp k f x ch : merase (Comp k f x ch) = if is_listk k then MPS (priority f) (f_meta f) (AL (lch ch)) else MPD (priority f) (f_meta f) (mch ch).
Proof.
  cbn [merase]. destruct (is_listk k).
  - do 2 f_equal. unfold lch. induction ch as [|[kk c] r IH]; cbn; [reflexivity|]. now rewrite IH.
  - f_equal. unfold mch. induction ch as [|[kk c] r IH]; cbn; [reflexivity|]. now rewrite IH.
Qed.

Lemma merase_dict f x ch : merase (Comp CDict f x ch) = MPD (priority f) (f_meta f) (mch ch).
Proof. rewrite merase_comp. reflexivity. Qed.

Lemma merase_list f x ch : merase (Comp CList f x ch) = MPS (priority f) (f_meta f) (AL (lch ch)).
Proof. rewrite merase_comp. reflexivity. Qed.

Lemma forget_MPD p m kv : forget (MPD p m kv) = PPD p (map (fun kc => (fst kc, forget (snd kc))) kv).
Proof. cbn [forget]. f_equal. induction kv as [|[k c] r IH]; cbn; [reflexivity|]. now rewrite IH. Qed.

Lemma forget_merase : forall n, forget (merase n) = perase n.
Proof.
  induction n as [k f v|k f x ch IH] using node_ind'; [reflexivity|].
  rewrite merase_comp, perase_comp. destruct (is_listk k); [reflexivity|]. rewrite forget_MPD. f_equal.
  unfold mch, pch. rewrite map_map. cbn [fst snd]. induction IH as [|kc r Hkc Hr IHr]; cbn [map]; [reflexivity|]. now rewrite Hkc, IHr.
Qed.

Lemma se_meta f f' : same_explicit f f' -> f_meta f = f_meta f'.
Proof. intros (_ & _ & _ & _ & _ & h & _). exact h. Qed.

Lemma Sim_merase : forall a b, Sim a b -> merase a = merase b.
Proof.
  induction a as [k f v|k f x ch IH] using node_ind'; intros b HS.
  - inversion HS as [? ? ? ? Hse|]; subst. cbn. now rewrite (se_priority _ _ Hse), (se_meta _ _ Hse).
  - inversion HS as [|k0 f0 f' x0 ch0 ch' Hse HF2]; subst. rewrite !merase_comp, (se_priority _ _ Hse), (se_meta _ _ Hse).
    assert (E1 : lch ch = lch ch').
    { unfold lch. clear - HF2. induction HF2 as [|a b l l' [_ Hs] _ IHl]; cbn; [reflexivity|]. now rewrite (Sim_erase _ _ Hs), IHl. }
    assert (E2 : mch ch = mch ch').
    { unfold mch. clear HS Hse E1. revert IH. induction HF2 as [|a b l l' [Ek Hs] _ IHl]; intro IH; cbn; [reflexivity|].
      inversion IH as [|? ? Ha Hr]; subst. rewrite Ek, (Ha _ Hs), IHl; auto. }
    now rewrite E1, E2.
Qed.

Lemma adopt_merase kw c : merase (adopt kw c) = merase c.
Proof. symmetry. apply Sim_merase, adopt_sim. Qed.

Lemma propagate_merase n : merase (propagate n) = merase n.
Proof. symmetry. apply Sim_merase, propagate_sim. Qed.

Lemma merase_with_flags n f : priority f = priority (nflags n) -> merase (with_flags n f) = with_meta (merase n) (f_meta f).
Proof. intro E. destruct n as [k f0 v|k f0 x ch]; cbn [with_flags nflags] in *; [cbn; now rewrite E|]. rewrite !merase_comp, E. destruct (is_listk k); reflexivity. Qed.

Lemma mpri_merase n : mpri (merase n) = priority (nflags n).
Proof. destruct n as [k f v|k f x ch]; [reflexivity|]. rewrite merase_comp. destruct (is_listk k); reflexivity. Qed.

Lemma mmeta_merase n : mmeta (merase n) = f_meta (nflags n).
Proof. destruct n as [k f v|k f x ch]; [reflexivity|]. rewrite merase_comp. destruct (is_listk k); reflexivity. Qed.

Lemma meta_absorb a b : f_meta (absorb a b) = mupd (f_meta b) (f_meta a).
Proof. reflexivity. Qed.

Lemma meta_become a b : f_meta (become a b) = mupd (f_meta a) (f_meta b).
Proof. reflexivity. Qed.

Definition RelM (r : mp) (m : res (node * who)) : Prop :=
  exists n w, m = Ok (n, w) /\ OldZ n /\ merase n = r /\ (w = Other -> NewZ n).

Lemma leaf_merge_m s o : OldZ s -> NewZ o ->
  RelM (if mpri (merase s) >? mpri (merase o) then with_meta (merase s) (mupd (mmeta (merase o)) (mmeta (merase s)))
        else with_meta (merase o) (mupd (mmeta (merase s)) (mmeta (merase o)))) (Ok (leaf_merge s o)).
Proof.
  intros Hs Ho. unfold leaf_merge, has_priority_over. rewrite !mpri_merase, !mmeta_merase.
  assert (Hq : NewZ (with_flags o (absorb (nflags o) (nflags s)))) by (apply NewZ_with_flags; [exact Ho|apply NZ_absorb, NewZ_NZ; exact Ho|reflexivity|reflexivity]).
  destruct (priority (nflags s) =? priority (nflags o)) eqn:Eq.
  - assert (G : priority (nflags s) >? priority (nflags o) = false) by lia. rewrite G.
    cbn [replace_other fst]. exists (with_flags o (absorb (nflags o) (nflags s))), Other. split; [reflexivity|].
    split; [apply NewZ_oldz; exact Hq|]. split; [rewrite merase_with_flags by reflexivity; now rewrite meta_absorb|auto].
  - destruct (priority (nflags s) >? priority (nflags o)) eqn:Eg.
    + cbn [replace_other fst]. exists (with_flags s (absorb (nflags s) (nflags o))), Self. split; [reflexivity|].
      split; [apply OldZ_with_flags; [exact Hs|apply OZ_absorb, OldZ_OZ; exact Hs|reflexivity]|].
      split; [rewrite merase_with_flags by reflexivity; now rewrite meta_absorb|intro Hx; discriminate].
    + cbn [replace_other fst]. exists (with_flags o (absorb (nflags o) (nflags s))), Other. split; [reflexivity|].
      split; [apply NewZ_oldz; exact Hq|]. split; [rewrite merase_with_flags by reflexivity; now rewrite meta_absorb|auto].
Qed.

Fixpoint updpm_go (kv : list (key * mp)) (acc : list (key * mp)) : list (key * mp) :=
  match kv with
  | [] => acc
  | (k, v) :: rest =>
    match aget k acc with
    | Some ov => updpm_go rest (aset k (upd_pm ov v) acc)
    | None => updpm_go rest (aset k v acc)
    end
  end.

Lemma upd_pm_DD po mo okv pn mn kv :
  upd_pm (MPD po mo okv) (MPD pn mn kv) = MPD (if po >? pn then po else pn) (if po >? pn then mupd mn mo else mupd mo mn) (updpm_go kv okv).
Proof.
  cbn [upd_pm]. apply f_equal. revert okv. induction kv as [|[k v] rest IH]; intro okv; cbn [updpm_go]; [reflexivity|].
  destruct (aget k okv); apply IH.
Qed.

Lemma upd_pm_other old new : (match new with MPD _ _ _ => False | _ => True end) \/ (match old with MPS _ _ _ => True | _ => False end) ->
  upd_pm old new = if mpri old >? mpri new then with_meta old (mupd (mmeta new) (mmeta old)) else with_meta new (mupd (mmeta old) (mmeta new)).
Proof. destruct new, old; cbn; intros [H|H]; try contradiction; reflexivity. Qed.

Lemma mch_aset k n l : mch (aset k n l) = aset k (merase n) (mch l).
Proof. unfold mch. apply (aset_map (fun c => merase c)). Qed.

Lemma mch_aget k l : aget k (mch l) = option_map merase (aget k l).
Proof. unfold mch. apply (aget_map (fun c => merase c)). Qed.

Lemma loop_dict_m rec p f x : forall cho chs,
  (forall k v c, In (k, v) cho -> OldZ c -> lcompat (perase c) (perase v) -> RelM (upd_pm (merase c) (merase v)) (rec (p ++ [k]) c v)) ->
  (forall k v c, In (k, v) cho -> aget k chs = Some c -> lcompat (perase c) (perase v)) ->
  Forall (fun kc => NewZ (snd kc)) cho -> NoDup (map fst cho) ->
  OldZ (Comp CDict f x chs) ->
  exists chs', fold_left (merge_step rec [] p) cho (Ok (Comp CDict f x chs)) = Ok (Comp CDict f x chs')
               /\ OldZ (Comp CDict f x chs') /\ mch chs' = updpm_go (mch cho) (mch chs).
Proof.
  induction cho as [|[k v] rest IH]; intros chs Hrec Hcomp HP Hndo Hold.
  - cbn. exists chs. auto.
  - cbn [mch map fst snd]. fold (mch rest). cbn [updpm_go fold_left].
    inversion HP as [|? ? Hv HPr]; subst. cbn [snd] in Hv.
    cbn [map fst] in Hndo. inversion Hndo as [|? ? Hnik Hndr]; subst.
    assert (HF : Forall (fun kc => OldZ (snd kc)) chs) by (apply OldZ_children in Hold; exact Hold).
    assert (Hnd : NoDup (map fst chs)) by (inversion Hold; assumption).
    assert (Hf : OZ f) by (apply OldZ_OZ in Hold; exact Hold).
    assert (Hstep : forall n', OldZ n' -> NoDup (map fst (aset k n' chs)) ->
               merge_step rec [] p (Ok (Comp CDict f x chs)) (k, v) = Ok (Comp CDict f x (aset k n' chs)) ->
               exists chs', fold_left (merge_step rec [] p) rest (merge_step rec [] p (Ok (Comp CDict f x chs)) (k, v)) = Ok (Comp CDict f x chs')
                            /\ OldZ (Comp CDict f x chs') /\ mch chs' = updpm_go (mch rest) (aset k (merase n') (mch chs))).
    { intros n' Hn' Hnd' Heq. rewrite Heq.
      specialize (IH (aset k n' chs)). rewrite mch_aset in IH. apply IH; [| |exact HPr|exact Hndr|].
      - intros k0 v0 c0 Hin. apply Hrec. right. exact Hin.
      - intros k0 v0 c0 Hin Ha. apply (Hcomp k0 v0 c0); [right; exact Hin|].
        assert (Ek : key_eqb k0 k = false).
        { apply key_eqb_neq. intro E. subst k0. apply Hnik. apply in_map_iff. exists (k, v0). auto. }
        now rewrite (aget_aset_neq k0 k n' chs Ek) in Ha.
      - constructor; auto. apply aset_Forall; auto. }
    rewrite mch_aget.
    destruct (aget k chs) as [c|] eqn:Eg; cbn [option_map].
    + assert (Hc : OldZ c) by (eapply aget_Forall; eauto).
      assert (Hnd' : forall n', NoDup (map fst (aset k n' chs))) by (intro n'; now rewrite (aset_fst k n' c chs Eg)).
      specialize (Hrec k v c (or_introl eq_refl) Hc (Hcomp k v c (or_introl eq_refl) Eg)).
      destruct Hrec as (n & w & Er & Hn & En & Hw). rewrite <- En.
      assert (Hexp : explicit_delete v = false) by (apply OldZ_explicit_delete, NewZ_oldz; exact Hv).
      assert (Hexpn : explicit_delete n = false) by (apply OldZ_explicit_delete; exact Hn).
      destruct w, (is_comp c) eqn:Eic.
      * apply (Hstep n Hn (Hnd' n)).
        unfold merge_step. cbn [bind get_child is_listk]. rewrite Eg. cbn [path_in existsb]. rewrite Er. cbn [bind].
        rewrite Eic, Hexp, !andb_false_r. reflexivity.
      * apply (Hstep n Hn (Hnd' n)).
        unfold merge_step. cbn [bind get_child is_listk]. rewrite Eg. cbn [path_in existsb]. rewrite Er. cbn [bind].
        rewrite Eic. reflexivity.
      * rewrite <- (adopt_merase (child_kwargs (Comp CDict f x chs)) n).
        apply (Hstep (adopt (child_kwargs (Comp CDict f x chs)) n)); [apply adopt_oldz; auto|apply Hnd'|].
        unfold merge_step. cbn [bind get_child is_listk]. rewrite Eg. cbn [path_in existsb]. rewrite Er. cbn [bind].
        rewrite Eic, Hexp, !andb_false_r. reflexivity.
      * rewrite <- (adopt_merase (child_kwargs (Comp CDict f x chs)) n).
        apply (Hstep (adopt (child_kwargs (Comp CDict f x chs)) n)); [apply adopt_oldz; auto|apply Hnd'|].
        unfold merge_step. cbn [bind get_child is_listk]. rewrite Eg. cbn [path_in existsb]. rewrite Er. cbn [bind].
        rewrite Eic, (require_all_new_newz n _ _ _ (Hw eq_refl)), Hexpn, !andb_false_r. reflexivity.
    + rewrite <- (adopt_merase (child_kwargs (Comp CDict f x chs)) v).
      apply (Hstep (adopt (child_kwargs (Comp CDict f x chs)) v)).
      * apply adopt_oldz, NewZ_oldz; exact Hv.
      * rewrite (aset_new_fst k _ chs Eg). apply NoDup_app_snoc; [exact Hnd|].
        intro Hin. apply in_map_iff in Hin. destruct Hin as ([k' c'] & Ek & Hin). cbn in Ek. subst k'.
        rewrite (In_aget k c' chs Hnd Hin) in Eg. discriminate.
      * unfold merge_step. cbn [bind get_child is_listk]. rewrite Eg.
        rewrite require_all_new_newz by exact Hv. reflexivity.
Qed.

Lemma list_list_m rec p fs xs chs fo xo cho :
  OldZ (Comp CList fs xs chs) -> NewZ (Comp CList fo xo cho) ->
  RelM (if priority fs >? priority fo then with_meta (merase (Comp CList fs xs chs)) (mupd (f_meta fo) (f_meta fs))
        else with_meta (merase (Comp CList fo xo cho)) (mupd (f_meta fs) (f_meta fo)))
       (list_merge rec [] p (Comp CList fs xs chs) (Comp CList fo xo cho)).
Proof.
  intros Hs Ho. rewrite (list_list_eq rec p fs xs chs fo xo cho Hs Ho).
  destruct (priority fs >? priority fo).
  - exists (Comp CList (absorb fs fo) xs chs), Self. split; [reflexivity|].
    split; [apply (OldZ_with_flags (Comp CList fs xs chs) (absorb fs fo) Hs); [apply OZ_absorb, (OldZ_OZ _ Hs)|reflexivity]|].
    split; [|intro Hx; discriminate]. rewrite !merase_list. cbn [with_meta]. now rewrite meta_absorb.
  - assert (Hq : NewZ (with_flags (Comp CList fo xo cho) (absorb fo fs))) by (apply NewZ_with_flags; [exact Ho|apply NZ_absorb, (NewZ_NZ _ Ho)|reflexivity|reflexivity]).
    exists (Comp CList (absorb fo fs) xo cho), Other. split; [reflexivity|]. split; [apply NewZ_oldz; exact Hq|].
    split; [|intros _; exact Hq]. rewrite !merase_list. cbn [with_meta]. now rewrite meta_absorb.
Qed.

Lemma merge_m : forall fuel p s o, OldZ s -> NewZ o -> lcompat (perase s) (perase o) -> (nsize o < fuel)%nat ->
  RelM (upd_pm (merase s) (merase o)) (on_merge [] fuel p s o).
Proof.
  induction fuel as [|fu IH]; intros p s o Hs Hp Hc Hlt; [lia|].
  cbn [on_merge].
  destruct s as [lk lf lv | ck cf cx chs].
  - cbn [dispatch]. rewrite upd_pm_other by (right; cbn; exact I). apply leaf_merge_m; auto.
  - inversion Hp as [fo v HN|fo xo cho HN Hi HF Hnd|fo xo cho HN Hi HF HK]; subst.
    + rewrite upd_pm_other by (left; exact I).
      assert (E : dispatch (on_merge [] fu) [] p (Comp ck cf cx chs) (Leaf LScalar fo v) = Ok (leaf_merge (Comp ck cf cx chs) (Leaf LScalar fo v))).
      { inversion Hs; subst; reflexivity. }
      rewrite E. apply leaf_merge_m; auto.
    + rewrite nsize_comp in Hlt.
      set (o := Comp CDict fo xo cho) in *.
      assert (Ho : OldZ o) by (apply NewZ_oldz; exact Hp).
      assert (Eo : perase o = PPD (priority fo) (pch cho)) by (unfold o; apply perase_dict).
      assert (Em : merase o = MPD (priority fo) (f_meta fo) (mch cho)) by (unfold o; apply merase_dict).
      inversion Hs as [|f0 x0 ch0 HOX HFch Hnd0|f0 x0 ch0 HOX HFch HK0]; subst.
      2:{ rewrite perase_list, Eo in Hc. cbn in Hc. contradiction. }
      rewrite perase_dict, Eo in Hc. rewrite lcompat_DD in Hc.
      assert (Hrec : forall k v c, In (k, v) cho -> OldZ c -> lcompat (perase c) (perase v) -> RelM (upd_pm (merase c) (merase v)) (on_merge [] fu (p ++ [k]) c v)).
      { intros k v c Hin Hc0 Hl. rewrite Forall_forall in HF. apply IH; [exact Hc0|apply (HF (k, v) Hin)|exact Hl|].
        assert (nsize v <= list_sum (map (fun kc => nsize (snd kc)) cho))%nat; [|lia].
        clear - Hin. unfold list_sum. induction cho as [|[k' v'] r IHr]; [contradiction|]. cbn [map fold_right snd fst]. destruct Hin as [E|Hin]; [inversion E; subst; lia|].
        specialize (IHr Hin). lia. }
      assert (Hcomp : forall k v c, In (k, v) cho -> aget k chs = Some c -> lcompat (perase c) (perase v)).
      { intros k v c Hin Ea. rewrite Forall_forall in Hc. specialize (Hc (k, perase v)). cbn [fst snd] in Hc.
        rewrite pch_aget, Ea in Hc. cbn [option_map] in Hc. apply Hc. unfold pch. apply in_map_iff. exists (k, v). auto. }
      assert (Edo : delete o = false).
      { destruct HN as [Hd _]. unfold OZ in Hd. unfold o, delete. cbn [nflags]. rewrite Hd, Hi. cbn. apply dict_default_delete. }
      rewrite merase_dict, Em, upd_pm_DD.
      cbn [dispatch is_funck is_listk]. unfold comp_merge. unfold o at 1.
      unfold prune. fold o. rewrite Edo.
      destruct (loop_dict_m (on_merge [] fu) p cf cx cho chs Hrec Hcomp HF Hnd Hs) as (chs' & EL & Hold' & Er).
      rewrite EL. cbn [bind].
      unfold has_priority_over. cbn [nflags]. unfold o at 1 2. cbn [nflags].
      assert (Hpm : forall f2, maybe_promote (Comp CDict f2 cx chs') o = (Comp CDict f2 cx chs', false)) by reflexivity.
      assert (HO2 : forall f2, OZ f2 -> OldZ (Comp CDict f2 cx chs')) by (intros f2 H2; inversion Hold'; subst; constructor; auto).
      destruct (priority fo =? priority cf) eqn:Eq.
      * unfold replace_self. cbn [with_flags nflags]. rewrite Hpm. cbn [fst snd who_of].
        exists (propagate (Comp CDict (become cf (nflags o)) cx chs')), Self. split; [reflexivity|].
        split; [apply propagate_oldz, HO2, OZ_become; [exact HOX|apply (OldZ_OZ _ Ho)]|]. split; [|intro Hx; discriminate].
        rewrite propagate_merase, merase_dict, priority_become, meta_become, Er. unfold o. cbn [nflags].
        assert (G : priority cf >? priority fo = false) by lia. now rewrite G.
      * destruct (priority fo >? priority cf) eqn:Eg.
        -- unfold replace_self. cbn [with_flags nflags]. rewrite Hpm. cbn [fst snd who_of].
           exists (propagate (Comp CDict (become cf (nflags o)) cx chs')), Self. split; [reflexivity|].
           split; [apply propagate_oldz, HO2, OZ_become; [exact HOX|apply (OldZ_OZ _ Ho)]|]. split; [|intro Hx; discriminate].
           rewrite propagate_merase, merase_dict, priority_become, meta_become, Er. unfold o. cbn [nflags].
           assert (G : priority cf >? priority fo = false) by lia. now rewrite G.
        -- unfold replace_other. cbn [with_flags nflags]. rewrite Hpm. cbn [fst snd who_of].
           exists (Comp CDict (absorb cf (nflags o)) cx chs'), Self. split; [reflexivity|].
           split; [apply HO2, OZ_absorb; exact HOX|]. split; [|intro Hx; discriminate].
           rewrite merase_dict, priority_absorb, meta_absorb, Er. unfold o. cbn [nflags].
           assert (G : priority cf >? priority fo = true) by lia. now rewrite G.
    + inversion Hs as [|f0 x0 ch0 HOX HFch Hnd0|f0 x0 ch0 HOX HFch HK0]; subst.
      * rewrite perase_dict, perase_list in Hc. cbn in Hc. contradiction.
      * rewrite upd_pm_other by (left; rewrite merase_list; exact I). rewrite !mpri_merase, !mmeta_merase. cbn [nflags].
        cbn [dispatch is_funck is_listk]. apply list_list_m; assumption.
Qed.

Lemma merge2_m e root o : OldZ root -> NewZ o -> lcompat (perase root) (perase o) ->
  exists n, merge2 e root o = Ok n /\ OldZ n /\ merase n = upd_pm (merase root) (merase o).
Proof.
  intros Hr Hp Hc. unfold merge2.
  rewrite (premerge_plainT e o [] (Some root) (OldZ_PlainT _ (NewZ_oldz _ Hp))). cbn [bind].
  destruct (merge_m (nsize root + nsize o + 1) [] root o Hr Hp Hc ltac:(lia)) as (n & w & E & Hn & En & _).
  rewrite E. cbn [bind fst]. eauto.
Qed.

(* forgetting the metadata commutes with the update *)
Lemma forget_with_meta d m : forget (with_meta d m) = forget d.
Proof. destruct d; reflexivity. Qed.

Lemma forget_upd_pm : forall b a, forget (upd_pm a b) = upd_p (forget a) (forget b).
Proof.
  fix IH 1. intros b a. destruct b as [pn mn vn|pn mn kv].
  - cbn [upd_pm forget upd_p]. assert (E : mpri a = ppri (forget a)) by (destruct a; reflexivity). rewrite E.
    destruct (ppri (forget a) >? pn); rewrite forget_with_meta; reflexivity.
  - destruct a as [po mo vo|po mo okv].
    + cbn [upd_pm]. destruct (po >? pn) eqn:E; rewrite forget_with_meta; cbn [forget upd_p]; rewrite E; reflexivity.
    + rewrite upd_pm_DD, !forget_MPD, upd_p_DD. f_equal.
      revert okv. induction kv as [|[k v] r IHr]; intro okv; cbn [updpm_go map updp_go fst snd]; [reflexivity|].
      rewrite (aget_map forget k okv). destruct (aget k okv) as [ov|]; cbn [option_map].
      * rewrite IHr. f_equal. rewrite (aset_map forget). now rewrite IH.
      * rewrite IHr. f_equal. now rewrite (aset_map forget).
Qed.

Lemma fold_merge2_m e : forall sts root, OldZ root -> Forall NewZ sts -> hcompat (perase root) (map perase sts) ->
  exists n, fold_left (fun acc st => do root <- acc; merge2 e root st) sts (Ok root) = Ok n /\ OldZ n
            /\ merase n = fold_left upd_pm (map merase sts) (merase root).
Proof.
  induction sts as [|st sts IH]; intros root Hr HF Hh; cbn [map fold_left bind].
  - eauto.
  - inversion HF as [|? ? Hst HF']; subst. cbn [map hcompat] in Hh. destruct Hh as [Hc Hh].
    destruct (merge2_m e root st Hr Hst Hc) as (n & E & Hn & En). rewrite E, <- En. apply IH; auto.
    rewrite <- forget_merase, En, forget_upd_pm, !forget_merase. exact Hh.
Qed.

(* Builder.flatten of documents of the class: values, priorities and the metadata of every node *)
Theorem flatten_prio_meta e s0 sts : Forall NewZ (s0 :: sts) -> forallb is_dictk (s0 :: sts) = true -> hcompat (perase s0) (map perase sts) ->
  exists n, flatten e (s0 :: sts) = Ok n /\ merase n = fold_left upd_pm (map merase sts) (merase s0).
Proof.
  intros HF Hd Hh. inversion HF as [|? ? Hp HF']; subst.
  unfold flatten. rewrite Hd.
  rewrite (premerge_plainT e s0 [] None (OldZ_PlainT _ (NewZ_oldz _ Hp))). cbn [bind].
  rewrite require_all_new_newz by exact Hp.
  destruct (fold_merge2_m e sts s0 (NewZ_oldz _ Hp) HF' Hh) as (n & E & _ & En). eauto.
Qed.
