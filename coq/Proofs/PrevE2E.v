(* Proofs/PrevE2E.v — C16 end to end for `q: !prev p`: a document {q: !prev p} merged into a tag-free config that has something at p
   (reached through mappings) and no key q yields the config without p and with the ENTIRE previous subtree of p under the new
   key q - as a theorem about the whole of root.merge(doc). *)
From AY Require Import Model.Merge Proofs.NodeInd Proofs.FlagsLemmas Proofs.FactsOk Spec.Update Proofs.MergePlain Proofs.Ops
  Proofs.EvalPlain Proofs.LoaderLemmas Proofs.Laws Proofs.MergeNotNew Proofs.MergeGen Proofs.AppendE2E.

(* the config without the entry at q *)
Fixpoint prem (d : plain) (q : path) : plain :=
  match q with
  | [] => d
  | k :: r =>
    match d with
    | PD kv => match r with
               | [] => PD (adel k kv)
               | _ => match aget k kv with Some c => PD (aset k (prem c r) kv) | None => d end
               end
    | _ => d
    end
  end.

Lemma prem_one kv k : prem (PD kv) [k] = PD (adel k kv).
Proof. reflexivity. Qed.

Lemma prem_cons2 kv k k2 r2 : prem (PD kv) (k :: k2 :: r2) = match aget k kv with Some c => PD (aset k (prem c (k2 :: r2)) kv) | None => PD kv end.
Proof. reflexivity. Qed.

(* detaching ANY node reached through mappings *)
Lemma detach_any : forall q root root' t,
  Old root -> puk (erase root) -> dpath root q ->
  remove_node root q = Some (Some (root', t)) ->
  Old root' /\ puk (erase root') /\ is_dictk root' = true /\ Old t /\ puk (erase t) /\
  erase root' = prem (erase root) q /\ pat (erase root) q = Some (erase t).
Proof.
  induction q as [|k r IH]; intros root root' t Ho Hp Hd Hr; [discriminate|].
  destruct root as [lk lf lv|ck f x ch]; [contradiction|]. destruct ck; try contradiction.
  inversion Ho as [|f0 x0 ch0 HOF HF|]; subst.
  rewrite erase_dict in Hp. destruct (puk_PD_inv _ Hp) as [Hnd HFp].
  destruct r as [|k2 r2].
  - cbn [remove_node has_child get_child is_listk remove_child] in Hr.
    destruct (ahas k ch) eqn:Eh; [|discriminate]. destruct (aget k ch) as [c|] eqn:Eg; [|discriminate]. inversion Hr; subst.
    assert (Hc : Old t) by (eapply aget_Forall; eauto).
    assert (Hpc : puk (erase t)) by (eapply (puk_aget k (ech ch)); [exact Hp|rewrite ech_aget, Eg; reflexivity]).
    split; [apply OldDict; [exact HOF|apply adel_Forall; exact HF]|].
    split; [rewrite erase_dict, ech_adel; constructor; [apply adel_nodup; exact Hnd|apply adel_Forall; exact HFp]|].
    split; [reflexivity|]. split; [exact Hc|]. split; [exact Hpc|].
    rewrite !erase_dict, prem_one, ech_adel. split; [reflexivity|]. cbn [pat]. rewrite ech_aget, Eg. reflexivity.
  - change (remove_node (Comp CDict f x ch) (k :: k2 :: r2)) with
      (if has_child (Comp CDict f x ch) k then
         match get_child (Comp CDict f x ch) k with
         | Some c => match remove_node c (k2 :: r2) with
                     | Some (Some (c', removed)) => Some (Some (put_child (Comp CDict f x ch) k c', removed))
                     | Some None => Some None
                     | None => None
                     end
         | None => None
         end
       else Some None) in Hr.
    cbn [has_child get_child is_listk] in Hr. cbn [dpath] in Hd.
    destruct (aget k ch) as [c|] eqn:Eg; [|contradiction]. rewrite (ahas_aget k ch c Eg) in Hr.
    destruct (remove_node c (k2 :: r2)) as [[[c' rm]|]|] eqn:Er; try discriminate. inversion Hr; subst. clear Hr.
    assert (Hc : Old c) by (eapply aget_Forall; eauto).
    assert (Hpc : puk (erase c)) by (eapply (puk_aget k (ech ch)); [exact Hp|rewrite ech_aget, Eg; reflexivity]).
    destruct (IH c c' t Hc Hpc Hd Er) as (Ho' & Hp' & Hdk & HoT & HpT & EE & EP).
    cbn [put_child is_listk].
    split; [apply OldDict; [exact HOF|apply aset_Forall; [exact Ho'|exact HF]]|].
    split.
    { rewrite erase_dict, ech_aset. constructor.
      - rewrite (aset_fst k (erase c') (erase c) (ech ch)); [exact Hnd|rewrite ech_aget, Eg; reflexivity].
      - apply aset_Forall; [exact Hp'|exact HFp]. }
    split; [reflexivity|]. split; [exact HoT|]. split; [exact HpT|].
    rewrite !erase_dict, prem_cons2, ech_aget, Eg. cbn [option_map]. rewrite ech_aset, EE. split; [reflexivity|].
    cbn [pat]. rewrite ech_aget, Eg. cbn [option_map]. exact EP.
Qed.

(* a one-entry mapping whose key is new to the older mapping: the entry is appended *)
Lemma merge_new_key fuel p f x ch fd xd qq v :
  OldX (Comp CDict f x ch) -> aget qq ch = None -> NX fd -> f_idel fd = None -> Old v ->
  exists n, on_merge [] (S fuel) p (Comp CDict f x ch) (Comp CDict fd xd [(qq, v)]) = Ok (n, Self) /\ erase n = PD (ech ch ++ [(qq, erase v)]).
Proof.
  intros Hx Eg HN Hi Hv. cbn [on_merge dispatch is_funck is_listk]. unfold comp_merge, prune.
  assert (Ed : delete (Comp CDict fd xd [(qq, v)]) = false).
  { destruct HN as [(_ & Hd & _) _]. unfold delete. cbn [nflags]. rewrite Hd, Hi. cbn. apply dict_default_delete. }
  rewrite Ed. cbn [fold_left]. unfold merge_step. cbn [bind get_child is_listk]. rewrite Eg.
  rewrite (require_all_new_old v _ _ _ Hv). cbn [set_child is_listk bind].
  set (v' := adopt (child_kwargs (Comp CDict f x ch)) v).
  assert (HOX : OX f) by (apply (OldX_OX _ Hx)).
  rewrite hpo_OX; [|exact (proj1 HN)|exact HOX].
  unfold replace_self. cbn [with_flags nflags maybe_promote ckind_eqb fst snd who_of].
  eexists. split; [reflexivity|].
  rewrite propagate_erase, erase_dict, (aset_absent qq v' ch Eg). unfold ech. rewrite map_app. cbn [map fst snd].
  unfold v'. now rewrite adopt_erase.
Qed.

(* C16, end to end, for !prev *)
Theorem prev_end_to_end e fd xd fl qq z tp root root' t kv' :
  NX fd -> f_idel fd = None ->
  plookup e z = Some tp -> Old root -> puk (erase root) -> dpath root tp ->
  remove_node root tp = Some (Some (root', t)) ->
  prem (erase root) tp = PD kv' -> aget qq kv' = None ->
  exists n, merge2 e root (Comp CDict fd xd [(qq, Leaf LPrev fl (SStr z))]) = Ok n /\
            erase n = PD (kv' ++ [(qq, erase t)]) /\ pat (erase root) tp = Some (erase t).
Proof.
  intros HN Hi He Ho Hp Hd Hr EK Eq.
  destruct (detach_any tp root root' t Ho Hp Hd Hr) as (Ho' & Hp' & Hdk & HoT & HpT & EE & EP).
  unfold merge2. cbn [on_premerge]. rewrite He, Hr. cbn [bind map fst snd fold_left set_child is_listk aset]. rewrite key_eqb_refl.
  set (t' := adopt (child_kwargs (Comp CDict fd xd [(qq, t)])) t).
  inversion Ho' as [lf lv HOFl|f x ch HOF' HF'|f x ch HOF' HF' HK']; subst; try discriminate.
  cbn [app]. rewrite erase_dict in EE. rewrite EK in EE. inversion EE as [E1].
  assert (Eg : aget qq ch = None).
  { rewrite <- E1 in Eq. rewrite ech_aget in Eq. destruct (aget qq ch); [discriminate|reflexivity]. }
  assert (Ht' : Old t').
  { unfold t'. apply adopt_old; [|exact HoT]. destruct HN as [(_ & _ & h3) h4]. cbn. now rewrite h3. }
  set (fuel := (nsize (Comp CDict f x ch) + nsize (Comp CDict fd xd [(qq, t')]))%nat).
  replace (fuel + 1)%nat with (S fuel) by lia.
  destruct (merge_new_key fuel [] f x ch fd xd qq t' (Old_OldX _ Ho' Hp') Eg HN Hi Ht') as (n & E & En).
  rewrite E. cbn [bind fst]. exists n. split; [reflexivity|]. split; [|exact EP].
  rewrite En, E1. unfold t'. now rewrite adopt_erase.
Qed.

(* every path that leaves the spine of the removed path keeps its value in [prem] *)
Lemma prem_frame : forall q d q', puk d -> diverge q q' -> pat (prem d q) q' = pat d q'.
Proof.
  induction q as [|k r IH]; intros d q' Hp Hd; [destruct q'; contradiction|].
  destruct q' as [|k' r']; [contradiction|]. cbn [diverge] in Hd.
  destruct d as [v|kv|ll]; try reflexivity. destruct (puk_PD_inv _ Hp) as [Hnd HF].
  destruct r as [|k2 r2].
  - rewrite prem_one. destruct (key_eqb k k') eqn:Ek; [destruct r'; contradiction|].
    assert (Ek' : key_eqb k' k = false).
    { apply key_eqb_neq. intro E. subst. rewrite key_eqb_refl in Ek. discriminate. }
    cbn [pat]. now rewrite (aget_adel_neq k k' kv Ek').
  - rewrite prem_cons2. destruct (aget k kv) as [c|] eqn:Eg; [|reflexivity]. cbn [pat].
    destruct (key_eqb k k') eqn:Ek.
    + apply key_eqb_eq in Ek. subst k'. rewrite aget_aset_eq, Eg. apply IH; [exact (aget_Forall puk k kv c HF Eg)|exact Hd].
    + assert (Ek' : key_eqb k' k = false).
      { apply key_eqb_neq. intro E. subst. rewrite key_eqb_refl in Ek. discriminate. }
      now rewrite (aget_aset_neq k' k _ kv Ek').
Qed.
