(* Proofs/Prio.v — the priority rule for competing leaf writers (C03). *)
From AY Require Import Model.Merge Proofs.NodeInd Proofs.FlagsLemmas Proofs.FactsOk.

Definition nprio (n : node) : Z := priority (nflags n).
Definition nvalue (n : node) : option scalar := match n with Leaf _ _ v => Some v | _ => None end.

(* binary rule: the newer writer wins unless the older one has strictly higher priority *)
Lemma leaf_merge_winner s o :
  fst (leaf_merge s o) = (if nprio s >? nprio o
                          then with_flags s (absorb (nflags s) (nflags o))
                          else with_flags o (absorb (nflags o) (nflags s))).
Proof.
  unfold leaf_merge, has_priority_over, nprio.
  destruct (Z.eqb_spec (priority (nflags s)) (priority (nflags o))) as [E|E].
  - rewrite E. assert (priority (nflags o) >? priority (nflags o) = false) as -> by (destruct (Z.gtb_spec (priority (nflags o)) (priority (nflags o))); [lia|reflexivity]).
    reflexivity.
  - destruct (priority (nflags s) >? priority (nflags o)); reflexivity.
Qed.

Lemma priority_absorb a b : priority (absorb a b) = priority a.
Proof. reflexivity. Qed.

Lemma nprio_with_absorb n b : nprio (with_flags n (absorb (nflags n) b)) = nprio n.
Proof. destruct n; reflexivity. Qed.

Lemma nvalue_with_flags n f : nvalue (with_flags n f) = nvalue n.
Proof. destruct n; reflexivity. Qed.

(* the n-ary reading: fold the binary rule over the later writers *)
Definition lfold (w0 : node) (ws : list node) : node := fold_left (fun a b => fst (leaf_merge a b)) ws w0.

(* the latest writer among those of maximal priority *)
Fixpoint winner (cur : node) (ws : list node) : node :=
  match ws with
  | [] => cur
  | w :: r => winner (if nprio cur >? nprio w then cur else w) r
  end.

Lemma lfold_winner : forall ws w0, nvalue (lfold w0 ws) = nvalue (winner w0 ws) /\ nprio (lfold w0 ws) = nprio (winner w0 ws).
Proof.
  induction ws as [|w r IH]; intros w0; cbn [lfold fold_left winner]; [auto|].
  fold (lfold (fst (leaf_merge w0 w)) r). rewrite leaf_merge_winner.
  destruct (nprio w0 >? nprio w) eqn:E.
  - assert (G : forall r x y, nvalue x = nvalue y -> nprio x = nprio y ->
                 nvalue (winner x r) = nvalue (winner y r) /\ nprio (winner x r) = nprio (winner y r)).
    { clear. induction r as [|w r IH]; intros x y Hv Hp; cbn; [auto|]. rewrite Hp.
      destruct (nprio y >? nprio w); auto. }
    destruct (IH (with_flags w0 (absorb (nflags w0) (nflags w)))) as [I1 I2].
    destruct (G r (with_flags w0 (absorb (nflags w0) (nflags w))) w0 (nvalue_with_flags _ _) (nprio_with_absorb _ _)) as [G1 G2].
    split; congruence.
  - assert (G : forall r x y, nvalue x = nvalue y -> nprio x = nprio y ->
                 nvalue (winner x r) = nvalue (winner y r) /\ nprio (winner x r) = nprio (winner y r)).
    { clear. induction r as [|w r IH]; intros x y Hv Hp; cbn; [auto|]. rewrite Hp.
      destruct (nprio y >? nprio w); auto. }
    destruct (IH (with_flags w (absorb (nflags w) (nflags w0)))) as [I1 I2].
    destruct (G r (with_flags w (absorb (nflags w) (nflags w0))) w (nvalue_with_flags _ _) (nprio_with_absorb _ _)) as [G1 G2].
    split; congruence.
Qed.

(* characterisation of the winner: maximal priority, and the latest such *)
Lemma winner_in : forall ws cur, winner cur ws = cur \/ In (winner cur ws) ws.
Proof.
  induction ws as [|w r IH]; intro cur; cbn; [auto|].
  destruct (IH (if nprio cur >? nprio w then cur else w)) as [E|H]; [|auto].
  rewrite E. destruct (nprio cur >? nprio w); auto.
Qed.

Lemma winner_max : forall ws cur, nprio cur <= nprio (winner cur ws) /\ Forall (fun w => nprio w <= nprio (winner cur ws)) ws.
Proof.
  induction ws as [|w r IH]; intro cur; cbn; [split; [lia|constructor]|].
  destruct (IH (if nprio cur >? nprio w then cur else w)) as [I1 I2].
  destruct (Z.gtb_spec (nprio cur) (nprio w)); split; try lia; constructor; auto; lia.
Qed.

(* the winner is the LATEST writer of maximal priority: everything before it is lower or equal, everything after strictly lower *)
Lemma winner_split : forall ws cur, exists pre post,
  cur :: ws = pre ++ winner cur ws :: post /\
  Forall (fun x => nprio x <= nprio (winner cur ws)) pre /\
  Forall (fun x => nprio x < nprio (winner cur ws)) post.
Proof.
  induction ws as [|w r IH]; intro cur.
  - exists [], []. cbn. repeat split; constructor.
  - cbn [winner]. destruct (Z.gtb_spec (nprio cur) (nprio w)) as [Hgt|Hle].
    + destruct (IH cur) as (pre & post & E & Hpre & Hpost).
      remember (winner cur r) as W eqn:HW. clear HW.
      destruct pre as [|c pre']; cbn in E; inversion E; subst.
      * exists [], (w :: post). cbn. split; [reflexivity|]. split; [constructor|]. constructor; [lia|exact Hpost].
      * exists (c :: w :: pre'), post. cbn. split; [reflexivity|].
        inversion Hpre as [|? ? Hc Hp']; subst. split; [|exact Hpost]. constructor; [exact Hc|]. constructor; [lia|exact Hp'].
    + destruct (IH w) as (pre & post & E & Hpre & Hpost).
      remember (winner w r) as W eqn:HW. clear HW.
      exists (cur :: pre), post. cbn. split; [now rewrite E|]. split; [|exact Hpost].
      constructor; [|exact Hpre].
      destruct pre as [|c pre']; cbn in E; inversion E; subst; [lia|].
      inversion Hpre; subst. lia.
Qed.

(* user metadata of the competing values is combined without losing keys *)
Definition mkeys (m : list (Z * Z)) : list Z := map fst m.

Lemma mset_keys k v m x : In x (mkeys (mset k v m)) <-> x = k \/ In x (mkeys m).
Proof.
  unfold mkeys. induction m as [|[k' v'] r IH]; cbn; [intuition congruence|].
  destruct (Z.eqb_spec k k'); cbn; [subst; intuition congruence|]. rewrite IH. intuition congruence.
Qed.

Lemma mupd_keys a b x : In x (mkeys (mupd a b)) <-> In x (mkeys a) \/ In x (mkeys b).
Proof.
  unfold mupd. revert a. induction b as [|[k v] r IH]; intro a; cbn [fold_left]; [cbn; tauto|].
  rewrite IH. cbn [fst snd]. rewrite mset_keys. unfold mkeys. cbn. intuition congruence.
Qed.

Lemma leaf_merge_meta_keys s o x :
  In x (mkeys (f_meta (nflags (fst (leaf_merge s o))))) <-> In x (mkeys (f_meta (nflags s))) \/ In x (mkeys (f_meta (nflags o))).
Proof.
  rewrite leaf_merge_winner. destruct (nprio s >? nprio o).
  - destruct s; cbn [nflags with_flags absorb set_meta f_meta set_dsafe set_safe]; rewrite mupd_keys; tauto.
  - destruct o; cbn [nflags with_flags absorb set_meta f_meta set_dsafe set_safe]; rewrite mupd_keys; tauto.
Qed.

Lemma lfold_meta_keys : forall ws w0 x,
  In x (mkeys (f_meta (nflags (lfold w0 ws)))) <-> In x (mkeys (f_meta (nflags w0))) \/ exists w, In w ws /\ In x (mkeys (f_meta (nflags w))).
Proof.
  induction ws as [|w r IH]; intros w0 x; cbn [lfold fold_left].
  - split; [auto|]. intros [H|(w & [] & _)]; auto.
  - fold (lfold (fst (leaf_merge w0 w)) r). rewrite IH, leaf_merge_meta_keys. split.
    + intros [[H|H]|(w' & Hin & H)]; auto; right; [exists w|exists w']; cbn; auto.
    + intros [H|(w' & [E|Hin] & H)]; [auto| subst; auto | right; exists w'; auto].
Qed.
