(* Proofs/MergePlain.v — on priority-/delete-/new-free trees the merge rules collapse to Spec.Update.upd (C02). *)
From AY Require Import Model.Merge Proofs.NodeInd Proofs.FlagsLemmas Proofs.FactsOk Spec.Update.

(* ---------- the trees C02 talks about ---------- *)
Definition OF (f : flags) : Prop := f_prio f = None /\ f_del f = None /\ f_new f = None /\ f_inew f = None.

Inductive Old : node -> Prop :=
| OldLeaf f v : OF f -> Old (Leaf LScalar f v)
| OldDict f x ch : OF f -> Forall (fun kc => Old (snd kc)) ch -> Old (Comp CDict f x ch)
| OldList f x ch : OF f -> Forall (fun kc => Old (snd kc)) ch -> keys_enum 0 ch -> Old (Comp CList f x ch).

(* what the loader builds for a tag-free document (validated against the real loader by the C01/C02 correspondence):
   all explicit flags unset; below a list implicit_delete = True *)
Definition pf (sf isf ds : option bool) (src : Z) (idel : option bool) : flags := mkF None None None sf idel None isf ds [] src.

Section Inject.
  Variables (sf isf ds : option bool) (src : Z).
  Fixpoint inject (idel : option bool) (p : plain) : node :=
    match p with
    | PS v => Leaf LScalar (pf sf isf ds src idel) v
    | PD l => Comp CDict (pf sf isf ds src idel) SNone
                   ((fix go (l : list (key * plain)) := match l with [] => [] | (k, c) :: r => (k, inject idel c) :: go r end) l)
    | PL l => Comp CList (pf sf isf ds src idel) SNone
                   ((fix go (i : Z) (l : list plain) := match l with [] => [] | c :: r => (KI i, inject (Some true) c) :: go (i + 1) r end) 0 l)
    end.

  Fixpoint inj_list (i : Z) (l : list plain) : list (key * node) :=
    match l with [] => [] | c :: r => (KI i, inject (Some true) c) :: inj_list (i + 1) r end.

  Lemma inject_PD idel l : inject idel (PD l) = Comp CDict (pf sf isf ds src idel) SNone (map (fun kc => (fst kc, inject idel (snd kc))) l).
  Proof. cbn [inject]. f_equal. induction l as [|[k c] r IH]; cbn; [reflexivity|]. now rewrite IH. Qed.

  Lemma inject_PL idel l : inject idel (PL l) = Comp CList (pf sf isf ds src idel) SNone (inj_list 0 l).
  Proof. reflexivity. Qed.
End Inject.

Lemma OF_pf sf isf ds src idel : OF (pf sf isf ds src idel).
Proof. repeat split. Qed.

Lemma keys_enum_inj_list sf isf ds src l : forall i, keys_enum i (inj_list sf isf ds src i l).
Proof. induction l as [|c r IH]; intro i; cbn; auto. Qed.

Lemma inject_old sf isf ds src : forall p idel, Old (inject sf isf ds src idel p).
Proof.
  induction p as [v|l IH|l IH] using plain_ind'; intro idel.
  - cbn. constructor. apply OF_pf.
  - rewrite inject_PD. constructor; [apply OF_pf|].
    induction IH as [|kc r Hkc Hr IHr]; cbn; constructor; cbn [snd]; auto.
  - rewrite inject_PL. constructor; [apply OF_pf| |apply keys_enum_inj_list].
    generalize 0. induction IH as [|c r Hc Hr IHr]; intro i; cbn; constructor; cbn [snd]; auto.
Qed.

Lemma erase_inject sf isf ds src : forall p idel, erase (inject sf isf ds src idel p) = p.
Proof.
  induction p as [v|l IH|l IH] using plain_ind'; intro idel.
  - reflexivity.
  - rewrite inject_PD, erase_comp. cbn [is_listk]. f_equal. rewrite map_map. cbn [fst snd].
    induction IH as [|[k c] r Hkc Hr IHr]; cbn; [reflexivity|]. cbn in Hkc. now rewrite Hkc, IHr.
  - rewrite inject_PL, erase_comp. cbn [is_listk]. f_equal.
    generalize 0. induction IH as [|c r Hc Hr IHr]; intro i; cbn; [reflexivity|]. now rewrite Hc, IHr.
Qed.

(* ---------- elementary facts about Old nodes ---------- *)
Lemma Old_OF n : Old n -> OF (nflags n).
Proof. intro H; inversion H; auto. Qed.

Lemma Old_children n : Old n -> Forall (fun kc => Old (snd kc)) (children n).
Proof. intro H; inversion H; cbn; auto. Qed.

Lemma OF_priority f : OF f -> priority f = 0.
Proof. intros (H & _). unfold priority. now rewrite H. Qed.

Lemma hpo_OF a b e : OF (nflags a) -> OF (nflags b) -> has_priority_over a b e = e.
Proof. intros Ha Hb. unfold has_priority_over. now rewrite (OF_priority _ Ha), (OF_priority _ Hb). Qed.

Lemma OF_allow_new f : OF f -> allow_new f = true.
Proof. intros (_ & _ & _ & H). unfold allow_new. now rewrite H. Qed.

Lemma Old_explicit_delete n : Old n -> explicit_delete n = false.
Proof. intro H. apply Old_OF in H. destruct H as (_ & H & _). unfold explicit_delete. now rewrite H. Qed.

Lemma aget_Forall {V} (P : V -> Prop) k (l : list (key * V)) v : Forall (fun kc => P (snd kc)) l -> aget k l = Some v -> P v.
Proof.
  induction l as [|[k' v'] r IH]; cbn; intros HF E; [discriminate|].
  inversion HF; subst. destruct (key_eqb k k'); [inversion E; subst; auto|auto].
Qed.

Lemma get_child_old n k c : Old n -> get_child n k = Some c -> Old c.
Proof.
  intros H E. destruct n as [lk f v|ck f x ch]; cbn in E; [discriminate|].
  pose proof (Old_children _ H) as HF. cbn in HF.
  destruct (is_listk ck).
  - destruct (validate_index (zlen ch) k true); try discriminate. eapply aget_Forall; eauto.
  - eapply aget_Forall; eauto.
Qed.

Lemma first_not_missing_old : forall p n, Old n -> Old (first_not_missing n p).
Proof.
  induction p as [|k r IH]; intros n H; cbn; [exact H|].
  destruct (has_child n k); [|exact H].
  destruct (get_child n k) eqn:E; [|exact H]. apply IH. eapply get_child_old; eauto.
Qed.

Lemma nwp_old : forall n pre, Old n -> Forall (fun pn => Old (snd pn)) (nwp pre n).
Proof.
  induction n as [k f v|k f x ch IH] using node_ind'; intros pre H.
  - cbn. constructor; auto.
  - rewrite nwp_comp. constructor; [exact H|].
    pose proof (Old_children _ H) as HF. cbn in HF. clear H.
    induction IH as [|kc r Hkc Hr IHr]; cbn; [constructor|].
    inversion HF; subst. apply Forall_app. split; auto.
Qed.

Lemma require_all_new_old n p exc inc : Old n -> require_all_new n p exc inc = true.
Proof.
  intro H. unfold require_all_new. apply forallb_forall. intros [q m] Hin. cbn.
  assert (Hm : Old m).
  { destruct n as [lk f v|ck f x ch].
    - destruct inc; cbn in Hin; [|contradiction]. destruct Hin as [E|[]]. inversion E; subst. exact H.
    - unfold nodes_with_paths in Hin. pose proof (nwp_old _ p H) as HF. rewrite Forall_forall in HF.
      destruct inc; [apply (HF (q, m)); exact Hin|].
      apply (HF (q, m)). destruct (nwp p (Comp ck f x ch)); cbn in Hin; [contradiction|right; exact Hin]. }
  rewrite (OF_allow_new _ (Old_OF _ Hm)). reflexivity.
Qed.

(* ---------- adoption / propagation preserve Old ---------- *)
Lemma OF_set_idel f v : OF f -> OF (set_idel f v). Proof. intros (a & b & c & d). repeat split; auto. Qed.
Lemma OF_set_isafe f v : OF f -> OF (set_isafe f v). Proof. intros (a & b & c & d). repeat split; auto. Qed.
Lemma OF_set_inew_none f : OF f -> OF (set_inew f None). Proof. intros (a & b & c & d). repeat split; auto. Qed.
Lemma OF_if (b : bool) f g : OF f -> OF g -> OF (if b then f else g). Proof. destruct b; auto. Qed.

Lemma keys_enum_map (g : node -> node) l : forall i, keys_enum i l -> keys_enum i (map (fun kc => (fst kc, g (snd kc))) l).
Proof. induction l as [|kc r IH]; intros i H; cbn in *; auto. destruct H; split; auto. Qed.

Lemma Old_with_flags n f : Old n -> OF f -> Old (with_flags n f).
Proof. intros H Hf. inversion H; subst; cbn; constructor; auto. Qed.

Lemma pc_flags_OF f idel cf : OF f -> OF cf -> OF (fst (pc_flags f idel cf)).
Proof.
  intros (f1 & f2 & f3 & f4) Hc. unfold pc_flags. cbv zeta. cbn [fst]. rewrite f4.
  repeat first [apply OF_if | apply OF_set_isafe | apply OF_set_inew_none | apply OF_set_idel | assumption].
Qed.

Lemma prop_as_old : forall n f, Old n -> OF f -> Old (prop_as f n).
Proof.
  induction n as [k f0 v|k f0 x ch IH] using node_ind'; intros f H Hf.
  - inversion H; subst. cbn. constructor; auto.
  - pose proof (Old_children _ H) as HF. cbn in HF.
    assert (HF' : forall idel, Forall (fun kc => Old (snd kc)) (map (fun kc => (fst kc, prop_child prop_as f idel (snd kc))) ch)).
    { intro idel. clear H. induction IH as [|kc r Hkc Hr IHr]; cbn; constructor; inversion HF; subst; auto.
      cbn [snd]. unfold prop_child. cbv zeta.
      assert (Hg : OF (fst (pc_flags f idel (nflags (snd kc))))) by (apply pc_flags_OF; auto using Old_OF).
      destruct (snd (pc_flags _ _ _)); [apply Hkc; auto | apply Old_with_flags; auto]. }
    rewrite prop_as_comp. inversion H; subst.
    + destruct (prop_stops f); constructor; auto.
    + destruct (prop_stops f); constructor; auto. apply keys_enum_map; auto.
Qed.

Lemma child_kwargs_old n : Old n -> ck_inew (child_kwargs n) = None.
Proof.
  intro H. pose proof (Old_OF _ H) as (a & b & c & d).
  inversion H; subst; cbn in *; rewrite c, d; reflexivity.
Qed.

Lemma adopt_old kw c : ck_inew kw = None -> Old c -> Old (adopt kw c).
Proof.
  intros Hk H. unfold adopt. destruct (ck_any kw); [|exact H].
  apply prop_as_old; [exact H|]. unfold adopt_flags. cbv zeta. rewrite Hk.
  repeat first [apply OF_if | apply OF_set_isafe | apply OF_set_inew_none | apply OF_set_idel | apply Old_OF; assumption].
Qed.

(* ---------- association-list facts ---------- *)
Lemma aget_map {A B} (g : A -> B) k (l : list (key * A)) :
  aget k (map (fun kc => (fst kc, g (snd kc))) l) = option_map g (aget k l).
Proof. induction l as [|[k' v] r IH]; cbn; [reflexivity|]. destruct (key_eqb k k'); auto. Qed.

Lemma aset_map {A B} (g : A -> B) k v (l : list (key * A)) :
  map (fun kc => (fst kc, g (snd kc))) (aset k v l) = aset k (g v) (map (fun kc => (fst kc, g (snd kc))) l).
Proof. induction l as [|[k' v'] r IH]; cbn; [reflexivity|]. destruct (key_eqb k k'); cbn; [reflexivity|]. now rewrite IH. Qed.

Lemma aset_Forall {V} (P : V -> Prop) k v (l : list (key * V)) :
  P v -> Forall (fun kc => P (snd kc)) l -> Forall (fun kc => P (snd kc)) (aset k v l).
Proof.
  intros Hv HF. induction HF as [|[k' v'] r Hh Hr IH]; cbn; [constructor; auto|].
  destruct (key_eqb k k'); constructor; auto.
Qed.

(* list nodes: children are numbered from 0 *)
Lemma keys_enum_aget : forall l i j c, keys_enum i l -> 0 <= j -> nth_error l (Z.to_nat j) = Some c -> aget (KI (i + j)) l = Some (snd c).
Proof.
  induction l as [|[k n] r IH]; intros i j c HK Hj E.
  - destruct (Z.to_nat j); discriminate.
  - cbn in HK. destruct HK as [Hk HK]. cbn in Hk. subst k. cbn [aget].
    destruct (Z.eq_dec j 0) as [->|Hne].
    + cbn in E. inversion E; subst. cbn. replace (i + 0) with i by lia. rewrite Z.eqb_refl. reflexivity.
    + cbn [key_eqb]. assert (i + j =? i = false) as -> by (apply Z.eqb_neq; lia).
      replace (Z.to_nat j) with (S (Z.to_nat (j - 1))) in E by lia. cbn in E.
      replace (i + j) with ((i + 1) + (j - 1)) by lia. apply IH; auto; lia.
Qed.

Lemma keys_enum_aset : forall l i j v, keys_enum i l -> 0 <= j < zlen l ->
  aset (KI (i + j)) v l = lset (Z.to_nat j) (KI (i + j), v) l /\ keys_enum i (aset (KI (i + j)) v l).
Proof.
  induction l as [|[k n] r IH]; intros i j v HK Hj.
  - unfold zlen in Hj. cbn in Hj. lia.
  - cbn in HK. destruct HK as [Hk HK]. cbn in Hk. subst k. cbn [aset key_eqb].
    destruct (Z.eq_dec j 0) as [->|Hne].
    + replace (i + 0) with i by lia. rewrite Z.eqb_refl. cbn. split; auto.
    + assert (i + j =? i = false) as -> by (apply Z.eqb_neq; lia).
      replace (Z.to_nat j) with (S (Z.to_nat (j - 1))) by lia. cbn [lset].
      replace (i + j) with ((i + 1) + (j - 1)) by lia.
      unfold zlen in Hj. cbn [length] in Hj.
      destruct (IH (i + 1) (j - 1) v HK) as [E1 E2]; [unfold zlen; lia|].
      rewrite E1. split; [reflexivity|]. cbn. split; [reflexivity|]. rewrite <- E1. exact E2.
Qed.

Lemma lset_map {A B} (g : A -> B) : forall (l : list A) i v, map g (lset i v l) = lset i (g v) (map g l).
Proof. induction l as [|x r IH]; intros [|i] v; cbn; auto. now rewrite IH. Qed.

Lemma lset_Forall {A} (P : A -> Prop) : forall (l : list A) i v, P v -> Forall P l -> Forall P (lset i v l).
Proof. induction l as [|x r IH]; intros [|i] v Hv HF; cbn; auto; inversion HF; subst; constructor; auto. Qed.

Lemma lset_length {A} : forall (l : list A) i v, length (lset i v l) = length l.
Proof. induction l as [|x r IH]; intros [|i] v; cbn; auto. Qed.

(* a strict index is also what the non-strict validation returns *)
Lemma validate_strict len k i : validate_index len k true = IdxOk i ->
  validate_index len k false = IdxOk i /\ 0 <= i < len.
Proof.
  unfold validate_index. destruct k as [z|s]; [|discriminate]. cbn [andb].
  destruct ((Z.abs z >? len) || (z =? len))%bool eqn:E; [discriminate|].
  apply orb_false_elim in E. destruct E as [E1 E2].
  intro H. inversion H; subst. split; [reflexivity|].
  assert (Z.abs z <= len) by (destruct (Z.gtb_spec (Z.abs z) len); [discriminate|lia]).
  apply Z.eqb_neq in E2.
  destruct (Z.ltb_spec z 0); lia.
Qed.

(* ---------- filter_nodes on Old trees ---------- *)
Lemma shift_kept_all_false kw il : forall l moved, Forall (fun m => snd m = false) l -> shift_kept kw il l moved = [].
Proof.
  induction l as [|[[k c] b] r IH]; intros moved HF; cbn; [reflexivity|].
  inversion HF; subst. cbn in *. subst b. apply IH; auto.
Qed.

Lemma filter_false cond : forall n pre, Old n -> (forall p m, Old m -> cond p m = false) ->
  fst (filter_nodes cond pre n) = clear_children n.
Proof.
  induction n as [k f v|k f x ch IH] using node_ind'; intros pre H Hc; [reflexivity|].
  rewrite filter_nodes_comp. cbv zeta. cbn [fst clear_children].
  pose proof (Old_children _ H) as HF. cbn in HF.
  assert (HA : Forall (fun m => snd m = false) (fst (filter_go cond pre ch))).
  { clear H. induction IH as [|kc r Hkc Hr IHr]; cbn [filter_go]; [constructor|].
    inversion HF; subst.
    destruct (filter_child (filter_nodes cond) cond pre kc) as [m rm] eqn:Em.
    destruct (filter_go cond pre r) as [rest rem_r] eqn:Er. cbn [fst]. constructor; [|apply IHr; auto].
    unfold filter_child in Em. rewrite (Hc _ _ H1) in Em. cbn [orb] in Em.
    destruct (snd kc) as [lk lf lv|ck cf cx cch] eqn:Ekc.
    - inversion Em; subst. reflexivity.
    - specialize (Hkc (pre ++ [fst kc]) H1 Hc).
      destruct (filter_nodes cond (pre ++ [fst kc]) (Comp ck cf cx cch)) as [c' rc]. cbn [fst] in Hkc. subst c'.
      inversion Em; subst. reflexivity. }
  rewrite (shift_kept_all_false _ _ _ _ HA). destruct (is_listk k); reflexivity.
Qed.

Lemma renum_enum : forall l i, keys_enum i l -> renum_from i l = l.
Proof.
  induction l as [|[k c] r IH]; intros i H; cbn; [reflexivity|].
  cbn in H. destruct H as [Hk H]. cbn in Hk. subst k. now rewrite IH.
Qed.

Lemma filter_true cond : forall n pre, Old n -> (forall p m, Old m -> cond p m = true) ->
  filter_nodes cond pre n = (n, []).
Proof.
  induction n as [k f v|k f x ch IH] using node_ind'; intros pre H Hc; [reflexivity|].
  rewrite filter_nodes_comp. cbv zeta.
  pose proof (Old_children _ H) as HF. cbn in HF.
  assert (HA : filter_go cond pre ch = (map (fun kc => (fst kc, snd kc, true)) ch, [])).
  { clear H. induction IH as [|kc r Hkc Hr IHr]; cbn [filter_go]; [reflexivity|].
    inversion HF; subst. rewrite (IHr H2).
    unfold filter_child. rewrite (Hc _ _ H1). cbn [orb].
    destruct (snd kc) as [lk lf lv|ck cf cx cch] eqn:Ekc.
    - cbn. rewrite <- Ekc. reflexivity.
    - rewrite (Hkc (pre ++ [fst kc]) H1 Hc). cbn. rewrite <- Ekc. reflexivity. }
  rewrite HA. cbn [fst snd].
  assert (HS : forall kw il l, shift_kept kw il (map (fun kc : key * node => (fst kc, snd kc, true)) l) false = l).
  { intros kw il l. induction l as [|[kk c] r IHl]; cbn; [reflexivity|]. now rewrite IHl. }
  rewrite HS. inversion H; subst; cbn [is_listk]; [reflexivity|].
  rewrite renum_enum; auto.
Qed.

(* ---------- upd's loops as top-level functions ---------- *)
Fixpoint upd_dgo (kv : list (key * plain)) (acc : list (key * plain)) : res (list (key * plain)) :=
  match kv with
  | [] => Ok acc
  | (k, v) :: rest =>
    match aget k acc with
    | Some ov => do m <- upd ov v; upd_dgo rest (aset k m acc)
    | None => upd_dgo rest (aset k v acc)
    end
  end.

Fixpoint upd_lgo (kv : list (key * plain)) (acc : list plain) : res (list plain) :=
  match kv with
  | [] => Ok acc
  | (k, v) :: rest =>
    match validate_index (zlen acc) k true with
    | IdxOk i =>
      match nth_error acc (Z.to_nat i) with
      | Some ov => do m <- upd ov v; upd_lgo rest (lset (Z.to_nat i) m acc)
      | None => Err EMerge []
      end
    | _ => Err EMerge []
    end
  end.

Lemma upd_PD_PD okv kv : upd (PD okv) (PD kv) = do r <- upd_dgo kv okv; Ok (PD r).
Proof.
  reflexivity.
Qed.

Lemma upd_PL_PD ol kv : upd (PL ol) (PD kv) = if keys_valid (zlen ol) kv then do r <- upd_lgo kv ol; Ok (PL r) else Err EMerge [].
Proof.
  cbn [upd]. destruct (keys_valid (zlen ol) kv); reflexivity.
Qed.

Lemma upd_other old new : (match new with PD _ => False | _ => True end) \/ (match old with PS _ => True | _ => False end) -> upd old new = Ok new.
Proof. destruct new, old; cbn; intros [H|H]; try contradiction; reflexivity. Qed.

(* ---------- the relation between the spec's result and the model's ---------- *)
Definition Rel (r : res plain) (m : res (node * who)) : Prop :=
  match r with
  | Ok pr => exists n w, m = Ok (n, w) /\ Old n /\ erase n = pr
  | Err _ _ => exists q, m = Err EMerge q
  end.

Lemma fold_merge_step_err rec als p e q l : fold_left (merge_step rec als p) l (Err e q) = Err e q.
Proof. induction l as [|kv r IH]; cbn; auto. Qed.

Lemma OF_absorb a b : OF a -> OF (absorb a b).
Proof. intros (h1 & h2 & h3 & h4). repeat split; auto. Qed.

Lemma OF_become a b : OF a -> OF b -> OF (become a b).
Proof. intros (h1 & h2 & h3 & h4) (g1 & g2 & g3 & g4). repeat split; auto. Qed.

Lemma erase_with_flags n f : erase (with_flags n f) = erase n.
Proof. destruct n; [reflexivity|]. cbn [with_flags]. now rewrite !erase_comp. Qed.

Section Main.
  Variables (sf isf ds : option bool) (src : Z).
  Notation I := (inject sf isf ds src None).
  Notation inj := (fun kc : key * plain => (fst kc, inject sf isf ds src None (snd kc))).

  Lemma I_flags po : nflags (I po) = pf sf isf ds src None.
  Proof. destruct po; [reflexivity|rewrite inject_PD; reflexivity|rewrite inject_PL; reflexivity]. Qed.

  Lemma leaf_merge_plain s po : Old s -> Rel (Ok po) (Ok (leaf_merge s (I po))).
  Proof.
    intro H. unfold leaf_merge.
    rewrite hpo_OF by (auto using Old_OF, inject_old).
    cbn [replace_other fst]. do 2 eexists. split; [reflexivity|]. split.
    - apply Old_with_flags; [apply inject_old|]. apply OF_absorb. apply Old_OF, inject_old.
    - rewrite erase_with_flags. apply erase_inject.
  Qed.

  (* the loop over a mapping merged onto a mapping *)
  Lemma loop_dict rec p f x : forall kv chs,
    (forall k v c, In (k, v) kv -> Old c -> Rel (upd (erase c) v) (rec (p ++ [k]) c (I v))) ->
    Old (Comp CDict f x chs) ->
    match upd_dgo kv (map (fun kc => (fst kc, erase (snd kc))) chs) with
    | Ok r => exists chs', fold_left (merge_step rec [] p) (map inj kv) (Ok (Comp CDict f x chs)) = Ok (Comp CDict f x chs')
                           /\ Old (Comp CDict f x chs') /\ map (fun kc => (fst kc, erase (snd kc))) chs' = r
    | Err _ _ => exists q, fold_left (merge_step rec [] p) (map inj kv) (Ok (Comp CDict f x chs)) = Err EMerge q
    end.
  Proof.
    induction kv as [|[k v] rest IH]; intros chs Hrec Hold.
    - cbn. exists chs. auto.
    - cbn [upd_dgo map fold_left fst snd].
      assert (Hf : OF f) by (apply Old_OF in Hold; exact Hold).
      assert (HF : Forall (fun kc => Old (snd kc)) chs) by (apply Old_children in Hold; exact Hold).
      assert (Hkw : ck_inew (child_kwargs (Comp CDict f x chs)) = None) by (apply child_kwargs_old; exact Hold).
      (* it suffices to show that one step replaces/appends key k with a node whose content is right *)
      assert (Hstep : forall n' m, Old n' -> erase n' = m ->
                 merge_step rec [] p (Ok (Comp CDict f x chs)) (k, I v) = Ok (Comp CDict f x (aset k n' chs)) ->
                 match upd_dgo rest (aset k m (map (fun kc => (fst kc, erase (snd kc))) chs)) with
                 | Ok r => exists chs', fold_left (merge_step rec [] p) (map inj rest) (merge_step rec [] p (Ok (Comp CDict f x chs)) (k, I v)) = Ok (Comp CDict f x chs')
                                        /\ Old (Comp CDict f x chs') /\ map (fun kc => (fst kc, erase (snd kc))) chs' = r
                 | Err _ _ => exists q, fold_left (merge_step rec [] p) (map inj rest) (merge_step rec [] p (Ok (Comp CDict f x chs)) (k, I v)) = Err EMerge q
                 end).
      { intros n' m Hn' Hm Heq. rewrite Heq. subst m.
        specialize (IH (aset k n' chs)). rewrite aset_map in IH. apply IH.
        - intros k0 v0 c0 Hin. apply Hrec. right. exact Hin.
        - constructor; auto. apply aset_Forall; auto. }
      rewrite aget_map.
      destruct (aget k chs) as [c|] eqn:Eg; cbn [option_map].
      + assert (Hc : Old c) by (eapply aget_Forall; eauto).
        specialize (Hrec k v c (or_introl eq_refl) Hc).
        destruct (upd (erase c) v) as [m|e q] eqn:Eu; cbn [bind].
        * destruct Hrec as (n & w & Er & Hn & En).
          assert (Hexp : explicit_delete (I v) = false) by (apply Old_explicit_delete, inject_old).
          assert (Hexpn : explicit_delete n = false) by (apply Old_explicit_delete; exact Hn).
          assert (Hran : forall q b, require_all_new n q [] b = true) by (intros; apply require_all_new_old; exact Hn).
          destruct w, (is_comp c) eqn:Eic.
          -- apply (Hstep n m Hn En).
             unfold merge_step. cbn [bind get_child is_listk]. rewrite Eg. cbn [path_in existsb]. rewrite Er. cbn [bind].
             rewrite Eic, Hexp, !andb_false_r. reflexivity.
          -- apply (Hstep n m Hn En).
             unfold merge_step. cbn [bind get_child is_listk]. rewrite Eg. cbn [path_in existsb]. rewrite Er. cbn [bind].
             rewrite Eic. reflexivity.
          -- apply (Hstep (adopt (child_kwargs (Comp CDict f x chs)) n) m); [apply adopt_old; auto|rewrite adopt_erase; exact En|].
             unfold merge_step. cbn [bind get_child is_listk]. rewrite Eg. cbn [path_in existsb]. rewrite Er. cbn [bind].
             rewrite Eic, Hexp, !andb_false_r. reflexivity.
          -- apply (Hstep (adopt (child_kwargs (Comp CDict f x chs)) n) m); [apply adopt_old; auto|rewrite adopt_erase; exact En|].
             unfold merge_step. cbn [bind get_child is_listk]. rewrite Eg. cbn [path_in existsb]. rewrite Er. cbn [bind].
             rewrite Eic, Hran, Hexpn, !andb_false_r. reflexivity.
        * destruct Hrec as (q' & Er). exists q'.
          unfold merge_step at 2. cbn [bind get_child is_listk]. rewrite Eg. cbn [path_in existsb]. rewrite Er. cbn [bind].
          apply fold_merge_step_err.
      + apply (Hstep (adopt (child_kwargs (Comp CDict f x chs)) (I v)) v).
        * apply adopt_old; auto. apply inject_old.
        * rewrite adopt_erase. apply erase_inject.
        * unfold merge_step. cbn [bind get_child is_listk]. rewrite Eg.
          rewrite require_all_new_old by apply inject_old. reflexivity.
  Qed.

  Lemma nth_error_map' {A B} (g : A -> B) : forall (l : list A) n, nth_error (map g l) n = option_map g (nth_error l n).
  Proof. induction l as [|a r IH]; intros [|n]; cbn; auto. Qed.

  Lemma zlen_map {A B} (g : A -> B) l : zlen (map g l) = zlen l.
  Proof. unfold zlen. now rewrite map_length. Qed.

  (* the loop over a mapping merged onto a list: every key addresses an existing element *)
  Lemma loop_list rec p f x : forall kv chs,
    (forall k v c, In (k, v) kv -> Old c -> Rel (upd (erase c) v) (rec (p ++ [k]) c (I v))) ->
    Old (Comp CList f x chs) ->
    keys_valid (zlen chs) kv = true ->
    match upd_lgo kv (map (fun kc => erase (snd kc)) chs) with
    | Ok r => exists chs', fold_left (merge_step rec [] p) (map inj kv) (Ok (Comp CList f x chs)) = Ok (Comp CList f x chs')
                           /\ Old (Comp CList f x chs') /\ map (fun kc => erase (snd kc)) chs' = r
    | Err _ _ => exists q, fold_left (merge_step rec [] p) (map inj kv) (Ok (Comp CList f x chs)) = Err EMerge q
    end.
  Proof.
    induction kv as [|[k v] rest IH]; intros chs Hrec Hold Hkv.
    - cbn. exists chs. auto.
    - cbn [upd_lgo map fold_left fst snd].
      assert (Hf : OF f) by (apply Old_OF in Hold; exact Hold).
      assert (HF : Forall (fun kc => Old (snd kc)) chs) by (apply Old_children in Hold; exact Hold).
      assert (HK : keys_enum 0 chs) by (inversion Hold; auto).
      assert (Hkw : ck_inew (child_kwargs (Comp CList f x chs)) = None) by (apply child_kwargs_old; exact Hold).
      cbn [keys_valid forallb fst] in Hkv. apply andb_true_iff in Hkv. destruct Hkv as [Hk Hrest].
      rewrite zlen_map.
      destruct (validate_index (zlen chs) k true) as [i| |] eqn:Ev; try discriminate. clear Hk.
      destruct (validate_strict _ _ _ Ev) as [Evn Hi].
      destruct (nth_error chs (Z.to_nat i)) as [[ki c]|] eqn:En.
      2:{ apply nth_error_None in En. unfold zlen in Hi. lia. }
      assert (Eg : aget (KI i) chs = Some c) by (apply (keys_enum_aget chs 0 i (ki, c)); auto; lia).
      assert (Hc : Old c) by (eapply aget_Forall; eauto).
      rewrite nth_error_map', En. cbn [option_map snd].
      assert (Hstep : forall n' m, Old n' -> erase n' = m ->
                 merge_step rec [] p (Ok (Comp CList f x chs)) (k, I v) = Ok (Comp CList f x (aset (KI i) n' chs)) ->
                 match upd_lgo rest (lset (Z.to_nat i) m (map (fun kc => erase (snd kc)) chs)) with
                 | Ok r => exists chs', fold_left (merge_step rec [] p) (map inj rest) (merge_step rec [] p (Ok (Comp CList f x chs)) (k, I v)) = Ok (Comp CList f x chs')
                                        /\ Old (Comp CList f x chs') /\ map (fun kc => erase (snd kc)) chs' = r
                 | Err _ _ => exists q, fold_left (merge_step rec [] p) (map inj rest) (merge_step rec [] p (Ok (Comp CList f x chs)) (k, I v)) = Err EMerge q
                 end).
      { intros n' m Hn' Hm Heq. rewrite Heq. subst m.
        destruct (keys_enum_aset chs 0 i n' HK Hi) as [Ea Hke]. cbn [Z.add] in Ea, Hke.
        specialize (IH (aset (KI i) n' chs)).
        assert (El : map (fun kc => erase (snd kc)) (aset (KI i) n' chs) = lset (Z.to_nat i) (erase n') (map (fun kc => erase (snd kc)) chs)).
        { rewrite Ea. rewrite lset_map. reflexivity. }
        rewrite El in IH. apply IH.
        - intros k0 v0 c0 Hin. apply Hrec. right. exact Hin.
        - constructor; auto. apply aset_Forall; auto.
        - assert (zlen (aset (KI i) n' chs) = zlen chs) as -> by (rewrite Ea; unfold zlen; now rewrite lset_length). exact Hrest. }
      specialize (Hrec k v c (or_introl eq_refl) Hc).
      destruct (upd (erase c) v) as [m|e q] eqn:Eu; cbn [bind].
      + destruct Hrec as (n & w & Er & Hn & En').
        assert (Hexp : explicit_delete (I v) = false) by (apply Old_explicit_delete, inject_old).
        assert (Hexpn : explicit_delete n = false) by (apply Old_explicit_delete; exact Hn).
        assert (Hran : forall q b, require_all_new n q [] b = true) by (intros; apply require_all_new_old; exact Hn).
        destruct w, (is_comp c) eqn:Eic.
        * apply (Hstep n m Hn En').
          unfold merge_step. cbn [bind get_child is_listk]. rewrite Ev, Eg. cbn [path_in existsb]. rewrite Er. cbn [bind].
          rewrite Eic, Hexp, !andb_false_r. cbn [put_child is_listk]. rewrite Ev. reflexivity.
        * apply (Hstep n m Hn En').
          unfold merge_step. cbn [bind get_child is_listk]. rewrite Ev, Eg. cbn [path_in existsb]. rewrite Er. cbn [bind].
          rewrite Eic. cbn [put_child is_listk]. rewrite Ev. reflexivity.
        * apply (Hstep (adopt (child_kwargs (Comp CList f x chs)) n) m); [apply adopt_old; auto|rewrite adopt_erase; exact En'|].
          unfold merge_step. cbn [bind get_child is_listk]. rewrite Ev, Eg. cbn [path_in existsb]. rewrite Er. cbn [bind].
          rewrite Eic, Hexp, !andb_false_r. cbn [set_child is_listk]. rewrite Evn. reflexivity.
        * apply (Hstep (adopt (child_kwargs (Comp CList f x chs)) n) m); [apply adopt_old; auto|rewrite adopt_erase; exact En'|].
          unfold merge_step. cbn [bind get_child is_listk]. rewrite Ev, Eg. cbn [path_in existsb]. rewrite Er. cbn [bind].
          rewrite Eic, Hran, Hexpn, !andb_false_r. cbn [set_child is_listk]. rewrite Evn. reflexivity.
      + destruct Hrec as (q' & Er). exists q'.
        unfold merge_step at 2. cbn [bind get_child is_listk]. rewrite Ev, Eg. cbn [path_in existsb]. rewrite Er. cbn [bind].
        apply fold_merge_step_err.
  Qed.

  Lemma delete_list_I l : delete (Comp CList (pf sf isf ds src None) SNone l) = true.
  Proof. unfold delete. cbn. apply list_default_delete. Qed.

  Lemma delete_dict_I l : delete (Comp CDict (pf sf isf ds src None) SNone l) = false.
  Proof. unfold delete. cbn. apply dict_default_delete. Qed.

  (* a (deleting) list replaces whatever plain container was there *)
  Lemma prune_list p ck cf cx chs l :
    Old (Comp ck cf cx chs) -> Old (Comp CList (pf sf isf ds src None) SNone l) ->
    exists s' r, prune p (Comp ck cf cx chs) (Comp CList (pf sf isf ds src None) SNone l) = (s', Some (Ok (r, Other)))
                 /\ Old r /\ erase r = erase (Comp CList (pf sf isf ds src None) SNone l).
  Proof.
    intros Hs Ho. unfold prune. rewrite delete_list_I.
    set (o := Comp CList (pf sf isf ds src None) SNone l) in *.
    set (cond := fun (ap : path) (n : node) => has_priority_over n (first_not_missing o (skipn (length p) ap)) false).
    assert (Hc : forall q m, Old m -> cond q m = false).
    { intros q m Hm. unfold cond. apply hpo_OF; [apply Old_OF; exact Hm|]. apply Old_OF, first_not_missing_old; exact Ho. }
    pose proof (filter_false cond _ p Hs Hc) as Ef.
    destruct (filter_nodes cond p (Comp ck cf cx chs)) as [s' removed]. cbn [fst clear_children] in Ef. subst s'.
    cbn [children andb].
    assert (Hs' : Old (Comp ck cf cx [])) by (inversion Hs; subst; constructor; auto; cbn; auto).
    rewrite hpo_OF by (apply Old_OF; assumption).
    rewrite require_all_new_old by exact Ho.
    do 2 eexists. split.
    - unfold replace_other. unfold o at 2. cbn [with_flags nflags maybe_promote].
      inversion Hs; subst; cbn [ckind_eqb subk is_funck is_listk is_plaink andb orb negb who_of]; reflexivity.
    - split.
      + constructor; [apply OF_absorb, OF_pf| |]; inversion Ho; auto.
      + apply erase_with_flags.
  Qed.

  Lemma merge_plain : forall fuel p s po, Old s -> (nsize (I po) < fuel)%nat ->
    Rel (upd (erase s) po) (on_merge [] fuel p s (I po)).
  Proof.
    induction fuel as [|fu IH]; intros p s po Hs Hlt; [lia|].
    cbn [on_merge].
    destruct s as [lk lf lv | ck cf cx chs].
    - cbn [dispatch]. rewrite upd_other by (right; cbn; exact Logic.I). apply leaf_merge_plain; exact Hs.
    - destruct po as [v | kv | l].
      + (* a scalar replaces the container *)
        rewrite upd_other by (left; exact Logic.I).
        assert (E : dispatch (on_merge [] fu) [] p (Comp ck cf cx chs) (I (PS v)) = Ok (leaf_merge (Comp ck cf cx chs) (I (PS v)))).
        { inversion Hs; subst; reflexivity. }
        rewrite E. apply leaf_merge_plain; exact Hs.
      + (* a mapping: merged key-wise into a mapping, index-wise into a list *)
        rewrite inject_PD in *. rewrite nsize_comp in Hlt.
        set (o := Comp CDict (pf sf isf ds src None) SNone (map inj kv)).
        assert (Ho : Old o) by (unfold o; rewrite <- inject_PD; apply inject_old).
        assert (Hrec : forall k v c, In (k, v) kv -> Old c -> Rel (upd (erase c) v) (on_merge [] fu (p ++ [k]) c (I v))).
        { intros k v c Hin Hc. apply IH; [exact Hc|].
          assert (nsize (I v) <= list_sum (map (fun kc => nsize (snd kc)) (map inj kv)))%nat; [|lia].
          clear - Hin. unfold list_sum. induction kv as [|[k' v'] r IHr]; [contradiction|]. cbn [map fold_right snd fst]. destruct Hin as [E|Hin]; [inversion E; subst; lia|].
          specialize (IHr Hin). lia. }
        assert (Hfin : forall s2, Old s2 -> (exists f2 x2 c2, s2 = Comp ck f2 x2 c2) ->
                   exists r, (let '(r, promoted) := if has_priority_over o s2 true then replace_self s2 o true else replace_other s2 o true in
                              Ok (r, who_of promoted Self Other)) = Ok (r, Self) /\ Old r /\ erase r = erase s2).
        { intros s2 H2 (f2 & x2 & c2 & ->).
          rewrite hpo_OF by (apply Old_OF; assumption).
          unfold replace_self. cbn [with_flags nflags].
          assert (Hb : OF (become f2 (nflags o))) by (apply OF_become; [apply (Old_OF _ H2)|apply (Old_OF _ Ho)]).
          assert (Hp : maybe_promote (Comp ck (become f2 (nflags o)) x2 c2) o = (Comp ck (become f2 (nflags o)) x2 c2, false)).
          { unfold o. inversion H2; subst; reflexivity. }
          rewrite Hp. cbn [fst snd who_of]. eexists. split; [reflexivity|]. split.
          - unfold propagate. apply prop_as_old; [|exact Hb]. inversion H2; subst; constructor; auto.
          - rewrite propagate_erase, !erase_comp. reflexivity. }
        inversion Hs; subst.
        * (* mapping onto mapping *)
          rewrite erase_comp. cbn [is_listk]. rewrite upd_PD_PD.
          cbn [dispatch is_funck is_listk]. unfold comp_merge. fold o. unfold o at 1.
          unfold prune. fold o. unfold o at 1. rewrite delete_dict_I.
          pose proof (loop_dict (on_merge [] fu) p cf cx kv chs Hrec Hs) as HL.
          destruct (upd_dgo kv (map (fun kc => (fst kc, erase (snd kc))) chs)) as [r|e q]; cbn [bind].
          -- destruct HL as (chs' & EL & Hold' & Er). fold o in EL. unfold o in EL. rewrite EL. cbn [bind].
             destruct (Hfin (Comp CDict cf cx chs') Hold') as (r' & E' & Hr' & Ee'); [do 3 eexists; reflexivity|].
             fold o. rewrite E'. do 2 eexists. split; [reflexivity|]. split; [exact Hr'|].
             rewrite Ee', erase_comp. cbn [is_listk]. now rewrite Er.
          -- destruct HL as (q' & EL). rewrite EL. cbn [bind]. exists q'. reflexivity.
        * (* mapping onto list *)
          rewrite erase_comp. cbn [is_listk]. rewrite upd_PL_PD, zlen_map.
          cbn [dispatch is_funck is_listk]. unfold list_merge. fold o. unfold o at 1. cbn [is_listk negb andb children].
          fold o. assert (Edo : delete o = false) by (unfold o; apply delete_dict_I). rewrite Edo. cbn [negb andb].
          assert (Ekv : dict_keys_ok (zlen chs) (map inj kv) = keys_valid (zlen chs) kv).
          { unfold dict_keys_ok, keys_valid. clear. induction kv as [|[k' v'] r IHr]; cbn; [reflexivity|]. now rewrite IHr. }
          rewrite Ekv. destruct (keys_valid (zlen chs) kv) eqn:Ekeys; cbn [negb].
          -- fold o.
             rewrite (filter_true (keep_if_exists (Comp CList cf cx chs)) o [] Ho).
             2:{ intros q m Hm. unfold keep_if_exists. rewrite hpo_OF; [apply orb_true_r|apply Old_OF; exact Hm|].
                 apply Old_OF, first_not_missing_old; exact Hs. }
             cbn [fst]. unfold comp_merge. unfold o at 1. unfold prune. fold o. unfold o at 1. rewrite delete_dict_I.
             pose proof (loop_list (on_merge [] fu) p cf cx kv chs Hrec Hs Ekeys) as HL.
             destruct (upd_lgo kv (map (fun kc => erase (snd kc)) chs)) as [r|e q]; cbn [bind].
             ++ destruct HL as (chs' & EL & Hold' & Er). fold o in EL. unfold o in EL. rewrite EL. cbn [bind].
                destruct (Hfin (Comp CList cf cx chs') Hold') as (r' & E' & Hr' & Ee'); [do 3 eexists; reflexivity|].
                fold o. rewrite E'. do 2 eexists. split; [reflexivity|]. split; [exact Hr'|].
                rewrite Ee', erase_comp. cbn [is_listk]. now rewrite Er.
             ++ destruct HL as (q' & EL). rewrite EL. cbn [bind]. exists q'. reflexivity.
          -- exists p. reflexivity.
      + (* a list replaces the container wholesale *)
        rewrite upd_other by (left; exact Logic.I).
        rewrite inject_PL in *.
        set (o := Comp CList (pf sf isf ds src None) SNone (inj_list sf isf ds src 0 l)).
        assert (Ho : Old o) by (unfold o; rewrite <- inject_PL; apply inject_old).
        destruct (prune_list p ck cf cx chs _ Hs Ho) as (s' & r & Ep & Hr & Er).
        assert (Ecm : comp_merge (on_merge [] fu) [] p (Comp ck cf cx chs) o = Ok (r, Other)).
        { unfold comp_merge, o. rewrite Ep. reflexivity. }
        assert (E : dispatch (on_merge [] fu) [] p (Comp ck cf cx chs) o = Ok (r, Other)).
        { inversion Hs; subst; cbn [dispatch is_funck is_listk]; [exact Ecm|].
          unfold list_merge. unfold o at 1. cbn [is_listk negb andb]. fold o.
          rewrite (filter_true (keep_if_exists (Comp CList cf cx chs)) o [] Ho); [exact Ecm|].
          intros q m Hm. unfold keep_if_exists. rewrite hpo_OF; [apply orb_true_r|apply Old_OF; exact Hm|].
          apply Old_OF, first_not_missing_old; exact Hs. }
        rewrite E. do 2 eexists. split; [reflexivity|]. split; [exact Hr|]. rewrite Er. unfold o. rewrite <- inject_PL. apply erase_inject.
  Qed.
End Main.

(* ---------- premerge is the identity on operator-free documents ---------- *)
Lemma premerge_plain e sf isf ds src : forall po idel p into,
  on_premerge e p (inject sf isf ds src idel po) into = Ok (inject sf isf ds src idel po, into, false, []).
Proof.
  induction po as [v|l IH|l IH] using plain_ind'; intros idel p into.
  - reflexivity.
  - rewrite inject_PD. cbn [on_premerge].
    set (chs := map (fun kc : key * plain => (fst kc, inject sf isf ds src idel (snd kc))) l).
    assert (E : forall into, (fix go (l0 : list (key * node)) (into0 : option node) {struct l0} :
                 res (list (key * node * bool) * option node * list path) :=
               match l0 with
               | [] => Ok ([], into0, [])
               | (kk, c) :: r =>
                 do x1 <- on_premerge e (p ++ [kk]) c into0;
                 let '(c', into', changed, al1) := x1 in
                 do x2 <- go r into';
                 let '(rest, into'', al2) := x2 in
                 Ok ((kk, c', changed) :: rest, into'', al1 ++ al2)
               end) chs into = Ok (map (fun kc => (fst kc, snd kc, false)) chs, into, [])).
    { unfold chs. clear chs. induction IH as [|[k c] r Hkc Hr IHr]; intro into0; cbn [map fst snd]; [reflexivity|].
      cbn in Hkc. rewrite Hkc. cbn [bind]. rewrite IHr. reflexivity. }
    rewrite E. cbn [bind].
    assert (E1 : map (fun kcb : key * node * bool => (fst (fst kcb), snd (fst kcb))) (map (fun kc : key * node => (fst kc, snd kc, false)) chs) = chs).
    { rewrite map_map. cbn [fst snd]. clear. induction chs as [|[k c] r IHr]; cbn; [reflexivity|]. now rewrite IHr. }
    rewrite E1.
    assert (E2 : forall n0, fold_left (fun (acc : option node) (kcb : key * node * bool) =>
                   match acc with
                   | Some cur => if snd kcb then set_child cur (fst (fst kcb)) (snd (fst kcb)) else Some cur
                   | None => None
                   end) (map (fun kc : key * node => (fst kc, snd kc, false)) chs) (Some n0) = Some n0).
    { clear. induction chs as [|[k c] r IHr]; intro n0; cbn; auto. }
    rewrite E2. reflexivity.
  - rewrite inject_PL. cbn [on_premerge].
    set (chs := inj_list sf isf ds src 0 l).
    assert (E : forall into, (fix go (l0 : list (key * node)) (into0 : option node) {struct l0} :
                 res (list (key * node * bool) * option node * list path) :=
               match l0 with
               | [] => Ok ([], into0, [])
               | (kk, c) :: r =>
                 do x1 <- on_premerge e (p ++ [kk]) c into0;
                 let '(c', into', changed, al1) := x1 in
                 do x2 <- go r into';
                 let '(rest, into'', al2) := x2 in
                 Ok ((kk, c', changed) :: rest, into'', al1 ++ al2)
               end) chs into = Ok (map (fun kc => (fst kc, snd kc, false)) chs, into, [])).
    { unfold chs. clear chs. generalize 0. induction IH as [|c r Hc Hr IHr]; intros i into0; cbn [inj_list map fst snd]; [reflexivity|].
      rewrite Hc. cbn [bind]. rewrite IHr. reflexivity. }
    rewrite E. cbn [bind].
    assert (E1 : map (fun kcb : key * node * bool => (fst (fst kcb), snd (fst kcb))) (map (fun kc : key * node => (fst kc, snd kc, false)) chs) = chs).
    { rewrite map_map. cbn [fst snd]. clear. induction chs as [|[k c] r IHr]; cbn; [reflexivity|]. now rewrite IHr. }
    rewrite E1.
    assert (E2 : forall n0, fold_left (fun (acc : option node) (kcb : key * node * bool) =>
                   match acc with
                   | Some cur => if snd kcb then set_child cur (fst (fst kcb)) (snd (fst kcb)) else Some cur
                   | None => None
                   end) (map (fun kc : key * node => (fst kc, snd kc, false)) chs) (Some n0) = Some n0).
    { clear. induction chs as [|[k c] r IHr]; intro n0; cbn; auto. }
    rewrite E2. reflexivity.
Qed.

(* ---------- documents and the fold ---------- *)
(* a parsed tag-free document: source-level parameters (safe marks, source file) and its content *)
Record pdoc := mkD { d_sf : option bool; d_isf : option bool; d_ds : option bool; d_src : Z; d_data : plain }.
Definition load_plain (d : pdoc) : node := inject (d_sf d) (d_isf d) (d_ds d) (d_src d) None (d_data d).
Definition is_PD (p : plain) : bool := match p with PD _ => true | _ => false end.

Definition upd_fold (d0 : plain) (rest : list plain) : res plain :=
  fold_left (fun acc d => do a <- acc; upd a d) rest (Ok d0).

Lemma merge2_plain e root d : Old root ->
  match upd (erase root) (d_data d) with
  | Ok r => exists n, merge2 e root (load_plain d) = Ok n /\ Old n /\ erase n = r
  | Err _ _ => exists q, merge2 e root (load_plain d) = Err EMerge q
  end.
Proof.
  intro H. unfold merge2, load_plain. rewrite premerge_plain. cbn [bind].
  pose proof (merge_plain (d_sf d) (d_isf d) (d_ds d) (d_src d)
                (nsize root + nsize (inject (d_sf d) (d_isf d) (d_ds d) (d_src d) None (d_data d)) + 1) [] root (d_data d) H) as HM.
  specialize (HM ltac:(lia)).
  destruct (upd (erase root) (d_data d)) as [r|e' q].
  - destruct HM as (n & w & E & Hn & En). rewrite E. cbn [bind fst]. eauto.
  - destruct HM as (q' & E). rewrite E. cbn [bind]. eauto.
Qed.

Lemma fold_merge2_err e l ek q : fold_left (fun acc st => do root <- acc; merge2 e root st) l (Err ek q) = Err ek q.
Proof. induction l; cbn; auto. Qed.

Lemma fold_upd_err l ek q : fold_left (fun acc d => do a <- acc; upd a d) l (Err ek q) = Err ek q.
Proof. induction l; cbn; auto. Qed.

Lemma fold_merge2_plain e : forall rest root, Old root ->
  match fold_left (fun acc d => do a <- acc; upd a d) (map d_data rest) (Ok (erase root)) with
  | Ok r => exists n, fold_left (fun acc st => do root <- acc; merge2 e root st) (map load_plain rest) (Ok root) = Ok n /\ erase n = r
  | Err _ _ => exists q, fold_left (fun acc st => do root <- acc; merge2 e root st) (map load_plain rest) (Ok root) = Err EMerge q
  end.
Proof.
  induction rest as [|d rest IH]; intros root H; cbn [map fold_left bind].
  - eauto.
  - pose proof (merge2_plain e root d H) as HM.
    destruct (upd (erase root) (d_data d)) as [r|e' q].
    + destruct HM as (n & E & Hn & En). rewrite E. subst r. apply IH; exact Hn.
    + destruct HM as (q' & E). rewrite E, fold_merge2_err, fold_upd_err. eauto.
Qed.

Theorem flatten_plain e d0 rest :
  forallb (fun d => is_PD (d_data d)) (d0 :: rest) = true ->
  match upd_fold (d_data d0) (map d_data rest) with
  | Ok r => exists n, flatten e (map load_plain (d0 :: rest)) = Ok n /\ erase n = r
  | Err _ _ => exists q, flatten e (map load_plain (d0 :: rest)) = Err EMerge q
  end.
Proof.
  intro Hd. unfold upd_fold. cbn [map].
  assert (E : forallb is_dictk (load_plain d0 :: map load_plain rest) = true).
  { clear - Hd. change (forallb is_dictk (map load_plain (d0 :: rest)) = true).
    induction (d0 :: rest) as [|d l IH]; cbn in *; [reflexivity|].
    apply andb_true_iff in Hd. destruct Hd as [H1 H2]. rewrite (IH H2), andb_true_r.
    unfold load_plain. destruct (d_data d); try discriminate. rewrite inject_PD. reflexivity. }
  assert (EF : flatten e (load_plain d0 :: map load_plain rest) =
               fold_left (fun acc st => do root <- acc; merge2 e root st) (map load_plain rest) (Ok (load_plain d0))).
  { unfold flatten. rewrite E. unfold load_plain at 1. rewrite premerge_plain. cbn [bind].
    rewrite require_all_new_old by apply inject_old. reflexivity. }
  fold (flatten e (load_plain d0 :: map load_plain rest)). rewrite EF.
  pose proof (fold_merge2_plain e rest (load_plain d0) (inject_old _ _ _ _ _ _)) as HF.
  unfold load_plain at 1 in HF. rewrite erase_inject in HF. exact HF.
Qed.

(* ---------- frame properties of the reference update ---------- *)
Lemma aget_aset_eq {V} k (v : V) l : aget k (aset k v l) = Some v.
Proof. induction l as [|[k' v'] r IH]; cbn; [now rewrite key_eqb_refl|]. destruct (key_eqb k k') eqn:E; cbn; [now rewrite key_eqb_refl|now rewrite E]. Qed.

Lemma aget_aset_neq {V} k k' (v : V) l : key_eqb k k' = false -> aget k (aset k' v l) = aget k l.
Proof.
  intro H. induction l as [|[k2 v2] r IH]; cbn; [now rewrite H|].
  destruct (key_eqb k' k2) eqn:E; cbn.
  - apply key_eqb_eq in E. subst k2. now rewrite H.
  - destruct (key_eqb k k2); auto.
Qed.

Lemma upd_dgo_untouched : forall kv acc r k, upd_dgo kv acc = Ok r -> aget k kv = None -> aget k r = aget k acc.
Proof.
  induction kv as [|[k' v] rest IH]; intros acc r k H Hk; cbn in *; [inversion H; reflexivity|].
  destruct (key_eqb k k') eqn:E; [discriminate|].
  destruct (aget k' acc) as [ov|].
  - destruct (upd ov v) as [m|]; cbn in H; [|discriminate].
    rewrite (IH _ _ _ H Hk). apply aget_aset_neq; exact E.
  - rewrite (IH _ _ _ H Hk). apply aget_aset_neq; exact E.
Qed.

Lemma upd_dgo_keeps : forall kv acc r k, upd_dgo kv acc = Ok r -> ahas k acc = true -> ahas k r = true.
Proof.
  induction kv as [|[k' v] rest IH]; intros acc r k H Hk; cbn in *; [inversion H; subst; exact Hk|].
  assert (Hset : forall m, ahas k (aset k' m acc) = true).
  { intro m. unfold ahas in *. destruct (key_eqb k k') eqn:E.
    - apply key_eqb_eq in E. subst k'. now rewrite aget_aset_eq.
    - now rewrite aget_aset_neq. }
  destruct (aget k' acc) as [ov|].
  - destruct (upd ov v) as [m|]; cbn in H; [|discriminate]. eapply IH; eauto.
  - eapply IH; eauto.
Qed.

Lemma upd_dgo_adds : forall kv acc r k, upd_dgo kv acc = Ok r -> ahas k kv = true -> ahas k r = true.
Proof.
  induction kv as [|[k' v] rest IH]; intros acc r k H Hk; [discriminate|].
  cbn [upd_dgo] in H. unfold ahas in Hk. cbn [aget] in Hk.
  destruct (key_eqb k k') eqn:E.
  - apply key_eqb_eq in E. subst k'.
    destruct (aget k acc) as [ov|].
    + destruct (upd ov v) as [m|]; cbn in H; [|discriminate].
      eapply upd_dgo_keeps; eauto. unfold ahas. now rewrite aget_aset_eq.
    + eapply upd_dgo_keeps; eauto. unfold ahas. now rewrite aget_aset_eq.
  - destruct (aget k' acc) as [ov|].
    + destruct (upd ov v) as [m|]; cbn in H; [|discriminate]. eapply IH; eauto.
    + eapply IH; eauto.
Qed.
