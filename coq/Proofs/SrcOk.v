(* Proofs/SrcOk.v — the definitions TRANSLATED from the Python source (Gen.Src.v, regenerated on every run by
   tools/translate_src.py) are the hand-written model functions the theorems are about. *)
From AY Require Import Model.Merge Proofs.FactsOk Gen.Src.

Lemma src_priority f : Src.priority f Facts.default_priority = priority f.
Proof. unfold Src.priority, priority, onone. destruct (f_prio f); reflexivity. Qed.

Lemma src_delete n : Src.delete (nflags n) (default_delete n) = delete n.
Proof. unfold Src.delete, delete. destruct (f_del (nflags n)); [reflexivity|]. destruct (f_idel (nflags n)); reflexivity. Qed.

Lemma src_allow_new f : Src.allow_new f Facts.default_allow_new = allow_new f.
Proof. unfold Src.allow_new, allow_new, onone. destruct (f_inew f); reflexivity. Qed.

Lemma src_explicit_delete n : onone (Src.explicit_delete (nflags n)) false = explicit_delete n.
Proof. reflexivity. Qed.

Lemma src_safe f : Src.safe f = safe f.
Proof. unfold Src.safe, safe, onone. now rewrite andb_assoc. Qed.

Lemma src_has_priority_over a b e :
  Src.has_priority_over (nflags a) (nflags b) e Facts.default_priority = has_priority_over a b e.
Proof. unfold Src.has_priority_over, has_priority_over. now rewrite !src_priority. Qed.

Lemma src_validate_index len k strict : Src.validate_index len k strict = validate_index len k strict.
Proof.
  unfold Src.validate_index, validate_index. destruct k as [z|s]; [|reflexivity].
  rewrite andb_comm. destruct (strict && ((Z.abs z >? len) || (z =? len)))%bool; reflexivity.
Qed.

Definition ckw_same (a : Src.ckw) (b : ckw) : Prop :=
  Src.ck_any a = ck_any b /\ Src.ck_idel a = ck_idel b /\ Src.ck_inew a = ck_inew b /\ Src.ck_isafe a = ck_isafe b.

(* every container kind except the stream node (which overrides _get_child_kwargs; its behaviour is the fact stream_pushes_flags) *)
Lemma src_child_kwargs k f x ch : k <> CStream ->
  ckw_same (Src.child_kwargs f (Facts.default_delete k)) (child_kwargs (Comp k f x ch)).
Proof.
  intro Hk. unfold ckw_same, Src.child_kwargs.
  assert (E : child_kwargs (Comp k f x ch) =
              mkCK true (match f_del f with Some b => Some b | None => if Facts.default_delete k then Some true else f_idel f end)
                        (match f_new f with Some b => Some b | None => f_inew f end)
                        (match f_safe f with Some b => Some b | None => f_isafe f end)).
  { destruct k; try reflexivity. congruence. }
  rewrite E. cbn. repeat split.
Qed.
