(* Proofs/SrcOk.v — the definitions TRANSLATED from the Python source (Gen.Src.v, regenerated on every run by
   tools/translate_src.py) are the hand-written model functions the theorems are about. *)
From AY Require Import Model.Merge Proofs.FactsOk Gen.Src.

Lemma src_priority f : Src.priority f Facts.default_priority = priority f.
Proof. unfold Src.priority, priority, onone. destruct (f_prio f); reflexivity. Qed.

Lemma src_delete n : Src.delete (nflags n) (default_delete n) = delete n.
Proof. unfold Src.delete, delete. destruct (f_del (nflags n)); [reflexivity|]. destruct (f_idel (nflags n)); reflexivity. Qed.

Lemma src_allow_new f : Src.allow_new f Facts.default_allow_new = allow_new f.
Proof. unfold Src.allow_new, allow_new, onone. destruct (f_inew f); reflexivity. Qed.

Lemma src_explicit_delete n : onone (Src.explicit_delete (nflags n)) false = explicit_delete n.
Proof. reflexivity. Qed.

Lemma src_safe f : Src.safe f = safe f.
Proof. unfold Src.safe, safe, onone. now rewrite andb_assoc. Qed.

Lemma src_has_priority_over a b e :
  Src.has_priority_over (nflags a) (nflags b) e Facts.default_priority = has_priority_over a b e.
Proof. unfold Src.has_priority_over, has_priority_over. now rewrite !src_priority. Qed.

Lemma src_validate_index len k strict : Src.validate_index len k strict = validate_index len k strict.
Proof.
  unfold Src.validate_index, validate_index. destruct k as [z|s]; [|reflexivity].
  rewrite andb_comm. destruct (strict && ((Z.abs z >? len) || (z =? len)))%bool; reflexivity.
Qed.

Definition ckw_same (a : Src.ckw) (b : ckw) : Prop :=
  Src.ck_any a = ck_any b /\ Src.ck_idel a = ck_idel b /\ Src.ck_inew a = ck_inew b /\ Src.ck_isafe a = ck_isafe b.

(* every container kind except the stream node (which overrides _get_child_kwargs; its behaviour is the fact stream_pushes_flags) *)
Lemma src_child_kwargs k f x ch : k <> CStream ->
  ckw_same (Src.child_kwargs f (Facts.default_delete k)) (child_kwargs (Comp k f x ch)).
Proof.
  intro Hk. unfold ckw_same, Src.child_kwargs.
  assert (E : child_kwargs (Comp k f x ch) =
              mkCK true (match f_del f with Some b => Some b | None => if Facts.default_delete k then Some true else f_idel f end)
                        (match f_new f with Some b => Some b | None => f_inew f end)
                        (match f_safe f with Some b => Some b | None => f_isafe f end)).
  { destruct k; try reflexivity. congruence. }
  rewrite E. cbn. repeat split.
Qed.

(* ---------- mutators: the flag part of _replace_other / _replace_self, the guards and the per-child step of
   _propagate_implicit_values, translated statement by statement (SSA over the fields) ---------- *)
Lemma src_ob_eqb a b : Src.ob_eqb a b = ob_eqb a b.
Proof. reflexivity. Qed.

Lemma src_mset k v l : Src.mset k v l = mset k v l.
Proof. induction l as [|[k' v'] r IH]; cbn; [reflexivity|]. destruct (k =? k'); [reflexivity|]. now rewrite IH. Qed.

Lemma src_mupd a b : Src.mupd a b = mupd a b.
Proof. unfold Src.mupd, mupd. revert a. induction b as [|kv r IH]; intro a; cbn; [reflexivity|]. now rewrite src_mset, IH. Qed.

Lemma src_replace_other_flags f g : Src.replace_other_flags f g = absorb f g.
Proof.
  unfold Src.replace_other_flags, absorb, set_meta, set_dsafe, set_safe, and_safe, onone. cbn. rewrite src_mupd.
  destruct (f_safe g), (f_dsafe g); reflexivity.
Qed.

Lemma src_replace_self_flags f g : Src.replace_self_flags f g = become f g.
Proof.
  unfold Src.replace_self_flags, become, set_meta, set_dsafe, set_safe, set_del, set_prio, and_safe, onone. cbn. rewrite src_mupd.
  destruct (f_safe g), (f_dsafe g); reflexivity.
Qed.

Lemma src_prop_stops f : Src.prop_stops f = prop_stops f.
Proof. unfold Src.prop_stops, prop_stops. destruct (f_idel f), (f_inew f), (f_isafe f), (f_del f), (f_new f), (f_safe f); reflexivity. Qed.

Lemma src_pc_flags f ddel c : Src.pc_flags f ddel c = pc_flags f (if ddel then Some true else f_idel f) c.
Proof.
  unfold Src.pc_flags, pc_flags. cbn zeta. change Src.ob_eqb with ob_eqb.
  set (idel := if ddel then Some true else f_idel f).
  destruct (f_del f) as [d|], (f_new f) as [n|], (f_safe f) as [s|]; cbn [negb];
    destruct (ob_eqb (f_idel c) idel); cbn [negb set_idel set_inew set_isafe f_idel f_inew f_isafe orb andb];
    destruct (ob_eqb (f_inew c) (f_inew f)); cbn [negb set_idel set_inew set_isafe f_idel f_inew f_isafe orb andb];
    destruct (ob_eqb (f_isafe c) (f_isafe f)); cbn [negb set_idel set_inew set_isafe f_idel f_inew f_isafe orb andb];
    destruct (ob_eqb (f_isafe c) (Some false)); cbn [negb set_idel set_inew set_isafe f_idel f_inew f_isafe orb andb fst snd];
    try reflexivity; destruct c; cbn; reflexivity.
Qed.
