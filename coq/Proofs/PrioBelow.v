(* Proofs/PrioBelow.v — a priority tag on a container applies to everything below it (C03): in the tree the loader builds,
   every node below a node that carries (or inherited) a priority has exactly that priority, whatever tags are written below. *)
From AY Require Import Model.Loader Proofs.NodeInd Proofs.FlagsLemmas Proofs.LoaderLemmas.

Lemma load_prio_inherited : forall y c p kw pre q m,
  In (q, m) (nwp pre (load c (Some p) kw y)) -> f_prio (nflags m) = Some p.
Proof.
  induction y as [t v|t l IH|t l IH] using ynode_ind'; intros c p kw pre q m Hin.
  - cbn in Hin. destruct Hin as [E|[]]. inversion E; subst. reflexivity.
  - rewrite load_YM, nwp_comp in Hin. destruct Hin as [E|Hin]; [inversion E; subst; reflexivity|].
    apply in_flat_map in Hin. destruct Hin as ([k c0] & Hk & Hin). cbn [fst snd] in Hin.
    apply in_map_iff in Hk. destruct Hk as ([k' x] & E & Hx). cbn [fst snd] in E. inversion E; subst.
    rewrite Forall_forall in IH. exact (IH (k, x) Hx _ _ _ _ _ _ Hin).
  - rewrite load_YQ, nwp_comp in Hin. destruct Hin as [E|Hin]; [inversion E; subst; reflexivity|].
    apply in_flat_map in Hin. destruct Hin as ([k c0] & Hk & Hin). cbn [fst snd] in Hin.
    cbn [inh_prio] in Hk.
    assert (G : forall l0 i, Forall (fun y0 => forall c p kw pre q m, In (q, m) (nwp pre (load c (Some p) kw y0)) -> f_prio (nflags m) = Some p) l0 ->
                In (k, c0) (load_list c (Some p) (child_kwargs (Comp CList (own_flags c (Some p) kw t) SNone [])) i l0) ->
                exists y0, In y0 l0 /\ c0 = load c (Some p) (child_kwargs (Comp CList (own_flags c (Some p) kw t) SNone [])) y0).
    { induction l0 as [|y0 r IHr]; intros i HF Hi; cbn in Hi; [contradiction|]. destruct Hi as [E|Hi].
      - inversion E; subst. exists y0. split; [now left|reflexivity].
      - inversion HF; subst. destruct (IHr (i + 1) H2 Hi) as (y1 & Hy1 & E1). exists y1. split; [now right|exact E1]. }
    destruct (G l 0 IH Hk) as (y0 & Hy0 & ->).
    rewrite Forall_forall in IH. exact (IH y0 Hy0 _ _ _ _ _ _ Hin).
Qed.

(* the statement: a container whose effective tag priority is p (its own tag, or one inherited from above) - every node of the
   subtree the loader builds for it, at any depth and whatever priority tags are written on the nodes below, has priority p *)
Theorem container_priority_applies_below : forall y c inh kw p pre q m,
  (match y with YS t _ | YM t _ | YQ t _ => inh_prio inh t end) = Some p ->
  In (q, m) (nwp pre (load c inh kw y)) -> priority (nflags m) = p.
Proof.
  intros y c inh kw p pre q m Hp Hin. unfold priority.
  assert (E : f_prio (nflags m) = Some p); [|now rewrite E].
  destruct y as [t v|t l|t l].
  - cbn in Hin. destruct Hin as [E|[]]. inversion E; subst. exact Hp.
  - rewrite load_YM, nwp_comp in Hin. destruct Hin as [E|Hin]; [inversion E; subst; exact Hp|].
    apply in_flat_map in Hin. destruct Hin as ([k c0] & Hk & Hin). cbn [fst snd] in Hin.
    apply in_map_iff in Hk. destruct Hk as ([k' x] & E & Hx). cbn [fst snd] in E. inversion E; subst.
    rewrite Hp in Hin. exact (load_prio_inherited _ _ _ _ _ _ _ Hin).
  - rewrite load_YQ, nwp_comp in Hin. destruct Hin as [E|Hin]; [inversion E; subst; exact Hp|].
    apply in_flat_map in Hin. destruct Hin as ([k c0] & Hk & Hin). cbn [fst snd] in Hin. rewrite Hp in Hk.
    assert (G : forall l0 i kw0, In (k, c0) (load_list c (Some p) kw0 i l0) -> exists y0, c0 = load c (Some p) kw0 y0).
    { induction l0 as [|y0 r IHr]; intros i kw0 Hi; cbn in Hi; [contradiction|]. destruct Hi as [E|Hi]; [inversion E; subst; eauto|eauto]. }
    destruct (G l 0 _ Hk) as (y0 & ->). exact (load_prio_inherited _ _ _ _ _ _ _ Hin).
Qed.
