(* Proofs/StreamLemmas.v — splicing / expanding stream nodes and the include lookup. *)
From AY Require Import Model.Stream Proofs.NodeInd Proofs.FlagsLemmas Proofs.FactsOk.
From Coq Require Import Lia.
Local Open Scope nat_scope.

(* ---------- map_res ---------- *)
Lemma map_res_ok_id {A} (f : A -> res A) l : Forall (fun a => f a = Ok a) l -> map_res f l = Ok l.
Proof.
  induction 1 as [|a r Ha _ IH]; cbn; [reflexivity|]. now rewrite Ha, IH.
Qed.

Lemma map_res_ok_map {A B} (f : A -> res B) (g : A -> B) l : Forall (fun a => f a = Ok (g a)) l -> map_res f l = Ok (map g l).
Proof.
  induction 1 as [|a r Ha _ IH]; cbn; [reflexivity|]. now rewrite Ha, IH.
Qed.

Lemma map_res_app {A B} (f : A -> res B) a b :
  map_res f (a ++ b) = do x <- map_res f a; do y <- map_res f b; Ok (x ++ y).
Proof.
  induction a as [|h t IH]; cbn.
  - destruct (map_res f b); reflexivity.
  - destruct (f h) as [hb|]; cbn; [|reflexivity]. rewrite IH.
    destruct (map_res f t) as [tb|]; cbn; [|reflexivity].
    destruct (map_res f b); reflexivity.
Qed.

(* ---------- depth ---------- *)
Definition maxdepth (ch : list (key * node)) : nat := fold_right (fun kc m => Nat.max (depth (snd kc)) m) O ch.

Lemma depth_comp k f x ch : depth (Comp k f x ch) = S (maxdepth ch).
Proof.
  cbn [depth]. f_equal. induction ch as [|[kk c] r IH]; cbn; [reflexivity|]. now rewrite IH.
Qed.

Lemma maxdepth_in ch kc : In kc ch -> depth (snd kc) <= maxdepth ch.
Proof.
  unfold maxdepth. induction ch as [|h t IH]; cbn [fold_right In]; [intros []|]. intros [->|H]; [lia|]. specialize (IH H). lia.
Qed.

Lemma maxdepth_app a b : maxdepth (a ++ b) = Nat.max (maxdepth a) (maxdepth b).
Proof. unfold maxdepth. induction a as [|h t IH]; cbn [fold_right app]; [reflexivity|]. rewrite IH. lia. Qed.

(* ---------- expansion is the identity on stream-free trees ---------- *)
Lemma no_stream_comp k f x ch :
  no_stream (Comp k f x ch) = negb (is_stream (Comp k f x ch)) && forallb (fun kc => no_stream (snd kc)) ch.
Proof. reflexivity. Qed.

Lemma no_stream_not_stream n : no_stream n = true -> is_stream n = false.
Proof.
  destruct n as [|k f x ch]; [reflexivity|]. rewrite no_stream_comp. intros H.
  apply andb_prop in H as [H _]. now apply negb_true_iff in H.
Qed.

Definition expand_child (fu : nat) (e : penv) (k : ckind) (f : flags) (x : scalar) (kc : key * node) : res (key * node) :=
  match snd kc with
  | Comp CStream _ _ sub =>
    do subs <- map_res (fun s => expand fu e (snd s)) sub;
    do r <- as_premerge (flatten e subs);
    Ok (fst kc, adopt (child_kwargs (Comp k f x [])) r)
  | c => do c' <- expand fu e c; Ok (fst kc, c')
  end.

Lemma expand_S fu e k f x ch :
  expand (S fu) e (Comp k f x ch) = do ch' <- map_res (expand_child fu e k f x) ch; Ok (Comp k f x ch').
Proof. reflexivity. Qed.

Lemma expand_child_plain fu e k f x kk c :
  is_stream c = false -> expand_child fu e k f x (kk, c) = do c' <- expand fu e c; Ok (kk, c').
Proof.
  unfold expand_child; cbn [snd fst]. destruct c as [|ck cf cx cch]; [reflexivity|]. destruct ck; cbn; try reflexivity. discriminate.
Qed.

Lemma expand_no_stream e : forall n, no_stream n = true -> forall fuel, depth n <= fuel -> expand fuel e n = Ok n.
Proof.
  induction n as [lk f v|k f x ch IH] using node_ind'; intros Hn fuel Hd.
  - destruct fuel; [cbn in Hd; lia|reflexivity].
  - rewrite depth_comp in Hd. destruct fuel as [|fu]; [lia|]. rewrite expand_S.
    rewrite no_stream_comp in Hn. apply andb_prop in Hn as [_ Hch]. rewrite forallb_forall in Hch.
    rewrite map_res_ok_id; [reflexivity|].
    rewrite Forall_forall in IH |- *. intros [kk c] Hin.
    rewrite expand_child_plain by (apply no_stream_not_stream; exact (Hch _ Hin)).
    pose proof (maxdepth_in ch _ Hin) as Hm. specialize (IH _ Hin). specialize (Hch _ Hin). cbn [snd] in *.
    rewrite (IH Hch fu) by lia. reflexivity.
Qed.

(* ---------- splice ---------- *)
Lemma splice_app a b : splice (a ++ b) = splice a ++ splice b.
Proof. unfold splice. apply flat_map_app. Qed.

Lemma splice_not_stream l : Forall (fun d => is_stream d = false) l -> splice l = l.
Proof.
  induction 1 as [|d r Hd _ IH]; [reflexivity|]. unfold splice in *. cbn [flat_map]. rewrite IH.
  destruct d as [|k f x ch]; [reflexivity|]. destruct k; try reflexivity. discriminate.
Qed.

Lemma map_snd_index_from docs : forall i, map snd (index_from i docs) = docs.
Proof. induction docs as [|d r IH]; intros i; cbn; [reflexivity|]. now rewrite IH. Qed.

Lemma splice_stream_of f x docs : splice [stream_of f x docs] = docs.
Proof. unfold splice, stream_of. cbn [flat_map]. rewrite app_nil_r. apply map_snd_index_from. Qed.

(* a sequence of segments: a plain document, or a group of documents delivered as one top-level stream *)
Inductive segment := SDoc (d : node) | SGroup (f : flags) (x : scalar) (docs : list node).
Definition seg_stage (s : segment) : node := match s with SDoc d => d | SGroup f x docs => stream_of f x docs end.
Definition seg_docs (s : segment) : list node := match s with SDoc d => [d] | SGroup _ _ docs => docs end.

Lemma splice_segments segs :
  Forall (fun d => is_stream d = false) (flat_map seg_docs segs) ->
  splice (map seg_stage segs) = flat_map seg_docs segs.
Proof.
  induction segs as [|s r IH]; [reflexivity|]. cbn [map flat_map]. intros H.
  apply Forall_app in H as [Hs Hr]. change (seg_stage s :: map seg_stage r) with ([seg_stage s] ++ map seg_stage r).
  rewrite splice_app, (IH Hr). f_equal.
  destruct s as [d|f x docs]; cbn [seg_stage seg_docs] in *.
  - now apply splice_not_stream.
  - apply splice_stream_of.
Qed.

Lemma build_stream_splice e a b : splice a = splice b -> build_stream e a = build_stream e b.
Proof. unfold build_stream. now intros ->. Qed.

Lemma build_stream_segments e segs :
  Forall (fun d => is_stream d = false) (flat_map seg_docs segs) ->
  build_stream e (map seg_stage segs) = build_stream e (flat_map seg_docs segs).
Proof.
  intros H. apply build_stream_splice. rewrite (splice_segments _ H). symmetry. now apply splice_not_stream.
Qed.

Lemma build_stream_no_stream e stages :
  Forall (fun d => no_stream d = true) stages -> build_stream e stages = flatten e stages.
Proof.
  intros H. unfold build_stream. rewrite splice_not_stream.
  - rewrite map_res_ok_id; [reflexivity|]. eapply Forall_impl; [|exact H]. intros d Hd. cbn beta. apply expand_no_stream; [exact Hd|lia].
  - eapply Forall_impl; [|exact H]. intros d. apply no_stream_not_stream.
Qed.

(* ---------- a nested include ---------- *)
Lemma expand_children_plain e k f x fu ch :
  Forall (fun kc => no_stream (snd kc) = true) ch -> maxdepth ch <= fu ->
  map_res (expand_child fu e k f x) ch = Ok ch.
Proof.
  intros H Hd. apply map_res_ok_id. rewrite Forall_forall in H |- *. intros [kk c] Hin.
  rewrite expand_child_plain by (apply no_stream_not_stream; exact (H _ Hin)).
  rewrite expand_no_stream; [reflexivity|exact (H _ Hin)|]. pose proof (maxdepth_in ch _ Hin). cbn [snd] in *. lia.
Qed.

Lemma maxdepth_index_from docs : forall i, maxdepth (index_from i docs) = fold_right (fun d m => Nat.max (depth d) m) O docs.
Proof. induction docs as [|d r IH]; intros i; cbn; [reflexivity|]. now rewrite IH. Qed.

Lemma expand_nested e k f x ky sf sx docs pre post fuel :
  Forall (fun kc => no_stream (snd kc) = true) pre ->
  Forall (fun kc => no_stream (snd kc) = true) post ->
  Forall (fun d => no_stream d = true) docs ->
  depth (Comp k f x (pre ++ (ky, stream_of sf sx docs) :: post)) <= fuel ->
  expand fuel e (Comp k f x (pre ++ (ky, stream_of sf sx docs) :: post)) =
  do r <- as_premerge (flatten e docs);
  Ok (Comp k f x (pre ++ (ky, adopt (child_kwargs (Comp k f x [])) r) :: post)).
Proof.
  intros Hpre Hpost Hdocs Hd. rewrite depth_comp, maxdepth_app in Hd. cbn [maxdepth fold_right snd] in Hd.
  unfold stream_of in Hd. rewrite depth_comp in Hd. fold (maxdepth post) in Hd.
  destruct fuel as [|fu]; [lia|]. rewrite expand_S, map_res_app.
  rewrite (expand_children_plain e k f x fu pre Hpre) by lia. cbn [bind map_res].
  unfold expand_child at 1. cbn [snd fst stream_of].
  assert (Hsub : map_res (fun s : key * node => expand fu e (snd s)) (index_from 0 docs) = Ok docs).
  { rewrite (map_res_ok_map _ snd).
    - now rewrite map_snd_index_from.
    - rewrite Forall_forall. intros [kk c] Hin. cbn [snd].
      assert (Hc : In c docs) by (rewrite <- (map_snd_index_from docs 0); now apply (in_map snd _ (kk, c))).
      rewrite Forall_forall in Hdocs. apply expand_no_stream; [now apply Hdocs|].
      pose proof (maxdepth_in _ _ Hin). cbn [snd] in *. lia. }
  rewrite Hsub. cbn [bind]. destruct (flatten e docs) as [r|ee pp]; cbn [bind as_premerge]; [|reflexivity].
  fold (maxdepth post) in *.
  rewrite (expand_children_plain e k f x fu post Hpost) by lia. reflexivity.
Qed.

(* ---------- lookup ---------- *)
Section LookupLemmas.
  Variable dir : Type.
  Variable ex : dir -> Z -> bool.

  Lemma find_file_first dirs n d :
    find_file dir ex dirs n = Some d ->
    exists pre post, dirs = pre ++ d :: post /\ ex d n = true /\ Forall (fun d' => ex d' n = false) pre.
  Proof.
    unfold find_file. induction dirs as [|h t IH]; cbn; [discriminate|].
    destruct (ex h n) eqn:E.
    - intros [= <-]. exists [], t. repeat split; [exact E|constructor].
    - intros H. destruct (IH H) as (pre & post & -> & Hd & Hp). exists (h :: pre), post. repeat split; [exact Hd|now constructor].
  Qed.

  Lemma find_file_none dirs n : find_file dir ex dirs n = None <-> Forall (fun d => ex d n = false) dirs.
  Proof.
    unfold find_file. induction dirs as [|h t IH]; cbn; [split; [constructor|reflexivity]|].
    destruct (ex h n) eqn:E.
    - split; [discriminate|]. intros H. inversion H; congruence.
    - rewrite IH. split; [now constructor|]. intros H. now inversion H.
  Qed.

  Definition nowhere (dirs : list dir) (n : Z) : bool := negb (existsb (fun d => ex d n) dirs).

  Lemma find_file_nowhere dirs n : find_file dir ex dirs n = None <-> nowhere dirs n = true.
  Proof.
    rewrite find_file_none. unfold nowhere. rewrite negb_true_iff. induction dirs as [|h t IH]; cbn.
    - split; [reflexivity|constructor].
    - split.
      + intros H. inversion H as [|? ? Hh Ht]; subst. rewrite Hh. cbn. now apply IH.
      + intros H. apply orb_false_iff in H as [Hh Ht]. constructor; [exact Hh|now apply IH].
  Qed.

  Lemma include_lookup_spec dirs names :
    snd (include_lookup dir ex dirs names) = filter (nowhere dirs) names /\
    Forall (fun dn => find_file dir ex dirs (snd dn) = Some (fst dn)) (fst (include_lookup dir ex dirs names)) /\
    map snd (fst (include_lookup dir ex dirs names)) = filter (fun n => negb (nowhere dirs n)) names.
  Proof.
    induction names as [|n r (IH1 & IH2 & IH3)]; cbn [include_lookup filter]; [repeat split; constructor|].
    destruct (include_lookup dir ex dirs r) as [found missing]. cbn [fst snd] in *.
    destruct (find_file dir ex dirs n) as [d|] eqn:E.
    - assert (Hn : nowhere dirs n = false).
      { destruct (nowhere dirs n) eqn:N; [|reflexivity]. apply find_file_nowhere in N. congruence. }
      rewrite Hn. cbn [negb fst snd map]. repeat split; [exact IH1| |now rewrite IH3]. constructor; [exact E|exact IH2].
    - apply find_file_nowhere in E. rewrite E. cbn [negb fst snd]. repeat split; [now rewrite IH1|exact IH2|exact IH3].
  Qed.

  Lemma include_files_missing dirs names m :
    include_files dir ex dirs names = inr m <-> m = filter (nowhere dirs) names /\ m <> [].
  Proof.
    unfold include_files. pose proof (include_lookup_spec dirs names) as (H1 & _ & _).
    destruct (include_lookup dir ex dirs names) as [found missing]. cbn [snd] in H1. subst missing.
    destruct (filter (nowhere dirs) names) as [|a l] eqn:E.
    - split; [discriminate|]. intros [-> H]. congruence.
    - split; [intros [= <-]; split; [reflexivity|discriminate]|]. intros [-> _]. reflexivity.
  Qed.

  Lemma include_files_found dirs names found :
    include_files dir ex dirs names = inl found ->
    map snd found = names /\ Forall (fun dn => find_file dir ex dirs (snd dn) = Some (fst dn)) found.
  Proof.
    unfold include_files. pose proof (include_lookup_spec dirs names) as (H1 & H2 & H3).
    destruct (include_lookup dir ex dirs names) as [fnd missing]. cbn [fst snd] in *.
    destruct missing as [|a l]; [|discriminate]. intros [= <-]. split; [|exact H2].
    rewrite H3. clear H2 H3. induction names as [|n r IH]; [reflexivity|]. cbn [filter] in *.
    destruct (nowhere dirs n); [discriminate|]. cbn [negb]. f_equal. now apply IH.
  Qed.

  Lemma lookup_order inc cwd n :
    find_file dir ex (lookup_dirs dir (Some inc) cwd) n =
    if ex inc n then Some inc else if ex cwd n then Some cwd else None.
  Proof.
    unfold lookup_dirs. rewrite lookup_ref_dir_first_ok. unfold find_file. cbn [find].
    destruct (ex inc n); [reflexivity|]. destruct (ex cwd n); reflexivity.
  Qed.
End LookupLemmas.
