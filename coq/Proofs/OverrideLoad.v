(* Proofs/OverrideLoad.v — the document Config.process_cmdline writes for  key=value , once loaded, is such a chain. *)
From AY Require Import Model.Loader Proofs.Override Proofs.LoaderLemmas Proofs.MergePlain Proofs.FactsOk.

Fixpoint ychain (ks : list key) (v : scalar) : ynode :=
  match ks with [] => YS T0 v | k :: r => YM T0 [(k, ychain r v)] end.

(* !notnew { k1: { k2: ... value } } *)
Definition notnew_tag : tagkw := mkT None None (Some false) None [].
Definition override_doc (k : key) (ks : list key) (v : scalar) : ynode := YM notnew_tag [(k, ychain ks v)].

Lemma child_kw_dict f :
  f_del f = None -> f_idel f = None ->
  ck_any (child_kwargs (Comp CDict f SNone [])) = true /\
  ck_idel (child_kwargs (Comp CDict f SNone [])) = None /\
  ck_inew (child_kwargs (Comp CDict f SNone [])) = match f_new f with Some b => Some b | None => f_inew f end.
Proof.
  intros Hd Hi. cbn [child_kwargs nflags ck_any ck_idel ck_inew]. rewrite Hd, Hi. cbn [default_delete].
  rewrite dict_default_delete. repeat split.
Qed.

Lemma chain_inner : forall ks v c kw,
  ck_any kw = true -> ck_idel kw = None -> ck_inew kw = Some false ->
  ChainN ks v (load c None kw (ychain ks v)) /\ allow_new (nflags (load c None kw (ychain ks v))) = false.
Proof.
  induction ks as [|k r IH]; intros v c kw Ha Hi Hn.
  - cbn [ychain load]. split.
    + constructor; [reflexivity|reflexivity|]. unfold own_flags. cbn [f_idel]. now rewrite Ha, Hi.
    + cbn [nflags]. unfold allow_new, own_flags. cbn [f_inew]. now rewrite Ha, Hn.
  - cbn [ychain]. rewrite load_YM. cbn [map fst snd].
    set (f := own_flags c None kw T0).
    assert (Hfd : f_del f = None) by reflexivity.
    assert (Hfi : f_idel f = None) by (unfold f, own_flags; cbn [f_idel]; now rewrite Ha, Hi).
    assert (Hfn : f_new f = None) by reflexivity.
    assert (Hfin : f_inew f = Some false) by (unfold f, own_flags; cbn [f_inew]; now rewrite Ha, Hn).
    destruct (child_kw_dict f Hfd Hfi) as (Ka & Ki & Kn). rewrite Hfn, Hfin in Kn.
    destruct (IH v c _ Ka Ki Kn) as (Hc & Hal).
    split.
    + constructor; [repeat split; auto|exact Hal|exact Hc].
    + cbn [nflags]. unfold allow_new. now rewrite Hfin.
Qed.

Theorem override_doc_chain c k ks v : ChainN (k :: ks) v (load_doc c (override_doc k ks v)).
Proof.
  unfold load_doc, override_doc. rewrite load_YM. cbn [map fst snd].
  set (f := own_flags c None no_kw notnew_tag).
  assert (Hfd : f_del f = None) by reflexivity.
  assert (Hfi : f_idel f = None) by reflexivity.
  destruct (child_kw_dict f Hfd Hfi) as (Ka & Ki & Kn). change (f_new f) with (Some false) in Kn.
  destruct (chain_inner ks v c _ Ka Ki Kn) as (Hc & Hal).
  constructor; [repeat split; auto|exact Hal|exact Hc].
Qed.

(* end to end on the model: the command-line override, loaded, merged into a plain base *)
Theorem cmdline_override_sets_exactly c k ks v fuel p s :
  Old s -> (S (length ks) < fuel)%nat -> dpath s (k :: ks) = true ->
  exists n w, on_merge [] fuel p s (load_doc c (override_doc k ks v)) = Ok (n, w) /\ erase n = pset (erase s) (k :: ks) (PS v).
Proof.
  intros Hs Hf Hp. apply override_sets_path; auto. apply ChainN_Chain, override_doc_chain.
Qed.

Theorem cmdline_override_mistyped c k ks v fuel p s :
  Old s -> (S (length ks) < fuel)%nat -> misses s (k :: ks) = true ->
  exists q, on_merge [] fuel p s (load_doc c (override_doc k ks v)) = Err EMerge q.
Proof.
  intros Hs Hf Hm. apply (override_missing_key (k :: ks) v _ (override_doc_chain c k ks v) fuel p s Hs); [cbn [length]; exact Hf|exact Hm].
Qed.
