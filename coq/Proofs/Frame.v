(* Proofs/Frame.v — C05's frame clause for the GENERAL merge (all tags): a key of the older mapping that the newer mapping does not mention,
   and that is not below a deleting node of it, comes out unchanged (Sim: same kinds, content, keys, order and explicit flags; the implicit
   flags are re-derived when the parent's flags change).  One level, then along any path of mappings. *)
From AY Require Import Model.Merge Proofs.NodeInd Proofs.FlagsLemmas Proofs.MergePlain Proofs.Local.

Lemma aget_adel_neq {V} k k' (l : list (key * V)) : key_eqb k k' = false -> aget k (adel k' l) = aget k l.
Proof.
  intro H. induction l as [|[k2 v2] r IH]; cbn; [reflexivity|].
  destruct (key_eqb k' k2) eqn:E; cbn.
  - apply key_eqb_eq in E. subst k2. now rewrite H.
  - destruct (key_eqb k k2); auto.
Qed.

Section FrameRules.
  Variable rec : path -> node -> node -> res (node * who).
  Variable als : list path.

  (* whatever one iteration of the loop does, it does it to the key it is about *)
  Lemma step_shape p cur k' v cur' : merge_step rec als p (Ok cur) (k', v) = Ok cur' ->
    (exists n, set_child cur k' n = Some cur') \/ (exists n, cur' = put_child cur k' n) \/ remove_child cur k' = Some cur'.
  Proof.
    unfold merge_step. cbn [bind]. destruct (get_child cur k') as [c0|].
    - destruct (rec (p ++ [k']) (if (if path_in (p ++ [k']) als then same_obj c0 v else false) then v else c0) v) as [[n w0]|e q]; cbn [bind]; [|discriminate].
      repeat (match goal with
              | |- context [match ?x with _ => _ end] => destruct x eqn:?
              end); intro H; try discriminate; inversion H; subst; eauto.
    - repeat (match goal with
              | |- context [match ?x with _ => _ end] => destruct x eqn:?
              end); intro H; try discriminate; inversion H; subst; eauto.
  Qed.

  Lemma step_frame p f x ch k k' v cur' : merge_step rec als p (Ok (Comp CDict f x ch)) (k', v) = Ok cur' -> key_eqb k k' = false ->
    exists ch', cur' = Comp CDict f x ch' /\ aget k ch' = aget k ch.
  Proof.
    intros H E. destruct (step_shape _ _ _ _ _ H) as [(n & Hs)|[(n & Hs)|Hs]].
    - cbn in Hs. inversion Hs; subst. eexists. split; [reflexivity|]. now apply aget_aset_neq.
    - cbn in Hs. subst. eexists. split; [reflexivity|]. now apply aget_aset_neq.
    - cbn in Hs. destruct (ahas k' ch); [|discriminate]. inversion Hs; subst. eexists. split; [reflexivity|]. now apply aget_adel_neq.
  Qed.

  Lemma steps_frame p k : forall cho f x ch s2, fold_left (merge_step rec als p) cho (Ok (Comp CDict f x ch)) = Ok s2 -> aget k cho = None ->
    exists ch2, s2 = Comp CDict f x ch2 /\ aget k ch2 = aget k ch.
  Proof.
    induction cho as [|[k' v] rest IH]; intros f x ch s2 H Hk.
    - cbn in H. inversion H; subst. eauto.
    - cbn [aget] in Hk. destruct (key_eqb k k') eqn:E; [discriminate|]. cbn [fold_left] in H.
      destruct (merge_step rec als p (Ok (Comp CDict f x ch)) (k', v)) as [cur'|e q] eqn:Es; [|rewrite fold_merge_step_err in H; discriminate].
      destruct (step_frame _ _ _ _ _ _ _ _ Es E) as (ch' & -> & E').
      destruct (IH _ _ _ _ H Hk) as (ch2 & -> & E2). exists ch2. split; [reflexivity|congruence].
  Qed.

  (* the closing step of the rule (flags taken over or absorbed, implicit flags re-derived) keeps every child up to Sim *)
  Lemma finish_dict fs xs ch2 fo xo cho r pr k c :
    (if has_priority_over (Comp CDict fo xo cho) (Comp CDict fs xs ch2) true
     then replace_self (Comp CDict fs xs ch2) (Comp CDict fo xo cho) true
     else replace_other (Comp CDict fs xs ch2) (Comp CDict fo xo cho) true) = (r, pr) ->
    aget k ch2 = Some c -> exists f' ch' c', r = Comp CDict f' xs ch' /\ aget k ch' = Some c' /\ Sim c c'.
  Proof.
    intros H E2. destruct (has_priority_over (Comp CDict fo xo cho) (Comp CDict fs xs ch2) true).
    - unfold replace_self in H. cbn [with_flags nflags maybe_promote ckind_eqb fst snd] in H. unfold propagate in H. cbn [nflags] in H.
      rewrite prop_as_comp in H. destruct (prop_stops (become fs fo)).
      + inversion H; subst. do 3 eexists. split; [reflexivity|]. split; [exact E2|apply Sim_refl].
      + inversion H; subst. do 3 eexists. split; [reflexivity|]. rewrite aget_map, E2. cbn [option_map]. split; [reflexivity|].
        unfold prop_child.
        assert (Hg : same_explicit (nflags c) (fst (pc_flags (become fs fo) (if Facts.default_delete CDict then Some true else f_idel (become fs fo)) (nflags c)))).
        { unfold pc_flags. cbv zeta. cbn [fst]. se_solve. }
        destruct (snd (pc_flags _ _ _)); [apply prop_as_sim; exact Hg|apply Sim_with_flags; exact Hg].
    - unfold replace_other in H. cbn [with_flags nflags maybe_promote ckind_eqb fst snd] in H. inversion H; subst.
      do 3 eexists. split; [reflexivity|]. split; [exact E2|apply Sim_refl].
  Qed.

  (* the whole rule for two mappings, the newer one not deleting: a key the newer mapping does not mention *)
  Lemma comp_merge_frame p fs xs chs fo xo cho r w k c :
    delete (Comp CDict fo xo cho) = false ->
    comp_merge rec als p (Comp CDict fs xs chs) (Comp CDict fo xo cho) = Ok (r, w) ->
    aget k chs = Some c -> aget k cho = None ->
    exists f' ch' c', r = Comp CDict f' xs ch' /\ aget k ch' = Some c' /\ Sim c c'.
  Proof.
    intros Hd H Hc Hk. unfold comp_merge, prune in H. rewrite Hd in H.
    destruct (fold_left (merge_step rec als p) cho (Ok (Comp CDict fs xs chs))) as [s2|e q] eqn:Ef; cbn [bind] in H; [|discriminate].
    destruct (steps_frame _ _ _ _ _ _ _ Ef Hk) as (ch2 & -> & E2). rewrite Hc in E2.
    destruct (if has_priority_over (Comp CDict fo xo cho) (Comp CDict fs xs ch2) true then _ else _) as [r0 pr] eqn:Efin.
    inversion H; subst r0. exact (finish_dict _ _ _ _ _ _ _ _ _ _ Efin E2).
  Qed.
End FrameRules.

(* ---------- without aliases (no !clear in the stage): a key the newer mapping DOES mention holds the recursive merge ---------- *)
Section HitRules.
  Variable rec : path -> node -> node -> res (node * who).

  Lemma step_hit p f x ch k v c0 cur' : merge_step rec [] p (Ok (Comp CDict f x ch)) (k, v) = Ok cur' ->
    aget k ch = Some c0 -> is_comp c0 = true -> explicit_delete v = false ->
    exists n w0 ch' c', rec (p ++ [k]) c0 v = Ok (n, w0) /\ cur' = Comp CDict f x ch' /\ aget k ch' = Some c' /\ Sim n c'.
  Proof.
    intros H Hc Hcomp Hed. unfold merge_step in H. cbn [bind get_child is_listk path_in existsb] in H. rewrite Hc in H.
    destruct (rec (p ++ [k]) c0 v) as [[n w0]|e q]; cbn [bind] in H; [|discriminate].
    rewrite Hcomp, Hed, Bool.andb_false_r in H. exists n, w0.
    destruct w0.
    - inversion H; subst. cbn [put_child is_listk]. do 2 eexists. split; [reflexivity|]. split; [reflexivity|]. split; [apply aget_aset_eq|apply Sim_refl].
    - cbn [set_child is_listk] in H. inversion H; subst. do 2 eexists. split; [reflexivity|]. split; [reflexivity|]. split; [apply aget_aset_eq|apply adopt_sim].
  Qed.

  Lemma steps_hit p k v c0 : forall cho f x ch s2, NoDup (map fst cho) -> aget k cho = Some v ->
    fold_left (merge_step rec [] p) cho (Ok (Comp CDict f x ch)) = Ok s2 ->
    aget k ch = Some c0 -> is_comp c0 = true -> explicit_delete v = false ->
    exists n w0 ch2 c', rec (p ++ [k]) c0 v = Ok (n, w0) /\ s2 = Comp CDict f x ch2 /\ aget k ch2 = Some c' /\ Sim n c'.
  Proof.
    induction cho as [|[k' v'] rest IH]; intros f x ch s2 Hnd Hk H Hc Hcomp Hed; [discriminate|].
    cbn [map fst] in Hnd. inversion Hnd as [|? ? Hni Hnd']; subst. cbn [fold_left] in H. cbn [aget] in Hk.
    destruct (merge_step rec [] p (Ok (Comp CDict f x ch)) (k', v')) as [cur'|e q] eqn:Es; [|rewrite fold_merge_step_err in H; discriminate].
    destruct (key_eqb k k') eqn:E.
    - apply key_eqb_eq in E. subst k'. inversion Hk; subst v'.
      destruct (step_hit _ _ _ _ _ _ _ _ Es Hc Hcomp Hed) as (n & w0 & ch' & c' & Er & -> & Ec & HS).
      assert (Hrest : aget k rest = None).
      { clear -Hni. induction rest as [|[k2 v2] r IHr]; cbn; [reflexivity|]. destruct (key_eqb k k2) eqn:E2.
        - apply key_eqb_eq in E2. subst. exfalso. apply Hni. now left.
        - apply IHr. intro. apply Hni. now right. }
      destruct (steps_frame rec [] p k _ _ _ _ _ H Hrest) as (ch2 & -> & E2).
      exists n, w0, ch2, c'. repeat split; auto. congruence.
    - destruct (step_frame rec [] _ _ _ _ _ _ _ _ Es E) as (ch' & -> & E').
      rewrite <- E' in Hc. exact (IH _ _ _ _ Hnd' Hk H Hc Hcomp Hed).
  Qed.

  Lemma comp_merge_hit p fs xs chs fo xo cho r w k v c0 :
    delete (Comp CDict fo xo cho) = false -> NoDup (map fst cho) ->
    comp_merge rec [] p (Comp CDict fs xs chs) (Comp CDict fo xo cho) = Ok (r, w) ->
    aget k chs = Some c0 -> aget k cho = Some v -> is_comp c0 = true -> explicit_delete v = false ->
    exists n w0 f' ch' c', rec (p ++ [k]) c0 v = Ok (n, w0) /\ r = Comp CDict f' xs ch' /\ aget k ch' = Some c' /\ Sim n c'.
  Proof.
    intros Hd Hnd H Hc Hk Hcomp Hed. unfold comp_merge, prune in H. rewrite Hd in H.
    destruct (fold_left (merge_step rec [] p) cho (Ok (Comp CDict fs xs chs))) as [s2|e q] eqn:Ef; cbn [bind] in H; [|discriminate].
    destruct (steps_hit _ _ _ _ _ _ _ _ _ Hnd Hk Ef Hc Hcomp Hed) as (n & w0 & ch2 & c1 & Er & -> & E2 & HS).
    destruct (if has_priority_over (Comp CDict fo xo cho) (Comp CDict fs xs ch2) true then _ else _) as [r0 pr] eqn:Efin.
    inversion H; subst r0. destruct (finish_dict _ _ _ _ _ _ _ _ _ _ Efin E2) as (f' & ch' & c' & -> & Ec & HS').
    exists n, w0, f', ch', c'. repeat split; auto. eapply Sim_trans; eauto.
  Qed.
End HitRules.

(* ---------- along any path of mappings ---------- *)
(* the value a tree holds at a path of mapping keys *)
Fixpoint dget (n : node) (q : path) : option node :=
  match q with
  | [] => Some n
  | k :: r => match n with Comp CDict _ _ ch => match aget k ch with Some c => dget c r | None => None end | _ => None end
  end.

(* the newer document leaves the path at a mapping, and no mapping of it on the way deletes (no !del there, none inherited) *)
Fixpoint nmiss (o : node) (q : path) : Prop :=
  match q with
  | [] => False
  | k :: r => match o with
              | Comp CDict fo xo cho => delete o = false /\ NoDup (map fst cho) /\ match aget k cho with None => True | Some v => nmiss v r end
              | _ => False
              end
  end.

Lemma Sim_aget k : forall ch ch', Forall2 (fun a b : key * node => fst a = fst b /\ Sim (snd a) (snd b)) ch ch' ->
  match aget k ch with Some c => exists c', aget k ch' = Some c' /\ Sim c c' | None => aget k ch' = None end.
Proof.
  induction 1 as [|[k1 c1] [k2 c2] r r' [Ek HS] HF IH]; cbn; [reflexivity|]. cbn in Ek, HS. subst k2.
  destruct (key_eqb k k1); [eauto|exact IH].
Qed.

Lemma Sim_dget : forall q a b c, Sim a b -> dget a q = Some c -> exists c', dget b q = Some c' /\ Sim c c'.
Proof.
  induction q as [|k r IH]; intros a b c HS H.
  - cbn in *. inversion H; subst. eauto.
  - cbn [dget] in H. destruct a as [|ck f x ch]; [discriminate|]. destruct ck; try discriminate.
    inversion HS as [|? ? f' ? ? ch' Hse HF]; subst. cbn [dget].
    pose proof (Sim_aget k _ _ HF) as Ha. destruct (aget k ch) as [c0|]; [|discriminate].
    destruct Ha as (c0' & -> & HS0). exact (IH _ _ _ HS0 H).
Qed.

Lemma delete_explicit v : delete v = false -> explicit_delete v = false.
Proof. unfold delete, explicit_delete. destruct (f_del (nflags v)) as [b|]; cbn; auto. Qed.

Theorem merge_frame_deep : forall q fuel p s o r w c,
  on_merge [] fuel p s o = Ok (r, w) -> nmiss o q -> dget s q = Some c -> exists c', dget r q = Some c' /\ Sim c c'.
Proof.
  induction q as [|k q' IH]; intros fuel p s o r w c H Hm Hs; [contradiction|].
  cbn [dget] in Hs. destruct s as [|ks fs xs chs]; [discriminate|]. destruct ks; try discriminate.
  destruct (aget k chs) as [c0|] eqn:Hc; [|discriminate].
  cbn [nmiss] in Hm. destruct o as [|ko fo xo cho]; [contradiction|]. destruct ko; try contradiction.
  destruct Hm as (Hd & Hnd & Hm).
  destruct fuel as [|fu]; [discriminate|]. cbn [on_merge dispatch is_funck is_listk] in H.
  destruct (aget k cho) as [v|] eqn:Hk.
  - destruct q' as [|k2 q2]; [contradiction|].
    assert (Hcomp : is_comp c0 = true) by (destruct c0; [cbn in Hs; discriminate|reflexivity]).
    assert (Hed : explicit_delete v = false).
    { apply delete_explicit. cbn [nmiss] in Hm. destruct v as [|kv fv xv chv]; [contradiction|]. destruct kv; try contradiction. tauto. }
    destruct (comp_merge_hit _ _ _ _ _ _ _ _ _ _ _ _ _ Hd Hnd H Hc Hk Hcomp Hed) as (n & w0 & f' & ch' & c' & Er & -> & Ec & HS).
    destruct (IH _ _ _ _ _ _ _ Er Hm Hs) as (c1 & E1 & HS1).
    destruct (Sim_dget _ _ _ _ HS E1) as (c2 & E2 & HS2).
    exists c2. cbn [dget]. rewrite Ec. split; [exact E2|eapply Sim_trans; eauto].
  - destruct (comp_merge_frame _ _ _ _ _ _ _ _ _ _ _ _ _ Hd H Hc Hk) as (f' & ch' & c' & -> & Ec & HS).
    destruct (Sim_dget _ _ _ _ HS Hs) as (c2 & E2 & HS2).
    exists c2. cbn [dget]. rewrite Ec. split; [exact E2|exact HS2].
Qed.

(* for the recursive merge itself *)
Theorem merge_frame als fuel p fs xs chs fo xo cho r w k c :
  delete (Comp CDict fo xo cho) = false ->
  on_merge als (S fuel) p (Comp CDict fs xs chs) (Comp CDict fo xo cho) = Ok (r, w) ->
  aget k chs = Some c -> aget k cho = None ->
  exists c', get_child r k = Some c' /\ Sim c c'.
Proof.
  intros Hd H Hc Hk. cbn [on_merge dispatch is_funck is_listk] in H.
  destruct (comp_merge_frame _ _ _ _ _ _ _ _ _ _ _ _ _ Hd H Hc Hk) as (f' & ch' & c' & -> & E & HS). exists c'. cbn [get_child is_listk]. auto.
Qed.

(* ---------- sibling independence: what a key holds after the merge depends only on what the two mappings hold at that key ---------- *)
Lemma same_explicit_sym a b : same_explicit a b -> same_explicit b a.
Proof. unfold same_explicit. intuition congruence. Qed.

Lemma Sim_sym a : forall b, Sim a b -> Sim b a.
Proof.
  induction a as [k f v|k f x ch IH] using node_ind'; intros b H.
  - inversion H; subst. constructor. now apply same_explicit_sym.
  - inversion H as [|? ? fb ? ? chb Hse HF]; subst. constructor; [now apply same_explicit_sym|].
    clear H Hse. induction HF as [|a b r r' [Hk Hs] HF' IHF]; constructor.
    + inversion IH as [|? ? Ha Hr]; subst. split; [congruence|]. apply Ha. exact Hs.
    + inversion IH as [|? ? Ha Hr]; subst. apply IHF. exact Hr.
Qed.

(* two merges of mappings that agree on what they hold at k - whatever their other keys, their own flags, their position in the tree -
   leave Sim nodes at k *)
Theorem sibling_independent fuel p p' fs xs chs fo xo cho r w fs' xs' chs' fo' xo' cho' r' w' k v c0 :
  delete (Comp CDict fo xo cho) = false -> NoDup (map fst cho) -> delete (Comp CDict fo' xo' cho') = false -> NoDup (map fst cho') ->
  on_merge [] (S fuel) p (Comp CDict fs xs chs) (Comp CDict fo xo cho) = Ok (r, w) ->
  on_merge [] (S fuel) p' (Comp CDict fs' xs' chs') (Comp CDict fo' xo' cho') = Ok (r', w') ->
  aget k chs = Some c0 -> aget k cho = Some v -> aget k chs' = Some c0 -> aget k cho' = Some v ->
  is_comp c0 = true -> explicit_delete v = false ->
  exists c c', get_child r k = Some c /\ get_child r' k = Some c' /\ Sim c c'.
Proof.
  intros Hd Hnd Hd' Hnd' H H' Hc Hk Hc' Hk' Hcomp Hed.
  cbn [on_merge dispatch is_funck is_listk] in H, H'.
  destruct (comp_merge_hit _ _ _ _ _ _ _ _ _ _ _ _ _ Hd Hnd H Hc Hk Hcomp Hed) as (n & w0 & f1 & ch1 & c1 & Er & -> & Ec & HS).
  destruct (comp_merge_hit _ _ _ _ _ _ _ _ _ _ _ _ _ Hd' Hnd' H' Hc' Hk' Hcomp Hed) as (n' & w0' & f2 & ch2 & c2 & Er' & -> & Ec' & HS').
  assert (En : n = n').
  { pose proof (on_merge_path_irrelevant fuel (p ++ [k]) (p' ++ [k]) c0 v) as E. rewrite Er, Er' in E. cbn in E. congruence. }
  subst n'. exists c1, c2. cbn [get_child is_listk]. repeat split; auto.
  eapply Sim_trans; [apply Sim_sym; exact HS|exact HS'].
Qed.

(* ---------- a mentioned container key, whatever the newer value is (a !del one included) ---------- *)
(* the remove-this-key idiom of the loop: the recursive outcome is empty, does not outrank the newer value, and the newer value is !del *)
Definition idiom (n v : node) : bool := (negb (truthy n) && negb (has_priority_over n v false) && explicit_delete v)%bool.

Section HitGen.
  Variable rec : path -> node -> node -> res (node * who).

  Lemma step_hit_gen p f x ch k v c0 cur' : merge_step rec [] p (Ok (Comp CDict f x ch)) (k, v) = Ok cur' ->
    aget k ch = Some c0 -> is_comp c0 = true ->
    exists n w0 ch', rec (p ++ [k]) c0 v = Ok (n, w0) /\ cur' = Comp CDict f x ch' /\
                     (idiom n v = false -> exists c', aget k ch' = Some c' /\ Sim n c').
  Proof.
    intros H Hc Hcomp. unfold merge_step in H. cbn [bind get_child is_listk path_in existsb] in H. rewrite Hc in H.
    destruct (rec (p ++ [k]) c0 v) as [[n w0]|e q]; cbn [bind] in H; [|discriminate].
    rewrite Hcomp in H. fold (idiom n v) in H. exists n, w0. destruct (idiom n v).
    - cbn [remove_child is_listk] in H. destruct (ahas k ch); [|discriminate]. inversion H; subst.
      eexists. split; [reflexivity|]. split; [reflexivity|discriminate].
    - destruct w0.
      + inversion H; subst. cbn [put_child is_listk]. eexists. split; [reflexivity|]. split; [reflexivity|].
        intros _. eexists. split; [apply aget_aset_eq|apply Sim_refl].
      + cbn [set_child is_listk] in H. inversion H; subst. eexists. split; [reflexivity|]. split; [reflexivity|].
        intros _. eexists. split; [apply aget_aset_eq|apply adopt_sim].
  Qed.

  Lemma steps_hit_gen p k v c0 : forall cho f x ch s2, NoDup (map fst cho) -> aget k cho = Some v ->
    fold_left (merge_step rec [] p) cho (Ok (Comp CDict f x ch)) = Ok s2 ->
    aget k ch = Some c0 -> is_comp c0 = true ->
    exists n w0 ch2, rec (p ++ [k]) c0 v = Ok (n, w0) /\ s2 = Comp CDict f x ch2 /\
                     (idiom n v = false -> exists c', aget k ch2 = Some c' /\ Sim n c').
  Proof.
    induction cho as [|[k' v'] rest IH]; intros f x ch s2 Hnd Hk H Hc Hcomp; [discriminate|].
    cbn [map fst] in Hnd. inversion Hnd as [|? ? Hni Hnd']; subst. cbn [fold_left] in H. cbn [aget] in Hk.
    destruct (merge_step rec [] p (Ok (Comp CDict f x ch)) (k', v')) as [cur'|e q] eqn:Es; [|rewrite fold_merge_step_err in H; discriminate].
    destruct (key_eqb k k') eqn:E.
    - apply key_eqb_eq in E. subst k'. inversion Hk; subst v'.
      destruct (step_hit_gen _ _ _ _ _ _ _ _ Es Hc Hcomp) as (n & w0 & ch' & Er & -> & Hn).
      assert (Hrest : aget k rest = None).
      { clear -Hni. induction rest as [|[k2 v2] r IHr]; cbn; [reflexivity|]. destruct (key_eqb k k2) eqn:E2.
        - apply key_eqb_eq in E2. subst. exfalso. apply Hni. now left.
        - apply IHr. intro. apply Hni. now right. }
      destruct (steps_frame rec [] p k _ _ _ _ _ H Hrest) as (ch2 & -> & E2).
      exists n, w0, ch2. repeat split; auto. intro Hi. destruct (Hn Hi) as (c' & Ec & HS). exists c'. split; [congruence|exact HS].
    - destruct (step_frame rec [] _ _ _ _ _ _ _ _ Es E) as (ch' & -> & E').
      rewrite <- E' in Hc. exact (IH _ _ _ _ Hnd' Hk H Hc Hcomp).
  Qed.

  Lemma finish_dict_shape fs xs ch2 fo xo cho r pr :
    (if has_priority_over (Comp CDict fo xo cho) (Comp CDict fs xs ch2) true
     then replace_self (Comp CDict fs xs ch2) (Comp CDict fo xo cho) true
     else replace_other (Comp CDict fs xs ch2) (Comp CDict fo xo cho) true) = (r, pr) -> exists f' ch', r = Comp CDict f' xs ch'.
  Proof.
    intro H. destruct (has_priority_over (Comp CDict fo xo cho) (Comp CDict fs xs ch2) true).
    - unfold replace_self in H. cbn [with_flags nflags maybe_promote ckind_eqb fst snd] in H. unfold propagate in H. cbn [nflags] in H.
      rewrite prop_as_comp in H. destruct (prop_stops (become fs fo)); inversion H; subst; eauto.
    - unfold replace_other in H. cbn [with_flags nflags maybe_promote ckind_eqb fst snd] in H. inversion H; subst; eauto.
  Qed.

  Lemma comp_merge_hit_gen p fs xs chs fo xo cho r w k v c0 :
    delete (Comp CDict fo xo cho) = false -> NoDup (map fst cho) ->
    comp_merge rec [] p (Comp CDict fs xs chs) (Comp CDict fo xo cho) = Ok (r, w) ->
    aget k chs = Some c0 -> aget k cho = Some v -> is_comp c0 = true ->
    exists n w0 f' ch', rec (p ++ [k]) c0 v = Ok (n, w0) /\ r = Comp CDict f' xs ch' /\
                        (idiom n v = false -> exists c', aget k ch' = Some c' /\ Sim n c').
  Proof.
    intros Hd Hnd H Hc Hk Hcomp. unfold comp_merge, prune in H. rewrite Hd in H.
    destruct (fold_left (merge_step rec [] p) cho (Ok (Comp CDict fs xs chs))) as [s2|e q] eqn:Ef; cbn [bind] in H; [|discriminate].
    destruct (steps_hit_gen _ _ _ _ _ _ _ _ _ Hnd Hk Ef Hc Hcomp) as (n & w0 & ch2 & Er & -> & Hn).
    destruct (if has_priority_over (Comp CDict fo xo cho) (Comp CDict fs xs ch2) true then _ else _) as [r0 pr] eqn:Efin.
    inversion H; subst r0.
    destruct (finish_dict_shape _ _ _ _ _ _ _ _ Efin) as (f' & ch' & Hr).
    exists n, w0, f', ch'. repeat split; auto. intro Hi. destruct (Hn Hi) as (c1 & E1 & HS1).
    destruct (finish_dict _ _ _ _ _ _ _ _ _ _ Efin E1) as (f'' & ch'' & c' & Hr' & Ec & HS'). rewrite Hr in Hr'. inversion Hr'; subst f'' ch''.
    exists c'. split; [exact Ec|eapply Sim_trans; eauto].
  Qed.
End HitGen.

(* the newer tree reaches the value v along the mapping path q, through non-deleting mappings with unique keys *)
Fixpoint nreach (o : node) (q : path) (v : node) : Prop :=
  match q with
  | [] => o = v
  | k :: r => match o with
              | Comp CDict fo xo cho => delete o = false /\ NoDup (map fst cho) /\ match aget k cho with Some c => nreach c r v | None => False end
              | _ => False
              end
  end.

(* at any depth: where the older tree holds a container and the newer tree reaches a value, the merged tree holds the merge of the two
   (unless that merge is the emptied outcome of a !del value - then the key is removed) *)
Theorem merged_deep : forall q fuel p s o r w v c0,
  q <> [] -> on_merge [] fuel p s o = Ok (r, w) -> nreach o q v -> dget s q = Some c0 -> is_comp c0 = true ->
  exists fu p' n w0, on_merge [] fu p' c0 v = Ok (n, w0) /\ (idiom n v = false -> exists c', dget r q = Some c' /\ Sim n c').
Proof.
  induction q as [|k q' IH]; intros fuel p s o r w v c0 Hq H Hm Hs Hcomp0; [congruence|].
  cbn [dget] in Hs. destruct s as [|ks fs xs chs]; [discriminate|]. destruct ks; try discriminate.
  destruct (aget k chs) as [ck|] eqn:Hc; [|discriminate].
  cbn [nreach] in Hm. destruct o as [|ko fo xo cho]; [contradiction|]. destruct ko; try contradiction.
  destruct Hm as (Hd & Hnd & Hm). destruct (aget k cho) as [vk|] eqn:Hk; [|contradiction].
  destruct fuel as [|fu]; [discriminate|]. cbn [on_merge dispatch is_funck is_listk] in H.
  destruct q' as [|k2 q2].
  - cbn in Hm, Hs. subst vk. inversion Hs; subst ck.
    destruct (comp_merge_hit_gen _ _ _ _ _ _ _ _ _ _ _ _ _ Hd Hnd H Hc Hk Hcomp0) as (n & w0 & f' & ch' & Er & -> & Hn).
    exists fu, (p ++ [k]), n, w0. split; [exact Er|]. intro Hi. destruct (Hn Hi) as (c' & Ec & HS).
    exists c'. cbn [dget]. rewrite Ec. auto.
  - assert (Hcomp : is_comp ck = true) by (destruct ck; [cbn in Hs; discriminate|reflexivity]).
    assert (Hedk : explicit_delete vk = false).
    { apply delete_explicit. cbn [nreach] in Hm. destruct vk as [|kv fv xv chv]; [contradiction|]. destruct kv; try contradiction. tauto. }
    destruct (comp_merge_hit _ _ _ _ _ _ _ _ _ _ _ _ _ Hd Hnd H Hc Hk Hcomp Hedk) as (n & w0 & f' & ch' & c' & Er & -> & Ec & HS).
    destruct (IH _ _ _ _ _ _ _ _ ltac:(discriminate) Er Hm Hs Hcomp0) as (fu' & p' & n' & w0' & Er' & Hn').
    exists fu', p', n', w0'. split; [exact Er'|]. intro Hi. destruct (Hn' Hi) as (c1 & E1 & HS1).
    destruct (Sim_dget _ _ _ _ HS E1) as (c2 & E2 & HS2).
    exists c2. cbn [dget]. rewrite Ec. split; [exact E2|eapply Sim_trans; eauto].
Qed.

(* ---------- where the keys of the result come from (C08: no new path without permission) ---------- *)
Lemma ahas_aset {V} k k' (v : V) l : ahas k (aset k' v l) = true -> k = k' \/ ahas k l = true.
Proof.
  intro H. destruct (key_eqb k k') eqn:E; [left; now apply key_eqb_eq|right].
  unfold ahas in *. now rewrite aget_aset_neq in H by exact E.
Qed.

Lemma ahas_adel {V} k k' (l : list (key * V)) : ahas k (adel k' l) = true -> ahas k l = true.
Proof.
  unfold ahas. induction l as [|[k2 v2] r IH]; cbn; [auto|].
  destruct (key_eqb k' k2) eqn:E; cbn.
  - intro H. destruct (key_eqb k k2); [reflexivity|exact H].
  - destruct (key_eqb k k2); auto.
Qed.

Section KeysRules.
  Variable rec : path -> node -> node -> res (node * who).
  Variable als : list path.

  Lemma step_keys p f x ch k' v cur' : merge_step rec als p (Ok (Comp CDict f x ch)) (k', v) = Ok cur' ->
    exists ch', cur' = Comp CDict f x ch' /\
      forall k, ahas k ch' = true -> ahas k ch = true \/ (k = k' /\ require_all_new v (p ++ [k']) [] true = true).
  Proof.
    intro H. unfold merge_step in H. cbn [bind get_child is_listk] in H. destruct (aget k' ch) as [c0|] eqn:Ea.
    - assert (Hk' : ahas k' ch = true) by (unfold ahas; now rewrite Ea).
      assert (Hs : (exists n, set_child (Comp CDict f x ch) k' n = Some cur') \/ (exists n, cur' = put_child (Comp CDict f x ch) k' n) \/
                   remove_child (Comp CDict f x ch) k' = Some cur').
      { apply (step_shape rec als p _ k' v). unfold merge_step. cbn [bind get_child is_listk]. rewrite Ea. exact H. }
      destruct Hs as [(n & Hs)|[(n & Hs)|Hs]]; cbn in Hs.
      + inversion Hs; subst. eexists. split; [reflexivity|]. intros k Hk. left. destruct (ahas_aset _ _ _ _ Hk) as [->|]; auto.
      + subst. eexists. split; [reflexivity|]. intros k Hk. left. destruct (ahas_aset _ _ _ _ Hk) as [->|]; auto.
      + destruct (ahas k' ch); [|discriminate]. inversion Hs; subst. eexists. split; [reflexivity|]. intros k Hk. left. exact (ahas_adel _ _ _ Hk).
    - destruct (require_all_new v (p ++ [k']) [] true) eqn:Er; [|discriminate]. cbn [set_child is_listk] in H. inversion H; subst.
      eexists. split; [reflexivity|]. intros k Hk. destruct (ahas_aset _ _ _ _ Hk) as [->|]; auto.
  Qed.

  Lemma steps_keys p : forall cho f x ch s2, fold_left (merge_step rec als p) cho (Ok (Comp CDict f x ch)) = Ok s2 ->
    exists ch2, s2 = Comp CDict f x ch2 /\
      forall k, ahas k ch2 = true -> ahas k ch = true \/ exists v, In (k, v) cho /\ require_all_new v (p ++ [k]) [] true = true.
  Proof.
    induction cho as [|[k' v] rest IH]; intros f x ch s2 H.
    - cbn in H. inversion H; subst. eexists. split; [reflexivity|auto].
    - cbn [fold_left] in H.
      destruct (merge_step rec als p (Ok (Comp CDict f x ch)) (k', v)) as [cur'|e q] eqn:Es; [|rewrite fold_merge_step_err in H; discriminate].
      destruct (step_keys _ _ _ _ _ _ _ Es) as (ch' & -> & Hk1). destruct (IH _ _ _ _ H) as (ch2 & -> & Hk2).
      exists ch2. split; [reflexivity|]. intros k Hk. destruct (Hk2 k Hk) as [Hin|(v' & Hin & Hr)].
      + destruct (Hk1 k Hin) as [Ho|[-> Hr]]; [left; exact Ho|right; exists v; split; [now left|exact Hr]].
      + right. exists v'. split; [now right|exact Hr].
  Qed.

  Lemma finish_dict_keys fs xs ch2 fo xo cho r pr :
    (if has_priority_over (Comp CDict fo xo cho) (Comp CDict fs xs ch2) true
     then replace_self (Comp CDict fs xs ch2) (Comp CDict fo xo cho) true
     else replace_other (Comp CDict fs xs ch2) (Comp CDict fo xo cho) true) = (r, pr) ->
    exists f' ch', r = Comp CDict f' xs ch' /\ forall k, ahas k ch' = ahas k ch2.
  Proof.
    intro H. destruct (has_priority_over (Comp CDict fo xo cho) (Comp CDict fs xs ch2) true).
    - unfold replace_self in H. cbn [with_flags nflags maybe_promote ckind_eqb fst snd] in H. unfold propagate in H. cbn [nflags] in H.
      rewrite prop_as_comp in H. destruct (prop_stops (become fs fo)); inversion H; subst; do 2 eexists; (split; [reflexivity|]); [reflexivity|].
      intro k. unfold ahas. rewrite aget_map. destruct (aget k ch2); reflexivity.
    - unfold replace_other in H. cbn [with_flags nflags maybe_promote ckind_eqb fst snd] in H. inversion H; subst. do 2 eexists. split; reflexivity.
  Qed.

  Lemma comp_merge_keys p fs xs chs fo xo cho r w :
    delete (Comp CDict fo xo cho) = false ->
    comp_merge rec als p (Comp CDict fs xs chs) (Comp CDict fo xo cho) = Ok (r, w) ->
    exists f' ch', r = Comp CDict f' xs ch' /\
      forall k, ahas k ch' = true -> ahas k chs = true \/ exists v, In (k, v) cho /\ require_all_new v (p ++ [k]) [] true = true.
  Proof.
    intros Hd H. unfold comp_merge, prune in H. rewrite Hd in H.
    destruct (fold_left (merge_step rec als p) cho (Ok (Comp CDict fs xs chs))) as [s2|e q] eqn:Ef; cbn [bind] in H; [|discriminate].
    destruct (steps_keys _ _ _ _ _ _ Ef) as (ch2 & -> & Hk).
    destruct (if has_priority_over (Comp CDict fo xo cho) (Comp CDict fs xs ch2) true then _ else _) as [r0 pr] eqn:Efin.
    inversion H; subst r0. destruct (finish_dict_keys _ _ _ _ _ _ _ _ Efin) as (f' & ch' & -> & Hsame).
    exists f', ch'. split; [reflexivity|]. intros k Hk'. apply Hk. now rewrite <- Hsame.
  Qed.
End KeysRules.

(* every key of the merged mapping is a key of the older mapping, or a key of the newer one whose whole value allows new paths *)
Theorem merge_no_new_key_without_permission als fuel p fs xs chs fo xo cho r w :
  delete (Comp CDict fo xo cho) = false ->
  on_merge als (S fuel) p (Comp CDict fs xs chs) (Comp CDict fo xo cho) = Ok (r, w) ->
  exists f' ch', r = Comp CDict f' xs ch' /\
    forall k, ahas k ch' = true -> ahas k chs = true \/ exists v, In (k, v) cho /\ require_all_new v (p ++ [k]) [] true = true.
Proof. intros Hd H. cbn [on_merge dispatch is_funck is_listk] in H. exact (comp_merge_keys _ _ _ _ _ _ _ _ _ _ _ Hd H). Qed.

(* the permission covers every node of the value, the value itself included: a !notnew anywhere in it forbids the new key *)
Lemma require_all_new_nodes n p : require_all_new n p [] true = true -> forall q m, In (q, m) (nwp p n) -> allow_new (nflags m) = true.
Proof.
  unfold require_all_new. intros H q m Hin.
  assert (Hl : (match n with Leaf _ _ _ => [(p, n)] | Comp _ _ _ _ => nodes_with_paths p n true end) = nwp p n) by (destruct n; reflexivity).
  rewrite Hl in H. rewrite forallb_forall in H. specialize (H _ Hin). cbn [fst snd path_in existsb] in H. now rewrite Bool.orb_false_r in H.
Qed.

(* ---------- an empty, non-deleting mapping is neutral for the content of ANY mapping (C15, general merge) ---------- *)
Lemma finish_dict_erase fs xs ch2 fo xo cho r pr :
  (if has_priority_over (Comp CDict fo xo cho) (Comp CDict fs xs ch2) true
   then replace_self (Comp CDict fs xs ch2) (Comp CDict fo xo cho) true
   else replace_other (Comp CDict fs xs ch2) (Comp CDict fo xo cho) true) = (r, pr) ->
  erase r = erase (Comp CDict fs xs ch2).
Proof.
  intro H. destruct (has_priority_over (Comp CDict fo xo cho) (Comp CDict fs xs ch2) true).
  - unfold replace_self in H. cbn [with_flags nflags maybe_promote ckind_eqb fst snd] in H. unfold propagate in H. cbn [nflags] in H.
    rewrite prop_as_comp in H. destruct (prop_stops (become fs fo)); inversion H; subst; rewrite !erase_comp; cbn [is_listk]; [reflexivity|].
    f_equal. rewrite map_map. apply map_ext. intros [k c]. cbn [fst snd]. f_equal. symmetry. apply Sim_erase. unfold prop_child.
    assert (Hg : same_explicit (nflags c) (fst (pc_flags (become fs fo) (if Facts.default_delete CDict then Some true else f_idel (become fs fo)) (nflags c)))).
    { unfold pc_flags. cbv zeta. cbn [fst]. se_solve. }
    destruct (snd (pc_flags _ _ _)); [apply prop_as_sim; exact Hg|apply Sim_with_flags; exact Hg].
  - unfold replace_other in H. cbn [with_flags nflags maybe_promote ckind_eqb fst snd] in H. inversion H; subst. now rewrite !erase_comp.
Qed.

Theorem empty_mapping_neutral als fuel p fs xs chs fo xo :
  delete (Comp CDict fo xo []) = false ->
  exists r w, on_merge als (S fuel) p (Comp CDict fs xs chs) (Comp CDict fo xo []) = Ok (r, w) /\ erase r = erase (Comp CDict fs xs chs).
Proof.
  intro Hd. cbn [on_merge dispatch is_funck is_listk]. unfold comp_merge, prune. rewrite Hd. cbn [fold_left bind].
  destruct (if has_priority_over (Comp CDict fo xo []) (Comp CDict fs xs chs) true then _ else _) as [r0 pr] eqn:Efin.
  do 2 eexists. split; [reflexivity|]. exact (finish_dict_erase _ _ _ _ _ _ _ _ Efin).
Qed.
