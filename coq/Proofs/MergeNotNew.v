(* Proofs/MergeNotNew.v — a tag-free document marked !notnew at its root, merged into a tag-free config, is the
   no-new-path update Spec.UpdateNN.upd_nn: it succeeds exactly when that update does, with the same content (C08). *)
From AY Require Import Model.Merge Proofs.NodeInd Proofs.FlagsLemmas Proofs.FactsOk Spec.Update Spec.UpdateNN
  Proofs.MergePlain Proofs.UpdateNNLemmas Proofs.NotNew Model.Loader Proofs.EvalPlain Proofs.LoaderLemmas Proofs.OverrideLoad Proofs.Laws.

(* ---------- the older trees: no explicit priority / delete / new mark, unique keys; the implicit flags are free ---------- *)
Definition OX (f : flags) : Prop := f_prio f = None /\ f_del f = None /\ f_new f = None.

Inductive OldX : node -> Prop :=
| OXLeaf f v : OX f -> OldX (Leaf LScalar f v)
| OXDict f x ch : OX f -> Forall (fun kc => OldX (snd kc)) ch -> NoDup (map fst ch) -> OldX (Comp CDict f x ch)
| OXList f x ch : OX f -> Forall (fun kc => OldX (snd kc)) ch -> keys_enum 0 ch -> OldX (Comp CList f x ch).

Inductive puk : plain -> Prop :=
| puk_s v : puk (PS v)
| puk_l l : Forall puk l -> puk (PL l)
| puk_d kv : NoDup (map fst kv) -> Forall (fun kc => puk (snd kc)) kv -> puk (PD kv).

Lemma OF_OX f : OF f -> OX f.
Proof. intros (a & b & c & d). repeat split; auto. Qed.

Lemma Old_OldX : forall n, Old n -> puk (erase n) -> OldX n.
Proof.
  induction n as [k f v|k f x ch IH] using node_ind'; intros H Hp.
  - inversion H; subst. constructor. now apply OF_OX.
  - inversion H as [|f0 x0 ch0 HOF HFch|f0 x0 ch0 HOF HFch HK]; subst.
    + rewrite erase_comp in Hp. cbn [is_listk] in Hp. inversion Hp as [| |kv Hnd HF]; subst.
      constructor; [now apply OF_OX| |].
      * clear H Hnd Hp. induction IH as [|kc r Hkc Hr IHr]; [constructor|].
        inversion HFch; subst. cbn [map] in HF. inversion HF; subst. constructor; auto.
      * rewrite map_map in Hnd. cbn [fst] in Hnd. exact Hnd.
    + rewrite erase_comp in Hp. cbn [is_listk] in Hp. inversion Hp as [|l HF|]; subst.
      constructor; [now apply OF_OX| |assumption].
      clear H HK Hp. induction IH as [|kc r Hkc Hr IHr]; [constructor|].
      inversion HFch; subst. cbn [map] in HF. inversion HF; subst. constructor; auto.
Qed.

Lemma OldX_OX n : OldX n -> OX (nflags n).
Proof. intro H; inversion H; auto. Qed.

Lemma OldX_children n : OldX n -> Forall (fun kc => OldX (snd kc)) (children n).
Proof. intro H; inversion H; cbn; auto. Qed.

Lemma OX_priority f : OX f -> priority f = 0.
Proof. intros (H & _). unfold priority. now rewrite H. Qed.

Lemma hpo_OX a b e : OX (nflags a) -> OX (nflags b) -> has_priority_over a b e = e.
Proof. intros Ha Hb. unfold has_priority_over. now rewrite (OX_priority _ Ha), (OX_priority _ Hb). Qed.

Lemma OldX_explicit_delete n : OldX n -> explicit_delete n = false.
Proof. intro H. apply OldX_OX in H. destruct H as (_ & H & _). unfold explicit_delete. now rewrite H. Qed.

Lemma get_child_oldx n k c : OldX n -> get_child n k = Some c -> OldX c.
Proof.
  intros H E. destruct n as [lk f v|ck f x ch]; cbn in E; [discriminate|].
  pose proof (OldX_children _ H) as HF. cbn in HF.
  destruct (is_listk ck).
  - destruct (validate_index (zlen ch) k true); try discriminate. eapply aget_Forall; eauto.
  - eapply aget_Forall; eauto.
Qed.

Lemma first_not_missing_oldx : forall p n, OldX n -> OldX (first_not_missing n p).
Proof.
  induction p as [|k r IH]; intros n H; cbn; [exact H|].
  destruct (has_child n k); [|exact H].
  destruct (get_child n k) eqn:E; [|exact H]. apply IH. eapply get_child_oldx; eauto.
Qed.

(* OldX only looks at kinds, keys and explicit flags: it is invariant under adoption / propagation *)
Lemma Forall2_fst_eq {A B} (R : A -> B -> Prop) (l : list (key * A)) (l' : list (key * B)) :
  Forall2 (fun a b => fst a = fst b /\ R (snd a) (snd b)) l l' -> map fst l = map fst l'.
Proof. induction 1 as [|a b l l' [E _] _ IH]; cbn; [reflexivity|]. now rewrite E, IH. Qed.

Lemma keys_enum_fst : forall (l l' : list (key * node)) i, map fst l = map fst l' -> keys_enum i l -> keys_enum i l'.
Proof.
  induction l as [|a l IH]; intros [|b l'] i E H; cbn in *; try discriminate; auto.
  injection E as E1 E2. destruct H as [Ha Hb]. split; [congruence|eauto].
Qed.

Lemma OX_same_explicit f f' : same_explicit f f' -> OX f -> OX f'.
Proof. intros (a & b & c & _) (h1 & h2 & h3). repeat split; congruence. Qed.

Lemma OldX_sim : forall a b, Sim a b -> OldX a -> OldX b.
Proof.
  induction a as [k f v|k f x ch IH] using node_ind'; intros b HS H.
  - inversion HS as [k0 f0 f' v0 Hse|]; subst. inversion H; subst. constructor. eapply OX_same_explicit; eauto.
  - inversion HS as [|k0 f0 f' x0 ch0 ch' Hse HF2]; subst.
    pose proof (Forall2_fst_eq _ _ _ HF2) as Ek.
    assert (HF : Forall (fun kc => OldX (snd kc)) ch -> Forall (fun kc => OldX (snd kc)) ch').
    { clear - IH HF2. revert IH. induction HF2 as [|a b l l' [_ Hs] _ IHl]; intros IH HF; [constructor|].
      inversion IH; subst. inversion HF; subst. constructor; auto. }
    inversion H as [|f1 x1 ch1 HOX HFch Hnd|f1 x1 ch1 HOX HFch HK]; subst.
    + constructor; [eapply OX_same_explicit; eauto|auto|now rewrite <- Ek].
    + constructor; [eapply OX_same_explicit; eauto|auto|eapply keys_enum_fst; eauto].
Qed.

Lemma adopt_oldx kw c : OldX c -> OldX (adopt kw c).
Proof. apply OldX_sim, adopt_sim. Qed.

Lemma propagate_oldx n : OldX n -> OldX (propagate n).
Proof. apply OldX_sim, propagate_sim. Qed.

Lemma OldX_with_flags n f : OldX n -> OX f -> OldX (with_flags n f).
Proof. intros H Hf. inversion H; subst; cbn; constructor; auto. Qed.

Lemma OX_absorb a b : OX a -> OX (absorb a b).
Proof. intros (h1 & h2 & h3). repeat split; auto. Qed.

Lemma OX_become a b : OX a -> OX b -> OX (become a b).
Proof. intros (h1 & h2 & h3) (g1 & g2 & g3). repeat split; auto. Qed.

(* ---------- raw paths ---------- *)
Fixpoint rpath (n : node) (q : path) : bool :=
  match q with
  | [] => true
  | k :: r => match aget k (children n) with Some c => rpath c r | None => false end
  end.

Lemma path_eqb_eq : forall a b, path_eqb a b = true <-> a = b.
Proof.
  unfold path_eqb. induction a as [|k a IH]; intros [|k' b]; cbn; split; intro H; try discriminate; try reflexivity.
  - apply andb_true_iff in H. destruct H as [Hl H]. apply andb_true_iff in H. destruct H as [Hk H].
    apply key_eqb_eq in Hk. subst k'. f_equal. apply IH. cbn in Hl. now rewrite Hl, H.
  - inversion H; subst. rewrite key_eqb_refl. cbn.
    destruct (IH b) as [_ IH2]. specialize (IH2 eq_refl). exact IH2.
Qed.

Lemma path_in_In x l : path_in x l = true <-> In x l.
Proof.
  unfold path_in. rewrite existsb_exists. split.
  - intros (y & Hy & E). apply path_eqb_eq in E. now subst.
  - intro H. exists x. split; [exact H|]. now apply path_eqb_eq.
Qed.

Lemma aget_In {V} k (v : V) l : aget k l = Some v -> In (k, v) l.
Proof.
  induction l as [|[k' v'] r IH]; cbn; [discriminate|].
  destruct (key_eqb k k') eqn:E; intro H; [inversion H; subst; apply key_eqb_eq in E; subst; now left|right; auto].
Qed.

Lemma In_aget {V} k (v : V) l : NoDup (map fst l) -> In (k, v) l -> aget k l = Some v.
Proof.
  induction l as [|[k' v'] r IH]; cbn; intros Hnd Hin; [contradiction|].
  inversion Hnd as [|? ? Hni Hnd']; subst.
  destruct Hin as [E|Hin].
  - inversion E; subst. now rewrite key_eqb_refl.
  - destruct (key_eqb k k') eqn:E.
    + apply key_eqb_eq in E. subst k'. exfalso. apply Hni. change k with (fst (k, v)). now apply in_map.
    + auto.
Qed.

Lemma keys_enum_lt : forall l i k, keys_enum i l -> In k (map fst l) -> exists z, k = KI z /\ i <= z.
Proof.
  induction l as [|[k' c] r IH]; intros i k H Hin; cbn in *; [contradiction|].
  destruct H as [Hk H]. cbn in Hk. destruct Hin as [E|Hin].
  - subst. exists i. split; [reflexivity|lia].
  - destruct (IH (i + 1) k H Hin) as (z & Ez & Hz). exists z. split; [exact Ez|lia].
Qed.

Lemma keys_enum_nodup : forall l i, keys_enum i l -> NoDup (map fst l).
Proof.
  induction l as [|[k c] r IH]; intros i H; cbn in *; [constructor|].
  destruct H as [Hk H]. cbn in Hk. subst k. constructor; [|eauto].
  intro Hin. destruct (keys_enum_lt r (i + 1) (KI i) H Hin) as (z & Ez & Hz). inversion Ez. lia.
Qed.

Lemma OldX_nodup n : OldX n -> NoDup (map fst (children n)).
Proof. intro H; inversion H; subst; cbn; [constructor|assumption|eapply keys_enum_nodup; eauto]. Qed.

(* ---------- filter_nodes with a condition that keeps nothing: everything is removed, and every raw path is listed ---------- *)
Lemma filter_all_x cond : (forall p m, OldX m -> cond p m = false) -> forall n pre, OldX n ->
  fst (filter_nodes cond pre n) = clear_children n /\
  (forall x, In x (snd (filter_nodes cond pre n)) <-> exists q, q <> [] /\ x = pre ++ q /\ rpath n q = true).
Proof.
  intro Hc. induction n as [k f v|k f x ch IH] using node_ind'; intros pre H.
  - cbn. split; [reflexivity|]. intro y. split; [contradiction|].
    intros (q & Hq & _ & Hr). destruct q as [|kk q]; [congruence|]. cbn in Hr. discriminate.
  - rewrite filter_nodes_comp. cbv zeta. cbn [fst snd clear_children].
    pose proof (OldX_children _ H) as HF. cbn in HF.
    pose proof (OldX_nodup _ H) as Hnd. cbn in Hnd.
    assert (G : Forall (fun m => snd m = false) (fst (filter_go cond pre ch)) /\
                (forall y, In y (snd (filter_go cond pre ch)) <-> exists kk c q', In (kk, c) ch /\ y = pre ++ kk :: q' /\ rpath c q' = true)).
    { clear H Hnd. induction IH as [|kc r Hkc Hr IHr]; cbn [filter_go].
      - split; [constructor|]. intro y. split; [contradiction|]. intros (kk & c & q' & [] & _).
      - inversion HF as [|? ? Hkc1 HFr]; subst. destruct (IHr HFr) as [IH1 IH2]. clear IHr.
        destruct (Hkc (pre ++ [fst kc]) Hkc1) as [Hf1 Hf2].
        assert (Efc : filter_child (filter_nodes cond) cond pre kc =
                      ((fst kc, fst (filter_nodes cond (pre ++ [fst kc]) (snd kc)), false),
                       snd (filter_nodes cond (pre ++ [fst kc]) (snd kc)) ++ [pre ++ [fst kc]])).
        { unfold filter_child. rewrite (Hc _ _ Hkc1). cbn [orb].
          destruct (snd kc) as [lk lf lv|ck cf cx cch] eqn:Ekc.
          - reflexivity.
          - destruct (filter_nodes cond (pre ++ [fst kc]) (Comp ck cf cx cch)) as [c' rc] eqn:Efn.
            cbn [fst snd] in *. subst c'. reflexivity. }
        rewrite Efc. destruct (filter_go cond pre r) as [rest rem_r]. cbn [fst snd] in *.
        split; [constructor; auto|].
        intro y. rewrite !in_app_iff. rewrite Hf2, IH2. cbn [In]. split.
        + intros [[(q & Hq & Ey & Hrp)|[Ey|[]]]|(kk & c & q' & Hin & Ey & Hrp)].
          * exists (fst kc), (snd kc), q. split; [left; now destruct kc|]. split; [|exact Hrp]. subst y. now rewrite <- app_assoc.
          * exists (fst kc), (snd kc), []. split; [left; now destruct kc|]. split; [now subst y|reflexivity].
          * exists kk, c, q'. auto.
        + intros (kk & c & q' & [E|Hin] & Ey & Hrp).
          * subst kc. cbn [fst snd]. left. destruct q' as [|k2 q2].
            -- right. left. now subst y.
            -- left. exists (k2 :: q2). split; [discriminate|]. split; [|exact Hrp]. subst y. now rewrite <- app_assoc.
          * right. exists kk, c, q'. auto. }
    destruct G as [G1 G2]. split.
    + rewrite (shift_kept_all_false _ _ _ _ G1). destruct (is_listk k); reflexivity.
    + intro y. rewrite G2. split.
      * intros (kk & c & q' & Hin & Ey & Hrp). exists (kk :: q'). split; [discriminate|]. split; [exact Ey|].
        cbn [rpath children]. now rewrite (In_aget _ _ _ Hnd Hin).
      * intros (q & Hq & Ey & Hrp). destruct q as [|kk q']; [congruence|]. cbn [rpath children] in Hrp.
        destruct (aget kk ch) as [c|] eqn:Eg; [|discriminate]. exists kk, c, q'. split; [now apply aget_In|auto].
Qed.

Lemma filter_keep_x cond : (forall p m, OldX m -> cond p m = true) -> forall n pre, OldX n -> filter_nodes cond pre n = (n, []).
Proof.
  intro Hc. induction n as [k f v|k f x ch IH] using node_ind'; intros pre H; [reflexivity|].
  rewrite filter_nodes_comp. cbv zeta.
  pose proof (OldX_children _ H) as HF. cbn in HF.
  assert (HA : filter_go cond pre ch = (map (fun kc => (fst kc, snd kc, true)) ch, [])).
  { clear H. induction IH as [|kc r Hkc Hr IHr]; cbn [filter_go]; [reflexivity|].
    inversion HF as [|? ? Hkc1 HFr]; subst. rewrite (IHr HFr).
    unfold filter_child. rewrite (Hc _ _ Hkc1). cbn [orb].
    destruct (snd kc) as [lk lf lv|ck cf cx cch] eqn:Ekc.
    - cbn. rewrite <- Ekc. reflexivity.
    - rewrite (Hkc (pre ++ [fst kc]) Hkc1). cbn. rewrite <- Ekc. reflexivity. }
  rewrite HA. cbn [fst snd].
  assert (HS : forall kw il l, shift_kept kw il (map (fun kc : key * node => (fst kc, snd kc, true)) l) false = l).
  { intros kw il l. induction l as [|[kk c] r IHl]; cbn; [reflexivity|]. now rewrite IHl. }
  rewrite HS. inversion H; subst; cbn [is_listk]; [reflexivity|].
  rewrite renum_enum; auto.
Qed.

(* ---------- the overlay: what the loader builds below a !notnew root for tag-free content ---------- *)
Section Overlay.
  Variables (isf ds : option bool) (src : Z).
  Definition nf (idel : option bool) : flags := mkF None None None None idel (Some false) isf ds [] src.

  Fixpoint N (idel : option bool) (p : plain) : node :=
    match p with
    | PS v => Leaf LScalar (nf idel) v
    | PD l => Comp CDict (nf idel) SNone
                   ((fix go (l : list (key * plain)) := match l with [] => [] | (k, c) :: r => (k, N idel c) :: go r end) l)
    | PL l => Comp CList (nf idel) SNone
                   ((fix go (i : Z) (l : list plain) := match l with [] => [] | c :: r => (KI i, N (Some true) c) :: go (i + 1) r end) 0 l)
    end.

  Fixpoint n_list (i : Z) (l : list plain) : list (key * node) :=
    match l with [] => [] | c :: r => (KI i, N (Some true) c) :: n_list (i + 1) r end.

  Lemma N_PD idel l : N idel (PD l) = Comp CDict (nf idel) SNone (map (fun kc => (fst kc, N idel (snd kc))) l).
  Proof. cbn [N]. f_equal. induction l as [|[k c] r IH]; cbn; [reflexivity|]. now rewrite IH. Qed.

  Lemma N_PL idel l : N idel (PL l) = Comp CList (nf idel) SNone (n_list 0 l).
  Proof. reflexivity. Qed.

  Lemma OX_nf idel : OX (nf idel).
  Proof. repeat split. Qed.

  Lemma N_flags idel po : nflags (N idel po) = nf idel.
  Proof. destruct po; [reflexivity|rewrite N_PD; reflexivity|rewrite N_PL; reflexivity]. Qed.

  Lemma keys_enum_n_list l : forall i, keys_enum i (n_list i l).
  Proof. induction l as [|c r IH]; intro i; cbn; auto. Qed.

  Lemma erase_N : forall p idel, erase (N idel p) = p.
  Proof.
    induction p as [v|l IH|l IH] using plain_ind'; intro idel.
    - reflexivity.
    - rewrite N_PD, erase_comp. cbn [is_listk]. f_equal. rewrite map_map. cbn [fst snd].
      induction IH as [|[k c] r Hkc Hr IHr]; cbn; [reflexivity|]. cbn in Hkc. now rewrite Hkc, IHr.
    - rewrite N_PL, erase_comp. cbn [is_listk]. f_equal.
      generalize 0. induction IH as [|c r Hc Hr IHr]; intro i; cbn; [reflexivity|]. now rewrite Hc, IHr.
  Qed.

  Lemma N_oldx : forall p idel, puk p -> OldX (N idel p).
  Proof.
    induction p as [v|l IH|l IH] using plain_ind'; intros idel Hp.
    - constructor. apply OX_nf.
    - rewrite N_PD. inversion Hp as [| |kv Hnd HF]; subst. constructor; [apply OX_nf| |].
      + clear Hnd Hp. induction IH as [|kc r Hkc Hr IHr]; cbn; [constructor|].
        inversion HF; subst. constructor; cbn [snd]; auto.
      + rewrite map_map. cbn [fst]. exact Hnd.
    - rewrite N_PL. inversion Hp as [|l' HF|]; subst. constructor; [apply OX_nf| |apply keys_enum_n_list].
      clear Hp. generalize 0. induction IH as [|c r Hc Hr IHr]; intro i; cbn; [constructor|].
      inversion HF; subst. constructor; cbn [snd]; auto.
  Qed.

  (* nobody below a !notnew root may create a path *)
  Lemma N_nwp_notnew : forall p idel pre, Forall (fun pn => allow_new (nflags (snd pn)) = false) (nwp pre (N idel p)).
  Proof.
    induction p as [v|l IH|l IH] using plain_ind'; intros idel pre.
    - cbn. constructor; [reflexivity|constructor].
    - rewrite N_PD, nwp_comp. constructor; [reflexivity|].
      induction IH as [|kc r Hkc Hr IHr]; cbn; [constructor|]. apply Forall_app. split; auto.
    - rewrite N_PL, nwp_comp. constructor; [reflexivity|].
      generalize 0. induction IH as [|c r Hc Hr IHr]; intro i; cbn; [constructor|]. apply Forall_app. split; auto.
  Qed.

  (* In-based raw paths (no assumption on key uniqueness) *)
  Inductive RP : node -> path -> Prop :=
  | RP_nil n : RP n []
  | RP_cons n k c q : In (k, c) (children n) -> RP c q -> RP n (k :: q).

  Lemma nwp_RP : forall n pre x m, In (x, m) (nwp pre n) -> exists q, x = pre ++ q /\ RP n q.
  Proof.
    induction n as [k f v|k f xx ch IH] using node_ind'; intros pre x m Hin.
    - cbn in Hin. destruct Hin as [E|[]]. inversion E; subst. exists []. split; [now rewrite app_nil_r|constructor].
    - rewrite nwp_comp in Hin. destruct Hin as [E|Hin].
      + inversion E; subst. exists []. split; [now rewrite app_nil_r|constructor].
      + apply in_flat_map in Hin. destruct Hin as (kc & Hkc & Hin).
        rewrite Forall_forall in IH. destruct (IH kc Hkc _ _ _ Hin) as (q & Eq & Hq).
        exists (fst kc :: q). split; [subst x; now rewrite <- app_assoc|].
        econstructor; [|exact Hq]. cbn. now destruct kc.
  Qed.

  Lemma RP_nwp : forall n pre q, RP n q -> exists m, In (pre ++ q, m) (nwp pre n).
  Proof.
    induction n as [k f v|k f xx ch IH] using node_ind'; intros pre q H.
    - inversion H as [|? ? ? ? Hin]; subst; [|cbn in Hin; contradiction]. exists (Leaf k f v). rewrite app_nil_r. cbn. now left.
    - inversion H as [|? kk c q' Hin Hq]; subst.
      + exists (Comp k f xx ch). rewrite app_nil_r, nwp_comp. now left.
      + cbn in Hin. rewrite Forall_forall in IH. destruct (IH (kk, c) Hin (pre ++ [kk]) q' Hq) as (m & Hm).
        exists m. rewrite nwp_comp. right. apply in_flat_map. exists (kk, c). split; [exact Hin|].
        cbn [fst snd]. now rewrite <- app_assoc in Hm.
  Qed.

  Lemma In_n_list : forall l i k c, In (k, c) (n_list i l) <-> exists j v, nth_error l j = Some v /\ k = KI (i + Z.of_nat j) /\ c = N (Some true) v.
  Proof.
    induction l as [|v0 r IH]; intros i k c; cbn [n_list].
    - split; [contradiction|]. intros (j & v & E & _). destruct j; discriminate.
    - cbn [In]. rewrite IH. split.
      + intros [E|(j & v & En & Ek & Ec)].
        * inversion E; subst. exists O, v0. repeat split. now rewrite Z.add_0_r.
        * exists (S j), v. split; [exact En|]. split; [|exact Ec]. subst k. f_equal. lia.
      + intros (j & v & En & Ek & Ec). destruct j as [|j]; cbn in En.
        * inversion En; subst. left. now rewrite Z.add_0_r.
        * right. exists j, v. split; [exact En|]. split; [|exact Ec]. subst k. f_equal. lia.
  Qed.
End Overlay.

(* lookups in the erased older tree *)
Lemma pchild_erase s k : OldX s -> pchild k (erase s) = option_map erase (aget k (children s)).
Proof.
  intro H. inversion H as [f v HOX|f x ch HOX HF Hnd|f x ch HOX HF HK]; subst.
  - reflexivity.
  - rewrite erase_comp. cbn [is_listk pchild children]. apply aget_map.
  - rewrite erase_comp. cbn [is_listk pchild children]. destruct k as [i|s0].
    + destruct (0 <=? i) eqn:Ei.
      * apply Z.leb_le in Ei. rewrite nth_error_map.
        destruct (nth_error ch (Z.to_nat i)) as [[k' c]|] eqn:En.
        -- pose proof (keys_enum_aget ch 0 i (k', c) HK Ei En) as Eg. cbn [Z.add snd] in Eg. now rewrite Eg.
        -- cbn. destruct (aget (KI i) ch) as [c|] eqn:Eg; [|reflexivity]. exfalso.
           apply aget_In in Eg. apply In_nth_error in Eg. destruct Eg as (j & Ej).
           assert (Hj : forall l i0 j0 kc, keys_enum i0 l -> nth_error l j0 = Some kc -> fst kc = KI (i0 + Z.of_nat j0)).
           { clear. induction l as [|a l IHl]; intros i0 [|j0] kc Hk E; cbn in *; try discriminate.
             - inversion E; subst. destruct Hk as [Hk _]. now rewrite Z.add_0_r.
             - destruct Hk as [_ Hk]. rewrite (IHl (i0 + 1) j0 kc Hk E). f_equal. lia. }
           specialize (Hj ch 0 j _ HK Ej). cbn in Hj. inversion Hj. subst i. rewrite Nat2Z.id in En. congruence.
      * destruct (aget (KI i) ch) as [c|] eqn:Eg; [|reflexivity]. exfalso. apply Z.leb_gt in Ei.
        apply aget_In in Eg. assert (Hin : In (KI i) (map fst ch)) by (change (KI i) with (fst (KI i, c)); now apply in_map).
        destruct (keys_enum_lt ch 0 (KI i) HK Hin) as (z & Ez & Hz). inversion Ez. lia.
    + destruct (aget (KS s0) ch) as [c|] eqn:Eg; [|reflexivity]. exfalso.
      apply aget_In in Eg. assert (Hin : In (KS s0) (map fst ch)) by (change (KS s0) with (fst (KS s0, c)); now apply in_map).
      destruct (keys_enum_lt ch 0 (KS s0) HK Hin) as (z & Ez & Hz). discriminate.
Qed.

Lemma sub_dgo_forall old : forall kv, sub_dgo old kv = true <-> forall k v, In (k, v) kv -> exists ov, pchild k old = Some ov /\ subpaths v ov = true.
Proof.
  induction kv as [|[k v] r IH]; cbn [sub_dgo].
  - split; [intros _ k v []|reflexivity].
  - rewrite andb_true_iff, IH. split.
    + intros [H1 H2] k0 v0 [E|Hin]; [inversion E; subst; destruct (pchild k0 old); [eauto|discriminate]|auto].
    + intro H. split; [|intros k0 v0 Hin; apply H; now right].
      destruct (H k v (or_introl eq_refl)) as (ov & -> & Hs). exact Hs.
Qed.

Lemma sub_lgo_forall old : forall l i, sub_lgo old i l = true <->
  forall j v, nth_error l j = Some v -> exists ov, pchild (KI (i + Z.of_nat j)) old = Some ov /\ subpaths v ov = true.
Proof.
  induction l as [|v0 r IH]; intro i; cbn [sub_lgo].
  - split; [intros _ j v E; destruct j; discriminate|reflexivity].
  - rewrite andb_true_iff, IH. split.
    + intros [H1 H2] [|j] v E; cbn in E.
      * inversion E; subst. rewrite Z.add_0_r. destruct (pchild (KI i) old); [eauto|discriminate].
      * destruct (H2 j v E) as (ov & Ho & Hs). exists ov. split; [|exact Hs]. now replace (i + Z.of_nat (S j)) with (i + 1 + Z.of_nat j) by lia.
    + intro H. split.
      * destruct (H O v0 eq_refl) as (ov & Ho & Hs). rewrite Z.add_0_r in Ho. now rewrite Ho.
      * intros j v E. destruct (H (S j) v E) as (ov & Ho & Hs). exists ov. split; [|exact Hs].
        now replace (i + 1 + Z.of_nat j) with (i + Z.of_nat (S j)) by lia.
Qed.

(* every path of the overlay is a raw path of the older tree  <->  the spec's subpaths test *)
Lemma sub_RP isf ds src : forall po idel s, OldX s ->
  (subpaths po (erase s) = true <-> forall q, RP (N isf ds src idel po) q -> rpath s q = true).
Proof.
  induction po as [v|kv IH|l IH] using plain_ind'; intros idel s Hs.
  - split; [|reflexivity]. intros _ q H. inversion H as [|? ? ? ? Hin]; subst; [reflexivity|cbn in Hin; contradiction].
  - rewrite subpaths_PD, sub_dgo_forall, N_PD. rewrite Forall_forall in IH. split.
    + intros H q HR. inversion HR as [|? k c q' Hin Hq]; subst; [reflexivity|].
      cbn [children] in Hin. apply in_map_iff in Hin. destruct Hin as ([k0 v0] & E & Hin). cbn [fst snd] in E. inversion E; subst.
      destruct (H _ _ Hin) as (ov & Ho & Hsub). rewrite (pchild_erase _ _ Hs) in Ho.
      cbn [rpath]. destruct (aget k (children s)) as [sc|] eqn:Eg; [|discriminate]. cbn in Ho. inversion Ho; subst ov.
      assert (Hsc : OldX sc) by (eapply aget_Forall; [apply OldX_children; exact Hs|exact Eg]).
      exact (proj1 (IH (k, v0) Hin idel sc Hsc) Hsub q' Hq).
    + intros H k v Hin.
      assert (Hc : In (k, N isf ds src idel v) (children (Comp CDict (nf isf ds src idel) SNone (map (fun kc => (fst kc, N isf ds src idel (snd kc))) kv)))).
      { cbn [children]. apply in_map_iff. exists (k, v). split; [reflexivity|exact Hin]. }
      pose proof (H [k] (RP_cons _ _ _ _ Hc (RP_nil _))) as H1. cbn [rpath] in H1.
      destruct (aget k (children s)) as [sc|] eqn:Eg; [|discriminate].
      exists (erase sc). split; [rewrite (pchild_erase _ _ Hs), Eg; reflexivity|].
      assert (Hsc : OldX sc) by (eapply aget_Forall; [apply OldX_children; exact Hs|exact Eg]).
      apply (proj2 (IH (k, v) Hin idel sc Hsc)). intros q' Hq.
      pose proof (H (k :: q') (RP_cons _ _ _ _ Hc Hq)) as H2. cbn [rpath] in H2. now rewrite Eg in H2.
  - rewrite subpaths_PL, sub_lgo_forall, N_PL. rewrite Forall_forall in IH. split.
    + intros H q HR. inversion HR as [|? k c q' Hin Hq]; subst; [reflexivity|].
      cbn [children] in Hin. apply In_n_list in Hin. destruct Hin as (j & v & En & Ek & Ec). subst k c.
      destruct (H j v En) as (ov & Ho & Hsub). rewrite (pchild_erase _ _ Hs) in Ho.
      cbn [rpath]. destruct (aget (KI (0 + Z.of_nat j)) (children s)) as [sc|] eqn:Eg; [|discriminate]. cbn in Ho. inversion Ho; subst ov.
      assert (Hsc : OldX sc) by (eapply aget_Forall; [apply OldX_children; exact Hs|exact Eg]).
      exact (proj1 (IH v (nth_error_In _ _ En) (Some true) sc Hsc) Hsub q' Hq).
    + intros H j v En.
      assert (Hc : In (KI (0 + Z.of_nat j), N isf ds src (Some true) v) (children (Comp CList (nf isf ds src idel) SNone (n_list isf ds src 0 l)))).
      { cbn [children]. apply In_n_list. exists j, v. auto. }
      pose proof (H [KI (0 + Z.of_nat j)] (RP_cons _ _ _ _ Hc (RP_nil _))) as H1. cbn [rpath] in H1.
      destruct (aget (KI (0 + Z.of_nat j)) (children s)) as [sc|] eqn:Eg; [|discriminate].
      exists (erase sc). split; [rewrite (pchild_erase _ _ Hs), Eg; reflexivity|].
      assert (Hsc : OldX sc) by (eapply aget_Forall; [apply OldX_children; exact Hs|exact Eg]).
      apply (proj2 (IH v (nth_error_In _ _ En) (Some true) sc Hsc)). intros q' Hq.
      pose proof (H (KI (0 + Z.of_nat j) :: q') (RP_cons _ _ _ _ Hc Hq)) as H2. cbn [rpath] in H2. now rewrite Eg in H2.
Qed.

(* ---------- _require_all_new on overlay nodes ---------- *)
Lemma app_inv_head' {A} (p a b : list A) : p ++ a = p ++ b -> a = b.
Proof. apply app_inv_head. Qed.

Lemma require_all_new_self n p exc :
  require_all_new n p exc true = forallb (fun pn => allow_new (nflags (snd pn)) || path_in (fst pn) exc)%bool (nwp p n).
Proof. destruct n; reflexivity. Qed.

Lemma require_N isf ds src idel po p R s : OldX s ->
  (forall x, In x R <-> exists q, q <> [] /\ x = p ++ q /\ rpath s q = true) ->
  require_all_new (N isf ds src idel po) p (p :: R) true = subpaths po (erase s).
Proof.
  intros Hs HR. apply Bool.eq_iff_eq_true.
  rewrite require_all_new_self. rewrite forallb_forall, (sub_RP isf ds src po idel s Hs). split.
  - intros H q Hq. destruct (RP_nwp _ p q Hq) as (m & Hm). specialize (H _ Hm). cbn [fst snd] in H.
    pose proof (N_nwp_notnew isf ds src po idel p) as Hnn. rewrite Forall_forall in Hnn. pose proof (Hnn _ Hm) as Hm2. cbn [snd] in Hm2. rewrite Hm2 in H. cbn [orb] in H.
    apply path_in_In in H. destruct H as [E|Hin].
    + rewrite <- (app_nil_r p) in E at 1. apply app_inv_head in E. now subst q.
    + apply HR in Hin. destruct Hin as (q2 & _ & E & Hr). apply app_inv_head in E. now subst q2.
  - intros H [x m] Hin. cbn [fst snd]. destruct (nwp_RP _ _ _ _ Hin) as (q & -> & Hq). specialize (H q Hq).
    apply orb_true_iff. right. apply path_in_In. destruct q as [|k q].
    + left. now rewrite app_nil_r.
    + right. apply HR. exists (k :: q). split; [discriminate|auto].
Qed.

Definition leafish (po : plain) : bool := match po with PS _ => true | PD [] => true | PL [] => true | _ => false end.

Lemma require_desc isf ds src idel po f q :
  require_all_new (with_flags (N isf ds src idel po) f) q [] false = leafish po.
Proof.
  destruct po as [v|kv|l].
  - reflexivity.
  - rewrite N_PD. cbn [with_flags]. unfold require_all_new, nodes_with_paths. rewrite nwp_comp. cbn [tl].
    destruct kv as [|[k v] r]; [reflexivity|]. cbn [map flat_map fst snd leafish].
    destruct (nwp (q ++ [k]) (N isf ds src idel v)) as [|[x m] rest] eqn:E.
    { destruct (N isf ds src idel v); cbn in E; discriminate. }
    assert (Em : m = N isf ds src idel v) by (destruct (N isf ds src idel v); cbn in E; inversion E; reflexivity).
    cbn [app forallb fst snd]. subst m. rewrite N_flags. reflexivity.
  - rewrite N_PL. cbn [with_flags]. unfold require_all_new, nodes_with_paths. rewrite nwp_comp. cbn [tl].
    destruct l as [|v r]; [reflexivity|]. cbn [n_list flat_map fst snd leafish].
    destruct (nwp (q ++ [KI 0]) (N isf ds src (Some true) v)) as [|[x m] rest] eqn:E.
    { destruct (N isf ds src (Some true) v); cbn in E; discriminate. }
    assert (Em : m = N isf ds src (Some true) v) by (destruct (N isf ds src (Some true) v); cbn in E; inversion E; reflexivity).
    cbn [app forallb fst snd]. subst m. rewrite N_flags. reflexivity.
Qed.

Lemma upd_nn_leaf v po : upd_nn (PS v) po = if leafish po then Ok po else Err EMerge [].
Proof.
  destruct po as [w|kv|l]; [reflexivity|destruct kv; reflexivity|].
  rewrite upd_nn_PL, subpaths_PL. destruct l as [|a r]; reflexivity.
Qed.

Lemma aset_fst {V} k (v w : V) : forall l, aget k l = Some w -> map fst (aset k v l) = map fst l.
Proof.
  induction l as [|[k' v'] r IH]; cbn; [discriminate|].
  destruct (key_eqb k k') eqn:E; intro H; cbn.
  - apply key_eqb_eq in E. now subst.
  - now rewrite IH.
Qed.

(* ---------- the main induction ---------- *)
Section MainNN.
  Variables (isf ds : option bool) (src : Z).
  Notation NN := (N isf ds src None).
  Notation inj := (fun kc : key * plain => (fst kc, N isf ds src None (snd kc))).

  Definition RelN (c : node) (r : res plain) (m : res (node * who)) : Prop :=
    match r with
    | Ok pr => exists n w, m = Ok (n, w) /\ OldX n /\ erase n = pr /\
                 (is_comp c = false -> w = Other /\ forall q, require_all_new n q [] false = true)
    | Err _ _ => (exists q, m = Err EMerge q) \/
                 (is_comp c = false /\ exists n, m = Ok (n, Other) /\ forall q, require_all_new n q [] false = false)
    end.

  Lemma leaf_merge_nn s po : OldX s -> puk po ->
    leaf_merge s (NN po) = (with_flags (NN po) (absorb (nf isf ds src None) (nflags s)), Other).
  Proof.
    intros Hs Hp. unfold leaf_merge. rewrite hpo_OX; [|apply OldX_OX; exact Hs|rewrite N_flags; apply OX_nf].
    cbn [replace_other fst]. now rewrite N_flags.
  Qed.

  Lemma leaf_case s po : OldX s -> puk po -> is_comp s = false ->
    RelN s (upd_nn (erase s) po) (Ok (leaf_merge s (NN po))).
  Proof.
    intros Hs Hp Hc. rewrite (leaf_merge_nn s po Hs Hp).
    destruct s as [lk lf lv|]; [|discriminate]. cbn [erase]. rewrite upd_nn_leaf.
    destruct (leafish po) eqn:El; cbn [RelN].
    - do 2 eexists. split; [reflexivity|]. split; [|split].
      + apply OldX_with_flags; [now apply N_oldx|]. apply OX_absorb, OX_nf.
      + now rewrite erase_with_flags, erase_N.
      + intros _. split; [reflexivity|]. intro q. now rewrite require_desc.
    - right. split; [reflexivity|]. eexists. split; [reflexivity|]. intro q. now rewrite require_desc.
  Qed.

  (* a scalar replaces a container *)
  Lemma scalar_case s v : OldX s -> is_comp s = true ->
    RelN s (Ok (PS v)) (Ok (leaf_merge s (NN (PS v)))).
  Proof.
    intros Hs Hc. rewrite (leaf_merge_nn s (PS v) Hs (puk_s v)). cbn [RelN].
    do 2 eexists. split; [reflexivity|]. split; [|split].
    - cbn. constructor. apply OX_absorb, OX_nf.
    - reflexivity.
    - intro H. congruence.
  Qed.

  Lemma require_root_false v p : require_all_new (NN v) p [] true = false.
  Proof. apply require_self_false; [now rewrite N_flags|reflexivity]. Qed.

  (* the loop over a mapping merged onto a mapping *)
  Lemma loop_dict_nn rec p f x : forall kv chs,
    (forall k v c, In (k, v) kv -> OldX c -> RelN c (upd_nn (erase c) v) (rec (p ++ [k]) c (NN v))) ->
    OldX (Comp CDict f x chs) ->
    match nn_dgo kv (map (fun kc => (fst kc, erase (snd kc))) chs) with
    | Ok r => exists chs', fold_left (merge_step rec [] p) (map inj kv) (Ok (Comp CDict f x chs)) = Ok (Comp CDict f x chs')
                           /\ OldX (Comp CDict f x chs') /\ map (fun kc => (fst kc, erase (snd kc))) chs' = r
    | Err _ _ => exists q, fold_left (merge_step rec [] p) (map inj kv) (Ok (Comp CDict f x chs)) = Err EMerge q
    end.
  Proof.
    induction kv as [|[k v] rest IH]; intros chs Hrec Hold.
    - cbn. exists chs. auto.
    - cbn [nn_dgo map fold_left fst snd].
      assert (Hf : OX f) by (apply OldX_OX in Hold; exact Hold).
      assert (HF : Forall (fun kc => OldX (snd kc)) chs) by (apply OldX_children in Hold; exact Hold).
      assert (Hnd : NoDup (map fst chs)) by (apply OldX_nodup in Hold; exact Hold).
      rewrite aget_map.
      destruct (aget k chs) as [c|] eqn:Eg; cbn [option_map].
      + assert (Hc : OldX c) by (eapply aget_Forall; eauto).
        assert (Hstep : forall n' m, OldX n' -> erase n' = m ->
                 merge_step rec [] p (Ok (Comp CDict f x chs)) (k, NN v) = Ok (Comp CDict f x (aset k n' chs)) ->
                 match nn_dgo rest (aset k m (map (fun kc => (fst kc, erase (snd kc))) chs)) with
                 | Ok r => exists chs', fold_left (merge_step rec [] p) (map inj rest) (merge_step rec [] p (Ok (Comp CDict f x chs)) (k, NN v)) = Ok (Comp CDict f x chs')
                                        /\ OldX (Comp CDict f x chs') /\ map (fun kc => (fst kc, erase (snd kc))) chs' = r
                 | Err _ _ => exists q, fold_left (merge_step rec [] p) (map inj rest) (merge_step rec [] p (Ok (Comp CDict f x chs)) (k, NN v)) = Err EMerge q
                 end).
        { intros n' m Hn' Hm Heq. rewrite Heq. subst m.
          specialize (IH (aset k n' chs)). rewrite aset_map in IH. apply IH.
          - intros k0 v0 c0 Hin. apply Hrec. right. exact Hin.
          - constructor; auto; [apply aset_Forall; auto|]. now rewrite (aset_fst k n' c chs Eg). }
        specialize (Hrec k v c (or_introl eq_refl) Hc).
        destruct (upd_nn (erase c) v) as [m|e q] eqn:Eu; cbn [bind RelN] in *.
        * destruct Hrec as (n & w & Er & Hn & En & Hleaf).
          assert (Hexp : explicit_delete (NN v) = false) by (unfold explicit_delete; now rewrite N_flags).
          assert (Hexpn : explicit_delete n = false) by (apply OldX_explicit_delete; exact Hn).
          destruct (is_comp c) eqn:Eic.
          -- destruct w.
             ++ apply (Hstep n m Hn En).
                unfold merge_step. cbn [bind get_child is_listk]. rewrite Eg. cbn [path_in existsb]. rewrite Er. cbn [bind].
                rewrite Eic, Hexp, !andb_false_r. reflexivity.
             ++ apply (Hstep (adopt (child_kwargs (Comp CDict f x chs)) n) m); [apply adopt_oldx; auto|rewrite adopt_erase; exact En|].
                unfold merge_step. cbn [bind get_child is_listk]. rewrite Eg. cbn [path_in existsb]. rewrite Er. cbn [bind].
                rewrite Eic, Hexp, !andb_false_r. reflexivity.
          -- destruct (Hleaf eq_refl) as [-> Hreq].
             apply (Hstep (adopt (child_kwargs (Comp CDict f x chs)) n) m); [apply adopt_oldx; auto|rewrite adopt_erase; exact En|].
             unfold merge_step. cbn [bind get_child is_listk]. rewrite Eg. cbn [path_in existsb]. rewrite Er. cbn [bind].
             rewrite Eic, Hreq, Hexpn, !andb_false_r. reflexivity.
        * destruct Hrec as [(q' & Er)|(Eic & n & Er & Hreq)].
          -- exists q'. unfold merge_step at 2. cbn [bind get_child is_listk]. rewrite Eg. cbn [path_in existsb]. rewrite Er. cbn [bind].
             apply fold_merge_step_err.
          -- exists p. unfold merge_step at 2. cbn [bind get_child is_listk]. rewrite Eg. cbn [path_in existsb]. rewrite Er. cbn [bind].
             rewrite Eic, Hreq. apply fold_merge_step_err.
      + (* a key that does not exist yet: refused *)
        exists p. unfold merge_step at 2. cbn [bind get_child is_listk]. rewrite Eg.
        rewrite require_root_false. apply fold_merge_step_err.
  Qed.

  (* the loop over a mapping merged onto a list: every key addresses an existing element *)
  Lemma loop_list_nn rec p f x : forall kv chs,
    (forall k v c, In (k, v) kv -> OldX c -> RelN c (upd_nn (erase c) v) (rec (p ++ [k]) c (NN v))) ->
    OldX (Comp CList f x chs) ->
    keys_valid (zlen chs) kv = true ->
    match nn_lgo kv (map (fun kc => erase (snd kc)) chs) with
    | Ok r => exists chs', fold_left (merge_step rec [] p) (map inj kv) (Ok (Comp CList f x chs)) = Ok (Comp CList f x chs')
                           /\ OldX (Comp CList f x chs') /\ map (fun kc => erase (snd kc)) chs' = r
    | Err _ _ => exists q, fold_left (merge_step rec [] p) (map inj kv) (Ok (Comp CList f x chs)) = Err EMerge q
    end.
  Proof.
    induction kv as [|[k v] rest IH]; intros chs Hrec Hold Hkv.
    - cbn. exists chs. auto.
    - cbn [nn_lgo map fold_left fst snd].
      assert (Hf : OX f) by (apply OldX_OX in Hold; exact Hold).
      assert (HF : Forall (fun kc => OldX (snd kc)) chs) by (apply OldX_children in Hold; exact Hold).
      assert (HK : keys_enum 0 chs) by (inversion Hold; auto).
      cbn [keys_valid forallb fst] in Hkv. apply andb_true_iff in Hkv. destruct Hkv as [Hk Hrest].
      rewrite zlen_map.
      destruct (validate_index (zlen chs) k true) as [i| |] eqn:Ev; try discriminate. clear Hk.
      destruct (validate_strict _ _ _ Ev) as [Evn Hi].
      destruct (nth_error chs (Z.to_nat i)) as [[ki c]|] eqn:En.
      2:{ apply nth_error_None in En. unfold zlen in Hi. lia. }
      assert (Eg : aget (KI i) chs = Some c) by (apply (keys_enum_aget chs 0 i (ki, c)); auto; lia).
      assert (Hc : OldX c) by (eapply aget_Forall; eauto).
      rewrite nth_error_map', En. cbn [option_map snd].
      assert (Hstep : forall n' m, OldX n' -> erase n' = m ->
                 merge_step rec [] p (Ok (Comp CList f x chs)) (k, NN v) = Ok (Comp CList f x (aset (KI i) n' chs)) ->
                 match nn_lgo rest (lset (Z.to_nat i) m (map (fun kc => erase (snd kc)) chs)) with
                 | Ok r => exists chs', fold_left (merge_step rec [] p) (map inj rest) (merge_step rec [] p (Ok (Comp CList f x chs)) (k, NN v)) = Ok (Comp CList f x chs')
                                        /\ OldX (Comp CList f x chs') /\ map (fun kc => erase (snd kc)) chs' = r
                 | Err _ _ => exists q, fold_left (merge_step rec [] p) (map inj rest) (merge_step rec [] p (Ok (Comp CList f x chs)) (k, NN v)) = Err EMerge q
                 end).
      { intros n' m Hn' Hm Heq. rewrite Heq. subst m.
        destruct (keys_enum_aset chs 0 i n' HK Hi) as [Ea Hke]. cbn [Z.add] in Ea, Hke.
        specialize (IH (aset (KI i) n' chs)).
        assert (El : map (fun kc => erase (snd kc)) (aset (KI i) n' chs) = lset (Z.to_nat i) (erase n') (map (fun kc => erase (snd kc)) chs)).
        { rewrite Ea. rewrite lset_map. reflexivity. }
        rewrite El in IH. apply IH.
        - intros k0 v0 c0 Hin. apply Hrec. right. exact Hin.
        - constructor; auto. apply aset_Forall; auto.
        - assert (zlen (aset (KI i) n' chs) = zlen chs) as -> by (rewrite Ea; unfold zlen; now rewrite lset_length). exact Hrest. }
      specialize (Hrec k v c (or_introl eq_refl) Hc).
      destruct (upd_nn (erase c) v) as [m|e q] eqn:Eu; cbn [bind RelN] in *.
      + destruct Hrec as (n & w & Er & Hn & En' & Hleaf).
        assert (Hexp : explicit_delete (NN v) = false) by (unfold explicit_delete; now rewrite N_flags).
        assert (Hexpn : explicit_delete n = false) by (apply OldX_explicit_delete; exact Hn).
        destruct (is_comp c) eqn:Eic.
        * destruct w.
          -- apply (Hstep n m Hn En').
             unfold merge_step. cbn [bind get_child is_listk]. rewrite Ev, Eg. cbn [path_in existsb]. rewrite Er. cbn [bind].
             rewrite Eic, Hexp, !andb_false_r. cbn [put_child is_listk]. rewrite Ev. reflexivity.
          -- apply (Hstep (adopt (child_kwargs (Comp CList f x chs)) n) m); [apply adopt_oldx; auto|rewrite adopt_erase; exact En'|].
             unfold merge_step. cbn [bind get_child is_listk]. rewrite Ev, Eg. cbn [path_in existsb]. rewrite Er. cbn [bind].
             rewrite Eic, Hexp, !andb_false_r. cbn [set_child is_listk]. rewrite Evn. reflexivity.
        * destruct (Hleaf eq_refl) as [-> Hreq].
          apply (Hstep (adopt (child_kwargs (Comp CList f x chs)) n) m); [apply adopt_oldx; auto|rewrite adopt_erase; exact En'|].
          unfold merge_step. cbn [bind get_child is_listk]. rewrite Ev, Eg. cbn [path_in existsb]. rewrite Er. cbn [bind].
          rewrite Eic, Hreq, Hexpn, !andb_false_r. cbn [set_child is_listk]. rewrite Evn. reflexivity.
      + destruct Hrec as [(q' & Er)|(Eic & n & Er & Hreq)].
        * exists q'. unfold merge_step at 2. cbn [bind get_child is_listk]. rewrite Ev, Eg. cbn [path_in existsb]. rewrite Er. cbn [bind].
          apply fold_merge_step_err.
        * exists p. unfold merge_step at 2. cbn [bind get_child is_listk]. rewrite Ev, Eg. cbn [path_in existsb]. rewrite Er. cbn [bind].
          rewrite Eic, Hreq. apply fold_merge_step_err.
  Qed.

  Lemma delete_list_N l : delete (Comp CList (nf isf ds src None) SNone l) = true.
  Proof. unfold delete. cbn. apply list_default_delete. Qed.

  (* a (deleting) list below !notnew replaces whatever container was there - if all of its paths were there *)
  Lemma prune_list_nn p ck cf cx chs l :
    OldX (Comp ck cf cx chs) -> puk (PL l) ->
    let o := NN (PL l) in
    snd (prune p (Comp ck cf cx chs) o) =
    Some (if subpaths (PL l) (erase (Comp ck cf cx chs))
          then Ok (with_flags o (absorb (nf isf ds src None) cf), Other) else Err EMerge p).
  Proof.
    intros Hs Hp o. assert (Ho : OldX o) by (apply N_oldx; exact Hp).
    unfold prune. assert (Ed : delete o = true) by (unfold o; rewrite N_PL; apply delete_list_N). rewrite Ed.
    set (cond := fun (ap : path) (n : node) => has_priority_over n (first_not_missing o (skipn (length p) ap)) false).
    assert (Hc : forall q m, OldX m -> cond q m = false).
    { intros q m Hm. unfold cond. apply hpo_OX; [apply OldX_OX; exact Hm|]. apply OldX_OX, first_not_missing_oldx; exact Ho. }
    destruct (filter_all_x cond Hc _ p Hs) as [Ef ER].
    destruct (filter_nodes cond p (Comp ck cf cx chs)) as [s' removed]. cbn [fst snd clear_children] in Ef, ER. subst s'.
    cbn [children andb].
    assert (Hs' : OldX (Comp ck cf cx [])) by (inversion Hs; subst; constructor; auto; cbn; auto; constructor).
    rewrite hpo_OX by (apply OldX_OX; assumption).
    assert (Erq : require_all_new o p (p :: removed) true = subpaths (PL l) (erase (Comp ck cf cx chs))).
    { unfold o. apply (require_N isf ds src None (PL l) p removed _ Hs ER). }
    rewrite Erq.
    destruct (subpaths (PL l) (erase (Comp ck cf cx chs))); [|reflexivity].
    cbn [snd]. unfold replace_other. unfold o. rewrite N_PL. cbn [with_flags nflags maybe_promote].
    inversion Hs; subst; cbn [ckind_eqb subk is_funck is_listk is_plaink andb orb negb who_of]; reflexivity.
  Qed.

  Lemma merge_nn : forall fuel p s po, OldX s -> puk po -> (nsize (NN po) < fuel)%nat ->
    RelN s (upd_nn (erase s) po) (on_merge [] fuel p s (NN po)).
  Proof.
    induction fuel as [|fu IH]; intros p s po Hs Hp Hlt; [lia|].
    cbn [on_merge].
    destruct s as [lk lf lv | ck cf cx chs].
    - cbn [dispatch]. apply leaf_case; auto.
    - destruct po as [v | kv | l].
      + (* a scalar replaces the container *)
        assert (E : dispatch (on_merge [] fu) [] p (Comp ck cf cx chs) (NN (PS v)) = Ok (leaf_merge (Comp ck cf cx chs) (NN (PS v)))).
        { inversion Hs; subst; reflexivity. }
        rewrite E. cbn [upd_nn]. apply scalar_case; auto.
      + (* a mapping: merged key-wise into a mapping, index-wise into a list; new keys are refused *)
        rewrite N_PD in *. rewrite nsize_comp in Hlt.
        set (o := Comp CDict (nf isf ds src None) SNone (map inj kv)).
        assert (Ho : OldX o) by (unfold o; rewrite <- N_PD; apply N_oldx; exact Hp).
        assert (Hpk : forall k v, In (k, v) kv -> puk v).
        { inversion Hp as [| |? ? HF]; subst. rewrite Forall_forall in HF. intros k v Hin. apply (HF (k, v) Hin). }
        assert (Hrec : forall k v c, In (k, v) kv -> OldX c -> RelN c (upd_nn (erase c) v) (on_merge [] fu (p ++ [k]) c (NN v))).
        { intros k v c Hin Hc. apply IH; [exact Hc|eapply Hpk; eauto|].
          assert (nsize (NN v) <= list_sum (map (fun kc => nsize (snd kc)) (map inj kv)))%nat; [|lia].
          clear - Hin. unfold list_sum. induction kv as [|[k' v'] r IHr]; [contradiction|]. cbn [map fold_right snd fst]. destruct Hin as [E|Hin]; [inversion E; subst; lia|].
          specialize (IHr Hin). lia. }
        assert (Edo : delete o = false) by (unfold o, delete; cbn; apply dict_default_delete).
        assert (Hfin : forall s2, OldX s2 -> (exists f2 x2 c2, s2 = Comp ck f2 x2 c2) ->
                   exists r, (let '(r, promoted) := if has_priority_over o s2 true then replace_self s2 o true else replace_other s2 o true in
                              Ok (r, who_of promoted Self Other)) = Ok (r, Self) /\ OldX r /\ erase r = erase s2).
        { intros s2 H2 (f2 & x2 & c2 & ->).
          rewrite hpo_OX by (apply OldX_OX; assumption).
          unfold replace_self. cbn [with_flags nflags].
          assert (Hb : OX (become f2 (nflags o))) by (apply OX_become; [apply (OldX_OX _ H2)|apply (OldX_OX _ Ho)]).
          assert (Hpm : maybe_promote (Comp ck (become f2 (nflags o)) x2 c2) o = (Comp ck (become f2 (nflags o)) x2 c2, false)).
          { unfold o. inversion H2; subst; reflexivity. }
          rewrite Hpm. cbn [fst snd who_of]. eexists. split; [reflexivity|]. split.
          - apply propagate_oldx. inversion H2; subst; constructor; auto.
          - rewrite propagate_erase, !erase_comp. reflexivity. }
        inversion Hs as [|f0 x0 ch0 HOX HFch Hnd|f0 x0 ch0 HOX HFch HK]; subst.
        * (* mapping onto mapping *)
          rewrite erase_comp. cbn [is_listk]. rewrite upd_nn_PD_PD.
          cbn [dispatch is_funck is_listk]. unfold comp_merge. fold o. unfold o at 1.
          unfold prune. fold o. rewrite Edo.
          pose proof (loop_dict_nn (on_merge [] fu) p cf cx kv chs Hrec Hs) as HL.
          destruct (nn_dgo kv (map (fun kc => (fst kc, erase (snd kc))) chs)) as [r|e q]; cbn [bind RelN].
          -- destruct HL as (chs' & EL & Hold' & Er). rewrite EL. cbn [bind].
             destruct (Hfin (Comp CDict cf cx chs') Hold') as (r' & E' & Hr' & Ee'); [do 3 eexists; reflexivity|].
             rewrite E'. do 2 eexists. split; [reflexivity|]. split; [exact Hr'|]. split; [|intro Hx; discriminate].
             rewrite Ee', erase_comp. cbn [is_listk]. now rewrite Er.
          -- destruct HL as (q' & EL). rewrite EL. cbn [bind]. left. exists q'. reflexivity.
        * (* mapping onto list *)
          rewrite erase_comp. cbn [is_listk]. rewrite upd_nn_PL_PD, zlen_map.
          cbn [dispatch is_funck is_listk]. unfold list_merge. fold o. unfold o at 1. cbn [is_listk negb andb children].
          fold o. rewrite Edo. cbn [negb andb].
          assert (Ekv : dict_keys_ok (zlen chs) (map inj kv) = keys_valid (zlen chs) kv).
          { unfold dict_keys_ok, keys_valid. clear. induction kv as [|[k' v'] r IHr]; cbn; [reflexivity|]. now rewrite IHr. }
          rewrite Ekv. destruct (keys_valid (zlen chs) kv) eqn:Ekeys; cbn [negb].
          -- rewrite (filter_keep_x (keep_if_exists (Comp CList cf cx chs))); [|
               intros q m Hm; unfold keep_if_exists; rewrite hpo_OX; [apply orb_true_r|apply OldX_OX; exact Hm|apply OldX_OX, first_not_missing_oldx; exact Hs] | exact Ho].
             cbn [fst]. unfold comp_merge. unfold o at 1. unfold prune. fold o. rewrite Edo.
             pose proof (loop_list_nn (on_merge [] fu) p cf cx kv chs Hrec Hs Ekeys) as HL.
             destruct (nn_lgo kv (map (fun kc => erase (snd kc)) chs)) as [r|e q]; cbn [bind RelN].
             ++ destruct HL as (chs' & EL & Hold' & Er). rewrite EL. cbn [bind].
                destruct (Hfin (Comp CList cf cx chs') Hold') as (r' & E' & Hr' & Ee'); [do 3 eexists; reflexivity|].
                rewrite E'. do 2 eexists. split; [reflexivity|]. split; [exact Hr'|]. split; [|intro Hx; discriminate].
                rewrite Ee', erase_comp. cbn [is_listk]. now rewrite Er.
             ++ destruct HL as (q' & EL). rewrite EL. cbn [bind]. left. exists q'. reflexivity.
          -- cbn [RelN]. left. exists p. reflexivity.
      + (* a list replaces the container wholesale - provided it brings no new path *)
        pose proof (prune_list_nn p ck cf cx chs l Hs Hp) as Epr. cbv zeta in Epr.
        assert (Ho : OldX (NN (PL l))) by (apply N_oldx; exact Hp).
        pose proof (erase_N isf ds src (PL l) None) as Eer.
        rewrite N_PL in Epr, Ho, Eer |- *.
        set (o := Comp CList (nf isf ds src None) SNone (n_list isf ds src 0 l)) in *.
        assert (Ecm : comp_merge (on_merge [] fu) [] p (Comp ck cf cx chs) o =
                      if subpaths (PL l) (erase (Comp ck cf cx chs)) then Ok (with_flags o (absorb (nf isf ds src None) cf), Other) else Err EMerge p).
        { unfold comp_merge. unfold o at 1. fold o.
          destruct (prune p (Comp ck cf cx chs) o) as [s1 r1]. cbn [snd] in Epr. subst r1. reflexivity. }
        assert (E : dispatch (on_merge [] fu) [] p (Comp ck cf cx chs) o =
                    if subpaths (PL l) (erase (Comp ck cf cx chs)) then Ok (with_flags o (absorb (nf isf ds src None) cf), Other) else Err EMerge p).
        { inversion Hs; subst; cbn [dispatch is_funck is_listk]; [exact Ecm|].
          unfold list_merge. unfold o at 1. cbn [is_listk negb andb]. fold o.
          rewrite (filter_keep_x (keep_if_exists (Comp CList cf cx chs))); [exact Ecm| |exact Ho].
          intros q m Hm. unfold keep_if_exists. rewrite hpo_OX; [apply orb_true_r|apply OldX_OX; exact Hm|].
          apply OldX_OX, first_not_missing_oldx; exact Hs. }
        rewrite E, upd_nn_PL.
        destruct (subpaths (PL l) (erase (Comp ck cf cx chs))); cbn [RelN].
        * do 2 eexists. split; [reflexivity|]. split; [|split; [|intro Hx; discriminate]].
          -- apply OldX_with_flags; [exact Ho|apply OX_absorb, OX_nf].
          -- rewrite erase_with_flags. exact Eer.
        * left. exists p. reflexivity.
  Qed.
End MainNN.

(* ---------- the !notnew root itself, merge2, flatten ---------- *)
Definition PO (f : flags) : Prop := f_prio f = None /\ f_del f = None /\ f_idel f = None.

Lemma merge_nn_root isf ds src fr fuel p cf cx chs kv :
  PO fr -> OldX (Comp CDict cf cx chs) -> puk (PD kv) ->
  let o := Comp CDict fr SNone (map (fun kc => (fst kc, N isf ds src None (snd kc))) kv) in
  (nsize o < fuel)%nat ->
  match upd_nn (erase (Comp CDict cf cx chs)) (PD kv) with
  | Ok pr => exists n, on_merge [] fuel p (Comp CDict cf cx chs) o = Ok (n, Self) /\ OldX n /\ erase n = pr
  | Err _ _ => exists q, on_merge [] fuel p (Comp CDict cf cx chs) o = Err EMerge q
  end.
Proof.
  intros (Hp1 & Hp2 & Hp3) Hs Hp o Hlt. destruct fuel as [|fu]; [lia|].
  cbn [on_merge dispatch is_funck is_listk]. unfold comp_merge. unfold o at 1. fold o.
  assert (Edo : delete o = false) by (unfold o, delete; cbn [nflags]; rewrite Hp2, Hp3; cbn; apply dict_default_delete).
  unfold prune. rewrite Edo.
  assert (Hpk : forall k v, In (k, v) kv -> puk v).
  { inversion Hp as [| |? ? HF]; subst. rewrite Forall_forall in HF. intros k v Hin. apply (HF (k, v) Hin). }
  unfold o in Hlt. rewrite nsize_comp in Hlt.
  assert (Hrec : forall k v c, In (k, v) kv -> OldX c -> RelN c (upd_nn (erase c) v) (on_merge [] fu (p ++ [k]) c (N isf ds src None v))).
  { intros k v c Hin Hc. apply merge_nn; [exact Hc|eapply Hpk; eauto|].
    assert (nsize (N isf ds src None v) <= list_sum (map (fun kc => nsize (snd kc)) (map (fun kc => (fst kc, N isf ds src None (snd kc))) kv)))%nat; [|lia].
    clear - Hin. unfold list_sum. induction kv as [|[k' v'] r IHr]; [contradiction|]. cbn [map fold_right snd fst]. destruct Hin as [E|Hin]; [inversion E; subst; lia|].
    specialize (IHr Hin). lia. }
  rewrite erase_comp. cbn [is_listk]. rewrite upd_nn_PD_PD.
  pose proof (loop_dict_nn isf ds src (on_merge [] fu) p cf cx kv chs Hrec Hs) as HL.
  destruct (nn_dgo kv (map (fun kc => (fst kc, erase (snd kc))) chs)) as [r|e q]; cbn [bind].
  - destruct HL as (chs' & EL & Hold' & Er). rewrite EL. cbn [bind].
    assert (Eh : has_priority_over o (Comp CDict cf cx chs') true = true).
    { unfold has_priority_over.
      assert (P1 : priority (nflags o) = 0) by (unfold priority, o; cbn [nflags]; now rewrite Hp1).
      assert (P2 : priority (nflags (Comp CDict cf cx chs')) = 0) by (apply OX_priority, OldX_OX; exact Hold').
      now rewrite P1, P2. }
    rewrite Eh. unfold replace_self. cbn [with_flags nflags maybe_promote ckind_eqb fst snd who_of]. unfold o at 1. cbn [ckind_eqb fst snd who_of].
    eexists. split; [reflexivity|]. split.
    + apply propagate_oldx. inversion Hold' as [|f0 x0 ch0 HOX HFch Hnd|]; subst. constructor; auto.
      destruct HOX as (h1 & h2 & h3). unfold o. cbn [nflags]. repeat split; cbn; auto.
    + rewrite propagate_erase, !erase_comp. cbn [is_listk]. now rewrite Er.
  - destruct HL as (q' & EL). unfold o at 1. rewrite EL. cbn [bind]. eauto.
Qed.

Lemma OldX_PlainT : forall n, OldX n -> EvalPlain.PlainT n.
Proof.
  induction n as [k f v|k f x ch IH] using node_ind'; intro H.
  - inversion H; subst. constructor.
  - assert (HF : Forall (fun kc => EvalPlain.PlainT (snd kc)) ch).
    { pose proof (OldX_children _ H) as HC. cbn in HC. clear H. induction IH as [|kc r Hkc Hr IHr]; [constructor|].
      inversion HC; subst. constructor; auto. }
    pose proof (OldX_nodup _ H) as Hnd. cbn in Hnd.
    inversion H; subst; constructor; auto.
Qed.

(* tag-free content as a YAML graph *)
Fixpoint yof (p : plain) : ynode :=
  match p with
  | PS v => YS T0 v
  | PD l => YM T0 ((fix go (l : list (key * plain)) := match l with [] => [] | (k, c) :: r => (k, yof c) :: go r end) l)
  | PL l => YQ T0 ((fix go (l : list plain) := match l with [] => [] | c :: r => yof c :: go r end) l)
  end.

Lemma yof_PD l : yof (PD l) = YM T0 (map (fun kc => (fst kc, yof (snd kc))) l).
Proof. cbn [yof]. f_equal. induction l as [|[k c] r IH]; cbn; [reflexivity|]. now rewrite IH. Qed.
Lemma yof_PL l : yof (PL l) = YQ T0 (map yof l).
Proof. reflexivity. Qed.

Lemma load_yof c : forall p kw, ck_any kw = true -> ck_inew kw = Some false ->
  load c None kw (yof p) = N (ck_isafe kw) (c_dsafe c) (c_src c) (ck_idel kw) p.
Proof.
  induction p as [v|l IH|l IH] using plain_ind'; intros kw Ha Hn.
  - cbn [yof load N]. unfold own_flags, nf. cbn. now rewrite Ha, Hn.
  - rewrite yof_PD, load_YM, N_PD.
    assert (Ef : own_flags c None kw T0 = nf (ck_isafe kw) (c_dsafe c) (c_src c) (ck_idel kw)).
    { unfold own_flags, nf. cbn. now rewrite Ha, Hn. }
    rewrite Ef. f_equal. rewrite map_map. cbn [fst snd].
    set (kw' := child_kwargs (Comp CDict (nf (ck_isafe kw) (c_dsafe c) (c_src c) (ck_idel kw)) SNone [])).
    assert (K1 : ck_any kw' = true) by reflexivity.
    assert (K2 : ck_inew kw' = Some false) by reflexivity.
    assert (K3 : ck_isafe kw' = ck_isafe kw) by reflexivity.
    assert (K4 : ck_idel kw' = ck_idel kw) by (unfold kw'; cbn [child_kwargs nflags ck_idel f_del f_idel nf own_flags default_delete]; now rewrite dict_default_delete).
    change (inh_prio None T0) with (@None Z).
    induction IH as [|[k v] r Hv Hr IHr]; cbn [map fst snd]; [reflexivity|].
    cbn in Hv. rewrite (Hv kw' K1 K2), K3, K4. f_equal. exact IHr.
  - rewrite yof_PL, load_YQ, N_PL.
    assert (Ef : own_flags c None kw T0 = nf (ck_isafe kw) (c_dsafe c) (c_src c) (ck_idel kw)).
    { unfold own_flags, nf. cbn. now rewrite Ha, Hn. }
    rewrite Ef. f_equal.
    set (kw' := child_kwargs (Comp CList (nf (ck_isafe kw) (c_dsafe c) (c_src c) (ck_idel kw)) SNone [])).
    assert (K1 : ck_any kw' = true) by reflexivity.
    assert (K2 : ck_inew kw' = Some false) by reflexivity.
    assert (K3 : ck_isafe kw' = ck_isafe kw) by reflexivity.
    assert (K4 : ck_idel kw' = Some true) by (unfold kw'; cbn [child_kwargs nflags ck_idel f_del f_idel nf own_flags default_delete]; now rewrite list_default_delete).
    change (inh_prio None T0) with (@None Z).
    generalize 0. induction IH as [|v r Hv Hr IHr]; intro i; cbn [map load_list n_list]; [reflexivity|].
    rewrite (Hv kw' K1 K2), K3, K4. f_equal. apply IHr.
Qed.

(* the document  !notnew {k: v, ...}  with tag-free values *)
Definition notnew_doc (kv : list (key * plain)) : ynode := YM OverrideLoad.notnew_tag (map (fun kc => (fst kc, yof (snd kc))) kv).

Lemma load_notnew_doc c kv :
  load_doc c (notnew_doc kv) =
  Comp CDict (own_flags c None no_kw OverrideLoad.notnew_tag) SNone (map (fun kc => (fst kc, N None (c_dsafe c) (c_src c) None (snd kc))) kv).
Proof.
  unfold load_doc, notnew_doc. rewrite load_YM. f_equal. rewrite map_map. cbn [fst snd].
  set (kw' := child_kwargs (Comp CDict (own_flags c None no_kw OverrideLoad.notnew_tag) SNone [])).
  assert (K1 : ck_any kw' = true) by reflexivity.
  assert (K2 : ck_inew kw' = Some false) by reflexivity.
  assert (K3 : ck_isafe kw' = None) by reflexivity.
  assert (K4 : ck_idel kw' = None) by (unfold kw'; cbn [child_kwargs nflags ck_idel f_del f_idel nf own_flags default_delete]; now rewrite dict_default_delete).
  change (inh_prio None OverrideLoad.notnew_tag) with (@None Z).
  induction kv as [|[k v] r IH]; cbn [map fst snd]; [reflexivity|].
  rewrite (load_yof c v kw' K1 K2), K3, K4. f_equal. exact IH.
Qed.

Lemma aset_nodup {V} k (v : V) : forall l, NoDup (map fst l) -> NoDup (map fst (aset k v l)).
Proof.
  induction l as [|[k' v'] r IH]; cbn; intro H; [constructor; [intros []|constructor]|].
  inversion H as [|? ? Hni Hnd]; subst. destruct (key_eqb k k') eqn:E; cbn.
  - apply key_eqb_eq in E. subst. constructor; auto.
  - constructor; [|auto]. intro Hin.
    assert (G : forall l0, In k' (map fst (aset k v l0)) -> k' = k \/ In k' (map fst l0)).
    { clear. induction l0 as [|[k2 v2] r2 IH2]; cbn; [intros [E|[]]; auto|].
      destruct (key_eqb k k2) eqn:E2; cbn; [apply key_eqb_eq in E2; subst; intuition|].
      intros [E|Hin]; [auto|]. destruct (IH2 Hin); auto. }
    destruct (G r Hin) as [E2|Hin2]; [subst; rewrite key_eqb_refl in E; discriminate|contradiction].
Qed.

(* the reference update keeps keys unique *)
Lemma upd_puk : forall d a r, puk a -> puk d -> upd a d = Ok r -> puk r.
Proof.
  induction d as [v|kv IH|l IH] using plain_ind'; intros a r Ha Hd H.
  - destruct a; cbn in H; inversion H; subst; exact Hd.
  - inversion Hd as [| |? Hnd HFd]; subst. destruct a as [s|okv|ol].
    + cbn in H. inversion H; subst. exact Hd.
    + rewrite upd_PD_PD in H. inversion Ha as [| |? Hnda HFa]; subst.
      assert (L : forall acc r', NoDup (map fst acc) -> Forall (fun kc => puk (snd kc)) acc -> upd_dgo kv acc = Ok r' ->
                                 NoDup (map fst r') /\ Forall (fun kc => puk (snd kc)) r').
      { clear H Hnd Hd. induction IH as [|[k v] rest Hv Hrest IHrest]; intros acc r' Hn HF H; cbn [upd_dgo] in H; [inversion H; subst; auto|].
        inversion HFd as [|? ? Hpv HFd']; subst. cbn in Hpv, Hv.
        destruct (aget k acc) as [ov|] eqn:Eg.
        - destruct (upd ov v) as [m|e q] eqn:E; cbn [bind] in H; [|discriminate].
          apply (IHrest HFd' _ _ (aset_nodup k m acc Hn)); [|exact H].
          apply aset_Forall; [|exact HF]. apply (Hv ov m); auto. exact (aget_Forall (fun x => puk x) k acc ov HF Eg).
        - apply (IHrest HFd' _ _ (aset_nodup k v acc Hn)); [|exact H]. apply aset_Forall; auto. }
      destruct (upd_dgo kv okv) as [r'|e q] eqn:E; cbn in H; [|discriminate]. inversion H; subst.
      destruct (L _ _ Hnda HFa E) as [L1 L2]. constructor; auto.
    + rewrite upd_PL_PD in H. destruct (keys_valid (zlen ol) kv); [|discriminate]. inversion Ha as [|? HFa|]; subst.
      assert (L : forall acc r', Forall puk acc -> upd_lgo kv acc = Ok r' -> Forall puk r').
      { clear H Hnd Hd. induction IH as [|[k v] rest Hv Hrest IHrest]; intros acc r' HF H; cbn [upd_lgo] in H; [inversion H; subst; auto|].
        inversion HFd as [|? ? Hpv HFd']; subst. cbn in Hpv, Hv.
        destruct (validate_index (zlen acc) k true); try discriminate.
        destruct (nth_error acc (Z.to_nat i)) as [ov|] eqn:En; [|discriminate].
        destruct (upd ov v) as [m|e q] eqn:E; cbn [bind] in H; [|discriminate].
        apply (IHrest HFd' (lset (Z.to_nat i) m acc) r'); [|exact H]. apply lset_Forall; [|exact HF].
        apply (Hv ov m); auto. rewrite Forall_forall in HF. apply HF. eapply nth_error_In; eauto. }
      destruct (upd_lgo kv ol) as [r'|e q] eqn:E; cbn in H; [|discriminate]. inversion H; subst. constructor. eapply L; eauto.
  - rewrite upd_other in H by (left; exact I). inversion H; subst. exact Hd.
Qed.

Lemma fold_merge2_plain_old e : forall rest root, Old root -> puk (erase root) -> Forall (fun d => puk (d_data d)) rest ->
  match fold_left (fun acc d => do a <- acc; upd a d) (map d_data rest) (Ok (erase root)) with
  | Ok r => exists n, fold_left (fun acc st => do root <- acc; merge2 e root st) (map load_plain rest) (Ok root) = Ok n /\ Old n /\ puk (erase n) /\ erase n = r
  | Err _ _ => exists q, fold_left (fun acc st => do root <- acc; merge2 e root st) (map load_plain rest) (Ok root) = Err EMerge q
  end.
Proof.
  induction rest as [|d rest IH]; intros root H Hp HF; cbn [map fold_left bind].
  - eauto.
  - inversion HF as [|? ? Hd HF']; subst.
    pose proof (merge2_plain e root d H) as HM.
    destruct (upd (erase root) (d_data d)) as [r|e' q] eqn:Eu.
    + destruct HM as (n & E & Hn & En). rewrite E. subst r. apply IH; [exact Hn| |exact HF'].
      eapply upd_puk; [exact Hp|exact Hd|exact Eu].
    + destruct HM as (q' & E). rewrite E, fold_merge2_err, fold_upd_err. eauto.
Qed.

Lemma merge2_notnew e c root kv : OldX root -> is_dictk root = true -> puk (PD kv) ->
  match upd_nn (erase root) (PD kv) with
  | Ok r => exists n, merge2 e root (load_doc c (notnew_doc kv)) = Ok n /\ OldX n /\ erase n = r
  | Err _ _ => exists q, merge2 e root (load_doc c (notnew_doc kv)) = Err EMerge q
  end.
Proof.
  intros Hr Hd Hp. rewrite load_notnew_doc.
  set (o := Comp CDict (own_flags c None no_kw OverrideLoad.notnew_tag) SNone (map (fun kc => (fst kc, N None (c_dsafe c) (c_src c) None (snd kc))) kv)).
  assert (HPT : EvalPlain.PlainT o).
  { unfold o. inversion Hp as [| |? Hnd HF]; subst. constructor.
    - clear Hnd Hp. induction kv as [|[k v] r IH]; cbn [map]; [constructor|]. inversion HF; subst. constructor; [|auto].
      cbn [snd]. apply OldX_PlainT, N_oldx. assumption.
    - rewrite map_map. cbn [fst]. exact Hnd. }
  unfold merge2. rewrite (LoaderLemmas.premerge_plainT e o [] (Some root) HPT). cbn [bind].
  inversion Hr as [|f0 x0 ch0 HOX HFch Hnd|]; subst; try discriminate.
  pose proof (merge_nn_root None (c_dsafe c) (c_src c) (own_flags c None no_kw OverrideLoad.notnew_tag)
                (nsize (Comp CDict f0 x0 ch0) + nsize o + 1) [] f0 x0 ch0 kv ltac:(repeat split) Hr Hp) as HM.
  cbv zeta in HM. fold o in HM. specialize (HM ltac:(lia)).
  destruct (upd_nn (erase (Comp CDict f0 x0 ch0)) (PD kv)) as [r|e' q].
  - destruct HM as (n & E & Hn & En). rewrite E. cbn [bind fst]. eauto.
  - destruct HM as (q' & E). rewrite E. cbn [bind]. eauto.
Qed.

(* tag-free documents followed by one tag-free document marked !notnew at its root *)
Theorem flatten_notnew_last e c d0 rest kv :
  forallb (fun d => is_PD (d_data d)) (d0 :: rest) = true ->
  Forall (fun d => puk (d_data d)) (d0 :: rest) -> puk (PD kv) ->
  match (do a <- upd_fold (d_data d0) (map d_data rest); upd_nn a (PD kv)) with
  | Ok r => exists n, flatten e (map load_plain (d0 :: rest) ++ [load_doc c (notnew_doc kv)]) = Ok n /\ erase n = r
  | Err _ _ => exists q, flatten e (map load_plain (d0 :: rest) ++ [load_doc c (notnew_doc kv)]) = Err EMerge q
  end.
Proof.
  intros Hd HF Hp. unfold upd_fold. cbn [map app].
  set (x := load_doc c (notnew_doc kv)).
  assert (Ex : is_dictk x = true) by (unfold x; rewrite load_notnew_doc; reflexivity).
  assert (E : forallb is_dictk (load_plain d0 :: map load_plain rest ++ [x]) = true).
  { cbn [forallb]. rewrite forallb_app. cbn [forallb]. rewrite Ex.
    assert (G : forall l, forallb (fun d => is_PD (d_data d)) l = true -> forallb is_dictk (map load_plain l) = true).
    { induction l as [|d l IH]; cbn; [reflexivity|]. intro H. apply andb_true_iff in H. destruct H as [H1 H2]. rewrite (IH H2), andb_true_r.
      unfold load_plain. destruct (d_data d); try discriminate. rewrite inject_PD. reflexivity. }
    pose proof (G (d0 :: rest) Hd) as G0. cbn [map forallb] in G0. apply andb_true_iff in G0. destruct G0 as [G1 G2]. now rewrite G1, G2. }
  assert (EF : flatten e (load_plain d0 :: map load_plain rest ++ [x]) =
               do root <- fold_left (fun acc st => do root <- acc; merge2 e root st) (map load_plain rest) (Ok (load_plain d0)); merge2 e root x).
  { unfold flatten. rewrite E. unfold load_plain at 1. rewrite premerge_plain. cbn [bind].
    rewrite require_all_new_old by apply inject_old. rewrite fold_left_app. reflexivity. }
  rewrite EF.
  inversion HF as [|? ? Hd0 HFr]; subst.
  pose proof (fold_merge2_plain_old e rest (load_plain d0) (inject_old _ _ _ _ _ _)) as HFo.
  unfold load_plain at 1 2 in HFo. rewrite erase_inject in HFo. specialize (HFo Hd0 HFr).
  destruct (fold_left (fun acc d => do a <- acc; upd a d) (map d_data rest) (Ok (d_data d0))) as [a|e' q] eqn:Efold; cbn [bind].
  - destruct HFo as (n & En & Hn & Hpn & Ea). fold (load_plain d0) in En. rewrite En. cbn [bind]. subst a.
    assert (Hnd : is_dictk n = true).
    { (* the fold of mapping documents is a mapping *)
      cbn [forallb] in Hd. apply andb_true_iff in Hd. destruct Hd as [Hd1 Hd2].
      destruct (d_data d0) as [|okv|] eqn:E0; try discriminate.
      assert (Hm : forallb is_PD (map d_data rest) = true).
      { clear - Hd2. induction rest as [|d r IHr]; cbn in *; [reflexivity|]. apply andb_true_iff in Hd2. destruct Hd2 as [A B]. now rewrite A, IHr. }
      pose proof (Laws.fold_PD_stays (map d_data rest) okv Hm) as HS. rewrite Efold in HS. destruct HS as (rkv & Erk).
      inversion Hn as [f0 v0 HOF|f0 x0 ch0 HOF HFc|f0 x0 ch0 HOF HFc HK]; subst; [discriminate|reflexivity|].
      rewrite erase_comp in Erk. discriminate. }
    pose proof (merge2_notnew e c n kv (Old_OldX n Hn Hpn) Hnd Hp) as HM. fold x in HM.
    destruct (upd_nn (erase n) (PD kv)) as [r|e' q].
    + destruct HM as (n' & E' & _ & Er). eauto.
    + exact HM.
  - destruct HFo as (q' & En). fold (load_plain d0) in En. rewrite En. cbn [bind]. eauto.
Qed.
