(* Proofs/FlagsLemmas.v — unfolding equations for the nested fixes and the facts about
   adoption / propagation that every merge proof uses: they never change content (erase), kinds or explicit flags. *)
From AY Require Import Model.Merge Proofs.NodeInd.

Lemma prop_as_comp f k f0 x ch :
  prop_as f (Comp k f0 x ch) =
  if prop_stops f then Comp k f x ch
  else Comp k f x (map (fun kc => (fst kc, prop_child prop_as f (if Facts.default_delete k then Some true else f_idel f) (snd kc))) ch).
Proof.
  cbn [prop_as]. destruct (prop_stops f); [reflexivity|]. f_equal.
  induction ch as [|[kk c] r IH]; cbn; [reflexivity|]. now rewrite IH.
Qed.

Fixpoint filter_go (cond : path -> node -> bool) (pre : path) (l : list (key * node)) : list (key * node * bool) * list path :=
  match l with
  | [] => ([], [])
  | kc :: r =>
    let '(m, rm) := filter_child (filter_nodes cond) cond pre kc in
    let '(rest, rem_r) := filter_go cond pre r in
    (m :: rest, rm ++ rem_r)
  end.

Lemma filter_nodes_comp cond pre k f x ch :
  filter_nodes cond pre (Comp k f x ch) =
  let res := filter_go cond pre ch in
  let kept := shift_kept (child_kwargs (Comp k f x ch)) (is_listk k) (fst res) false in
  (Comp k f x (if is_listk k then renum_from 0 kept else kept), snd res).
Proof.
  cbn [filter_nodes].
  assert (E : (fix go (l : list (key * node)) : list (key * node * bool) * list path :=
         match l with
         | [] => ([], [])
         | kc :: r =>
           let '(m, rm) := filter_child (filter_nodes cond) cond pre kc in
           let '(rest, rem_r) := go r in
           (m :: rest, rm ++ rem_r)
         end) ch = filter_go cond pre ch).
  { induction ch as [|kc r IH]; cbn [filter_go]; [reflexivity|]. now rewrite IH. }
  now rewrite E.
Qed.

(* ---------- the "content and explicit flags" view of a node ---------- *)
(* skeleton: everything except the three implicit flags *)
Definition same_explicit (a b : flags) : Prop :=
  f_prio a = f_prio b /\ f_del a = f_del b /\ f_new a = f_new b /\ f_safe a = f_safe b /\
  f_dsafe a = f_dsafe b /\ f_meta a = f_meta b /\ f_src a = f_src b.

Lemma same_explicit_refl f : same_explicit f f.
Proof. repeat split. Qed.

Lemma same_explicit_trans a b c : same_explicit a b -> same_explicit b c -> same_explicit a c.
Proof. unfold same_explicit. intuition congruence. Qed.

(* structural equality up to implicit flags *)
Inductive Sim : node -> node -> Prop :=
| SimLeaf k f f' v : same_explicit f f' -> Sim (Leaf k f v) (Leaf k f' v)
| SimComp k f f' x ch ch' :
    same_explicit f f' -> Forall2 (fun a b => fst a = fst b /\ Sim (snd a) (snd b)) ch ch' -> Sim (Comp k f x ch) (Comp k f' x ch').

Lemma Sim_refl n : Sim n n.
Proof.
  induction n as [k f v|k f x ch IH] using node_ind'.
  - constructor. apply same_explicit_refl.
  - constructor; [apply same_explicit_refl|].
    induction IH as [|kc r Hkc Hr IHr]; constructor; auto.
Qed.

Lemma Sim_with_flags n f : same_explicit (nflags n) f -> Sim n (with_flags n f).
Proof.
  destruct n as [k f0 v|k f0 x ch]; cbn; intro H; constructor; auto.
  clear. induction ch as [|kc r IH]; constructor; auto. split; [reflexivity|apply Sim_refl].
Qed.

Lemma Sim_erase a b : Sim a b -> erase a = erase b.
Proof.
  revert b. induction a as [k f v|k f x ch IH] using node_ind'; intros b H; inversion H; subst.
  - reflexivity.
  - rewrite !erase_comp.
    match goal with H2 : Forall2 _ ch ?ch' |- _ => rename H2 into HF; rename ch' into chb end.
    assert (E1 : map (fun kc => erase (snd kc)) ch = map (fun kc => erase (snd kc)) chb).
    { clear H. induction HF as [|a b r r' [Hk Hs] HF' IHF]; cbn; [reflexivity|].
      inversion IH; subst. f_equal; auto. }
    assert (E2 : map (fun kc => (fst kc, erase (snd kc))) ch = map (fun kc => (fst kc, erase (snd kc))) chb).
    { clear H E1. induction HF as [|a b r r' [Hk Hs] HF' IHF]; cbn; [reflexivity|].
      inversion IH; subst. f_equal; auto. f_equal; auto. }
    now rewrite E1, E2.
Qed.

Lemma Sim_trans a : forall b c, Sim a b -> Sim b c -> Sim a c.
Proof.
  induction a as [k f v|k f x ch IH] using node_ind'; intros b c H1 H2.
  - inversion H1 as [? ? fb ? Hse1|]; subst. inversion H2 as [? ? fc ? Hse2|]; subst.
    constructor. eapply same_explicit_trans; eauto.
  - inversion H1 as [|? ? fb ? ? chb Hse1 HF1]; subst. inversion H2 as [|? ? fc ? ? chc Hse2 HF2]; subst.
    constructor; [eapply same_explicit_trans; eauto|].
    clear H1 H2 Hse1 Hse2. revert chc HF2.
    induction HF1 as [|a b r r' [Hk Hs] HF' IHF]; intros chc HF2; inversion HF2 as [|? c0 ? rc [Hk' Hs'] HFc]; subst; constructor.
    + inversion IH as [|? ? Ha Hr]; subst. split; [congruence|]. eapply Ha; eauto.
    + inversion IH as [|? ? Ha Hr]; subst. apply IHF; auto.
Qed.

(* setters of implicit flags keep the explicit part *)
Lemma se_set_idel f v : same_explicit f (set_idel f v). Proof. repeat split. Qed.
Lemma se_set_inew f v : same_explicit f (set_inew f v). Proof. repeat split. Qed.
Lemma se_set_isafe f v : same_explicit f (set_isafe f v). Proof. repeat split. Qed.

Lemma se_if (b : bool) f g h : same_explicit f g -> same_explicit f h -> same_explicit f (if b then g else h).
Proof. destruct b; auto. Qed.

Ltac se_solve :=
  repeat first [ apply same_explicit_refl
               | apply se_if
               | (eapply same_explicit_trans; [|apply se_set_isafe])
               | (eapply same_explicit_trans; [|apply se_set_inew])
               | (eapply same_explicit_trans; [|apply se_set_idel]) ].

Lemma prop_as_sim : forall n f, same_explicit (nflags n) f -> Sim n (prop_as f n).
Proof.
  induction n as [k f0 v|k f0 x ch IH] using node_ind'; intros f H.
  - cbn. constructor. exact H.
  - rewrite prop_as_comp. destruct (prop_stops f).
    + constructor; [exact H|]. clear. induction ch; constructor; auto. split; [reflexivity|apply Sim_refl].
    + constructor; [exact H|].
      induction IH as [|kc r Hkc Hr IHr]; cbn; constructor; auto.
      split; [reflexivity|]. cbn [snd].
      unfold prop_child. cbv zeta.
      assert (Hg : same_explicit (nflags (snd kc)) (fst (pc_flags f (if Facts.default_delete k then Some true else f_idel f) (nflags (snd kc))))).
      { unfold pc_flags. cbv zeta. cbn [fst]. se_solve. }
      destruct (snd (pc_flags _ _ _)); [apply Hkc; exact Hg | apply Sim_with_flags; exact Hg].
Qed.

Lemma propagate_sim n : Sim n (propagate n).
Proof. apply prop_as_sim, same_explicit_refl. Qed.

Lemma adopt_sim kw c : Sim c (adopt kw c).
Proof.
  unfold adopt. destruct (ck_any kw); [|apply Sim_refl].
  apply prop_as_sim. unfold adopt_flags.
  cbv zeta. se_solve.
Qed.

Lemma adopt_erase kw c : erase (adopt kw c) = erase c.
Proof. symmetry. apply Sim_erase, adopt_sim. Qed.

Lemma propagate_erase n : erase (propagate n) = erase n.
Proof. symmetry. apply Sim_erase, propagate_sim. Qed.

(* priority and explicit delete only depend on the explicit part *)
Lemma Sim_flags a b : Sim a b -> same_explicit (nflags a) (nflags b).
Proof. intro H; inversion H; subst; cbn; auto. Qed.

Lemma Sim_priority a b : Sim a b -> priority (nflags a) = priority (nflags b).
Proof. intro H. apply Sim_flags in H. unfold priority. destruct H as [-> _]. reflexivity. Qed.

Lemma Sim_is_comp a b : Sim a b -> is_comp a = is_comp b.
Proof. intro H; inversion H; reflexivity. Qed.

Lemma Sim_truthy a b : Sim a b -> truthy a = truthy b.
Proof.
  intro H; inversion H; subst; cbn; [reflexivity|].
  destruct (is_funck k); [reflexivity|].
  match goal with HF : Forall2 _ ch ch' |- _ => inversion HF; reflexivity end.
Qed.
