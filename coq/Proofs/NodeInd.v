(* Proofs/NodeInd.v — induction principles for the nested node / plain types and basic list facts. *)
From AY Require Import Model.Node.

Section NodeInd.
  Variable P : node -> Prop.
  Hypothesis Hleaf : forall k f v, P (Leaf k f v).
  Hypothesis Hcomp : forall k f x ch, Forall (fun kc => P (snd kc)) ch -> P (Comp k f x ch).
  Fixpoint node_ind' (n : node) : P n :=
    match n with
    | Leaf k f v => Hleaf k f v
    | Comp k f x ch =>
      Hcomp k f x ch
        ((fix go (l : list (key * node)) : Forall (fun kc => P (snd kc)) l :=
            match l with
            | [] => Forall_nil _
            | kc :: r => Forall_cons kc (node_ind' (snd kc)) (go r)
            end) ch)
    end.
End NodeInd.

Section PlainInd.
  Variable P : plain -> Prop.
  Hypothesis Hs : forall v, P (PS v).
  Hypothesis Hd : forall l, Forall (fun kc => P (snd kc)) l -> P (PD l).
  Hypothesis Hl : forall l, Forall P l -> P (PL l).
  Fixpoint plain_ind' (p : plain) : P p :=
    match p with
    | PS v => Hs v
    | PD l => Hd l ((fix go (l : list (key * plain)) : Forall (fun kc => P (snd kc)) l :=
                       match l with [] => Forall_nil _ | kc :: r => Forall_cons kc (plain_ind' (snd kc)) (go r) end) l)
    | PL l => Hl l ((fix go (l : list plain) : Forall P l :=
                       match l with [] => Forall_nil _ | c :: r => Forall_cons c (plain_ind' c) (go r) end) l)
    end.
End PlainInd.

(* the nested fixes of Node.v as ordinary list functions *)
Lemma erase_comp k f x ch :
  erase (Comp k f x ch) =
  if is_listk k then PL (map (fun kc => erase (snd kc)) ch) else PD (map (fun kc => (fst kc, erase (snd kc))) ch).
Proof.
  cbn [erase]. destruct (is_listk k).
  - f_equal. induction ch as [|[kk c] r IH]; cbn; [reflexivity|]. now rewrite IH.
  - f_equal. induction ch as [|[kk c] r IH]; cbn; [reflexivity|]. now rewrite IH.
Qed.

Lemma nsize_comp k f x ch : nsize (Comp k f x ch) = S (list_sum (map (fun kc => nsize (snd kc)) ch)).
Proof.
  cbn [nsize]. f_equal. induction ch as [|[kk c] r IH]; cbn; [reflexivity|]. now rewrite IH.
Qed.

Lemma nwp_comp pre k f x ch :
  nwp pre (Comp k f x ch) = (pre, Comp k f x ch) :: flat_map (fun kc => nwp (pre ++ [fst kc]) (snd kc)) ch.
Proof.
  cbn [nwp]. f_equal. induction ch as [|[kk c] r IH]; cbn; [reflexivity|]. now rewrite IH.
Qed.

Lemma key_eqb_refl k : key_eqb k k = true.
Proof. destruct k; cbn; apply Z.eqb_refl. Qed.

Lemma key_eqb_eq a b : key_eqb a b = true <-> a = b.
Proof.
  destruct a, b; cbn; split; intro H; try discriminate; try (apply Z.eqb_eq in H; now subst);
    try (inversion H; apply Z.eqb_refl).
Qed.

Lemma key_eqb_neq a b : key_eqb a b = false <-> a <> b.
Proof.
  split; intro H.
  - intro E. apply key_eqb_eq in E. congruence.
  - destruct (key_eqb a b) eqn:E; [|reflexivity]. apply key_eqb_eq in E. contradiction.
Qed.

(* children of a list node are numbered consecutively *)
Fixpoint keys_enum (i : Z) (l : list (key * node)) : Prop :=
  match l with [] => True | kc :: r => fst kc = KI i /\ keys_enum (i + 1) r end.
