(* Proofs/FactsOk.v — the values of the regenerated facts that the proofs rely on.
   If /repo changes one of them, exactly the lemma naming it stops compiling. *)
From AY Require Import Model.Flags.

Lemma prio_order : (Facts.prio_weak <? Facts.prio_standard)%Z = true /\ (Facts.prio_standard <? Facts.prio_force)%Z = true.
Proof. split; reflexivity. Qed.
Lemma default_priority_is_standard : Facts.default_priority = Facts.prio_standard. Proof. reflexivity. Qed.
Lemma default_priority_0 : Facts.default_priority = 0%Z. Proof. reflexivity. Qed.
Lemma leaf_default_delete : Facts.leaf_default_delete = false. Proof. reflexivity. Qed.
Lemma default_allow_new : Facts.default_allow_new = true. Proof. reflexivity. Qed.
Lemma dict_default_delete : Facts.default_delete CDict = false. Proof. reflexivity. Qed.
Lemma list_default_delete : Facts.default_delete CList = true. Proof. reflexivity. Qed.
Lemma call_default_delete : Facts.default_delete CCall = true. Proof. reflexivity. Qed.
Lemma bind_default_delete : Facts.default_delete CBind = true. Proof. reflexivity. Qed.
Lemma append_default_delete : Facts.default_delete CAppend = true. Proof. reflexivity. Qed.
Lemma extend_default_delete : Facts.default_delete CExtend = true. Proof. reflexivity. Qed.
Lemma stream_default_delete : Facts.default_delete CStream = false. Proof. reflexivity. Qed.
Lemma call_ctor_delete : Facts.ctor_delete CCall = Some true. Proof. reflexivity. Qed.
Lemma bind_ctor_delete : Facts.ctor_delete CBind = Some true. Proof. reflexivity. Qed.
Lemma stream_ctor_delete : Facts.ctor_delete CStream = Some false. Proof. reflexivity. Qed.
Lemma stream_does_not_push_flags : Facts.stream_pushes_flags = false. Proof. reflexivity. Qed.
Lemma inherits_all :
  (Facts.inherits_priority && Facts.inherits_implicit_delete && Facts.inherits_implicit_allow_new && Facts.inherits_implicit_safe)%bool = true
  /\ Facts.kwargs_to_inherit_count = 5%Z.
Proof. split; reflexivity. Qed.
Lemma special_names :
  (Facts.special_idx && Facts.special_priority && Facts.special_delete && Facts.special_allow_new && Facts.special_source_file && Facts.special_safe)%bool = true
  /\ Facts.special_count = 6%Z.
Proof. split; reflexivity. Qed.
Lemma list_mutators_overridden :
  (Facts.list_overrides_append && Facts.list_overrides_insert && Facts.list_overrides_extend && Facts.list_overrides_remove
   && Facts.list_overrides_pop && Facts.list_overrides_clear && Facts.list_overrides_setitem && Facts.list_overrides_delitem
   && Facts.list_ns_overrides_set_child && Facts.list_ns_overrides_remove_child && Facts.list_ns_overrides_rename_child
   && Facts.list_ns_overrides_get_child)%bool = true.
Proof. reflexivity. Qed.
Lemma dict_mutators_overridden :
  (Facts.dict_overrides_pop && Facts.dict_overrides_clear && Facts.dict_overrides_update && Facts.dict_overrides_setdefault
   && Facts.dict_overrides_setitem && Facts.dict_overrides_delitem && Facts.dict_overrides_setattr && Facts.dict_overrides_delattr
   && Facts.dict_ns_overrides_set_child && Facts.dict_ns_overrides_remove_child && Facts.dict_ns_overrides_rename_child)%bool = true.
Proof. reflexivity. Qed.
Lemma parse_defaults_thread_local :
  (Facts.default_filename_is_thread_local && Facts.default_safe_is_thread_local && Facts.api_entered_is_thread_local)%bool = true.
Proof. reflexivity. Qed.
Lemma no_unlisted_shared_writes : Facts.unlisted_shared_writes = 0%Z. Proof. reflexivity. Qed.
Lemma path_regex_expected : Facts.path_regex_is_expected = true. Proof. reflexivity. Qed.
Lemma lookup_ref_dir_first_ok : Facts.lookup_ref_dir_first = true. Proof. reflexivity. Qed.
Lemma lookup_cwd_only_without_ref_ok : Facts.lookup_cwd_only_without_ref = true. Proof. reflexivity. Qed.
Lemma subbuilder_lookup_delegates_ok : Facts.subbuilder_lookup_delegates = true. Proof. reflexivity. Qed.
