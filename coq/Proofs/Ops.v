(* Proofs/Ops.v — !append / !extend / !prev move and grow existing content without loss (C16). *)
From AY Require Import Model.Merge Proofs.NodeInd Proofs.FlagsLemmas Proofs.Delete Proofs.Walk.

(* what remove_node hands back is exactly the node that get_node finds at that path *)
Lemma remove_node_returns_target : forall p root root' r,
  remove_node root p = Some (Some (root', r)) -> get_node root p = Some r.
Proof.
  induction p as [|k rest IH]; intros root root' r H; [discriminate|].
  destruct rest as [|k2 rest'].
  - cbn [remove_node] in H. cbn [get_node]. destruct (has_child root k); [|discriminate].
    destruct (get_child root k) as [c|]; [|discriminate]. destruct (remove_child root k); [|discriminate]. inversion H; subst. reflexivity.
  - change (remove_node root (k :: k2 :: rest')) with
      (if has_child root k then
         match get_child root k with
         | Some c => match remove_node c (k2 :: rest') with
                     | Some (Some (c', removed)) => Some (Some (put_child root k c', removed))
                     | Some None => Some None
                     | None => None
                     end
         | None => None
         end
       else Some None) in H.
    cbn [get_node]. destruct (has_child root k); [|discriminate].
    destruct (get_child root k) as [c|]; [|discriminate].
    destruct (remove_node c (k2 :: rest')) as [[[c' rm]|]|] eqn:E; try discriminate.
    inversion H; subst. eapply IH; eauto.
Qed.

(* a missing path is reported as missing, never as some other node *)
Lemma remove_node_missing : forall p root, p <> [] -> get_node root p = None -> remove_node root p = Some None \/ remove_node root p = None.
Proof.
  induction p as [|k rest IH]; intros root Hne H; [congruence|].
  destruct rest as [|k2 rest'].
  - cbn [remove_node]. cbn [get_node] in H. destruct (has_child root k); [|auto].
    destruct (get_child root k); [discriminate|auto].
  - change (remove_node root (k :: k2 :: rest')) with
      (if has_child root k then
         match get_child root k with
         | Some c => match remove_node c (k2 :: rest') with
                     | Some (Some (c', removed)) => Some (Some (put_child root k c', removed))
                     | Some None => Some None
                     | None => None
                     end
         | None => None
         end
       else Some None).
    cbn [get_node] in H. destruct (has_child root k); [|auto].
    destruct (get_child root k) as [c|]; [|auto].
    destruct (IH c ltac:(congruence) H) as [E|E]; rewrite E; auto.
Qed.

(* growing a (consistent) list keeps the old elements, in order, followed by the new one; content unchanged *)
Lemma aset_tail_content (g : node -> node) : forall l i v, keys_enum i l ->
  (forall n, erase (g n) = erase n) ->
  map (fun kc : key * node => erase (snd kc)) (aset (KI (i + zlen l)) (g v) l) = map (fun kc => erase (snd kc)) l ++ [erase v]
  /\ keys_enum i (aset (KI (i + zlen l)) (g v) l).
Proof.
  induction l as [|[kk c] r IHl]; intros i v HK Hg.
  - cbn. unfold zlen. cbn. rewrite Hg. replace (i + 0) with i by lia. auto.
  - cbn in HK. destruct HK as [Hk HK]. cbn in Hk. subst kk. cbn [aset key_eqb].
    assert (i + zlen ((KI i, c) :: r) =? i = false) as -> by (apply Z.eqb_neq; unfold zlen; cbn [length]; lia).
    replace (i + zlen ((KI i, c) :: r)) with ((i + 1) + zlen r) by (unfold zlen; cbn [length]; lia).
    destruct (IHl (i + 1) v HK Hg) as [E1 E2]. cbn [map app fst snd]. rewrite E1. split; [reflexivity|]. cbn. auto.
Qed.

Lemma append_one k f x chs v :
  is_listk k = true -> keys_enum 0 chs ->
  exists chs', set_child (Comp k f x chs) (KI (zlen chs)) v = Some (Comp k f x chs') /\
               map (fun kc => erase (snd kc)) chs' = map (fun kc => erase (snd kc)) chs ++ [erase v] /\ keys_enum 0 chs'.
Proof.
  intros Hl HK. cbn [set_child]. rewrite Hl.
  assert (Ev : validate_index (zlen chs) (KI (zlen chs)) false = IdxOk (zlen chs)).
  { unfold validate_index. cbn [andb]. unfold zlen. assert (Z.of_nat (length chs) <? 0 = false) as -> by (apply Z.ltb_ge; lia). f_equal. lia. }
  rewrite Ev. eexists. split; [reflexivity|].
  destruct (aset_tail_content (adopt (child_kwargs (Comp k f x chs))) chs 0 v HK (adopt_erase _)) as [E1 E2].
  cbn [Z.add] in E1, E2. auto.
Qed.

(* list.extend on a node: previous elements followed by the appended ones, in order *)
Theorem extend_node_content k f x : forall vals chs,
  is_listk k = true -> keys_enum 0 chs ->
  exists chs', extend_node (Comp k f x chs) vals = Some (Comp k f x chs') /\
               map (fun kc => erase (snd kc)) chs' = map (fun kc => erase (snd kc)) chs ++ map (fun kc => erase (snd kc)) vals /\ keys_enum 0 chs'.
Proof.
  intros vals chs Hl. unfold extend_node. rewrite Hl. revert chs.
  induction vals as [|[kv v] vals IH]; intros chs HK; cbn [fold_left map].
  - exists chs. rewrite app_nil_r. auto.
  - cbn [children snd]. destruct (append_one k f x chs v Hl HK) as (chs1 & E1 & C1 & K1). rewrite E1.
    destruct (IH chs1 K1) as (chs2 & E2 & C2 & K2). exists chs2. split; [exact E2|]. split; [|exact K2].
    rewrite C2, C1, <- app_assoc. reflexivity.
Qed.

(* a non-list cannot be extended *)
Lemma extend_node_nonlist n vals : (match n with Comp k _ _ _ => is_listk k = false | Leaf _ _ _ => True end) -> extend_node n vals = None.
Proof. destruct n as [|k f x ch]; [reflexivity|]. intro H. unfold extend_node. now rewrite H. Qed.

(* ---------- the three operators ---------- *)
(* p: !append L — the previous list followed by the elements of L; the target is detached from the older tree
   (it is merged back at p by the ordinary rule, where it meets nothing) *)
Theorem append_spec e p f x chs root root' k tf tx tch :
  remove_node root p = Some (Some (root', Comp k tf tx tch)) -> is_listk k = true -> keys_enum 0 tch ->
  exists tch', on_premerge e p (Comp CAppend f x chs) (Some root) = Ok (Comp k tf tx tch', Some root', true, []) /\
               map (fun kc => erase (snd kc)) tch' = map (fun kc => erase (snd kc)) tch ++ map (fun kc => erase (snd kc)) chs /\
               get_node root p = Some (Comp k tf tx tch).
Proof.
  intros Hr Hl HK. cbn [on_premerge]. rewrite Hr.
  destruct (extend_node_content k tf tx chs tch Hl HK) as (tch' & E & C & _). rewrite E.
  exists tch'. split; [reflexivity|]. split; [exact C|]. eapply remove_node_returns_target; eauto.
Qed.

(* ... and fails if there is no previous list *)
Theorem append_missing e p f x chs root :
  p <> [] -> get_node root p = None -> exists q, on_premerge e p (Comp CAppend f x chs) (Some root) = Err EPremerge q.
Proof.
  intros Hne H. cbn [on_premerge]. destruct (remove_node_missing p root Hne H) as [E|E]; rewrite E; eauto.
Qed.

Theorem append_nonlist e p f x chs root root' t :
  remove_node root p = Some (Some (root', t)) -> (match t with Comp k _ _ _ => is_listk k = false | Leaf _ _ _ => True end) ->
  exists q, on_premerge e p (Comp CAppend f x chs) (Some root) = Err EPremerge q.
Proof. intros Hr Ht. cbn [on_premerge]. rewrite Hr, (extend_node_nonlist t chs Ht). eauto. Qed.

(* !extend silently becomes a plain list when there is nothing to extend: the older tree is left alone *)
Theorem extend_fallback e p f x chs root :
  (get_node root p = None \/ exists t, get_node root p = Some t /\ (match t with Comp k _ _ _ => is_listk k = false | Leaf _ _ _ => True end)) ->
  on_premerge e p (Comp CExtend f x chs) (Some root) = Ok (fresh_list (Some true) chs, Some root, true, []).
Proof.
  intros [H|(t & H & Ht)]; cbn [on_premerge]; rewrite H; [reflexivity|]. now rewrite (extend_node_nonlist t chs Ht).
Qed.

(* q: !prev p — the entire previous subtree of p is handed over (it IS the node found at p) and detached from the older tree *)
Theorem prev_spec e q f z tp root root' r :
  plookup e z = Some tp -> remove_node root tp = Some (Some (root', r)) ->
  on_premerge e q (Leaf LPrev f (SStr z)) (Some root) = Ok (r, Some root', true, []) /\ get_node root tp = Some r.
Proof.
  intros He Hr. cbn [on_premerge]. rewrite He, Hr. split; [reflexivity|]. eapply remove_node_returns_target; eauto.
Qed.

(* detaching a key of a mapping removes exactly that key: the key is gone, every other key keeps its node *)
Theorem remove_key_frame k f x ch kk root' r :
  is_listk k = false -> NoDup (map fst ch) ->
  remove_node (Comp k f x ch) [kk] = Some (Some (root', r)) ->
  has_child root' kk = false /\ forall k2, k2 <> kk -> get_child root' k2 = get_child (Comp k f x ch) k2.
Proof.
  intros Hl Hnd H. cbn [remove_node has_child get_child remove_child] in H. rewrite Hl in H.
  destruct (ahas kk ch) eqn:Eh; [|discriminate]. destruct (aget kk ch) eqn:Eg; [|discriminate]. inversion H; subst. clear H.
  cbn [has_child get_child]. rewrite Hl. split.
  - unfold ahas. clear Eh Eg. induction ch as [|[k' v'] rest IH]; cbn; [reflexivity|].
    cbn in Hnd. inversion Hnd; subst. destruct (key_eqb kk k') eqn:E.
    + apply key_eqb_eq in E. subst k'. destruct (aget kk rest) eqn:Ea; [|reflexivity].
      exfalso. apply H1. clear - Ea. induction rest as [|[a b] rest IHr]; cbn in *; [discriminate|].
      destruct (key_eqb kk a) eqn:E; [apply key_eqb_eq in E; subst; auto|right; auto].
    + cbn. rewrite E. apply IH; auto.
  - intros k2 Hne. clear Eh Eg Hnd. induction ch as [|[k' v'] rest IH]; cbn; [reflexivity|].
    destruct (key_eqb kk k') eqn:E.
    + apply key_eqb_eq in E. subst k'. assert (key_eqb k2 kk = false) as -> by (apply key_eqb_neq; exact Hne). reflexivity.
    + cbn. destruct (key_eqb k2 k'); [reflexivity|exact IH].
Qed.
