(* Proofs/PrioPath.v — what Spec.UpdateP.upd_p means path by path (C03): at every path whose spine consists of mappings
   in every stage, the value of the fold is the fold of the values the stages hold there; if those are scalars, it is the
   value of the LATEST writer of MAXIMAL priority. *)
From AY Require Import Model.Node Spec.UpdateP Proofs.NodeInd Proofs.MergePlain Proofs.Laws Proofs.MergeNotNew Proofs.MergeGen Proofs.MergePrio.

Section PPInd.
  Variable P : pp -> Prop.
  Hypothesis Hs : forall p v, P (PPS p v).
  Hypothesis Hd : forall p kv, Forall (fun kc => P (snd kc)) kv -> P (PPD p kv).
  Fixpoint pp_ind' (d : pp) : P d :=
    match d with
    | PPS p v => Hs p v
    | PPD p kv => Hd p kv ((fix go (l : list (key * pp)) : Forall (fun kc => P (snd kc)) l :=
                              match l with [] => Forall_nil _ | kc :: r => Forall_cons kc (pp_ind' (snd kc)) (go r) end) kv)
    end.
End PPInd.

(* hereditarily unique keys *)
Inductive pwf : pp -> Prop :=
| pwf_s p v : pwf (PPS p v)
| pwf_d p kv : NoDup (map fst kv) -> Forall (fun kc => pwf (snd kc)) kv -> pwf (PPD p kv).

(* two writers of one position, either of which may be absent *)
Definition wr (acc d : option pp) : option pp :=
  match acc, d with
  | Some a, Some b => Some (upd_p a b)
  | Some a, None => Some a
  | None, b => b
  end.

Lemma wr_none_r a : wr a None = a.
Proof. destruct a; reflexivity. Qed.

(* key by key: the loop of upd_p is wr *)
Lemma updp_go_get : forall kv acc k, NoDup (map fst kv) -> aget k (updp_go kv acc) = wr (aget k acc) (aget k kv).
Proof.
  induction kv as [|[k' v] rest IH]; intros acc k Hnd; cbn [updp_go aget]; [now rewrite wr_none_r|].
  cbn [map fst] in Hnd. inversion Hnd as [|? ? Hni Hnd']; subst.
  destruct (key_eqb k k') eqn:Ek.
  - apply key_eqb_eq in Ek. subst k'.
    destruct (aget k acc) as [ov|] eqn:Ea; rewrite (IH _ _ Hnd'), aget_aset_eq, (aget_notin k rest Hni); reflexivity.
  - assert (Ek' : key_eqb k k' = false) by exact Ek.
    destruct (aget k' acc) as [ov|] eqn:Ea; rewrite (IH _ _ Hnd'), (aget_aset_neq k k' _ acc Ek'); reflexivity.
Qed.

Lemma updp_go_keys_wf : forall kv acc,
  NoDup (map fst acc) -> Forall (fun kc => pwf (snd kc)) acc ->
  Forall (fun kc => forall a, pwf a -> pwf (upd_p a (snd kc))) kv -> Forall (fun kc => pwf (snd kc)) kv ->
  NoDup (map fst (updp_go kv acc)) /\ Forall (fun kc => pwf (snd kc)) (updp_go kv acc).
Proof.
  induction kv as [|[k v] rest IH]; intros acc Hnd HF HU HW; cbn [updp_go]; [auto|].
  inversion HU as [|? ? Hu HU']; subst. inversion HW as [|? ? Hw HW']; subst. cbn [snd] in *.
  destruct (aget k acc) as [ov|] eqn:Ea.
  - apply IH; [| |exact HU'|exact HW'].
    + now rewrite (aset_fst k _ ov acc Ea).
    + apply aset_Forall; [|exact HF]. apply Hu. exact (aget_Forall pwf k acc ov HF Ea).
  - apply IH; [| |exact HU'|exact HW'].
    + rewrite (aset_new_fst k _ acc Ea). apply NoDup_app_snoc; [exact Hnd|].
      intro Hin. apply in_map_iff in Hin. destruct Hin as ([k' c'] & Ek & Hin). cbn in Ek. subst k'.
      rewrite (In_aget k c' acc Hnd Hin) in Ea. discriminate.
    + apply aset_Forall; auto.
Qed.

Lemma upd_p_pwf : forall b a, pwf a -> pwf b -> pwf (upd_p a b).
Proof.
  induction b as [pn vn|pn kv IH] using pp_ind'; intros a Ha Hb.
  - rewrite upd_p_other by (left; exact I). destruct (ppri a >? ppri (PPS pn vn)); auto.
  - destruct a as [po vo|po okv].
    + rewrite upd_p_other by (right; exact I). destruct (ppri (PPS po vo) >? ppri (PPD pn kv)); auto.
    + rewrite upd_p_DD. inversion Ha as [|? ? Hnda HFa]; subst. inversion Hb as [|? ? Hndb HFb]; subst.
      destruct (updp_go_keys_wf kv okv Hnda HFa) as [H1 H2]; [|exact HFb|constructor; auto].
      clear - IH HFb. induction IH as [|kc r Hkc Hr IHr]; [constructor|]. inversion HFb; subst. constructor; auto.
Qed.

(* the spine of a path consists of mappings (where it exists) *)
Fixpoint sp (d : pp) (q : path) : Prop :=
  match q with
  | [] => True
  | k :: r => match d with
              | PPD _ kv => match aget k kv with Some c => sp c r | None => True end
              | PPS _ _ => False
              end
  end.

Lemma pget_upd : forall q a b, q <> [] -> sp a q -> sp b q -> pwf b ->
  pget (upd_p a b) q = wr (pget a q) (pget b q) /\ sp (upd_p a b) q.
Proof.
  induction q as [|k r IH]; intros a b Hq Ha Hb Hw; [contradiction|].
  destruct a as [po vo|po okv]; [contradiction|]. destruct b as [pn vn|pn kv]; [contradiction|].
  rewrite upd_p_DD. cbn [pget sp] in *. inversion Hw as [|? ? Hnd HF]; subst.
  rewrite (updp_go_get kv okv k Hnd).
  destruct (aget k okv) as [ov|] eqn:Ea, (aget k kv) as [v|] eqn:Eb; cbn [wr].
  - destruct r as [|k2 r2]; [cbn; auto|].
    assert (Hv : pwf v) by exact (aget_Forall pwf k kv v HF Eb).
    apply (IH ov v); auto. discriminate.
  - now rewrite wr_none_r.
  - destruct (pget v r); auto.
  - auto.
Qed.

Lemma fold_wr_none l : fold_left wr (map (fun _ : pp => @None pp) l) None = None.
Proof. induction l; cbn; auto. Qed.

Theorem pget_fold : forall ds d0 q, q <> [] -> sp d0 q -> Forall (fun d => sp d q /\ pwf d) ds ->
  pget (fold_left upd_p ds d0) q = fold_left wr (map (fun d => pget d q) ds) (pget d0 q).
Proof.
  induction ds as [|d ds IH]; intros d0 q Hq H0 HF; cbn [fold_left map]; [reflexivity|].
  inversion HF as [|? ? [Hd Hw] HF']; subst.
  destruct (pget_upd q d0 d Hq H0 Hd Hw) as [E S]. rewrite IH; auto. now rewrite E.
Qed.

(* ---------- scalar writers: the latest of maximal priority ---------- *)
Fixpoint lwin (a : Z * atom) (ws : list (Z * atom)) : Z * atom :=
  match ws with [] => a | b :: r => lwin (if fst a >? fst b then a else b) r end.

Lemma lwin_split : forall ws a, exists pre post,
  a :: ws = pre ++ lwin a ws :: post /\
  Forall (fun x => fst x <= fst (lwin a ws)) pre /\ Forall (fun x => fst x < fst (lwin a ws)) post.
Proof.
  induction ws as [|w r IH]; intro cur.
  - exists [], []. cbn. repeat split; constructor.
  - cbn [lwin]. destruct (Z.gtb_spec (fst cur) (fst w)) as [Hgt|Hle].
    + destruct (IH cur) as (pre & post & E & Hpre & Hpost).
      remember (lwin cur r) as W eqn:HW. clear HW.
      destruct pre as [|c pre']; cbn in E; inversion E; subst.
      * exists [], (w :: post). cbn. split; [reflexivity|]. split; [constructor|]. constructor; [lia|exact Hpost].
      * exists (c :: w :: pre'), post. cbn. split; [reflexivity|].
        inversion Hpre as [|? ? Hc Hp']; subst. split; [|exact Hpost]. constructor; [exact Hc|]. constructor; [lia|exact Hp'].
    + destruct (IH w) as (pre & post & E & Hpre & Hpost).
      remember (lwin w r) as W eqn:HW. clear HW.
      exists (cur :: pre), post. cbn. split; [now rewrite E|]. split; [|exact Hpost].
      constructor; [|exact Hpre].
      destruct pre as [|c pre']; cbn in E; inversion E; subst; [lia|].
      inversion Hpre; subst. lia.
Qed.

(* the scalar a stage writes at q, if any *)
Definition wat (q : path) (d : pp) : list (Z * atom) := match pget d q with Some (PPS p v) => [(p, v)] | _ => [] end.
Definition leafy (q : path) (d : pp) : Prop := match pget d q with Some (PPD _ _) => False | _ => True end.

Lemma fold_wr_leaves q : forall ds (a : option (Z * atom)),
  Forall (leafy q) ds ->
  fold_left wr (map (fun d => pget d q) ds) (option_map (fun pv => PPS (fst pv) (snd pv)) a) =
  option_map (fun pv => PPS (fst pv) (snd pv))
             (match a with
              | Some x => Some (lwin x (flat_map (wat q) ds))
              | None => match flat_map (wat q) ds with [] => None | x :: r => Some (lwin x r) end
              end).
Proof.
  induction ds as [|d ds IH]; intros a HF; cbn [map fold_left flat_map]; [destruct a; reflexivity|].
  inversion HF as [|? ? Hd HF']; subst. unfold leafy in Hd. unfold wat at 1 3.
  destruct (pget d q) as [[p v|p kv]|] eqn:Eg; [| contradiction |].
  - destruct a as [[pa va]|]; cbn [option_map wr fst snd app].
    + specialize (IH (Some (if pa >? p then (pa, va) else (p, v))) HF'). cbn [option_map] in IH.
      cbn [upd_p ppri]. cbn [lwin fst]. rewrite <- IH. f_equal. destruct (pa >? p); reflexivity.
    + specialize (IH (Some (p, v)) HF'). cbn [option_map fst snd] in IH. exact IH.
  - rewrite wr_none_r. cbn [app]. apply IH; exact HF'.
Qed.

(* C03, path by path *)
Theorem leaf_path_winner d0 ds q : q <> [] ->
  Forall (fun d => sp d q /\ pwf d /\ leafy q d) (d0 :: ds) ->
  match flat_map (wat q) (d0 :: ds) with
  | [] => pget (fold_left upd_p ds d0) q = None
  | w0 :: ws =>
    exists pre post p v,
      w0 :: ws = pre ++ (p, v) :: post /\
      Forall (fun x => fst x <= p) pre /\ Forall (fun x => fst x < p) post /\
      pget (fold_left upd_p ds d0) q = Some (PPS p v)
  end.
Proof.
  intros Hq HF. inversion HF as [|? ? (H0 & W0 & L0) HF']; subst.
  assert (HF1 : Forall (fun d => sp d q /\ pwf d) ds) by (eapply Forall_impl; [|exact HF']; cbn; tauto).
  assert (HF2 : Forall (leafy q) ds) by (eapply Forall_impl; [|exact HF']; cbn; tauto).
  rewrite (pget_fold ds d0 q Hq H0 HF1).
  cbn [flat_map]. unfold wat at 1. unfold leafy in L0.
  destruct (pget d0 q) as [[p0 v0|p0 kv0]|] eqn:E0; [|contradiction|].
  - pose proof (fold_wr_leaves q ds (Some (p0, v0)) HF2) as FW. cbn [option_map fst snd] in FW. rewrite FW. cbn [app].
    destruct (lwin_split (flat_map (wat q) ds) (p0, v0)) as (pre & post & E & Hpre & Hpost).
    destruct (lwin (p0, v0) (flat_map (wat q) ds)) as [p v] eqn:EW. cbn [fst snd] in *.
    exists pre, post, p, v. auto.
  - pose proof (fold_wr_leaves q ds None HF2) as FW. cbn [option_map] in FW. rewrite FW. cbn [app].
    destruct (flat_map (wat q) ds) as [|w0 ws]; [reflexivity|].
    destruct (lwin_split ws w0) as (pre & post & E & Hpre & Hpost).
    destruct (lwin w0 ws) as [p v] eqn:EW. cbn [fst snd option_map] in *.
    exists pre, post, p, v. auto.
Qed.
