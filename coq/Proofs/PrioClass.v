(* Proofs/PrioClass.v — the classes of Proofs.MergePrio / PrioLoad and the side condition lcompat are decidable (checkers, proved sound), and
   executable comparison of priority images; used by the correspondence of the specification Spec.UpdateP.upd_p with Builder.build. *)
From AY Require Import Model.Merge Model.Eq Proofs.NodeInd Proofs.FlagsLemmas Spec.Update Spec.UpdateP Proofs.MergePlain
  Proofs.MergeNotNew Proofs.MergeGen Proofs.MergeMode Proofs.MergePrio Model.Loader Proofs.LoaderLemmas Proofs.PrioPath Proofs.PrioLoad Proofs.EvalPlain Model.Eval.

Definition nz_b (f : flags) : bool :=
  match f_del f with None => (negb (ob_eqb (f_new f) (Some false)) && negb (ob_eqb (f_inew f) (Some false)))%bool | Some _ => false end.
Definition idel_none_b (f : flags) : bool := match f_idel f with None => true | Some _ => false end.

Lemma nz_b_ok f : nz_b f = true -> NZ f.
Proof. unfold nz_b, NZ, OZ. destruct (f_del f); [discriminate|]. destruct (f_new f) as [[|]|], (f_inew f) as [[|]|]; cbn; try discriminate; intros _; repeat split; congruence. Qed.

(* uniform subtrees (what sits in a list) *)
Fixpoint un_b (p : Z) (n : node) : bool :=
  match n with
  | Leaf LScalar f _ => (nz_b f && ob_eqb (f_idel f) (Some true) && (priority f =? p))%bool
  | Comp CDict f _ ch => (nz_b f && ob_eqb (f_idel f) (Some true) && (priority f =? p) && nodup_b (map fst ch) &&
                          (fix go (l : list (key * node)) := match l with [] => true | (_, c) :: r => (un_b p c && go r)%bool end) ch)%bool
  | Comp CList f _ ch => (nz_b f && ob_eqb (f_idel f) (Some true) && (priority f =? p) && keys_enum_b 0 ch &&
                          (fix go (l : list (key * node)) := match l with [] => true | (_, c) :: r => (un_b p c && go r)%bool end) ch)%bool
  | _ => false
  end.

Lemma ob_eqb_true_some a b : ob_eqb a (Some b) = true -> a = Some b.
Proof. destruct a as [[|]|], b; cbn; intro H; try discriminate; reflexivity. Qed.

Lemma un_b_ok p : forall n, un_b p n = true -> UN p n.
Proof.
  induction n as [k f v|k f x ch IH] using node_ind'; intro H.
  - destruct k; try discriminate. cbn [un_b] in H.
    apply andb_true_iff in H. destruct H as [H H3]. apply andb_true_iff in H. destruct H as [H1 H2].
    constructor; [now apply nz_b_ok|now apply ob_eqb_true_some|lia].
  - destruct k; try discriminate; cbn [un_b] in H;
      apply andb_true_iff in H; destruct H as [H H5]; apply andb_true_iff in H; destruct H as [H H4];
      apply andb_true_iff in H; destruct H as [H H3]; apply andb_true_iff in H; destruct H as [H1 H2].
    + apply UNDict; [now apply nz_b_ok|now apply ob_eqb_true_some|lia| |now apply nodup_b_ok].
      clear H1 H2 H3 H4. induction IH as [|[kk c] r Hc Hr IHr]; [constructor|].
      apply andb_true_iff in H5. destruct H5 as [A B]. constructor; [apply Hc; exact A|apply IHr; exact B].
    + apply UNList; [now apply nz_b_ok|now apply ob_eqb_true_some|lia| |now apply keys_enum_b_ok].
      clear H1 H2 H3 H4. induction IH as [|[kk c] r Hc Hr IHr]; [constructor|].
      apply andb_true_iff in H5. destruct H5 as [A B]. constructor; [apply Hc; exact A|apply IHr; exact B].
Qed.

Fixpoint newz_b (n : node) : bool :=
  match n with
  | Leaf LScalar f _ => nz_b f
  | Comp CDict f _ ch => (nz_b f && idel_none_b f && nodup_b (map fst ch) &&
                          (fix go (l : list (key * node)) := match l with [] => true | (_, c) :: r => (newz_b c && go r)%bool end) ch)%bool
  | Comp CList f _ ch => (nz_b f && negb (ob_eqb (f_idel f) (Some false)) && keys_enum_b 0 ch &&
                          (fix go (l : list (key * node)) := match l with [] => true | (_, c) :: r => (un_b (priority f) c && go r)%bool end) ch)%bool
  | _ => false
  end.

Lemma newz_b_ok : forall n, newz_b n = true -> NewZ n.
Proof.
  induction n as [k f v|k f x ch IH] using node_ind'; intro H.
  - destruct k; try discriminate. constructor. now apply nz_b_ok.
  - destruct k; try discriminate; cbn [newz_b] in H;
      apply andb_true_iff in H; destruct H as [H H4]; apply andb_true_iff in H; destruct H as [H H3]; apply andb_true_iff in H; destruct H as [H1 H2].
    + constructor; [now apply nz_b_ok|unfold idel_none_b in H2; destruct (f_idel f); [discriminate|reflexivity]| |now apply nodup_b_ok].
      clear H1 H2 H3. induction IH as [|[kk c] r Hc Hr IHr]; [constructor|].
      apply andb_true_iff in H4. destruct H4 as [A B]. constructor; [apply Hc; exact A|apply IHr; exact B].
    + apply NZList; [now apply nz_b_ok|intro E; rewrite E in H2; discriminate| |now apply keys_enum_b_ok].
      clear - H4. induction ch as [|[kk c] r IHr]; [constructor|].
      apply andb_true_iff in H4. destruct H4 as [A B]. constructor; [apply un_b_ok; exact A|apply IHr; exact B].
Qed.

(* the side condition *)
Fixpoint lcompat_b (old new : pp) {struct new} : bool :=
  match new with
  | PPD _ kv =>
    match old with
    | PPD _ okv =>
      (fix go (l : list (key * pp)) : bool :=
         match l with
         | [] => true
         | (k, v) :: r => ((match aget k okv with Some ov => lcompat_b ov v | None => true end) && go r)%bool
         end) kv
    | PPS _ (AL _) => false
    | PPS _ (AS _) => true
    end
  | PPS _ (AL _) => match old with PPD _ _ => false | _ => true end
  | PPS _ (AS _) => true
  end.

Lemma lcompat_b_ok : forall new old, lcompat_b old new = true -> lcompat old new.
Proof.
  fix IH 1. intros new old H. destruct new as [pn [vn|ln]|pn kv]; [exact I|destruct old as [po [vo|lo]|po okv]; [exact I|exact I|discriminate]|].
  destruct old as [po [vo|lo]|po okv]; [exact I|discriminate|].
  cbn [lcompat lcompat_b] in *. induction kv as [|[k v] r IHr]; [exact I|].
  apply andb_true_iff in H. destruct H as [A B]. split; [|apply IHr; exact B].
  destruct (aget k okv) as [ov|]; [apply IH; exact A|exact I].
Qed.

Fixpoint hcompat_b (d0 : pp) (ds : list pp) : bool :=
  match ds with [] => true | d :: r => (lcompat_b d0 d && hcompat_b (upd_p d0 d) r)%bool end.

Lemma hcompat_b_ok : forall ds d0, hcompat_b d0 ds = true -> hcompat d0 ds.
Proof.
  induction ds as [|d r IH]; intros d0 H; [exact I|]. cbn [hcompat_b hcompat] in *. apply andb_true_iff in H. destruct H as [A B].
  split; [apply lcompat_b_ok; exact A|apply IH; exact B].
Qed.

(* executable equality of priority images *)
Definition atom_eqb (a b : atom) : bool :=
  match a, b with AS v, AS v' => scalar_eqb v v' | AL l, AL l' => plain_eqb (PL l) (PL l') | _, _ => false end.

Fixpoint pp_eqb (a b : pp) : bool :=
  match a, b with
  | PPS p v, PPS p' v' => ((p =? p') && atom_eqb v v')%bool
  | PPD p kv, PPD p' kv' =>
    ((p =? p') &&
     (fix go (l l' : list (key * pp)) : bool :=
        match l, l' with
        | [], [] => true
        | (k, c) :: r, (k', c') :: r' => (key_eqb k k' && pp_eqb c c' && go r r')%bool
        | _, _ => false
        end) kv kv')%bool
  | _, _ => false
  end.

(* the values alone *)
Fixpoint pvals (d : pp) : plain :=
  match d with
  | PPS _ (AS v) => PS v
  | PPS _ (AL l) => PL l
  | PPD _ kv => PD ((fix go (l : list (key * pp)) := match l with [] => [] | (k, c) :: r => (k, pvals c) :: go r end) kv)
  end.

(* what the theorem flatten_prio predicts for a list of stage trees, if they are all in its class and no mapping meets a list *)
Definition predict_prio (stages : list node) : option pp :=
  match stages with
  | s0 :: sts => if (forallb newz_b stages && forallb is_dictk stages && hcompat_b (perase s0) (map perase sts))%bool
                 then Some (fold_left upd_p (map perase sts) (perase s0)) else None
  | [] => None
  end.

Theorem predict_prio_ok e stages d : predict_prio stages = Some d -> exists n, flatten e stages = Ok n /\ perase n = d.
Proof.
  destruct stages as [|s0 sts]; [discriminate|]. unfold predict_prio.
  destruct (forallb newz_b (s0 :: sts) && forallb is_dictk (s0 :: sts) && hcompat_b (perase s0) (map perase sts))%bool eqn:E; [|discriminate].
  apply andb_true_iff in E. destruct E as [E E3]. apply andb_true_iff in E. destruct E as [E1 E2]. intro H. inversion H; subst.
  apply flatten_prio; [|exact E2|apply hcompat_b_ok; exact E3]. rewrite forallb_forall in E1. apply Forall_forall. intros x Hx. apply newz_b_ok, E1, Hx.
Qed.

(* ---------- the same from the document down ---------- *)
Definition tz_b (t : tagkw) : bool := match t_del t with None => negb (ob_eqb (t_new t) (Some false)) | Some _ => false end.
Definition tin_b (t : tagkw) : bool := (tz_b t && match t_prio t with None => true | Some _ => false end)%bool.

Lemma tz_b_ok t : tz_b t = true -> tz t.
Proof. unfold tz_b, tz. destruct (t_del t); [discriminate|]. destruct (t_new t) as [[|]|]; cbn; try discriminate; intros _; split; congruence. Qed.

Lemma tin_b_ok t : tin_b t = true -> tin t.
Proof. unfold tin_b, tin. intro H. apply andb_true_iff in H. destruct H as [A B]. split; [now apply tz_b_ok|]. destruct (t_prio t); [discriminate|reflexivity]. Qed.

Fixpoint yin_b (y : ynode) : bool :=
  match y with
  | YS t _ => tin_b t
  | YM t l => (tin_b t && nodup_b (map fst l) &&
               (fix go (l : list (key * ynode)) := match l with [] => true | (_, x) :: r => (yin_b x && go r)%bool end) l)%bool
  | YQ t l => (tin_b t && (fix go (l : list ynode) := match l with [] => true | x :: r => (yin_b x && go r)%bool end) l)%bool
  end.

Lemma yin_b_ok : forall y, yin_b y = true -> yin y.
Proof.
  induction y as [t v|t l IH|t l IH] using ynode_ind'; intro H.
  - constructor. now apply tin_b_ok.
  - cbn [yin_b] in H. apply andb_true_iff in H. destruct H as [H H3]. apply andb_true_iff in H. destruct H as [H1 H2].
    constructor; [now apply tin_b_ok| |now apply nodup_b_ok].
    clear H1 H2. induction IH as [|[k x] r Hx Hr IHr]; [constructor|].
    apply andb_true_iff in H3. destruct H3 as [A B]. constructor; [apply Hx; exact A|apply IHr; exact B].
  - cbn [yin_b] in H. apply andb_true_iff in H. destruct H as [H1 H3].
    constructor; [now apply tin_b_ok|].
    clear H1. induction IH as [|x r Hx Hr IHr]; [constructor|].
    apply andb_true_iff in H3. destruct H3 as [A B]. constructor; [apply Hx; exact A|apply IHr; exact B].
Qed.

Fixpoint yz_b (y : ynode) : bool :=
  match y with
  | YS t _ => tz_b t
  | YM t l => (tz_b t && nodup_b (map fst l) &&
               (fix go (l : list (key * ynode)) := match l with [] => true | (_, x) :: r => (yz_b x && go r)%bool end) l)%bool
  | YQ t l => (tz_b t && forallb yin_b l)%bool
  end.

Lemma yz_b_ok : forall y, yz_b y = true -> yz y.
Proof.
  induction y as [t v|t l IH|t l IH] using ynode_ind'; intro H.
  - constructor. now apply tz_b_ok.
  - cbn [yz_b] in H. apply andb_true_iff in H. destruct H as [H H3]. apply andb_true_iff in H. destruct H as [H1 H2].
    constructor; [now apply tz_b_ok| |now apply nodup_b_ok].
    clear H1 H2. induction IH as [|[k x] r Hx Hr IHr]; [constructor|].
    apply andb_true_iff in H3. destruct H3 as [A B]. constructor; [apply Hx; exact A|apply IHr; exact B].
  - cbn [yz_b] in H. apply andb_true_iff in H. destruct H as [H1 H2]. constructor; [now apply tz_b_ok|].
    rewrite forallb_forall in H2. apply Forall_forall. intros x Hx. apply yin_b_ok, H2, Hx.
Qed.

Definition predict_docs (ys : list ynode) : option pp :=
  match ys with
  | y0 :: r => if (forallb yz_b ys && forallb is_YM ys && hcompat_b (yprio None y0) (map (yprio None) r))%bool
               then Some (fold_left upd_p (map (yprio None) r) (yprio None y0)) else None
  | [] => None
  end.

Theorem predict_docs_ok e c ys d : predict_docs ys = Some d -> exists n, flatten e (map (load_doc c) ys) = Ok n /\ perase n = d.
Proof.
  destruct ys as [|y0 r]; [discriminate|]. unfold predict_docs.
  destruct (forallb yz_b (y0 :: r) && forallb is_YM (y0 :: r) && hcompat_b (yprio None y0) (map (yprio None) r))%bool eqn:E; [|discriminate].
  apply andb_true_iff in E. destruct E as [E E3]. apply andb_true_iff in E. destruct E as [E1 E2]. intro H. inversion H; subst.
  apply flatten_prio_docs; [|exact E2|apply hcompat_b_ok; exact E3]. rewrite forallb_forall in E1. apply Forall_forall. intros x Hx. apply yz_b_ok, E1, Hx.
Qed.

(* ---------- down to the evaluated config ---------- *)
Lemma pvals_PPD p kv : pvals (PPD p kv) = PD (map (fun kc => (fst kc, pvals (snd kc))) kv).
Proof. cbn [pvals]. f_equal. induction kv as [|[k c] r IH]; cbn; [reflexivity|]. now rewrite IH. Qed.

Lemma pvals_perase : forall n, OldZ n -> pvals (perase n) = erase n.
Proof.
  induction n as [k f v|k f x ch IH] using node_ind'; intro H.
  - inversion H; subst. reflexivity.
  - inversion H as [|f0 x0 ch0 HO HF Hnd|f0 x0 ch0 HO HF HK]; subst.
    + rewrite perase_dict, pvals_PPD, erase_comp. cbn [is_listk]. f_equal.
      unfold pch. rewrite map_map. cbn [fst snd].
      clear H Hnd. induction IH as [|kc r Hkc Hr IHr]; cbn [map]; [reflexivity|]. inversion HF; subst. now rewrite Hkc, IHr.
    + rewrite perase_list, erase_comp. reflexivity.
Qed.

(* the config BUILT from prioritised mapping documents (merge, check for placeholders, deep copy, evaluation) holds exactly the values
   of the prioritised update of the documents *)
Theorem docs_evaluated_config e pe fe c y0 ys : Forall yz (y0 :: ys) -> forallb is_YM (y0 :: ys) = true ->
  hcompat (yprio None y0) (map (yprio None) ys) ->
  exists n v st, flatten e (map (load_doc c) (y0 :: ys)) = Ok n /\ config pe fe n = Ok (v, st) /\
                 vplain v = pvals (fold_left upd_p (map (yprio None) ys) (yprio None y0)).
Proof.
  intros HF HM Hh.
  assert (HN : Forall NewZ (map (load_doc c) (y0 :: ys))).
  { clear HM Hh. induction HF as [|y r Hy Hr IHr]; cbn [map]; [constructor|]. constructor; [apply (load_doc_newz c y Hy)|exact IHr]. }
  assert (HD : forallb is_dictk (map (load_doc c) (y0 :: ys)) = true).
  { clear HF HN Hh. induction (y0 :: ys) as [|y r IHr]; [reflexivity|]. cbn [forallb map] in *. apply andb_true_iff in HM. destruct HM as [A B].
    now rewrite (MergeGen.load_doc_dict c y A), IHr. }
  inversion HF as [|? ? H0 HF']; subst.
  cbn [map] in HN, HD. destruct (flatten_prio_l e _ _ HN HD) as (n & E & Hn & En).
  { rewrite (proj2 (load_doc_newz c y0 H0)), (perase_load_docs c ys HF'). exact Hh. }
  destruct (config_plain pe fe n (OldZ_PlainT _ Hn)) as (v & st & Ec & Ev).
  exists n, v, st. split; [exact E|]. split; [exact Ec|].
  now rewrite Ev, <- (pvals_perase n Hn), En, (proj2 (load_doc_newz c y0 H0)), (perase_load_docs c ys HF').
Qed.
