(* Proofs/PrioClass.v — the class NewZ of Proofs.MergePrio is decidable (a checker, proved sound), and executable comparison of
   priority images; used by the correspondence of the specification Spec.UpdateP.upd_p with Builder.build. *)
From AY Require Import Model.Merge Model.Eq Proofs.NodeInd Proofs.FlagsLemmas Spec.Update Spec.UpdateP Proofs.MergePlain
  Proofs.MergeNotNew Proofs.MergeGen Proofs.MergeMode Proofs.MergePrio Model.Loader Proofs.LoaderLemmas Proofs.PrioPath Proofs.PrioLoad Proofs.EvalPlain Model.Eval.

Definition nz_b (f : flags) : bool :=
  match f_del f with None => (negb (ob_eqb (f_new f) (Some false)) && negb (ob_eqb (f_inew f) (Some false)))%bool | Some _ => false end.
Definition idel_none_b (f : flags) : bool := match f_idel f with None => true | Some _ => false end.

Fixpoint newz_b (n : node) : bool :=
  match n with
  | Leaf LScalar f _ => nz_b f
  | Comp CDict f _ ch => (nz_b f && idel_none_b f && nodup_b (map fst ch) &&
                          (fix go (l : list (key * node)) := match l with [] => true | (_, c) :: r => (newz_b c && go r)%bool end) ch)%bool
  | _ => false
  end.

Lemma nz_b_ok f : nz_b f = true -> NZ f.
Proof. unfold nz_b, NZ, OZ. destruct (f_del f); [discriminate|]. destruct (f_new f) as [[|]|], (f_inew f) as [[|]|]; cbn; try discriminate; intros _; repeat split; congruence. Qed.

Lemma newz_b_ok : forall n, newz_b n = true -> NewZ n.
Proof.
  induction n as [k f v|k f x ch IH] using node_ind'; intro H.
  - destruct k; try discriminate. constructor. now apply nz_b_ok.
  - destruct k; try discriminate. cbn [newz_b] in H.
    apply andb_true_iff in H. destruct H as [H H4]. apply andb_true_iff in H. destruct H as [H H3]. apply andb_true_iff in H. destruct H as [H1 H2].
    constructor; [now apply nz_b_ok|unfold idel_none_b in H2; destruct (f_idel f); [discriminate|reflexivity]| |now apply nodup_b_ok].
    clear H1 H2 H3. induction IH as [|[kk c] r Hc Hr IHr]; [constructor|].
    apply andb_true_iff in H4. destruct H4 as [A B]. constructor; [apply Hc; exact A|apply IHr; exact B].
Qed.

(* executable equality of priority images *)
Fixpoint pp_eqb (a b : pp) : bool :=
  match a, b with
  | PPS p v, PPS p' v' => ((p =? p') && scalar_eqb v v')%bool
  | PPD p kv, PPD p' kv' =>
    ((p =? p') &&
     (fix go (l l' : list (key * pp)) : bool :=
        match l, l' with
        | [], [] => true
        | (k, c) :: r, (k', c') :: r' => (key_eqb k k' && pp_eqb c c' && go r r')%bool
        | _, _ => false
        end) kv kv')%bool
  | _, _ => false
  end.

(* the values alone *)
Fixpoint pvals (d : pp) : plain :=
  match d with
  | PPS _ v => PS v
  | PPD _ kv => PD ((fix go (l : list (key * pp)) := match l with [] => [] | (k, c) :: r => (k, pvals c) :: go r end) kv)
  end.

(* what the theorem flatten_prio predicts for a list of stage trees, if they are all in its class *)
Definition predict_prio (stages : list node) : option pp :=
  match stages with
  | s0 :: sts => if (forallb newz_b stages && forallb is_dictk stages)%bool then Some (fold_left upd_p (map perase sts) (perase s0)) else None
  | [] => None
  end.

Theorem predict_prio_ok e stages d : predict_prio stages = Some d -> exists n, flatten e stages = Ok n /\ perase n = d.
Proof.
  destruct stages as [|s0 sts]; [discriminate|]. unfold predict_prio.
  destruct (forallb newz_b (s0 :: sts) && forallb is_dictk (s0 :: sts))%bool eqn:E; [|discriminate].
  apply andb_true_iff in E. destruct E as [E1 E2]. intro H. inversion H; subst.
  apply flatten_prio; [|exact E2]. rewrite forallb_forall in E1. apply Forall_forall. intros x Hx. apply newz_b_ok, E1, Hx.
Qed.

(* ---------- the same from the document down ---------- *)
Definition tz_b (t : tagkw) : bool := match t_del t with None => negb (ob_eqb (t_new t) (Some false)) | Some _ => false end.

Fixpoint yz_b (y : ynode) : bool :=
  match y with
  | YS t _ => tz_b t
  | YM t l => (tz_b t && nodup_b (map fst l) &&
               (fix go (l : list (key * ynode)) := match l with [] => true | (_, x) :: r => (yz_b x && go r)%bool end) l)%bool
  | YQ _ _ => false
  end.

Lemma tz_b_ok t : tz_b t = true -> tz t.
Proof. unfold tz_b, tz. destruct (t_del t); [discriminate|]. destruct (t_new t) as [[|]|]; cbn; try discriminate; intros _; split; congruence. Qed.

Lemma yz_b_ok : forall y, yz_b y = true -> yz y.
Proof.
  induction y as [t v|t l IH|t l IH] using ynode_ind'; intro H.
  - constructor. now apply tz_b_ok.
  - cbn [yz_b] in H. apply andb_true_iff in H. destruct H as [H H3]. apply andb_true_iff in H. destruct H as [H1 H2].
    constructor; [now apply tz_b_ok| |now apply nodup_b_ok].
    clear H1 H2. induction IH as [|[k x] r Hx Hr IHr]; [constructor|].
    apply andb_true_iff in H3. destruct H3 as [A B]. constructor; [apply Hx; exact A|apply IHr; exact B].
  - discriminate.
Qed.

Definition predict_docs (ys : list ynode) : option pp :=
  match ys with
  | y0 :: r => if (forallb yz_b ys && forallb is_YM ys)%bool then Some (fold_left upd_p (map (yprio None) r) (yprio None y0)) else None
  | [] => None
  end.

Theorem predict_docs_ok e c ys d : predict_docs ys = Some d -> exists n, flatten e (map (load_doc c) ys) = Ok n /\ perase n = d.
Proof.
  destruct ys as [|y0 r]; [discriminate|]. unfold predict_docs.
  destruct (forallb yz_b (y0 :: r) && forallb is_YM (y0 :: r))%bool eqn:E; [|discriminate].
  apply andb_true_iff in E. destruct E as [E1 E2]. intro H. inversion H; subst.
  apply flatten_prio_docs; [|exact E2]. rewrite forallb_forall in E1. apply Forall_forall. intros x Hx. apply yz_b_ok, E1, Hx.
Qed.

(* ---------- down to the evaluated config ---------- *)
Lemma pvals_PPD p kv : pvals (PPD p kv) = PD (map (fun kc => (fst kc, pvals (snd kc))) kv).
Proof. cbn [pvals]. f_equal. induction kv as [|[k c] r IH]; cbn; [reflexivity|]. now rewrite IH. Qed.

Lemma pvals_perase : forall n, OldZ n -> pvals (perase n) = erase n.
Proof.
  induction n as [k f v|k f x ch IH] using node_ind'; intro H.
  - inversion H; subst. reflexivity.
  - inversion H as [|f0 x0 ch0 HO HF Hnd]; subst. rewrite perase_comp, pvals_PPD, erase_comp. cbn [is_listk]. f_equal.
    unfold pch. rewrite map_map. cbn [fst snd].
    clear H Hnd. induction IH as [|kc r Hkc Hr IHr]; cbn [map]; [reflexivity|]. inversion HF; subst. now rewrite Hkc, IHr.
Qed.

Lemma flatten_prio_oldz e s0 sts : Forall NewZ (s0 :: sts) -> forallb is_dictk (s0 :: sts) = true ->
  exists n, flatten e (s0 :: sts) = Ok n /\ OldZ n /\ perase n = fold_left upd_p (map perase sts) (perase s0).
Proof.
  intros HF Hd. inversion HF as [|? ? Hp HF']; subst.
  unfold flatten. rewrite Hd.
  rewrite (premerge_plainT e s0 [] None (OldZ_PlainT _ (NewZ_oldz _ Hp))). cbn [bind].
  rewrite require_all_new_newz by exact Hp.
  destruct (fold_merge2_z e sts s0 (NewZ_oldz _ Hp) HF') as (n & E & Hn & En). eauto.
Qed.

(* the config BUILT from prioritised mapping documents (merge, check for placeholders, deep copy, evaluation) holds exactly the values
   of the prioritised update of the documents *)
Theorem docs_evaluated_config e pe fe c y0 ys : Forall yz (y0 :: ys) -> forallb is_YM (y0 :: ys) = true ->
  exists n v st, flatten e (map (load_doc c) (y0 :: ys)) = Ok n /\ config pe fe n = Ok (v, st) /\
                 vplain v = pvals (fold_left upd_p (map (yprio None) ys) (yprio None y0)).
Proof.
  intros HF HM.
  assert (HN : Forall NewZ (map (load_doc c) (y0 :: ys))).
  { clear HM. induction HF as [|y r Hy Hr IHr]; cbn [map]; [constructor|]. constructor; [apply (load_doc_newz c y Hy)|exact IHr]. }
  assert (HD : forallb is_dictk (map (load_doc c) (y0 :: ys)) = true).
  { clear HF HN. induction (y0 :: ys) as [|y r IHr]; [reflexivity|]. cbn [forallb map] in *. apply andb_true_iff in HM. destruct HM as [A B].
    now rewrite (MergeGen.load_doc_dict c y A), IHr. }
  cbn [map] in HN, HD. destruct (flatten_prio_oldz e _ _ HN HD) as (n & E & Hn & En).
  destruct (config_plain pe fe n (OldZ_PlainT _ Hn)) as (v & st & Ec & Ev).
  exists n, v, st. split; [exact E|]. split; [exact Ec|].
  rewrite Ev, <- (pvals_perase n Hn), En. f_equal.
  inversion HF as [|? ? H0 HF']; subst. rewrite (proj2 (load_doc_newz c y0 H0)). f_equal.
  rewrite map_map. clear - HF'. induction HF' as [|y r Hy Hr IHr]; cbn [map]; [reflexivity|]. now rewrite (proj2 (load_doc_newz c y Hy)), IHr.
Qed.
