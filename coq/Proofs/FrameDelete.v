(* Proofs/FrameDelete.v — C04's exactness at any depth: where the older tree holds a mapping at a mapping path and the newer tree reaches a
   deleting container there (through non-deleting mappings), the merged tree holds exactly the newer container's content at that path -
   whatever surrounds the path.  Proofs/Delete.v (exactness at the root) composed with Proofs/Frame.v (merged_deep). *)
From AY Require Import Model.Merge Proofs.NodeInd Proofs.FlagsLemmas Proofs.MergePlain Proofs.Local Proofs.Delete Proofs.Frame.

Lemma Sim_content a b : Sim a b -> content a = content b.
Proof.
  intro H. inversion H as [|? ? ? ? ch ch' Hse HF]; subst; [reflexivity|]. unfold content. cbn [children]. clear H.
  induction HF as [|a1 b1 l l' [Hk HS] HF' IHF]; cbn; [reflexivity|]. f_equal; [apply Sim_erase; exact HS|exact IHF].
Qed.

Theorem delete_exact_deep : forall q fuel p s o r w v fs xs chs,
  q <> [] -> on_merge [] fuel p s o = Ok (r, w) -> nreach o q v -> dget s q = Some (Comp CDict fs xs chs) ->
  is_comp v = true -> delete v = true ->
  (forall p' : path, AllSub (fun m => forall ap, has_priority_over m (first_not_missing v (skipn (length p') ap)) false = false) (Comp CDict fs xs chs)) ->
  has_priority_over v (clear_children (Comp CDict fs xs chs)) true = true ->
  (forall p' removed, require_all_new v p' (p' :: removed) true = true) ->
  exists n, content n = content v /\ (idiom n v = false -> exists c', dget r q = Some c' /\ content c' = content v).
Proof.
  intros q fuel p s o r w v fs xs chs Hq H Hm Hs Hv Hd Hsub Hp Hnew.
  destruct (merged_deep _ _ _ _ _ _ _ _ _ Hq H Hm Hs eq_refl) as (fu & p' & n & w0 & Er & Hn).
  destruct fu as [|fu']; [discriminate|]. cbn [on_merge dispatch is_funck is_listk] in Er.
  destruct (delete_exact (on_merge [] fu') [] p' (Comp CDict fs xs chs) v eq_refl Hv Hd (Hsub p') Hp (Hnew p')) as (r0 & w1 & E0 & Ec).
  rewrite E0 in Er. inversion Er; subst r0 w1.
  exists n. split; [exact Ec|]. intro Hi. destruct (Hn Hi) as (c' & Ed & HS). exists c'. split; [exact Ed|].
  now rewrite <- (Sim_content _ _ HS).
Qed.
