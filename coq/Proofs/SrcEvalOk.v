(* Proofs/SrcEvalOk.v — the control skeleton of EvalContext.evaluate_node TRANSLATED from its Python source (Gen/SrcEval.v, regenerated on
   every run by tools/translate_eval.py) is Model.Eval.eval_node: the safety check precedes the memo lookup, the memo lookup precedes entering
   the node, the node's own evaluation runs between entering and recording. *)
From AY Require Import Model.Eval Gen.SrcEval.

Lemma srce_eval_node root pe fe rec ras n p st :
  SrcE.eval_node (on_evaluate root pe fe rec) ras n p st = eval_node root pe fe rec ras n p st.
Proof.
  unfold SrcE.eval_node, eval_node. destruct ras; cbn [andb]; [destruct (safe (nflags n)); reflexivity|reflexivity].
Qed.

(* round 7: Config.check_missing, EvalContext.evaluate and Config.__init__ - the scan runs on the tree the caller passed, before the copy;
   the copy is what is evaluated, by a fresh context (no safety requirement, empty memo) *)
Lemma srce_check_missing t : SrcE.check_missing t = check_missing t.
Proof. reflexivity. Qed.

Lemma srce_config pe fe t : SrcE.config pe fe t = config pe fe t.
Proof. unfold SrcE.config, SrcE.evaluate, config. rewrite srce_check_missing. reflexivity. Qed.
