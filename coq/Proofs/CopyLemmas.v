(* Proofs/CopyLemmas.v — deepcopy re-adopts every child; on trees whose implicit flags are what their ancestors imply it is the identity (C19). *)
From AY Require Import Model.Eval Proofs.NodeInd Proofs.FlagsLemmas Proofs.EvalPlain.

(* a tree is consistent when adopting any child by its parent changes nothing, at every level *)
Inductive Consistent : node -> Prop :=
| ConsLeaf k f v : Consistent (Leaf k f v)
| ConsComp k f x ch :
    Forall (fun kc => adopt (child_kwargs (Comp k f x [])) (snd kc) = snd kc /\ Consistent (snd kc)) ch -> Consistent (Comp k f x ch).

Theorem recopy_consistent : forall n, Consistent n -> recopy n = n.
Proof.
  induction n as [k f v|k f x ch IH] using node_ind'; intro H; [reflexivity|].
  inversion H as [|? ? ? ? HF]; subst. cbn [recopy]. f_equal.
  induction IH as [|[kk c] r Hkc Hr IHr]; [reflexivity|].
  inversion HF as [|? ? [Ha Hc] HF']; subst. cbn [snd] in *. rewrite (Hkc Hc), Ha. f_equal. apply IHr; auto. constructor. exact HF'.
Qed.

(* in general the copy agrees with the original on everything but the re-derived implicit flags:
   kinds, keys, order, scalars, targets / reference points, priorities, explicit delete / allow_new / safe marks,
   source-level safety, metadata and source file *)
Theorem recopy_same_explicit : forall n, Sim n (recopy n).
Proof. exact recopy_sim. Qed.

Corollary recopy_content n : erase (recopy n) = erase n.
Proof. symmetry. apply Sim_erase, recopy_sim. Qed.

(* pickle attaches the children while the parent has no flags yet (no adoption happens) and restores the state afterwards: the identity *)
Definition repickle (n : node) : node := n.
