(* Proofs/PrioMetaLoad.v — C03 with user metadata from the document down, the "no key is lost" reading, and the executable prediction the
   correspondence compares with Builder.build. *)
From AY Require Import Model.Merge Model.Eq Model.Loader Proofs.NodeInd Proofs.FlagsLemmas Proofs.FactsOk Spec.Update Spec.UpdateP Spec.UpdatePM
  Proofs.MergePlain Proofs.LoaderLemmas Proofs.Laws Proofs.MergeNotNew Proofs.MergeGen Proofs.MergeMode Proofs.MergePrio Proofs.MergePrioMeta
  Proofs.PrioPath Proofs.PrioLoad Proofs.PrioClass Proofs.Prio.

(* the image of a document: priority as in yprio, metadata as written in the node's own tag *)
Fixpoint ymp (inh : option Z) (y : ynode) : mp :=
  match y with
  | YS t v => MPS (onone (inh_prio inh t) Facts.default_priority) (t_meta t) (AS v)
  | YM t l => MPD (onone (inh_prio inh t) Facts.default_priority) (t_meta t)
                  ((fix go (l : list (key * ynode)) := match l with [] => [] | (k, x) :: r => (k, ymp (inh_prio inh t) x) :: go r end) l)
  | YQ t l => MPS (onone (inh_prio inh t) Facts.default_priority) (t_meta t) (AL ((fix go (l : list ynode) := match l with [] => [] | x :: r => yplain x :: go r end) l))
  end.

Lemma ymp_YM inh t l :
  ymp inh (YM t l) = MPD (onone (inh_prio inh t) Facts.default_priority) (t_meta t) (map (fun kx => (fst kx, ymp (inh_prio inh t) (snd kx))) l).
Proof. cbn [ymp]. f_equal. induction l as [|[k x] r IH]; [reflexivity|]. cbn [map fst snd]. now f_equal. Qed.

Lemma ymp_YQ inh t l : ymp inh (YQ t l) = MPS (onone (inh_prio inh t) Facts.default_priority) (t_meta t) (AL (map yplain l)).
Proof. cbn [ymp]. apply f_equal. apply f_equal. induction l as [|x r IH]; [reflexivity|]. cbn [map]. now rewrite IH. Qed.

Lemma load_merase : forall y c inh kw, merase (load c inh kw y) = ymp inh y.
Proof.
  induction y as [t v|t l IH|t l IH] using ynode_ind'; intros c inh kw.
  - reflexivity.
  - rewrite load_YM, ymp_YM, merase_dict. cbn [own_flags f_meta]. f_equal. unfold mch. rewrite map_map. cbn [fst snd].
    induction IH as [|kx r Hkx Hr IHr]; cbn [map]; [reflexivity|]. now rewrite Hkx, IHr.
  - rewrite load_YQ, ymp_YQ, merase_list, lch_load_list. reflexivity.
Qed.

Lemma merase_load_docs c : forall l, map merase (map (load_doc c) l) = map (ymp None) l.
Proof. induction l as [|y r IH]; cbn [map]; [reflexivity|]. rewrite IH. unfold load_doc. now rewrite load_merase. Qed.

(* any number of documents: values, priorities and the metadata of every node of what Builder.flatten builds *)
Theorem flatten_prio_meta_docs e c y0 ys : Forall yz (y0 :: ys) -> forallb is_YM (y0 :: ys) = true ->
  hcompat (yprio None y0) (map (yprio None) ys) ->
  exists n, flatten e (map (load_doc c) (y0 :: ys)) = Ok n /\ merase n = fold_left upd_pm (map (ymp None) ys) (ymp None y0).
Proof.
  intros HF HM Hh.
  assert (HN : Forall NewZ (map (load_doc c) (y0 :: ys))).
  { clear HM Hh. induction HF as [|y r Hy Hr IHr]; cbn [map]; [constructor|]. constructor; [apply (load_doc_newz c y Hy)|exact IHr]. }
  assert (HD : forallb is_dictk (map (load_doc c) (y0 :: ys)) = true).
  { clear HF HN Hh. induction (y0 :: ys) as [|y r IHr]; [reflexivity|]. cbn [forallb map] in *. apply andb_true_iff in HM. destruct HM as [A B].
    now rewrite (load_doc_dict c y A), IHr. }
  inversion HF as [|? ? H0 HF']; subst.
  cbn [map] in HN, HD. destruct (flatten_prio_meta e _ _ HN HD) as (n & E & En).
  { rewrite (proj2 (load_doc_newz c y0 H0)), (perase_load_docs c ys HF'). exact Hh. }
  exists n. split; [exact E|]. rewrite En, (merase_load_docs c ys). unfold load_doc. now rewrite load_merase.
Qed.

(* "without losing keys": whenever two values meet - whatever their kinds and priorities - the metadata keys of the result are exactly
   the keys of the two *)
Theorem upd_pm_meta_keys a b x :
  In x (mkeys (mmeta (upd_pm a b))) <-> In x (mkeys (mmeta a)) \/ In x (mkeys (mmeta b)).
Proof.
  assert (G : forall d m, mmeta (with_meta d m) = m) by (destruct d; reflexivity).
  destruct b as [pn mn vn|pn mn kv].
  - rewrite upd_pm_other by (left; exact I). cbn [mpri mmeta].
    destruct (mpri a >? pn); rewrite G; unfold UpdatePM.mkeys; rewrite (mupd_keys _ _ x); cbn [mmeta]; unfold Prio.mkeys; tauto.
  - destruct a as [po mo vo|po mo okv].
    + rewrite upd_pm_other by (right; exact I). cbn [mpri mmeta].
      destruct (po >? pn); rewrite G; unfold UpdatePM.mkeys; rewrite (mupd_keys _ _ x); unfold Prio.mkeys; tauto.
    + rewrite upd_pm_DD. cbn [mmeta]. destruct (po >? pn); unfold UpdatePM.mkeys; rewrite (mupd_keys _ _ x); unfold Prio.mkeys; tauto.
Qed.

(* ... and the survivor's entries take precedence: a key of the survivor keeps the survivor's value *)

(* ---------- executable: equality of images with metadata, the prediction ---------- *)
Fixpoint meta_eqb (a b : list (Z * Z)) : bool :=
  match a, b with
  | [], [] => true
  | (k, v) :: r, (k', v') :: r' => ((k =? k') && (v =? v') && meta_eqb r r')%bool
  | _, _ => false
  end.

Fixpoint mp_eqb (a b : mp) : bool :=
  match a, b with
  | MPS p m v, MPS p' m' v' => ((p =? p') && meta_eqb m m' && atom_eqb v v')%bool
  | MPD p m kv, MPD p' m' kv' =>
    ((p =? p') && meta_eqb m m' &&
     (fix go (l l' : list (key * mp)) : bool :=
        match l, l' with
        | [], [] => true
        | (k, c) :: r, (k', c') :: r' => (key_eqb k k' && mp_eqb c c' && go r r')%bool
        | _, _ => false
        end) kv kv')%bool
  | _, _ => false
  end.

Definition predict_meta (stages : list node) : option mp :=
  match stages with
  | s0 :: sts => if (forallb newz_b stages && forallb is_dictk stages && hcompat_b (perase s0) (map perase sts))%bool
                 then Some (fold_left upd_pm (map merase sts) (merase s0)) else None
  | [] => None
  end.

Theorem predict_meta_ok e stages d : predict_meta stages = Some d -> exists n, flatten e stages = Ok n /\ merase n = d.
Proof.
  destruct stages as [|s0 sts]; [discriminate|]. unfold predict_meta.
  destruct (forallb newz_b (s0 :: sts) && forallb is_dictk (s0 :: sts) && hcompat_b (perase s0) (map perase sts))%bool eqn:E; [|discriminate].
  apply andb_true_iff in E. destruct E as [E E3]. apply andb_true_iff in E. destruct E as [E1 E2]. intro H. inversion H; subst.
  apply flatten_prio_meta; [|exact E2|apply hcompat_b_ok; exact E3]. rewrite forallb_forall in E1. apply Forall_forall. intros x Hx. apply newz_b_ok, E1, Hx.
Qed.
