(* Proofs/Override.v — a command-line style override (a one-entry-per-level chain of mappings ending in a scalar) sets
   exactly the addressed path of a plain base document and changes nothing else; a missing key is a MergeError (C08). *)
From AY Require Import Model.Merge Proofs.NodeInd Proofs.FlagsLemmas Proofs.FactsOk Spec.Update Proofs.MergePlain.
From Coq Require Import Lia.

(* the override document: standard priority, not deleting; allow_new is whatever the loader derived from !notnew / !new *)
Definition NN (f : flags) : Prop := f_prio f = None /\ f_del f = None /\ f_idel f = None.

Inductive Chain : list key -> scalar -> node -> Prop :=
| ChLeaf f v : f_prio f = None -> f_del f = None -> f_idel f = None -> Chain [] v (Leaf LScalar f v)
| ChStep f k ks v c : NN f -> Chain ks v c -> Chain (k :: ks) v (Comp CDict f SNone [(k, c)]).

(* the path runs through mappings of the base and exists *)
Fixpoint dpath (n : node) (ks : list key) : bool :=
  match ks with
  | [] => true
  | k :: r => match n with
              | Comp CDict _ _ ch => match aget k ch with Some c => dpath c r | None => false end
              | Comp CList _ _ ch =>
                match k with
                | KI i => if (0 <=? i) && (i <? zlen ch) then match aget (KI i) ch with Some c => dpath c r | None => false end else false
                | KS _ => false
                end
              | _ => false
              end
  end%Z.

Fixpoint pset (p : plain) (ks : list key) (v : plain) : plain :=
  match ks with
  | [] => v
  | k :: r => match p with
              | PD l => match aget k l with Some c => PD (aset k (pset c r v) l) | None => p end
              | PL l => match k with
                        | KI i => match nth_error l (Z.to_nat i) with Some c => PL (lset (Z.to_nat i) (pset c r v) l) | None => p end
                        | KS _ => p
                        end
              | _ => p
              end
  end.

Lemma prio_none f : f_prio f = None -> priority f = 0%Z.
Proof. unfold priority. intros ->. cbn. exact default_priority_0. Qed.

Lemma hpo_equal a b e : priority (nflags a) = 0%Z -> priority (nflags b) = 0%Z -> has_priority_over a b e = e.
Proof. unfold has_priority_over. intros -> ->. reflexivity. Qed.

Lemma Old_prio s : Old s -> priority (nflags s) = 0%Z.
Proof. intros H. apply OF_priority. now apply Old_OF. Qed.

Lemma chain_not_deleting ks v o : Chain ks v o -> explicit_delete o = false.
Proof. intros [f v' _ Hd _|f k ks' v' c (_ & Hd & _) _]; unfold explicit_delete; cbn [nflags]; now rewrite Hd. Qed.

(* the newer leaf wins against any plain older node *)
Lemma leaf_over s f v : Old s -> f_prio f = None ->
  leaf_merge s (Leaf LScalar f v) = (with_flags (Leaf LScalar f v) (absorb f (nflags s)), Other).
Proof.
  intros Hs Hp. unfold leaf_merge. rewrite hpo_equal; [reflexivity|now apply Old_prio|cbn [nflags]; now apply prio_none].
Qed.

Lemma dispatch_leaf rec s f v p : Old s -> f_prio f = None ->
  dispatch rec [] p s (Leaf LScalar f v) = Ok (with_flags (Leaf LScalar f v) (absorb f (nflags s)), Other).
Proof.
  intros Hs Hp. unfold dispatch. inversion Hs as [f0 v0 H0|f0 x ch H0 Hch|f0 x ch H0 Hch Hk]; subst.
  - now rewrite leaf_over.
  - cbn [is_funck is_listk]. unfold comp_merge. now rewrite leaf_over.
  - cbn [is_funck is_listk]. unfold list_merge, comp_merge. now rewrite leaf_over.
Qed.

(* the end of ComposedNode.on_merge_impl for a mapping onto a mapping of equal (standard) priority: flags are taken over,
   content stays *)
Lemma finish_dict f0 x ch f och : priority f0 = 0%Z -> priority f = 0%Z ->
  exists r pr, (if has_priority_over (Comp CDict f SNone och) (Comp CDict f0 x ch) true
                then replace_self (Comp CDict f0 x ch) (Comp CDict f SNone och) true
                else replace_other (Comp CDict f0 x ch) (Comp CDict f SNone och) true) = (r, pr) /\
               erase r = erase (Comp CDict f0 x ch).
Proof.
  intros H0 H1. rewrite hpo_equal by (cbn [nflags]; assumption).
  unfold replace_self. cbn [with_flags maybe_promote ckind_eqb fst snd].
  do 2 eexists. split; [reflexivity|]. rewrite propagate_erase. now rewrite !erase_comp.
Qed.

(* ---------- helpers for list parents ---------- *)
Lemma validate_in_range len i : (0 <= i < len)%Z ->
  validate_index len (KI i) true = IdxOk i /\ validate_index len (KI i) false = IdxOk i.
Proof.
  intros H. unfold validate_index. cbn [andb].
  assert (E1 : (Z.abs i >? len)%Z = false) by (rewrite Z.gtb_ltb; apply Z.ltb_ge; lia).
  assert (E2 : (i =? len)%Z = false) by (apply Z.eqb_neq; lia).
  assert (E3 : (i <? 0)%Z = false) by (apply Z.ltb_ge; lia).
  rewrite E1, E2, E3. cbn [orb]. split; f_equal; lia.
Qed.

Lemma chain_delete ks v o : Chain ks v o -> delete o = false.
Proof.
  intros [f v' _ Hd Hi|f k ks' v' c (_ & Hd & Hi) _]; unfold delete; cbn [nflags]; rewrite Hd, Hi; cbn [default_delete].
  - exact leaf_default_delete.
  - exact dict_default_delete.
Qed.

(* a filter that keeps every non-deleting node keeps the whole chain *)
Lemma filter_chain cond : (forall p m, delete m = false -> cond p m = true) ->
  forall ks v o, Chain ks v o -> forall pre, filter_nodes cond pre o = (o, []).
Proof.
  intros Hc. induction 1 as [f v Hp Hd Hi|f k ks v c HN Hch IH]; intros pre; [reflexivity|].
  rewrite filter_nodes_comp. cbv zeta. cbn [filter_go]. unfold filter_child. cbn [fst snd].
  rewrite (Hc _ _ (chain_delete _ _ _ Hch)). cbn [orb].
  destruct c as [lk lf lv|ck cf cx cch].
  - cbn [fst snd shift_kept is_listk app]. reflexivity.
  - rewrite (IH (pre ++ [k])). cbn [fst snd shift_kept is_listk app]. reflexivity.
Qed.

Lemma keys_enum_nth : forall l i0 j c, keys_enum i0 l -> (0 <= j)%Z -> aget (KI (i0 + j)) l = Some c ->
  nth_error l (Z.to_nat j) = Some (KI (i0 + j), c).
Proof.
  induction l as [|[k n] r IH]; intros i0 j c HK Hj E; [discriminate|].
  cbn in HK. destruct HK as [Hk HK]. cbn in Hk. subst k. cbn [aget key_eqb] in E.
  destruct (Z.eq_dec j 0) as [->|Hne].
  - replace (i0 + 0)%Z with i0 in * by lia. rewrite Z.eqb_refl in E. injection E as <-. reflexivity.
  - assert (En : (i0 + j =? i0)%Z = false) by (apply Z.eqb_neq; lia). rewrite En in E.
    replace (Z.to_nat j) with (S (Z.to_nat (j - 1))) by lia. cbn [nth_error].
    replace (i0 + j)%Z with ((i0 + 1) + (j - 1))%Z in * by lia. apply IH; auto; lia.
Qed.

Lemma finish_list f0 x ch f och : priority f0 = 0%Z -> priority f = 0%Z ->
  exists r pr, (if has_priority_over (Comp CDict f SNone och) (Comp CList f0 x ch) true
                then replace_self (Comp CList f0 x ch) (Comp CDict f SNone och) true
                else replace_other (Comp CList f0 x ch) (Comp CDict f SNone och) true) = (r, pr) /\
               erase r = erase (Comp CList f0 x ch).
Proof.
  intros H0 H1. rewrite hpo_equal by (cbn [nflags]; assumption).
  unfold replace_self. cbn [with_flags maybe_promote ckind_eqb subk is_funck is_listk is_plaink orb andb negb fst snd].
  do 2 eexists. split; [reflexivity|]. rewrite propagate_erase. now rewrite !erase_comp.
Qed.

Lemma override_list_step f k ks v c : NN f -> Chain ks v c ->
  (forall fuel p s, Old s -> (length ks < fuel)%nat -> dpath s ks = true ->
     exists n w, on_merge [] fuel p s c = Ok (n, w) /\ erase n = pset (erase s) ks (PS v)) ->
  forall fu p f0 x ch, Old (Comp CList f0 x ch) -> (S (length ks) < S fu)%nat ->
  (match k with
   | KI i => if ((0 <=? i) && (i <? zlen ch))%Z then match aget (KI i) ch with Some c0 => dpath c0 ks | None => false end else false
   | KS _ => false
   end) = true ->
  exists n w, on_merge [] (S fu) p (Comp CList f0 x ch) (Comp CDict f SNone [(k, c)]) = Ok (n, w) /\
              erase n = pset (erase (Comp CList f0 x ch)) (k :: ks) (PS v).
Proof.
  intros HN Hc IH fu p f0 x ch Hs Hf Hpath.
  destruct k as [i|]; [|discriminate].
  destruct ((0 <=? i) && (i <? zlen ch))%Z eqn:Er; [|discriminate].
  apply andb_prop in Er as [Er1 Er2]. apply Z.leb_le in Er1. apply Z.ltb_lt in Er2.
  destruct (aget (KI i) ch) as [c0|] eqn:Eg; [|discriminate].
  destruct (validate_in_range (zlen ch) i ltac:(lia)) as [Vs Vn].
  inversion Hs as [| |f1 x1 ch1 HOF Hch Hk]; subst.
  assert (Hc0 : Old c0) by (eapply aget_Forall; [exact Hch|exact Eg]).
  assert (Hf0 : priority f0 = 0%Z) by (apply (Old_prio _ Hs)).
  destruct HN as (Hp & Hd & Hi).
  assert (Hpf : priority f = 0%Z) by now apply prio_none.
  assert (Hexp : explicit_delete c = false) by (eapply chain_not_deleting; exact Hc).
  assert (Hdel : delete (Comp CDict f SNone [(KI i, c)]) = false).
  { unfold delete. cbn [nflags]. rewrite Hd, Hi. cbn [default_delete]. exact dict_default_delete. }
  cbn [on_merge dispatch is_funck is_listk]. unfold list_merge. cbn [is_listk negb children andb].
  rewrite Hdel. unfold dict_keys_ok. cbn [forallb fst]. rewrite Vs. cbn [negb andb].
  rewrite (filter_chain (keep_if_exists (Comp CList f0 x ch))) with (ks := KI i :: ks) (v := v);
    [|intros q m Hm; unfold keep_if_exists; now rewrite Hm|constructor; [repeat split; auto|exact Hc]].
  cbn [fst]. unfold comp_merge, prune. rewrite Hdel. cbn [fold_left]. unfold merge_step. cbn [bind get_child is_listk]. rewrite Vs, Eg.
  cbn [path_in existsb].
  assert (Hnth : nth_error ch (Z.to_nat i) = Some (KI i, c0)).
  { apply (keys_enum_nth ch 0 i c0 Hk Er1). exact Eg. }
  assert (Hdone : forall n', erase n' = pset (erase c0) ks (PS v) ->
            exists r w, (do s2 <- Ok (Comp CList f0 x (aset (KI i) n' ch));
                         let '(r, promoted) := if has_priority_over (Comp CDict f SNone [(KI i, c)]) s2 true
                                               then replace_self s2 (Comp CDict f SNone [(KI i, c)]) true
                                               else replace_other s2 (Comp CDict f SNone [(KI i, c)]) true in
                         Ok (r, who_of promoted Self Other)) = Ok (r, w) /\
                        erase r = pset (erase (Comp CList f0 x ch)) (KI i :: ks) (PS v)).
  { intros n' En'. cbn [bind]. destruct (finish_list f0 x (aset (KI i) n' ch) f [(KI i, c)] Hf0 Hpf) as (r & pr & Erp & Ee).
    rewrite Erp. do 2 eexists. split; [reflexivity|]. rewrite Ee, !erase_comp. cbn [is_listk pset].
    rewrite nth_error_map, Hnth. cbn [option_map snd].
    destruct (keys_enum_aset ch 0 i n' Hk ltac:(lia)) as [Ea _]. cbn [Z.add] in Ea. rewrite Ea.
    rewrite lset_map. cbn [snd]. now rewrite En'. }
  destruct (is_comp c0) eqn:Eic.
  - destruct (IH fu (p ++ [KI i]) c0 Hc0 ltac:(lia) Hpath) as (n & w & En & Ee).
    rewrite En. cbn [bind]. rewrite Hexp, !andb_false_r.
    destruct w.
    + cbn [put_child is_listk]. rewrite Vs. apply (Hdone n Ee).
    + cbn [set_child is_listk]. rewrite Vn. apply Hdone. now rewrite adopt_erase.
  - destruct c0 as [lk lf lv|]; [|discriminate].
    destruct ks as [|k2 ks2]; [|cbn [dpath] in Hpath; discriminate].
    inversion Hc as [f' v' Hp' Hd' Hi'|]; subst.
    destruct fu as [|fu2]; [cbn in Hf; lia|]. cbn [on_merge]. rewrite dispatch_leaf by auto. cbn [bind].
    cbn [require_all_new forallb with_flags]. cbn [truthy]. unfold explicit_delete at 1. cbn [nflags with_flags].
    assert (Habs : f_del (absorb f' lf) = None) by (unfold absorb; cbn; exact Hd').
    rewrite Habs. cbn [onone]. rewrite andb_false_r.
    cbn [set_child is_listk]. rewrite Vn. apply Hdone. rewrite adopt_erase. reflexivity.
Qed.

Theorem override_sets_path : forall ks v o, Chain ks v o ->
  forall fuel p s, Old s -> (length ks < fuel)%nat -> dpath s ks = true ->
  exists n w, on_merge [] fuel p s o = Ok (n, w) /\ erase n = pset (erase s) ks (PS v).
Proof.
  induction 1 as [f v Hp Hd Hid|f k ks v c HN Hc IH]; intros fuel p s Hs Hf Hpath.
  - destruct fuel as [|fu]; [cbn in Hf; lia|]. cbn [on_merge]. rewrite dispatch_leaf by auto.
    do 2 eexists. split; reflexivity.
  - destruct fuel as [|fu]; [cbn in Hf; lia|]. cbn [length] in Hf.
    destruct s as [|ks0 f0 x ch]; [discriminate|]. destruct ks0; try discriminate; cbn [dpath] in Hpath; [|apply (override_list_step f k ks v c HN Hc IH fu p f0 x ch Hs Hf Hpath)].
    destruct (aget k ch) as [c0|] eqn:Eg; [|discriminate].
    assert (Hc0 : Old c0) by (eapply get_child_old; [exact Hs|cbn [get_child is_listk]; exact Eg]).
    assert (Hf0 : priority f0 = 0%Z) by (apply (Old_prio _ Hs)).
    destruct HN as (Hp & Hd & Hi).
    assert (Hpf : priority f = 0%Z) by now apply prio_none.
    assert (Hexp : explicit_delete c = false) by (eapply chain_not_deleting; exact Hc).
    cbn [on_merge dispatch is_funck is_listk]. unfold comp_merge.
    assert (Hdel : delete (Comp CDict f SNone [(k, c)]) = false).
    { unfold delete. cbn [nflags]. rewrite Hd, Hi. cbn [default_delete]. exact dict_default_delete. }
    unfold prune. rewrite Hdel. cbn [fold_left]. unfold merge_step. cbn [bind get_child is_listk]. rewrite Eg.
    cbn [path_in existsb].
    (* it suffices that the step puts a node with the right content at key k *)
    assert (Hdone : forall n', erase n' = pset (erase c0) ks (PS v) ->
              exists r w, (do s2 <- Ok (Comp CDict f0 x (aset k n' ch));
                           let '(r, promoted) := if has_priority_over (Comp CDict f SNone [(k, c)]) s2 true
                                                 then replace_self s2 (Comp CDict f SNone [(k, c)]) true
                                                 else replace_other s2 (Comp CDict f SNone [(k, c)]) true in
                           Ok (r, who_of promoted Self Other)) = Ok (r, w) /\
                          erase r = pset (erase (Comp CDict f0 x ch)) (k :: ks) (PS v)).
    { intros n' En'. cbn [bind]. destruct (finish_dict f0 x (aset k n' ch) f [(k, c)] Hf0 Hpf) as (r & pr & Er & Ee).
      rewrite Er. do 2 eexists. split; [reflexivity|]. rewrite Ee, !erase_comp. cbn [is_listk pset].
      rewrite aget_map, Eg. cbn [option_map]. now rewrite aset_map, En'. }
    destruct (is_comp c0) eqn:Eic.
    + destruct (IH fu (p ++ [k]) c0 Hc0 ltac:(lia) Hpath) as (n & w & En & Ee).
      rewrite En. cbn [bind]. rewrite Hexp, !andb_false_r.
      destruct w.
      * cbn [put_child is_listk]. apply (Hdone n Ee).
      * cbn [set_child is_listk]. apply Hdone. now rewrite adopt_erase.
    + (* the older entry is a scalar: the path ends here *)
      destruct c0 as [lk lf lv|]; [|discriminate].
      destruct ks as [|k2 ks2]; [|cbn [dpath] in Hpath; discriminate].
      inversion Hc as [f' v' Hp' Hd' Hi'|]; subst.
      destruct fu as [|fu2]; [lia|]. cbn [on_merge]. rewrite dispatch_leaf by auto. cbn [bind].
      cbn [require_all_new forallb with_flags]. cbn [truthy]. unfold explicit_delete at 1. cbn [nflags with_flags].
      assert (Habs : f_del (absorb f' lf) = None) by (unfold absorb; cbn; exact Hd').
      rewrite Habs. cbn [onone]. rewrite andb_false_r.
      cbn [set_child is_listk]. apply Hdone. rewrite adopt_erase. reflexivity.
Qed.

(* ---------- a mistyped path ---------- *)
(* below the root, every node of a !notnew override refuses to be created *)
Inductive ChainN : list key -> scalar -> node -> Prop :=
| CnLeaf f v : f_prio f = None -> f_del f = None -> f_idel f = None -> ChainN [] v (Leaf LScalar f v)
| CnStep f k ks v c : NN f -> allow_new (nflags c) = false -> ChainN ks v c -> ChainN (k :: ks) v (Comp CDict f SNone [(k, c)]).

Lemma ChainN_Chain ks v o : ChainN ks v o -> Chain ks v o.
Proof. induction 1; constructor; auto. Qed.

(* the deepest existing mapping along the path has no entry for the next key *)
Fixpoint misses (n : node) (ks : list key) : bool :=
  match ks with
  | [] => false
  | k :: r => match n with
              | Comp CDict _ _ ch => match aget k ch with Some c => misses c r | None => true end
              | Comp CList _ _ ch =>
                match k with
                | KI i => if ((0 <=? i) && (i <? zlen ch))%Z then match aget (KI i) ch with Some c => misses c r | None => false end
                          else (zlen ch <=? i)%Z       (* an index beyond the end *)
                | KS _ => false
                end
              | _ => false
              end
  end.

Lemma require_all_new_refused c p : allow_new (nflags c) = false -> require_all_new c p [] true = false.
Proof.
  intros H. unfold require_all_new. destruct c as [lk lf lv|k f x ch].
  - cbn [forallb fst snd nflags] in *. now rewrite H.
  - unfold nodes_with_paths. rewrite nwp_comp. cbn [forallb fst snd nflags] in *. now rewrite H.
Qed.

Theorem override_missing_key : forall ks v o, ChainN ks v o ->
  forall fuel p s, Old s -> (length ks < fuel)%nat -> misses s ks = true ->
  exists q, on_merge [] fuel p s o = Err EMerge q.
Proof.
  induction 1 as [f v Hp Hd Hid|f k ks v c HN Hnew Hc IH]; intros fuel p s Hs Hf Hm; [discriminate|].
  destruct fuel as [|fu]; [cbn in Hf; lia|]. cbn [length] in Hf.
  destruct s as [|ks0 f0 x ch]; [discriminate|]. destruct ks0; try discriminate; cbn [misses] in Hm.
  2: { (* the older node is a list *)
    destruct k as [i|]; [|discriminate].
    destruct HN as (Hp & Hd & Hi).
    assert (Hdel : delete (Comp CDict f SNone [(KI i, c)]) = false).
    { unfold delete. cbn [nflags]. rewrite Hd, Hi. cbn [default_delete]. exact dict_default_delete. }
    cbn [on_merge dispatch is_funck is_listk]. unfold list_merge. cbn [is_listk negb children andb]. rewrite Hdel.
    unfold dict_keys_ok. cbn [forallb fst].
    destruct ((0 <=? i) && (i <? zlen ch))%Z eqn:Er.
    - apply andb_prop in Er as [Er1 Er2]. apply Z.leb_le in Er1. apply Z.ltb_lt in Er2.
      destruct (aget (KI i) ch) as [c0|] eqn:Eg; [|discriminate].
      destruct (validate_in_range (zlen ch) i ltac:(lia)) as [Vs Vn]. rewrite Vs. cbn [negb andb].
      inversion Hs as [| |f1 x1 ch1 HOF Hch Hk]; subst.
      assert (Hc0 : Old c0) by (eapply aget_Forall; [exact Hch|exact Eg]).
      rewrite (filter_chain (keep_if_exists (Comp CList f0 x ch))) with (ks := KI i :: ks) (v := v);
        [|intros q m Hm'; unfold keep_if_exists; now rewrite Hm'|constructor; [repeat split; auto|now apply ChainN_Chain]].
      cbn [fst]. unfold comp_merge, prune. rewrite Hdel. cbn [fold_left]. unfold merge_step. cbn [bind get_child is_listk]. rewrite Vs, Eg.
      cbn [path_in existsb].
      destruct (IH fu (p ++ [KI i]) c0 Hc0 ltac:(lia) Hm) as (q & Eq). rewrite Eq. cbn [bind]. now exists q.
    - apply Z.leb_le in Hm.
      assert (Vr : validate_index (zlen ch) (KI i) true = IdxRangeErr).
      { unfold validate_index. cbn [andb]. assert (E : ((Z.abs i >? zlen ch) || (i =? zlen ch))%Z = true).
        { destruct (Z.eq_dec i (zlen ch)) as [->|Hne]; [rewrite Z.eqb_refl; apply orb_true_r|].
          apply orb_true_iff. left. rewrite Z.gtb_ltb. apply Z.ltb_lt. unfold zlen in *. lia. }
        now rewrite E. }
      rewrite Vr. cbn [negb andb]. now exists p. }
  destruct HN as (Hp & Hd & Hi).
  cbn [on_merge dispatch is_funck is_listk]. unfold comp_merge.
  assert (Hdel : delete (Comp CDict f SNone [(k, c)]) = false).
  { unfold delete. cbn [nflags]. rewrite Hd, Hi. cbn [default_delete]. exact dict_default_delete. }
  unfold prune. rewrite Hdel. cbn [fold_left]. unfold merge_step. cbn [bind get_child is_listk].
  destruct (aget k ch) as [c0|] eqn:Eg.
  - assert (Hc0 : Old c0) by (eapply get_child_old; [exact Hs|cbn [get_child is_listk]; exact Eg]).
    destruct (IH fu (p ++ [k]) c0 Hc0 ltac:(lia) Hm) as (q & Eq).
    cbn [path_in existsb]. rewrite Eq. cbn [bind]. now exists q.
  - rewrite (require_all_new_refused c _ Hnew). cbn [bind]. now exists p.
Qed.
