(* Proofs/FuncTable.v — merging onto a function node follows the documented table (C13). *)
From AY Require Import Model.Merge Proofs.NodeInd Proofs.FlagsLemmas Proofs.Delete.

(* Call <- mapping / list: the arguments are updated by the ordinary container rule, the target is untouched *)
Theorem func_merge_container rec als p ks fs xs chs ko fo xo cho :
  is_funck ks = true -> is_funck ko = false ->
  dispatch rec als p (Comp ks fs xs chs) (Comp ko fo xo cho) = comp_merge rec als p (Comp ks fs xs chs) (Comp ko fo xo cho).
Proof.
  intros Hs Ho. unfold dispatch. rewrite Hs. unfold func_merge. cbn [is_str_leaf node_x]. rewrite Ho. reflexivity.
Qed.

(* Call <- string of equal or higher priority: the target becomes that name and the old arguments are dropped *)
Theorem func_merge_string rec als p ks fs xs chs lk fo z :
  is_funck ks = true -> (match lk with LRequired | LClear | LInclude => False | _ => True end) ->
  has_priority_over (Leaf lk fo (SStr z)) (Comp ks fs xs chs) true = true ->
  exists f', dispatch rec als p (Comp ks fs xs chs) (Leaf lk fo (SStr z)) = Ok (Comp ks f' (SStr z) [], Self).
Proof.
  intros Hs Hk Hp. unfold dispatch. rewrite Hs. unfold func_merge.
  assert (E : is_str_leaf (Leaf lk fo (SStr z)) = true) by (destruct lk; try reflexivity; contradiction).
  rewrite E, Hp. unfold replace_self. cbn [set_x clear_children with_flags nflags fst snd].
  unfold propagate. cbn [nflags]. rewrite prop_as_comp. cbn [map].
  destruct (prop_stops _); eexists; reflexivity.
Qed.

(* ... a string of lower priority changes nothing but the absorbed safety / metadata *)
Theorem func_merge_string_weaker rec als p ks fs xs chs lk fo z :
  is_funck ks = true -> (match lk with LRequired | LClear | LInclude => False | _ => True end) ->
  has_priority_over (Leaf lk fo (SStr z)) (Comp ks fs xs chs) true = false ->
  dispatch rec als p (Comp ks fs xs chs) (Leaf lk fo (SStr z)) = Ok (Comp ks (absorb fs fo) xs chs, Self).
Proof.
  intros Hs Hk Hp. unfold dispatch. rewrite Hs. unfold func_merge.
  assert (E : is_str_leaf (Leaf lk fo (SStr z)) = true) by (destruct lk; try reflexivity; contradiction).
  rewrite E, Hp. reflexivity.
Qed.

(* Call1 <- Call2 with a DIFFERENT target (not outranked, deleting as function nodes are by default): the target is
   replaced and the merged arguments are exactly those of the newer node — the old ones are dropped *)
Theorem func_merge_new_target rec als p ks fs xs chs ko fo xo cho :
  is_funck ks = true -> is_funck ko = true -> scalar_eqb xs xo = false ->
  has_priority_over (Comp ko fo xo cho) (Comp ks fs xs chs) true = true ->
  delete (Comp ko fo xo cho) = true ->
  (forall removed, require_all_new (Comp ko fo xo cho) p (p :: removed) true = true) ->
  exists r w, dispatch rec als p (Comp ks fs xs chs) (Comp ko fo xo cho) = Ok (r, w) /\
              content r = content (Comp ko fo xo cho) /\ node_x r = Some xo.
Proof.
  intros Hs Ho Hx Hp Hd Hn. unfold dispatch. rewrite Hs. unfold func_merge. cbn [is_str_leaf node_x]. rewrite Ho, Hx. cbn [negb].
  rewrite Hp. cbn [negb]. rewrite Hd. cbn [clear_children set_x].
  unfold comp_merge, prune. rewrite Hd.
  rewrite filter_nodes_comp. cbn [filter_go fst snd shift_kept children andb].
  assert (Hp' : has_priority_over (Comp ko fo xo cho) (Comp ks fs xo (if is_listk ks then renum_from 0 [] else [])) true = true).
  { destruct (is_listk ks); exact Hp. }
  destruct (is_listk ks); cbn [renum_from children] in *; rewrite Hp', Hn;
    unfold replace_other; cbn [with_flags nflags];
    (destruct (maybe_promote (Comp ko (absorb fo fs) xo cho) (Comp ks fs xo [])) as [r pr] eqn:Em;
     do 2 eexists; split; [reflexivity|]; split;
     [pose proof (maybe_promote_content (Comp ko (absorb fo fs) xo cho) (Comp ks fs xo [])) as Hc; rewrite Em in Hc; exact Hc|];
     unfold maybe_promote in Em;
     repeat match type of Em with context [if ?b then _ else _] => destruct b eqn:? end; inversion Em; subst; cbn [node_x]; rewrite ?Ho, ?Hs; reflexivity).
Qed.

(* same target: the ordinary container rule with a deleting newer node, i.e. the arguments are replaced by default *)
Theorem func_merge_same_target rec als p ks fs xs chs ko fo cho :
  is_funck ks = true -> is_funck ko = true ->
  dispatch rec als p (Comp ks fs xs chs) (Comp ko fo xs cho) = comp_merge rec als p (Comp ks fs xs chs) (Comp ko fo xs cho).
Proof.
  intros Hs Ho. unfold dispatch. rewrite Hs. unfold func_merge. cbn [is_str_leaf node_x]. rewrite Ho.
  assert (scalar_eqb xs xs = true) as -> by (destruct xs; cbn; try apply Z.eqb_refl; try reflexivity; destruct b; reflexivity).
  reflexivity.
Qed.
