(* Proofs/PatchLemmas.v — the bytecode patch is a per-instruction expansion that preserves opcodes, and re-targets every
   relative jump to the image of its target. *)
From AY Require Import Model.Patch.
From Coq Require Import Lia.

(* ---------- a declarative description of the first pass ---------- *)
Definition redirect (wrapper ayns : Z) (names : list Z) (op arg : Z) : option (Z * Z) :=      (* Some (new_arg, attr_arg) *)
  if is_load op then
    let sh := arg_shifted op in
    let nidx := if sh then Z.shiftr arg 1 else arg in
    match nth_error names (Z.to_nat nidx) with
    | None => None
    | Some name =>
      if (name =? wrapper) || (name =? ayns) then None
      else Some (if sh then Z.lor (Z.shiftl (wrapper_index wrapper names) 1) (Z.land arg 1) else wrapper_index wrapper names,
                 if Facts.py_at_least_3_12 then Z.shiftl nidx 1 else nidx)
    end
  else None.

Definition attr_caches : list unit := if Facts.py_at_least_3_11 then repeat (0, 0) (caches_of Facts.op_load_attr) else [].

(* the block one instruction (with the inline caches a redirected load owns) expands to *)
Definition block (op new_arg attr_arg : Z) (cs : list unit) : list unit :=
  (op, new_arg) :: cs ++ (Facts.op_load_attr, attr_arg) :: attr_caches.

Lemma scan_out_prefix : forall fuel wrapper ayns names l u st st',
  scan fuel wrapper ayns names l u st = POk st' -> exists tail, s_out st' = s_out st ++ tail.
Proof.
  induction fuel as [|fu IH]; intros wrapper ayns names l u st st' H; cbn [scan] in H.
  - injection H as <-. exists []. now rewrite app_nil_r.
  - destruct l as [|[op arg] rest]; [injection H as <-; exists []; now rewrite app_nil_r|].
    assert (Hplain : forall st1, scan fu wrapper ayns names rest (u + 1) st1 = POk st' -> s_out st1 = s_out st ++ [(op, arg)] ->
                                 exists tail, s_out st' = s_out st ++ tail).
    { intros st1 H1 E. destruct (IH _ _ _ _ _ _ _ H1) as [t Ht]. exists ((op, arg) :: t). rewrite Ht, E, <- app_assoc. reflexivity. }
    destruct (is_load op).
    + destruct (nth_error names _) as [name|]; [|discriminate].
      destruct ((name =? wrapper) || (name =? ayns)); [eapply Hplain; [exact H|reflexivity]|].
      match type of H with (if negb (byte_ok ?x) then _ else _) = _ => destruct (negb (byte_ok x)); [discriminate|] end.
      match type of H with match ?tc with _ => _ end = _ => destruct tc as [[cs rest']|]; [|discriminate] end.
      match type of H with (if negb (byte_ok ?x) then _ else _) = _ => destruct (negb (byte_ok x)); [discriminate|] end.
      destruct (IH _ _ _ _ _ _ _ H) as [t Ht]. cbn [s_out] in Ht. eexists. rewrite Ht, <- app_assoc. reflexivity.
    + eapply Hplain; [exact H|reflexivity].
Qed.

(* ---------- the second pass only rewrites arguments ---------- *)
Lemma set_nth_length n x l : length (set_nth n x l) = length l.
Proof. revert l; induction n as [|n IH]; intros [|y r]; cbn; try reflexivity. now rewrite IH. Qed.

Lemma set_nth_ops n op a l a0 : nth_error l n = Some (op, a0) -> map fst (set_nth n (op, a) l) = map fst l.
Proof.
  revert l; induction n as [|n IH]; intros [|y r] H; cbn in *; try discriminate.
  - injection H as ->. reflexivity.
  - f_equal. now apply IH.
Qed.

Lemma fix_jump_shape lmap out j out' : fix_jump lmap out j = POk out' -> length out' = length out /\ map fst out' = map fst out.
Proof.
  unfold fix_jump. destruct j as [old new]. destruct (nth_error out (Z.to_nat new)) as [[op rel]|] eqn:E; [|discriminate].
  destruct (zassoc _ lmap); [|discriminate]. destruct (byte_ok _); [|discriminate]. intros [= <-].
  split; [apply set_nth_length|eapply set_nth_ops; exact E].
Qed.

Lemma fix_jumps_shape lmap : forall js out out', fix_jumps lmap out js = POk out' -> length out' = length out /\ map fst out' = map fst out.
Proof.
  induction js as [|j r IH]; intros out out' H; cbn [fix_jumps] in H; [injection H as <-; split; reflexivity|].
  destruct (fix_jump lmap out j) as [o1|] eqn:E; [|discriminate].
  destruct (fix_jump_shape _ _ _ _ E) as [L1 M1]. destruct (IH _ _ H) as [L2 M2]. split; congruence.
Qed.

(* the opcodes (and the number of units) of the patched code are those of the first pass *)
Theorem patch_ops wrapper ayns names nested code out names' st :
  scan (S (length code)) wrapper ayns names code 0 (mkSS [] [] [] false) = POk st ->
  patch wrapper ayns names nested code = POk (Some (out, names')) ->
  length out = length (s_out st) /\ map fst out = map fst (s_out st).
Proof.
  intros Hs. unfold patch. rewrite Hs. destruct (s_patched st || nested); [|discriminate].
  destruct (fix_jumps _ _ _) as [o|] eqn:E; [|discriminate]. intros [= <- _]. eapply fix_jumps_shape; exact E.
Qed.

(* ---------- invariants of the first pass ---------- *)
Lemma take_caches_app : forall n l cs rest, take_caches n l = POk (cs, rest) -> l = cs ++ rest /\ length cs = n.
Proof.
  induction n as [|n IH]; intros l cs rest H; cbn [take_caches] in H.
  - injection H as <- <-. split; reflexivity.
  - destruct l as [|[o a] r]; [discriminate|]. destruct (o =? 0); [|discriminate].
    destruct (take_caches n r) as [[c rest0]|] eqn:E; [|discriminate]. injection H as <- <-.
    destruct (IH _ _ _ E) as [-> <-]. split; reflexivity.
Qed.

Definition Inv (code : list unit) (u : Z) (st : scan_st) : Prop :=
  let n := Z.of_nat (length (s_out st)) in
  (forall k p, In (k, p) (s_map st) -> 0 <= k < u /\ 0 <= p < n /\ n - p >= u - k) /\
  (forall k1 p1 k2 p2, In (k1, p1) (s_map st) -> In (k2, p2) (s_map st) -> k1 <= k2 -> p2 - p1 >= k2 - k1) /\
  (forall k p, In (k, p) (s_rj st) ->
     In (k, p) (s_map st) /\
     exists op arg, nth_error code (Z.to_nat k) = Some (op, arg) /\ nth_error (s_out st) (Z.to_nat p) = Some (op, arg) /\
                    zmem op Facts.op_hasjrel = true) /\
  NoDup (map snd (s_rj st)).

Lemma nth_error_grow {A} (l t : list A) p x : nth_error l p = Some x -> nth_error (l ++ t) p = Some x.
Proof. intros H. rewrite nth_error_app1; [exact H|]. apply nth_error_Some. congruence. Qed.

Lemma Inv_plain code pre op arg rest st :
  code = pre ++ (op, arg) :: rest ->
  Inv code (Z.of_nat (length pre)) st ->
  Inv code (Z.of_nat (length pre) + 1)
      (mkSS (s_out st ++ [(op, arg)]) ((Z.of_nat (length pre), Z.of_nat (length (s_out st))) :: s_map st)
            (if zmem op Facts.op_hasjrel && negb (zmem op Facts.op_hasjabs) && negb (is_load op)
             then (Z.of_nat (length pre), Z.of_nat (length (s_out st))) :: s_rj st else s_rj st)
            (s_patched st)).
Proof.
  intros Hc (I1 & I2 & I3 & I4). set (u := Z.of_nat (length pre)). set (n := Z.of_nat (length (s_out st))).
  unfold Inv. cbn [s_out s_map s_rj]. rewrite app_length. cbn [length]. replace (Z.of_nat (length (s_out st) + 1)) with (n + 1) by lia.
  assert (J1 : forall k p, In (k, p) ((u, n) :: s_map st) -> 0 <= k < u + 1 /\ 0 <= p < n + 1 /\ n + 1 - p >= u + 1 - k).
  { intros k p [[= <- <-]|H]; [lia|]. specialize (I1 _ _ H). fold u n in I1. lia. }
  split; [exact J1|]. split.
  - intros k1 p1 k2 p2 [[= <- <-]|H1] [[= <- <-]|H2] Hle; try lia.
    + specialize (I1 _ _ H2). fold u n in I1. lia.
    + specialize (I1 _ _ H1). fold u n in I1. lia.
    + exact (I2 _ _ _ _ H1 H2 Hle).
  - assert (Hold : forall k p, In (k, p) (s_rj st) ->
        In (k, p) ((u, n) :: s_map st) /\
        exists op0 arg0, nth_error code (Z.to_nat k) = Some (op0, arg0) /\ nth_error (s_out st ++ [(op, arg)]) (Z.to_nat p) = Some (op0, arg0) /\
                         zmem op0 Facts.op_hasjrel = true).
    { intros k p H. destruct (I3 _ _ H) as (Hm & o & a & Hc1 & Ho & Hj). split; [now right|]. exists o, a. repeat split; [exact Hc1| |exact Hj].
      now apply nth_error_grow. }
    destruct (zmem op Facts.op_hasjrel && negb (zmem op Facts.op_hasjabs) && negb (is_load op)) eqn:Ej.
    + split.
      * intros k p [[= <- <-]|H]; [|now apply Hold]. split; [now left|]. exists op, arg.
        apply andb_prop in Ej as [Ej _]. apply andb_prop in Ej as [Ej _]. repeat split; [| |exact Ej].
        -- subst code u. rewrite Nat2Z.id, nth_error_app2 by lia. now rewrite Nat.sub_diag.
        -- subst n. rewrite Nat2Z.id, nth_error_app2 by lia. now rewrite Nat.sub_diag.
      * cbn [map snd]. constructor; [|exact I4]. intros Hin. apply in_map_iff in Hin as ([k p] & Hp & Hin). cbn [snd] in Hp. subst p.
        destruct (I3 _ _ Hin) as (Hm & _). specialize (I1 _ _ Hm). fold n in I1. lia.
    + split; [exact Hold|exact I4].
Qed.

Lemma Inv_patched code pre op arg cs rest' st new_arg attr_arg :
  code = pre ++ (op, arg) :: cs ++ rest' ->
  Inv code (Z.of_nat (length pre)) st ->
  Inv code (Z.of_nat (length pre) + 1 + Z.of_nat (length cs))
      (mkSS (s_out st ++ (op, new_arg) :: cs ++ (Facts.op_load_attr, attr_arg) :: attr_caches)
            ((Z.of_nat (length pre), Z.of_nat (length (s_out st))) :: s_map st) (s_rj st) true).
Proof.
  intros Hc (I1 & I2 & I3 & I4). set (u := Z.of_nat (length pre)). set (n := Z.of_nat (length (s_out st))).
  unfold Inv. cbn [s_out s_map s_rj]. rewrite app_length. cbn [length]. rewrite app_length. cbn [length].
  set (n' := Z.of_nat (length (s_out st) + S (length cs + S (length attr_caches)))).
  assert (Hn : n' >= n + 2 + Z.of_nat (length cs)) by (subst n n'; lia).
  assert (J1 : forall k p, In (k, p) ((u, n) :: s_map st) -> 0 <= k < u + 1 + Z.of_nat (length cs) /\ 0 <= p < n' /\ n' - p >= u + 1 + Z.of_nat (length cs) - k).
  { intros k p [[= <- <-]|H]; [lia|]. specialize (I1 _ _ H). fold u n in I1. lia. }
  split; [exact J1|]. split; [|split; [|exact I4]].
  - intros k1 p1 k2 p2 [[= <- <-]|H1] [[= <- <-]|H2] Hle; try lia.
    + specialize (I1 _ _ H2). fold u n in I1. lia.
    + specialize (I1 _ _ H1). fold u n in I1. lia.
    + exact (I2 _ _ _ _ H1 H2 Hle).
  - intros k p H. destruct (I3 _ _ H) as (Hm & o & a & Hc1 & Ho & Hj). split; [now right|]. exists o, a. repeat split; [exact Hc1| |exact Hj].
    now apply nth_error_grow.
Qed.

Theorem scan_inv code : forall fuel wrapper ayns names l pre st st',
  code = pre ++ l -> Inv code (Z.of_nat (length pre)) st ->
  scan fuel wrapper ayns names l (Z.of_nat (length pre)) st = POk st' ->
  exists u', Inv code u' st'.
Proof.
  induction fuel as [|fu IH]; intros wrapper ayns names l pre st st' Hc HI H; cbn [scan] in H.
  - injection H as <-. eexists; exact HI.
  - destruct l as [|[op arg] rest]; [injection H as <-; eexists; exact HI|].
    assert (Hplain : scan fu wrapper ayns names rest (Z.of_nat (length pre) + 1)
                       (mkSS (s_out st ++ [(op, arg)]) ((Z.of_nat (length pre), Z.of_nat (length (s_out st))) :: s_map st)
                             (if zmem op Facts.op_hasjrel && negb (zmem op Facts.op_hasjabs) && negb (is_load op)
                              then (Z.of_nat (length pre), Z.of_nat (length (s_out st))) :: s_rj st else s_rj st) (s_patched st)) = POk st' ->
                     exists u', Inv code u' st').
    { intros H1.
      assert (Hl : Z.of_nat (length (pre ++ [(op, arg)])) = Z.of_nat (length pre) + 1) by (rewrite app_length; cbn [length]; lia).
      rewrite <- Hl in H1.
      eapply (IH wrapper ayns names rest (pre ++ [(op, arg)])); cycle 2; [exact H1| |].
      - rewrite <- app_assoc. exact Hc.
      - rewrite Hl. now apply Inv_plain with (rest := rest). }
    destruct (is_load op); [|exact (Hplain H)].
    destruct (nth_error names _) as [name|]; [|discriminate].
    destruct ((name =? wrapper) || (name =? ayns)); [exact (Hplain H)|].
    match type of H with (if negb (byte_ok ?x) then _ else _) = _ => destruct (negb (byte_ok x)); [discriminate|] end.
    match type of H with match ?tc with _ => _ end = _ => destruct tc as [[cs rest']|] eqn:Etc; [|discriminate] end.
    match type of H with (if negb (byte_ok ?x) then _ else _) = _ => destruct (negb (byte_ok x)); [discriminate|] end.
    assert (Hrest : rest = cs ++ rest').
    { destruct Facts.py_at_least_3_11; [now apply take_caches_app in Etc as [-> _]|]. injection Etc as <- <-. reflexivity. }
    subst rest.
    assert (Hl : Z.of_nat (length (pre ++ (op, arg) :: cs)) = Z.of_nat (length pre) + 1 + Z.of_nat (length cs)) by (rewrite app_length; cbn [length]; lia).
    rewrite <- Hl in H.
    eapply (IH wrapper ayns names rest' (pre ++ (op, arg) :: cs)); cycle 2; [exact H| |].
    + rewrite <- app_assoc. exact Hc.
    + rewrite Hl. exact (Inv_patched code pre op arg cs rest' st _ _ Hc HI).
Qed.

(* ---------- the second pass ---------- *)
Definition is_backward (op : Z) : bool := zmem op Facts.op_backward && Facts.py_at_least_3_11.
(* where a relative jump at unit p with argument rel goes *)
Definition jump_target (op p rel : Z) : Z := if is_backward op then p + jump_base op - rel else p + jump_base op + rel.

Lemma set_nth_same n x l : (n < length l)%nat -> nth_error (set_nth n x l) n = Some x.
Proof. revert l; induction n as [|n IH]; intros [|y r] H; cbn in *; try lia; [reflexivity|]. apply IH. lia. Qed.

Lemma set_nth_other n m x l : n <> m -> nth_error (set_nth n x l) m = nth_error l m.
Proof.
  revert m l; induction n as [|n IH]; intros m [|y r] H; cbn; try reflexivity.
  - destruct m; [congruence|reflexivity].
  - destruct m; [reflexivity|]. cbn. apply IH. congruence.
Qed.

Lemma zassoc_In k l v : zassoc k l = Some v -> In (k, v) l.
Proof.
  induction l as [|[a b] r IH]; cbn; [discriminate|]. destruct (a =? k) eqn:E.
  - apply Z.eqb_eq in E. subst. intros [= ->]. now left.
  - intros H. right. now apply IH.
Qed.

Lemma In_zassoc k v l : In (k, v) l -> (forall v', In (k, v') l -> v' = v) -> zassoc k l = Some v.
Proof.
  induction l as [|[a b] r IH]; cbn; [intros []|]. intros Hin Hu. destruct (a =? k) eqn:E.
  - apply Z.eqb_eq in E. subst a. f_equal. apply Hu. now left.
  - destruct Hin as [[= -> ->]|Hin]; [rewrite Z.eqb_refl in E; discriminate|]. apply IH; [exact Hin|]. intros v' H. apply Hu. now right.
Qed.

Lemma fix_jump_effect lmap out old new out' op rel :
  fix_jump lmap out (old, new) = POk out' -> nth_error out (Z.to_nat new) = Some (op, rel) ->
  exists tgt, zassoc (jump_target op old rel) lmap = Some tgt /\
              nth_error out' (Z.to_nat new) = Some (op, Z.abs (tgt - (new + jump_base op))) /\
              forall m, m <> Z.to_nat new -> nth_error out' m = nth_error out m.
Proof.
  unfold fix_jump, jump_target, is_backward. intros H E. rewrite E in H.
  destruct (zassoc _ lmap) as [tgt|]; [|discriminate]. destruct (byte_ok _); [|discriminate]. injection H as <-.
  exists tgt. split; [reflexivity|]. split.
  - apply set_nth_same. apply nth_error_Some. congruence.
  - intros m Hm. apply set_nth_other. congruence.
Qed.

Lemma fix_jumps_other lmap : forall js out out' m,
  fix_jumps lmap out js = POk out' -> ~ In m (map (fun j => Z.to_nat (snd j)) js) -> nth_error out' m = nth_error out m.
Proof.
  induction js as [|[o n] r IH]; intros out out' m H Hn; cbn [fix_jumps] in H; [now injection H as <-|].
  destruct (fix_jump lmap out (o, n)) as [o1|] eqn:E; [|discriminate].
  rewrite (IH _ _ _ H) by (intros Hin; apply Hn; now right).
  unfold fix_jump in E. destruct (nth_error out (Z.to_nat n)) as [[op rel]|]; [|discriminate].
  destruct (zassoc _ lmap); [|discriminate]. destruct (byte_ok _); [|discriminate]. injection E as <-.
  apply set_nth_other. intros Heq. apply Hn. left. cbn [snd]. exact Heq.
Qed.

Lemma fix_jumps_effect lmap : forall js out out',
  NoDup (map (fun j => Z.to_nat (snd j)) js) ->
  fix_jumps lmap out js = POk out' ->
  forall old new op rel, In (old, new) js -> nth_error out (Z.to_nat new) = Some (op, rel) ->
  exists tgt, zassoc (jump_target op old rel) lmap = Some tgt /\
              nth_error out' (Z.to_nat new) = Some (op, Z.abs (tgt - (new + jump_base op))).
Proof.
  induction js as [|[o n] r IH]; intros out out' Hnd H old new op rel Hin Hout; [destruct Hin|].
  cbn [fix_jumps] in H. destruct (fix_jump lmap out (o, n)) as [o1|] eqn:E; [|discriminate].
  cbn [map snd] in Hnd. inversion Hnd as [|? ? Hnotin Hnd']; subst.
  destruct Hin as [[= -> ->]|Hin].
  - destruct (fix_jump_effect _ _ _ _ _ _ _ E Hout) as (tgt & Ht & Hv & _). exists tgt. split; [exact Ht|].
    rewrite (fix_jumps_other _ _ _ _ _ H Hnotin). exact Hv.
  - apply (IH o1 out' Hnd' H old new op rel Hin).
    assert (Hne : Z.to_nat new <> Z.to_nat n).
    { intros Heq. apply Hnotin. rewrite <- Heq. apply in_map_iff. exists (old, new). split; [reflexivity|exact Hin]. }
    unfold fix_jump in E. destruct (nth_error out (Z.to_nat n)) as [[op1 rel1]|]; [|discriminate].
    destruct (zassoc _ lmap); [|discriminate]. destruct (byte_ok _); [|discriminate]. injection E as <-.
    rewrite set_nth_other by congruence. exact Hout.
Qed.

Lemma jump_base_nonneg op : 0 <= jump_base op.
Proof. unfold jump_base. destruct Facts.py_at_least_3_10, Facts.py_at_least_3_11; lia. Qed.

Lemma Inv_init code : Inv code (Z.of_nat (length (@nil unit))) (mkSS [] [] [] false).
Proof. unfold Inv. cbn. repeat split; try (intros; contradiction). constructor. Qed.

(* Control flow is preserved: every relative jump of the original code sits, in the patched code, at the image of its
   position and goes to the image of its target (image = the rewriter's location map, which by Inv is monotone and
   never shrinks distances). *)
Theorem jumps_retargeted wrapper ayns names nested code out names' st :
  scan (S (length code)) wrapper ayns names code 0 (mkSS [] [] [] false) = POk st ->
  patch wrapper ayns names nested code = POk (Some (out, names')) ->
  forall old new, In (old, new) (s_rj st) ->
  exists op rel rel' tgt,
    nth_error code (Z.to_nat old) = Some (op, rel) /\ zmem op Facts.op_hasjrel = true /\
    zassoc old (s_map st) = Some new /\
    nth_error out (Z.to_nat new) = Some (op, rel') /\
    zassoc (jump_target op old rel) (s_map st) = Some tgt /\
    (0 <= rel -> (is_backward op = true -> jump_base op <= rel) -> jump_target op new rel' = tgt).
Proof.
  intros Hs Hp old new Hin.
  destruct (scan_inv code _ _ _ _ code [] _ _ eq_refl (Inv_init code) Hs) as (u' & I1 & I2 & I3 & I4).
  destruct (I3 _ _ Hin) as (Hm & op & rel & Hc & Ho & Hj).
  unfold patch in Hp. rewrite Hs in Hp. destruct (s_patched st || nested); [|discriminate].
  destruct (fix_jumps (s_map st) (s_out st) (rev (s_rj st))) as [o|] eqn:E; [|discriminate]. injection Hp as <- _.
  assert (Hnd : NoDup (map (fun j : Z * Z => Z.to_nat (snd j)) (rev (s_rj st)))).
  { rewrite map_rev. apply NoDup_rev. clear - I1 I3 I4. induction (s_rj st) as [|[k p] r IH]; [constructor|].
    cbn [map snd] in *. inversion I4 as [|? ? Hn Hd]; subst. constructor.
    - intros Hi. apply in_map_iff in Hi as ([k2 p2] & Hp & Hi). cbn [snd] in Hp.
      destruct (I3 k p (or_introl eq_refl)) as (Hm1 & _). destruct (I3 k2 p2 (or_intror Hi)) as (Hm2 & _).
      destruct (I1 _ _ Hm1) as (_ & ? & _). destruct (I1 _ _ Hm2) as (_ & ? & _).
      assert (p2 = p) by lia. subst p2. apply Hn. apply in_map_iff. exists (k2, p). split; [reflexivity|exact Hi].
    - apply IH; [|exact Hd]. intros k0 p0 H0. apply I3. now right. }
  destruct (fix_jumps_effect _ _ _ _ Hnd E old new op rel (proj1 (in_rev _ _) Hin) Ho) as (tgt & Ht & Hv).
  exists op, rel, (Z.abs (tgt - (new + jump_base op))), tgt.
  split; [exact Hc|]. split; [exact Hj|]. split.
  - apply In_zassoc; [exact Hm|]. intros v' Hv'. pose proof (I2 _ _ _ _ Hm Hv' (Z.le_refl _)). pose proof (I2 _ _ _ _ Hv' Hm (Z.le_refl _)). lia.
  - split; [exact Hv|]. split; [exact Ht|].
    intros Hrel Hback. apply zassoc_In in Ht. pose proof (jump_base_nonneg op) as Hb.
    unfold jump_target in *. destruct (is_backward op).
    + specialize (Hback eq_refl). pose proof (I2 _ _ _ _ Ht Hm) as H. lia.
    + pose proof (I2 _ _ _ _ Hm Ht) as H. lia.
Qed.
