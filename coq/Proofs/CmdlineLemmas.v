(* Proofs/CmdlineLemmas.v — an inline command-line key written in NodePath syntax addresses exactly that path. *)
From AY Require Import Model.Cmdline.
From Coq Require Import Lia ZArith.

(* ---------- well-formed groups: an identifier followed by index groups ---------- *)
Definition name_ok (s : list ascii) : bool := match s with [] => false | _ => forallb is_ident s end.
Definition digits_ok (d : list ascii) : bool :=
  match d with [] => false | _ => forallb is_digit d end && ascii_list_eqb (norm_digits d) d.
Definition group_ok (g : list ascii * list (list ascii)) : bool := name_ok (fst g) && forallb digits_ok (snd g).

Definition bracket (d : list ascii) : list ascii := ch_lb :: d ++ [ch_rb].
Definition render_group (g : list ascii * list (list ascii)) : list ascii := fst g ++ flat_map bracket (snd g).
Fixpoint render_groups (gs : list (list ascii * list (list ascii))) : list ascii :=
  match gs with
  | [] => []
  | [g] => render_group g
  | g :: r => render_group g ++ ch_dot :: render_groups r
  end.

(* ---------- characters ---------- *)
Lemma ident_not c : is_ident c = true ->
  Ascii.eqb c ch_dot = false /\ Ascii.eqb c ch_lb = false /\ Ascii.eqb c ch_rb = false /\ is_ws c = false.
Proof.
  intros H. unfold is_ident, is_ws, ch_dot, ch_lb, ch_rb in *.
  destruct c as [[] [] [] [] [] [] [] []]; cbn in *; try discriminate; repeat split; reflexivity.
Qed.

Lemma digit_not c : is_digit c = true ->
  Ascii.eqb c ch_dot = false /\ Ascii.eqb c ch_lb = false /\ Ascii.eqb c ch_rb = false /\ is_ws c = false.
Proof.
  intros H. unfold is_digit, is_ws, ch_dot, ch_lb, ch_rb in *.
  destruct c as [[] [] [] [] [] [] [] []]; cbn in *; try discriminate; repeat split; reflexivity.
Qed.

Lemma ascii_list_eqb_eq a b : ascii_list_eqb a b = true -> a = b.
Proof.
  revert b. induction a as [|x r IH]; intros [|y t] H; cbn in H; try discriminate; [reflexivity|].
  apply andb_prop in H as [H1 H2]. apply Ascii.eqb_eq in H1. subst. f_equal. now apply IH.
Qed.

(* ---------- split on '.' ---------- *)
Definition no_dot (s : list ascii) : Prop := Forall (fun c => Ascii.eqb c ch_dot = false) s.

Lemma split_char_nodot s : no_dot s -> split_char ch_dot s = [s].
Proof.
  induction 1 as [|c r Hc _ IH]; [reflexivity|]. cbn [split_char]. rewrite Hc, IH. reflexivity.
Qed.

Lemma split_char_app s t : no_dot s -> split_char ch_dot (s ++ ch_dot :: t) = s :: split_char ch_dot t.
Proof.
  induction 1 as [|c r Hc _ IH]; cbn [app split_char].
  - rewrite Ascii.eqb_refl. reflexivity.
  - rewrite Hc, IH. reflexivity.
Qed.

Lemma group_no_dot g : group_ok g = true -> no_dot (render_group g).
Proof.
  unfold group_ok, render_group, name_ok. destruct g as [name idx]. cbn [fst snd]. intros H. apply andb_prop in H as [Hn Hi].
  apply Forall_app. split.
  - destruct name; [discriminate|]. rewrite forallb_forall in Hn. apply Forall_forall. intros c Hc. now apply ident_not, Hn.
  - rewrite forallb_forall in Hi. apply Forall_forall. intros c Hc. apply in_flat_map in Hc as (d & Hd & Hc).
    specialize (Hi d Hd). unfold digits_ok in Hi. apply andb_prop in Hi as [Hi _]. destruct d; [discriminate|].
    unfold bracket in Hc. destruct Hc as [<-|Hc]; [reflexivity|]. apply in_app_or in Hc as [Hc|[<-|[]]]; [|reflexivity].
    rewrite forallb_forall in Hi. now apply digit_not, Hi.
Qed.

Lemma split_render gs : Forall (fun g => group_ok g = true) gs -> gs <> [] ->
  split_char ch_dot (render_groups gs) = map render_group gs.
Proof.
  induction 1 as [|g r Hg Hr IH]; intros Hne; [congruence|]. destruct r as [|g2 r2].
  - cbn [render_groups map]. apply split_char_nodot. now apply group_no_dot.
  - change (render_groups (g :: g2 :: r2)) with (render_group g ++ ch_dot :: render_groups (g2 :: r2)).
    rewrite split_char_app by now apply group_no_dot. cbn [map]. f_equal. apply IH. discriminate.
Qed.

(* ---------- strip ---------- *)
Lemma lstrip_first c r : is_ws c = false -> lstrip_ws (c :: r) = c :: r.
Proof. intros H. cbn [lstrip_ws]. now rewrite H. Qed.

Lemma strip_id s c r c' r' : s = c :: r -> is_ws c = false -> rev s = c' :: r' -> is_ws c' = false -> strip_ws s = s.
Proof.
  intros -> Hc Hr Hc'. unfold strip_ws. rewrite (lstrip_first _ _ Hc), Hr, (lstrip_first _ _ Hc'), <- Hr. apply rev_involutive.
Qed.

Lemma rev_last_in {A} (l : list A) x r : rev l = x :: r -> In x l.
Proof. intros H. apply in_rev. rewrite H. now left. Qed.

Lemma flat_bracket_snoc idx d : flat_map bracket (idx ++ [d]) = flat_map bracket idx ++ ch_lb :: d ++ [ch_rb].
Proof. rewrite flat_map_app. cbn [flat_map]. now rewrite app_nil_r. Qed.

Lemma render_group_ends g : group_ok g = true ->
  exists c r c' r', render_group g = c :: r /\ is_ws c = false /\ rev (render_group g) = c' :: r' /\ is_ws c' = false /\
                    (snd g = [] -> Ascii.eqb c' ch_rb = false).
Proof.
  destruct g as [name idx]. unfold group_ok, render_group, name_ok. cbn [fst snd]. intros H. apply andb_prop in H as [Hn Hi].
  destruct name as [|c n]; [discriminate|]. rewrite forallb_forall in Hn.
  exists c, (n ++ flat_map bracket idx). 
  assert (Hc : is_ws c = false) by (apply ident_not, Hn; now left).
  destruct idx as [|d0 idx0] using rev_ind.
  - cbn [flat_map]. rewrite app_nil_r. destruct (rev (c :: n)) as [|c' r'] eqn:E; [apply (f_equal (@length _)) in E; rewrite rev_length in E; discriminate|].
    exists c', r'. pose proof (rev_last_in _ _ _ E) as Hin. destruct (ident_not c' (Hn _ Hin)) as (_ & _ & Hrb & Hws).
    repeat split; auto. now rewrite app_nil_r.
  - clear IHidx0. rewrite flat_bracket_snoc. exists ch_rb.
    eexists. repeat split; [exact Hc| |].
    + replace ((c :: n) ++ flat_map bracket idx0 ++ ch_lb :: d0 ++ [ch_rb]) with (((c :: n) ++ flat_map bracket idx0 ++ ch_lb :: d0) ++ [ch_rb])
        by (rewrite <- !app_assoc; cbn [app]; reflexivity).
      rewrite rev_app_distr. cbn [rev app]. reflexivity.
    + intros E. destruct idx0; discriminate.
Qed.

(* ---------- peeling the index groups ---------- *)
Lemma rsplit_none d : Forall (fun c => Ascii.eqb c ch_lb = false) d -> rsplit_lb d = None.
Proof. induction 1 as [|c r Hc _ IH]; [reflexivity|]. cbn [rsplit_lb]. now rewrite IH, Hc. Qed.

Lemma rsplit_app X d : Forall (fun c => Ascii.eqb c ch_lb = false) d -> rsplit_lb (X ++ ch_lb :: d) = Some (X, d).
Proof.
  intros H. induction X as [|x X IH]; cbn [app rsplit_lb].
  - rewrite (rsplit_none _ H). now rewrite Ascii.eqb_refl.
  - now rewrite IH.
Qed.

Lemma removelast_snoc {A} (l : list A) x : removelast (l ++ [x]) = l.
Proof. apply removelast_last. Qed.

Lemma peel_groups name : name_ok name = true -> forall idx acc fuel,
  Forall (fun d => digits_ok d = true) idx -> (length idx < fuel)%nat ->
  peel fuel (name ++ flat_map bracket idx) acc = Some (name, idx ++ acc).
Proof.
  intros Hn idx. induction idx as [|d idx IH] using rev_ind; intros acc fuel Hi Hf.
  - cbn [flat_map]. rewrite app_nil_r. destruct fuel as [|fu]; [cbn in Hf; lia|]. cbn [peel].
    destruct (render_group_ends (name, []) ) as (c & r & c' & r' & E1 & _ & E2 & _ & E3).
    { unfold group_ok. cbn [fst snd forallb]. now rewrite Hn. }
    unfold render_group in *. cbn [fst snd flat_map] in *. rewrite app_nil_r in *.
    unfold ends_with_rb. rewrite E2, (E3 eq_refl). reflexivity.
  - apply Forall_app in Hi as [Hi Hd]. inversion Hd as [|? ? Hd1 _]; subst. rewrite app_length in Hf. cbn [length] in Hf.
    destruct fuel as [|fu]; [lia|]. cbn [peel]. rewrite flat_bracket_snoc.
    unfold digits_ok in Hd1. apply andb_prop in Hd1 as [Hd1 Hnorm]. apply ascii_list_eqb_eq in Hnorm.
    assert (Hne : d <> []) by (destruct d; [discriminate|discriminate]).
    assert (Hdig : forallb is_digit d = true) by (destruct d; [discriminate|exact Hd1]).
    assert (Hend : ends_with_rb (name ++ flat_map bracket idx ++ ch_lb :: d ++ [ch_rb]) = true).
    { unfold ends_with_rb.
      replace (name ++ flat_map bracket idx ++ ch_lb :: d ++ [ch_rb]) with ((name ++ flat_map bracket idx ++ ch_lb :: d) ++ [ch_rb])
        by (rewrite <- !app_assoc; cbn [app]; reflexivity).
      rewrite rev_app_distr. cbn [rev app]. apply Ascii.eqb_refl. }
    rewrite Hend.
    replace (name ++ flat_map bracket idx ++ ch_lb :: d ++ [ch_rb]) with (((name ++ flat_map bracket idx) ++ ch_lb :: d) ++ [ch_rb])
      by (rewrite <- !app_assoc; cbn [app]; reflexivity).
    rewrite removelast_snoc, rsplit_app.
    + destruct d as [|d0 dr]; [congruence|]. rewrite Hdig, Hnorm. rewrite IH by (auto; lia). now rewrite <- app_assoc.
    + rewrite forallb_forall in Hdig. apply Forall_forall. intros c Hc. now apply digit_not, Hdig.
Qed.

Lemma parse_part_render g : group_ok g = true -> parse_part (render_group g) = Some g.
Proof.
  intros Hg. destruct (render_group_ends g Hg) as (c & r & c' & r' & E1 & Hc & E2 & Hc' & _).
  unfold parse_part. rewrite (strip_id _ _ _ _ _ E1 Hc E2 Hc').
  destruct g as [name idx]. unfold group_ok in Hg. cbn [fst snd] in Hg. apply andb_prop in Hg as [Hn Hi].
  unfold render_group. cbn [fst snd]. rewrite peel_groups; [now rewrite app_nil_r|exact Hn| |].
  - apply Forall_forall. rewrite forallb_forall in Hi. exact Hi.
  - rewrite app_length. assert (length idx <= length (flat_map bracket idx))%nat.
    { clear. induction idx as [|d idx IH]; [cbn; lia|]. cbn [flat_map]. rewrite app_length. unfold bracket at 1. cbn [length]. lia. }
    lia.
Qed.

Lemma parse_parts_render gs : Forall (fun g => group_ok g = true) gs -> parse_parts (map render_group gs) = Some gs.
Proof.
  induction 1 as [|g r Hg _ IH]; [reflexivity|]. cbn [map parse_parts]. now rewrite (parse_part_render g Hg), IH.
Qed.

(* the key "a.b[1][2].c" addresses the path a, b, 1, 2, c *)
Theorem inline_path_render gs : Forall (fun g => group_ok g = true) gs -> gs <> [] ->
  inline_path (render_groups gs) = Some (comps_of gs).
Proof.
  intros H Hne. unfold inline_path. rewrite (split_render gs H Hne), (parse_parts_render gs H). reflexivity.
Qed.

(* ... and that rendering is NodePath's own rendering of the path (Model/Path.v join) *)
Lemma join_comps : forall gs first, Forall (fun g => group_ok g = true) gs ->
  join first (comps_of gs) = (if first then [] else match gs with [] => [] | _ => [ch_dot] end) ++ render_groups gs.
Proof.
  induction gs as [|[name idx] r IH]; intros first H; [destruct first; reflexivity|].
  inversion H as [|? ? Hg Hr]; subst. unfold comps_of in *. cbn [flat_map fst snd app]. cbn [join].
  assert (Hidx : forall l rest, join false (map (fun d => PI false d) l ++ rest) = flat_map bracket l ++ join false rest).
  { induction l as [|d l IHl]; intros rest; [reflexivity|]. cbn [map app join flat_map bracket]. rewrite IHl. now rewrite <- !app_assoc. }
  rewrite Hidx, (IH false Hr). destruct r as [|g2 r2].
  - cbn [render_groups render_group fst snd]. rewrite !app_nil_r. destruct first; reflexivity.
  - change (render_groups ((name, idx) :: g2 :: r2)) with (render_group (name, idx) ++ ch_dot :: render_groups (g2 :: r2)).
    unfold render_group. cbn [fst snd]. rewrite <- !app_assoc. destruct first; reflexivity.
Qed.

Theorem inline_path_of_nodepath gs : Forall (fun g => group_ok g = true) gs -> gs <> [] ->
  inline_path (join true (comps_of gs)) = Some (comps_of gs).
Proof. intros H Hne. rewrite (join_comps gs true H). cbn [app]. now apply inline_path_render. Qed.
