(* Proofs/SrcMergeOk.v — the control skeletons TRANSLATED from the Python source of the four on_merge_impl methods
   (Gen/SrcMerge.v, regenerated on every run by tools/translate_merge.py) are the hand-written rules of Model/Merge.v
   that every merge theorem of the development unfolds (with no aliased paths, which only !clear leaves behind). *)
From AY Require Import Model.Merge Gen.SrcMerge.

Lemma fold_left_ext {A B} (f g : A -> B -> A) : (forall a b, f a b = g a b) -> forall l a, fold_left f l a = fold_left g l a.
Proof. intros H l. induction l as [|b l IH]; intro a; cbn; [reflexivity|]. now rewrite H, IH. Qed.

(* ConfigNode.on_merge_impl *)
Lemma srcm_leaf_merge s o : SrcM.leaf_merge s o = leaf_merge s o.
Proof. unfold SrcM.leaf_merge, SrcM.leaf_rule, leaf_merge. destruct (has_priority_over s o false); reflexivity. Qed.

(* the body of the loop of ComposedNode.on_merge_impl is merge_step *)
Ltac step_solve :=
  repeat match goal with
         | |- context [match ?x with Some _ => _ | None => _ end] => destruct x
         | |- context [if ?b then _ else _] => destruct b
         | |- context [match ?w with Self => _ | Other => _ end] => destruct w
         end; try reflexivity.

(* ComposedNode.on_merge_impl *)
Lemma srcm_comp_merge rec p s o : SrcM.comp_merge rec p s o = comp_merge rec [] p s o.
Proof.
  unfold SrcM.comp_merge, comp_merge, prune. rewrite srcm_leaf_merge.
  assert (Step : forall l a,
    fold_left (fun (acc : res node) (kv : key * node) => do cur <- acc; let '(k, v) := kv in
      match get_child cur k with
      | None => if require_all_new v (p ++ [k]) [] true then match set_child cur k v with Some c => Ok c | None => Err EMerge p end else Err EMerge p
      | Some c => do nr <- rec (p ++ [k]) c v; let '(n, w) := nr in
        if is_comp c
        then if (negb (truthy n) && (negb (has_priority_over n v false) && explicit_delete v))%bool
             then match remove_child cur k with Some c' => Ok c' | None => Err EMerge p end
             else if match w with Other => true | Self => false end
                  then match set_child cur k n with Some c' => Ok c' | None => Err EMerge p end
                  else Ok (put_child cur k n)
        else if match w with Other => true | Self => false end
             then if require_all_new n (p ++ [k]) [] false
                  then if (negb (truthy n) && explicit_delete n)%bool
                       then match remove_child cur k with Some c' => Ok c' | None => Err EMerge p end
                       else match set_child cur k n with Some c' => Ok c' | None => Err EMerge p end
                  else Err EMerge p
             else Ok (put_child cur k n)
      end) l a = fold_left (merge_step rec [] p) l a).
  { apply fold_left_ext. intros [cur|e q] [k v]; [|reflexivity]. unfold merge_step. cbn [bind path_in existsb].
    destruct (get_child cur k) as [c|]; [|reflexivity].
    destruct (rec (p ++ [k]) c v) as [[n w]|e q]; [|reflexivity]. cbn [bind].
    destruct (is_comp c), (truthy n), (has_priority_over n v false), (explicit_delete v), (explicit_delete n), w; cbn [negb andb]; try reflexivity;
      destruct (require_all_new n (p ++ [k]) [] false); reflexivity. }
  destruct o as [lk lf lv|ck cf cx cho]; [reflexivity|]. cbn [is_comp negb children].
  destruct (delete (Comp ck cf cx cho)).
  - destruct (filter_nodes _ p s) as [s' removed].
    destruct (match children s' with [] => true | _ :: _ => false end && has_priority_over (Comp ck cf cx cho) s' true)%bool.
    + destruct (require_all_new (Comp ck cf cx cho) p (p :: removed) true); [|reflexivity].
      destruct (replace_other (Comp ck cf cx cho) s' true); reflexivity.
    + rewrite Step. destruct (fold_left (merge_step rec [] p) cho (Ok s')) as [s2|e q]; [|reflexivity]. cbn [bind].
      destruct (has_priority_over (Comp ck cf cx cho) s2 true).
      * destruct (replace_self s2 (Comp ck cf cx cho) true); reflexivity.
      * destruct (replace_other s2 (Comp ck cf cx cho) true); reflexivity.
  - rewrite Step. destruct (fold_left (merge_step rec [] p) cho (Ok s)) as [s2|e q]; [|reflexivity]. cbn [bind].
    destruct (has_priority_over (Comp ck cf cx cho) s2 true).
    + destruct (replace_self s2 (Comp ck cf cx cho) true); reflexivity.
    + destruct (replace_other s2 (Comp ck cf cx cho) true); reflexivity.
Qed.

(* FunctionNode.on_merge_impl (self is a call / bind node) *)
Lemma srcm_func_merge rec als p ks fs xs chs o :
  SrcM.func_merge (comp_merge rec als) p (Comp ks fs xs chs) o = func_merge rec als p (Comp ks fs xs chs) o.
Proof.
  unfold SrcM.func_merge, func_merge. cbn [SrcM.func_of clear_children set_x].
  destruct (is_str_leaf o); [destruct (has_priority_over o (Comp ks fs xs chs) true); reflexivity|].
  destruct (match node_x o with Some x => negb (scalar_eqb xs x) | None => false end); [|reflexivity].
  destruct (has_priority_over o (Comp ks fs xs chs) true); cbn [negb]; [|reflexivity].
  destruct (delete o); reflexivity.
Qed.

(* ConfigList.on_merge_impl *)
Lemma srcm_list_merge rec als p s o : SrcM.list_merge (comp_merge rec als) p s o = list_merge rec als p s o.
Proof.
  unfold SrcM.list_merge, list_merge, keep_if_exists.
  destruct o as [lk lf lv|ko fo xo cho]; [reflexivity|]. cbn [is_dictk is_comp children].
  destruct (negb (is_listk ko) && negb (delete (Comp ko fo xo cho)) && negb (dict_keys_ok (zlen (children s)) cho))%bool; [reflexivity|].
  destruct (filter_nodes _ [] (Comp ko fo xo cho)) as [f1 rm] eqn:E. cbn [fst]. reflexivity.
Qed.

(* round 7: _require_all_new of ConfigNode / ComposedNode, translated, is the model's require_all_new: every visited node allows new paths
   or its path is among the exceptions; the walk starts at the given prefix and includes the node itself iff include_self *)
Lemma srcm_require_all_new n p exc inc : SrcM.require_all_new n p exc inc = require_all_new n p exc inc.
Proof.
  assert (E : forall pn : path * node,
            negb (andb (negb (allow_new (nflags (snd pn)))) (negb (path_in (fst pn) exc))) = (allow_new (nflags (snd pn)) || path_in (fst pn) exc)%bool).
  { intro pn. destruct (allow_new (nflags (snd pn))), (path_in (fst pn) exc); reflexivity. }
  unfold SrcM.require_all_new, require_all_new. destruct n as [k f v|k f x ch].
  - destruct inc; cbn [negb forallb]; [rewrite E, Bool.andb_true_r; reflexivity|reflexivity].
  - induction (nodes_with_paths p (Comp k f x ch) inc) as [|a l IH]; cbn [forallb]; [reflexivity|]. now rewrite E, IH.
Qed.

(* round 7: Builder.flatten and ConfigNode.merge, translated: all stages mappings; the first stage premerged against nothing and required to
   allow new paths; then the left fold, in index order, of root.merge(stage) = premerge against the current root, then the recursive merge *)
Lemma srcm_merge2 e root other : SrcM.merge2 e root other = merge2 e root other.
Proof. reflexivity. Qed.

Lemma srcm_flatten e stages : SrcM.flatten e stages = flatten e stages.
Proof.
  unfold SrcM.flatten, flatten. destruct stages as [|s0 rest]; [reflexivity|]. destruct (forallb is_dictk (s0 :: rest)); [|reflexivity].
  destruct (on_premerge e [] s0 None) as [[[[s0' a] b] c]|ek q]; cbn [bind]; [|reflexivity]. rewrite srcm_require_all_new. reflexivity.
Qed.
