(* Proofs/XRef.v — following a chain of references always terminates: a cycle is reported, never looped on (C09). *)
From AY Require Import Model.Eval Proofs.NodeInd Proofs.Walk Proofs.EvalInv.

Lemma aget_in {V} k (l : list (key * V)) v : aget k l = Some v -> In (k, v) l.
Proof.
  induction l as [|[k' v'] r IH]; cbn; [discriminate|].
  destruct (key_eqb k k') eqn:E; intro H; [inversion H; subst; apply key_eqb_eq in E; subst; auto|auto].
Qed.

Lemma keys_enum_has : forall l i k, keys_enum i l -> ahas k l = true -> exists z, k = KI z /\ i <= z < i + zlen l.
Proof.
  induction l as [|[k' c] r IH]; intros i k HK H; [discriminate|].
  cbn in HK. destruct HK as [Hk HK]. cbn in Hk. subst k'. unfold ahas in H. cbn [aget] in H.
  destruct (key_eqb k (KI i)) eqn:E.
  - apply key_eqb_eq in E. subst k. exists i. split; [reflexivity|]. unfold zlen. cbn [length]. lia.
  - destruct (IH (i + 1) k HK) as (z & -> & Hz); [unfold ahas; exact H|]. exists z. split; [reflexivity|]. unfold zlen in *. cbn [length]. lia.
Qed.

Lemma get_node_in_nwp : forall q n pre m, WF n -> get_node n q = Some m -> In (pre ++ q, m) (nwp pre n).
Proof.
  induction q as [|k r IH]; intros n pre m Hwf H.
  - cbn in H. inversion H; subst. rewrite app_nil_r. destruct m; [cbn; auto|rewrite nwp_comp; left; reflexivity].
  - cbn [get_node] in H. destruct (has_child n k) eqn:Eh; [|discriminate].
    destruct (get_child n k) as [c|] eqn:Eg; [|discriminate].
    destruct n as [lk f v|ck f x ch]; [discriminate|].
    inversion Hwf as [|? ? ? ? HF HK]; subst.
    assert (Hin : In (k, c) ch).
    { cbn [get_child has_child] in *. destruct (is_listk ck).
      - destruct (keys_enum_has ch 0 k HK Eh) as (z & -> & Hz). rewrite validate_in_range in Eg by lia. apply aget_in. exact Eg.
      - apply aget_in. exact Eg. }
    assert (Hwc : WF c) by (rewrite Forall_forall in HF; apply (HF (k, c) Hin)).
    rewrite nwp_comp. right. apply in_flat_map. exists (k, c). split; [exact Hin|]. cbn [fst snd].
    replace (pre ++ k :: r) with ((pre ++ [k]) ++ r) by (rewrite <- app_assoc; reflexivity).
    apply IH; assumption.
Qed.

Lemma nwp_length : forall n pre, length (nwp pre n) = nsize n.
Proof.
  induction n as [k f v|k f x ch IH] using node_ind'; intro pre; [reflexivity|].
  rewrite nwp_comp, nsize_comp. cbn [length]. f_equal.
  induction IH as [|kc r Hkc Hr IHr]; cbn; [reflexivity|]. rewrite app_length, Hkc, IHr. reflexivity.
Qed.

Definition noFuelE {A} (r : res A) : Prop := match r with Err EFuel _ => False | _ => True end.

(* the loop of XRefNode.on_evaluate_impl never exhausts its own budget: every step adds a new existing path to the chain *)
Theorem follow_terminates root pe rec p ras : WF root ->
  (forall r n q st, noFuelE (rec r n q st)) ->
  forall ff ts z st, NoDup ts -> (forall t, In t ts -> In t (map fst (nwp [] root))) -> (length ts + ff > nsize root)%nat ->
  noFuelE (follow root pe rec p ras ff (p :: ts) z st).
Proof.
  intros Hwf Hrec. induction ff as [|ff IH]; intros ts z st Hnd Hin Hlen.
  - exfalso. assert (length ts <= length (map fst (nwp [] root)))%nat by (apply NoDup_incl_length; [exact Hnd|exact Hin]).
    rewrite map_length, nwp_length in H. lia.
  - cbn [follow]. destruct (plookup pe z) as [tp|]; [|exact I].
    destruct (if ras then None else lookup_path tp (done st)) as [cv|].
    + destruct (path_in tp (p :: ts)); exact I.
    + destruct (get_node root tp) as [tn|] eqn:Eg; [|exact I].
      destruct (path_in tp (p :: ts)) eqn:Ep; [exact I|].
      destruct (is_xref tn) as [z'|]; [|apply Hrec].
      change ((p :: ts) ++ [tp]) with (p :: (ts ++ [tp])).
      assert (Hnt : ~ In tp ts).
      { intro Hi. assert (path_in tp (p :: ts) = true) by (apply path_in_In; right; exact Hi). congruence. }
      apply IH.
      * apply NoDup_app_disjoint; [exact Hnd|repeat constructor; intros []|]. intros y Hy [E|[]]. subst y. contradiction.
      * intros t Ht. apply in_app_or in Ht. destruct Ht as [Ht|[E|[]]]; [apply Hin; exact Ht|]. subst t.
        apply in_map_iff. exists (tp, tn). split; [reflexivity|]. apply (get_node_in_nwp tp root [] tn Hwf Eg).
      * rewrite app_length. cbn [length]. lia.
Qed.

(* in particular with the budget the evaluator gives it *)
Corollary xref_loop_terminates root pe rec p ras z st : WF root ->
  (forall r n q st, noFuelE (rec r n q st)) ->
  noFuelE (follow root pe rec p ras (S (nsize root)) [p] z st).
Proof.
  intros Hwf Hrec. apply (follow_terminates root pe rec p ras Hwf Hrec (S (nsize root)) [] z st); [constructor|intros t []|cbn; lia].
Qed.

(* a reference to itself, or a cycle of references, is an evaluation error *)
Lemma self_reference_is_error root pe rec p ras z st ff :
  plookup pe z = Some p -> get_node root p <> None -> (ras = true \/ lookup_path p (done st) = None) ->
  exists q, follow root pe rec p ras (S ff) [p] z st = Err EEval q.
Proof.
  intros Hz Hg Hc. cbn [follow]. rewrite Hz.
  assert (E : (if ras then None else lookup_path p (done st)) = None) by (destruct Hc as [-> | ->]; [reflexivity|destruct ras; reflexivity]).
  rewrite E. destruct (get_node root p); [|contradiction].
  assert (path_in p [p] = true) as -> by (apply path_in_In; left; reflexivity). eauto.
Qed.
