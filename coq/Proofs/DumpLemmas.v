(* Proofs/DumpLemmas.v — dump then parse: content always survives; the whole tree survives when no mark is elided. *)
From AY Require Import Model.Dump Proofs.NodeInd Proofs.FlagsLemmas Proofs.LoaderLemmas Proofs.FactsOk.

(* ---------- the nested fixes of dump as list functions ---------- *)
Fixpoint dkids (ds : dstack) (l : list (key * node)) : res (list (key * ynode)) :=
  match l with [] => Ok [] | (k, c) :: r => do y <- dump ds c; do ys <- dkids ds r; Ok ((k, y) :: ys) end.
Fixpoint delems (ds : dstack) (l : list (key * node)) : res (list ynode) :=
  match l with [] => Ok [] | (_, c) :: r => do y <- dump ds c; do ys <- delems ds r; Ok (y :: ys) end.

Lemma dump_dict ds f x ch :
  dump ds (Comp CDict f x ch) =
  do o <- dump_own ds (Comp CDict f x ch) false true; do l <- dkids (snd o) ch; Ok (YM (fst o) l).
Proof.
  cbn [dump]. destruct (dump_own ds (Comp CDict f x ch) false true) as [o|]; cbn [bind]; [|reflexivity].
  match goal with |- (do l <- ?g ch; _) = _ => assert (E : forall l, g l = dkids (snd o) l) end.
  { induction l as [|[k c] r IH]; [reflexivity|]. cbn [dkids]. destruct (dump (snd o) c); cbn [bind]; [|reflexivity]. now rewrite IH. }
  now rewrite E.
Qed.

Lemma dump_list ds f x ch :
  dump ds (Comp CList f x ch) =
  do o <- dump_own ds (Comp CList f x ch) false true; do l <- delems (snd o) ch; Ok (YQ (fst o) l).
Proof.
  cbn [dump]. destruct (dump_own ds (Comp CList f x ch) false true) as [o|]; cbn [bind]; [|reflexivity].
  match goal with |- (do l <- ?g ch; _) = _ => assert (E : forall l, g l = delems (snd o) l) end.
  { induction l as [|[k c] r IH]; [reflexivity|]. cbn [delems]. destruct (dump (snd o) c); cbn [bind]; [|reflexivity]. now rewrite IH. }
  now rewrite E.
Qed.

(* ---------- content ---------- *)
Theorem dump_content : forall n ds y, dump ds n = Ok y -> yplain y = erase n.
Proof.
  induction n as [lk f v|k f x ch IH] using node_ind'; intros ds y H.
  - destruct lk; cbn [dump] in H; try discriminate.
    destruct (dump_own ds (Leaf LScalar f v) _ false); cbn [bind] in H; [|discriminate]. now injection H as <-.
  - destruct k; try (cbn [dump] in H; discriminate).
    + rewrite dump_dict in H. destruct (dump_own ds _ false true) as [o|]; cbn [bind] in H; [|discriminate].
      destruct (dkids (snd o) ch) as [l|] eqn:E; cbn [bind] in H; [|discriminate]. injection H as <-.
      rewrite yplain_YM, erase_comp. cbn [is_listk]. f_equal.
      revert l E. induction IH as [|[kk c] r Hc Hr IHr]; intros l E; cbn [dkids] in E.
      * now injection E as <-.
      * destruct (dump (snd o) c) as [yc|] eqn:Ec; cbn [bind] in E; [|discriminate].
        destruct (dkids (snd o) r) as [ys|] eqn:Er; cbn [bind] in E; [|discriminate]. injection E as <-.
        cbn [map fst snd]. rewrite (Hc _ _ Ec), (IHr _ eq_refl). reflexivity.
    + rewrite dump_list in H. destruct (dump_own ds _ false true) as [o|]; cbn [bind] in H; [|discriminate].
      destruct (delems (snd o) ch) as [l|] eqn:E; cbn [bind] in H; [|discriminate]. injection H as <-.
      rewrite yplain_YQ, erase_comp. cbn [is_listk]. f_equal.
      revert l E. induction IH as [|[kk c] r Hc Hr IHr]; intros l E; cbn [delems] in E.
      * now injection E as <-.
      * destruct (dump (snd o) c) as [yc|] eqn:Ec; cbn [bind] in E; [|discriminate].
        destruct (delems (snd o) r) as [ys|] eqn:Er; cbn [bind] in E; [|discriminate]. injection E as <-.
        cbn [map fst snd]. rewrite (Hc _ _ Ec), (IHr _ eq_refl). reflexivity.
Qed.

Theorem reparse_content c n n' : reparse c n = Ok n' -> erase n' = erase n.
Proof.
  unfold reparse, dump_doc. destruct (dump DS0 n) as [y|] eqn:E; cbn [bind]; [|discriminate].
  intros [= <-]. unfold load_doc. rewrite load_erase. now apply dump_content in E.
Qed.

(* ---------- no mark elided: the round trip is exact ---------- *)
Definition is_none (v : scalar) : bool := match v with SNone => true | _ => false end.

(* at this node the dumper drops nothing but unset keys, and the node carries no explicit standard priority *)
Definition kept_own (ds : dstack) (n : node) (is_null : bool) : Prop :=
  let f := nflags n in
  f_prio f <> Some Facts.default_priority /\
  t_del (own_tags ds n) = f_del f /\ t_new (own_tags ds n) = f_new f /\ t_safe (own_tags ds n) = f_safe f /\
  own_bad ds n is_null = false.

Fixpoint keptn (ds : dstack) (n : node) : Prop :=
  match n with
  | Leaf _ _ v => kept_own ds n (is_none v)
  | Comp _ _ _ ch =>
    kept_own ds n false /\
    (fix go (l : list (key * node)) : Prop := match l with [] => True | (_, c) :: r => keptn (own_stack ds n false) c /\ go r end) ch
  end.

Lemma keptn_comp ds k f x ch :
  keptn ds (Comp k f x ch) <->
  kept_own ds (Comp k f x ch) false /\ Forall (fun kc => keptn (own_stack ds (Comp k f x ch) false) (snd kc)) ch.
Proof.
  cbn [keptn]. set (ds' := own_stack ds (Comp k f x ch) false). clearbody ds'.
  match goal with |- (_ /\ ?g ch) <-> _ => assert (E : forall l, g l <-> Forall (fun kc => keptn ds' (snd kc)) l) end.
  { induction l as [|[kk c] r IH]; [split; [constructor|exact (fun _ => I)]|]. split.
    - intros [Hc Hr]. constructor; [exact Hc|now apply IH].
    - intros H. inversion H as [|? ? Hc Hr]; subst. split; [exact Hc|now apply IH]. }
  now rewrite E.
Qed.

Lemma inh_prio_elide inh ds tp :
  (forall q, d_prio ds = Some q -> inh = Some q) ->
  inh_prio inh (mkT tp None None None []) <> Some Facts.default_priority ->
  forall td tn ts tm,
  inh_prio inh (mkT (elide_z (inh_prio inh (mkT tp None None None [])) (d_prio ds) Facts.default_priority) td tn ts tm) =
  inh_prio inh (mkT tp None None None []).
Proof.
  intros Hinv Hne td tn ts tm. unfold inh_prio in *. cbn [t_prio] in *. destruct inh as [q|]; [reflexivity|].
  destruct (d_prio ds) as [q|] eqn:E; [now specialize (Hinv _ eq_refl)|].
  destruct tp as [p|]; [|reflexivity]. unfold elide_z. cbn [oz_eqb orb].
  destruct (p =? Facts.default_priority) eqn:Ep; [|reflexivity]. apply Z.eqb_eq in Ep. subst. now elim Hne.
Qed.

(* one node: what the dumper emits re-creates the very same own flags, and the stack it leaves only knows inherited priorities *)
Lemma own_roundtrip c inh kw t ds n is_null :
  nflags n = own_flags c inh kw t ->
  (forall q, d_prio ds = Some q -> inh = Some q) ->
  kept_own ds n is_null ->
  own_flags c inh kw (own_tags ds n) = own_flags c inh kw t /\
  inh_prio inh (own_tags ds n) = inh_prio inh t /\
  (forall q, d_prio (own_stack ds n is_null) = Some q -> inh_prio inh t = Some q).
Proof.
  intros Hf Hinv (Hp & Hd & Hn & Hs & _).
  assert (Hprio : inh_prio inh (own_tags ds n) = inh_prio inh t).
  { unfold own_tags. rewrite Hf. cbn [f_prio own_flags].
    pose proof (inh_prio_elide inh ds (t_prio t) Hinv) as H.
    assert (E : inh_prio inh (mkT (t_prio t) None None None []) = inh_prio inh t) by (unfold inh_prio; reflexivity).
    rewrite E in H. rewrite Hf in Hp. cbn [f_prio own_flags] in Hp. now apply H. }
  split; [|split; [exact Hprio|]].
  - unfold own_flags. rewrite Hprio. rewrite Hd, Hn, Hs. cbn [own_tags t_meta]. rewrite Hf. reflexivity.
  - intros q. unfold own_stack. destruct (own_lone ds n is_null).
    + intros H. apply Hinv in H. subst inh. reflexivity.
    + cbn [d_prio]. destruct (t_prio (own_tags ds n)) as [p|] eqn:E.
      * intros [= ->]. unfold own_tags in E. cbn [t_prio] in E. rewrite Hf in E. cbn [f_prio own_flags] in E.
        unfold elide_z in E. destruct (inh_prio inh t) as [p|]; [|discriminate].
        destruct (oz_eqb (Some p) (d_prio ds) || (p =? Facts.default_priority))%bool; [discriminate|]. exact E.
      * intros H. apply Hinv in H. subst inh. reflexivity.
Qed.

Lemma dump_own_ok ds n is_null composed :
  own_bad ds n is_null = false ->
  dump_own ds n is_null composed = Ok (own_tags ds n, if composed then own_stack ds n is_null else ds).
Proof. unfold dump_own. now intros ->. Qed.

Lemma own_tags_flags ds k f x ch ch' : own_tags ds (Comp k f x ch) = own_tags ds (Comp k f x ch').
Proof. reflexivity. Qed.

Theorem roundtrip_gen : forall y c inh kw ds,
  (forall q, d_prio ds = Some q -> inh = Some q) ->
  keptn ds (load c inh kw y) ->
  exists y', dump ds (load c inh kw y) = Ok y' /\ load c inh kw y' = load c inh kw y.
Proof.
  induction y as [t v|t l IH|t l IH] using ynode_ind'; intros c inh kw ds Hinv Hk.
  - cbn [load] in *. cbn [keptn] in Hk.
    destruct (own_roundtrip c inh kw t ds (Leaf LScalar (own_flags c inh kw t) v) (is_none v) eq_refl Hinv Hk) as (Hf & _ & _).
    destruct Hk as (_ & _ & _ & _ & Hb).
    eexists. split.
    + cbn [dump]. replace (match v with SNone => true | _ => false end) with (is_none v) by reflexivity.
      rewrite (dump_own_ok _ _ _ false Hb). cbn [bind fst]. reflexivity.
    + cbn [load]. now rewrite Hf.
  - rewrite load_YM in *. set (f := own_flags c inh kw t) in *.
    assert (Hgen : forall kw' ds', (forall q, d_prio ds' = Some q -> inh_prio inh t = Some q) ->
              Forall (fun kc => keptn ds' (snd kc)) (map (fun kx => (fst kx, load c (inh_prio inh t) kw' (snd kx))) l) ->
              exists l', dkids ds' (map (fun kx => (fst kx, load c (inh_prio inh t) kw' (snd kx))) l) = Ok l' /\
                map (fun kx => (fst kx, load c (inh_prio inh t) kw' (snd kx))) l' =
                map (fun kx => (fst kx, load c (inh_prio inh t) kw' (snd kx))) l).
    { intros kw' ds' Hst. clear Hk. induction IH as [|[k x] r Hx Hr IHr]; intros Hch.
      - exists []. split; reflexivity.
      - cbn [map fst snd] in Hch. inversion Hch as [|? ? Hc Hcr]; subst. cbn [snd] in Hc, Hx.
        destruct (Hx c (inh_prio inh t) kw' ds' Hst Hc) as (yx & Ex & Lx).
        destruct (IHr Hcr) as (l' & El & Ll).
        exists ((k, yx) :: l'). split.
        + cbn [map fst snd dkids]. rewrite Ex. cbn [bind]. rewrite El. reflexivity.
        + cbn [map fst snd]. rewrite Lx, Ll. reflexivity. }
    set (kids := map _ l) in *.
    apply keptn_comp in Hk as [Ho Hch].
    destruct (own_roundtrip c inh kw t ds (Comp CDict f SNone kids) false eq_refl Hinv Ho) as (Hf & Hp & Hst).
    destruct Ho as (_ & _ & _ & _ & Hb).
    destruct (Hgen _ _ Hst Hch) as (l' & El & Ll).
    exists (YM (own_tags ds (Comp CDict f SNone kids)) l'). split.
    + rewrite dump_dict, (dump_own_ok _ _ _ true Hb). cbn [bind fst snd]. subst kids. rewrite El. reflexivity.
    + rewrite load_YM. rewrite Hf, Hp. fold f. f_equal. exact Ll.
  - rewrite load_YQ in *. set (f := own_flags c inh kw t) in *.
    assert (Hgen : forall kw' ds', (forall q, d_prio ds' = Some q -> inh_prio inh t = Some q) ->
              forall i, Forall (fun kc => keptn ds' (snd kc)) (load_list c (inh_prio inh t) kw' i l) ->
              exists l', delems ds' (load_list c (inh_prio inh t) kw' i l) = Ok l' /\
                         load_list c (inh_prio inh t) kw' i l' = load_list c (inh_prio inh t) kw' i l).
    { intros kw' ds' Hst. clear Hk. induction IH as [|x r Hx Hr IHr]; intros i Hch.
      - exists []. split; reflexivity.
      - cbn [load_list] in Hch. inversion Hch as [|? ? Hc Hcr]; subst. cbn [snd] in Hc.
        destruct (Hx c (inh_prio inh t) kw' ds' Hst Hc) as (yx & Ex & Lx).
        destruct (IHr _ Hcr) as (l' & El & Ll).
        exists (yx :: l'). split.
        + cbn [load_list delems]. rewrite Ex. cbn [bind]. rewrite El. reflexivity.
        + cbn [load_list]. rewrite Lx, Ll. reflexivity. }
    set (kids := load_list _ _ _ _ l) in *.
    apply keptn_comp in Hk as [Ho Hch].
    destruct (own_roundtrip c inh kw t ds (Comp CList f SNone kids) false eq_refl Hinv Ho) as (Hf & Hp & Hst).
    destruct Ho as (_ & _ & _ & _ & Hb).
    destruct (Hgen _ _ Hst 0 Hch) as (l' & El & Ll).
    exists (YQ (own_tags ds (Comp CList f SNone kids)) l'). split.
    + rewrite dump_list, (dump_own_ok _ _ _ true Hb). cbn [bind fst snd]. subst kids. rewrite El. reflexivity.
    + rewrite load_YQ. rewrite Hf, Hp. fold f. f_equal. exact Ll.
Qed.

Theorem roundtrip_kept c y :
  keptn DS0 (load_doc c y) -> reparse c (load_doc c y) = Ok (load_doc c y).
Proof.
  intros Hk. unfold reparse, dump_doc, load_doc in *.
  destruct (roundtrip_gen y c None no_kw DS0) as (y' & E & L); [discriminate|exact Hk|].
  rewrite E. cbn [bind]. now rewrite L.
Qed.

(* dumping the re-parsed document produces the same graph again *)
Theorem dump_fixpoint_kept c y y1 :
  keptn DS0 (load_doc c y) -> dump_doc (load_doc c y) = Ok y1 -> dump_doc (load_doc c y1) = Ok y1.
Proof.
  intros Hk E. pose proof (roundtrip_kept c y Hk) as R. unfold reparse in R. rewrite E in R. cbn [bind] in R.
  injection R as R. now rewrite R.
Qed.
