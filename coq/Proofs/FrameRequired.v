(* Proofs/FrameRequired.v — C14's history clause on the general merge: a !required placeholder that a later stage overwrites with a value of
   equal or higher priority does not survive - at the placeholder's path the merged tree holds a node of the newer value's kind.  Built on
   Proofs/Frame.v (what the loop of ComposedNode.on_merge_impl does to the key it is about). *)
From AY Require Import Model.Merge Model.Eval Proofs.NodeInd Proofs.FlagsLemmas Proofs.MergePlain Proofs.Local Proofs.Frame.

Lemma Sim_required a b : Sim a b -> is_required a = is_required b.
Proof. intro H. inversion H; subst; reflexivity. Qed.

Lemma required_with_flags v f : is_required (with_flags v f) = is_required v.
Proof. destruct v as [[] ? ?|]; reflexivity. Qed.

Lemma explicit_delete_absorbed v g : explicit_delete (with_flags v (absorb (nflags v) g)) = explicit_delete v.
Proof. destruct v; reflexivity. Qed.

Section LeafHit.
  Variable rec : path -> node -> node -> res (node * who).

  (* the iteration that is about a key holding a non-container: the key then holds the outcome of the leaf rule, unless that outcome is an
     explicitly deleting node *)
  Lemma step_hit_leaf p f x ch k v c0 cur' : merge_step rec [] p (Ok (Comp CDict f x ch)) (k, v) = Ok cur' ->
    aget k ch = Some c0 -> is_comp c0 = false ->
    exists n w0 ch', rec (p ++ [k]) c0 v = Ok (n, w0) /\ cur' = Comp CDict f x ch' /\
                     (explicit_delete n = false -> exists c', aget k ch' = Some c' /\ Sim n c').
  Proof.
    intros H Hc Hcomp. unfold merge_step in H. cbn [bind get_child is_listk path_in existsb] in H. rewrite Hc in H.
    destruct (rec (p ++ [k]) c0 v) as [[n w0]|e q]; cbn [bind] in H; [|discriminate].
    rewrite Hcomp in H. exists n, w0. destruct w0.
    - inversion H; subst. cbn [put_child is_listk]. eexists. split; [reflexivity|]. split; [reflexivity|].
      intros _. eexists. split; [apply aget_aset_eq|apply Sim_refl].
    - destruct (require_all_new n (p ++ [k]) [] false); [|discriminate].
      destruct (explicit_delete n) eqn:Ed.
      + destruct (negb (truthy n) && true)%bool.
        * cbn [remove_child is_listk] in H. destruct (ahas k ch); [|discriminate]. inversion H; subst.
          eexists. split; [reflexivity|]. split; [reflexivity|]. discriminate.
        * cbn [set_child is_listk] in H. inversion H; subst. eexists. split; [reflexivity|]. split; [reflexivity|]. discriminate.
      + rewrite Bool.andb_false_r in H. cbn [set_child is_listk] in H. inversion H; subst.
        eexists. split; [reflexivity|]. split; [reflexivity|]. intros _. eexists. split; [apply aget_aset_eq|apply adopt_sim].
  Qed.

  Lemma steps_hit_leaf p k v c0 : forall cho f x ch s2, NoDup (map fst cho) -> aget k cho = Some v ->
    fold_left (merge_step rec [] p) cho (Ok (Comp CDict f x ch)) = Ok s2 ->
    aget k ch = Some c0 -> is_comp c0 = false ->
    exists n w0 ch2, rec (p ++ [k]) c0 v = Ok (n, w0) /\ s2 = Comp CDict f x ch2 /\
                     (explicit_delete n = false -> exists c', aget k ch2 = Some c' /\ Sim n c').
  Proof.
    induction cho as [|[k' v'] rest IH]; intros f x ch s2 Hnd Hk H Hc Hcomp; [discriminate|].
    cbn [map fst] in Hnd. inversion Hnd as [|? ? Hni Hnd']; subst. cbn [fold_left] in H. cbn [aget] in Hk.
    destruct (merge_step rec [] p (Ok (Comp CDict f x ch)) (k', v')) as [cur'|e q] eqn:Es; [|rewrite fold_merge_step_err in H; discriminate].
    destruct (key_eqb k k') eqn:E.
    - apply key_eqb_eq in E. subst k'. inversion Hk; subst v'.
      destruct (step_hit_leaf _ _ _ _ _ _ _ _ Es Hc Hcomp) as (n & w0 & ch' & Er & -> & Hn).
      assert (Hrest : aget k rest = None).
      { clear -Hni. induction rest as [|[k2 v2] r IHr]; cbn; [reflexivity|]. destruct (key_eqb k k2) eqn:E2.
        - apply key_eqb_eq in E2. subst. exfalso. apply Hni. now left.
        - apply IHr. intro. apply Hni. now right. }
      destruct (steps_frame rec [] p k _ _ _ _ _ H Hrest) as (ch2 & -> & E2).
      exists n, w0, ch2. repeat split; auto. intro Hd. destruct (Hn Hd) as (c' & Ec & HS). exists c'. split; [congruence|exact HS].
    - destruct (step_frame rec [] _ _ _ _ _ _ _ _ Es E) as (ch' & -> & E').
      rewrite <- E' in Hc. exact (IH _ _ _ _ Hnd' Hk H Hc Hcomp).
  Qed.

  Lemma comp_merge_hit_leaf p fs xs chs fo xo cho r w k v c0 :
    delete (Comp CDict fo xo cho) = false -> NoDup (map fst cho) ->
    comp_merge rec [] p (Comp CDict fs xs chs) (Comp CDict fo xo cho) = Ok (r, w) ->
    aget k chs = Some c0 -> aget k cho = Some v -> is_comp c0 = false ->
    exists n w0 f' ch', rec (p ++ [k]) c0 v = Ok (n, w0) /\ r = Comp CDict f' xs ch' /\
                        (explicit_delete n = false -> exists c', aget k ch' = Some c' /\ Sim n c').
  Proof.
    intros Hd Hnd H Hc Hk Hcomp. unfold comp_merge, prune in H. rewrite Hd in H.
    destruct (fold_left (merge_step rec [] p) cho (Ok (Comp CDict fs xs chs))) as [s2|e q] eqn:Ef; cbn [bind] in H; [|discriminate].
    destruct (steps_hit_leaf _ _ _ _ _ _ _ _ _ Hnd Hk Ef Hc Hcomp) as (n & w0 & ch2 & Er & -> & Hn).
    destruct (if has_priority_over (Comp CDict fo xo cho) (Comp CDict fs xs ch2) true then _ else _) as [r0 pr] eqn:Efin.
    inversion H; subst r0.
    destruct (aget k ch2) as [c1|] eqn:E2.
    - destruct (finish_dict _ _ _ _ _ _ _ _ _ _ Efin E2) as (f' & ch' & c' & -> & Ec & HS').
      exists n, w0, f', ch'. repeat split; auto. intro Hdn. destruct (Hn Hdn) as (c2 & Ec2 & HS2). inversion Ec2; subst c2.
      exists c'. split; [exact Ec|eapply Sim_trans; eauto].
    - (* the key was removed: only possible when the outcome deletes explicitly; the shape of r still is a mapping *)
      assert (Hshape : exists f' ch', r = Comp CDict f' xs ch').
      { destruct (has_priority_over (Comp CDict fo xo cho) (Comp CDict fs xs ch2) true).
        - unfold replace_self in Efin. cbn [with_flags nflags maybe_promote ckind_eqb fst snd] in Efin. unfold propagate in Efin. cbn [nflags] in Efin.
          rewrite prop_as_comp in Efin. destruct (prop_stops (become fs fo)); inversion Efin; subst; eauto.
        - unfold replace_other in Efin. cbn [with_flags nflags maybe_promote ckind_eqb fst snd] in Efin. inversion Efin; subst; eauto. }
      destruct Hshape as (f' & ch' & ->). exists n, w0, f', ch'. repeat split; auto.
      intro Hdn. destruct (Hn Hdn) as (c2 & Ec2 & _). discriminate.
  Qed.
End LeafHit.

Theorem placeholder_overwritten : forall q fuel p s o r w v f0 v0,
  q <> [] -> on_merge [] fuel p s o = Ok (r, w) -> nreach o q v -> dget s q = Some (Leaf LRequired f0 v0) ->
  has_priority_over (Leaf LRequired f0 v0) v false = false -> explicit_delete v = false ->
  exists c', dget r q = Some c' /\ is_required c' = is_required v.
Proof.
  induction q as [|k q' IH]; intros fuel p s o r w v f0 v0 Hq H Hm Hs Hp Hed; [congruence|].
  cbn [dget] in Hs. destruct s as [|ks fs xs chs]; [discriminate|]. destruct ks; try discriminate.
  destruct (aget k chs) as [c0|] eqn:Hc; [|discriminate].
  cbn [nreach] in Hm. destruct o as [|ko fo xo cho]; [contradiction|]. destruct ko; try contradiction.
  destruct Hm as (Hd & Hnd & Hm). destruct (aget k cho) as [vk|] eqn:Hk; [|contradiction].
  destruct fuel as [|fu]; [discriminate|]. cbn [on_merge dispatch is_funck is_listk] in H.
  destruct q' as [|k2 q2].
  - cbn in Hm, Hs. subst vk. inversion Hs; subst c0.
    destruct (comp_merge_hit_leaf _ _ _ _ _ _ _ _ _ _ _ _ _ Hd Hnd H Hc Hk eq_refl) as (n & w0 & f' & ch' & Er & -> & Hn).
    destruct fu as [|fu']; [discriminate|]. cbn [on_merge dispatch] in Er. unfold leaf_merge in Er. rewrite Hp in Er.
    unfold replace_other in Er. cbn [fst] in Er. inversion Er; subst n w0.
    destruct (Hn ltac:(rewrite explicit_delete_absorbed; exact Hed)) as (c' & Ec & HS).
    exists c'. cbn [dget]. rewrite Ec. split; [reflexivity|]. now rewrite <- (Sim_required _ _ HS), required_with_flags.
  - assert (Hcomp : is_comp c0 = true) by (destruct c0; [cbn in Hs; discriminate|reflexivity]).
    assert (Hedk : explicit_delete vk = false).
    { apply delete_explicit. cbn [nreach] in Hm. destruct vk as [|kv fv xv chv]; [contradiction|]. destruct kv; try contradiction. tauto. }
    destruct (comp_merge_hit _ _ _ _ _ _ _ _ _ _ _ _ _ Hd Hnd H Hc Hk Hcomp Hedk) as (n & w0 & f' & ch' & c' & Er & -> & Ec & HS).
    destruct (IH _ _ _ _ _ _ _ _ _ ltac:(discriminate) Er Hm Hs Hp Hed) as (c1 & E1 & R1).
    destruct (Sim_dget _ _ _ _ HS E1) as (c2 & E2 & HS2).
    exists c2. cbn [dget]. rewrite Ec. split; [exact E2|]. now rewrite <- (Sim_required _ _ HS2).
Qed.

(* ---------- any leaf of the older tree met by a value of the newer one, at any depth: the leaf rule decides, whatever surrounds the path ---------- *)
Theorem leaf_met_deep : forall q fuel p s o r w v c0,
  q <> [] -> on_merge [] fuel p s o = Ok (r, w) -> nreach o q v -> dget s q = Some c0 -> is_comp c0 = false ->
  explicit_delete (fst (leaf_merge c0 v)) = false ->
  exists c', dget r q = Some c' /\ Sim (fst (leaf_merge c0 v)) c'.
Proof.
  induction q as [|k q' IH]; intros fuel p s o r w v c0 Hq H Hm Hs Hleaf Hed; [congruence|].
  cbn [dget] in Hs. destruct s as [|ks fs xs chs]; [discriminate|]. destruct ks; try discriminate.
  destruct (aget k chs) as [ck|] eqn:Hc; [|discriminate].
  cbn [nreach] in Hm. destruct o as [|ko fo xo cho]; [contradiction|]. destruct ko; try contradiction.
  destruct Hm as (Hd & Hnd & Hm). destruct (aget k cho) as [vk|] eqn:Hk; [|contradiction].
  destruct fuel as [|fu]; [discriminate|]. cbn [on_merge dispatch is_funck is_listk] in H.
  destruct q' as [|k2 q2].
  - cbn in Hm, Hs. subst vk. inversion Hs; subst ck.
    destruct (comp_merge_hit_leaf _ _ _ _ _ _ _ _ _ _ _ _ _ Hd Hnd H Hc Hk Hleaf) as (n & w0 & f' & ch' & Er & -> & Hn).
    destruct fu as [|fu']; [discriminate|]. destruct c0 as [lk f0 v0|]; [|discriminate]. cbn [on_merge dispatch] in Er.
    assert (En : n = fst (leaf_merge (Leaf lk f0 v0) v)) by (inversion Er as [E1]; now rewrite E1). subst n.
    destruct (Hn Hed) as (c' & Ec & HS). exists c'. cbn [dget]. rewrite Ec. split; [reflexivity|exact HS].
  - assert (Hcomp : is_comp ck = true) by (destruct ck; [cbn in Hs; discriminate|reflexivity]).
    assert (Hedk : explicit_delete vk = false).
    { apply delete_explicit. cbn [nreach] in Hm. destruct vk as [|kv fv xv chv]; [contradiction|]. destruct kv; try contradiction. tauto. }
    destruct (comp_merge_hit _ _ _ _ _ _ _ _ _ _ _ _ _ Hd Hnd H Hc Hk Hcomp Hedk) as (n & w0 & f' & ch' & c' & Er & -> & Ec & HS).
    destruct (IH _ _ _ _ _ _ _ _ ltac:(discriminate) Er Hm Hs Hleaf Hed) as (c1 & E1 & R1).
    destruct (Sim_dget _ _ _ _ HS E1) as (c2 & E2 & HS2).
    exists c2. cbn [dget]. rewrite Ec. split; [exact E2|eapply Sim_trans; eauto].
Qed.

(* what the leaf rule leaves: the content and the priority of the winner - the older leaf only when its priority is strictly higher *)
Lemma leaf_merge_winner c0 v :
  let win := if has_priority_over c0 v false then c0 else v in
  erase (fst (leaf_merge c0 v)) = erase win /\ f_prio (nflags (fst (leaf_merge c0 v))) = f_prio (nflags win) /\
  explicit_delete (fst (leaf_merge c0 v)) = explicit_delete win.
Proof.
  cbv zeta. unfold leaf_merge. destruct (has_priority_over c0 v false); unfold replace_other; cbn [fst].
  - repeat split; [apply erase_with_flags|destruct c0; reflexivity|apply explicit_delete_absorbed].
  - repeat split; [apply erase_with_flags|destruct v; reflexivity|apply explicit_delete_absorbed].
Qed.

Lemma Sim_prio a b : Sim a b -> f_prio (nflags a) = f_prio (nflags b).
Proof. intro H. inversion H as [? ? ? ? Hse|? ? ? ? ? ? Hse]; subst; cbn; exact (proj1 Hse). Qed.

Theorem leaf_met_winner : forall q fuel p s o r w v c0,
  q <> [] -> on_merge [] fuel p s o = Ok (r, w) -> nreach o q v -> dget s q = Some c0 -> is_comp c0 = false ->
  explicit_delete c0 = false -> explicit_delete v = false ->
  let win := if has_priority_over c0 v false then c0 else v in
  exists c', dget r q = Some c' /\ erase c' = erase win /\ f_prio (nflags c') = f_prio (nflags win).
Proof.
  intros q fuel p s o r w v c0 Hq H Hm Hs Hleaf Hd0 Hdv win.
  destruct (leaf_merge_winner c0 v) as (Ee & Ep & Ed). fold win in Ee, Ep, Ed.
  assert (Hed : explicit_delete (fst (leaf_merge c0 v)) = false) by (rewrite Ed; unfold win; destruct (has_priority_over c0 v false); assumption).
  destruct (leaf_met_deep _ _ _ _ _ _ _ _ _ Hq H Hm Hs Hleaf Hed) as (c' & Ec & HS).
  exists c'. split; [exact Ec|]. split; [rewrite <- (Sim_erase _ _ HS); exact Ee|rewrite <- (Sim_prio _ _ HS); exact Ep].
Qed.
